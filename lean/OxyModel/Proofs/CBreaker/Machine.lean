import OxyModel.Model.CBreaker

/-! Helper lemmas about the breaker state machine of `Model/CBreaker.lean` (core tactics only). -/
namespace CB
open CBExpr

/-! ### one `complete` -/

theorem complete_true_iff (c : Cfg) (b : Brk) (now code : Nat) (orc : Oracle) :
    (complete c b now code orc).2 = true ↔
      (now > b.lastCheck ∧ b.state ≠ .tripped ∧
        (eval (reader now orc) c.cond (b.met.record now code)).2 = true) := by
  unfold complete checkAndSet
  by_cases h1 : now > b.lastCheck <;> by_cases h2 : b.state = .tripped <;>
    cases h3 : (eval (reader now orc) c.cond (b.met.record now code)).2 <;> simp [h1, h2, h3]

theorem complete_true (c : Cfg) (b : Brk) (now code : Nat) (orc : Oracle)
    (h : (complete c b now code orc).2 = true) :
    (complete c b now code orc).1 =
      { b with lastCheck := now + c.checkPeriod, state := .tripped, until_ := now + c.fallbackDur,
               tripped := b.tripped + 1,
               met := (eval (reader now orc) c.cond (b.met.record now code)).1.reset } := by
  obtain ⟨h1, h2, h3⟩ := (complete_true_iff c b now code orc).mp h
  unfold complete checkAndSet
  simp [h1, h2, h3]

theorem complete_true_fields (c : Cfg) (b : Brk) (now code : Nat) (orc : Oracle)
    (h : (complete c b now code orc).2 = true) :
    (complete c b now code orc).1.state = .tripped ∧
    (complete c b now code orc).1.until_ = now + c.fallbackDur ∧
    (complete c b now code orc).1.tripped = b.tripped + 1 ∧
    (complete c b now code orc).1.standbys = b.standbys ∧
    (complete c b now code orc).1.lastCheck = now + c.checkPeriod ∧
    (complete c b now code orc).1.met = (eval (reader now orc) c.cond (b.met.record now code)).1.reset := by
  rw [complete_true c b now code orc h]
  exact ⟨rfl, rfl, rfl, rfl, rfl, rfl⟩

theorem complete_false (c : Cfg) (b : Brk) (now code : Nat) (orc : Oracle)
    (h : (complete c b now code orc).2 = false) :
    (complete c b now code orc).1.state = b.state ∧ (complete c b now code orc).1.until_ = b.until_ ∧
    (complete c b now code orc).1.rc = b.rc ∧ (complete c b now code orc).1.tripped = b.tripped ∧
    (complete c b now code orc).1.standbys = b.standbys := by
  revert h
  unfold complete checkAndSet
  by_cases h1 : now > b.lastCheck <;> by_cases h2 : b.state = .tripped <;>
    cases h3 : (eval (reader now orc) c.cond (b.met.record now code)).2 <;> simp [h1, h2, h3]

/-- the evaluation schedule: a completion after `lastCheck` moves it to `now + checkPeriod`, any other
    leaves everything but the recorded metrics alone -/
theorem complete_lastCheck (c : Cfg) (b : Brk) (now code : Nat) (orc : Oracle) :
    (now > b.lastCheck → (complete c b now code orc).1.lastCheck = now + c.checkPeriod) ∧
    (¬ now > b.lastCheck → complete c b now code orc = ({ b with met := b.met.record now code }, false)) := by
  unfold complete checkAndSet
  by_cases h1 : now > b.lastCheck <;> by_cases h2 : b.state = .tripped <;>
    cases h3 : (eval (reader now orc) c.cond (b.met.record now code)).2 <;> simp [h1, h2, h3]

theorem complete_lastCheck_ge (c : Cfg) (b : Brk) (now code : Nat) (orc : Oracle) :
    b.lastCheck ≤ (complete c b now code orc).1.lastCheck := by
  unfold complete checkAndSet
  by_cases h1 : now > b.lastCheck <;> by_cases h2 : b.state = .tripped <;>
    cases h3 : (eval (reader now orc) c.cond (b.met.record now code)).2 <;> simp [h1, h2, h3] <;> omega

theorem complete_tripped (c : Cfg) (b : Brk) (now code : Nat) (orc : Oracle) (h : b.state = .tripped) :
    (complete c b now code orc).2 = false := by
  cases h' : (complete c b now code orc).2 with
  | false => rfl
  | true => exact absurd h ((complete_true_iff c b now code orc).mp h').2.1

/-! ### one `check` (`checkAndSet` on whatever has been recorded) -/

theorem check_true_iff (c : Cfg) (b : Brk) (now : Nat) (orc : Oracle) :
    (checkAndSet c b now orc).2 = true ↔
      (now > b.lastCheck ∧ b.state ≠ .tripped ∧
        (eval (reader now orc) c.cond b.met).2 = true) := by
  unfold checkAndSet
  by_cases h1 : now > b.lastCheck <;> by_cases h2 : b.state = .tripped <;>
    cases h3 : (eval (reader now orc) c.cond b.met).2 <;> simp [h1, h2, h3]

theorem check_true (c : Cfg) (b : Brk) (now : Nat) (orc : Oracle)
    (h : (checkAndSet c b now orc).2 = true) :
    (checkAndSet c b now orc).1 =
      { b with lastCheck := now + c.checkPeriod, state := .tripped, until_ := now + c.fallbackDur,
               tripped := b.tripped + 1,
               met := (eval (reader now orc) c.cond b.met).1.reset } := by
  obtain ⟨h1, h2, h3⟩ := (check_true_iff c b now orc).mp h
  unfold checkAndSet
  simp [h1, h2, h3]

theorem check_true_fields (c : Cfg) (b : Brk) (now : Nat) (orc : Oracle)
    (h : (checkAndSet c b now orc).2 = true) :
    (checkAndSet c b now orc).1.state = .tripped ∧
    (checkAndSet c b now orc).1.until_ = now + c.fallbackDur ∧
    (checkAndSet c b now orc).1.tripped = b.tripped + 1 ∧
    (checkAndSet c b now orc).1.standbys = b.standbys ∧
    (checkAndSet c b now orc).1.lastCheck = now + c.checkPeriod ∧
    (checkAndSet c b now orc).1.met = (eval (reader now orc) c.cond b.met).1.reset := by
  rw [check_true c b now orc h]
  exact ⟨rfl, rfl, rfl, rfl, rfl, rfl⟩

theorem check_false (c : Cfg) (b : Brk) (now : Nat) (orc : Oracle)
    (h : (checkAndSet c b now orc).2 = false) :
    (checkAndSet c b now orc).1.state = b.state ∧ (checkAndSet c b now orc).1.until_ = b.until_ ∧
    (checkAndSet c b now orc).1.rc = b.rc ∧ (checkAndSet c b now orc).1.tripped = b.tripped ∧
    (checkAndSet c b now orc).1.standbys = b.standbys := by
  revert h
  unfold checkAndSet
  by_cases h1 : now > b.lastCheck <;> by_cases h2 : b.state = .tripped <;>
    cases h3 : (eval (reader now orc) c.cond b.met).2 <;> simp [h1, h2, h3]

/-- the evaluation schedule: a check after `lastCheck` moves it to `now + checkPeriod`, any other
    changes nothing -/
theorem check_lastCheck (c : Cfg) (b : Brk) (now : Nat) (orc : Oracle) :
    (now > b.lastCheck → (checkAndSet c b now orc).1.lastCheck = now + c.checkPeriod) ∧
    (¬ now > b.lastCheck → checkAndSet c b now orc = (b, false)) := by
  constructor
  · unfold checkAndSet
    by_cases h1 : now > b.lastCheck <;> by_cases h2 : b.state = .tripped <;>
      cases h3 : (eval (reader now orc) c.cond b.met).2 <;> simp [h1, h2, h3]
  · intro h1
    unfold checkAndSet
    rw [if_neg h1]

theorem check_lastCheck_ge (c : Cfg) (b : Brk) (now : Nat) (orc : Oracle) :
    b.lastCheck ≤ (checkAndSet c b now orc).1.lastCheck := by
  unfold checkAndSet
  by_cases h1 : now > b.lastCheck <;> by_cases h2 : b.state = .tripped <;>
    cases h3 : (eval (reader now orc) c.cond b.met).2 <;> simp [h1, h2, h3] <;> omega

theorem check_tripped (c : Cfg) (b : Brk) (now : Nat) (orc : Oracle) (h : b.state = .tripped) :
    (checkAndSet c b now orc).2 = false := by
  cases h' : (checkAndSet c b now orc).2 with
  | false => rfl
  | true => exact absurd h ((check_true_iff c b now orc).mp h').2.1

theorem record_fields (b : Brk) (now code : Nat) :
    (record b now code).state = b.state ∧ (record b now code).until_ = b.until_ ∧
    (record b now code).rc = b.rc ∧ (record b now code).tripped = b.tripped ∧
    (record b now code).standbys = b.standbys ∧ (record b now code).lastCheck = b.lastCheck := by
  unfold record
  exact ⟨rfl, rfl, rfl, rfl, rfl, rfl⟩

/-! ### one `arrive` -/

theorem arrive_standby (c : Cfg) (b : Brk) (now : Nat) (h : b.state = .standby) :
    arrive c b now = (.pass, b) := by
  unfold arrive; simp [h]

theorem arrive_tripped_before (c : Cfg) (b : Brk) (now : Nat) (h : b.state = .tripped) (hlt : now < b.until_) :
    arrive c b now = (.fallback, b) := by
  unfold arrive; simp [h, hlt]

/-- the first arrival at or after `until`: recovery starts, the ramp is at zero, the request is refused -/
theorem arrive_tripped_after (c : Cfg) (b : Brk) (now : Nat) (h : b.state = .tripped) (hge : b.until_ ≤ now) :
    arrive c b now = (.fallback, { b with state := .recovering, until_ := now + c.recoveryDur,
                                          rc := ⟨now, c.recoveryDur, 0, 1⟩ }) := by
  unfold arrive recoveringCase RC.allow
  have h1 : ¬ now < b.until_ := by omega
  have h2 : ¬ now > now + c.recoveryDur := by omega
  simp [h, h1, h2]

theorem arrive_recovering_after (c : Cfg) (b : Brk) (now : Nat) (h : b.state = .recovering) (hgt : now > b.until_) :
    arrive c b now = (.pass, { b with state := .standby, until_ := now, standbys := b.standbys + 1 }) := by
  unfold arrive recoveringCase; simp [h, hgt]

theorem arrive_recovering_within (c : Cfg) (b : Brk) (now : Nat) (h : b.state = .recovering) (hle : now ≤ b.until_) :
    arrive c b now = (if (b.rc.allow now).1 then .pass else .fallback, { b with rc := (b.rc.allow now).2 }) := by
  have h1 : ¬ now > b.until_ := by omega
  unfold arrive recoveringCase; simp [h, h1]

/-! ### traces -/

theorem run_nil (c : Cfg) (b : Brk) : run c b [] = (b, []) := rfl

theorem run_cons (c : Cfg) (b : Brk) (e : Ev) (es : List Ev) :
    run c b (e :: es) = ((run c (step c b e).1 es).1, (step c b e).2 :: (run c (step c b e).1 es).2) := rfl

theorem run_append (c : Cfg) : ∀ (xs ys : List Ev) (b : Brk),
    run c b (xs ++ ys) = ((run c (run c b xs).1 ys).1, (run c b xs).2 ++ (run c (run c b xs).1 ys).2)
  | [], ys, b => by simp [run_nil]
  | x :: xs, ys, b => by
    simp only [List.cons_append, run_cons, run_append c xs ys, List.cons_append]

theorem run_length (c : Cfg) : ∀ (es : List Ev) (b : Brk), (run c b es).2.length = es.length
  | [], b => rfl
  | e :: es, b => by simp [run_cons, run_length c es]

theorem states_append (c : Cfg) : ∀ (xs ys : List Ev) (b : Brk),
    states c b (xs ++ ys) = states c b xs ++ states c (run c b xs).1 ys
  | [], ys, b => by simp [states, run_nil]
  | x :: xs, ys, b => by simp [states, run_cons, states_append c xs ys]

/-- what a shielded trace shows: every arrival is answered by the fallback, no completion trips -/
def shieldObs : Ev → Obs
  | .arrive _ => .fallback
  | .record _ _ => .recorded
  | .check _ _ => .done false
  | .complete _ _ _ => .done false

/-- from a tripped breaker every event strictly before `until` leaves it tripped with the same deadline
    and the same effect counters, and every arrival is answered by the fallback -/
theorem shield (c : Cfg) : ∀ (es : List Ev) (b : Brk), b.state = .tripped →
    (∀ e ∈ es, e.time < b.until_) →
    (run c b es).1.state = .tripped ∧ (run c b es).1.until_ = b.until_ ∧
    (run c b es).1.tripped = b.tripped ∧ (run c b es).1.standbys = b.standbys ∧
    (run c b es).2 = es.map shieldObs := by
  intro es
  induction es with
  | nil => intro b hs _; simp [run_nil, hs]
  | cons e es ih =>
    intro b hs hlt
    have he := hlt e List.mem_cons_self
    have hrest : ∀ e' ∈ es, e'.time < b.until_ := fun e' h => hlt e' (List.mem_cons_of_mem _ h)
    cases e with
    | arrive t =>
      have hstep : step c b (.arrive t) = (b, .fallback) := by
        simp [step, arrive_tripped_before c b t hs he]
      simp only [run_cons, hstep]
      obtain ⟨i1, i2, i3, i4, i5⟩ := ih b hs hrest
      exact ⟨i1, i2, i3, i4, by simp [i5, shieldObs]⟩
    | record t code =>
      have hstep2 : (step c b (.record t code)).2 = .recorded := rfl
      have hstep1 : (step c b (.record t code)).1 = record b t code := rfl
      simp only [run_cons, hstep2, hstep1]
      obtain ⟨f1, f2, _, f4, f5, _⟩ := record_fields b t code
      obtain ⟨i1, i2, i3, i4, i5⟩ := ih (record b t code) (f1.trans hs) (by rw [f2]; exact hrest)
      exact ⟨i1, i2.trans f2, i3.trans f4, i4.trans f5, by simp [i5, shieldObs]⟩
    | check t orc =>
      have hf := check_tripped c b t orc hs
      obtain ⟨s1, s2, _, s3, s4⟩ := check_false c b t orc hf
      have hstep2 : (step c b (.check t orc)).2 = .done false := by simp [step, hf]
      have hstep1 : (step c b (.check t orc)).1 = (checkAndSet c b t orc).1 := rfl
      simp only [run_cons, hstep2, hstep1]
      obtain ⟨i1, i2, i3, i4, i5⟩ := ih _ (s1.trans hs) (by rw [s2]; exact hrest)
      exact ⟨i1, by rw [i2, s2], by rw [i3, s3], by rw [i4, s4], by simp [i5, shieldObs]⟩
    | complete t code orc =>
      have hf := complete_tripped c b t code orc hs
      obtain ⟨s1, s2, _, s3, s4⟩ := complete_false c b t code orc hf
      have hstep2 : (step c b (.complete t code orc)).2 = .done false := by simp [step, hf]
      have hstep1 : (step c b (.complete t code orc)).1 = (complete c b t code orc).1 := rfl
      simp only [run_cons, hstep2, hstep1]
      obtain ⟨i1, i2, i3, i4, i5⟩ := ih _ (s1.trans hs) (by rw [s2]; exact hrest)
      exact ⟨i1, by rw [i2, s2], by rw [i3, s3], by rw [i4, s4], by simp [i5, shieldObs]⟩

/-! ### edges and effect counters -/

/-- the allowed moves of the state, with the side-effect counters moving exactly with them -/
inductive Edge : Brk → Brk → Prop where
  | same {a b} : a.state = b.state → b.tripped = a.tripped → b.standbys = a.standbys → Edge a b
  | trip {a b} : a.state ≠ .tripped → b.state = .tripped → b.tripped = a.tripped + 1 →
      b.standbys = a.standbys → Edge a b
  | recover {a b} : a.state = .tripped → b.state = .recovering → b.tripped = a.tripped →
      b.standbys = a.standbys → Edge a b
  | standby {a b} : a.state = .recovering → b.state = .standby → b.tripped = a.tripped →
      b.standbys = a.standbys + 1 → Edge a b

theorem step_edge (c : Cfg) (b : Brk) (e : Ev) : Edge b (step c b e).1 := by
  cases e with
  | arrive t =>
    show Edge b (arrive c b t).2
    cases hs : b.state with
    | standby => rw [arrive_standby c b t hs]; exact Edge.same rfl rfl rfl
    | tripped =>
      by_cases h1 : t < b.until_
      · rw [arrive_tripped_before c b t hs h1]; exact Edge.same rfl rfl rfl
      · rw [arrive_tripped_after c b t hs (by omega)]; exact Edge.recover hs rfl rfl rfl
    | recovering =>
      by_cases h1 : t > b.until_
      · rw [arrive_recovering_after c b t hs h1]; exact Edge.standby hs rfl rfl rfl
      · rw [arrive_recovering_within c b t hs (by omega)]; exact Edge.same rfl rfl rfl
  | record t code =>
    obtain ⟨f1, _, _, f4, f5, _⟩ := record_fields b t code
    exact Edge.same f1.symm f4 f5
  | check t orc =>
    show Edge b (checkAndSet c b t orc).1
    cases hf : (checkAndSet c b t orc).2 with
    | false =>
      obtain ⟨s1, _, _, s3, s4⟩ := check_false c b t orc hf
      exact Edge.same s1.symm s3 s4
    | true =>
      have h2 := ((check_true_iff c b t orc).mp hf).2.1
      rw [check_true c b t orc hf]
      exact Edge.trip h2 rfl rfl rfl
  | complete t code orc =>
    show Edge b (complete c b t code orc).1
    cases hf : (complete c b t code orc).2 with
    | false =>
      obtain ⟨s1, _, _, s3, s4⟩ := complete_false c b t code orc hf
      exact Edge.same s1.symm s3 s4
    | true =>
      have h2 := ((complete_true_iff c b t code orc).mp hf).2.1
      rw [complete_true c b t code orc hf]
      exact Edge.trip h2 rfl rfl rfl

/-- number of entries into state `s` along a sequence of states -/
def entries (s : State) : List State → Nat
  | a :: b :: rest => (if a ≠ s ∧ b = s then 1 else 0) + entries s (b :: rest)
  | _ => 0

theorem entries_cons2 (s a b : State) (rest : List State) :
    entries s (a :: b :: rest) = (if a ≠ s ∧ b = s then 1 else 0) + entries s (b :: rest) := rfl

/-- over any trace the launched side effects are exactly the entries into `tripped` / `standby` -/
theorem effects_count (c : Cfg) : ∀ (es : List Ev) (b : Brk),
    (run c b es).1.tripped = b.tripped + entries .tripped (b.state :: (states c b es).map (·.state)) ∧
    (run c b es).1.standbys = b.standbys + entries .standby (b.state :: (states c b es).map (·.state)) := by
  intro es
  induction es with
  | nil => intro b; simp [run_nil, states, entries]
  | cons e es ih =>
    intro b
    obtain ⟨i1, i2⟩ := ih (step c b e).1
    simp only [run_cons, states, List.map_cons, entries_cons2, i1, i2]
    cases step_edge c b e with
    | same h1 h2 h3 => rw [h2, h3]; constructor <;> (simp [← h1]; try omega)
    | trip h1 h2 h3 h4 => rw [h3, h4]; constructor <;> simp [h1, h2] <;> omega
    | recover h1 h2 h3 h4 => rw [h3, h4]; constructor <;> simp [h1, h2]
    | standby h1 h2 h3 h4 => rw [h3, h4]; constructor <;> simp [h1, h2] <;> omega

/-! ### the ramp -/

/-- `allowed / (allowed+denied) ≤ 0.5 · elapsed / dur`, cross-multiplied -/
def RC.Ramp (r : RC) (now : Nat) : Prop :=
  2 * r.dur * r.allowed ≤ (now - r.start) * (r.allowed + r.denied)

theorem ramp_mono (r : RC) {t t' : Nat} (h : t ≤ t') (hr : r.Ramp t) : r.Ramp t' := by
  unfold RC.Ramp at *
  exact Nat.le_trans hr (Nat.mul_le_mul_right _ (by omega))

theorem allow_fields (r : RC) (now : Nat) :
    (r.allow now).2.start = r.start ∧ (r.allow now).2.dur = r.dur ∧
    (r.allow now).2.allowed = r.allowed + (if (r.allow now).1 then 1 else 0) ∧
    (r.allow now).2.denied = r.denied + (if (r.allow now).1 then 0 else 1) := by
  unfold RC.allow
  by_cases h : 2 * r.dur * (r.allowed + 1) < (now - r.start) * (r.allowed + r.denied + 1) <;> simp [h]

theorem allow_true_iff (r : RC) (now : Nat) :
    (r.allow now).1 = true ↔ 2 * r.dur * (r.allowed + 1) < (now - r.start) * (r.allowed + r.denied + 1) := by
  unfold RC.allow
  by_cases h : 2 * r.dur * (r.allowed + 1) < (now - r.start) * (r.allowed + r.denied + 1) <;> simp [h]

theorem allow_ramp (r : RC) (now : Nat) (hr : r.Ramp now) : (r.allow now).2.Ramp now := by
  unfold RC.allow
  by_cases h : 2 * r.dur * (r.allowed + 1) < (now - r.start) * (r.allowed + r.denied + 1)
  · simp only [h, if_true]
    unfold RC.Ramp; simp only
    have : r.allowed + 1 + r.denied = r.allowed + r.denied + 1 := by omega
    rw [this]; omega
  · simp only [h, if_false]
    unfold RC.Ramp at *; simp only
    have : (now - r.start) * (r.allowed + r.denied) ≤ (now - r.start) * (r.allowed + (r.denied + 1)) :=
      Nat.mul_le_mul_left _ (by omega)
    omega

end CB

namespace CB
open CBExpr

/-- the `i`-th observation of a trace is what the `i`-th event shows on the breaker left by the events
    before it (so statements about `step c (run c b pre).1 e` are statements about the observations) -/
theorem obs_at (c : Cfg) (b : Brk) (pre : List Ev) (e : Ev) (post : List Ev) :
    (run c b (pre ++ e :: post)).2[pre.length]? = some (step c (run c b pre).1 e).2 := by
  rw [run_append, run_cons]
  simp [run_length]

/-- a tripped breaker leaves `tripped` only through an arrival at or after `until` -/
theorem leave_tripped (c : Cfg) (b : Brk) (e : Ev) (h : b.state = .tripped)
    (h' : (step c b e).1.state ≠ .tripped) : b.until_ ≤ e.time := by
  by_cases hlt : e.time < b.until_
  · have := (shield c [e] b h (by simpa using hlt)).1
    simp [run_cons, run_nil] at this
    exact absurd this h'
  · omega

/-- launches of the on-tripped effect = completions that tripped -/
theorem tripped_count (c : Cfg) : ∀ (es : List Ev) (b : Brk),
    (run c b es).1.tripped = b.tripped + (run c b es).2.count (.done true) := by
  intro es
  induction es with
  | nil => intro b; simp [run_nil]
  | cons e es ih =>
    intro b
    rw [run_cons, ih]
    cases e with
    | arrive t =>
      have h1 : (step c b (.arrive t)).1.tripped = b.tripped := by
        show (arrive c b t).2.tripped = b.tripped
        cases hs : b.state with
        | standby => rw [arrive_standby c b t hs]
        | tripped =>
          by_cases hlt : t < b.until_
          · rw [arrive_tripped_before c b t hs hlt]
          · rw [arrive_tripped_after c b t hs (by omega)]
        | recovering =>
          by_cases hgt : t > b.until_
          · rw [arrive_recovering_after c b t hs hgt]
          · rw [arrive_recovering_within c b t hs (by omega)]
      have h2 : (step c b (.arrive t)).2 ≠ .done true := by
        show (match (arrive c b t).1 with | .pass => Obs.pass | .fallback => Obs.fallback) ≠ _
        cases (arrive c b t).1 <;> simp
      rw [h1, List.count_cons_of_ne h2]
    | record t code =>
      have h1 : (step c b (.record t code)).1.tripped = b.tripped := (record_fields b t code).2.2.2.1
      have h2 : (step c b (.record t code)).2 = .recorded := rfl
      rw [h1, h2, List.count_cons_of_ne (by simp)]
    | check t orc =>
      cases hf : (checkAndSet c b t orc).2 with
      | false =>
        have h1 : (step c b (.check t orc)).1.tripped = b.tripped := (check_false c b t orc hf).2.2.2.1
        have h2 : (step c b (.check t orc)).2 = .done false := by
          show Obs.done (checkAndSet c b t orc).2 = _; rw [hf]
        rw [h1, h2, List.count_cons_of_ne (by simp)]
      | true =>
        have h1 : (step c b (.check t orc)).1.tripped = b.tripped + 1 := (check_true_fields c b t orc hf).2.2.1
        have h2 : (step c b (.check t orc)).2 = .done true := by
          show Obs.done (checkAndSet c b t orc).2 = _; rw [hf]
        rw [h1, h2, List.count_cons_self]; omega
    | complete t code orc =>
      cases hf : (complete c b t code orc).2 with
      | false =>
        have h1 : (step c b (.complete t code orc)).1.tripped = b.tripped :=
          (complete_false c b t code orc hf).2.2.2.1
        have h2 : (step c b (.complete t code orc)).2 = .done false := by
          show Obs.done (complete c b t code orc).2 = _; rw [hf]
        rw [h1, h2, List.count_cons_of_ne (by simp)]
      | true =>
        have h1 : (step c b (.complete t code orc)).1.tripped = b.tripped + 1 :=
          (complete_true_fields c b t code orc hf).2.2.1
        have h2 : (step c b (.complete t code orc)).2 = .done true := by
          show Obs.done (complete c b t code orc).2 = _; rw [hf]
        rw [h1, h2, List.count_cons_self]; omega

end CB

namespace CB
open CBExpr

/-- an event that shows `done true` is a check (alone or fused with its record) that tripped the breaker:
    the state is `tripped`, the deadline is its time plus the fallback duration, one more on-tripped effect
    was launched, and the metrics were reset -/
theorem step_done_true (c : Cfg) (b : Brk) (e : Ev) (h : (step c b e).2 = .done true) :
    (step c b e).1.state = .tripped ∧ (step c b e).1.until_ = e.time + c.fallbackDur ∧
    (step c b e).1.tripped = b.tripped + 1 ∧ (step c b e).1.standbys = b.standbys ∧
    (step c b e).1.lastCheck = e.time + c.checkPeriod ∧ b.state ≠ .tripped ∧ e.time > b.lastCheck ∧
    ∃ m' : Metrics, (step c b e).1.met = m'.reset := by
  cases e with
  | arrive t =>
    exfalso
    have : (match (arrive c b t).1 with | .pass => Obs.pass | .fallback => Obs.fallback) = .done true := h
    cases h2 : (arrive c b t).1 <;> rw [h2] at this <;> cases this
  | record t code => cases h
  | check t orc =>
    have hf : (checkAndSet c b t orc).2 = true := by
      have : Obs.done (checkAndSet c b t orc).2 = .done true := h
      injection this
    obtain ⟨f1, f2, f3, f4, f5, f6⟩ := check_true_fields c b t orc hf
    obtain ⟨g1, g2, _⟩ := (check_true_iff c b t orc).mp hf
    exact ⟨f1, f2, f3, f4, f5, g2, g1, _, f6⟩
  | complete t code orc =>
    have hf : (complete c b t code orc).2 = true := by
      have : Obs.done (complete c b t code orc).2 = .done true := h
      injection this
    obtain ⟨f1, f2, f3, f4, f5, f6⟩ := complete_true_fields c b t code orc hf
    obtain ⟨g1, g2, _⟩ := (complete_true_iff c b t code orc).mp hf
    exact ⟨f1, f2, f3, f4, f5, g2, g1, _, f6⟩

/-- an event that does not show `done true` leaves the state alone unless it is an arrival -/
theorem step_not_trip (c : Cfg) (b : Brk) (e : Ev) (h : (step c b e).2 ≠ .done true) (hne : ∀ t, e ≠ .arrive t) :
    (step c b e).1.state = b.state := by
  cases e with
  | arrive t => exact absurd rfl (hne t)
  | record t code => exact (record_fields b t code).1
  | check t orc =>
    cases hf : (checkAndSet c b t orc).2 with
    | false => exact (check_false c b t orc hf).1
    | true => exact absurd (by show Obs.done (checkAndSet c b t orc).2 = _; rw [hf]) h
  | complete t code orc =>
    cases hf : (complete c b t code orc).2 with
    | false => exact (complete_false c b t code orc hf).1
    | true => exact absurd (by show Obs.done (complete c b t code orc).2 = _; rw [hf]) h

end CB
