import OxyModel.Proofs.CBreaker.Metrics
import Mathlib.Algebra.Order.Field.Basic
import Mathlib.Data.Rat.Cast.Order
import Mathlib.Tactic.Ring
import Mathlib.Tactic.Linarith

/-! The evaluator of `Model/CBExpr.lean` (the combinators of `predicates.go`, threading the metrics
through every read, comparing integer pairs by cross-multiplication) against an independently written
denotational semantics: rational numbers, the order of `ℚ`/`ℤ`, `∧`, `∨`. -/
namespace CBExpr

/-! ### the standard reading of an expression -/

/-- the metric values an expression talks about -/
structure Env where
  ner : ℚ
  rcr : Nat → Nat → Nat → Nat → ℚ
  lat : Lit → ℤ

/-- a literal as a number -/
def Lit.toQ : Lit → ℚ
  | .int n => (n : ℚ)
  | .float p q => (p : ℚ) / (q : ℚ)

/-- the six comparisons, as the order relations they denote -/
def rel {α : Type} [LT α] [LE α] : Cmp → α → α → Prop
  | .eq, x, y => x = y
  | .neq, x, y => x ≠ y
  | .lt, x, y => x < y
  | .le, x, y => x ≤ y
  | .gt, x, y => x > y
  | .ge, x, y => x ≥ y

/-- ordinary Boolean / ordering semantics of a condition over given metric values -/
def Denote (env : Env) : Expr → Prop
  | .cmp op .ner v => rel op env.ner v.toQ
  | .cmp op (.rcr a b c d) v => rel op (env.rcr a.nat b.nat c.nat d.nat) v.toQ
  | .cmp op (.lat q) v => rel op (env.lat q) (v.nat : ℤ)
  | .and a b => Denote env a ∧ Denote env b
  | .or a b => Denote env a ∨ Denote env b
  | .bad => False

/-- a mapper value as a number -/
def Val.toQ : Val → ℚ
  | .int i => (i : ℚ)
  | .ratio a b => (a : ℚ) / (b : ℚ)

def Val.toZ : Val → ℤ
  | .int i => i
  | .ratio _ _ => 0

/-- the metric values a reader reports in state `s` -/
def envOf {σ : Type} (rd : Reader σ) (s : σ) : Env where
  ner := (rd.ner s).2.toQ
  rcr := fun a b c d => (rd.rcr a b c d s).2.toQ
  lat := fun q => (rd.lat q s).2.toZ

/-! ### cross-multiplication is comparison of quotients -/

theorem ratio_lt (a b : ℤ) (p q : ℕ) (hb : b ≠ 0) (hq : 0 < q) :
    valLt (.ratio a b) (.float p q) = true ↔ (a : ℚ) / (b : ℚ) < (p : ℚ) / (q : ℚ) := by
  have hq' : (0 : ℚ) < (q : ℚ) := by exact_mod_cast hq
  show (if 0 < b then decide (a * (q : ℤ) < (p : ℤ) * b) else decide ((p : ℤ) * b < a * (q : ℤ))) = true ↔ _
  by_cases hpos : 0 < b
  · have hb' : (0 : ℚ) < (b : ℚ) := by exact_mod_cast hpos
    rw [if_pos hpos, decide_eq_true_iff, div_lt_div_iff₀ hb' hq']
    exact_mod_cast Iff.rfl
  · have hneg : b < 0 := by omega
    have hb' : (0 : ℚ) < ((-b : ℤ) : ℚ) := by exact_mod_cast (by omega : 0 < -b)
    rw [if_neg hpos, decide_eq_true_iff, ← neg_div_neg_eq (a : ℚ) (b : ℚ)]
    have : (-(b : ℚ)) = ((-b : ℤ) : ℚ) := by push_cast; ring
    rw [this, div_lt_div_iff₀ hb' hq']
    push_cast
    constructor
    · intro h
      have h' : ((p : ℤ) : ℚ) * (b : ℚ) < (a : ℚ) * ((q : ℤ) : ℚ) := by exact_mod_cast h
      push_cast at h'; linarith
    · intro h
      have h' : ((p : ℤ) : ℚ) * (b : ℚ) < (a : ℚ) * ((q : ℤ) : ℚ) := by push_cast; linarith
      exact_mod_cast h'

theorem ratio_gt (a b : ℤ) (p q : ℕ) (hb : b ≠ 0) (hq : 0 < q) :
    valGt (.ratio a b) (.float p q) = true ↔ (p : ℚ) / (q : ℚ) < (a : ℚ) / (b : ℚ) := by
  have hq' : (0 : ℚ) < (q : ℚ) := by exact_mod_cast hq
  show (if 0 < b then decide ((p : ℤ) * b < a * (q : ℤ)) else decide (a * (q : ℤ) < (p : ℤ) * b)) = true ↔ _
  by_cases hpos : 0 < b
  · have hb' : (0 : ℚ) < (b : ℚ) := by exact_mod_cast hpos
    rw [if_pos hpos, decide_eq_true_iff, div_lt_div_iff₀ hq' hb']
    exact_mod_cast Iff.rfl
  · have hneg : b < 0 := by omega
    have hb' : (0 : ℚ) < ((-b : ℤ) : ℚ) := by exact_mod_cast (by omega : 0 < -b)
    rw [if_neg hpos, decide_eq_true_iff, ← neg_div_neg_eq (a : ℚ) (b : ℚ)]
    have : (-(b : ℚ)) = ((-b : ℤ) : ℚ) := by push_cast; ring
    rw [this, div_lt_div_iff₀ hq' hb']
    push_cast
    constructor
    · intro h
      have h' : (a : ℚ) * ((q : ℤ) : ℚ) < ((p : ℤ) : ℚ) * (b : ℚ) := by exact_mod_cast h
      push_cast at h'; linarith
    · intro h
      have h' : (a : ℚ) * ((q : ℤ) : ℚ) < ((p : ℤ) : ℚ) * (b : ℚ) := by push_cast; linarith
      exact_mod_cast h'

theorem ratio_eq (a b : ℤ) (p q : ℕ) (hb : b ≠ 0) (hq : 0 < q) :
    valEq (.ratio a b) (.float p q) = true ↔ (a : ℚ) / (b : ℚ) = (p : ℚ) / (q : ℚ) := by
  have hq' : (q : ℚ) ≠ 0 := by exact_mod_cast (by omega : q ≠ 0)
  have hb' : (b : ℚ) ≠ 0 := by exact_mod_cast hb
  show decide (a * (q : ℤ) = (p : ℤ) * b) = true ↔ _
  rw [decide_eq_true_iff, div_eq_div_iff hb' hq']
  exact_mod_cast Iff.rfl

/-- the three Go tests against a literal decide the order relations; `le`/`ge`/`neq` are built from them
    exactly as `predicates.go` builds them -/
theorem rel_of_tests {α : Type} [LinearOrder α] (x y : α) (lt eq gt : Bool)
    (hlt : lt = true ↔ x < y) (heq : eq = true ↔ x = y) (hgt : gt = true ↔ y < x) (op : Cmp) :
    (match op with
      | .eq => eq | .neq => !eq | .lt => lt | .gt => gt
      | .le => lt || eq | .ge => gt || eq) = true ↔ rel op x y := by
  cases op <;> simp only [rel, Bool.not_eq_true', Bool.or_eq_true, hlt, heq, hgt]
  · exact ⟨fun h => by simpa [← heq] using h, fun h => by simpa [← heq] using h⟩
  · exact le_iff_lt_or_eq.symm
  · exact ⟨fun h => h.elim le_of_lt (fun e => e ▸ le_refl _), fun h => (lt_or_eq_of_le h).imp id Eq.symm⟩

/-! ### readers that always report the same values -/

/-- the value every mapper reports is the same from `s'` as from `s` -/
def Sim {σ : Type} (rd : Reader σ) (s s' : σ) : Prop :=
  ∀ g, (rd.call g s').2 = (rd.call g s).2

/-- reading never changes what any mapper reports -/
def Stable {σ : Type} (rd : Reader σ) : Prop :=
  ∀ s f g, (rd.call g (rd.call f s).1).2 = (rd.call g s).2

/-- `toFloat64` mappers return a quotient with non-zero denominator, `toInt` mappers an integer -/
def WellFormed {σ : Type} (rd : Reader σ) : Prop :=
  ∀ (s : σ) (f : Fn),
    if f.isInt = true then ∃ i, (rd.call f s).2 = Val.int i else ∃ a b, b ≠ 0 ∧ (rd.call f s).2 = Val.ratio a b

theorem Sim.refl {σ : Type} (rd : Reader σ) (s : σ) : Sim rd s s := fun _ => rfl

theorem Sim.call {σ : Type} {rd : Reader σ} (hst : Stable rd) {s s' : σ} (h : Sim rd s s') (f : Fn) :
    Sim rd s (rd.call f s').1 := fun g => (hst s' f g).trans (h g)

/-- the meaning of `fn <op> literal` in the environment read from `s` -/
def atomDenote {σ : Type} (rd : Reader σ) (s : σ) (op : Cmp) (f : Fn) (v : Lit) : Prop :=
  Denote (envOf rd s) (.cmp op f v)

/-- the three tests on a well-typed atom, read from any state that reports like `s` -/
theorem tests_spec {σ : Type} {rd : Reader σ} (hwf : WellFormed rd) (s : σ) (f : Fn) (v : Lit)
    (hty : (if f.isInt then v.isInt else v.isFloat) = true) (op : Cmp) :
    (match op with
      | .eq => valEq (rd.call f s).2 v | .neq => !valEq (rd.call f s).2 v
      | .lt => valLt (rd.call f s).2 v | .gt => valGt (rd.call f s).2 v
      | .le => valLt (rd.call f s).2 v || valEq (rd.call f s).2 v
      | .ge => valGt (rd.call f s).2 v || valEq (rd.call f s).2 v) = true ↔ atomDenote rd s op f v := by
  have hw := hwf s f
  cases f with
  | lat q =>
    simp only [Fn.isInt, if_true] at hw hty
    obtain ⟨i, hi⟩ := hw
    cases v with
    | float _ _ => simp [Lit.isInt] at hty
    | int n =>
      have hd : atomDenote rd s op (.lat q) (.int n) ↔ rel op i (n : ℤ) := by
        have : (rd.lat q s).2 = .int i := hi
        simp [atomDenote, Denote, envOf, this, Val.toZ, Lit.nat]
      rw [hd, hi]
      exact rel_of_tests i (n : ℤ) _ _ _ (by simp [valLt]) (by simp [valEq]) (by simp [valGt]) op
  | ner =>
    simp only [Fn.isInt] at hw hty
    obtain ⟨a, b, hb, hab⟩ := hw
    cases v with
    | int _ => simp [Lit.isFloat] at hty
    | float p q =>
      have hq : 0 < q := by simpa [Lit.isFloat] using hty
      have hd : atomDenote rd s op .ner (.float p q) ↔ rel op ((a : ℚ) / (b : ℚ)) ((p : ℚ) / (q : ℚ)) := by
        have : (rd.ner s).2 = .ratio a b := hab
        simp [atomDenote, Denote, envOf, this, Val.toQ, Lit.toQ]
      rw [hd, hab]
      exact rel_of_tests _ _ _ _ _ (ratio_lt a b p q hb hq) (ratio_eq a b p q hb hq) (ratio_gt a b p q hb hq) op
  | rcr a0 a1 b0 b1 =>
    simp only [Fn.isInt] at hw hty
    obtain ⟨a, b, hb, hab⟩ := hw
    cases v with
    | int _ => simp [Lit.isFloat] at hty
    | float p q =>
      have hq : 0 < q := by simpa [Lit.isFloat] using hty
      have hd : atomDenote rd s op (.rcr a0 a1 b0 b1) (.float p q) ↔
          rel op ((a : ℚ) / (b : ℚ)) ((p : ℚ) / (q : ℚ)) := by
        have : (rd.rcr a0.nat a1.nat b0.nat b1.nat s).2 = .ratio a b := hab
        simp [atomDenote, Denote, envOf, this, Val.toQ, Lit.toQ]
      rw [hd, hab]
      exact rel_of_tests _ _ _ _ _ (ratio_lt a b p q hb hq) (ratio_eq a b p q hb hq) (ratio_gt a b p q hb hq) op

/-- evaluating an atom from a state that reports like `s` -/
theorem eval_cmp {σ : Type} {rd : Reader σ} (hst : Stable rd) (hwf : WellFormed rd) (s s' : σ) (hs : Sim rd s s')
    (op : Cmp) (f : Fn) (v : Lit) (hty : (if f.isInt then v.isInt else v.isFloat) = true) :
    ((eval rd (.cmp op f v) s').2 = true ↔ Denote (envOf rd s) (.cmp op f v)) ∧
    Sim rd s (eval rd (.cmp op f v) s').1 := by
  have hspec := tests_spec hwf s f v hty op
  unfold atomDenote at hspec
  have h1 : (rd.call f s').2 = (rd.call f s).2 := hs f
  have hs1 : Sim rd s (rd.call f s').1 := hs.call hst f
  have h2 : (rd.call f (rd.call f s').1).2 = (rd.call f s).2 := hs1 f
  have hs2 : Sim rd s (rd.call f (rd.call f s').1).1 := hs1.call hst f
  cases op
  case eq => exact ⟨by simpa [eval, atom, h1] using hspec, hs1⟩
  case neq => exact ⟨by simpa [eval, atom, h1] using hspec, hs1⟩
  case lt => exact ⟨by simpa [eval, atom, h1] using hspec, hs1⟩
  case gt => exact ⟨by simpa [eval, atom, h1] using hspec, hs1⟩
  case le =>
    simp only [eval, atom, h1]
    cases hl : valLt (rd.call f s).2 v
    · simp only [hl, Bool.false_or] at hspec
      simp only [Bool.false_eq_true, if_false, h2]
      exact ⟨hspec, hs2⟩
    · simp only [hl, Bool.true_or, true_iff] at hspec
      simp only [if_true, true_iff]
      exact ⟨hspec, hs1⟩
  case ge =>
    simp only [eval, atom, h1]
    cases hl : valGt (rd.call f s).2 v
    · simp only [hl, Bool.false_or] at hspec
      simp only [Bool.false_eq_true, if_false, h2]
      exact ⟨hspec, hs2⟩
    · simp only [hl, Bool.true_or, true_iff] at hspec
      simp only [if_true, true_iff]
      exact ⟨hspec, hs1⟩

/-- **the evaluator is the standard semantics**: for every well-typed expression, evaluated from any
    state that reports like `s`, the result is the truth of the expression over the values read from `s` -/
theorem eval_denote {σ : Type} {rd : Reader σ} (hst : Stable rd) (hwf : WellFormed rd) (s : σ) :
    ∀ (e : Expr) (s' : σ), e.wellTyped = true → Sim rd s s' →
      ((eval rd e s').2 = true ↔ Denote (envOf rd s) e) ∧ Sim rd s (eval rd e s').1 := by
  intro e
  induction e with
  | cmp op f v =>
    intro s' hty hs
    simp only [Expr.wellTyped, Bool.and_eq_true] at hty
    exact eval_cmp hst hwf s s' hs op f v hty.2
  | bad => intro s' hty _; simp [Expr.wellTyped] at hty
  | and a b iha ihb =>
    intro s' hty hs
    simp only [Expr.wellTyped, Bool.and_eq_true] at hty
    obtain ⟨a1, a2⟩ := iha s' hty.1 hs
    obtain ⟨b1, b2⟩ := ihb (eval rd a s').1 hty.2 a2
    simp only [eval, Denote]
    cases ha : (eval rd a s').2
    · rw [ha] at a1
      simp only [Bool.not_false, if_true]
      exact ⟨⟨fun h => by simp at h, fun h => by simpa using a1.mpr h.1⟩, a2⟩
    · rw [ha] at a1
      simp only [Bool.not_true, Bool.false_eq_true, if_false]
      cases hb : (eval rd b (eval rd a s').1).2
      · rw [hb] at b1
        simp only [Bool.not_false, if_true]
        exact ⟨⟨fun h => by simp at h, fun h => by simpa using b1.mpr h.2⟩, b2⟩
      · rw [hb] at b1
        simp only [Bool.not_true, Bool.false_eq_true, if_false, true_iff]
        exact ⟨⟨a1.mp rfl, b1.mp rfl⟩, b2⟩
  | or a b iha ihb =>
    intro s' hty hs
    simp only [Expr.wellTyped, Bool.and_eq_true] at hty
    obtain ⟨a1, a2⟩ := iha s' hty.1 hs
    obtain ⟨b1, b2⟩ := ihb (eval rd a s').1 hty.2 a2
    simp only [eval, Denote]
    cases ha : (eval rd a s').2
    · rw [ha] at a1
      simp only [Bool.false_eq_true, if_false]
      cases hb : (eval rd b (eval rd a s').1).2
      · rw [hb] at b1
        simp only [Bool.false_eq_true, if_false, false_iff]
        exact ⟨fun h => h.elim (fun x => by simpa using a1.mpr x) (fun x => by simpa using b1.mpr x), b2⟩
      · rw [hb] at b1
        simp only [if_true, true_iff]
        exact ⟨Or.inr (b1.mp rfl), b2⟩
    · rw [ha] at a1
      simp only [if_true, true_iff]
      exact ⟨Or.inl (a1.mp rfl), a2⟩

end CBExpr

/-! ### the breaker's metrics are such a reader -/
namespace CB
open CBExpr

theorem reader_stable (now : Nat) (orc : Oracle) : Stable (reader now orc) := by
  intro m f g
  exact (call_meq orc g (call_meq orc f (MEq.refl now m)).2).1

theorem reader_wellFormed (now : Nat) (orc : Oracle) : WellFormed (reader now orc) := by
  intro m f
  cases f with
  | lat q => exact ⟨_, rfl⟩
  | ner =>
    show ∃ a b, b ≠ 0 ∧ (Metrics.ner now m).2 = .ratio a b
    have e3 : RCnt.count ccfg (RCnt.count ccfg m.total now).1 now = RCnt.count ccfg m.total now :=
      count_ceq (count_fst_ceq now m.total)
    rw [ner_eq, e3]
    by_cases hz : (RCnt.count ccfg m.total now).2 = 0
    · rw [if_pos hz]; exact ⟨0, 1, by decide, rfl⟩
    · rw [if_neg hz]; exact ⟨_, _, hz, rfl⟩
  | rcr a b c d =>
    show ∃ x y, y ≠ 0 ∧ (Metrics.rcr now a.nat b.nat c.nat d.nat m).2 = .ratio x y
    unfold Metrics.rcr
    dsimp only
    by_cases hz : (rcrLoop now a.nat b.nat c.nat d.nat m.codes).2.2 ≠ 0
    · rw [if_pos hz]; exact ⟨_, _, hz, rfl⟩
    · rw [if_neg hz]; exact ⟨0, 1, by decide, rfl⟩

end CB
