import OxyModel.Proofs.Buffer.BW

/-! One attempt: what the handler leaves in the `bufferWriter`, and what `ServeHTTP` decides from it. -/
namespace Buf

/-- the `bufferWriter` after the handler ran script `a` -/
def fresh (cfg : Cfg) (a : Attempt) : BW :=
  respond a { buffer := newWriterOnce cfg.maxResp cfg.memResp } cfg.canHijack

/-- the late part of the handler: headers and `WriteHeader` after the writes -/
def late (a : Attempt) (b : BW) : BW :=
  let b4 : BW := { b with header := a.lateHdr.foldl (fun h e => Header.add h e.1 e.2) b.header }
  match a.lateStatus with
  | some c => b4.writeHeader c
  | none => b4

theorem late_spec (a : Attempt) (b : BW) :
    (late a b).buffer = b.buffer ∧ (late a b).writeError = b.writeError ∧ (late a b).written = b.written ∧
    (late a b).hijacked = b.hijacked ∧ (late a b).panicked = b.panicked ∧
    (late a b).header = a.lateHdr.foldl (fun h e => Header.add h e.1 e.2) b.header ∧
    (late a b).code = (match a.lateStatus with | some c => c | none => b.code) := by
  unfold late
  cases a.lateStatus <;> simp [BW.writeHeader]

theorem fresh_spec (cfg : Cfg) (a : Attempt) :
    (∃ acc, (fresh cfg a).buffer.Inv acc) ∧
    ((fresh cfg a).writeError = true ↔ overLimit cfg a) ∧
    ((fresh cfg a).writeError = false → (fresh cfg a).buffer.Inv a.writes.flatten) ∧
    (fresh cfg a).header = respHeaderOf a ∧
    ((fresh cfg a).hijacked = true ↔ hijackEff cfg a) ∧
    (fresh cfg a).code = capCode a ∧
    (fresh cfg a).written = decide (a.writes.flatten ≠ []) ∧
    (fresh cfg a).buffer.memBytes = (if cfg.memResp == 0 then MultibufDefaultMemBytes else cfg.memResp) ∧
    ((fresh cfg a).panicked = true ↔ panics a) := by
  let bw1 : BW := { buffer := newWriterOnce cfg.maxResp cfg.memResp,
                    header := a.respHdr.foldl (fun h e => Header.add h e.1 e.2) [] }
  let bw2 : BW := match a.status with
    | some c => bw1.writeHeader c
    | none => bw1
  have hb2 : bw2.buffer = newWriterOnce cfg.maxResp cfg.memResp := by
    simp only [bw2]; cases a.status <;> rfl
  have hinv : bw2.buffer.Inv [] := by rw [hb2]; exact Writer.inv_new _ _
  obtain ⟨i1, i2, i3, i4, i5, i6, i7, i8, i9⟩ := BW.writes_spec a.writes bw2 [] hinv
  have hcode2 : bw2.code = a.status.getD 0 := by
    simp only [bw2]; cases a.status <;> rfl
  have hhdr2 : bw2.header = a.respHdr.foldl (fun h e => Header.add h e.1 e.2) [] := by
    simp only [bw2]; cases a.status <;> rfl
  have herr2 : bw2.writeError = false := by
    simp only [bw2]; cases a.status <;> rfl
  have hhij2 : bw2.hijacked = false := by
    simp only [bw2]; cases a.status <;> rfl
  have hwr2 : bw2.written = false := by
    simp only [bw2]; cases a.status <;> rfl
  have hpan2 : bw2.panicked = false := by
    simp only [bw2]; cases a.status <;> rfl
  have hpan3 : (a.writes.foldl BW.write bw2).panicked = false := by
    have : ∀ (ws : List Bytes) (b : BW), (ws.foldl BW.write b).panicked = b.panicked := by
      intro ws; induction ws with
      | nil => intro b; rfl
      | cons p ws ih => intro b; rw [List.foldl_cons, ih]; rfl
    rw [this, hpan2]
  obtain ⟨l1, l2, l3, l4, l5, l6, l7⟩ := late_spec a (a.writes.foldl BW.write bw2)
  generalize hb5 : late a (a.writes.foldl BW.write bw2) = b5 at *
  have hfold : fresh cfg a = if a.panic then { b5 with panicked := true }
      else if a.hijack && cfg.canHijack then { b5 with hijacked := true } else b5 := by
    rw [← hb5]; rfl
  have hmax : bw2.buffer.maxBytes = cfg.maxResp := by rw [hb2]; rfl
  have hmem : bw2.buffer.memBytes = (if cfg.memResp == 0 then MultibufDefaultMemBytes else cfg.memResp) := by rw [hb2]; rfl
  have key : ∀ (P : BW → Prop), P b5 → P { b5 with panicked := true } → P { b5 with hijacked := true } → P (fresh cfg a) := by
    intro P p1 p2 p3; rw [hfold]; split
    · exact p2
    · split <;> assumption
  have hcode5 : b5.code = capCode a := by
    rw [l7, i6, hcode2]; unfold capCode; cases a.lateStatus <;> rfl
  have hhdr5 : b5.header = respHeaderOf a := by rw [l6, i4, hhdr2]; rfl
  refine ⟨?_, ?_, ?_, ?_, ?_, ?_, ?_, ?_, ?_⟩
  · have : ∃ acc, b5.buffer.Inv acc := by rw [l1]; exact i1
    exact key (fun b => ∃ acc, b.buffer.Inv acc) this this this
  · have : b5.writeError = true ↔ overLimit cfg a := by
      rw [l2, i2, herr2, hmax]; simp [overLimit]
    exact key (fun b => b.writeError = true ↔ overLimit cfg a) this this this
  · have : b5.writeError = false → b5.buffer.Inv a.writes.flatten := by
      rw [l2, l1]; intro h; simpa using i3 h
    exact key (fun b => b.writeError = false → b.buffer.Inv a.writes.flatten) this this this
  · exact key (fun b => b.header = respHeaderOf a) hhdr5 hhdr5 hhdr5
  · rw [hfold]; unfold hijackEff
    have h5 : b5.hijacked = false := by rw [l4, i5, hhij2]
    cases hp : a.panic
    · simp only [Bool.false_eq_true, if_false, true_and]
      split
      · rename_i h; simp at h; simp [h]
      · rename_i h; rw [h5]; simp at h; simp; exact h
    · simp [h5]
  · exact key (fun b => b.code = capCode a) hcode5 hcode5 hcode5
  · have : b5.written = decide (a.writes.flatten ≠ []) := by rw [l3, i7, hwr2]; simp
    exact key (fun b => b.written = decide (a.writes.flatten ≠ [])) this this this
  · have : b5.buffer.memBytes = (if cfg.memResp == 0 then MultibufDefaultMemBytes else cfg.memResp) := by rw [l1, i9, hmem]
    exact key (fun b => b.buffer.memBytes = (if cfg.memResp == 0 then MultibufDefaultMemBytes else cfg.memResp)) this this this
  · rw [hfold]; unfold panics
    have h5 : b5.panicked = false := by rw [l5, hpan3]
    cases hp : a.panic
    · simp only [Bool.false_eq_true, if_false]
      split <;> simp [h5]
    · simp

/-- the deferred closes of one attempt leave its temp file (if any) removed -/
def RecOK (bw : BW) (rdr : Option Rdr) : Prop :=
  (runDefers bw rdr).buffer.created = (runDefers bw rdr).buffer.removed

theorem recOK_none (b : BW) (acc : Bytes) (h : b.buffer.Inv acc) : RecOK b none := by
  have hn := h.notRead
  cases hs : b.buffer.state
  case calledRead => exact absurd hs hn
  case init =>
    obtain ⟨_, _, c, r, _⟩ := h.noFile (by simp [hs])
    simp [RecOK, runDefers, BW.close, Writer.reader, Writer.close, hs, c, r]
  case mem =>
    obtain ⟨_, _, c, r, _⟩ := h.noFile (by simp [hs])
    simp [RecOK, runDefers, BW.close, Writer.reader, Writer.closeRdr, Writer.close, hs, c, r]
  case file =>
    obtain ⟨f1, f2, f3, f4⟩ := h.fileSt hs
    simp [RecOK, runDefers, BW.close, Writer.reader, Writer.closeRdr, Writer.close, hs, f1, f2, f3, f4]

theorem reader_spec (w : Writer) (acc : Bytes) (h : w.Inv acc) :
    (w.state = .init → w.reader = none) ∧
    (w.state ≠ .init → ∃ w' r, w.reader = some (w', r) ∧ r.data = acc ∧
      ∀ b : BW, RecOK { b with buffer := w' } (some r)) := by
  have hn := h.notRead
  have hd := h.data
  unfold Writer.reader
  cases hs : w.state
  case calledRead => exact absurd hs hn
  case init => simp
  case mem =>
    obtain ⟨n1, n2, c, r, _⟩ := h.noFile (by simp [hs])
    refine ⟨by simp, fun _ => ⟨_, _, rfl, by simpa [n1] using hd, ?_⟩⟩
    intro b
    simp [RecOK, runDefers, BW.close, Writer.reader, Writer.closeRdr, Writer.close, c, r]
  case file =>
    obtain ⟨f1, f2, f3, f4⟩ := h.fileSt hs
    refine ⟨by simp, fun _ => ⟨_, _, rfl, hd, ?_⟩⟩
    intro b
    simp [RecOK, runDefers, BW.close, Writer.reader, Writer.closeRdr, Writer.close, f1, f2, f3, f4]

theorem deliver_spec (bw : BW) (rdr : Option Rdr) :
    (deliver bw rdr).status = some (if bw.code = 0 then 200 else bw.code) ∧
    (deliver bw rdr).sentHeader = Header.copyInto [] bw.header ∧
    (deliver bw rdr).body = (match rdr with | some r => r.data | none => []) := by
  cases rdr <;> simp [deliver, Up.writeHeader, Up.write]

theorem expectBody_iff (bw : BW) (a : Attempt) (m : String) (hc : bw.code = capCode a)
    (hh : bw.header = respHeaderOf a) : bw.expectBody m = true ↔ bodyAllowed m a := by
  unfold BW.expectBody bodyAllowed
  rw [hc, hh]
  by_cases h1 : m = "HEAD"
  · simp [h1]
  · simp only [beq_iff_eq, h1, if_false, ne_eq, not_false_eq_true, true_and]
    split
    · rename_i h2; simp at h2; simp; intro a1 a2 a3; omega
    · rename_i h2; simp at h2
      split
      · rename_i h3; simp [h3]
      · rename_i h3
        split
        · rename_i h4; simp at h4; simp [h4]
        · rename_i h4; simp at h4
          simp only [true_iff]
          refine ⟨by omega, by omega, by omega, h3, ?_⟩
          by_cases h5 : Header.get (respHeaderOf a) "Grpc-Status" = ""
          · exact Or.inl h5
          · exact Or.inr (h4 h5)

/-- the body delivered for a final attempt -/
def finalBody (method : String) (a : Attempt) : Bytes := if bodyAllowed method a then a.writes.flatten else []

theorem settle_pan (cfg : Cfg) (req : Req) (k : Nat) (b : BW) (m : String) (h : b.panicked = true) :
    settle cfg req k b m = ⟨b, none, .panicked⟩ := by
  unfold settle; rw [if_pos h]

theorem settle_hij (cfg : Cfg) (req : Req) (k : Nat) (b : BW) (m : String) (h0 : ¬ b.panicked = true) (h : b.hijacked = true) :
    settle cfg req k b m = ⟨b, none, .hijacked⟩ := by
  unfold settle; rw [if_neg h0, if_pos h]

theorem settle_err (cfg : Cfg) (req : Req) (k : Nat) (b : BW) (m : String) (h0 : ¬ b.panicked = true) (h : ¬ b.hijacked = true)
    (h2 : b.writeError = true) : settle cfg req k b m = ⟨b, none, .final (sizeErrHandler {} .other)⟩ := by
  unfold settle; rw [if_neg h0, if_neg h, if_pos h2]

theorem settle_body (cfg : Cfg) (req : Req) (k : Nat) (b : BW) (m : String) (h0 : ¬ b.panicked = true) (h : ¬ b.hijacked = true)
    (h2 : ¬ b.writeError = true) (h3 : (b.expectBody m && b.written) = true) (w : Writer) (r : Rdr)
    (h4 : b.buffer.reader = some (w, r)) :
    settle cfg req k b m = if shouldRetry cfg req k b.code then ⟨{ b with buffer := w }, some r, .retry⟩
      else ⟨{ b with buffer := w }, some r, .final (deliver { b with buffer := w } (some r))⟩ := by
  unfold settle; rw [if_neg h0, if_neg h, if_neg h2, if_pos h3, h4]

theorem settle_nobody (cfg : Cfg) (req : Req) (k : Nat) (b : BW) (m : String) (h0 : ¬ b.panicked = true) (h : ¬ b.hijacked = true)
    (h2 : ¬ b.writeError = true) (h3 : ¬ (b.expectBody m && b.written) = true) :
    settle cfg req k b m = if shouldRetry cfg req k b.code then ⟨b, none, .retry⟩
      else ⟨b, none, .final (deliver b none)⟩ := by
  unfold settle; rw [if_neg h0, if_neg h, if_neg h2, if_neg h3]

theorem settle_spec (cfg : Cfg) (req : Req) (k : Nat) (a : Attempt) :
    RecOK (settle cfg req k (fresh cfg a) req.method).bw (settle cfg req k (fresh cfg a) req.method).rdr ∧
    (panics a → (settle cfg req k (fresh cfg a) req.method).outcome = .panicked) ∧
    (¬ panics a → hijackEff cfg a → (settle cfg req k (fresh cfg a) req.method).outcome = .hijacked) ∧
    (¬ panics a → ¬ hijackEff cfg a → overLimit cfg a →
      (settle cfg req k (fresh cfg a) req.method).outcome = .final (sizeErrHandler {} .other)) ∧
    (¬ panics a → ¬ hijackEff cfg a → ¬ overLimit cfg a → shouldRetry cfg req k (capCode a) = true →
      (settle cfg req k (fresh cfg a) req.method).outcome = .retry) ∧
    (¬ panics a → ¬ hijackEff cfg a → ¬ overLimit cfg a → shouldRetry cfg req k (capCode a) = false →
      ∃ up, (settle cfg req k (fresh cfg a) req.method).outcome = .final up ∧ up.status = some (finalStatus a) ∧
        up.sentHeader = Header.copyInto [] (respHeaderOf a) ∧ up.body = finalBody req.method a) := by
  obtain ⟨⟨acc, hacc⟩, herr, hdata, hhdr, hhij, hcode, hwr, _, hpan⟩ := fresh_spec cfg a
  have hexp := expectBody_iff (fresh cfg a) a req.method hcode hhdr
  generalize fresh cfg a = b at *
  by_cases c0 : b.panicked = true
  · have := hpan.mp c0
    rw [settle_pan _ _ _ _ _ c0]
    exact ⟨recOK_none b acc hacc, fun _ => rfl, fun h => absurd this h, fun h => absurd this h, fun h => absurd this h,
      fun h => absurd this h⟩
  have np : ¬ panics a := fun h => c0 (hpan.mpr h)
  by_cases c1 : b.hijacked = true
  · have := hhij.mp c1
    rw [settle_hij _ _ _ _ _ c0 c1]
    exact ⟨recOK_none b acc hacc, fun h => absurd h np, fun _ _ => rfl, fun _ h => absurd this h, fun _ h => absurd this h,
      fun _ h => absurd this h⟩
  · have nh : ¬ hijackEff cfg a := fun h => c1 (hhij.mpr h)
    by_cases c2 : b.writeError = true
    · have ho := herr.mp c2
      rw [settle_err _ _ _ _ _ c0 c1 c2]
      exact ⟨recOK_none b acc hacc, fun h => absurd h np, fun _ h => absurd h nh, fun _ _ _ => rfl, fun _ _ h => absurd ho h,
        fun _ _ h => absurd ho h⟩
    · have no : ¬ overLimit cfg a := fun h => c2 (herr.mpr h)
      have c2' : b.writeError = false := by simpa using c2
      have hinv := hdata c2'
      have hsr' : shouldRetry cfg req k b.code = shouldRetry cfg req k (capCode a) := by rw [hcode]
      have hfs : (if b.code = 0 then 200 else b.code) = finalStatus a := by rw [hcode]; rfl
      by_cases c3 : (b.expectBody req.method && b.written) = true
      · have c3' := c3
        simp only [Bool.and_eq_true] at c3'
        have hne : a.writes.flatten ≠ [] := by have := c3'.2; rw [hwr] at this; simpa using this
        have hst : b.buffer.state ≠ .init := fun h => hne (hinv.initEmpty h)
        obtain ⟨w', r, hr, hrd, hrec⟩ := (reader_spec b.buffer _ hinv).2 hst
        have hba : bodyAllowed req.method a := hexp.mp c3'.1
        rw [settle_body _ _ _ _ _ c0 c1 c2 c3 w' r hr, hsr']
        by_cases hsr : shouldRetry cfg req k (capCode a) = true
        · rw [if_pos hsr]
          exact ⟨hrec b, fun h => absurd h np, fun _ h => absurd h nh, fun _ _ h => absurd h no, fun _ _ _ _ => rfl,
            fun _ _ _ h => by rw [hsr] at h; cases h⟩
        · rw [if_neg hsr]
          refine ⟨hrec b, fun h => absurd h np, fun _ h => absurd h nh, fun _ _ h => absurd h no, fun _ _ _ h => absurd h hsr,
            fun _ _ _ _ => ⟨_, rfl, ?_, ?_, ?_⟩⟩
          · rw [(deliver_spec _ _).1]; exact congrArg some hfs
          · rw [(deliver_spec _ _).2.1]; exact congrArg _ hhdr
          · rw [(deliver_spec _ _).2.2]; simp only [hrd, finalBody, hba, if_true]
      · have hbody : finalBody req.method a = [] := by
          unfold finalBody
          split
          · rename_i hba
            have : b.written = false := by
              cases hw : b.written
              · rfl
              · exfalso; apply c3; rw [hexp.mpr hba, hw]; rfl
            rw [hwr] at this; simpa using this
          · rfl
        rw [settle_nobody _ _ _ _ _ c0 c1 c2 c3, hsr']
        by_cases hsr : shouldRetry cfg req k (capCode a) = true
        · rw [if_pos hsr]
          exact ⟨recOK_none b acc hacc, fun h => absurd h np, fun _ h => absurd h nh, fun _ _ h => absurd h no,
            fun _ _ _ _ => rfl, fun _ _ _ h => by rw [hsr] at h; cases h⟩
        · rw [if_neg hsr]
          refine ⟨recOK_none b acc hacc, fun h => absurd h np, fun _ h => absurd h nh, fun _ _ h => absurd h no,
            fun _ _ _ h => absurd h hsr, fun _ _ _ _ => ⟨_, rfl, ?_, ?_, ?_⟩⟩
          · rw [(deliver_spec _ _).1]; exact congrArg some hfs
          · rw [(deliver_spec _ _).2.1]; exact congrArg _ hhdr
          · rw [(deliver_spec _ _).2.2, hbody]
