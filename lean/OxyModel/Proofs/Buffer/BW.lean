import OxyModel.Proofs.Buffer.Writer
import OxyModel.Proofs.Buffer.Spec

/-! `bufferWriter.Write` over a whole list of writes. -/
namespace Buf

theorem BW.write_common (bw : BW) (p : Bytes) :
    (bw.write p).header = bw.header ∧ (bw.write p).hijacked = bw.hijacked ∧
    (bw.write p).code = (if bw.code = 0 then 200 else bw.code) ∧
    (bw.write p).written = (bw.written || decide (p ≠ [])) ∧
    (bw.write p).buffer.maxBytes = bw.buffer.maxBytes ∧ (bw.write p).buffer.memBytes = bw.buffer.memBytes := by
  obtain ⟨c1, c2⟩ := bw.buffer.write_cfg p
  refine ⟨rfl, rfl, ?_, ?_, c1, c2⟩
  · simp [BW.write]
  · cases p <;> simp [BW.write]

theorem BW.write_step (bw : BW) (p acc : Bytes) (h : bw.buffer.Inv acc) :
    ((bw.write p).buffer = bw.buffer ∧ (bw.write p).writeError = true ∧
      bw.buffer.maxBytes > 0 ∧ (p.length : Int) + (acc.length : Int) > bw.buffer.maxBytes) ∨
    ((bw.write p).buffer.Inv (acc ++ p) ∧ (bw.write p).writeError = bw.writeError ∧
      ¬ (bw.buffer.maxBytes > 0 ∧ (p.length : Int) + (acc.length : Int) > bw.buffer.maxBytes)) := by
  have hiff := Writer.write_rejected_iff h p
  rw [h.total] at hiff
  cases hr : (bw.buffer.write p).2
  · right
    refine ⟨?_, ?_, ?_⟩
    · exact Writer.write_accepted_inv h p hr
    · simp [BW.write, hr]
    · intro hc; rw [← hiff] at hc; simp [hr] at hc
  · left
    have := hiff.mp hr
    refine ⟨?_, ?_, this.1, this.2⟩
    · exact Writer.write_rejected_eq _ _ hr
    · simp [BW.write, hr]

theorem sumLen_cons (p : Bytes) (ws : List Bytes) : sumLen (p :: ws) = p.length + sumLen ws := by
  simp [sumLen]

theorem BW.writes_spec (ws : List Bytes) : ∀ (bw : BW) (acc : Bytes), bw.buffer.Inv acc →
    (∃ acc', (ws.foldl BW.write bw).buffer.Inv acc') ∧
    ((ws.foldl BW.write bw).writeError = true ↔
      (bw.writeError = true ∨ (bw.buffer.maxBytes > 0 ∧ ((acc.length : Int) + (sumLen ws : Int)) > bw.buffer.maxBytes))) ∧
    ((ws.foldl BW.write bw).writeError = false → (ws.foldl BW.write bw).buffer.Inv (acc ++ ws.flatten)) ∧
    (ws.foldl BW.write bw).header = bw.header ∧ (ws.foldl BW.write bw).hijacked = bw.hijacked ∧
    (ws.foldl BW.write bw).code = (if ws = [] then bw.code else if bw.code = 0 then 200 else bw.code) ∧
    (ws.foldl BW.write bw).written = (bw.written || decide (ws.flatten ≠ [])) ∧
    (ws.foldl BW.write bw).buffer.maxBytes = bw.buffer.maxBytes ∧
    (ws.foldl BW.write bw).buffer.memBytes = bw.buffer.memBytes := by
  induction ws with
  | nil =>
    intro bw acc h
    refine ⟨⟨acc, h⟩, ?_, ?_, rfl, rfl, by simp, by simp, rfl, rfl⟩
    · simp only [List.foldl_nil, sumLen, List.map_nil, List.sum_nil]
      constructor
      · intro e; exact Or.inl e
      · rintro (e | ⟨hm, hgt⟩)
        · exact e
        · have := h.maxOk hm; rw [h.total] at this; omega
    · intro _; simpa using h
  | cons p ws ih =>
    intro bw acc h
    obtain ⟨k1, k2, k3, k4, k5, k6⟩ := BW.write_common bw p
    simp only [List.foldl_cons]
    rcases BW.write_step bw p acc h with ⟨e1, e2, e3, e4⟩ | ⟨e1, e2, e3⟩
    · have h' : (bw.write p).buffer.Inv acc := by rw [e1]; exact h
      obtain ⟨i1, i2, i3, i4, i5, i6, i7, i8, i9⟩ := ih (bw.write p) acc h'
      refine ⟨i1, ?_, ?_, by rw [i4, k1], by rw [i5, k2], ?_, ?_, by rw [i8, k5], by rw [i9, k6]⟩
      · rw [i2, e2, sumLen_cons]; simp only [true_or, true_iff]; right; exact ⟨e3, by omega⟩
      · intro hf; have := i2.mpr (Or.inl e2); rw [this] at hf; cases hf
      · rw [i6, k3]; cases ws <;> simp <;> split <;> simp_all
      · rw [i7, k4]; cases p <;> simp
    · obtain ⟨i1, i2, i3, i4, i5, i6, i7, i8, i9⟩ := ih (bw.write p) (acc ++ p) e1
      refine ⟨i1, ?_, ?_, by rw [i4, k1], by rw [i5, k2], ?_, ?_, by rw [i8, k5], by rw [i9, k6]⟩
      · rw [i2, e2, k5, sumLen_cons]
        simp only [List.length_append, Int.natCast_add]
        constructor
        · rintro (a | ⟨a, b⟩)
          · exact Or.inl a
          · exact Or.inr ⟨a, by omega⟩
        · rintro (a | ⟨a, b⟩)
          · exact Or.inl a
          · exact Or.inr ⟨a, by omega⟩
      · intro hf; have := i3 hf; simpa [List.append_assoc] using this
      · rw [i6, k3]; cases ws <;> simp <;> split <;> simp_all
      · rw [i7, k4]; cases p <;> simp
