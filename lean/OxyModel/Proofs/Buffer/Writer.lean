import OxyModel.Model.Buffer

/-! Invariant of `multibuf.writerOnce` while the handler writes, and what `Write` does to it. -/
namespace Buf

/-- `acc` = the bytes accepted so far -/
structure Writer.Inv (w : Writer) (acc : Bytes) : Prop where
  notRead : w.state ≠ .calledRead
  data : w.memBuf ++ w.fileBuf = acc
  total : w.total = acc.length
  initEmpty : w.state = .init → acc = []
  fileSt : w.state = .file → w.hasCleanup = true ∧ w.onDisk = true ∧ w.created = 1 ∧ w.removed = 0
  noFile : w.state ≠ .file → w.fileBuf = [] ∧ w.onDisk = false ∧ w.created = 0 ∧ w.removed = 0 ∧ w.total ≤ w.memBytes
  maxOk : w.maxBytes > 0 → (w.total : Int) ≤ w.maxBytes

theorem Writer.inv_new (mx : Int) (mm : Nat) : (newWriterOnce mx mm).Inv [] := by
  constructor <;> simp [newWriterOnce]
  intro h; omega

theorem Writer.write_rejected_iff {w : Writer} {acc : Bytes} (h : w.Inv acc) (p : Bytes) :
    (w.write p).2 = true ↔ (w.maxBytes > 0 ∧ (p.length : Int) + (w.total : Int) > w.maxBytes) := by
  unfold Writer.write
  split
  · simp_all
  · rename_i hc
    have hn := h.notRead
    cases hs : w.state <;> simp_all
    all_goals (split <;> simp_all)

theorem Writer.write_rejected_eq (w : Writer) (p : Bytes) (h : (w.write p).2 = true) : (w.write p).1 = w := by
  unfold Writer.write at h ⊢
  split
  · rfl
  · rename_i hc
    cases hs : w.state <;> simp_all
    all_goals (split at h <;> simp_all)

theorem Writer.write_cfg (w : Writer) (p : Bytes) :
    (w.write p).1.maxBytes = w.maxBytes ∧ (w.write p).1.memBytes = w.memBytes := by
  unfold Writer.write
  split
  · simp
  · cases hs : w.state <;> simp
    all_goals (split <;> simp)

theorem Writer.writeToMem_le (w : Writer) (n : Nat) : w.writeToMem n ≤ n ∧ w.total + w.writeToMem n ≤ max w.total w.memBytes := by
  unfold Writer.writeToMem
  simp only
  split
  · omega
  · split <;> omega


theorem Writer.write_accepted_inv {w : Writer} {acc : Bytes} (h : w.Inv acc) (p : Bytes)
    (ha : (w.write p).2 = false) : (w.write p).1.Inv (acc ++ p) := by
  have hrej := (Writer.write_rejected_iff h p)
  have hnot : ¬ (w.maxBytes > 0 ∧ (p.length : Int) + (w.total : Int) > w.maxBytes) := by
    intro hc; rw [← hrej] at hc; simp_all
  obtain ⟨hk1, hk2⟩ := w.writeToMem_le p.length
  have hn := h.notRead
  have hd := h.data
  have ht := h.total
  have hmx := h.maxOk
  unfold Writer.write
  rw [if_neg hnot]
  cases hs : w.state
  case calledRead => exact absurd hs hn
  case file =>
    obtain ⟨f1, f2, f3, f4⟩ := h.fileSt hs
    constructor <;> simp_all
    · rw [← hd]; simp [List.append_assoc]
    · intro hm; have := hrej hm; omega
  case init =>
    have he := h.initEmpty hs
    obtain ⟨n1, n2, n3, n4, n5⟩ := h.noFile (by simp [hs])
    subst he
    have hmb : w.memBuf = [] := by simpa [n1] using hd
    simp only
    split
    · rename_i hz
      have hkp : w.writeToMem p.length = p.length := by omega
      constructor <;> simp_all
      all_goals first | omega | (intro hm; have := hrej hm; omega)
    · rename_i hz
      constructor <;> simp_all
      all_goals first | omega | (intro hm; have := hrej hm; omega)
  case mem =>
    obtain ⟨n1, n2, n3, n4, n5⟩ := h.noFile (by simp [hs])
    simp only
    split
    · rename_i hz
      have hkp : w.writeToMem p.length = p.length := by omega
      constructor <;> simp_all
      all_goals first | omega | (intro hm; have := hrej hm; omega)
    · rename_i hz
      constructor <;> simp_all
      all_goals first | omega | (intro hm; have := hrej hm; omega)
