import OxyModel.Proofs.Buffer.Settle
import OxyModel.Proofs.Buffer.Heap

/-! The retry loop of `ServeHTTP`: decision structure, views, ledger. -/
namespace Buf

/-- what the `k`-th pass through the loop body decides -/
def Att (cfg : Cfg) (req : Req) (script : Nat → Attempt) (k : Nat) : Settled :=
  settle cfg req k (fresh cfg (script k)) req.method

def readOf (body : Option MultiBuf) (a : Attempt) : Bytes :=
  match body with
  | none => []
  | some b => (b.read a.read).1

def bodyAfter (body : Option MultiBuf) (a : Attempt) : Option MultiBuf :=
  match body with
  | none => none
  | some b => some (b.read a.read).2

theorem attemptStep_eq (cfg : Cfg) (req : Req) (r : ReqRef) (hr : r.method = req.method) (size : Nat) (a : Attempt)
    (k : Nat) (body : Option MultiBuf) (d : Nat) (h : Heap) :
    attemptStep cfg req r size a k body d h =
      ⟨⟨(copyRequestH h r size).1.deref (copyRequestH h r size).2, readOf body a,
          d + (if (fresh cfg a).buffer.onDisk then 1 else 0)⟩,
        (settle cfg req k (fresh cfg a) req.method).bw, (settle cfg req k (fresh cfg a) req.method).rdr,
        bodyAfter body a, (settle cfg req k (fresh cfg a) req.method).outcome,
        handlerHeap a (copyRequestH h r size).1 (copyRequestH h r size).2⟩ := by
  have hm : (copyRequestH h r size).2.method = req.method := hr
  unfold attemptStep runHandler
  simp only [hm]
  cases body <;> rfl

theorem shouldRetry_le (cfg : Cfg) (req : Req) (k c : Nat) (h : shouldRetry cfg req k c = true) : k ≤ 10 := by
  unfold shouldRetry at h
  cases hr : cfg.retry
  · simp [hr] at h
  · simp only [hr, DefaultMaxRetryAttempts] at h
    by_cases hk : k > 10
    · simp [hk] at h
    · omega

theorem settle_retry_imp (cfg : Cfg) (req : Req) (k : Nat) (b : BW) (m : String)
    (h : (settle cfg req k b m).outcome = .retry) : shouldRetry cfg req k b.code = true := by
  unfold settle at h
  split at h
  · cases h
  · split at h
    · cases h
    · split at h
      · cases h
      · split at h
        · split at h
          · cases h
          · split at h
            · assumption
            · cases h
        · split at h
          · assumption
          · cases h

theorem Att_retry_le (cfg : Cfg) (req : Req) (script : Nat → Attempt) (k : Nat)
    (h : (Att cfg req script k).outcome = .retry) : k ≤ 10 :=
  shouldRetry_le _ _ _ _ (settle_retry_imp _ _ _ _ _ h)

theorem loop_decide (cfg : Cfg) (req : Req) (r : ReqRef) (hr : r.method = req.method) (script : Nat → Attempt)
    (size c0 r0 : Nat) :
    ∀ (fuel attempt : Nat) (body : Option MultiBuf) (views : List View) (recs : List (BW × Option Rdr)) (h : Heap),
    1 ≤ fuel → attempt + fuel = 12 →
    ∃ m, attempt ≤ m ∧ m ≤ 11 ∧
      (∀ j, attempt ≤ j → j < m → (Att cfg req script j).outcome = .retry) ∧
      (Att cfg req script m).outcome ≠ .retry ∧
      (loop cfg req r script size c0 r0 fuel attempt body views recs h).views.length = views.length + (m + 1 - attempt) ∧
      (loop cfg req r script size c0 r0 fuel attempt body views recs h).outOfFuel = false ∧
      ((Att cfg req script m).outcome = .hijacked →
        (loop cfg req r script size c0 r0 fuel attempt body views recs h).hijacked = true ∧
        (loop cfg req r script size c0 r0 fuel attempt body views recs h).panicked = false ∧
        (loop cfg req r script size c0 r0 fuel attempt body views recs h).resp = {}) ∧
      (∀ up, (Att cfg req script m).outcome = .final up →
        (loop cfg req r script size c0 r0 fuel attempt body views recs h).hijacked = false ∧
        (loop cfg req r script size c0 r0 fuel attempt body views recs h).panicked = false ∧
        (loop cfg req r script size c0 r0 fuel attempt body views recs h).resp = up) ∧
      ((Att cfg req script m).outcome = .panicked →
        (loop cfg req r script size c0 r0 fuel attempt body views recs h).hijacked = false ∧
        (loop cfg req r script size c0 r0 fuel attempt body views recs h).panicked = true ∧
        (loop cfg req r script size c0 r0 fuel attempt body views recs h).resp = {}) := by
  intro fuel
  induction fuel with
  | zero => intro _ _ _ _ _ h; omega
  | succ fuel ih =>
    intro attempt body views recs h _ hsum
    unfold loop
    simp only [attemptStep_eq cfg req r hr]
    cases ho : (settle cfg req attempt (fresh cfg (script attempt)) req.method).outcome with
    | hijacked =>
      refine ⟨attempt, Nat.le_refl _, by omega, fun j h1 h2 => by omega, ?_, ?_, rfl, ?_, ?_, ?_⟩
      · unfold Att; rw [ho]; intro h; cases h
      · simp [finish]
      · intro _; exact ⟨rfl, rfl, rfl⟩
      · intro up h; unfold Att at h; rw [ho] at h; cases h
      · intro h; unfold Att at h; rw [ho] at h; cases h
    | panicked =>
      refine ⟨attempt, Nat.le_refl _, by omega, fun j h1 h2 => by omega, ?_, ?_, rfl, ?_, ?_, ?_⟩
      · unfold Att; rw [ho]; intro h; cases h
      · simp [finish]
      · intro h; unfold Att at h; rw [ho] at h; cases h
      · intro up h; unfold Att at h; rw [ho] at h; cases h
      · intro _; exact ⟨rfl, rfl, rfl⟩
    | final up =>
      refine ⟨attempt, Nat.le_refl _, by omega, fun j h1 h2 => by omega, ?_, ?_, rfl, ?_, ?_, ?_⟩
      · unfold Att; rw [ho]; intro h; cases h
      · simp [finish]
      · intro h; unfold Att at h; rw [ho] at h; cases h
      · intro up' h; unfold Att at h; rw [ho] at h; cases h; exact ⟨rfl, rfl, rfl⟩
      · intro h; unfold Att at h; rw [ho] at h; cases h
    | retry =>
      have hle : attempt ≤ 10 := Att_retry_le cfg req script attempt ho
      obtain ⟨m, m1, m2, m3, m4, m5, m6, m7, m8, m9⟩ :=
        ih (attempt + 1) ((bodyAfter body (script attempt)).map MultiBuf.seek0)
          (views ++ [⟨(copyRequestH h r size).1.deref (copyRequestH h r size).2, readOf body (script attempt),
            onDiskCount recs + (if (fresh cfg (script attempt)).buffer.onDisk then 1 else 0)⟩])
          (((settle cfg req attempt (fresh cfg (script attempt)) req.method).bw,
            (settle cfg req attempt (fresh cfg (script attempt)) req.method).rdr) :: recs)
          (handlerHeap (script attempt) (copyRequestH h r size).1 (copyRequestH h r size).2) (by omega) (by omega)
      refine ⟨m, by omega, m2, ?_, m4, ?_, m6, m7, m8, m9⟩
      · intro j h1 h2
        by_cases hj : j = attempt
        · subst hj; exact ho
        · exact m3 j (by omega) h2
      · rw [m5]; simp; omega

/-- the buffered request body at the entry of an attempt: all of the request's bytes, offset 0 -/
def BodyInv (req : Req) (body : Option MultiBuf) : Prop :=
  match body with
  | none => req.body = []
  | some b => b.data = req.body ∧ b.pos = 0

/-- the bytes an invocation reads: a prefix of the request body starting at its first byte -/
def expectedRead (req : Req) (a : Attempt) : Bytes :=
  match a.read with
  | none => req.body
  | some n => req.body.take n

theorem readOf_inv (req : Req) (body : Option MultiBuf) (a : Attempt) (h : BodyInv req body) :
    readOf body a = expectedRead req a ∧ BodyInv req ((bodyAfter body a).map MultiBuf.seek0) := by
  cases body with
  | none =>
    simp only [BodyInv] at h
    refine ⟨?_, by simpa [bodyAfter, BodyInv] using h⟩
    unfold readOf expectedRead; rw [h]; cases a.read <;> simp
  | some b =>
    obtain ⟨h1, h2⟩ := h
    refine ⟨?_, ?_⟩
    · simp only [readOf, expectedRead, MultiBuf.read, h1, h2]
      cases a.read <;> simp
    · simp only [bodyAfter, Option.map, BodyInv, MultiBuf.seek0, MultiBuf.read, MultiBuf.data] at *
      exact ⟨h1, trivial⟩

/-- one attempt's effect on the store -/
def stepHeap (r : ReqRef) (size : Nat) (a : Attempt) (h : Heap) : Heap :=
  handlerHeap a (copyRequestH h r size).1 (copyRequestH h r size).2

/-- what the attempt sees of the request when it starts in store `h` -/
def viewReq (r : ReqRef) (size : Nat) (h : Heap) : OutReq := (copyRequestH h r size).1.deref (copyRequestH h r size).2

theorem loop_views (cfg : Cfg) (req : Req) (r : ReqRef) (hr : r.method = req.method) (script : Nat → Attempt)
    (size c0 r0 : Nat) (P : Nat → View → Prop) (I : Heap → Prop)
    (hI : ∀ h a, I h → I (stepHeap r size a h))
    (hP : ∀ k d h, I h → P k ⟨viewReq r size h, expectedRead req (script k),
      d + (if (fresh cfg (script k)).buffer.onDisk then 1 else 0)⟩) :
    ∀ (fuel attempt : Nat) (body : Option MultiBuf) (views : List View) (recs : List (BW × Option Rdr)) (h : Heap),
    attempt = views.length + 1 → BodyInv req body → I h →
    (∀ i v, views[i]? = some v → P (i + 1) v) →
    ∀ i v, (loop cfg req r script size c0 r0 fuel attempt body views recs h).views[i]? = some v → P (i + 1) v := by
  intro fuel
  induction fuel with
  | zero => intro attempt body views recs h _ _ _ hv i v hh; unfold loop at hh; exact hv i v hh
  | succ fuel ih =>
    intro attempt body views recs h hat hb hi hv
    obtain ⟨hrd, hb'⟩ := readOf_inv req body (script attempt) hb
    have hv' : ∀ i v, (views ++ [⟨(copyRequestH h r size).1.deref (copyRequestH h r size).2, readOf body (script attempt),
        onDiskCount recs + (if (fresh cfg (script attempt)).buffer.onDisk then 1 else 0)⟩])[i]? = some v → P (i + 1) v := by
      intro i v hh
      by_cases hlt : i < views.length
      · rw [List.getElem?_append_left hlt] at hh; exact hv i v hh
      · have hi' : views.length ≤ i := Nat.le_of_not_lt hlt
        rw [List.getElem?_append_right hi'] at hh
        have : i - views.length = 0 := by
          cases hq : i - views.length with
          | zero => rfl
          | succ n => rw [hq] at hh; simp at hh
        rw [this] at hh
        simp only [List.getElem?_cons_zero, Option.some.injEq] at hh
        have hie : i + 1 = attempt := by omega
        rw [← hh, hrd, hie]; exact hP _ _ h hi
    unfold loop
    simp only [attemptStep_eq cfg req r hr]
    cases ho : (settle cfg req attempt (fresh cfg (script attempt)) req.method).outcome with
    | hijacked => intro i v hh; exact hv' i v hh
    | panicked => intro i v hh; exact hv' i v hh
    | final up => intro i v hh; exact hv' i v hh
    | retry =>
      exact ih (attempt + 1) _ _ _ _ (by simp; omega) hb' (hI h (script attempt) hi) hv'

theorem sum_map_eq {α : Type} (l : List α) (f g : α → Nat) (h : ∀ x ∈ l, f x = g x) : (l.map f).sum = (l.map g).sum := by
  induction l with
  | nil => rfl
  | cons x xs ih =>
    simp only [List.map_cons, List.sum_cons]
    rw [h x (List.mem_cons_self), ih (fun y hy => h y (List.mem_cons_of_mem _ hy))]

theorem finish_ledger (up : Up) (hij : Bool) (views : List View) (recs : List (BW × Option Rdr)) (c0 r0 : Nat)
    (h : ∀ e ∈ recs, RecOK e.1 e.2) :
    (finish up hij views recs c0 r0).created + r0 = (finish up hij views recs c0 r0).removed + c0 := by
  have : ((closeAll recs).map (fun b => b.buffer.created)).sum = ((closeAll recs).map (fun b => b.buffer.removed)).sum := by
    unfold closeAll
    rw [List.map_map, List.map_map]
    apply sum_map_eq
    intro e he
    exact h e he
  simp only [finish]
  omega

theorem loop_ledger (cfg : Cfg) (req : Req) (r : ReqRef) (hr : r.method = req.method) (script : Nat → Attempt)
    (size c0 r0 : Nat) :
    ∀ (fuel attempt : Nat) (body : Option MultiBuf) (views : List View) (recs : List (BW × Option Rdr)) (hp : Heap),
    (∀ e ∈ recs, RecOK e.1 e.2) →
    (loop cfg req r script size c0 r0 fuel attempt body views recs hp).created + r0 =
      (loop cfg req r script size c0 r0 fuel attempt body views recs hp).removed + c0 := by
  intro fuel
  induction fuel with
  | zero => intro attempt body views recs hp h; exact finish_ledger {} false views recs c0 r0 h
  | succ fuel ih =>
    intro attempt body views recs hp h
    have hrec := (settle_spec cfg req attempt (script attempt)).1
    have h' : ∀ e ∈ ((settle cfg req attempt (fresh cfg (script attempt)) req.method).bw,
        (settle cfg req attempt (fresh cfg (script attempt)) req.method).rdr) :: recs, RecOK e.1 e.2 := by
      intro e he
      rcases List.mem_cons.mp he with rfl | he
      · exact hrec
      · exact h e he
    unfold loop
    simp only [attemptStep_eq cfg req r hr]
    cases ho : (settle cfg req attempt (fresh cfg (script attempt)) req.method).outcome with
    | hijacked => exact finish_ledger _ _ _ _ _ _ h'
    | panicked => exact finish_ledger {} false [] _ c0 r0 h'
    | final up => exact finish_ledger _ _ _ _ _ _ h'
    | retry => exact ih _ _ _ _ _ h'

/-! ## `multibuf.New` -/

theorem effMem_le_max (mx : Int) (mm : Nat) (h : mx > 0) : (effMem mx mm : Int) ≤ mx := by
  unfold effMem
  generalize (if mm == 0 then MultibufDefaultMemBytes else mm) = m
  simp only
  by_cases hc : mx > 0 ∧ mx < (m : Int)
  · rw [if_pos hc]; omega
  · rw [if_neg hc]; omega

theorem multibufNew_spec (input : Bytes) (mx : Int) (mm : Nat) :
    (multibufNew input mx mm).created = (multibufNew input mx mm).removed ∧
    ((mx > 0 ∧ (input.length : Int) > mx) →
      (multibufNew input mx mm).buf = .error .maxSize) ∧
    (¬ (mx > 0 ∧ (input.length : Int) > mx) →
      ∃ b, (multibufNew input mx mm).buf = .ok b ∧ b.data = input ∧ b.length = input.length ∧ b.pos = 0) ∧
    (effMem mx mm ≤ input.length → (multibufNew input mx mm).created = 1) := by
  have hle := effMem_le_max mx mm
  unfold multibufNew
  simp only [List.length_take, List.length_drop]
  generalize effMem mx mm = mem at *
  by_cases hn : ((mem : Int) - ((min mem input.length : Nat) : Int)) ≤ 0
  · rw [if_pos hn]
    have hml : mem ≤ input.length := by omega
    by_cases hov : mx > 0 ∧ ((input.length - mem : Nat) : Int) > mx - (mem : Int)
    · rw [if_pos hov]
      refine ⟨rfl, fun _ => rfl, fun h => ?_, fun _ => rfl⟩
      exfalso; apply h; have := hle hov.1; exact ⟨hov.1, by omega⟩
    · rw [if_neg hov]
      refine ⟨rfl, fun h => ?_, fun _ => ⟨_, rfl, ?_, ?_, rfl⟩, fun _ => rfl⟩
      · exfalso; apply hov; have := hle h.1; exact ⟨h.1, by omega⟩
      · simp [MultiBuf.data]
      · simp only; omega
  · rw [if_neg hn]
    have hml : input.length < mem := by omega
    refine ⟨rfl, fun h => ?_, fun _ => ⟨_, rfl, ?_, ?_, rfl⟩, fun h => by omega⟩
    · exfalso; have := hle h.1; omega
    · simp [MultiBuf.data, List.take_of_length_le (Nat.le_of_lt hml)]
    · simp only; omega

theorem loop_created_ge (cfg : Cfg) (req : Req) (r : ReqRef) (hr : r.method = req.method) (script : Nat → Attempt)
    (size c0 r0 : Nat) :
    ∀ (fuel attempt : Nat) (body : Option MultiBuf) (views : List View) (recs : List (BW × Option Rdr)) (hp : Heap),
    c0 ≤ (loop cfg req r script size c0 r0 fuel attempt body views recs hp).created := by
  intro fuel
  induction fuel with
  | zero => intro attempt body views recs hp; exact Nat.le_add_right _ _
  | succ fuel ih =>
    intro attempt body views recs hp
    unfold loop
    simp only [attemptStep_eq cfg req r hr]
    cases ho : (settle cfg req attempt (fresh cfg (script attempt)) req.method).outcome with
    | hijacked => exact Nat.le_add_right _ _
    | panicked => exact Nat.le_add_right _ _
    | final up => exact Nat.le_add_right _ _
    | retry => exact ih _ _ _ _ _

/-! ## `ServeHTTP` before the loop -/

theorem serve_rejected (cfg : Cfg) (req : Req) (script : Nat → Attempt) (h : requestOver cfg req) :
    ∃ c, serve cfg req script = { resp := sizeErrHandler {} .maxSize, created := c, removed := c } := by
  obtain ⟨h1, h2⟩ := h
  obtain ⟨e1, e2, _, _⟩ := multibufNew_spec req.body cfg.maxReq cfg.memReq
  unfold serve
  by_cases hc : checkLimit cfg req = true
  · simp only [hc, Bool.not_true, Bool.false_eq_true, if_false]
    rw [e2 ⟨h1, h2⟩]
    exact ⟨(multibufNew req.body cfg.maxReq cfg.memReq).removed, by simp only [e1]⟩
  · simp only [hc, Bool.not_false, if_true]
    exact ⟨0, rfl⟩

theorem serve_admitted (cfg : Cfg) (req : Req) (script : Nat → Attempt) (h : ¬ requestOver cfg req) :
    ∃ b c, b.data = req.body ∧ b.pos = 0 ∧ (effMem cfg.maxReq cfg.memReq ≤ req.body.length → c = 1) ∧
      serve cfg req script = loop cfg req (Heap.ofReq req).2 script req.body.length c c (DefaultMaxRetryAttempts + 1) 1
        (if req.body.length == 0 then none else some b) [] [] (Heap.ofReq req).1 := by
  obtain ⟨e1, _, e3, e4⟩ := multibufNew_spec req.body cfg.maxReq cfg.memReq
  obtain ⟨b, hb, hd, hl, hp⟩ := e3 h
  have hc : checkLimit cfg req = true := by
    unfold checkLimit Req.contentLength
    by_cases h0 : cfg.maxReq ≤ 0
    · simp [h0]
    · simp only [h0, if_false]
      by_cases hch : req.chunked = true
      · simp only [hch, if_true]
        rw [if_neg (by omega)]
      · simp only [hch, Bool.false_eq_true, if_false]
        rw [if_neg]
        intro hgt; exact h ⟨by omega, hgt⟩
  refine ⟨b, (multibufNew req.body cfg.maxReq cfg.memReq).created, hd, hp, e4, ?_⟩
  unfold serve
  simp only [hc, Bool.not_true, Bool.false_eq_true, if_false]
  rw [hb]
  simp only [hl, ← e1]
