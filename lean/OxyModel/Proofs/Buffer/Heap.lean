import OxyModel.Model.Buffer

/-! The store: what a handler can reach through the pointers of its request copy, and what it cannot. -/
namespace Buf

/-- everything allocated in `h0` is still there, unchanged, in `h` -/
def Pres (h0 h : Heap) : Prop :=
  h0.nSlices ≤ h.nSlices ∧ h0.nMaps ≤ h.nMaps ∧ h0.nUrls ≤ h.nUrls ∧
  (∀ i, i < h0.nSlices → h.slices i = h0.slices i) ∧
  (∀ m, m < h0.nMaps → h.maps m = h0.maps m) ∧
  (∀ u, u < h0.nUrls → h.urls u = h0.urls u)

/-- map `m` and URL `u` were allocated after `h0`, and `m` points only to backing arrays allocated after `h0` -/
def Own (h0 h : Heap) (m u : Nat) : Prop :=
  h0.nMaps ≤ m ∧ h0.nUrls ≤ u ∧ ∀ e ∈ h.maps m, h0.nSlices ≤ e.2

theorem Pres.refl (h : Heap) : Pres h h :=
  ⟨Nat.le_refl _, Nat.le_refl _, Nat.le_refl _, fun _ _ => rfl, fun _ _ => rfl, fun _ _ => rfl⟩

theorem Pres.trans {a b c : Heap} (h1 : Pres a b) (h2 : Pres b c) : Pres a c := by
  obtain ⟨a1, a2, a3, a4, a5, a6⟩ := h1
  obtain ⟨b1, b2, b3, b4, b5, b6⟩ := h2
  refine ⟨by omega, by omega, by omega, ?_, ?_, ?_⟩
  · intro i hi; rw [b4 i (by omega), a4 i hi]
  · intro i hi; rw [b5 i (by omega), a5 i hi]
  · intro i hi; rw [b6 i (by omega), a6 i hi]

theorem pres_allocSlice (h : Heap) (vs : List String) : Pres h (h.allocSlice vs).1 := by
  refine ⟨Nat.le_succ _, Nat.le_refl _, Nat.le_refl _, ?_, fun _ _ => rfl, fun _ _ => rfl⟩
  intro i hi; simp only [Heap.allocSlice]; rw [if_neg (by omega)]

theorem pres_allocUrl (h : Heap) (u : String) : Pres h (h.allocUrl u).1 := by
  refine ⟨Nat.le_refl _, Nat.le_refl _, Nat.le_succ _, fun _ _ => rfl, fun _ _ => rfl, ?_⟩
  intro i hi; simp only [Heap.allocUrl]; rw [if_neg (by omega)]

theorem pres_allocMap (h : Heap) (es : List (String × Nat)) : Pres h (h.allocMap es).1 := by
  refine ⟨Nat.le_refl _, Nat.le_succ _, Nat.le_refl _, fun _ _ => rfl, ?_, fun _ _ => rfl⟩
  intro i hi; simp only [Heap.allocMap]; rw [if_neg (by omega)]

/-- entries dereferenced in a store -/
def derefEntries (h : Heap) (es : List (String × Nat)) : Header := es.map (fun e => (e.1, h.slices e.2))

theorem derefEntries_congr (h h' : Heap) (es : List (String × Nat)) (hs : ∀ e ∈ es, h'.slices e.2 = h.slices e.2) :
    derefEntries h' es = derefEntries h es := by
  unfold derefEntries
  apply List.map_congr_left
  intro e he; rw [hs e he]

theorem storeSlices_fold (H : Header) : ∀ (h : Heap) (es : List (String × Nat)), (∀ e ∈ es, e.2 < h.nSlices) →
    Pres h (H.foldl (fun acc e => ((acc.1.allocSlice e.2).1, acc.2 ++ [(e.1, (acc.1.allocSlice e.2).2)])) (h, es)).1 ∧
    (H.foldl (fun acc e => ((acc.1.allocSlice e.2).1, acc.2 ++ [(e.1, (acc.1.allocSlice e.2).2)])) (h, es)).1.maps = h.maps ∧
    (H.foldl (fun acc e => ((acc.1.allocSlice e.2).1, acc.2 ++ [(e.1, (acc.1.allocSlice e.2).2)])) (h, es)).1.nMaps = h.nMaps ∧
    (H.foldl (fun acc e => ((acc.1.allocSlice e.2).1, acc.2 ++ [(e.1, (acc.1.allocSlice e.2).2)])) (h, es)).1.urls = h.urls ∧
    (H.foldl (fun acc e => ((acc.1.allocSlice e.2).1, acc.2 ++ [(e.1, (acc.1.allocSlice e.2).2)])) (h, es)).1.nUrls = h.nUrls ∧
    derefEntries (H.foldl (fun acc e => ((acc.1.allocSlice e.2).1, acc.2 ++ [(e.1, (acc.1.allocSlice e.2).2)])) (h, es)).1
      (H.foldl (fun acc e => ((acc.1.allocSlice e.2).1, acc.2 ++ [(e.1, (acc.1.allocSlice e.2).2)])) (h, es)).2
      = derefEntries h es ++ H ∧
    (∀ e ∈ (H.foldl (fun acc e => ((acc.1.allocSlice e.2).1, acc.2 ++ [(e.1, (acc.1.allocSlice e.2).2)])) (h, es)).2,
      e ∈ es ∨ h.nSlices ≤ e.2) ∧
    (∀ e ∈ (H.foldl (fun acc e => ((acc.1.allocSlice e.2).1, acc.2 ++ [(e.1, (acc.1.allocSlice e.2).2)])) (h, es)).2, e.2 < (H.foldl (fun acc e => ((acc.1.allocSlice e.2).1, acc.2 ++ [(e.1, (acc.1.allocSlice e.2).2)])) (h, es)).1.nSlices) := by
  induction H with
  | nil =>
    intro h es hes
    exact ⟨Pres.refl h, rfl, rfl, rfl, rfl, by simp, fun e he => Or.inl he, hes⟩
  | cons x H ih =>
    intro h es hes
    simp only [List.foldl_cons]
    have hes' : ∀ e ∈ es ++ [(x.1, (h.allocSlice x.2).2)], e.2 < (h.allocSlice x.2).1.nSlices := by
      intro e he
      rcases List.mem_append.mp he with he | he
      · have := hes e he; simp only [Heap.allocSlice]; omega
      · simp only [List.mem_singleton] at he; subst he; simp [Heap.allocSlice]
    obtain ⟨i1, i2, i3, i4, i5, i6, i7, i8⟩ := ih (h.allocSlice x.2).1 (es ++ [(x.1, (h.allocSlice x.2).2)]) hes'
    refine ⟨Pres.trans (pres_allocSlice h x.2) i1, by rw [i2]; rfl, by rw [i3]; rfl, by rw [i4]; rfl, by rw [i5]; rfl, ?_, ?_, i8⟩
    · rw [i6]
      have : derefEntries (h.allocSlice x.2).1 (es ++ [(x.1, (h.allocSlice x.2).2)]) = derefEntries h es ++ [x] := by
        unfold derefEntries
        rw [List.map_append]
        congr 1
        · apply List.map_congr_left
          intro e he
          have := hes e he
          simp only [Heap.allocSlice]; rw [if_neg (by omega)]
        · simp [Heap.allocSlice]
      rw [this]; simp
    · intro e he
      rcases i7 e he with h1 | h1
      · rcases List.mem_append.mp h1 with h2 | h2
        · exact Or.inl h2
        · simp only [List.mem_singleton] at h2; subst h2; right; simp [Heap.allocSlice]
      · right; simp only [Heap.allocSlice] at h1; omega

theorem storeHeader_spec (h : Heap) (H : Header) :
    Pres h (h.storeHeader H).1 ∧ (h.storeHeader H).2 = h.nMaps ∧
    (h.storeHeader H).1.readMap (h.storeHeader H).2 = H ∧
    (∀ e ∈ (h.storeHeader H).1.maps (h.storeHeader H).2, h.nSlices ≤ e.2) ∧
    (h.storeHeader H).1.urls = h.urls ∧ (h.storeHeader H).1.nUrls = h.nUrls ∧
    (h.storeHeader H).1.nMaps = h.nMaps + 1 ∧
    (∀ e ∈ (h.storeHeader H).1.maps (h.storeHeader H).2, e.2 < (h.storeHeader H).1.nSlices) := by
  obtain ⟨i1, i2, i3, i4, i5, i6, i7, i8⟩ := storeSlices_fold H h [] (fun e he => by cases he)
  unfold Heap.storeHeader Heap.storeSlices
  refine ⟨Pres.trans i1 (pres_allocMap _ _), by simp only [Heap.allocMap]; exact i3, ?_, ?_, ?_, ?_, ?_, ?_⟩
  · simp only [Heap.readMap, Heap.allocMap, if_pos]
    have := i6; unfold derefEntries at this; simpa using this
  · intro e he
    simp only [Heap.allocMap, if_pos] at he
    rcases i7 e he with h1 | h1
    · cases h1
    · exact h1
  · simp only [Heap.allocMap]; exact i4
  · simp only [Heap.allocMap]; exact i5
  · simp only [Heap.allocMap]; rw [i3]
  · intro e he
    simp only [Heap.allocMap, if_pos] at he
    exact i8 e he

theorem readMap_pres (h0 h : Heap) (m : Nat) (hp : Pres h0 h) (hm : m < h0.nMaps)
    (hs : ∀ e ∈ h0.maps m, e.2 < h0.nSlices) : h.readMap m = h0.readMap m := by
  obtain ⟨_, _, _, p4, p5, _⟩ := hp
  unfold Heap.readMap
  rw [p5 m hm]
  apply List.map_congr_left
  intro e he; rw [p4 e.2 (hs e he)]

/-- `copyRequest`: the copy is a fresh URL object, a fresh map and fresh backing arrays; it holds the source's values -/
theorem copyRequestH_spec (h : Heap) (r : ReqRef) (size : Nat) :
    Pres h (copyRequestH h r size).1 ∧
    Own h (copyRequestH h r size).1 (copyRequestH h r size).2.mapId (copyRequestH h r size).2.urlId ∧
    (copyRequestH h r size).1.deref (copyRequestH h r size).2 =
      ⟨r.method, h.urls r.urlId, Header.copyInto [] (h.readMap r.mapId), (size : Int), []⟩ := by
  have hu := pres_allocUrl h (h.urls r.urlId)
  obtain ⟨s1, s2, s3, s4, s5, s6, s7, _⟩ :=
    storeHeader_spec (h.allocUrl (h.urls r.urlId)).1 (Header.copyInto [] ((h.allocUrl (h.urls r.urlId)).1.readMap r.mapId))
  unfold copyRequestH
  refine ⟨Pres.trans hu s1, ⟨?_, ?_, ?_⟩, ?_⟩
  · simp only; rw [s2]; exact Nat.le_refl _
  · exact Nat.le_refl _
  · exact s4
  · simp only [Heap.deref]
    rw [s3, s5]
    simp [Heap.allocUrl, Heap.readMap]

theorem mapLookup_mem (es : List (String × Nat)) (k : String) (s : Nat) (h : mapLookup es k = some s) :
    ∃ e ∈ es, e.2 = s := by
  induction es with
  | nil => simp [mapLookup] at h
  | cons x xs ih =>
    unfold mapLookup at h
    rw [List.lookup_cons] at h
    split at h
    · exact ⟨x, List.mem_cons_self, by simpa using h⟩
    · obtain ⟨e, he, hs⟩ := ih h
      exact ⟨e, List.mem_cons_of_mem _ he, hs⟩

theorem mapPut_ids (es : List (String × Nat)) (k : String) (s : Nat) (e : String × Nat) (he : e ∈ mapPut es k s) :
    e ∈ es ∨ e.2 = s := by
  unfold mapPut at he
  split at he
  · rw [List.mem_map] at he
    obtain ⟨x, hx, rfl⟩ := he
    split
    · right; rfl
    · left; exact hx
  · rcases List.mem_append.mp he with h1 | h1
    · exact Or.inl h1
    · simp only [List.mem_singleton] at h1; subst h1; exact Or.inr rfl

/-- a header mutation through the handler's own map touches nothing that existed before the copy was made -/
theorem applyH_pres (h0 h : Heap) (m u : Nat) (op : HdrOp) (hp : Pres h0 h) (ho : Own h0 h m u) :
    Pres h0 (HdrOp.applyH h m op) ∧ Own h0 (HdrOp.applyH h m op) m u := by
  obtain ⟨p1, p2, p3, p4, p5, p6⟩ := hp
  obtain ⟨o1, o2, o3⟩ := ho
  have putCase : ∀ (vs : List String) (k : String),
      Pres h0 ((h.allocSlice vs).1.setMap m (mapPut (h.maps m) k (h.allocSlice vs).2)) ∧
      Own h0 ((h.allocSlice vs).1.setMap m (mapPut (h.maps m) k (h.allocSlice vs).2)) m u := by
    intro vs k
    refine ⟨⟨by simp [Heap.setMap, Heap.allocSlice]; omega, p2, p3, ?_, ?_, p6⟩, o1, o2, ?_⟩
    · intro i hi; simp only [Heap.setMap, Heap.allocSlice]; rw [if_neg (by omega)]; exact p4 i hi
    · intro i hi; simp only [Heap.setMap, Heap.allocSlice]; rw [if_neg (by omega)]; exact p5 i hi
    · intro e he
      simp only [Heap.setMap, Heap.allocSlice, if_pos] at he
      rcases mapPut_ids _ _ _ e he with h1 | h1
      · exact o3 e h1
      · rw [h1]; exact p1
  have writeCase : ∀ (s : Nat) (vs : List String), h0.nSlices ≤ s →
      Pres h0 (h.writeSlice s vs) ∧ Own h0 (h.writeSlice s vs) m u := by
    intro s vs hs
    refine ⟨⟨p1, p2, p3, ?_, p5, p6⟩, o1, o2, o3⟩
    intro i hi; simp only [Heap.writeSlice]; rw [if_neg (by omega)]; exact p4 i hi
  cases op with
  | set k v => exact putCase [v] k
  | add k v => exact putCase _ k
  | del k =>
    refine ⟨⟨p1, p2, p3, p4, ?_, p6⟩, o1, o2, ?_⟩
    · intro i hi; simp only [HdrOp.applyH, Heap.setMap]; rw [if_neg (by omega)]; exact p5 i hi
    · intro e he
      simp only [HdrOp.applyH, Heap.setMap, if_pos] at he
      exact o3 e (List.mem_filter.mp he).1
  | set0 k v =>
    simp only [HdrOp.applyH]
    cases hl : mapLookup (h.maps m) k with
    | none => exact ⟨⟨p1, p2, p3, p4, p5, p6⟩, o1, o2, o3⟩
    | some s =>
      obtain ⟨e, he, hs⟩ := mapLookup_mem _ _ _ hl
      exact writeCase s _ (by rw [← hs]; exact o3 e he)
  | setLast k v =>
    simp only [HdrOp.applyH]
    cases hl : mapLookup (h.maps m) k with
    | none => exact ⟨⟨p1, p2, p3, p4, p5, p6⟩, o1, o2, o3⟩
    | some s =>
      obtain ⟨e, he, hs⟩ := mapLookup_mem _ _ _ hl
      exact writeCase s _ (by rw [← hs]; exact o3 e he)

theorem handlerHeap_pres (h0 h : Heap) (a : Attempt) (o : OutRef) (hp : Pres h0 h) (ho : Own h0 h o.mapId o.urlId) :
    Pres h0 (handlerHeap a h o) := by
  have fold : ∀ (ops : List HdrOp) (h : Heap), Pres h0 h → Own h0 h o.mapId o.urlId →
      Pres h0 (ops.foldl (fun h op => HdrOp.applyH h o.mapId op) h) ∧
      Own h0 (ops.foldl (fun h op => HdrOp.applyH h o.mapId op) h) o.mapId o.urlId := by
    intro ops
    induction ops with
    | nil => intro h hp ho; exact ⟨hp, ho⟩
    | cons op ops ih =>
      intro h hp ho
      obtain ⟨a1, a2⟩ := applyH_pres h0 h o.mapId o.urlId op hp ho
      exact ih _ a1 a2
  obtain ⟨f1, f2⟩ := fold a.hdrOps h hp ho
  unfold handlerHeap
  cases a.setUrl with
  | none => exact f1
  | some v =>
    obtain ⟨p1, p2, p3, p4, p5, p6⟩ := f1
    refine ⟨p1, p2, p3, p4, p5, ?_⟩
    intro i hi; simp only [Heap.writeUrl]; rw [if_neg (by have := f2.2.1; omega)]; exact p6 i hi

/-- the client's request in the store -/
theorem ofReq_spec (req : Req) :
    (Heap.ofReq req).2.method = req.method ∧
    (Heap.ofReq req).2.urlId < (Heap.ofReq req).1.nUrls ∧ (Heap.ofReq req).2.mapId < (Heap.ofReq req).1.nMaps ∧
    (Heap.ofReq req).1.urls (Heap.ofReq req).2.urlId = req.url ∧
    (Heap.ofReq req).1.readMap (Heap.ofReq req).2.mapId = req.header ∧
    (∀ e ∈ (Heap.ofReq req).1.maps (Heap.ofReq req).2.mapId, e.2 < (Heap.ofReq req).1.nSlices) := by
  obtain ⟨s1, s2, s3, s4, s5, s6, s7, s8⟩ := storeHeader_spec (({} : Heap).allocUrl req.url).1 req.header
  unfold Heap.ofReq
  refine ⟨rfl, ?_, ?_, ?_, s3, s8⟩
  · simp only; rw [s6]; simp [Heap.allocUrl]
  · simp only; rw [s7, s2]; exact Nat.lt_succ_self _
  · simp only; rw [s5]; simp [Heap.allocUrl]

end Buf
