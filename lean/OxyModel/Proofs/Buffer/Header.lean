import OxyModel.Model.Buffer

/-! `utils.CopyHeaders` into an empty map reproduces a well-formed header map. -/
namespace Buf.Header

/-- a header map: every key once, no empty value list -/
def WF (h : Header) : Prop := h.Pairwise (fun e f => e.1 ≠ f.1) ∧ ∀ e ∈ h, e.2 ≠ []

theorem add_fresh (d : Header) (k v : String) (hk : ∀ e ∈ d, e.1 ≠ k) : add d k v = d ++ [(k, [v])] := by
  unfold add
  have : d.any (fun e => e.1 == k) = false := by
    rw [List.any_eq_false]; intro e he; simpa using hk e he
  simp [this]

theorem add_last (d : Header) (k v : String) (ws : List String) (hk : ∀ e ∈ d, e.1 ≠ k) :
    add (d ++ [(k, ws)]) k v = d ++ [(k, ws ++ [v])] := by
  unfold add
  have hany : (d ++ [(k, ws)]).any (fun e => e.1 == k) = true := by simp
  rw [if_pos hany, List.map_append]
  congr 1
  · rw [List.map_congr_left (g := id)]
    · simp
    · intro e he; have := hk e he; simp [this]
  · simp

theorem foldl_add_last (d : Header) (k : String) (hk : ∀ e ∈ d, e.1 ≠ k) (vs : List String) :
    ∀ ws, vs.foldl (fun d v => add d k v) (d ++ [(k, ws)]) = d ++ [(k, ws ++ vs)] := by
  induction vs with
  | nil => intro ws; simp
  | cons v vs ih => intro ws; rw [List.foldl_cons, add_last d k v ws hk, ih]; simp

theorem foldl_add_fresh (d : Header) (k : String) (hk : ∀ e ∈ d, e.1 ≠ k) (vs : List String) (hne : vs ≠ []) :
    vs.foldl (fun d v => add d k v) d = d ++ [(k, vs)] := by
  cases vs with
  | nil => exact absurd rfl hne
  | cons v vs => rw [List.foldl_cons, add_fresh d k v hk, foldl_add_last d k hk vs]; simp

theorem copyInto_append (src : Header) : ∀ dst : Header, WF src → (∀ e ∈ dst, ∀ f ∈ src, e.1 ≠ f.1) →
    copyInto dst src = dst ++ src := by
  induction src with
  | nil => intro dst _ _; simp [copyInto]
  | cons e src ih =>
    intro dst hwf hdis
    obtain ⟨hp, hne⟩ := hwf
    rw [List.pairwise_cons] at hp
    have h1 : e.2.foldl (fun d v => add d e.1 v) dst = dst ++ [(e.1, e.2)] :=
      foldl_add_fresh dst e.1 (fun x hx => hdis x hx e List.mem_cons_self) e.2 (hne e List.mem_cons_self)
    have : copyInto dst (e :: src) = copyInto (dst ++ [(e.1, e.2)]) src := by
      unfold copyInto; rw [List.foldl_cons, h1]
    rw [this, ih (dst ++ [(e.1, e.2)]) ⟨hp.2, fun x hx => hne x (List.mem_cons_of_mem _ hx)⟩]
    · simp
    · intro x hx f hf
      rcases List.mem_append.mp hx with hx | hx
      · exact hdis x hx f (List.mem_cons_of_mem _ hf)
      · simp only [List.mem_singleton] at hx; subst hx; exact hp.1 f hf

/-- copying a well-formed header map into a fresh map gives the same map -/
theorem copyInto_nil (h : Header) (hwf : WF h) : copyInto [] h = h := by
  have := copyInto_append h [] hwf (fun e he => by cases he)
  simpa using this

end Buf.Header
