import OxyModel.Model.Buffer

/-! `utils.CopyHeaders` into an empty map reproduces a header map with distinct keys. -/
namespace Buf.Header

/-- a Go map: every key once -/
def WF (h : Header) : Prop := h.Pairwise (fun e f => e.1 ≠ f.1)

theorem appendVals_fresh (d : Header) (k : String) (vs : List String) (hk : ∀ e ∈ d, e.1 ≠ k) :
    appendVals d k vs = d ++ [(k, vs)] := by
  unfold appendVals
  have : d.any (fun e => e.1 == k) = false := by
    rw [List.any_eq_false]; intro e he; simpa using hk e he
  simp [this]

theorem copyInto_append (src : Header) : ∀ dst : Header, WF src → (∀ e ∈ dst, ∀ f ∈ src, e.1 ≠ f.1) →
    copyInto dst src = dst ++ src := by
  induction src with
  | nil => intro dst _ _; simp [copyInto]
  | cons e src ih =>
    intro dst hwf hdis
    unfold WF at hwf
    rw [List.pairwise_cons] at hwf
    have h1 : appendVals dst e.1 e.2 = dst ++ [(e.1, e.2)] :=
      appendVals_fresh dst e.1 e.2 (fun x hx => hdis x hx e List.mem_cons_self)
    have : copyInto dst (e :: src) = copyInto (dst ++ [(e.1, e.2)]) src := by
      unfold copyInto; rw [List.foldl_cons, h1]
    rw [this, ih (dst ++ [(e.1, e.2)]) hwf.2]
    · simp
    · intro x hx f hf
      rcases List.mem_append.mp hx with hx | hx
      · exact hdis x hx f (List.mem_cons_of_mem _ hf)
      · simp only [List.mem_singleton] at hx; subst hx; exact hwf.1 f hf

/-- copying a header map with distinct keys into a fresh map gives the same map -/
theorem copyInto_nil (h : Header) (hwf : WF h) : copyInto [] h = h := by
  have := copyInto_append h [] hwf (fun e he => by cases he)
  simpa using this

end Buf.Header
