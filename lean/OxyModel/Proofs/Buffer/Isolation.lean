import OxyModel.Proofs.Buffer.Loop

/-! Isolation of the request between attempts: whatever a handler writes through the pointers of its copy,
the next copy is made from an untouched original. -/
namespace Buf

theorem own_mono (h0 h h' : Heap) (m u : Nat) (hp : Pres h0 h) (ho : Own h h' m u) : Own h0 h' m u := by
  obtain ⟨p1, p2, p3, _, _, _⟩ := hp
  obtain ⟨o1, o2, o3⟩ := ho
  exact ⟨by omega, by omega, fun e he => by have := o3 e he; omega⟩

/-- one attempt (copy, then arbitrary handler mutations through the copy's pointers) preserves everything that
    existed in `h0` -/
theorem stepHeap_pres (h0 h : Heap) (r : ReqRef) (size : Nat) (a : Attempt) (hp : Pres h0 h) :
    Pres h0 (stepHeap r size a h) := by
  obtain ⟨c1, c2, _⟩ := copyRequestH_spec h r size
  exact handlerHeap_pres h0 _ a _ (Pres.trans hp c1) (own_mono h0 h _ _ _ hp c2)

/-- in any store that preserves the client's request, the copy an attempt receives is the client's request -/
theorem viewReq_pres (req : Req) (size : Nat) (h : Heap) (hp : Pres (Heap.ofReq req).1 h) :
    viewReq (Heap.ofReq req).2 size h = copyRequest req size := by
  obtain ⟨q1, q2, q3, q4, q5, q6⟩ := ofReq_spec req
  obtain ⟨_, _, c3⟩ := copyRequestH_spec h (Heap.ofReq req).2 size
  unfold viewReq
  rw [c3, readMap_pres _ _ _ hp q3 q6, hp.2.2.2.2.2 _ q2, q4, q5, q1]
  rfl

end Buf
