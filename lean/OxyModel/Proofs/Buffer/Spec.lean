import OxyModel.Model.Buffer

/-! Vocabulary of the C06/C07/C15 statements: plain, model-independent readings of a handler script. -/
namespace Buf

/-- total number of bytes the attempt passes to `Write` -/
def sumLen (ws : List Bytes) : Nat := (ws.map List.length).sum

/-- the response body of the attempt exceeds the configured maximum (a maximum `≤ 0` is "no limit") -/
def overLimit (cfg : Cfg) (a : Attempt) : Prop := cfg.maxResp > 0 ∧ (sumLen a.writes : Int) > cfg.maxResp

/-- the status captured for the attempt: the last one chosen; 200 once the handler wrote without having chosen; else 0 -/
def capCode (a : Attempt) : Nat :=
  match a.lateStatus with
  | some c => c
  | none => if a.writes = [] then a.status.getD 0 else if a.status.getD 0 = 0 then 200 else a.status.getD 0

/-- the status delivered for a final attempt -/
def finalStatus (a : Attempt) : Nat := if capCode a = 0 then 200 else capCode a

/-- the response headers the attempt set (before or after its writes) -/
def respHeaderOf (a : Attempt) : Header :=
  a.lateHdr.foldl (fun h e => Header.add h e.1 e.2) (a.respHdr.foldl (fun h e => Header.add h e.1 e.2) [])

/-- the handler panics instead of returning -/
def panics (a : Attempt) : Prop := a.panic = true

/-- the attempt hijacks the connection and the server's writer allows it -/
def hijackEff (cfg : Cfg) (a : Attempt) : Prop := a.panic = false ∧ a.hijack = true ∧ cfg.canHijack = true

/-- the response kind carries a body (RFC 2616 §4.4 as read by `expectBody`) -/
def bodyAllowed (method : String) (a : Attempt) : Prop :=
  method ≠ "HEAD" ∧ ¬ (100 ≤ capCode a ∧ capCode a < 200) ∧ capCode a ≠ 204 ∧ capCode a ≠ 304 ∧
  Header.get (respHeaderOf a) "Content-Length" ≠ "0" ∧
  (Header.get (respHeaderOf a) "Grpc-Status" = "" ∨ Header.get (respHeaderOf a) "Grpc-Status" = "0")

instance (cfg : Cfg) (a : Attempt) : Decidable (overLimit cfg a) := by unfold overLimit; infer_instance
instance (cfg : Cfg) (a : Attempt) : Decidable (hijackEff cfg a) := by unfold hijackEff; infer_instance
instance (a : Attempt) : Decidable (panics a) := by unfold panics; infer_instance
instance (m : String) (a : Attempt) : Decidable (bodyAllowed m a) := by unfold bodyAllowed; infer_instance

/-- the request body exceeds the configured request maximum -/
def requestOver (cfg : Cfg) (req : Req) : Prop := cfg.maxReq > 0 ∧ (req.body.length : Int) > cfg.maxReq

instance (cfg : Cfg) (req : Req) : Decidable (requestOver cfg req) := by unfold requestOver; infer_instance

end Buf
