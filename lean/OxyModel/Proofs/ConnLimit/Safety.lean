import OxyModel.Proofs.ConnLimit.Basic

/-! Bound on the number of requests inside the handler; exactness for unit amounts. -/
namespace ConnLimit

/-- every `start` of the history carries an amount `≥ 1` -/
def AmountsPos (h : List Event) : Prop := ∀ id src a, Event.start id src a ∈ h → 1 ≤ a

/-- every `start` of the history carries the amount `1` (the built-in extractors, C19) -/
def AmountsOne (h : List Event) : Prop := ∀ id src a, Event.start id src a ∈ h → a = 1

theorem AmountsOne.pos {h : List Event} (h1 : AmountsOne h) : AmountsPos h :=
  fun id src a hm => by have := h1 id src a hm; omega

theorem count_le_heldBy (l : List Req) (s : String) (hp : ∀ r ∈ l, 1 ≤ r.amount) :
    (inflightCount l s : Int) ≤ heldBy l s := by
  induction l with
  | nil => simp [inflightCount, heldBy]
  | cons a t ih =>
    have h1 := hp a (by simp)
    have h2 := ih (fun r hr => hp r (List.mem_cons_of_mem _ hr))
    by_cases hs : a.src = s <;> simp_all [inflightCount, heldBy] <;> omega

theorem count_eq_heldBy (l : List Req) (s : String) (hp : ∀ r ∈ l, r.amount = 1) :
    heldBy l s = (inflightCount l s : Int) := by
  induction l with
  | nil => simp [inflightCount, heldBy]
  | cons a t ih =>
    have h1 := hp a (by simp)
    have h2 := ih (fun r hr => hp r (List.mem_cons_of_mem _ hr))
    by_cases hs : a.src = s <;> simp_all [inflightCount, heldBy] <;> omega

/-- invariant of histories whose amounts are all `≥ 1` -/
structure Safe (s : Sys) : Prop extends Inv s where
  pos : ∀ r ∈ s.inflight, 1 ≤ r.amount
  bound : ∀ src, inflightCount s.inflight src ≤ s.max.toNat

theorem Safe.init (mx : Int) : Safe (Sys.init mx) :=
  { Inv.init mx with pos := by simp [Sys.init], bound := by simp [Sys.init, inflightCount] }

theorem Safe.after_step {s : Sys} (hs : Safe s) (e : Event) (he : AmountsPos [e]) : Safe (step s e).1 := by
  refine { hs.toInv.after_step e with pos := ?_, bound := ?_ }
  · cases e with
    | startErr id => exact hs.pos
    | start id src a =>
      simp only [ConnLimit.step]
      split
      · exact hs.pos
      · split
        · exact hs.pos
        · intro r hr
          simp at hr
          rcases hr with hr | rfl
          · exact hs.pos r hr
          · exact he id src a (by simp)
    | finish id how =>
      simp only [ConnLimit.step]
      split
      · exact hs.pos
      · intro r hr; exact hs.pos r (mem_of_mem_dropReq hr)
  · cases e with
    | startErr id => exact hs.bound
    | start id src a =>
      simp only [ConnLimit.step]
      split
      · exact hs.bound
      · split
        · exact hs.bound
        · rename_i st' hacq
          intro k
          have hlt := (acquire_some _ _ _ _ _ hacq).1
          simp only [count_append_one]
          by_cases hk : src = k
          · subst hk
            have h1 := count_le_heldBy s.inflight src hs.pos
            have h2 := hs.acct src
            simp; omega
          · simpa [hk] using hs.bound k
    | finish id how =>
      simp only [ConnLimit.step]
      split
      · exact hs.bound
      · rename_i r hf
        intro k
        have := count_dropReq hf k
        have := hs.bound k
        simp only []
        omega

theorem Safe.after_run {s : Sys} (hs : Safe s) (h : List Event) (hp : AmountsPos h) : Safe (run s h) := by
  induction h generalizing s with
  | nil => exact hs
  | cons e t ih =>
    refine ih (hs.after_step e ?_) ?_
    · intro id src a hm; simp at hm; exact hp id src a (by simp [hm])
    · intro id src a hm; exact hp id src a (List.mem_cons_of_mem _ hm)

/-- invariant of histories whose amounts are all `1` -/
structure Unit1 (s : Sys) : Prop extends Safe s where
  one : ∀ r ∈ s.inflight, r.amount = 1

theorem Unit1.init (mx : Int) : Unit1 (Sys.init mx) :=
  { Safe.init mx with one := by simp [Sys.init] }

theorem Unit1.after_step {s : Sys} (hs : Unit1 s) (e : Event) (he : AmountsOne [e]) : Unit1 (step s e).1 := by
  refine { hs.toSafe.after_step e he.pos with one := ?_ }
  cases e with
  | startErr id => exact hs.one
  | start id src a =>
    simp only [ConnLimit.step]
    split
    · exact hs.one
    · split
      · exact hs.one
      · intro r hr
        simp at hr
        rcases hr with hr | rfl
        · exact hs.one r hr
        · exact he id src a (by simp)
  | finish id how =>
    simp only [ConnLimit.step]
    split
    · exact hs.one
    · intro r hr; exact hs.one r (mem_of_mem_dropReq hr)

theorem Unit1.after_run {s : Sys} (hs : Unit1 s) (h : List Event) (hp : AmountsOne h) : Unit1 (run s h) := by
  induction h generalizing s with
  | nil => exact hs
  | cons e t ih =>
    refine ih (hs.after_step e ?_) ?_
    · intro id src a hm; simp at hm; exact hp id src a (by simp [hm])
    · intro id src a hm; exact hp id src a (List.mem_cons_of_mem _ hm)

/-- in a unit-amount state the table entry *is* the number of requests inside the handler -/
theorem Unit1.get_eq_count {s : Sys} (hs : Unit1 s) (src : String) :
    get s.st.conns src = (inflightCount s.inflight src : Int) := by
  rw [hs.acct, count_eq_heldBy _ _ hs.one]

/-- decision on a fresh arrival in a unit-amount state -/
theorem Unit1.start_out {s : Sys} (hs : Unit1 s) (id src : String) (hfresh : findReq s.inflight id = none) :
    (step s (.start id src 1)).2 = (if s.max ≤ (inflightCount s.inflight src : Int) then Out.rejected else Out.admitted) := by
  simp only [ConnLimit.step, hfresh]
  have hg := hs.get_eq_count src
  split
  · rename_i hacq
    rw [acquire_none_iff, hg] at hacq
    simp [hacq]
  · rename_i st' hacq
    have := (acquire_some _ _ _ _ _ hacq).1
    rw [hg] at this
    have : ¬ s.max ≤ (inflightCount s.inflight src : Int) := by omega
    simp [this]

theorem findReq_none_of_not_mem (l : List Req) (id : String) (h : ∀ r ∈ l, r.id ≠ id) : findReq l id = none := by
  induction l with
  | nil => rfl
  | cons a t ih =>
    simp [findReq, h a (by simp)]
    exact ih (fun r hr => h r (List.mem_cons_of_mem _ hr))

/-- from a unit-amount state, fresh distinct arrivals of one source are all admitted as long as
    the limit is not exceeded -/
theorem Unit1.admit_all {s : Sys} (hs : Unit1 s) (src : String) (ids : List String)
    (hnd : ids.Nodup) (hfresh : ∀ r ∈ s.inflight, r.id ∉ ids)
    (hroom : ((inflightCount s.inflight src + ids.length : Nat) : Int) ≤ s.max) :
    outs s (ids.map fun id => Event.start id src 1) = List.replicate ids.length Out.admitted := by
  induction ids generalizing s with
  | nil => rfl
  | cons id t ih =>
    have hf : findReq s.inflight id = none :=
      findReq_none_of_not_mem _ _ (fun r hr heq => hfresh r hr (by simp [heq]))
    have hout := hs.start_out id src hf
    have hlt : ¬ s.max ≤ (inflightCount s.inflight src : Int) := by simp at hroom; omega
    simp only [hlt, if_false] at hout
    simp only [List.map_cons, outs, hout, List.length_cons, List.replicate_succ]
    congr 1
    have hs' := hs.after_step (.start id src 1) (by intro _ _ a hm; simp at hm; exact hm.2.2)
    -- the new state: one more request of `src`, id `id`
    have hstate : (step s (.start id src 1)).1.inflight = s.inflight ++ [⟨id, src, 1⟩] := by
      have h2 := hout
      simp only [ConnLimit.step, hf] at h2 ⊢
      split
      · rename_i hacq; simp [hacq] at h2
      · rfl
    apply ih hs' (List.nodup_cons.1 hnd).2
    · intro r hr
      rw [hstate] at hr
      simp at hr
      rcases hr with hr | rfl
      · intro hm; exact hfresh r hr (List.mem_cons_of_mem _ hm)
      · exact (List.nodup_cons.1 hnd).1
    · rw [hstate, count_append_one, step_max]
      simp at hroom ⊢; omega

end ConnLimit

namespace ConnLimit

/-- decidable form of `AmountsPos` -/
def amountsPos (h : List Event) : Bool :=
  h.all fun e => match e with | .start _ _ a => decide (1 ≤ a) | _ => true

/-- decidable form of `AmountsOne` -/
def amountsOne (h : List Event) : Bool :=
  h.all fun e => match e with | .start _ _ a => decide (a = 1) | _ => true

theorem amountsPos_spec {h : List Event} (hp : amountsPos h = true) : AmountsPos h := by
  intro id src a hm
  have := List.all_eq_true.1 hp _ hm
  simpa using this

theorem amountsOne_spec {h : List Event} (hp : amountsOne h = true) : AmountsOne h := by
  intro id src a hm
  have := List.all_eq_true.1 hp _ hm
  simpa using this

theorem amountsPos_take {h : List Event} (hp : AmountsPos h) (k : Nat) : AmountsPos (h.take k) :=
  fun id src a hm => hp id src a (List.mem_of_mem_take hm)

end ConnLimit
