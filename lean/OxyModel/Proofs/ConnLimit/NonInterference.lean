import OxyModel.Proofs.ConnLimit.Basic

/-! Non-interference of the connection limiter: what one source sees depends only on its own
sub-history (cited by C14). -/
namespace ConnLimit

/-- the requests of `src` -/
def mine (src : String) (l : List Req) : List Req := l.filter (fun r => r.src = src)

theorem findReq_mine_none {l : List Req} {id : String} (src : String) (h : findReq l id = none) :
    findReq (mine src l) id = none := by
  induction l with
  | nil => rfl
  | cons a t ih =>
    unfold findReq at h
    split at h
    · simp at h
    · rename_i hne
      by_cases hs : a.src = src <;> simp [mine, hs, findReq, hne] <;> exact ih h

theorem findReq_mine_some {l : List Req} {id : String} {r : Req} (h : findReq l id = some r) :
    findReq (mine r.src l) id = some r := by
  induction l with
  | nil => simp [findReq] at h
  | cons a t ih =>
    unfold findReq at h
    split at h
    · rename_i heq; simp at h; subst h; simp [mine, findReq, heq]
    · rename_i hne
      by_cases hs : a.src = r.src <;> simp [mine, hs, findReq, hne] <;> exact ih h

theorem dropReq_mine_owned {l : List Req} {id : String} {r : Req} (h : findReq l id = some r) :
    dropReq (mine r.src l) id = mine r.src (dropReq l id) := by
  induction l with
  | nil => simp [findReq] at h
  | cons a t ih =>
    unfold findReq at h
    split at h
    · rename_i heq; simp at h; subst h; simp [mine, dropReq, heq]
    · rename_i hne
      have := ih h
      by_cases hs : a.src = r.src <;> simp_all [mine, dropReq]

theorem dropReq_mine_other {l : List Req} {id : String} {r : Req} (h : findReq l id = some r)
    (src : String) (hsrc : r.src ≠ src) : mine src (dropReq l id) = mine src l := by
  induction l with
  | nil => simp [findReq] at h
  | cons a t ih =>
    unfold findReq at h
    split at h
    · rename_i heq; simp at h; subst h; simp [mine, dropReq, heq, hsrc]
    · rename_i hne
      have := ih h
      by_cases hs : a.src = src <;> simp_all [mine, dropReq]

/-- `s'` is what source `src` can see of `s` -/
structure View (src : String) (s s' : Sys) : Prop where
  max : s'.max = s.max
  cnt : get s'.st.conns src = get s.st.conns src
  reqs : s'.inflight = mine src s.inflight

theorem View.init (src : String) (mx : Int) : View src (Sys.init mx) (Sys.init mx) :=
  ⟨rfl, rfl, rfl⟩

theorem owner_start {s : Sys} {id t src : String} {a : Int} (h : owner s (.start id t a) = some src) :
    findReq s.inflight id = none ∧ t = src := by
  simp only [owner] at h
  cases hf : findReq s.inflight id with
  | some r => simp [hf] at h
  | none => simp [hf] at h; exact ⟨rfl, h⟩

theorem owner_finish {s : Sys} {id src : String} {how : Exit} (h : owner s (.finish id how) = some src) :
    ∃ r, findReq s.inflight id = some r ∧ r.src = src := by
  unfold owner at h
  cases hf : findReq s.inflight id with
  | none => simp [hf] at h
  | some r => simp [hf] at h; exact ⟨r, rfl, h⟩

/-- an event of `src` is decided the same way, and moves the view the same way, in the
    interleaved system and in the system that only ever saw `src` -/
theorem View.step_owned {src : String} {s s' : Sys} (v : View src s s') {e : Event}
    (ho : owner s e = some src) :
    (step s' e).2 = (step s e).2 ∧ View src (step s e).1 (step s' e).1 := by
  cases e with
  | startErr id => simp [owner] at ho
  | start id t a =>
    obtain ⟨hf, rfl⟩ := owner_start ho
    have hf' : findReq s'.inflight id = none := by rw [v.reqs]; exact findReq_mine_none _ hf
    simp only [ConnLimit.step, hf, hf']
    by_cases hfull : get s.st.conns t ≥ s.max
    · have h1 : acquire s.st t a s.max = none := by simp [acquire, hfull]
      have h2 : acquire s'.st t a s'.max = none := by simp [acquire, v.cnt, v.max, hfull]
      simp only [h1, h2]; exact ⟨trivial, v⟩
    · have h1 : acquire s.st t a s.max = some ⟨put s.st.conns t (get s.st.conns t + a), s.st.total + a⟩ := by
        simp [acquire, hfull]
      have h2 : acquire s'.st t a s'.max = some ⟨put s'.st.conns t (get s'.st.conns t + a), s'.st.total + a⟩ := by
        simp [acquire, v.cnt, v.max, hfull]
      simp only [h1, h2]
      refine ⟨trivial, v.max, ?_, ?_⟩
      · simp [get_put_same, v.cnt]
      · simp [v.reqs, mine, List.filter_append]
  | finish id how =>
    obtain ⟨r, hf, rfl⟩ := owner_finish ho
    have hf' : findReq s'.inflight id = some r := by rw [v.reqs]; exact findReq_mine_some hf
    simp only [ConnLimit.step, hf, hf']
    refine ⟨trivial, v.max, ?_, ?_⟩
    · simp [release_get_same, v.cnt]
    · simp only [v.reqs]; exact dropReq_mine_owned hf

/-- an event that is not `src`'s leaves `src`'s view untouched -/
theorem View.step_other {src : String} {s s' : Sys} (v : View src s s') {e : Event}
    (ho : owner s e ≠ some src) : View src (step s e).1 s' := by
  cases e with
  | startErr id => exact v
  | start id t a =>
    simp only [ConnLimit.step]
    cases hf : findReq s.inflight id with
    | some r => exact v
    | none =>
      have hts : t ≠ src := by intro h; apply ho; simp [owner, hf, h]
      simp only []
      cases hacq : acquire s.st t a s.max with
      | none => exact v
      | some st' =>
        obtain ⟨_, _, _, hother, _⟩ := acquire_some _ _ _ _ _ hacq
        refine ⟨v.max, ?_, ?_⟩
        · simp [hother src (Ne.symm hts), v.cnt]
        · simp [v.reqs, mine, List.filter_append, hts]
  | finish id how =>
    simp only [ConnLimit.step]
    cases hf : findReq s.inflight id with
    | none => exact v
    | some r =>
      have hrs : r.src ≠ src := by intro h; apply ho; simp [owner, hf, h]
      refine ⟨v.max, ?_, ?_⟩
      · simp [release_get_other _ _ _ _ (Ne.symm hrs), v.cnt]
      · simp only [v.reqs]; exact (dropReq_mine_other hf src hrs).symm

theorem View.decisions {src : String} {s s' : Sys} (v : View src s s') (h : List Event) :
    decisionsFor src s h = outs s' (project src s h) := by
  induction h generalizing s s' with
  | nil => rfl
  | cons e t ih =>
    unfold decisionsFor project
    by_cases ho : owner s e = some src
    · obtain ⟨h1, h2⟩ := v.step_owned ho
      simp only [ho, if_true, outs, h1]
      rw [ih h2]
    · simp only [ho, if_false]
      exact ih (v.step_other ho)

/-- **Non-interference of the connection limiter.**  For every limit, every source and every
    interleaved history `h` (any mix of sources, amounts, exits, protocol misuse): the decisions taken
    for `src` in `h` are exactly the decisions a fresh limiter takes on `src`'s own sub-history. -/
theorem conn_noninterference (mx : Int) (src : String) (h : List Event) :
    decisionsFor src (Sys.init mx) h = outs (Sys.init mx) (project src (Sys.init mx) h) :=
  (View.init src mx).decisions h

/-- the sub-history of `src` only contains `src`'s own arrivals (and finishes) -/
theorem project_starts (src : String) (s : Sys) (h : List Event) :
    ∀ id t a, Event.start id t a ∈ project src s h → t = src := by
  induction h generalizing s with
  | nil => intro _ _ _ hm; simp [project] at hm
  | cons e t ih =>
    intro id t' a hm
    unfold project at hm
    split at hm
    · rename_i ho
      rcases List.mem_cons.1 hm with rfl | hm
      · exact (owner_start ho).2
      · exact ih _ id t' a hm
    · exact ih _ id t' a hm

end ConnLimit
