import OxyModel.Model.ConnLimit

/-! Helper lemmas for the connection-limiter model: table algebra, accounting invariant. -/
namespace ConnLimit

theorem get_put_same (m : Table) (s : String) (v : Int) : get (put m s v) s = v := by
  induction m with
  | nil => simp [put, get]
  | cons a t ih =>
    obtain ⟨k, w⟩ := a
    by_cases h : k = s <;> simp [put, get, h, ih]

theorem get_put_other (m : Table) (s k : String) (v : Int) (h : k ≠ s) :
    get (put m s v) k = get m k := by
  induction m with
  | nil => simp [put, get, Ne.symm h]
  | cons a t ih =>
    obtain ⟨k', w⟩ := a
    by_cases h1 : k' = s
    · subst h1; simp [put, get, Ne.symm h]
    · by_cases h2 : k' = k
      · subst h2; simp [put, get, h1]
      · simp [put, get, h1, h2, ih]

theorem get_del_same (m : Table) (s : String) : get (del m s) s = 0 := by
  induction m with
  | nil => simp [del, get]
  | cons a t ih =>
    obtain ⟨k, w⟩ := a
    by_cases h : k = s <;> simp [del, get, h, ih]

theorem get_del_other (m : Table) (s k : String) (h : k ≠ s) : get (del m s) k = get m k := by
  induction m with
  | nil => simp [del, get]
  | cons a t ih =>
    obtain ⟨k', w⟩ := a
    by_cases h1 : k' = s
    · subst h1; simp [del, get, Ne.symm h, ih]
    · by_cases h2 : k' = k
      · subst h2; simp [del, get, h1]
      · simp [del, get, h1, h2, ih]

theorem mem_keys_put (m : Table) (s k : String) (v : Int) :
    k ∈ (put m s v).map Prod.fst ↔ k = s ∨ k ∈ m.map Prod.fst := by
  induction m with
  | nil => simp [put]
  | cons a t ih =>
    obtain ⟨k', w⟩ := a
    by_cases h1 : k' = s
    · subst h1; simp [put]
    · simp [put, h1, ih]; constructor <;> intro h <;> rcases h with h | h | h <;> simp [h]

theorem mem_keys_del (m : Table) (s k : String) :
    k ∈ (del m s).map Prod.fst ↔ k ≠ s ∧ k ∈ m.map Prod.fst := by
  induction m with
  | nil => simp [del]
  | cons a t ih =>
    obtain ⟨k', w⟩ := a
    by_cases h1 : k' = s
    · subst h1; simp [del, ih]; intro h h'; exact absurd h' h
    · simp [del, h1, ih]
      constructor
      · intro h; rcases h with h | h
        · subst h; simp [h1]
        · simp [h]
      · intro ⟨h, h'⟩; rcases h' with h' | h'
        · exact Or.inl h'
        · exact Or.inr ⟨h, h'⟩

theorem get_eq_zero_of_not_mem (m : Table) (k : String) (h : k ∉ m.map Prod.fst) : get m k = 0 := by
  induction m with
  | nil => simp [get]
  | cons a t ih =>
    obtain ⟨k', w⟩ := a
    simp at h
    simp [get, Ne.symm h.1]
    exact ih (by simpa using h.2)

/-! ### acquire / release on the table -/

theorem acquire_none_iff (st : State) (src : String) (a mx : Int) :
    acquire st src a mx = none ↔ mx ≤ get st.conns src := by
  unfold acquire; split <;> simp_all

theorem acquire_some (st st' : State) (src : String) (a mx : Int) (h : acquire st src a mx = some st') :
    get st.conns src < mx ∧ st'.total = st.total + a ∧
    get st'.conns src = get st.conns src + a ∧ (∀ k, k ≠ src → get st'.conns k = get st.conns k) ∧
    (∀ k, k ∈ st'.conns.map Prod.fst ↔ k = src ∨ k ∈ st.conns.map Prod.fst) := by
  unfold acquire at h
  split at h
  · simp at h
  · simp at h; subst h
    refine ⟨by omega, rfl, get_put_same _ _ _, fun k hk => get_put_other _ _ _ _ hk, fun k => mem_keys_put _ _ _ _⟩

theorem release_total (st : State) (src : String) (a : Int) : (release st src a).total = st.total - a := rfl

theorem release_get_same (st : State) (src : String) (a : Int) :
    get (release st src a).conns src = get st.conns src - a := by
  unfold release
  simp only [get_put_same]
  split
  · rw [get_del_same]; omega
  · exact get_put_same _ _ _

theorem release_get_other (st : State) (src k : String) (a : Int) (h : k ≠ src) :
    get (release st src a).conns k = get st.conns k := by
  unfold release
  simp only [get_put_same]
  split
  · rw [get_del_other _ _ _ h, get_put_other _ _ _ _ h]
  · exact get_put_other _ _ _ _ h

theorem release_keys (st : State) (src k : String) (a : Int)
    (h : k ∈ (release st src a).conns.map Prod.fst) :
    (k = src ∧ get st.conns src - a ≠ 0) ∨ (k ≠ src ∧ k ∈ st.conns.map Prod.fst) := by
  unfold release at h
  simp only [get_put_same] at h
  split at h
  · rw [mem_keys_del, mem_keys_put] at h
    right; exact ⟨h.1, h.2.resolve_left h.1⟩
  · rw [mem_keys_put] at h
    by_cases hk : k = src
    · left; exact ⟨hk, by assumption⟩
    · right; exact ⟨hk, h.resolve_left hk⟩

/-! ### the in-flight list -/

theorem findReq_some {l : List Req} {id : String} {r : Req} (h : findReq l id = some r) :
    r ∈ l ∧ r.id = id := by
  induction l with
  | nil => simp [findReq] at h
  | cons a t ih =>
    unfold findReq at h
    split at h
    · simp at h; subst h; simp_all
    · have := ih h; simp [this]

theorem heldBy_append (l₁ l₂ : List Req) (s : String) : heldBy (l₁ ++ l₂) s = heldBy l₁ s + heldBy l₂ s := by
  induction l₁ with
  | nil => simp [heldBy]
  | cons a t ih => simp [heldBy, ih]; omega

theorem heldAll_append (l₁ l₂ : List Req) : heldAll (l₁ ++ l₂) = heldAll l₁ + heldAll l₂ := by
  induction l₁ with
  | nil => simp [heldAll]
  | cons a t ih => simp [heldAll, ih]; omega

theorem heldBy_dropReq {l : List Req} {id : String} {r : Req} (h : findReq l id = some r) (s : String) :
    heldBy (dropReq l id) s = heldBy l s - (if r.src = s then r.amount else 0) := by
  induction l with
  | nil => simp [findReq] at h
  | cons a t ih =>
    unfold findReq at h
    unfold dropReq
    split at h
    · simp at h; subst h; simp_all [heldBy]; omega
    · rename_i hne; simp [hne, heldBy, ih h]; omega

theorem heldAll_dropReq {l : List Req} {id : String} {r : Req} (h : findReq l id = some r) :
    heldAll (dropReq l id) = heldAll l - r.amount := by
  induction l with
  | nil => simp [findReq] at h
  | cons a t ih =>
    unfold findReq at h
    unfold dropReq
    split at h
    · simp at h; subst h; simp_all [heldAll]; omega
    · rename_i hne; simp [hne, heldAll, ih h]; omega

theorem count_dropReq {l : List Req} {id : String} {r : Req} (h : findReq l id = some r) (s : String) :
    inflightCount (dropReq l id) s + (if r.src = s then 1 else 0) = inflightCount l s := by
  induction l with
  | nil => simp [findReq] at h
  | cons a t ih =>
    unfold findReq at h
    unfold dropReq
    split at h
    · simp at h; subst h
      by_cases hs : a.src = s <;> simp_all [inflightCount]
    · rename_i hne
      have := ih h
      by_cases hs : a.src = s <;> simp_all [inflightCount] <;> omega

theorem count_append_one (l : List Req) (r : Req) (s : String) :
    inflightCount (l ++ [r]) s = inflightCount l s + (if r.src = s then 1 else 0) := by
  by_cases hs : r.src = s <;> simp [inflightCount, List.filter_append, hs]

theorem mem_dropReq_of_ne {l : List Req} {id : String} {q r : Req} (hf : findReq l id = some r)
    (hq : q ∈ l) (hne : q ≠ r) : q ∈ dropReq l id := by
  induction l with
  | nil => simp at hq
  | cons a t ih =>
    unfold findReq at hf
    unfold dropReq
    split at hf
    · rename_i h; simp at hf; subst hf; simp [h]
      rcases List.mem_cons.1 hq with rfl | h'
      · exact absurd rfl hne
      · exact h'
    · rename_i h; simp [h]
      rcases List.mem_cons.1 hq with rfl | h'
      · simp
      · exact Or.inr (ih hf h')

theorem exists_src_of_heldBy_ne_zero (l : List Req) (s : String) (h : heldBy l s ≠ 0) :
    ∃ r ∈ l, r.src = s := by
  induction l with
  | nil => simp [heldBy] at h
  | cons a t ih =>
    by_cases hs : a.src = s
    · exact ⟨a, by simp, hs⟩
    · simp [heldBy, hs] at h
      obtain ⟨r, hr, hr'⟩ := ih h
      exact ⟨r, List.mem_cons_of_mem _ hr, hr'⟩

theorem mem_of_mem_dropReq {l : List Req} {id : String} {q : Req} (hq : q ∈ dropReq l id) : q ∈ l := by
  induction l with
  | nil => simp [dropReq] at hq
  | cons a t ih =>
    unfold dropReq at hq
    split at hq
    · exact List.mem_cons_of_mem _ hq
    · rcases List.mem_cons.1 hq with rfl | h'
      · simp
      · exact List.mem_cons_of_mem _ (ih h')

/-! ### the accounting invariant -/

/-- the table counts exactly what the requests inside the handler hold -/
structure Inv (s : Sys) : Prop where
  acct : ∀ src, get s.st.conns src = heldBy s.inflight src
  tot : s.st.total = heldAll s.inflight
  keys : ∀ k ∈ s.st.conns.map Prod.fst, ∃ r ∈ s.inflight, r.src = k

theorem Inv.init (mx : Int) : Inv (Sys.init mx) :=
  ⟨fun _ => by simp [Sys.init, State.empty, get, heldBy], by simp [Sys.init, State.empty, heldAll],
   by simp [Sys.init, State.empty]⟩

theorem step_max (s : Sys) (e : Event) : (step s e).1.max = s.max := by
  cases e with
  | startErr id => rfl
  | start id src a =>
    simp only [step]; split
    · rfl
    · split <;> rfl
  | finish id how => simp only [step]; split <;> rfl

theorem Inv.after_step {s : Sys} (hi : Inv s) (e : Event) : Inv (step s e).1 := by
  cases e with
  | startErr id => exact hi
  | start id src a =>
    simp only [ConnLimit.step]
    split
    · exact hi
    · split
      · exact hi
      · rename_i st' hacq
        obtain ⟨_, htot, hsame, hother, hkeys⟩ := acquire_some _ _ _ _ _ hacq
        refine ⟨fun k => ?_, ?_, fun k hk => ?_⟩
        · simp only [heldBy_append, heldBy]
          by_cases hk : k = src
          · subst hk; simp [hsame, hi.acct]
          · simp [hother k hk, hi.acct, Ne.symm hk]
        · simp [heldAll_append, heldAll, htot, hi.tot]
        · rcases (hkeys k).1 hk with rfl | h
          · exact ⟨⟨id, k, a⟩, by simp, rfl⟩
          · obtain ⟨r, hr, hr'⟩ := hi.keys k h
            exact ⟨r, by simp [hr], hr'⟩
  | finish id how =>
    simp only [ConnLimit.step]
    split
    · exact hi
    · rename_i r hf
      have hacct : ∀ k, get (release s.st r.src r.amount).conns k = heldBy (dropReq s.inflight id) k := by
        intro k
        rw [heldBy_dropReq hf]
        by_cases hk : k = r.src
        · subst hk; simp [release_get_same, hi.acct]
        · simp [release_get_other _ _ _ _ hk, hi.acct, Ne.symm hk]
      refine ⟨hacct, ?_, fun k hk => ?_⟩
      · simp [release_total, heldAll_dropReq hf, hi.tot]
      · rcases release_keys _ _ _ _ hk with ⟨rfl, hne⟩ | ⟨hne, hmem⟩
        · apply exists_src_of_heldBy_ne_zero
          rw [← hacct, release_get_same]; exact hne
        · obtain ⟨q, hq, hq'⟩ := hi.keys k hmem
          refine ⟨q, mem_dropReq_of_ne hf hq ?_, hq'⟩
          intro hqr; subst hqr; exact hne hq'.symm

theorem run_max (s : Sys) (h : List Event) : (run s h).max = s.max := by
  induction h generalizing s with
  | nil => rfl
  | cons e t ih => simp [run, ih, step_max]

theorem Inv.after_run {s : Sys} (hi : Inv s) (h : List Event) : Inv (run s h) := by
  induction h generalizing s with
  | nil => exact hi
  | cons e t ih => exact ih (hi.after_step e)

end ConnLimit
