import OxyModel.Proofs.ConnLimit.Safety

/-! The layer of rejections in progress (`stepR`): the limiter state under it moves exactly as in
`step`, so every invariant of `step` carries over, whatever is parked in the error handler. -/
namespace ConnLimit

theorem step_rejected_same (s : Sys) (e : Event) (h : (step s e).2 = .rejected) : (step s e).1 = s := by
  cases e with
  | startErr id => simp [step] at h
  | start id src a =>
    simp only [step] at h ⊢
    cases hf : findReq s.inflight id with
    | some r => rfl
    | none =>
      simp only [hf] at h ⊢
      cases hacq : acquire s.st src a s.max with
      | none => rfl
      | some st' => simp [hacq] at h
  | finish id how =>
    simp only [step] at h
    split at h <;> simp at h

/-- the limiter state after a step of the layer is the state after the same `step`, or unchanged -/
theorem stepR_base (s : SysR) (e : Event) :
    (stepR s e).1.base = (step s.base e).1 ∨ (stepR s e).1.base = s.base := by
  cases e with
  | startErr id => left; rfl
  | start id src a =>
    simp only [stepR]
    split
    · right; rfl
    · split <;> (left; rfl)
  | finish id how =>
    simp only [stepR]
    split
    · right; rfl
    · left; rfl

theorem stepR_max (s : SysR) (e : Event) : (stepR s e).1.base.max = s.base.max := by
  rcases stepR_base s e with h | h <;> rw [h]
  exact step_max _ _

theorem runR_max (s : SysR) (h : List Event) : (runR s h).base.max = s.base.max := by
  induction h generalizing s with
  | nil => rfl
  | cons e t ih => simp [runR, ih, stepR_max]

theorem Inv.after_stepR {s : SysR} (hi : Inv s.base) (e : Event) : Inv (stepR s e).1.base := by
  rcases stepR_base s e with h | h <;> rw [h]
  · exact hi.after_step e
  · exact hi

theorem Inv.after_runR {s : SysR} (hi : Inv s.base) (h : List Event) : Inv (runR s h).base := by
  induction h generalizing s with
  | nil => exact hi
  | cons e t ih => exact ih (hi.after_stepR e)

theorem Safe.after_stepR {s : SysR} (hs : Safe s.base) (e : Event) (he : AmountsPos [e]) :
    Safe (stepR s e).1.base := by
  rcases stepR_base s e with h | h <;> rw [h]
  · exact hs.after_step e he
  · exact hs

theorem Safe.after_runR {s : SysR} (hs : Safe s.base) (h : List Event) (hp : AmountsPos h) :
    Safe (runR s h).base := by
  induction h generalizing s with
  | nil => exact hs
  | cons e t ih =>
    refine ih (hs.after_stepR e ?_) ?_
    · intro id src a hm; simp at hm; exact hp id src a (by simp [hm])
    · intro id src a hm; exact hp id src a (List.mem_cons_of_mem _ hm)

theorem Unit1.after_stepR {s : SysR} (hs : Unit1 s.base) (e : Event) (he : AmountsOne [e]) :
    Unit1 (stepR s e).1.base := by
  rcases stepR_base s e with h | h <;> rw [h]
  · exact hs.after_step e he
  · exact hs

theorem Unit1.after_runR {s : SysR} (hs : Unit1 s.base) (h : List Event) (hp : AmountsOne h) :
    Unit1 (runR s h).base := by
  induction h generalizing s with
  | nil => exact hs
  | cons e t ih =>
    refine ih (hs.after_stepR e ?_) ?_
    · intro id src a hm; simp at hm; exact hp id src a (by simp [hm])
    · intro id src a hm; exact hp id src a (List.mem_cons_of_mem _ hm)

theorem findRej_none_of_not_mem (l : List Rej) (id : String) (h : ∀ r ∈ l, r.id ≠ id) : findRej l id = none := by
  induction l with
  | nil => rfl
  | cons a t ih =>
    simp [findRej, h a (by simp)]
    exact ih (fun r hr => h r (List.mem_cons_of_mem _ hr))

/-- decision of the layer on a fresh unit arrival: decided by the number of *admitted* requests of
    the source alone -/
theorem Unit1.startR_out {s : SysR} (hs : Unit1 s.base) (id src : String)
    (hf : findReq s.base.inflight id = none) (hr : findRej s.rejecting id = none) :
    (stepR s (.start id src 1)).2 =
      (if s.base.max ≤ (inflightCount s.base.inflight src : Int) then
        (if s.slow = true then OutR.rejecting else OutR.base .rejected)
       else OutR.base .admitted) := by
  have hout := hs.start_out id src hf
  simp only [stepR, hr]
  by_cases hc : s.base.max ≤ (inflightCount s.base.inflight src : Int)
  · simp only [hc, if_true] at hout ⊢
    by_cases hsl : s.slow = true <;> simp [hout, hsl]
  · simp only [hc, if_false] at hout ⊢
    simp [hout]

/-- an admitted arrival changes nothing in the set of rejections in progress -/
theorem stepR_admitted_rejecting {s : SysR} {e : Event} (h : (stepR s e).2 = .base .admitted) :
    (stepR s e).1.rejecting = s.rejecting ∧ (stepR s e).1.slow = s.slow ∧ (stepR s e).1.base = (step s.base e).1 := by
  cases e with
  | startErr id => simp [stepR, step] at h
  | start id src a =>
    simp only [stepR] at h ⊢
    split
    · rename_i hx; simp [hx] at h
    · rename_i hx
      simp only [hx] at h
      split
      · rename_i hy; simp [hy] at h
      · exact ⟨rfl, rfl, rfl⟩
  | finish id how =>
    simp only [stepR] at h
    split at h
    · simp at h
    · simp only [step] at h; split at h <;> simp at h

theorem Unit1.admit_allR {s : SysR} (hs : Unit1 s.base) (src : String) (ids : List String)
    (hnd : ids.Nodup) (hfresh : ∀ r ∈ s.base.inflight, r.id ∉ ids) (hfreshR : ∀ r ∈ s.rejecting, r.id ∉ ids)
    (hroom : ((inflightCount s.base.inflight src + ids.length : Nat) : Int) ≤ s.base.max) :
    outsR s (ids.map fun id => Event.start id src 1) = List.replicate ids.length (OutR.base .admitted) := by
  induction ids generalizing s with
  | nil => rfl
  | cons id t ih =>
    have hf : findReq s.base.inflight id = none :=
      findReq_none_of_not_mem _ _ (fun r hr heq => hfresh r hr (by simp [heq]))
    have hr : findRej s.rejecting id = none :=
      findRej_none_of_not_mem _ _ (fun r hr heq => hfreshR r hr (by simp [heq]))
    have hout := hs.startR_out id src hf hr
    have hlt : ¬ s.base.max ≤ (inflightCount s.base.inflight src : Int) := by simp at hroom; omega
    simp only [hlt, if_false] at hout
    simp only [List.map_cons, outsR, hout, List.length_cons, List.replicate_succ]
    congr 1
    obtain ⟨h1, _, h3⟩ := stepR_admitted_rejecting hout
    have hs' : Unit1 (stepR s (.start id src 1)).1.base :=
      hs.after_stepR _ (by intro _ _ a hm; simp at hm; exact hm.2.2)
    have hbase : (step s.base (.start id src 1)).2 = .admitted := by
      have := hs.start_out id src hf
      simpa [hlt] using this
    have hstate : (stepR s (.start id src 1)).1.base.inflight = s.base.inflight ++ [⟨id, src, 1⟩] := by
      rw [h3]
      simp only [step, hf] at hbase ⊢
      split
      · rename_i hacq; simp [hacq] at hbase
      · rfl
    apply ih hs' (List.nodup_cons.1 hnd).2
    · intro r hr'
      rw [hstate] at hr'
      simp at hr'
      rcases hr' with hr' | rfl
      · intro hm; exact hfresh r hr' (List.mem_cons_of_mem _ hm)
      · exact (List.nodup_cons.1 hnd).1
    · intro r hr' hm
      rw [h1] at hr'
      exact hfreshR r hr' (List.mem_cons_of_mem _ hm)
    · rw [hstate, count_append_one, stepR_max]
      simp at hroom ⊢; omega

/-- with an error handler that never parks nothing is ever `rejecting`, and the layer is `step` -/
theorem fast_stepR (s : SysR) (e : Event) (hsl : s.slow = false) (hr : s.rejecting = []) :
    (stepR s e).1 = ⟨(step s.base e).1, false, []⟩ ∧ (stepR s e).2 = .base (step s.base e).2 := by
  obtain ⟨b, sl, rj⟩ := s
  simp only at hsl hr; subst hsl; subst hr
  cases e <;> simp [stepR, findRej]

theorem fast_runR (mx : Int) (h : List Event) :
    runR (SysR.init mx false) h = ⟨run (Sys.init mx) h, false, []⟩ ∧
    outsR (SysR.init mx false) h = (outs (Sys.init mx) h).map OutR.base := by
  suffices ∀ b : Sys, runR ⟨b, false, []⟩ h = ⟨run b h, false, []⟩ ∧ outsR ⟨b, false, []⟩ h = (outs b h).map OutR.base from
    this (Sys.init mx)
  induction h with
  | nil => intro b; exact ⟨rfl, rfl⟩
  | cons e t ih =>
    intro b
    obtain ⟨h1, h2⟩ := fast_stepR ⟨b, false, []⟩ e rfl rfl
    simp only [runR, outsR, run, outs, h1, h2, List.map_cons]
    exact ⟨(ih _).1, by rw [(ih _).2]⟩

end ConnLimit
