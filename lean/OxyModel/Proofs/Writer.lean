import OxyModel.Model.Writer

/-! Helper lemmas about `Model/Writer.lean` (core Lean only). -/
namespace Writer

theorem call_seen (base : Base) (pws : List PW) (c : Call) :
    (call base pws c).2.1 = if deliverable base c then [c] else [] := by
  induction pws with
  | nil => cases c <;> simp only [call, reach, deliverable] <;> (try rfl) <;> split <;> simp_all
  | cons p rest ih => cases c <;> simp only [call] <;> exact ih

theorem call_length (base : Base) (pws : List PW) (c : Call) : (call base pws c).1.length = pws.length := by
  induction pws with
  | nil => simp [call]
  | cons p rest ih => cases c <;> simp [call, ih]

def PW.record (p : PW) : Call → PW
  | .writeHeader code => { p with code := code }
  | .write b => { p with length := p.length + b.length }
  | _ => p

theorem call_pws (base : Base) (pws : List PW) (c : Call) : (call base pws c).1 = pws.map (·.record c) := by
  induction pws with
  | nil => simp [call]
  | cons p rest ih => cases c <;> simp [call, ih, PW.record]

theorem call_hijack_ok (base : Base) (pws : List PW) : (call base pws .hijack).2.2 = base.hijacker := by
  induction pws with
  | nil => simp [call, reach]; split <;> simp_all
  | cons p rest ih => simp [call, ih]

theorem call_flush_ok (base : Base) (pws : List PW) :
    (call base pws .flush).2.2 = (if pws = [] then base.flusher else true) := by
  cases pws with
  | nil => simp [call, reach]; split <;> simp_all
  | cons p rest => simp [call]

theorem run_seen (base : Base) (s : St) (cs : List Call) :
    (run base s cs).seen = s.seen ++ cs.filter (deliverable base) := by
  induction cs generalizing s with
  | nil => simp [run]
  | cons c cs ih =>
    have := ih (s.step base c).1
    simp only [run, List.foldl_cons] at this ⊢
    rw [this]
    simp only [St.step, call_seen, List.filter_cons]
    split <;> simp

theorem run_pws (base : Base) (s : St) (cs : List Call) :
    (run base s cs).pws = s.pws.map fun p => cs.foldl PW.record p := by
  induction cs generalizing s with
  | nil => simp [run]
  | cons c cs ih =>
    have := ih (s.step base c).1
    simp only [run, List.foldl_cons] at this ⊢
    rw [this]
    simp [St.step, call_pws]

theorem foldl_record_code (p : PW) (cs : List Call) :
    (cs.foldl PW.record p).code = (lastCode cs).getD p.code := by
  induction cs generalizing p with
  | nil => simp [lastCode]
  | cons c cs ih =>
    rw [List.foldl_cons, ih]
    cases h : lastCode cs with
    | some k => simp [lastCode, h]
    | none => cases c <;> simp [lastCode, h, PW.record]

theorem foldl_record_length (p : PW) (cs : List Call) :
    (cs.foldl PW.record p).length = p.length + written cs := by
  induction cs generalizing p with
  | nil => simp [written]
  | cons c cs ih =>
    rw [List.foldl_cons, ih]
    cases c <;> simp [written, PW.record, Nat.add_assoc]

/-! ### recorded status vs. status on the wire -/

theorem final_recv_of_not_header (w : Wire) (c : Call) (h : ∀ k, c ≠ .writeHeader k) : (w.recv c).final = w.final := by
  cases c with
  | writeHeader k => exact absurd rfl (h k)
  | write b => simp [Wire.recv, Wire.final]
  | flush => simp [Wire.recv, Wire.final]
  | hijack => simp [Wire.recv]

theorem noHeader_cons (c : Call) (cs : List Call) : noHeader (c :: cs) = true ↔ (∀ k, c ≠ .writeHeader k) ∧ noHeader cs = true := by
  cases c <;> simp [noHeader]

theorem final_foldl_noHeader (w : Wire) (cs : List Call) (h : noHeader cs = true) : (cs.foldl Wire.recv w).final = w.final := by
  induction cs generalizing w with
  | nil => rfl
  | cons c cs ih =>
    rw [noHeader_cons] at h
    rw [List.foldl_cons, ih _ h.2, final_recv_of_not_header _ _ h.1]

theorem lastCode_noHeader (cs : List Call) (h : noHeader cs = true) : lastCode cs = none := by
  induction cs with
  | nil => rfl
  | cons c cs ih =>
    rw [noHeader_cons] at h
    simp only [lastCode, ih h.2]
    cases c with
    | writeHeader k => exact absurd rfl (h.1 k)
    | _ => rfl

theorem recorded_cons_of_some (c : Call) (cs : List Call) (h : (lastCode cs).isSome) : recorded (c :: cs) = recorded cs := by
  cases hk : lastCode cs with
  | none => simp [hk] at h
  | some k => simp [recorded, lastCode, hk]

theorem headerFollows_spec (cs : List Call) (w : Wire) (hw : w.status = none) (h : headerFollows cs = true) :
    (cs.foldl Wire.recv w).final = recorded cs ∧ (lastCode cs).isSome := by
  induction cs generalizing w with
  | nil => simp [headerFollows] at h
  | cons c cs ih =>
    cases c with
    | writeHeader k =>
      simp only [headerFollows] at h
      by_cases hi : informational k = true
      · simp only [hi, if_true] at h
        have hw' : (w.recv (.writeHeader k)).status = none := by simp [Wire.recv, hw, hi]
        have := ih _ hw' h
        refine ⟨?_, ?_⟩
        · rw [List.foldl_cons, this.1, recorded_cons_of_some _ _ this.2]
        · simp only [lastCode]; cases hk : lastCode cs with
          | none => simp [hk] at this
          | some _ => simp
      · simp only [hi, Bool.false_eq_true, if_false, Bool.and_eq_true, decide_eq_true_eq] at h
        refine ⟨?_, by simp [lastCode, lastCode_noHeader _ h.2]⟩
        rw [List.foldl_cons, final_foldl_noHeader _ _ h.2]
        have hk0 : k ≠ 0 := by omega
        simp [Wire.recv, hw, hi, Wire.final, recorded, lastCode, lastCode_noHeader _ h.2, hk0]
    | hijack =>
      simp only [headerFollows] at h
      have := ih w hw h
      refine ⟨?_, ?_⟩
      · rw [List.foldl_cons, recorded_cons_of_some _ _ this.2]; simpa [Wire.recv] using this.1
      · simp only [lastCode]; cases hk : lastCode cs with
        | none => simp [hk] at this
        | some _ => simp
    | write b => simp [headerFollows] at h
    | flush => simp [headerFollows] at h

theorem orderly_spec (cs : List Call) (w : Wire) (hw : w.status = none) (h : orderly cs = true) :
    (cs.foldl Wire.recv w).final = recorded cs := by
  induction cs generalizing w with
  | nil => simp [Wire.final, hw, recorded, lastCode]
  | cons c cs ih =>
    cases c with
    | writeHeader k =>
      have : headerFollows (.writeHeader k :: cs) = true := by simpa [headerFollows, orderly] using h
      exact (headerFollows_spec _ w hw this).1
    | hijack =>
      simp only [orderly] at h
      have := ih w hw h
      rw [List.foldl_cons]
      have hr : recorded (.hijack :: cs) = recorded cs := by
        simp only [recorded, lastCode]; cases lastCode cs <;> rfl
      rw [hr]; simpa [Wire.recv] using this
    | write b =>
      simp only [orderly] at h
      rw [List.foldl_cons, final_foldl_noHeader _ _ h]
      simp [Wire.recv, Wire.final, hw, recorded, lastCode, lastCode_noHeader _ h]
    | flush =>
      simp only [orderly] at h
      rw [List.foldl_cons, final_foldl_noHeader _ _ h]
      simp [Wire.recv, Wire.final, hw, recorded, lastCode, lastCode_noHeader _ h]

end Writer
