import OxyModel.Proofs.Pool.Bal

/-! `ServeHTTP` routing on the balancer with a heap: the request never gets one of the pool's own
objects, the stored URLs are untouched, and the error path leaves everything as it was. -/
namespace PoolM.Bal
open RR PoolM

theorem orbit_next {ws : List Nat} {s : It} (h : ∃ j, s = after ws j It.reset) :
    ∃ j, (next ws s).2 = after ws j It.reset := by
  obtain ⟨j, rfl⟩ := h
  exact ⟨j + 1, by rw [after_add]; rfl⟩

theorem nextServer_wf {b : Bal} (h : b.WF) :
    b.nextServer.2.2.WF ∧ b.nextServer.2.2.urls = b.urls := by
  obtain ⟨⟨h1, h2, h3, _⟩, h5⟩ := nextServer_spec b
  have hheap : b.nextServer.2.2.heap = b.heap ∨ ∃ x, b.nextServer.2.2.heap = b.heap ++ [x] := by
    rcases h5 with ⟨i, _, _, _, hh⟩ | ⟨_, _, hh⟩
    · exact Or.inr ⟨_, hh⟩
    · exact Or.inl hh
  have hu : b.nextServer.2.2.urls = b.urls := by
    rcases hheap with hh | ⟨x, hh⟩
    · unfold Bal.urls Bal.deref; rw [h1, hh]
    · exact urls_heap_append h x _ h1 hh
  refine ⟨⟨?_, by rw [h2, h1]; exact h.len, ?_, ?_⟩, hu⟩
  · intro r hr
    rw [h1] at hr
    have := h.refs_lt r hr
    rcases hheap with hh | ⟨x, hh⟩
    · rw [hh]; exact this
    · rw [hh]; simp only [List.length_append, List.length_singleton]; exact Nat.lt_succ_of_lt this
  · rw [view_keys, hu]; exact h.nodup
  · rw [h2, h3]; exact orbit_next h.orbit

/-- the URL value `NextServer()` returns is one of the stored URLs -/
theorem nextServer_url {b : Bal} (h : b.WF) {r : Ref} (hr : b.nextServer.2.1 = some r) :
    r = b.heap.length ∧ b.nextServer.2.2.deref r ∈ b.urls ∧
    ∃ i, b.nextServer.1 = .sel i ∧ i < b.refs.length ∧ b.nextServer.2.2.deref r = b.deref (b.refs.getD i 0) := by
  obtain ⟨_, h5⟩ := nextServer_spec b
  rcases h5 with ⟨i, hs, hi, hr', hh⟩ | ⟨_, hn, _⟩
  · rw [hr'] at hr
    simp only [Option.some.injEq] at hr
    subst hr
    have hi' : i < b.refs.length := by rw [← h.len]; exact hi
    have hd : b.nextServer.2.2.deref b.heap.length = b.deref (b.refs.getD i 0) := by
      unfold Bal.deref; rw [hh]; simp [List.getD_eq_getElem?_getD, Bal.deref]
    refine ⟨rfl, ?_, i, hs, hi', hd⟩
    rw [hd]
    unfold Bal.urls
    refine List.mem_map.mpr ⟨b.refs.getD i 0, ?_, rfl⟩
    simp [List.getD_eq_getElem?_getD, hi']
  · rw [hn] at hr; cases hr

theorem findRef_spec {b : Bal} {k : Key} {src : Ref} (h : b.findRef k = some src) :
    src ∈ b.refs ∧ (b.deref src).key = k := by
  unfold Bal.findRef at h
  cases hf : b.view.find k with
  | none => rw [hf] at h; cases h
  | some i =>
    rw [hf] at h
    simp only [Option.some.injEq] at h
    obtain ⟨hl, hk, _⟩ := Pool.find_some.mp hf
    have hl' : i < b.refs.length := by simpa [view_keys, Bal.urls] using hl
    have hs : src = b.refs[i] := by rw [← h]; simp [List.getD_eq_getElem?_getD, hl']
    refine ⟨hs ▸ List.getElem_mem hl', ?_⟩
    rw [hs]
    simpa [view_keys, Bal.urls] using hk

theorem findRef_none {b : Bal} {k : Key} : b.findRef k = none ↔ k ∉ b.view.keys := by
  rw [← Pool.find_none]; unfold Bal.findRef; cases b.view.find k <;> simp

/-- the sticky lookup of `route` -/
def stuckRef (b : Bal) (sticky : Bool) (cookie : Option Key) : Option Ref :=
  if sticky then (match cookie with | some k => b.findRef k | none => none) else none

theorem route_eq (b : Bal) (sticky : Bool) (cookie : Option Key) :
    b.route sticky cookie =
      match b.stuckRef sticky cookie with
      | some src => (.fwd b.heap.length true, { b with heap := b.heap ++ [b.deref src] })
      | none =>
        match b.nextServer with
        | (.sel _, some r, b') => (.fwd r false, b')
        | (e, _, b') => (.err e, b') := rfl

/-- routing: the balancer stays well-formed, its records and stored URLs are untouched -/
theorem route_wf {b : Bal} (h : b.WF) (sticky : Bool) (cookie : Option Key) :
    (b.route sticky cookie).2.WF ∧ (b.route sticky cookie).2.urls = b.urls ∧
    (b.route sticky cookie).2.refs = b.refs ∧ (b.route sticky cookie).2.ws = b.ws ∧
    b.heap.length ≤ (b.route sticky cookie).2.heap.length := by
  rw [route_eq]
  cases hs : b.stuckRef sticky cookie with
  | some src =>
    simp only
    have hu := urls_heap_append h (b.deref src) { b with heap := b.heap ++ [b.deref src] } rfl rfl
    refine ⟨⟨?_, h.len, by rw [view_keys, hu]; exact h.nodup, h.orbit⟩, hu, trivial, trivial, by simp⟩
    intro r hr
    simp only [List.length_append, List.length_singleton]
    exact Nat.lt_succ_of_lt (h.refs_lt r hr)
  | none =>
    simp only
    obtain ⟨hw, hu⟩ := nextServer_wf h
    obtain ⟨⟨h1, h2, _, _⟩, h5⟩ := nextServer_spec b
    have hle : b.heap.length ≤ b.nextServer.2.2.heap.length := by
      rcases h5 with ⟨i, _, _, _, hh⟩ | ⟨_, _, hh⟩ <;> rw [hh]
      · simp
    rcases hn : b.nextServer with ⟨res, oref, b'⟩
    rw [hn] at hw hu h1 h2 hle
    cases res <;> cases oref <;> exact ⟨hw, hu, h1, h2, hle⟩

/-- a forwarded request carries a fresh object whose value is one of the stored URLs -/
theorem route_fwd {b : Bal} (h : b.WF) {sticky : Bool} {cookie : Option Key} {r : Ref} {st : Bool}
    (hr : (b.route sticky cookie).1 = .fwd r st) :
    r = b.heap.length ∧ r ∉ b.refs ∧ r < (b.route sticky cookie).2.heap.length ∧
    (b.route sticky cookie).2.deref r ∈ b.urls := by
  have hfresh : b.heap.length ∉ b.refs := fun hm => Nat.lt_irrefl _ (h.refs_lt _ hm)
  rw [route_eq] at hr ⊢
  cases hs : b.stuckRef sticky cookie with
  | some src =>
    rw [hs] at hr
    simp only [Routed.fwd.injEq] at hr
    obtain ⟨rfl, _⟩ := hr
    simp only
    refine ⟨trivial, hfresh, by simp, ?_⟩
    have hsrc : src ∈ b.refs := by
      unfold stuckRef at hs
      split at hs
      · split at hs
        · exact (findRef_spec hs).1
        · cases hs
      · cases hs
    have : ({ b with heap := b.heap ++ [b.deref src] } : Bal).deref b.heap.length = b.deref src := by
      unfold Bal.deref; simp [List.getD_eq_getElem?_getD]
    rw [this]
    exact List.mem_map.mpr ⟨src, hsrc, rfl⟩
  | none =>
    rw [hs] at hr
    simp only at hr ⊢
    rcases hn : b.nextServer with ⟨res, oref, b'⟩
    rw [hn] at hr
    cases res with
    | sel i =>
      cases oref with
      | some r' =>
        simp only [Routed.fwd.injEq] at hr
        obtain ⟨rfl, _⟩ := hr
        have hr' : b.nextServer.2.1 = some r' := by rw [hn]
        obtain ⟨e1, e2, _⟩ := nextServer_url h hr'
        rw [hn] at e2
        obtain ⟨_, h5⟩ := nextServer_spec b
        have hlen : b'.heap.length = b.heap.length + 1 := by
          rcases h5 with ⟨i', _, _, _, hh⟩ | ⟨_, hnone, _⟩
          · rw [hn] at hh; simp only at hh; rw [hh]; simp
          · rw [hr'] at hnone; cases hnone
        exact ⟨e1, e1 ▸ hfresh, by rw [hlen, e1]; exact Nat.lt_succ_self _, e2⟩
      | none => simp at hr
    | errNoServers => simp at hr
    | errAllZero => simp at hr
    | outOfFuel => simp at hr

/-- the error path: nothing stored changes, only the iterator is the one `nextServer` left -/
theorem route_err {b : Bal} {sticky : Bool} {cookie : Option Key} {e : Res}
    (hr : (b.route sticky cookie).1 = .err e) :
    b.stuckRef sticky cookie = none ∧ (b.route sticky cookie).2.heap = b.heap ∧
    (b.route sticky cookie).2.refs = b.refs ∧ (b.route sticky cookie).2.ws = b.ws ∧
    (b.route sticky cookie).2.it = (next b.ws b.it).2 ∧ (next b.ws b.it).1 = e := by
  rw [route_eq] at hr ⊢
  cases hs : b.stuckRef sticky cookie with
  | some src => rw [hs] at hr; simp at hr
  | none =>
    rw [hs] at hr
    simp only at hr ⊢
    obtain ⟨⟨h1, h2, h3, h4⟩, h5⟩ := nextServer_spec b
    rcases hn : b.nextServer with ⟨res, oref, b'⟩
    rw [hn] at hr h1 h2 h3 h4 h5
    simp only at h1 h2 h3 h4 h5
    rcases h5 with ⟨i, hsel, _, hsome, _⟩ | ⟨hnsel, _, hh⟩
    · subst hsel hsome; simp at hr
    · cases res with
      | sel i => exact absurd rfl (hnsel i)
      | errNoServers => simp at hr; subst hr; exact ⟨trivial, hh, h1, h2, h3, h4.symm⟩
      | errAllZero => simp at hr; subst hr; exact ⟨trivial, hh, h1, h2, h3, h4.symm⟩
      | outOfFuel => simp at hr; subst hr; exact ⟨trivial, hh, h1, h2, h3, h4.symm⟩

/-- with no pinned server the outcome is the selection's -/
theorem route_unstuck_err {b : Bal} {sticky : Bool} {cookie : Option Key}
    (hs : b.stuckRef sticky cookie = none) {e : Res} (he : (next b.ws b.it).1 = e) (hne : ∀ i, e ≠ .sel i) :
    (b.route sticky cookie).1 = .err e ∧ (b.route sticky cookie).2 = { b with it := (next b.ws b.it).2 } := by
  rw [route_eq, hs]
  simp only
  unfold Bal.nextServer
  simp only [Pool.nextServer, view_ws, view_it]
  rw [he]
  cases e with
  | sel i => exact absurd rfl (hne i)
  | errNoServers => exact ⟨rfl, rfl⟩
  | errAllZero => exact ⟨rfl, rfl⟩
  | outOfFuel => exact ⟨rfl, rfl⟩

/-- a handler writing to an object that is not one of the pool's changes nothing in the pool -/
theorem mutate_wf {b : Bal} (h : b.WF) {r : Ref} (hr : r ∉ b.refs) (m : Option Mut) :
    (b.mutate r m).WF ∧ (b.mutate r m).urls = b.urls ∧ (b.mutate r m).refs = b.refs ∧
    (b.mutate r m).ws = b.ws ∧ (b.mutate r m).it = b.it ∧ (b.mutate r m).heap.length = b.heap.length := by
  cases m with
  | none => exact ⟨h, rfl, rfl, rfl, rfl, rfl⟩
  | some m =>
    have hu : (b.mutate r (some m)).urls = b.urls := by
      unfold Bal.mutate Bal.urls Bal.deref
      apply List.map_congr_left
      intro r' hr'
      have hne : r ≠ r' := fun e => hr (e ▸ hr')
      simp only [List.getD_eq_getElem?_getD, List.getElem?_modify]
      cases b.heap[r']? <;> simp [hne]
    refine ⟨⟨?_, h.len, by rw [view_keys, hu]; exact h.nodup, h.orbit⟩, hu, rfl, rfl, rfl, by simp [Bal.mutate]⟩
    intro r' hr'
    simp only [Bal.mutate, List.length_modify]
    exact h.refs_lt r' hr'

end PoolM.Bal
