import OxyModel.Model.Pool
import OxyModel.Proofs.RR.Window

/-! Facts about `RR.Pool` with an arbitrary key type: `find`, well-formedness, and the weight of
every key after `upsert` / `remove` (the refinement step of C02). -/
namespace RR.Pool
variable {κ : Type} [DecidableEq κ]

structure WF (p : Pool κ) : Prop where
  len : p.ws.length = p.keys.length
  nodup : p.keys.Nodup

theorem find_none {p : Pool κ} {k : κ} : p.find k = none ↔ k ∉ p.keys := List.idxOf?_eq_none_iff

theorem find_some {p : Pool κ} {k : κ} {i : Nat} :
    p.find k = some i ↔ ∃ h : i < p.keys.length, p.keys[i] = k ∧ ∀ j (x : j < i), ¬ p.keys[j] = k :=
  List.idxOf?_eq_some_iff

theorem find_some_of_nodup {p : Pool κ} (hn : p.keys.Nodup) {i : Nat} (h : i < p.keys.length) :
    p.find p.keys[i] = some i := by
  rw [find_some]
  refine ⟨h, rfl, ?_⟩
  intro j hj e
  have := (hn.getElem_inj_iff (hi := by omega) (hj := h)).mp e
  omega

theorem find_isSome {p : Pool κ} {k : κ} : (p.find k).isSome ↔ k ∈ p.keys := by
  rw [← not_iff_not, Bool.not_eq_true, Option.isSome_eq_false_iff, Option.isNone_iff_eq_none, find_none]

theorem weight_isSome {p : Pool κ} {k : κ} : (p.weight k).isSome ↔ k ∈ p.keys := by
  rw [← find_isSome]; unfold weight; cases p.find k <;> simp

theorem weight_none {p : Pool κ} {k : κ} : p.weight k = none ↔ k ∉ p.keys := by
  rw [← find_none]; unfold weight; cases p.find k <;> simp

theorem weight_some {p : Pool κ} (hp : p.WF) {k : κ} {w : Nat} :
    p.weight k = some w ↔ ∃ i, ∃ h : i < p.keys.length, p.keys[i] = k ∧ p.ws[i]'(by rw [hp.len]; exact h) = w := by
  unfold weight
  constructor
  · intro h
    split at h
    · rename_i i hi
      obtain ⟨hl, hk, _⟩ := find_some.mp hi
      refine ⟨i, hl, hk, ?_⟩
      have hl' : i < p.ws.length := by rw [hp.len]; exact hl
      simpa [List.getD_eq_getElem?_getD, hl'] using h
    · simp at h
  · rintro ⟨i, hl, hk, hw⟩
    have := find_some_of_nodup hp.nodup hl
    rw [hk] at this
    rw [this]
    have hl' : i < p.ws.length := by rw [hp.len]; exact hl
    simp [List.getD_eq_getElem?_getD, hl', hw]

/-! ### `upsert` -/

theorem upsert_keys (p : Pool κ) (k : κ) (w : Option Nat) :
    (p.upsert k w).keys = if k ∈ p.keys then p.keys else p.keys ++ [k] := by
  unfold upsert
  split
  · rename_i i hi
    have : k ∈ p.keys := find_isSome.mp (by rw [hi]; rfl)
    rw [if_pos this]; split <;> rfl
  · rename_i hi
    rw [if_neg (find_none.mp hi)]

theorem mem_upsert_keys (p : Pool κ) (k k' : κ) (w : Option Nat) :
    k' ∈ (p.upsert k w).keys ↔ k' = k ∨ k' ∈ p.keys := by
  rw [upsert_keys]
  split
  · constructor
    · exact Or.inr
    · rintro (rfl | h) <;> assumption
  · simp [or_comm]

theorem upsert_wf {p : Pool κ} (hp : p.WF) (k : κ) (w : Option Nat) : (p.upsert k w).WF := by
  unfold upsert
  split
  · split
    · exact ⟨by simp [hp.len], hp.nodup⟩
    · exact ⟨hp.len, hp.nodup⟩
  · rename_i hi
    refine ⟨by simp [hp.len], ?_⟩
    exact List.nodup_append.mpr ⟨hp.nodup, List.nodup_singleton k, by
      intro a ha b hb; simp at hb; subst hb; intro e; subst e; exact (find_none.mp hi) ha⟩

/-- the configured weight a new server gets -/
def newWeight : Option Nat → Nat
  | some w => if w = 0 then 1 else w
  | none => 1

/-- **refinement step**: the weight of every key after `upsert` -/
theorem weight_upsert {p : Pool κ} (hp : p.WF) (k k' : κ) (w : Option Nat) :
    (p.upsert k w).weight k' =
      if k' = k then
        (match p.weight k, w with
          | some old, none => some old
          | some _, some w => some w
          | none, w => some (newWeight w))
      else p.weight k' := by
  have hwf := upsert_wf hp k w
  by_cases hk : k' = k
  · subst hk
    rw [if_pos rfl]
    cases hf : p.find k' with
    | some i =>
      obtain ⟨hl, hki, _⟩ := find_some.mp hf
      have hl' : i < p.ws.length := by rw [hp.len]; exact hl
      have hw0 : p.weight k' = some p.ws[i] := (weight_some hp).mpr ⟨i, hl, hki, rfl⟩
      rw [hw0]
      cases w with
      | none =>
        simp only
        rw [weight_some hwf]
        refine ⟨i, by simpa [upsert, hf] using hl, by simp [upsert, hf, hki], by simp [upsert, hf]⟩
      | some w =>
        simp only
        rw [weight_some hwf]
        refine ⟨i, by simpa [upsert, hf] using hl, by simp [upsert, hf, hki], by simp [upsert, hf]⟩
    | none =>
      have hw0 : p.weight k' = none := weight_none.mpr (find_none.mp hf)
      rw [hw0]
      simp only
      rw [weight_some hwf]
      refine ⟨p.keys.length, by simp [upsert, hf], by simp [upsert, hf], ?_⟩
      have : p.keys.length = p.ws.length := hp.len.symm
      cases w <;> simp [upsert, hf, this, newWeight]
  · rw [if_neg hk]
    cases hw : p.weight k' with
    | none =>
      rw [weight_none] at hw ⊢
      rw [mem_upsert_keys]; tauto
    | some x =>
      obtain ⟨j, hj, hkj, hwj⟩ := (weight_some hp).mp hw
      have hj' : j < p.ws.length := by rw [hp.len]; exact hj
      rw [weight_some hwf]
      cases hf : p.find k with
      | some i =>
        obtain ⟨hl, hki, _⟩ := find_some.mp hf
        have hij : i ≠ j := by rintro rfl; exact hk (hkj.symm.trans hki)
        cases w with
        | none => exact ⟨j, by simpa [upsert, hf] using hj, by simp [upsert, hf, hkj], by simp [upsert, hf, hwj]⟩
        | some w =>
          refine ⟨j, by simpa [upsert, hf] using hj, by simp [upsert, hf, hkj], ?_⟩
          simp [upsert, hf, hij, hwj]
      | none =>
        refine ⟨j, by simp [upsert, hf]; omega, ?_, ?_⟩
        · simp [upsert, hf, hj, hkj]
        · simp [upsert, hf, hj', hwj]

/-! ### `remove` -/

theorem remove_none {p : Pool κ} {k : κ} : p.remove k = none ↔ k ∉ p.keys := by
  rw [← find_none]; unfold remove; cases p.find k <;> simp

theorem remove_wf {p p' : Pool κ} (hp : p.WF) {k : κ} (h : p.remove k = some p') : p'.WF := by
  unfold remove at h
  split at h <;> simp at h
  rename_i i hi
  obtain ⟨hl, _, _⟩ := find_some.mp hi
  subst h
  refine ⟨?_, hp.nodup.eraseIdx i⟩
  have hl' : i < p.ws.length := by rw [hp.len]; exact hl
  simp [List.length_eraseIdx, hl, hp.len]

theorem mem_remove_keys {p p' : Pool κ} (hp : p.WF) {k : κ} (h : p.remove k = some p') (k' : κ) :
    k' ∈ p'.keys ↔ k' ≠ k ∧ k' ∈ p.keys := by
  unfold remove at h
  split at h <;> simp at h
  rename_i i hi
  obtain ⟨hl, hki, _⟩ := find_some.mp hi
  subst h
  simp only
  rw [List.mem_eraseIdx_iff_getElem]
  constructor
  · rintro ⟨j, hj, hne, rfl⟩
    refine ⟨?_, List.getElem_mem hj⟩
    intro e
    exact hne ((hp.nodup.getElem_inj_iff).mp (e.trans hki.symm))
  · rintro ⟨hne, hm⟩
    obtain ⟨j, hj, rfl⟩ := List.getElem_of_mem hm
    refine ⟨j, hj, ?_, rfl⟩
    rintro rfl
    exact hne hki

/-- **refinement step**: the weight of every key after a successful `remove` -/
theorem weight_remove {p p' : Pool κ} (hp : p.WF) {k : κ} (h : p.remove k = some p') (k' : κ) :
    p'.weight k' = if k' = k then none else p.weight k' := by
  have hwf := remove_wf hp h
  have hmem := mem_remove_keys hp h
  by_cases hk : k' = k
  · rw [if_pos hk, weight_none, hmem]; tauto
  · rw [if_neg hk]
    unfold remove at h
    split at h <;> simp at h
    rename_i i hi
    obtain ⟨hl, hki, _⟩ := find_some.mp hi
    have hl' : i < p.ws.length := by rw [hp.len]; exact hl
    cases hw : p.weight k' with
    | none =>
      rw [weight_none] at hw ⊢
      rw [hmem]; tauto
    | some x =>
      obtain ⟨j, hj, hkj, hwj⟩ := (weight_some hp).mp hw
      have hj' : j < p.ws.length := by rw [hp.len]; exact hj
      have hij : i ≠ j := by rintro rfl; exact hk (hkj.symm.trans hki)
      rw [weight_some hwf]
      subst h
      by_cases hlt : j < i
      · refine ⟨j, by simp [List.length_eraseIdx, hl]; omega, ?_, ?_⟩
        · simp [List.getElem_eraseIdx, hlt, hkj]
        · simp [List.getElem_eraseIdx, hlt, hwj]
      · have h1 : j - 1 + 1 = j := by omega
        refine ⟨j - 1, by simp [List.length_eraseIdx, hl]; omega, ?_, ?_⟩
        · have : ¬ (j - 1 < i) := by omega
          simp [List.getElem_eraseIdx, this, h1, hkj]
        · have : ¬ (j - 1 < i) := by omega
          simp [List.getElem_eraseIdx, this, h1, hwj]

/-! ### re-applying a weight to every server (`applyWeights`, `reset`) -/

def applyAll (p : Pool κ) (l : List (κ × Nat)) : Pool κ := l.foldl (fun p kc => p.upsert kc.1 (some kc.2)) p

theorem find_append_mid {done todo : List κ} {k : κ} (hn : (done ++ k :: todo).Nodup) (ws : List Nat) (it : It) :
    (⟨done ++ k :: todo, ws, it⟩ : Pool κ).find k = some done.length := by
  rw [find_some]
  refine ⟨by simp, by simp, ?_⟩
  intro j hj e
  simp only [List.getElem_append_left hj] at e
  have h1 : k ∈ done := e ▸ List.getElem_mem hj
  have := List.nodup_append.mp hn
  exact this.2.2 k h1 k List.mem_cons_self rfl

theorem applyAll_aux (l : List (κ × Nat)) : ∀ (p : Pool κ) (kdone : List κ) (wdone wtodo : List Nat),
    p.keys = kdone ++ l.map Prod.fst → p.ws = wdone ++ wtodo → kdone.length = wdone.length →
    wtodo.length = l.length → p.keys.Nodup →
    (p.applyAll l).keys = p.keys ∧ (p.applyAll l).ws = wdone ++ l.map Prod.snd := by
  induction l with
  | nil =>
    intro p kdone wdone wtodo _ hw _ hl _
    have : wtodo = [] := List.length_eq_zero_iff.mp hl
    subst this
    exact ⟨rfl, by simpa [applyAll] using hw⟩
  | cons kc l ih =>
    intro p kdone wdone wtodo hk hw hlen hl hn
    obtain ⟨k, c⟩ := kc
    cases wtodo with
    | nil => simp at hl
    | cons w0 wtodo =>
      have hk' : p.keys = kdone ++ k :: l.map Prod.fst := by simpa using hk
      have hf : p.find k = some kdone.length := by
        have := find_append_mid (done := kdone) (todo := l.map Prod.fst) (k := k) (by rw [← hk']; exact hn) p.ws p.it
        rw [← this]; cases p; simp only at hk'; subst hk'; rfl
      have hk1 : (p.upsert k (some c)).keys = p.keys := by unfold upsert; rw [hf]
      have hw1 : (p.upsert k (some c)).ws = (wdone ++ [c]) ++ wtodo := by
        unfold upsert; rw [hf]; simp only; rw [hw, hlen]; simp
      have := ih (p.upsert k (some c)) (kdone ++ [k]) (wdone ++ [c]) wtodo
        (by rw [hk1, hk]; simp) hw1 (by simp [hlen]) (by simpa using hl) (by rw [hk1]; exact hn)
      simp only [applyAll, List.foldl_cons] at this ⊢
      rw [this.1, this.2, hk1]
      exact ⟨rfl, by simp⟩

/-- re-applying one weight per server, in pool order, sets exactly these weights -/
theorem applyAll_spec {p : Pool κ} (hp : p.WF) (l : List (κ × Nat)) (hk : l.map Prod.fst = p.keys) :
    (p.applyAll l).keys = p.keys ∧ (p.applyAll l).ws = l.map Prod.snd := by
  have hl : p.ws.length = l.length := by
    rw [hp.len, ← hk]; simp
  have := applyAll_aux l p [] [] p.ws (by simp [hk]) (by simp) rfl hl hp.nodup
  simpa using this

theorem eraseIdx_append_last {α : Type} (l : List α) (a : α) {n : Nat} (hn : n = l.length) :
    (l ++ [a]).eraseIdx n = l := by
  subst hn
  rw [List.eraseIdx_eq_take_drop_succ]
  simp

/-- adding a new key and removing it again (the rollback of a failed add) leaves keys and weights
    as they were -/
theorem upsert_remove_new {p : Pool κ} (hp : p.WF) {k : κ} (hk : k ∉ p.keys) (w : Option Nat) :
    (p.upsert k w).remove k = some ⟨p.keys, p.ws, It.reset⟩ := by
  have hf : p.find k = none := find_none.mpr hk
  have hn : (p.keys ++ [k]).Nodup :=
    List.nodup_append.mpr ⟨hp.nodup, List.nodup_singleton k, by
      intro a ha b hb; simp at hb; subst hb; intro e; subst e; exact hk ha⟩
  unfold upsert
  rw [hf]
  simp only
  unfold remove
  rw [find_append_mid (done := p.keys) (todo := []) hn]
  simp only [Option.some.injEq]
  congr 1
  · exact eraseIdx_append_last _ _ rfl
  · exact eraseIdx_append_last _ _ hp.len.symm

end RR.Pool
