import OxyModel.Proofs.Pool.Find

/-! The balancer with an object heap (`PoolM.Bal`): well-formedness, and how every operation acts on
the `RR.Pool` view, on the stored URLs and on the references. -/
namespace PoolM.Bal
open RR PoolM

/-- reachable balancers: references point into the heap, one weight per record, keys distinct,
    and the iterator lies on the orbit of the current weight vector (every change resets it) -/
structure WF (b : Bal) : Prop where
  refs_lt : ∀ r ∈ b.refs, r < b.heap.length
  len : b.ws.length = b.refs.length
  nodup : b.view.keys.Nodup
  orbit : ∃ j, b.it = after b.ws j It.reset

theorem WF.view {b : Bal} (h : b.WF) : b.view.WF :=
  ⟨by simp [Bal.view, Bal.urls, h.len], h.nodup⟩

theorem empty_wf : Bal.empty.WF :=
  ⟨by simp [Bal.empty], rfl, by simp [Bal.view, Bal.urls, Bal.empty], ⟨0, rfl⟩⟩

@[simp] theorem view_ws (b : Bal) : b.view.ws = b.ws := rfl
@[simp] theorem view_it (b : Bal) : b.view.it = b.it := rfl
theorem view_keys (b : Bal) : b.view.keys = b.urls.map URL.key := rfl

theorem getD_append_lt {α : Type} (l : List α) (x d : α) {r : Nat} (h : r < l.length) :
    (l ++ [x]).getD r d = l.getD r d := by
  simp [List.getD_eq_getElem?_getD, List.getElem?_append_left h]

/-- growing the heap does not change what the pool's references point to -/
theorem urls_heap_append {b : Bal} (h : b.WF) (x : URL) (b' : Bal) (hr : b'.refs = b.refs)
    (hh : b'.heap = b.heap ++ [x]) : b'.urls = b.urls := by
  unfold Bal.urls Bal.deref
  rw [hr, hh]
  apply List.map_congr_left
  intro r hr
  exact getD_append_lt _ _ _ (h.refs_lt r hr)

theorem urls_alloc {b : Bal} (h : b.WF) (x : URL) (b' : Bal) (hr : b'.refs = b.refs ++ [b.heap.length])
    (hh : b'.heap = b.heap ++ [x]) : b'.urls = b.urls ++ [x] := by
  unfold Bal.urls Bal.deref
  rw [hr, hh, List.map_append]
  congr 1
  · apply List.map_congr_left
    intro r hr
    exact getD_append_lt _ _ _ (h.refs_lt r hr)
  · simp [List.getD_eq_getElem?_getD]

/-! ### `UpsertServer` -/

theorem upsert_view {b : Bal} (h : b.WF) (u : URL) (w : Option Nat) :
    (b.upsert u w).view = b.view.upsert u.key w := by
  unfold Bal.upsert
  cases hf : b.view.find u.key with
  | some i =>
    simp only
    unfold Pool.upsert
    rw [hf]
    cases w <;> rfl
  | none =>
    simp only
    unfold Bal.view
    rw [urls_alloc h u _ rfl rfl]
    unfold Pool.upsert
    have hf' : Pool.find { keys := List.map URL.key b.urls, ws := b.ws, it := b.it } u.key = none := hf
    rw [hf']
    simp

theorem upsert_urls_of_mem {b : Bal} (u : URL) (w : Option Nat) (hm : u.key ∈ b.view.keys) :
    (b.upsert u w).urls = b.urls ∧ (b.upsert u w).refs = b.refs ∧ (b.upsert u w).heap = b.heap := by
  unfold Bal.upsert
  cases hf : b.view.find u.key with
  | some i => exact ⟨rfl, rfl, rfl⟩
  | none => exact absurd hm (Pool.find_none.mp hf)

theorem upsert_urls_of_not_mem {b : Bal} (h : b.WF) (u : URL) (w : Option Nat) (hm : u.key ∉ b.view.keys) :
    (b.upsert u w).urls = b.urls ++ [u] := by
  unfold Bal.upsert
  rw [Pool.find_none.mpr hm]
  exact urls_alloc h u _ rfl rfl

theorem upsert_it (b : Bal) (u : URL) (w : Option Nat) : (b.upsert u w).it = It.reset := by
  unfold Bal.upsert Pool.upsert
  cases b.view.find u.key <;> cases w <;> rfl

theorem upsert_heap_le (b : Bal) (u : URL) (w : Option Nat) : b.heap.length ≤ (b.upsert u w).heap.length := by
  unfold Bal.upsert; split <;> simp

theorem upsert_wf {b : Bal} (h : b.WF) (u : URL) (w : Option Nat) : (b.upsert u w).WF := by
  have hv := upsert_view h u w
  have hwf := Pool.upsert_wf h.view u.key w
  rw [← hv] at hwf
  refine ⟨?_, ?_, hwf.nodup, ⟨0, upsert_it b u w⟩⟩
  · unfold Bal.upsert
    cases hf : b.view.find u.key with
    | some i => exact h.refs_lt
    | none =>
      intro r hr
      show r < (b.heap ++ [u]).length
      have hr : r ∈ b.refs ++ [b.heap.length] := hr
      simp only [List.mem_append, List.mem_singleton] at hr
      simp only [List.length_append, List.length_singleton]
      rcases hr with hr | rfl
      · exact Nat.lt_succ_of_lt (h.refs_lt r hr)
      · exact Nat.lt_succ_self _
  · have h1 := hwf.len
    simp only [view_ws, view_keys, Bal.urls, List.length_map] at h1
    exact h1

/-! ### `RemoveServer` -/

theorem remove_view {b b' : Bal} (h : b.remove u = some b') : b.view.remove u.key = some b'.view := by
  unfold Bal.remove at h
  unfold Pool.remove
  split at h <;> simp at h
  rename_i i hi
  rw [hi]
  subst h
  simp [Bal.view, Bal.urls, Bal.deref, List.eraseIdx_map]

theorem remove_none {b : Bal} {u : URL} : b.remove u = none ↔ u.key ∉ b.view.keys := by
  rw [← Pool.find_none]; unfold Bal.remove; cases b.view.find u.key <;> simp

theorem remove_heap {b b' : Bal} (h : b.remove u = some b') : b'.heap = b.heap := by
  unfold Bal.remove at h
  split at h <;> simp at h
  subst h; rfl

theorem remove_wf {b b' : Bal} (hb : b.WF) (h : b.remove u = some b') : b'.WF := by
  have hv := remove_view h
  have hwf := Pool.remove_wf hb.view hv
  have hit : b'.it = It.reset := by
    unfold Bal.remove at h
    split at h <;> simp at h
    subst h; rfl
  refine ⟨?_, ?_, hwf.nodup, ⟨0, hit⟩⟩
  · unfold Bal.remove at h
    split at h <;> simp at h
    subst h
    intro r hr
    exact hb.refs_lt r (List.mem_of_mem_eraseIdx hr)
  · have h1 := hwf.len
    simp only [view_ws, view_keys, Bal.urls, List.length_map] at h1
    exact h1

/-- the rollback of a failed add: insert then remove leaves the records, weights and stored URLs as
    they were (the iterator is reset, the heap has grown) -/
theorem upsert_remove_new {b : Bal} (h : b.WF) (u : URL) (w : Option Nat) (hk : u.key ∉ b.view.keys) :
    ∃ b', (b.upsert u w).remove u = some b' ∧ b'.WF ∧ b'.urls = b.urls ∧ b'.ws = b.ws ∧
      b'.refs = b.refs ∧ b.heap.length ≤ b'.heap.length := by
  have hwf1 := upsert_wf h u w
  have hv1 := upsert_view h u w
  have hp := Pool.upsert_remove_new h.view hk w
  rw [← hv1] at hp
  cases hr : (b.upsert u w).remove u with
  | none =>
    have := remove_view (b := b.upsert u w) (b' := b.upsert u w) (u := u)
    rw [remove_none, ← Pool.remove_none, hp] at hr
    cases hr
  | some b' =>
    have hv' := remove_view hr
    rw [hp] at hv'
    simp only [Option.some.injEq] at hv'
    have hws : b'.ws = b.ws := by
      have := congrArg Pool.ws hv'; simpa using this.symm
    -- the references: the appended one is erased again
    have hf : b.view.find u.key = none := Pool.find_none.mpr hk
    have hrefs1 : (b.upsert u w).refs = b.refs ++ [b.heap.length] := by unfold Bal.upsert; rw [hf]
    have hheap1 : (b.upsert u w).heap = b.heap ++ [u] := by unfold Bal.upsert; rw [hf]
    have hfind : (b.upsert u w).view.find u.key = some b.refs.length := by
      rw [hv1]
      have hn : (b.view.keys ++ [u.key]).Nodup := by
        have := (Pool.upsert_wf h.view u.key w).nodup
        rwa [Pool.upsert_keys, if_neg hk] at this
      have e : b.view.upsert u.key w = ⟨b.view.keys ++ [u.key], (b.view.upsert u.key w).ws, (b.view.upsert u.key w).it⟩ := by
        have := Pool.upsert_keys b.view u.key w
        rw [if_neg hk] at this
        cases hq : b.view.upsert u.key w with
        | mk ks ws it => rw [hq] at this; simp only at this; subst this; rfl
      rw [e, Pool.find_append_mid (done := b.view.keys) (todo := []) hn]
      simp [view_keys, Bal.urls]
    have hb' : b'.refs = b.refs ∧ b'.heap = b.heap ++ [u] := by
      unfold Bal.remove at hr
      rw [hfind] at hr
      simp only [Option.some.injEq] at hr
      subst hr
      exact ⟨by simp only; rw [hrefs1]; exact Pool.eraseIdx_append_last _ _ rfl, hheap1⟩
    refine ⟨b', rfl, remove_wf hwf1 hr, urls_heap_append h u b' hb'.1 hb'.2, hws, hb'.1, ?_⟩
    rw [hb'.2]; simp

/-! ### `NextServer` -/

theorem next_lt (ws : List Nat) (s : It) {i : Nat} {s' : It} (h : next ws s = (.sel i, s')) : i < ws.length := by
  unfold next at h
  split at h
  · simp at h
  · rename_i hl
    simp only at h
    split at h
    · simp at h
    · generalize ws.length * (maxW ws / gcdW ws) + ws.length + 1 = fuel at h
      induction fuel generalizing s with
      | zero => simp [loop] at h
      | succ n ih =>
        unfold loop at h
        simp only at h
        split at h
        · simp at h
        · split at h
          · simp only [Prod.mk.injEq, Res.sel.injEq] at h
            rw [← h.1]
            unfold advance
            simp only
            have := Nat.mod_lt s.idx1 (Nat.pos_of_ne_zero hl)
            split
            · split <;> simp <;> omega
            · simp; omega
          · exact ih _ h

theorem nextServer_spec (b : Bal) :
    (b.nextServer.2.2.refs = b.refs ∧ b.nextServer.2.2.ws = b.ws ∧
      b.nextServer.2.2.it = (next b.ws b.it).2 ∧ b.nextServer.1 = (next b.ws b.it).1) ∧
    ((∃ i, b.nextServer.1 = .sel i ∧ i < b.ws.length ∧ b.nextServer.2.1 = some b.heap.length ∧
        b.nextServer.2.2.heap = b.heap ++ [b.deref (b.refs.getD i 0)]) ∨
      ((∀ i, b.nextServer.1 ≠ .sel i) ∧ b.nextServer.2.1 = none ∧ b.nextServer.2.2.heap = b.heap)) := by
  unfold Bal.nextServer
  simp only [Pool.nextServer, view_ws, view_it]
  cases hn : (next b.ws b.it).1 with
  | sel i =>
    refine ⟨⟨rfl, rfl, rfl, rfl⟩, Or.inl ⟨i, rfl, ?_, rfl, rfl⟩⟩
    exact next_lt b.ws b.it (s' := (next b.ws b.it).2) (by rw [← hn])
  | errNoServers => exact ⟨⟨rfl, rfl, rfl, rfl⟩, Or.inr ⟨by simp, rfl, rfl⟩⟩
  | errAllZero => exact ⟨⟨rfl, rfl, rfl, rfl⟩, Or.inr ⟨by simp, rfl, rfl⟩⟩
  | outOfFuel => exact ⟨⟨rfl, rfl, rfl, rfl⟩, Or.inr ⟨by simp, rfl, rfl⟩⟩

end PoolM.Bal
