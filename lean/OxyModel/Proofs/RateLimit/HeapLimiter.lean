import OxyModel.Proofs.RateLimit.HeapMap
import OxyModel.Proofs.RateLimit.Limiter

/-! The limiter over the map-with-heap: map and heap stay consistent along every history, so the victim the
modelled `container/heap` yields is always an entry of minimal expiry. -/
namespace RL
open TTL

/-- map and expiry heap of the limiter agree -/
def HCons (hl : HLimiter) : Prop := TTL.Cons hl.hmap

theorem serve_hmap (hl : HLimiter) (now : Nat) (src : String) (amount : Nat) (rr : List Rate) :
    (hl.serve now src amount rr).1.hmap =
      (hl.hmap.get src now).1.set src
        ((hl.base.current now src (hl.base.resolve rr)).consume now amount).1
        (ttlOf (hl.base.current now src (hl.base.resolve rr))) now := rfl

theorem serve_base (hl : HLimiter) (now : Nat) (src : String) (amount : Nat) (rr : List Rate) :
    (hl.serve now src amount rr).1.base = (hl.base.serve now src amount rr (hl.victimAt now src)).1 := rfl

theorem serve_resp_h (hl : HLimiter) (now : Nat) (src : String) (amount : Nat) (rr : List Rate) :
    (hl.serve now src amount rr).2 = (hl.base.serve now src amount rr (hl.victimAt now src)).2 := rfl

theorem hcons_serve (hl : HLimiter) (hc : HCons hl) (now : Nat) (src : String) (amount : Nat) (rr : List Rate) :
    HCons (hl.serve now src amount rr).1 := by
  unfold HCons
  rw [serve_hmap]
  exact set_cons _ (get_cons hl.hmap hc src now) _ _ _ _

theorem hcons_new (rates : List Rate) (capacity : Nat) : HCons (HLimiter.new rates capacity) :=
  empty_cons _

theorem hcons_after (reqs : List (Nat × String × Nat × List Rate)) : ∀ (hl : HLimiter), HCons hl → HCons (hl.after reqs) := by
  induction reqs with
  | nil => intro hl h; exact h
  | cons r rs ih =>
    intro hl h
    obtain ⟨t, s, n, rr⟩ := r
    exact ih _ (hcons_serve hl h t s n rr)

/-- the victim the heap yields is a legal one: tracked, and no tracked entry expires earlier -/
theorem victimAt_isMin (hl : HLimiter) (hc : HCons hl) (now : Nat) (src : String)
    (hev : hl.base.evictsAt now src = true) :
    (hl.base.sets.get src now).1.isMin (hl.victimAt now src) = true := by
  have hne : (hl.base.sets.get src now).1.entries ≠ [] := by
    unfold Limiter.evictsAt Map.evicts at hev
    simp only [Bool.and_eq_true, Bool.not_eq_eq_eq_not, Bool.not_true, List.isEmpty_eq_false_iff] at hev
    exact hev.2
  exact victim_isMin (hl.hmap.get src now).1 (get_cons hl.hmap hc src now) hne

end RL
