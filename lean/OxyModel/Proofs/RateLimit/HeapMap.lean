import OxyModel.Proofs.RateLimit.TTL
import OxyModel.Proofs.Heap.Basic

/-! The TTL map together with its expiry heap: the heap always holds exactly the `(key, expiry)` pairs of the
tracked entries in heap order, hence the eviction victim it yields is an entry of minimal expiry. -/
namespace TTL
variable {α : Type}

/-- the `(key, expiry)` pairs of the tracked entries -/
def items (m : Map α) : List Heap.Item := m.entries.map (fun e => (e.key, e.expiry))

/-- map and heap agree -/
structure Cons (m : HMap α) : Prop where
  nodup : m.map.keys.Nodup
  perm : m.heap.Perm (items m.map)
  inv : Heap.Inv m.heap m.heap.length

theorem items_keys (m : Map α) : (items m).map (·.1) = m.keys := by
  unfold items Map.keys
  rw [List.map_map]; rfl

theorem items_erase (m : Map α) (k : String) :
    items (m.erase k) = (items m).filter (fun y => !(y.1 == k)) := by
  unfold items Map.erase
  simp only
  rw [List.filter_map]
  rfl

/-- removing the one item of key `x.1` from a list with distinct keys -/
theorem perm_filter_key (l R : List Heap.Item) (x : Heap.Item) (hp : (x :: R).Perm l)
    (hnd : (l.map (·.1)).Nodup) : R.Perm (l.filter (fun y => !(y.1 == x.1))) := by
  have h1 := hp.filter (fun y => !(y.1 == x.1))
  have hnd2 : ((x :: R).map (·.1)).Nodup := ((hp.map (·.1)).nodup_iff).mpr hnd
  simp only [List.map_cons, List.nodup_cons, List.mem_map, not_exists, not_and] at hnd2
  have hR : R.filter (fun y => !(y.1 == x.1)) = R := by
    rw [List.filter_eq_self]
    intro y hy
    have := hnd2.1 y hy
    simp only [Bool.not_eq_eq_eq_not, Bool.not_true, beq_eq_false_iff_ne, ne_eq]
    exact this
  have hx : (x :: R).filter (fun y => !(y.1 == x.1)) = R.filter (fun y => !(y.1 == x.1)) := by
    rw [List.filter_cons_of_neg (by simp)]
  rw [hx, hR] at h1
  exact h1

theorem mem_items_of_find (m : Map α) (k : String) (e : Entry α) (h : m.find? k = some e) :
    (k, e.expiry) ∈ items m := by
  unfold items
  have hk := find?_key m k e h
  exact List.mem_map.mpr ⟨e, find?_mem m k e h, by rw [hk]⟩

theorem lfind_of_mem (es : List (Entry α)) (hnd : (es.map (·.key)).Nodup) (e : Entry α) (he : e ∈ es) :
    es.find? (fun x => x.key == e.key) = some e := by
  induction es with
  | nil => simp at he
  | cons x xs ih =>
    simp only [List.map_cons, List.nodup_cons] at hnd
    rcases List.mem_cons.mp he with rfl | he'
    · rw [List.find?_cons_of_pos (by simp)]
    · have hne : ¬ x.key = e.key := by
        intro h; apply hnd.1; rw [h]; exact List.mem_map_of_mem he'
      rw [List.find?_cons_of_neg (by simp [hne])]
      exact ih hnd.2 he'

/-- with distinct keys, `find?` of an entry's key is that entry -/
theorem find?_of_mem (m : Map α) (hnd : m.keys.Nodup) (e : Entry α) (he : e ∈ m.entries) :
    m.find? e.key = some e :=
  lfind_of_mem m.entries hnd e he

/-- **the heap's top is an entry of minimal expiry** -/
theorem victim_isMin (m : HMap α) (hc : Cons m) (hne : m.map.entries ≠ []) : m.map.isMin m.victim = true := by
  have hlen : m.heap.length = m.map.entries.length := by
    rw [hc.perm.length_eq]; unfold items; simp
  cases hh : m.heap with
  | nil => rw [hh] at hlen; simp at hlen; exact absurd (List.eq_nil_of_length_eq_zero hlen.symm) hne
  | cons x rest =>
    have htop : Heap.top m.heap = some x := by rw [hh]; rfl
    have hv : m.victim = x.1 := by unfold HMap.victim; rw [htop]
    have hxmem : x ∈ items m.map := hc.perm.subset (by rw [hh]; exact List.mem_cons_self)
    unfold items at hxmem
    obtain ⟨e, he, hex⟩ := List.mem_map.mp hxmem
    have hfind := find?_of_mem m.map hc.nodup e he
    have hkey : x.1 = e.key := by rw [← hex]
    have hle := Heap.top_le_all m.heap hc.inv x htop
    unfold Map.isMin
    rw [hv, hkey, hfind]
    simp only [List.all_eq_true, decide_eq_true_eq]
    intro e' he'
    have hmem : (e'.key, e'.expiry) ∈ m.heap := hc.perm.symm.subset (List.mem_map.mpr ⟨e', he', rfl⟩)
    have := hle _ hmem
    rw [← hex] at this
    exact this

/-- `heap.Remove` of a tracked key mirrors `delete` -/
theorem removeKey_perm (m : HMap α) (hc : Cons m) (k : String) (e : Entry α) (hf : m.map.find? k = some e) :
    (Heap.removeKey m.heap k).Perm (items (m.map.erase k)) := by
  have hmem : (k, e.expiry) ∈ m.heap := hc.perm.symm.subset (mem_items_of_find m.map k e hf)
  have hidx : Heap.indexOf m.heap k < m.heap.length := by
    unfold Heap.indexOf
    exact List.findIdx_lt_length_of_exists ⟨_, hmem, by simp⟩
  have hx : m.heap[Heap.indexOf m.heap k]? = some (m.heap[Heap.indexOf m.heap k]) := List.getElem?_eq_getElem hidx
  have hkey : (m.heap[Heap.indexOf m.heap k]).1 = k := by
    have hidx' : List.findIdx (fun x : Heap.Item => x.1 == k) m.heap < m.heap.length := hidx
    have := List.findIdx_getElem (xs := m.heap) (p := fun x : Heap.Item => x.1 == k) (w := hidx')
    simpa [Heap.indexOf] using this
  unfold Heap.removeKey
  rw [if_pos hidx]
  have hp := Heap.removeAt_perm m.heap _ _ hx
  have hnd : ((items m.map).map (·.1)).Nodup := by rw [items_keys]; exact hc.nodup
  have := perm_filter_key (items m.map) _ _ (hp.trans hc.perm) hnd
  rw [hkey] at this
  rw [items_erase]
  exact this

theorem pop_perm_erase (m : HMap α) (hc : Cons m) (hne : m.map.entries ≠ []) :
    (Heap.pop m.heap).Perm (items (m.map.erase m.victim)) := by
  have hlen : m.heap.length = m.map.entries.length := by
    rw [hc.perm.length_eq]; unfold items; simp
  cases hh : m.heap with
  | nil => rw [hh] at hlen; simp at hlen; exact absurd (List.eq_nil_of_length_eq_zero hlen.symm) hne
  | cons x rest =>
    have htop : Heap.top m.heap = some x := by rw [hh]; rfl
    have hv : m.victim = x.1 := by unfold HMap.victim; rw [htop]
    have hp := Heap.pop_perm m.heap x htop
    have hnd : ((items m.map).map (·.1)).Nodup := by rw [items_keys]; exact hc.nodup
    have := perm_filter_key (items m.map) _ _ (hp.trans hc.perm) hnd
    rw [items_erase, hv, ← hh]
    exact this

theorem get_cons (m : HMap α) (hc : Cons m) (k : String) (now : Nat) : Cons (m.get k now).1 := by
  unfold HMap.get
  cases hf : m.map.find? k with
  | none =>
    have : (m.map.get k now).1 = m.map := by unfold Map.get; rw [hf]
    simp only
    rw [this]
    exact ⟨hc.nodup, hc.perm, hc.inv⟩
  | some e =>
    simp only
    by_cases hexp : e.expiry ≤ nowSec now
    · have : (m.map.get k now).1 = m.map.erase k := by unfold Map.get; rw [hf]; simp [hexp]
      rw [this]
      simp only [hexp, if_true]
      exact ⟨erase_keys_nodup m.map k hc.nodup, removeKey_perm m hc k e hf, Heap.removeKey_inv m.heap k hc.inv⟩
    · have : (m.map.get k now).1 = m.map := by unfold Map.get; rw [hf]; simp [hexp]
      rw [this]
      simp only [hexp, if_false]
      exact ⟨hc.nodup, hc.perm, hc.inv⟩

/-- refreshing a tracked key replaces its item -/
theorem items_update (es : List (Entry α)) (k : String) (v : α) (exp : Nat)
    (hnd : (es.map (·.key)).Nodup) (hk : k ∈ es.map (·.key)) :
    ((es.map (fun e => if e.key == k then ({ e with val := v, expiry := exp } : Entry α) else e)).map
        (fun e => (e.key, e.expiry))).Perm
      ((k, exp) :: (es.map (fun e => (e.key, e.expiry))).filter (fun y => !(y.1 == k))) := by
  induction es with
  | nil => simp at hk
  | cons x xs ih =>
    simp only [List.map_cons, List.nodup_cons] at hnd
    by_cases hx : x.key = k
    · have hnot : k ∉ xs.map (·.key) := by rw [← hx]; exact hnd.1
      have hsame : xs.map (fun e => if e.key == k then ({ e with val := v, expiry := exp } : Entry α) else e) = xs := by
        conv_rhs => rw [← List.map_id xs]
        apply List.map_congr_left
        intro e he
        have : ¬ e.key = k := fun h => hnot (by rw [← h]; exact List.mem_map_of_mem he)
        simp [this]
      have hfil : (xs.map (fun e => (e.key, e.expiry))).filter (fun y => !(y.1 == k)) = xs.map (fun e => (e.key, e.expiry)) := by
        rw [List.filter_eq_self]
        intro y hy
        obtain ⟨e, he, rfl⟩ := List.mem_map.mp hy
        have : ¬ e.key = k := fun h => hnot (by rw [← h]; exact List.mem_map_of_mem he)
        simp [this]
      simp only [List.map_cons, hsame]
      rw [List.filter_cons_of_neg (by simp [hx]), hfil]
      simp [hx]
    · have hk' : k ∈ xs.map (·.key) := by
        rcases List.mem_cons.mp hk with h | h
        · exact absurd h.symm hx
        · exact h
      have := ih hnd.2 hk'
      simp only [List.map_cons]
      rw [List.filter_cons_of_pos (by simp [hx])]
      have e1 : (if (x.key == k) = true then ({ x with val := v, expiry := exp } : Entry α) else x) = x := by simp [hx]
      rw [e1]
      exact (List.Perm.cons _ this).trans (List.Perm.swap _ _ _)

theorem set_cons (m : HMap α) (hc : Cons m) (k : String) (v : α) (ttl now : Nat) : Cons (m.set k v ttl now) := by
  refine ⟨set_keys_nodup m.map k v ttl now m.victim hc.nodup, ?_, ?_⟩
  · -- items
    unfold HMap.set
    cases hf : m.map.find? k with
    | some e =>
      simp only
      have hmap : items (m.map.set k v ttl now m.victim)
          = (m.map.entries.map (fun e => if e.key == k then ({ e with val := v, expiry := expiryAt now ttl } : Entry α) else e)).map
              (fun e => (e.key, e.expiry)) := by
        unfold Map.set items; rw [hf]
      have hk : k ∈ m.map.entries.map (·.key) := by
        have := find?_mem m.map k e hf
        have hkey := find?_key m.map k e hf
        rw [← hkey]; exact List.mem_map_of_mem this
      rw [hmap]
      unfold Heap.update
      refine (Heap.push_perm _ _).trans ?_
      refine (List.Perm.cons _ (removeKey_perm m hc k e hf)).trans ?_
      rw [items_erase]
      exact (items_update m.map.entries k v (expiryAt now ttl) hc.nodup hk).symm
    | none =>
      simp only
      have happ : ∀ m' : Map α, items ({ m' with entries := m'.entries ++ [⟨k, v, expiryAt now ttl⟩] } : Map α)
          = items m' ++ [(k, expiryAt now ttl)] := by
        intro m'; unfold items; simp
      refine (Heap.push_perm _ _).trans ?_
      unfold Map.set
      rw [hf]
      simp only
      rw [happ]
      refine List.Perm.trans ?_ (List.perm_append_comm (l₁ := [(k, expiryAt now ttl)])).symm.symm
      · simp only [List.singleton_append]
        apply List.Perm.cons
        by_cases hev : m.map.evicts k = true
        · simp only [hev, if_true]
          have hne : m.map.entries ≠ [] := by
            unfold Map.evicts at hev
            simp only [Bool.and_eq_true, Bool.not_eq_eq_eq_not, Bool.not_true, List.isEmpty_eq_false_iff] at hev
            exact hev.2
          exact pop_perm_erase m hc hne
        · simp only [hev]
          exact hc.perm
  · -- heap order
    unfold HMap.set
    cases hf : m.map.find? k with
    | some e => exact Heap.update_inv m.heap k _ hc.inv
    | none =>
      simp only
      by_cases hev : m.map.evicts k = true
      · simp only [hev, if_true]
        have h1 := Heap.pop_inv m.heap hc.inv
        rw [← Heap.pop_length] at h1
        have := Heap.push_inv (Heap.pop m.heap) (k, expiryAt now ttl) h1
        rw [← Heap.push_length] at this
        exact this
      · simp only [hev]
        have := Heap.push_inv m.heap (k, expiryAt now ttl) hc.inv
        rw [← Heap.push_length] at this
        exact this

theorem empty_cons (capacity : Nat) : Cons (HMap.empty capacity : HMap α) :=
  ⟨by simp [HMap.empty, TTL.empty, Map.keys], by simp [HMap.empty, TTL.empty, items], by intro k _ hk; simp [HMap.empty] at hk⟩

end TTL
