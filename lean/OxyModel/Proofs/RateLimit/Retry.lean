import OxyModel.Proofs.RateLimit.Refine

/-! Limiter-level C13 facts: what a retry / an idle source gets, across entry expiry and eviction. -/
namespace RL
open TTL

/-- every tracked entry holds a well-formed bucket set of the configured rates, last used no later than `now` -/
def LimiterInv (rates : List Rate) (l : Limiter) (now : Nat) : Prop :=
  l.defaults = rates ∧ ∀ s e, l.sets.find? s = some e → ∃ tl, tl ≤ now ∧ EntryInv rates e tl

structure ValidRates (rates : List Rate) : Prop where
  valid : ∀ r ∈ rates, r.valid = true
  nodup : (rates.map (·.period)).Nodup

/-- the set `consumeRates` works on: the tracked one unless it is missing or has expired, else a new one -/
theorem currentOf_matches (rates : List Rate) (hv : ValidRates rates) (e : Option (Entry BucketSet)) (t : Nat)
    (he : ∀ e', e = some e' → ∃ tl, tl ≤ t ∧ EntryInv rates e' tl) :
    (currentOf e t rates).maxPeriod = maxPeriodOf (rates.map (·.period)) ∧
    (∃ tl, tl ≤ t ∧ List.Forall₂ (Matches tl) (currentOf e t rates).buckets rates) ∧
    ((currentOf e t rates = BucketSet.new rates t) ∨
      ∃ e', e = some e' ∧ ¬ e'.expiry ≤ nowSec t ∧ currentOf e t rates = e'.val) := by
  have hp : ∀ r ∈ rates, r.period ≠ 0 := fun r hr => (valid_facts r (hv.valid r hr)).1
  have hnew : (BucketSet.new rates t).maxPeriod = maxPeriodOf (rates.map (·.period)) ∧
      (∃ tl, tl ≤ t ∧ List.Forall₂ (Matches tl) (BucketSet.new rates t).buckets rates) :=
    ⟨rfl, t, Nat.le_refl _, new_matches rates t hp⟩
  cases e with
  | none =>
    refine ⟨hnew.1, hnew.2, ?_⟩
    left; rfl
  | some e' =>
    obtain ⟨tl, htl, i1, i2, i3⟩ := he e' rfl
    unfold currentOf
    simp only
    by_cases hexp : e'.expiry ≤ nowSec t
    · simp only [hexp, if_true]
      exact ⟨hnew.1, hnew.2, Or.inl trivial⟩
    · simp only [hexp, if_false]
      rw [update_same tl t e'.val rates i3 hv.nodup i1]
      exact ⟨i1, ⟨tl, htl, i3⟩, Or.inr ⟨e', rfl, hexp, rfl⟩⟩

/-- the entry written by `serve` satisfies the invariant at the time of the request -/
theorem serveEntry_inv (rates : List Rate) (hv : ValidRates rates) (e : Option (Entry BucketSet)) (t : Nat) (s : String) (n : Nat)
    (he : ∀ e', e = some e' → ∃ tl, tl ≤ t ∧ EntryInv rates e' tl) :
    EntryInv rates (serveEntry rates e t s n []).1 t := by
  obtain ⟨h1, ⟨tl, htl, h2⟩, _⟩ := currentOf_matches rates hv e t he
  unfold serveEntry EntryInv
  simp only [List.isEmpty_nil, if_true]
  unfold BucketSet.consume ttlOf
  simp only
  exact ⟨h1, by rw [h1], matches_consumeSet tl t n _ _ h2 htl⟩

theorem serve_find_other_or_none (l : Limiter) (now : Nat) (src s : String) (amount : Nat) (rr : List Rate) (victim : String)
    (hs : s ≠ src) :
    (l.serve now src amount rr victim).1.sets.find? s = l.sets.find? s ∨
    (l.serve now src amount rr victim).1.sets.find? s = none := by
  unfold Limiter.serve
  simp only
  rcases set_find?_other_or_none (l.sets.get src now).1 src s
    ((l.current now src (l.resolve rr)).consume now amount).1 (ttlOf (l.current now src (l.resolve rr))) now victim hs with h | h
  · left; rw [h, get_find?_other _ _ _ _ hs]
  · right; exact h

theorem inv_serve (rates : List Rate) (hv : ValidRates rates) (l : Limiter) (now t : Nat) (hinv : LimiterInv rates l now)
    (hle : now ≤ t) (src : String) (n : Nat) (victim : String) :
    LimiterInv rates (l.serve t src n [] victim).1 t := by
  obtain ⟨hd, hall⟩ := hinv
  refine ⟨by rw [serve_defaults]; exact hd, ?_⟩
  intro s e hs
  by_cases hsrc : s = src
  · subst hsrc
    rw [serve_find_self] at hs
    simp only [Option.some.injEq] at hs
    rw [← hs, hd]
    refine ⟨t, Nat.le_refl _, serveEntry_inv rates hv _ t s n ?_⟩
    intro e' he'
    obtain ⟨tl, htl, hi⟩ := hall s e' he'
    exact ⟨tl, by omega, hi⟩
  · rcases serve_find_other_or_none l t src s n [] victim hsrc with h | h
    · rw [h] at hs
      obtain ⟨tl, htl, hi⟩ := hall s e hs
      exact ⟨tl, by omega, hi⟩
    · rw [h] at hs; simp at hs

theorem inv_new (rates : List Rate) (capacity : Nat) : LimiterInv rates (Limiter.new rates capacity) 0 := by
  refine ⟨rfl, ?_⟩
  intro s e h
  simp [Limiter.new, TTL.empty, Map.find?] at h

def lastTime (t0 : Nat) : List Req → Nat
  | [] => t0
  | r :: rs => lastTime r.t rs

/-- every state reachable from a new limiter by a history with non-decreasing time stamps satisfies the invariant -/
theorem inv_after (rates : List Rate) (hv : ValidRates rates) (reqs : List Req) : ∀ (l : Limiter) (now : Nat),
    LimiterInv rates l now → SortedFrom now (reqs.map (·.t)) → LimiterInv rates (l.after reqs) (lastTime now reqs) := by
  induction reqs with
  | nil => intro l now h _; exact h
  | cons r rs ih =>
    intro l now h hs
    exact ih _ r.t (inv_serve rates hv l now r.t h hs.1 r.src r.amount r.victim) hs.2

/-- requests of other sources leave the entry of `s` alone, or evict it -/
theorem after_others (s : String) (others : List Req) (hoth : ∀ r ∈ others, r.src ≠ s) : ∀ (l : Limiter),
    (l.after others).sets.find? s = l.sets.find? s ∨ (l.after others).sets.find? s = none := by
  induction others with
  | nil => intro l; left; rfl
  | cons r rs ih =>
    intro l
    have hr : s ≠ r.src := fun h => hoth r List.mem_cons_self h.symm
    rcases ih (fun r' hr' => hoth r' (List.mem_cons_of_mem _ hr')) (l.serve r.t r.src r.amount [] r.victim).1 with h | h
    · rcases serve_find_other_or_none l r.t r.src s r.amount [] r.victim hr with h2 | h2
      · left; unfold Limiter.after; rw [h, h2]
      · right; unfold Limiter.after; rw [h, h2]
    · right; unfold Limiter.after; exact h

theorem after_defaults (others : List Req) : ∀ (l : Limiter), (l.after others).defaults = l.defaults := by
  induction others with
  | nil => intro _; rfl
  | cons r rs ih => intro l; unfold Limiter.after; rw [ih, serve_defaults]

theorem new_admits (rates : List Rate) (t n : Nat) (hn : ∀ r ∈ rates, n ≤ r.burst) :
    (consumeSet (BucketSet.new rates t).buckets t n).2 = .ok := by
  apply consumeSet_ok_of_all
  intro b hb
  unfold BucketSet.new at hb
  simp only [List.mem_map] at hb
  obtain ⟨r, hr, rfl⟩ := hb
  rw [consume_ok_iff, refill_fresh]
  exact ⟨hn r hr, hn r hr⟩

theorem matches_wf (tl t : Nat) (bs : List Bucket) (rates : List Rate) (h : List.Forall₂ (Matches tl) bs rates) (hle : tl ≤ t) :
    ∀ b ∈ bs, b.WF t := by
  intro b hb
  obtain ⟨r, _, m1, m2, m3, m4, m5⟩ := forall₂_mem_left _ _ _ h b hb
  exact ⟨by rw [m2]; exact tptOf_pos _ _, m4, by omega⟩

theorem matches_bursts (tl : Nat) (bs : List Bucket) (rates : List Rate) (h : List.Forall₂ (Matches tl) bs rates) (n : Nat) :
    (∀ b ∈ bs, n ≤ b.burst) ↔ (∀ r ∈ rates, n ≤ r.burst) := by
  constructor
  · intro hb r hr
    obtain ⟨b, hbm, hm⟩ := forall₂_mem_right _ _ _ h r hr
    rw [← hm.2.2.1]; exact hb b hbm
  · intro hr b hb
    obtain ⟨r, hrm, hm⟩ := forall₂_mem_left _ _ _ h b hb
    rw [hm.2.2.1]; exact hr r hrm

/-- what the second of two requests of a source gets, given what its entry became in between -/
theorem second_request (rates : List Rate) (hv : ValidRates rates) (e0 : Option (Entry BucketSet)) (t : Nat) (s : String) (n : Nat)
    (he0 : ∀ e', e0 = some e' → ∃ tl, tl ≤ t ∧ EntryInv rates e' tl)
    (e1 : Option (Entry BucketSet)) (he1 : e1 = some (serveEntry rates e0 t s n []).1 ∨ e1 = none)
    (t' : Nat) (htt : t ≤ t') (n' : Nat) (hn' : ∀ r ∈ rates, n' ≤ r.burst)
    (hset : (consumeSet ((currentOf e0 t rates).consume t n).1.buckets t' n').2 = .ok) :
    (serveEntry rates e1 t' s n' []).2 = .ok := by
  have hinv1 := serveEntry_inv rates hv e0 t s n he0
  have he1' : ∀ e', e1 = some e' → ∃ tl, tl ≤ t' ∧ EntryInv rates e' tl := by
    intro e' h
    rcases he1 with h1 | h1
    · rw [h1] at h; simp only [Option.some.injEq] at h
      exact ⟨t, htt, by rw [← h]; exact hinv1⟩
    · rw [h1] at h; simp at h
  obtain ⟨_, _, hc⟩ := currentOf_matches rates hv e1 t' he1'
  have hres : (consumeSet (currentOf e1 t' rates).buckets t' n').2 = .ok := by
    rcases hc with hc | ⟨e', hsome, _, hc⟩
    · rw [hc]; exact new_admits rates t' n' hn'
    · rw [hc]
      rcases he1 with h1 | h1
      · rw [h1] at hsome; simp only [Option.some.injEq] at hsome
        rw [← hsome]
        unfold serveEntry
        simp only [List.isEmpty_nil, if_true]
        exact hset
      · rw [h1] at hsome; simp at hsome
  unfold serveEntry
  simp only [List.isEmpty_nil, if_true]
  unfold BucketSet.consume
  simp only
  rw [hres]; rfl

end RL
