import OxyModel.Proofs.RateLimit.Limiter
import OxyModel.Proofs.RateLimit.SetProps

/-! The limiter refines a never-expiring bucket set per source (C03_limiter_refines_set): forgetting
an entry is unobservable when the burst refills within the time an idle entry is remembered. -/
namespace RL
open TTL

/-- a bucket of the configured rate `r`, last refreshed no later than `tl` -/
def Matches (tl : Nat) (b : Bucket) (r : Rate) : Prop :=
  b.period = r.period ∧ b.tpt = tptOf r.period r.average ∧ b.burst = r.burst ∧ b.avail ≤ b.burst ∧ b.lr ≤ tl

theorem refill_facts (b : Bucket) (now : Nat) :
    (b.refill now).period = b.period ∧ (b.refill now).tpt = b.tpt ∧ (b.refill now).burst = b.burst ∧
    (b.avail ≤ b.burst → (b.refill now).avail ≤ b.burst) ∧ (b.lr ≤ now → (b.refill now).lr ≤ now) := by
  unfold Bucket.refill
  split
  · exact ⟨rfl, rfl, rfl, id, id⟩
  · simp only
    split <;> split <;> simp_all <;> omega

theorem consume_fst_facts (b : Bucket) (now n : Nat) (hav : b.avail ≤ b.burst) (hlr : b.lr ≤ now) :
    (b.consume now n).1.period = b.period ∧ (b.consume now n).1.tpt = b.tpt ∧ (b.consume now n).1.burst = b.burst ∧
    (b.consume now n).1.avail ≤ b.burst ∧ (b.consume now n).1.lr ≤ now ∧
    (b.consume now n).1.avail + (b.consume now n).1.lastConsumed ≤ b.burst := by
  obtain ⟨h1, h2, h3, h4, h5⟩ := refill_facts b now
  have h4 := h4 hav
  have h5 := h5 hlr
  unfold Bucket.consume
  simp only
  split
  · simp only; exact ⟨h1, h2, h3, h4, h5, by omega⟩
  · split
    · simp only; exact ⟨h1, h2, h3, h4, h5, by omega⟩
    · simp only; exact ⟨h1, h2, h3, by omega, h5, by omega⟩

theorem matches_consume (tl now n : Nat) (b : Bucket) (r : Rate) (h : Matches tl b r) (hle : tl ≤ now) :
    Matches now (b.consume now n).1 r ∧ Matches now (b.consume now n).1.rollback r := by
  obtain ⟨m1, m2, m3, m4, m5⟩ := h
  obtain ⟨c1, c2, c3, c4, c5, c6⟩ := consume_fst_facts b now n m4 (by omega)
  constructor
  · exact ⟨by rw [c1, m1], by rw [c2, m2], by rw [c3, m3], by rw [c3]; exact c4, c5⟩
  · unfold Bucket.rollback
    exact ⟨by simp only; rw [c1, m1], by simp only; rw [c2, m2], by simp only; rw [c3, m3],
      by simp only; rw [c3]; exact c6, by simp only; exact c5⟩

theorem consumeSet_fst_cases (bs : List Bucket) (now n : Nat) :
    (consumeSet bs now n).1 = bs.map (fun b => (b.consume now n).1.rollback) ∨
    (consumeSet bs now n).1 = bs.map (fun b => (b.consume now n).1) := by
  unfold consumeSet
  simp only
  split
  · left; simp [List.map_map]
  · split
    · left; simp [List.map_map]
    · right; simp [List.map_map]

theorem forall₂_map_left {α β : Type} (R S : α → β → Prop) (f : α → α) (l1 : List α) (l2 : List β)
    (h : List.Forall₂ R l1 l2) (hf : ∀ a b, R a b → S (f a) b) : List.Forall₂ S (l1.map f) l2 := by
  induction h with
  | nil => exact List.Forall₂.nil
  | cons hab _ ih => exact List.Forall₂.cons (hf _ _ hab) ih

theorem matches_consumeSet (tl now n : Nat) (bs : List Bucket) (rates : List Rate)
    (h : List.Forall₂ (Matches tl) bs rates) (hle : tl ≤ now) :
    List.Forall₂ (Matches now) (consumeSet bs now n).1 rates := by
  rcases consumeSet_fst_cases bs now n with h1 | h1 <;> rw [h1]
  · exact forall₂_map_left _ _ _ _ _ h (fun a b hab => (matches_consume tl now n a b hab hle).2)
  · exact forall₂_map_left _ _ _ _ _ h (fun a b hab => (matches_consume tl now n a b hab hle).1)

/-! ### a long-idle bucket is indistinguishable from a new one -/

theorem refill_idle (b : Bucket) (tl now : Nat) (htpt : 0 < b.tpt) (hb : 0 < b.burst) (hav : b.avail ≤ b.burst)
    (hlr : b.lr ≤ tl) (h : tl + b.burst * b.tpt ≤ now) :
    b.refill now = { b with lr := now, avail := b.burst } := by
  have hc : b.burst ≤ (now - b.lr) / b.tpt := by
    rw [Nat.le_div_iff_mul_le htpt]; omega
  have hne : b.tpt ≠ 0 := by omega
  generalize hcg : (now - b.lr) / b.tpt = c at hc
  unfold Bucket.refill
  simp only [hne, if_false, hcg]
  have h1 : b.avail + c ≠ b.avail := by omega
  simp only [h1, ne_eq, not_false_eq_true, if_true]
  by_cases h2 : b.avail + c > b.burst
  · simp only [h2, if_true]
  · simp only [h2, if_false]
    have : b.avail + c = b.burst := by omega
    rw [this]

theorem refill_same_instant (b : Bucket) (now : Nat) (hlr : b.lr = now) (hav : b.avail ≤ b.burst) :
    b.refill now = b := by
  unfold Bucket.refill
  split
  · rfl
  · have h0 : (now - b.lr) / b.tpt = 0 := by rw [hlr]; simp
    have h1 : ¬ b.avail > b.burst := by omega
    simp [h0, h1]

theorem refill_fresh (r : Rate) (now : Nat) : (mkBucket r now).refill now = mkBucket r now :=
  refill_same_instant _ now rfl (Nat.le_refl _)

/-- `consume` after the refill -/
def consumeCore (b1 : Bucket) (tokens : Nat) : Bucket × BRes :=
  if tokens > b1.burst then (b1, .err)
  else if b1.avail < tokens then (b1, .delay ((tokens - b1.avail) * b1.tpt))
  else ({ b1 with avail := b1.avail - tokens, lastConsumed := tokens }, .ok)

theorem consume_eq_core (b : Bucket) (now n : Nat) :
    b.consume now n = consumeCore { b.refill now with lastConsumed := 0 } n := rfl

theorem consume_idle_eq_fresh' (b : Bucket) (r : Rate) (tl now n : Nat) (hm : Matches tl b r)
    (hp : r.period ≠ 0) (hpos : 0 < r.burst) (h : tl + b.burst * b.tpt ≤ now) :
    b.consume now n = (mkBucket r now).consume now n := by
  obtain ⟨m1, m2, m3, m4, m5⟩ := hm
  have htpt : 0 < b.tpt := by rw [m2]; exact tptOf_pos _ _
  have hrf := refill_idle b tl now htpt (by omega) m4 m5 h
  have key : ({ b.refill now with lastConsumed := 0 } : Bucket) = { (mkBucket r now).refill now with lastConsumed := 0 } := by
    rw [hrf, refill_fresh]
    unfold mkBucket
    simp only [hp, if_false]
    cases b
    simp_all
  rw [consume_eq_core, consume_eq_core, key]

theorem consumeSet_idle_eq_fresh' (bs : List Bucket) (rates : List Rate) (tl now n : Nat)
    (hm : List.Forall₂ (Matches tl) bs rates) (hp : ∀ r ∈ rates, r.period ≠ 0 ∧ 0 < r.burst)
    (h : ∀ r ∈ rates, tl + r.burst * tptOf r.period r.average ≤ now) :
    consumeSet bs now n = consumeSet (rates.map (fun r => mkBucket r now)) now n := by
  have hmap : bs.map (fun b => b.consume now n) = (rates.map (fun r => mkBucket r now)).map (fun b => b.consume now n) := by
    induction hm with
    | nil => rfl
    | @cons b r bs' rs' hab _ ih =>
      simp only [List.map_cons]
      rw [ih (fun r hr => hp r (List.mem_cons_of_mem _ hr)) (fun r hr => h r (List.mem_cons_of_mem _ hr))]
      have h0 := h r List.mem_cons_self
      rw [consume_idle_eq_fresh' b r tl now n hab (hp r List.mem_cons_self).1 (hp r List.mem_cons_self).2
        (by rw [hab.2.2.1, hab.2.1]; exact h0)]
  unfold consumeSet
  simp only [hmap]

/-! ### `Update` with the rates the set was built from is the identity -/

theorem lookup_of_mem (rates : List Rate) (hnd : (rates.map (·.period)).Nodup) (r : Rate) (hr : r ∈ rates) :
    lookupRate rates r.period = some r := by
  unfold lookupRate
  induction rates with
  | nil => simp at hr
  | cons x xs ih =>
    simp only [List.map_cons, List.nodup_cons] at hnd
    rcases List.mem_cons.mp hr with rfl | hr'
    · rw [List.find?_cons_of_pos (by simp)]
    · have hne : ¬ x.period = r.period := by
        intro he
        apply hnd.1
        rw [he]
        exact List.mem_map_of_mem hr'
      rw [List.find?_cons_of_neg (by simp [hne])]
      exact ih hnd.2 hr'

theorem update_matches (tl : Nat) (b : Bucket) (r : Rate) (h : Matches tl b r) : b.update r = b := by
  obtain ⟨m1, m2, m3, m4, _⟩ := h
  unfold Bucket.update
  have : ¬ r.period ≠ b.period := by simp [m1]
  simp only [this, if_false]
  have h2 : ¬ b.avail > r.burst := by omega
  simp only [h2, if_false]
  cases b
  simp_all

theorem forall₂_mem_left {α β : Type} (R : α → β → Prop) (l1 : List α) (l2 : List β) (h : List.Forall₂ R l1 l2) :
    ∀ a ∈ l1, ∃ b ∈ l2, R a b := by
  induction h with
  | nil => intro a ha; simp at ha
  | cons hab _ ih =>
    intro a ha
    rcases List.mem_cons.mp ha with rfl | ha
    · exact ⟨_, List.mem_cons_self, hab⟩
    · obtain ⟨b, hb, hr⟩ := ih a ha
      exact ⟨b, List.mem_cons_of_mem _ hb, hr⟩

theorem forall₂_mem_right {α β : Type} (R : α → β → Prop) (l1 : List α) (l2 : List β) (h : List.Forall₂ R l1 l2) :
    ∀ b ∈ l2, ∃ a ∈ l1, R a b := by
  induction h with
  | nil => intro a ha; simp at ha
  | cons hab _ ih =>
    intro b hb
    rcases List.mem_cons.mp hb with rfl | hb
    · exact ⟨_, List.mem_cons_self, hab⟩
    · obtain ⟨a, ha, hr⟩ := ih b hb
      exact ⟨a, List.mem_cons_of_mem _ ha, hr⟩

theorem matches_periods (tl : Nat) (bs : List Bucket) (rates : List Rate) (h : List.Forall₂ (Matches tl) bs rates) :
    bs.map (·.period) = rates.map (·.period) := by
  induction h with
  | nil => rfl
  | cons hab _ ih => simp only [List.map_cons, ih, hab.1]

theorem update_same (tl now : Nat) (s : BucketSet) (rates : List Rate)
    (hm : List.Forall₂ (Matches tl) s.buckets rates) (hnd : (rates.map (·.period)).Nodup)
    (hmp : s.maxPeriod = maxPeriodOf (rates.map (·.period))) :
    s.update rates now = s := by
  have hkept : s.buckets.filterMap (fun b => (lookupRate rates b.period).map (fun r => b.update r)) = s.buckets := by
    have : ∀ b ∈ s.buckets, (lookupRate rates b.period).map (fun r => b.update r) = some b := by
      intro b hb
      obtain ⟨r, hr, hbr⟩ := forall₂_mem_left _ _ _ hm b hb
      rw [hbr.1, lookup_of_mem rates hnd r hr]
      simp [update_matches tl b r hbr]
    rw [List.filterMap_congr this]
    exact List.filterMap_some
  unfold BucketSet.update
  simp only [hkept]
  have hadd : rates.filter (fun r => !(s.buckets.any (fun b => b.period == r.period))) = [] := by
    rw [List.filter_eq_nil_iff]
    intro r hr
    obtain ⟨b, hb, hbr⟩ := forall₂_mem_right _ _ _ hm r hr
    simp only [Bool.not_eq_true', Bool.not_eq_false', List.any_eq_true, beq_iff_eq]
    simp only [Bool.not_eq_eq_eq_not, Bool.not_true, List.any_eq_false, beq_iff_eq, not_forall]
    exact ⟨b, hb, by simp [hbr.1]⟩
  rw [hadd]
  simp only [List.map_nil, List.append_nil]
  rw [matches_periods tl _ _ hm, ← hmp]

/-! ### the refinement -/

/-- invariant of a tracked entry: it holds exactly the reference bucket set, was last used at `tl` -/
def EntryInv (rates : List Rate) (e : Entry BucketSet) (tl : Nat) : Prop :=
  e.val.maxPeriod = maxPeriodOf (rates.map (·.period)) ∧
  e.expiry = expiryAt tl (maxPeriodOf (rates.map (·.period)) / second * 10 + 1) ∧
  List.Forall₂ (Matches tl) e.val.buckets rates

structure GoodRates (rates : List Rate) : Prop where
  valid : ∀ r ∈ rates, r.valid = true
  nodup : (rates.map (·.period)).Nodup
  refill : RefillWithinTTL rates

theorem valid_facts (r : Rate) (h : r.valid = true) : r.period ≠ 0 ∧ 0 < r.average ∧ 0 < r.burst := by
  unfold Rate.valid at h
  simp only [Bool.and_eq_true, decide_eq_true_eq] at h
  omega

theorem mkBucket_matches (r : Rate) (now : Nat) (hp : r.period ≠ 0) : Matches now (mkBucket r now) r := by
  unfold Matches mkBucket
  simp [hp]

theorem new_matches (rates : List Rate) (now : Nat) (hp : ∀ r ∈ rates, r.period ≠ 0) :
    List.Forall₂ (Matches now) (BucketSet.new rates now).buckets rates := by
  unfold BucketSet.new
  simp only
  induction rates with
  | nil => exact List.Forall₂.nil
  | cons r rs ih =>
    exact List.Forall₂.cons (mkBucket_matches r now (hp r List.mem_cons_self))
      (ih (fun r hr => hp r (List.mem_cons_of_mem _ hr)))

/-- one step on a tracked entry that satisfies the invariant -/
theorem serveEntry_some (rates : List Rate) (hg : GoodRates rates) (s : String) (e : Entry BucketSet) (tl t n : Nat)
    (hinv : EntryInv rates e tl) (hle : tl ≤ t) :
    (serveEntry rates (some e) t s n []).2 = Resp.ofSRes (consumeSet e.val.buckets t n).2 ∧
    (serveEntry rates (some e) t s n []).1.val.buckets = (consumeSet e.val.buckets t n).1 ∧
    EntryInv rates (serveEntry rates (some e) t s n []).1 t := by
  obtain ⟨i1, i2, i3⟩ := hinv
  have hvalid : ∀ r ∈ rates, r.period ≠ 0 ∧ 0 < r.burst := fun r hr =>
    ⟨(valid_facts r (hg.valid r hr)).1, (valid_facts r (hg.valid r hr)).2.2⟩
  -- the set `consumeRates` works on behaves like the tracked one and has the same `maxPeriod`
  have hcur : consumeSet (currentOf (some e) t rates).buckets t n = consumeSet e.val.buckets t n ∧
      (currentOf (some e) t rates).maxPeriod = maxPeriodOf (rates.map (·.period)) := by
    unfold currentOf
    simp only
    by_cases hexp : e.expiry ≤ nowSec t
    · simp only [hexp, if_true]
      constructor
      · unfold BucketSet.new
        simp only
        symm
        apply consumeSet_idle_eq_fresh' _ _ tl t n i3 hvalid
        intro r hr
        have hrf := hg.refill r hr
        rw [i2, expiryAt_eq] at hexp
        unfold nowSec at hexp
        unfold second at hexp hrf
        generalize maxPeriodOf (List.map (fun x => x.period) rates) / 1000000000 = k at *
        omega
      · rfl
    · simp only [hexp, if_false]
      rw [update_same tl t e.val rates i3 hg.nodup i1]
      exact ⟨rfl, i1⟩
  unfold serveEntry
  simp only [List.isEmpty_nil, if_true]
  unfold BucketSet.consume
  simp only
  rw [hcur.1]
  refine ⟨rfl, rfl, ?_⟩
  unfold EntryInv
  simp only
  refine ⟨hcur.2, ?_, matches_consumeSet tl t n _ _ i3 hle⟩
  unfold ttlOf
  rw [hcur.2]

theorem entryRun_some (rates : List Rate) (hg : GoodRates rates) (s : String) (ops : List (Nat × Nat)) :
    ∀ (e : Entry BucketSet) (tl : Nat), EntryInv rates e tl → SortedFrom tl (ops.map (·.1)) →
    entryRun rates s (some e) ops = (runSet e.val.buckets ops).map Resp.ofSRes := by
  induction ops with
  | nil => intro _ _ _ _; rfl
  | cons op ops ih =>
    intro e tl hinv hs
    obtain ⟨t, n⟩ := op
    obtain ⟨h1, h2, h3⟩ := serveEntry_some rates hg s e tl t n hinv hs.1
    unfold entryRun runSet
    rw [List.map_cons, h1, ih _ t h3 hs.2, h2]

/-- **refinement**: the decisions computed from an untracked source's own requests are those of a
    bucket set created at its first request and never forgotten -/
theorem entryRun_none (rates : List Rate) (hg : GoodRates rates) (s : String) (ops : List (Nat × Nat))
    (t0 : Nat) (hs : SortedFrom t0 (ops.map (·.1))) :
    entryRun rates s none ops = refRun rates ops := by
  cases ops with
  | nil => rfl
  | cons op ops =>
    obtain ⟨t, n⟩ := op
    have hp : ∀ r ∈ rates, r.period ≠ 0 := fun r hr => (valid_facts r (hg.valid r hr)).1
    have hnew := new_matches rates t hp
    have hinv : EntryInv rates (serveEntry rates none t s n []).1 t := by
      unfold serveEntry currentOf EntryInv
      simp only [List.isEmpty_nil, if_true]
      refine ⟨rfl, rfl, ?_⟩
      unfold BucketSet.consume
      exact matches_consumeSet t t n _ _ hnew (Nat.le_refl _)
    have e1 : (serveEntry rates none t s n []).2 = Resp.ofSRes (consumeSet (BucketSet.new rates t).buckets t n).2 := rfl
    have e2 : (serveEntry rates none t s n []).1.val.buckets = (consumeSet (BucketSet.new rates t).buckets t n).1 := rfl
    show (serveEntry rates none t s n []).2 :: entryRun rates s (some (serveEntry rates none t s n []).1) ops
      = List.map Resp.ofSRes ((consumeSet (BucketSet.new rates t).buckets t n).2 :: runSet (consumeSet (BucketSet.new rates t).buckets t n).1 ops)
    rw [entryRun_some rates hg s ops _ t hinv hs.2, e2, List.map_cons, e1]

end RL
