import OxyModel.Model.RateLimit
import Mathlib.Tactic

/-!
# Token bucket: helper lemmas (refill / consume / rollback / set consume, histories)
-/
namespace RL


theorem tptOf_pos (p a : Nat) : 0 < tptOf p a := by
  unfold tptOf; split <;> omega

/-! ### refill -/

theorem refill_fields (b : Bucket) (now : Nat) :
    (b.refill now).tpt = b.tpt ∧ (b.refill now).burst = b.burst ∧
    (b.refill now).period = b.period ∧ (b.refill now).lastConsumed = b.lastConsumed := by
  unfold Bucket.refill; split
  · exact ⟨rfl, rfl, rfl, rfl⟩
  · simp only; split <;> split <;> exact ⟨rfl, rfl, rfl, rfl⟩

@[simp] theorem refill_tpt (b : Bucket) (now : Nat) : (b.refill now).tpt = b.tpt := (refill_fields b now).1
@[simp] theorem refill_burst (b : Bucket) (now : Nat) : (b.refill now).burst = b.burst := (refill_fields b now).2.1
@[simp] theorem refill_period (b : Bucket) (now : Nat) : (b.refill now).period = b.period := (refill_fields b now).2.2.1
@[simp] theorem refill_lastConsumed (b : Bucket) (now : Nat) :
    (b.refill now).lastConsumed = b.lastConsumed := (refill_fields b now).2.2.2

theorem refill_tpt_zero (b : Bucket) (now : Nat) (h : b.tpt = 0) : b.refill now = b := by
  unfold Bucket.refill; simp [h]

/-- closed form of the refilled amount -/
theorem refill_avail (b : Bucket) (now : Nat) (h : b.tpt ≠ 0) :
    (b.refill now).avail = min (b.avail + (now - b.lr) / b.tpt) b.burst := by
  unfold Bucket.refill
  simp only [h, if_false]
  generalize (now - b.lr) / b.tpt = c
  by_cases hc : c = 0
  · subst hc
    by_cases h2 : b.avail > b.burst
    · simp [h2]; omega
    · simp [h2]; omega
  · have h1 : b.avail + c ≠ b.avail := by omega
    simp only [h1, ne_eq, not_false_eq_true, if_true]
    by_cases h2 : b.avail + c > b.burst
    · simp [h2]; omega
    · simp [h2]; omega

/-- closed form of the refresh stamp -/
theorem refill_lr (b : Bucket) (now : Nat) :
    (b.refill now).lr = if b.tpt = 0 ∨ (now - b.lr) / b.tpt = 0 then b.lr else now := by
  unfold Bucket.refill
  by_cases h : b.tpt = 0
  · simp [h]
  · simp only [h, if_false, false_or]
    generalize (now - b.lr) / b.tpt = c
    by_cases hc : c = 0
    · subst hc
      by_cases h2 : b.avail > b.burst
      · simp [h2]
      · simp [h2]
    · have h1 : b.avail + c ≠ b.avail := by omega
      simp only [h1, ne_eq, not_false_eq_true, if_true, hc, if_false]
      by_cases h2 : b.avail + c > b.burst
      · simp [h2]
      · simp [h2]

theorem Bucket.ext' {a b : Bucket} (h1 : a.period = b.period) (h2 : a.tpt = b.tpt) (h3 : a.burst = b.burst)
    (h4 : a.avail = b.avail) (h5 : a.lr = b.lr) (h6 : a.lastConsumed = b.lastConsumed) : a = b := by
  cases a; cases b; simp_all

theorem refill_spec (b : Bucket) (now : Nat) (h : b.WF now) :
    (b.refill now).tpt = b.tpt ∧ (b.refill now).burst = b.burst ∧
    (b.refill now).period = b.period ∧ (b.refill now).WF now ∧
    b.lr ≤ (b.refill now).lr ∧ now < (b.refill now).lr + b.tpt ∧
    b.tpt * (b.refill now).avail + b.lr ≤ b.tpt * b.avail + (b.refill now).lr := by
  obtain ⟨htpt, hav, hlr⟩ := h
  have hdiv : b.tpt * ((now - b.lr) / b.tpt) ≤ now - b.lr := Nat.mul_div_le _ _
  have hlt : now - b.lr < b.tpt * ((now - b.lr) / b.tpt) + b.tpt := by
    have := Nat.lt_mul_div_succ (now - b.lr) htpt
    rw [Nat.mul_add] at this; simpa using this
  have hne : b.tpt ≠ 0 := by omega
  generalize hc : (now - b.lr) / b.tpt = c at *
  unfold Bucket.refill Bucket.WF
  simp only [hne, if_false, hc]
  by_cases hc0 : c = 0
  · subst hc0
    have h2 : ¬ (b.avail > b.burst) := by omega
    simp [h2]
    omega
  · have h1 : b.avail + c ≠ b.avail := by omega
    simp only [h1, ne_eq, not_false_eq_true, if_true]
    by_cases h2 : b.avail + c > b.burst
    · simp only [h2, if_true]
      have : b.tpt * b.burst ≤ b.tpt * (b.avail + c) := Nat.mul_le_mul_left _ (by omega)
      rw [Nat.mul_add] at this
      refine ⟨trivial, trivial, trivial, ⟨htpt, Nat.le_refl _, Nat.le_refl _⟩, hlr, by omega, by omega⟩
    · simp only [h2, if_false]
      rw [Nat.mul_add]
      refine ⟨trivial, trivial, trivial, ⟨htpt, by omega, Nat.le_refl _⟩, hlr, by omega, by omega⟩

/-- a refill never takes tokens away and never overfills -/
theorem refill_mono (b : Bucket) (now : Nat) (hav : b.avail ≤ b.burst) :
    b.avail ≤ (b.refill now).avail ∧ (b.refill now).avail ≤ b.burst := by
  by_cases h : b.tpt = 0
  · rw [refill_tpt_zero b now h]; exact ⟨Nat.le_refl _, hav⟩
  · rw [refill_avail b now h]; generalize (now - b.lr) / b.tpt = c; omega

/-- a refill is idempotent -/
theorem refill_idem (b : Bucket) (now : Nat) : (b.refill now).refill now = b.refill now := by
  by_cases h : b.tpt = 0
  · rw [refill_tpt_zero b now h, refill_tpt_zero b now h]
  · have hpos : 0 < b.tpt := by omega
    have hz : (now - (b.refill now).lr) / b.tpt = 0 := by
      rw [refill_lr]; simp only [h, false_or]
      split
      · assumption
      · simp
    refine Bucket.ext' (by simp) (by simp) (by simp) ?_ ?_ (by simp)
    · rw [refill_avail _ now (by simpa using h)]
      simp only [refill_tpt, refill_burst, hz]
      rw [refill_avail b now h]; generalize (now - b.lr) / b.tpt = c; omega
    · rw [refill_lr (b.refill now)]
      simp only [refill_tpt, h, false_or, hz, if_true]

theorem refill_set_lastConsumed (b : Bucket) (now x : Nat) :
    ({ b with lastConsumed := x } : Bucket).refill now = { b.refill now with lastConsumed := x } := by
  unfold Bucket.refill
  simp only
  split_ifs <;> rfl

/-! ### one step of a history, seen from outside -/

/-- one operation on a bucket as seen from outside: refill at `now`, then `d` tokens leave -/
structure Step (b : Bucket) (now d : Nat) (b' : Bucket) : Prop where
  tpt_eq : b'.tpt = b.tpt
  burst_eq : b'.burst = b.burst
  lr_eq : b'.lr = (b.refill now).lr
  avail_eq : b'.avail + d = (b.refill now).avail

theorem step_spec {b b' : Bucket} {now d : Nat} (h : b.WF now) (s : Step b now d b') :
    b'.WF now ∧ b.lr ≤ b'.lr ∧ now < b'.lr + b.tpt ∧ b'.avail + d ≤ b.burst ∧
    b.tpt * (b'.avail + d) + b.lr ≤ b.tpt * b.avail + b'.lr := by
  obtain ⟨r1, r2, _, ⟨w1, w2, w3⟩, r4, r5, r6⟩ := refill_spec b now h
  obtain ⟨s1, s2, s3, s4⟩ := s
  refine ⟨⟨by rw [s1]; exact h.1, by rw [s2, ← r2]; omega, by rw [s3]; exact w3⟩,
    by rw [s3]; exact r4, by rw [s3]; exact r5, by rw [s4, ← r2]; exact w2, by rw [s3, s4]; exact r6⟩

/-- a history of operations on one bucket: times, tokens that left -/
inductive Steps : Bucket → List Nat → List Nat → Bucket → Prop where
  | nil (b) : Steps b [] [] b
  | cons {b b1 b2 : Bucket} {t d : Nat} {ts ds} :
      Step b t d b1 → Steps b1 ts ds b2 → Steps b (t :: ts) (d :: ds) b2

theorem Steps.length_eq {b b' : Bucket} {ts ds : List Nat} (h : Steps b ts ds b') : ts.length = ds.length := by
  induction h with
  | nil => rfl
  | cons _ _ ih => simp [ih]

theorem Steps.consts {b b' : Bucket} {ts ds : List Nat} (h : Steps b ts ds b') :
    b'.tpt = b.tpt ∧ b'.burst = b.burst := by
  induction h with
  | nil => exact ⟨rfl, rfl⟩
  | cons s _ ih => exact ⟨ih.1.trans s.tpt_eq, ih.2.trans s.burst_eq⟩

theorem sortedFrom_getD_ge : ∀ (ts : List Nat) (t0 j : Nat), SortedFrom t0 ts → j < ts.length → t0 ≤ ts.getD j 0 := by
  intro ts
  induction ts with
  | nil => intro t0 j _ hj; simp at hj
  | cons t ts ih =>
    intro t0 j hs hj
    cases j with
    | zero => simpa using hs.1
    | succ j =>
      have := ih t j hs.2 (by simpa using hj)
      simp only [List.getD_cons_succ]
      exact le_trans hs.1 this

theorem sortedFrom_weaken {t0 t1 : Nat} (h : t0 ≤ t1) : ∀ (ts : List Nat), SortedFrom t1 ts → SortedFrom t0 ts
  | [], _ => trivial
  | _ :: _, hs => ⟨le_trans h hs.1, hs.2⟩

/-- the potential `tpt·avail − lr` pays for everything that leaves -/
theorem steps_potential {b b' : Bucket} {ts ds : List Nat} (hs : Steps b ts ds b') :
    ∀ (t0 j : Nat), b.WF t0 → SortedFrom t0 ts → j < ts.length →
    b.tpt * (ds.take (j + 1)).sum + b.lr ≤ b.tpt * b.avail + ts.getD j 0 := by
  induction hs with
  | nil => intro t0 j _ _ hj; simp at hj
  | @cons b b1 b2 t d ts ds s1 _ ih =>
    intro t0 j h hsort hj
    have hwf : b.WF t := ⟨h.1, h.2.1, le_trans h.2.2 hsort.1⟩
    obtain ⟨w1, _, _, _, p1⟩ := step_spec hwf s1
    have e0 : b.tpt * (b1.avail + d) = b.tpt * b1.avail + b.tpt * d := by ring
    cases j with
    | zero =>
      have := w1.2.2
      simp only [Nat.zero_add, List.take_succ_cons, List.take_zero, List.sum_cons, List.sum_nil,
        Nat.add_zero, List.getD_cons_zero]
      omega
    | succ j =>
      have p2 := ih t j w1 hsort.2 (by simpa using hj)
      rw [s1.tpt_eq] at p2
      simp only [List.take_succ_cons, List.sum_cons, List.getD_cons_succ]
      have e1 : b.tpt * (d + (List.take (j + 1) ds).sum) = b.tpt * d + b.tpt * (List.take (j + 1) ds).sum := by ring
      omega

theorem windowSum_zero (xs : List Nat) (j : Nat) : windowSum xs 0 j = (xs.take (j + 1)).sum := by
  simp [windowSum]

theorem windowSum_cons_succ (x : Nat) (xs : List Nat) (i j : Nat) :
    windowSum (x :: xs) (i + 1) (j + 1) = windowSum xs i j := by
  simp only [windowSum, List.drop_succ_cons]
  congr 2; omega

theorem div_bound {tpt T burst D : Nat} (htpt : 0 < tpt) (hm : tpt * T < tpt * (burst + 1) + D) :
    T ≤ burst + D / tpt + 1 := by
  by_contra hcon
  simp only [not_le] at hcon
  have h1 : burst + D / tpt + 2 ≤ T := by omega
  have h2 : tpt * (burst + D / tpt + 2) ≤ tpt * T := Nat.mul_le_mul_left _ h1
  have h3 : D < tpt * (D / tpt) + tpt := by
    have := Nat.lt_mul_div_succ D htpt
    rw [Nat.mul_add] at this; simpa using this
  have e : tpt * (burst + D / tpt + 2) = tpt * (burst + 1) + tpt * (D / tpt) + tpt := by ring
  omega

/-- **C03 (core)**: over the first `j+1` operations of a history
    `tpt · total < tpt · (burst + 1) + (t_j − t_0)`. -/
theorem window_bound_mul {b b' : Bucket} {ts ds : List Nat} (hs : Steps b ts ds b') (t0 j : Nat)
    (h : b.WF t0) (hsort : SortedFrom t0 ts) (hj : j < ts.length) :
    b.tpt * (ds.take (j + 1)).sum < b.tpt * (b.burst + 1) + (ts.getD j 0 - ts.getD 0 0) := by
  cases hs with
  | nil => simp at hj
  | @cons _ b1 _ t1 d1 ts ds s1 srest =>
    have hwf : b.WF t1 := ⟨h.1, h.2.1, le_trans h.2.2 hsort.1⟩
    obtain ⟨w1, _, f1, c1, _⟩ := step_spec hwf s1
    have e3 : b.tpt * (b.burst + 1) = b.tpt * b.burst + b.tpt := by ring
    have htpt : 0 < b.tpt := h.1
    have e4 : b.tpt * (b1.avail + d1) ≤ b.tpt * b.burst := Nat.mul_le_mul_left _ c1
    have e5 : b.tpt * (b1.avail + d1) = b.tpt * b1.avail + b.tpt * d1 := by ring
    cases j with
    | zero =>
      simp only [Nat.zero_add, List.take_succ_cons, List.take_zero, List.sum_cons, List.sum_nil,
        Nat.add_zero, List.getD_cons_zero]
      omega
    | succ j =>
      have hj' : j < ts.length := by simpa using hj
      have p2 := steps_potential srest t1 j w1 hsort.2 hj'
      rw [s1.tpt_eq] at p2
      have hge := sortedFrom_getD_ge ts t1 j hsort.2 hj'
      simp only [List.take_succ_cons, List.sum_cons, List.getD_cons_succ, List.getD_cons_zero]
      have e2 : b.tpt * (d1 + (List.take (j + 1) ds).sum) = b.tpt * d1 + b.tpt * (List.take (j + 1) ds).sum := by ring
      omega

/-- the window bound for an arbitrary stretch `i..j` of a history -/
theorem steps_window {b b' : Bucket} {ts ds : List Nat} (hs : Steps b ts ds b') :
    ∀ (t0 i j : Nat), b.WF t0 → SortedFrom t0 ts → i ≤ j → j < ts.length →
    windowSum ds i j ≤ b.burst + (ts.getD j 0 - ts.getD i 0) / b.tpt + 1 := by
  induction hs with
  | nil => intro t0 i j _ _ _ hj; simp at hj
  | @cons b b1 b2 t d ts ds s1 srest ih =>
    intro t0 i j h hsort hij hj
    cases i with
    | zero =>
      rw [windowSum_zero]
      exact div_bound h.1 (window_bound_mul (Steps.cons s1 srest) t0 j h hsort hj)
    | succ i =>
      cases j with
      | zero => omega
      | succ j =>
        have hwf : b.WF t := ⟨h.1, h.2.1, le_trans h.2.2 hsort.1⟩
        obtain ⟨w1, _⟩ := step_spec hwf s1
        have := ih t i j w1 hsort.2 (by omega) (by simpa using hj)
        rw [s1.tpt_eq, s1.burst_eq] at this
        simpa only [windowSum_cons_succ, List.getD_cons_succ] using this

/-! ### consume / rollback -/

/-- outcome of `consume` in terms of the refilled bucket -/
theorem consume_spec (b : Bucket) (now n : Nat) :
    (b.consume now n).1.tpt = b.tpt ∧ (b.consume now n).1.burst = b.burst ∧
    (b.consume now n).1.period = b.period ∧ (b.consume now n).1.lr = (b.refill now).lr ∧
    ((b.consume now n).2 = .ok → (b.consume now n).1.avail + n = (b.refill now).avail ∧
        (b.consume now n).1.lastConsumed = n ∧ n ≤ b.burst) ∧
    ((b.consume now n).2 ≠ .ok → (b.consume now n).1.avail = (b.refill now).avail ∧
        (b.consume now n).1.lastConsumed = 0) ∧
    (∀ d, (b.consume now n).2 = .delay d →
        d = (n - (b.refill now).avail) * b.tpt ∧ (b.refill now).avail < n ∧ n ≤ b.burst) ∧
    ((b.consume now n).2 = .err → b.burst < n) := by
  simp only [Bucket.consume, refill_burst, refill_tpt]
  by_cases h1 : n > b.burst
  · simp [h1]
  · by_cases h2 : (b.refill now).avail < n
    · simp [h1, h2]; omega
    · simp [h1, h2]; omega

/-- the three outcomes of `consume`, characterised -/
theorem consume_err_iff (b : Bucket) (now n : Nat) : (b.consume now n).2 = .err ↔ b.burst < n := by
  simp only [Bucket.consume, refill_burst]
  split_ifs <;> simp <;> omega

theorem consume_ok_iff (b : Bucket) (now n : Nat) :
    (b.consume now n).2 = .ok ↔ n ≤ b.burst ∧ n ≤ (b.refill now).avail := by
  simp only [Bucket.consume, refill_burst]
  split_ifs <;> simp <;> omega

theorem consume_delay_iff (b : Bucket) (now n d : Nat) :
    (b.consume now n).2 = .delay d ↔
      n ≤ b.burst ∧ (b.refill now).avail < n ∧ d = (n - (b.refill now).avail) * b.tpt := by
  simp only [Bucket.consume, refill_burst, refill_tpt]
  split_ifs <;> simp <;> omega

/-- `rollback ∘ consume` is a bare refill (with the `lastConsumed` scratch field cleared) -/
theorem rollback_consume (b : Bucket) (now n : Nat) :
    (b.consume now n).1.rollback = { b.refill now with lastConsumed := 0 } := by
  simp only [Bucket.consume, Bucket.rollback]
  split_ifs with h1 h2
  · simp
  · simp
  · have : (b.refill now).avail - n + n = (b.refill now).avail := by omega
    simp [this]

theorem rollback_consume_avail (b : Bucket) (now n : Nat) :
    ((b.consume now n).1.rollback).avail = (b.refill now).avail := by
  rw [rollback_consume]

/-- an amount-0 request ("touch") is admitted and is a bare refill -/
theorem consume_zero (b : Bucket) (now : Nat) :
    b.consume now 0 = ({ b.refill now with lastConsumed := 0 }, .ok) := by
  simp [Bucket.consume]

/-- `consume` does not read the `lastConsumed` scratch field -/
theorem consume_set_lastConsumed (b : Bucket) (now n x : Nat) :
    ({ b with lastConsumed := x } : Bucket).consume now n = b.consume now n := by
  simp only [Bucket.consume, refill_set_lastConsumed]

theorem consume_step (b : Bucket) (now n : Nat) :
    Step b now (if (b.consume now n).2 = .ok then n else 0) (b.consume now n).1 := by
  obtain ⟨h1, h2, _, h4, h5, h6, _, _⟩ := consume_spec b now n
  by_cases h : (b.consume now n).2 = .ok
  · rw [if_pos h]; exact ⟨h1, h2, h4, (h5 h).1⟩
  · rw [if_neg h]; exact ⟨h1, h2, h4, by rw [(h6 h).1]; rfl⟩

theorem rollback_consume_step (b : Bucket) (now n : Nat) :
    Step b now 0 (b.consume now n).1.rollback := by
  rw [rollback_consume]
  exact ⟨by simp, by simp, rfl, rfl⟩

/-- nothing for a refill at `t` to do -/
def Bucket.Settled (b : Bucket) (t : Nat) : Prop :=
  b.tpt = 0 ∨ ((t - b.lr) / b.tpt = 0 ∧ b.avail ≤ b.burst)

theorem refill_of_settled {b : Bucket} {t : Nat} (h : b.Settled t) : b.refill t = b := by
  rcases h with h | ⟨h1, h2⟩
  · exact refill_tpt_zero b t h
  · by_cases h0 : b.tpt = 0
    · exact refill_tpt_zero b t h0
    · refine Bucket.ext' (by simp) (by simp) (by simp) ?_ ?_ (by simp)
      · rw [refill_avail b t h0, h1]; omega
      · rw [refill_lr, h1]; simp

theorem settled_refill (b : Bucket) (t : Nat) : (b.refill t).Settled t := by
  by_cases h0 : b.tpt = 0
  · exact Or.inl (by simpa using h0)
  · right
    have hpos : 0 < b.tpt := by omega
    constructor
    · rw [refill_lr]; simp only [h0, false_or, refill_tpt]
      split
      · assumption
      · simp
    · rw [refill_avail b t h0, refill_burst]; omega

theorem settled_of_le {b b' : Bucket} {t : Nat} (h : b.Settled t) (h1 : b'.tpt = b.tpt) (h2 : b'.burst = b.burst)
    (h3 : b'.lr = b.lr) (h4 : b'.avail ≤ b.avail) : b'.Settled t := by
  unfold Bucket.Settled at *
  rw [h1, h2, h3]
  rcases h with h | ⟨ha, hb⟩
  · exact Or.inl h
  · exact Or.inr ⟨ha, le_trans h4 hb⟩

theorem settled_consume (b : Bucket) (now n : Nat) :
    (b.consume now n).1.Settled now ∧ (b.consume now n).1.rollback.Settled now := by
  constructor
  · obtain ⟨h1, h2, _, h4, h5, h6, _, _⟩ := consume_spec b now n
    refine settled_of_le (settled_refill b now) (by simpa using h1) (by simpa using h2) h4 ?_
    by_cases h : (b.consume now n).2 = .ok
    · have := (h5 h).1; omega
    · rw [(h6 h).1]
  · rw [rollback_consume]
    exact settled_of_le (settled_refill b now) rfl rfl rfl (Nat.le_refl _)

/-- after a `consume` (rolled back or not) a further refill at the same instant is a no-op -/
theorem refill_consume (b : Bucket) (now n : Nat) :
    (b.consume now n).1.refill now = (b.consume now n).1 ∧
    (b.consume now n).1.rollback.refill now = (b.consume now n).1.rollback :=
  ⟨refill_of_settled (settled_consume b now n).1, refill_of_settled (settled_consume b now n).2⟩

/-! ### the set -/

theorem anyErr_false_iff (rs : List BRes) : anyErr rs = false ↔ ∀ r ∈ rs, r ≠ .err := by
  induction rs with
  | nil => simp [anyErr]
  | cons r rs ih =>
    cases r <;> simp [anyErr, ih]

theorem anyErr_true_iff (rs : List BRes) : anyErr rs = true ↔ BRes.err ∈ rs := by
  induction rs with
  | nil => simp [anyErr]
  | cons r rs ih =>
    cases r <;> simp [anyErr, ih]

theorem maxDelay_zero_iff (rs : List BRes) : maxDelay rs = 0 ↔ ∀ d, BRes.delay d ∈ rs → d = 0 := by
  induction rs with
  | nil => simp [maxDelay]
  | cons r rs ih =>
    cases r with
    | ok => simp [maxDelay, ih]
    | err => simp [maxDelay, ih]
    | delay d =>
      simp only [maxDelay, List.mem_cons, BRes.delay.injEq]
      constructor
      · intro h d' hd'
        have h1 : d = 0 := by omega
        have h2 : maxDelay rs = 0 := by omega
        rcases hd' with rfl | hd'
        · exact h1
        · exact (ih.mp h2) d' hd'
      · intro h
        have h1 : d = 0 := h d (Or.inl rfl)
        have h2 : maxDelay rs = 0 := ih.mpr (fun d' hd' => h d' (Or.inr hd'))
        omega

theorem maxDelay_ge (rs : List BRes) (d : Nat) (h : BRes.delay d ∈ rs) : d ≤ maxDelay rs := by
  induction rs with
  | nil => simp at h
  | cons r rs ih =>
    rcases List.mem_cons.mp h with rfl | h'
    · simp only [maxDelay]; omega
    · have := ih h'
      cases r <;> simp only [maxDelay] <;> omega

theorem maxDelay_mem (rs : List BRes) (h : 0 < maxDelay rs) : BRes.delay (maxDelay rs) ∈ rs := by
  induction rs with
  | nil => simp [maxDelay] at h
  | cons r rs ih =>
    cases r with
    | ok => simp only [maxDelay] at h ⊢; exact List.mem_cons_of_mem _ (ih h)
    | err => simp only [maxDelay] at h ⊢; exact List.mem_cons_of_mem _ (ih h)
    | delay d =>
      simp only [maxDelay] at h ⊢
      by_cases hd : maxDelay rs ≤ d
      · rw [Nat.max_eq_left hd]; exact List.mem_cons_self
      · have h2 : d ≤ maxDelay rs := by omega
        rw [Nat.max_eq_right h2]
        exact List.mem_cons_of_mem _ (ih (by omega))

/-- `consumeSet` with the intermediate lists fused -/
theorem consumeSet_eq (bs : List Bucket) (now n : Nat) :
    consumeSet bs now n =
      if anyErr (bs.map fun b => (b.consume now n).2) then
        (bs.map fun b => (b.consume now n).1.rollback, .err)
      else if maxDelay (bs.map fun b => (b.consume now n).2) > 0 then
        (bs.map fun b => (b.consume now n).1.rollback, .delay (maxDelay (bs.map fun b => (b.consume now n).2)))
      else (bs.map fun b => (b.consume now n).1, .ok) := by
  unfold consumeSet
  simp only [List.map_map]
  rfl

theorem consumeSet_congr {bs bs' : List Bucket} {now n : Nat}
    (h : bs.map (fun b => b.consume now n) = bs'.map (fun b => b.consume now n)) :
    consumeSet bs now n = consumeSet bs' now n := by
  unfold consumeSet; rw [h]

theorem consumeSet_err_iff (bs : List Bucket) (now n : Nat) :
    (consumeSet bs now n).2 = .err ↔ ∃ b ∈ bs, b.burst < n := by
  rw [consumeSet_eq]
  have key : anyErr (bs.map fun b => (b.consume now n).2) = true ↔ ∃ b ∈ bs, b.burst < n := by
    rw [anyErr_true_iff]
    simp only [List.mem_map, consume_err_iff]
  split_ifs with h1 h2
  · simpa using key.mp h1
  · simpa using fun b hb => Nat.le_of_not_lt (fun hlt => h1 (key.mpr ⟨b, hb, hlt⟩))
  · simpa using fun b hb => Nat.le_of_not_lt (fun hlt => h1 (key.mpr ⟨b, hb, hlt⟩))

theorem consumeSet_fst_of_not_ok (bs : List Bucket) (now n : Nat) (h : (consumeSet bs now n).2 ≠ .ok) :
    (consumeSet bs now n).1 = bs.map (fun b => { b.refill now with lastConsumed := 0 }) := by
  rw [consumeSet_eq] at h ⊢
  simp only [rollback_consume] at h ⊢
  split_ifs at h ⊢ with h1 h2
  · rfl
  · rfl
  · exact absurd rfl h

theorem consumeSet_fst_of_ok (bs : List Bucket) (now n : Nat) (h : (consumeSet bs now n).2 = .ok) :
    (consumeSet bs now n).1 = bs.map (fun b => (b.consume now n).1) := by
  rw [consumeSet_eq] at h ⊢
  split_ifs at h ⊢ with h1 h2
  rfl

/-- all buckets agreed (a `delay 0` answer, possible only with `tpt = 0`, counts as agreement) -/
theorem consumeSet_ok_of_all (bs : List Bucket) (now n : Nat) (h : ∀ b ∈ bs, (b.consume now n).2 = .ok) :
    (consumeSet bs now n).2 = .ok := by
  rw [consumeSet_eq]
  have h1 : anyErr (bs.map fun b => (b.consume now n).2) = false := by
    rw [anyErr_false_iff]; intro r hr
    obtain ⟨b, hb, rfl⟩ := List.mem_map.mp hr
    rw [h b hb]; simp
  have h2 : maxDelay (bs.map fun b => (b.consume now n).2) = 0 := by
    rw [maxDelay_zero_iff]; intro d hd
    obtain ⟨b, hb, he⟩ := List.mem_map.mp hd
    rw [h b hb] at he; simp at he
  simp [h1, h2]

theorem consumeSet_all_of_ok (bs : List Bucket) (now n : Nat) (htpt : ∀ b ∈ bs, 0 < b.tpt)
    (h : (consumeSet bs now n).2 = .ok) : ∀ b ∈ bs, (b.consume now n).2 = .ok := by
  rw [consumeSet_eq] at h
  split_ifs at h with h1 h2
  intro b hb
  have hmem : (b.consume now n).2 ∈ bs.map (fun b => (b.consume now n).2) := List.mem_map.mpr ⟨b, hb, rfl⟩
  have hne : (b.consume now n).2 ≠ .err := (anyErr_false_iff _).mp (by simpa using h1) _ hmem
  cases hres : (b.consume now n).2 with
  | ok => rfl
  | err => exact absurd hres hne
  | delay d =>
    exfalso
    rw [hres] at hmem
    have hd0 := (maxDelay_zero_iff _).mp (by omega) d hmem
    obtain ⟨_, hlt, hd⟩ := (consume_delay_iff b now n d).mp hres
    have : 0 < (n - (b.refill now).avail) * b.tpt := Nat.mul_pos (by omega) (htpt b hb)
    omega

/-- a `delay d` verdict: nobody errs, `d > 0` is the largest per-bucket delay and some bucket asks for it -/
theorem consumeSet_delay (bs : List Bucket) (now n d : Nat) (h : (consumeSet bs now n).2 = .delay d) :
    0 < d ∧ (∀ b ∈ bs, n ≤ b.burst) ∧
    (∀ b ∈ bs, ∀ d', (b.consume now n).2 = .delay d' → d' ≤ d) ∧
    ∃ b ∈ bs, (b.consume now n).2 = .delay d := by
  rw [consumeSet_eq] at h
  split_ifs at h with h1 h2
  simp only [SRes.delay.injEq] at h
  subst h
  refine ⟨h2, ?_, ?_, ?_⟩
  · intro b hb
    have := (anyErr_false_iff _).mp (by simpa using h1) _ (List.mem_map.mpr ⟨b, hb, rfl⟩)
    rw [Ne, consume_err_iff] at this; omega
  · intro b hb d' hd'
    exact maxDelay_ge _ d' (List.mem_map.mpr ⟨b, hb, hd'⟩)
  · obtain ⟨b, hb, he⟩ := List.mem_map.mp (maxDelay_mem _ h2)
    exact ⟨b, hb, he⟩

theorem consumeSet_length (bs : List Bucket) (now n : Nat) :
    (consumeSet bs now n).1.length = bs.length := by
  rw [consumeSet_eq]
  split_ifs <;> simp

/-- **C13 (core)**: whatever the outcome, every bucket of the set is afterwards the refilled
    bucket minus the request, and minus nothing at all unless the whole set agreed. -/
theorem consumeSet_bucket (bs : List Bucket) (now n : Nat) (k : Nat) (hk : k < bs.length)
    (htpt : ∀ b ∈ bs, 0 < b.tpt) :
    ∃ b', (consumeSet bs now n).1[k]? = some b' ∧
      Step bs[k] now (if (consumeSet bs now n).2 = .ok then n else 0) b' := by
  by_cases hok : (consumeSet bs now n).2 = .ok
  · rw [consumeSet_fst_of_ok bs now n hok, if_pos hok]
    refine ⟨(bs[k].consume now n).1, by simp [hk], ?_⟩
    have := consume_step bs[k] now n
    rwa [if_pos (consumeSet_all_of_ok bs now n htpt hok _ (List.getElem_mem hk))] at this
  · rw [consumeSet_fst_of_not_ok bs now n hok, if_neg hok]
    refine ⟨{ bs[k].refill now with lastConsumed := 0 }, by simp [hk], ?_⟩
    exact ⟨by simp, by simp, rfl, rfl⟩

end RL
