import OxyModel.Model.RateLimit
import OxyModel.Proofs.RateLimit.TTL

/-! `Limiter.serve` seen from one source: response and new entry depend only on that source's tracked
entry; entries of other sources are untouched unless they are the eviction victim. -/
namespace RL
open TTL

/-- the bucket set `consumeRates` works on, as a function of the source's tracked entry -/
def currentOf (e : Option (Entry BucketSet)) (now : Nat) (rates : List Rate) : BucketSet :=
  match e with
  | none => BucketSet.new rates now
  | some e => if e.expiry ≤ nowSec now then BucketSet.new rates now else e.val.update rates now

/-- `serve` as a function of the source's tracked entry: the new entry and the response -/
def serveEntry (defaults : List Rate) (e : Option (Entry BucketSet)) (now : Nat) (src : String) (amount : Nat)
    (reqRates : List Rate) : Entry BucketSet × Resp :=
  (⟨src, ((currentOf e now (if reqRates.isEmpty then defaults else reqRates)).consume now amount).1,
      expiryAt now (ttlOf (currentOf e now (if reqRates.isEmpty then defaults else reqRates)))⟩,
    Resp.ofSRes ((currentOf e now (if reqRates.isEmpty then defaults else reqRates)).consume now amount).2)

theorem current_eq (l : Limiter) (now : Nat) (src : String) (rates : List Rate) :
    l.current now src rates = currentOf (l.sets.find? src) now rates := by
  unfold Limiter.current currentOf
  rw [get_result]
  cases l.sets.find? src with
  | none => rfl
  | some e =>
    simp only
    by_cases h : e.expiry ≤ nowSec now
    · simp [h]
    · simp [h]

theorem serve_resp (l : Limiter) (now : Nat) (src : String) (amount : Nat) (rr : List Rate) (victim : String) :
    (l.serve now src amount rr victim).2 = (serveEntry l.defaults (l.sets.find? src) now src amount rr).2 := by
  unfold Limiter.serve serveEntry Limiter.resolve
  simp only [current_eq]

theorem serve_defaults (l : Limiter) (now : Nat) (src : String) (amount : Nat) (rr : List Rate) (victim : String) :
    (l.serve now src amount rr victim).1.defaults = l.defaults := rfl

theorem serve_find_self (l : Limiter) (now : Nat) (src : String) (amount : Nat) (rr : List Rate) (victim : String) :
    (l.serve now src amount rr victim).1.sets.find? src
      = some (serveEntry l.defaults (l.sets.find? src) now src amount rr).1 := by
  unfold Limiter.serve serveEntry Limiter.resolve
  simp only [current_eq]
  exact set_find?_self _ _ _ _ _ _

theorem serve_find_other (l : Limiter) (now : Nat) (src s : String) (amount : Nat) (rr : List Rate) (victim : String)
    (hs : s ≠ src) (hv : l.evictsAt now src = true → victim ≠ s) :
    (l.serve now src amount rr victim).1.sets.find? s = l.sets.find? s := by
  unfold Limiter.serve
  simp only
  rw [set_find?_other _ _ _ _ _ _ _ hs hv, get_find?_other _ _ _ _ hs]

theorem serve_capacity (l : Limiter) (now : Nat) (src : String) (amount : Nat) (rr : List Rate) (victim : String) :
    (l.serve now src amount rr victim).1.sets.capacity = l.sets.capacity := by
  unfold Limiter.serve
  simp only
  rw [set_capacity, get_capacity]

theorem serve_keys_subset (l : Limiter) (now : Nat) (src : String) (amount : Nat) (rr : List Rate) (victim : String) :
    (l.serve now src amount rr victim).1.sets.keys ⊆ src :: l.sets.keys := by
  unfold Limiter.serve
  simp only
  intro x hx
  have := set_keys_subset _ _ _ _ _ _ hx
  rcases List.mem_cons.mp this with h | h
  · exact List.mem_cons.mpr (Or.inl h)
  · exact List.mem_cons_of_mem _ (get_keys_subset _ _ _ h)

theorem serve_keys_nodup (l : Limiter) (now : Nat) (src : String) (amount : Nat) (rr : List Rate) (victim : String)
    (h : l.sets.keys.Nodup) : (l.serve now src amount rr victim).1.sets.keys.Nodup := by
  unfold Limiter.serve
  simp only
  exact set_keys_nodup _ _ _ _ _ _ (get_keys_nodup _ _ _ h)

/-! ### the per-source run -/

/-- responses to a history of `(time, amount)` requests of one source, computed on its entry alone -/
def entryRun (defaults : List Rate) (s : String) : Option (Entry BucketSet) → List (Nat × Nat) → List Resp
  | _, [] => []
  | e, (t, n) :: ops =>
    (serveEntry defaults e t s n []).2 :: entryRun defaults s (some (serveEntry defaults e t s n []).1) ops

/-- **non-interference, general form**: as long as `s` is never the eviction victim, the decisions
    taken for `s` in an interleaved history are those computed from its own entry and its own requests -/
theorem decisions_eq_entryRun (s : String) (reqs : List Req) : ∀ (l : Limiter), l.spares s reqs →
    l.decisionsFor s reqs = entryRun l.defaults s (l.sets.find? s) (opsOf s reqs) := by
  induction reqs with
  | nil => intro l _; rfl
  | cons r rs ih =>
    intro l hsp
    obtain ⟨h1, h2⟩ := hsp
    by_cases hr : r.src = s
    · have hops : opsOf s (r :: rs) = (r.t, r.amount) :: opsOf s rs := by
        unfold opsOf; simp [hr]
      rw [hops]
      unfold Limiter.decisionsFor
      rw [if_pos hr]
      unfold entryRun
      rw [ih _ h2, serve_defaults, serve_resp]
      subst hr
      rw [serve_find_self]
    · have hops : opsOf s (r :: rs) = opsOf s rs := by
        unfold opsOf; simp [hr]
      rw [hops]
      unfold Limiter.decisionsFor
      rw [if_neg hr, ih _ h2, serve_defaults,
        serve_find_other l r.t r.src s r.amount [] r.victim (fun h => hr h.symm) (h1 hr)]

theorem spares_of_noEvict (s : String) (reqs : List Req) : ∀ (l : Limiter), l.noEvict reqs → l.spares s reqs := by
  induction reqs with
  | nil => intro _ _; trivial
  | cons r rs ih =>
    intro l h
    exact ⟨fun _ he => by rw [h.1] at he; exact absurd he (by simp), ih _ h.2⟩

theorem spares_of_own (s : String) (reqs : List Req) (hall : ∀ r ∈ reqs, r.src = s) :
    ∀ (l : Limiter), l.spares s reqs := by
  induction reqs with
  | nil => intro _; trivial
  | cons r rs ih =>
    intro l
    exact ⟨fun h => absurd (hall r List.mem_cons_self) h, ih (fun r' hr' => hall r' (List.mem_cons_of_mem _ hr')) _⟩

theorem decisionsFor_own (s : String) (reqs : List Req) (hall : ∀ r ∈ reqs, r.src = s) :
    ∀ (l : Limiter), l.decisionsFor s reqs = l.run reqs := by
  induction reqs with
  | nil => intro _; rfl
  | cons r rs ih =>
    intro l
    unfold Limiter.decisionsFor Limiter.run
    rw [if_pos (hall r List.mem_cons_self), ih (fun r' hr' => hall r' (List.mem_cons_of_mem _ hr'))]

theorem opsOf_filter (s : String) (reqs : List Req) :
    opsOf s (reqs.filter (fun r => r.src = s)) = opsOf s reqs := by
  unfold opsOf
  rw [List.filter_filter]
  simp

/-- the run of a source on its own -/
theorem run_own_eq_entryRun (s : String) (reqs : List Req) (l : Limiter) :
    l.run (reqs.filter (fun r => r.src = s)) = entryRun l.defaults s (l.sets.find? s) (opsOf s reqs) := by
  have hall : ∀ r ∈ reqs.filter (fun r => r.src = s), r.src = s := by
    intro r hr
    simpa using (List.mem_filter.mp hr).2
  rw [← decisionsFor_own s _ hall l, decisions_eq_entryRun s _ l (spares_of_own s _ hall l), opsOf_filter]

/-- within capacity nothing is ever evicted -/
theorem noEvict_of_capacity (S : List String) (reqs : List Req) : ∀ (l : Limiter),
    l.sets.keys.Nodup → l.sets.keys ⊆ S → (∀ r ∈ reqs, r.src ∈ S) → S.dedup.length ≤ l.sets.capacity →
    l.noEvict reqs := by
  induction reqs with
  | nil => intro _ _ _ _ _; trivial
  | cons r rs ih =>
    intro l hnd hsub hS hcap
    have hr : r.src ∈ S := hS r List.mem_cons_self
    refine ⟨?_, ?_⟩
    · unfold Limiter.evictsAt Map.evicts
      cases hf : ((l.sets.get r.src r.t).1.find? r.src) with
      | some e => simp
      | none =>
        have hnew : r.src ∉ (l.sets.get r.src r.t).1.keys := (find?_none_iff _ _).mp hf
        have hlt := length_lt_of_new_key _ S r.src (get_keys_nodup l.sets r.src r.t hnd)
          (fun x hx => hsub (get_keys_subset _ _ _ hx)) hr hnew
        have hc := get_capacity l.sets r.src r.t
        have hlen : (l.sets.get r.src r.t).1.keys.length = (l.sets.get r.src r.t).1.entries.length := by
          unfold Map.keys; simp
        have : ¬ ((l.sets.get r.src r.t).1.entries.length ≥ (l.sets.get r.src r.t).1.capacity) := by omega
        simp [this]
    · apply ih
      · exact serve_keys_nodup _ _ _ _ _ _ hnd
      · intro x hx
        rcases List.mem_cons.mp (serve_keys_subset _ _ _ _ _ _ hx) with h | h
        · rw [h]; exact hr
        · exact hsub h
      · exact fun r' hr' => hS r' (List.mem_cons_of_mem _ hr')
      · rw [serve_capacity]; exact hcap

end RL
