import OxyModel.Model.TTLMap
import Mathlib.Tactic

/-! Facts about the TTL map model: what `get` / `set` do to the entry of every key. -/
namespace TTL
variable {α : Type}

theorem lfind_filter_ne (es : List (Entry α)) (k v : String) (h : v ≠ k) :
    (es.filter (fun e => !(e.key == v))).find? (fun e => e.key == k) = es.find? (fun e => e.key == k) := by
  induction es with
  | nil => rfl
  | cons e es ih =>
    by_cases hv : e.key = v
    · have hk : ¬ e.key = k := by rw [hv]; exact h
      rw [List.filter_cons_of_neg (by simp [hv]), List.find?_cons_of_neg (by simp [hk]), ih]
    · rw [List.filter_cons_of_pos (by simp [hv])]
      by_cases hk : e.key = k
      · rw [List.find?_cons_of_pos (by simp [hk]), List.find?_cons_of_pos (by simp [hk])]
      · rw [List.find?_cons_of_neg (by simp [hk]), List.find?_cons_of_neg (by simp [hk]), ih]

theorem lfind_map_self (es : List (Entry α)) (k : String) (f : Entry α → Entry α) (e : Entry α)
    (hf : ∀ x, (f x).key = x.key)
    (h : es.find? (fun e => e.key == k) = some e) :
    (es.map (fun x => if (x.key == k) = true then f x else x)).find? (fun e => e.key == k) = some (f e) := by
  induction es with
  | nil => simp at h
  | cons x xs ih =>
    rw [List.map_cons]
    by_cases hx : x.key = k
    · rw [List.find?_cons_of_pos (by simp [hx])] at h
      have : x = e := by simpa using h
      subst this
      rw [List.find?_cons_of_pos (by simp [hx, hf])]
      simp [hx]
    · rw [List.find?_cons_of_neg (by simp [hx])] at h
      rw [List.find?_cons_of_neg (by simp [hx]), ih h]

theorem lfind_map_other (es : List (Entry α)) (k s : String) (f : Entry α → Entry α)
    (hf : ∀ x, (f x).key = x.key) (hs : s ≠ k) :
    (es.map (fun x => if (x.key == k) = true then f x else x)).find? (fun e => e.key == s)
      = es.find? (fun e => e.key == s) := by
  induction es with
  | nil => rfl
  | cons x xs ih =>
    rw [List.map_cons]
    by_cases hx : x.key = k
    · have hks : ¬ k = s := fun h => hs h.symm
      rw [List.find?_cons_of_neg (by simp [hx, hf, hks]), List.find?_cons_of_neg (by simp [hx, hks]), ih]
    · by_cases hxs : x.key = s
      · have hsk : ¬ s = k := hs
        rw [List.find?_cons_of_pos (by simp [hxs, hsk]), List.find?_cons_of_pos (by simp [hxs])]
        simp [hx]
      · rw [List.find?_cons_of_neg (by simp [hx, hxs]), List.find?_cons_of_neg (by simp [hxs]), ih]

theorem find?_erase_ne (m : Map α) (k v : String) (h : v ≠ k) : (m.erase v).find? k = m.find? k := by
  unfold Map.erase Map.find?
  exact lfind_filter_ne m.entries k v h

theorem find?_erase_self (m : Map α) (k : String) : (m.erase k).find? k = none := by
  unfold Map.erase Map.find?
  simp only [List.find?_eq_none, List.mem_filter]
  intro e he
  simpa using he.2

theorem find?_key (m : Map α) (k : String) (e : Entry α) (h : m.find? k = some e) : e.key = k := by
  unfold Map.find? at h
  have := List.find?_some h
  simpa using this

theorem find?_mem (m : Map α) (k : String) (e : Entry α) (h : m.find? k = some e) : e ∈ m.entries := by
  unfold Map.find? at h
  exact List.mem_of_find?_eq_some h

theorem find?_none_iff (m : Map α) (k : String) : m.find? k = none ↔ k ∉ m.keys := by
  unfold Map.find? Map.keys
  simp only [List.find?_eq_none, List.mem_map, not_exists, not_and]
  constructor
  · intro h e he hk
    have := h e he
    simp [hk] at this
  · intro h e he
    have := h e he
    simpa using this

/-! ### `get` -/

theorem get_find?_other (m : Map α) (k s : String) (now : Nat) (h : s ≠ k) :
    (m.get k now).1.find? s = m.find? s := by
  unfold Map.get
  cases hf : m.find? k with
  | none => rfl
  | some e =>
    simp only
    split
    · exact find?_erase_ne m s k (Ne.symm h)
    · rfl

theorem get_keys_subset (m : Map α) (k : String) (now : Nat) : (m.get k now).1.keys ⊆ m.keys := by
  unfold Map.get
  cases hf : m.find? k with
  | none => exact fun _ h => h
  | some e =>
    simp only
    split
    · unfold Map.erase Map.keys
      intro x hx
      simp only [List.mem_map, List.mem_filter] at hx ⊢
      obtain ⟨e, ⟨he, _⟩, rfl⟩ := hx
      exact ⟨e, he, rfl⟩
    · exact fun _ h => h

theorem erase_keys_nodup (m : Map α) (k : String) (h : m.keys.Nodup) : (m.erase k).keys.Nodup := by
  unfold Map.erase Map.keys at *
  simp only
  exact (List.Nodup.sublist (List.Sublist.map _ List.filter_sublist) h)

theorem get_keys_nodup (m : Map α) (k : String) (now : Nat) (h : m.keys.Nodup) : (m.get k now).1.keys.Nodup := by
  unfold Map.get
  cases hf : m.find? k with
  | none => exact h
  | some e =>
    simp only
    split
    · exact erase_keys_nodup m k h
    · exact h

theorem get_capacity (m : Map α) (k : String) (now : Nat) : (m.get k now).1.capacity = m.capacity := by
  unfold Map.get
  cases hf : m.find? k with
  | none => rfl
  | some e => simp only; split <;> rfl

/-- what `get` reports, in terms of the entry of `k` -/
theorem get_result (m : Map α) (k : String) (now : Nat) :
    (m.get k now).2 = (match m.find? k with
      | none => none
      | some e => if e.expiry ≤ nowSec now then none else some e.val) := by
  unfold Map.get
  cases hf : m.find? k with
  | none => rfl
  | some e => simp only; split <;> rfl

/-- the entry of `k` after `get`: dropped if it had expired -/
theorem get_find?_self (m : Map α) (k : String) (now : Nat) :
    (m.get k now).1.find? k = (match m.find? k with
      | none => none
      | some e => if e.expiry ≤ nowSec now then none else some e) := by
  unfold Map.get
  cases hf : m.find? k with
  | none => simp [hf]
  | some e =>
    simp only
    split
    · exact find?_erase_self m k
    · exact hf

/-! ### `set` -/

theorem set_find?_self (m : Map α) (k : String) (v : α) (ttl now : Nat) (victim : String) :
    (m.set k v ttl now victim).find? k = some ⟨k, v, expiryAt now ttl⟩ := by
  unfold Map.set
  cases hf : m.find? k with
  | some e =>
    simp only
    unfold Map.find? at hf ⊢
    simp only
    have := lfind_map_self m.entries k (fun e => ({ e with val := v, expiry := expiryAt now ttl } : Entry α)) e (fun _ => rfl) hf
    rw [this]
    have hk : e.key = k := by simpa using List.find?_some hf
    simp [hk]
  | none =>
    simp only
    have hnone : ∀ m' : Map α, m'.find? k = none →
        ({ m' with entries := m'.entries ++ [⟨k, v, expiryAt now ttl⟩] } : Map α).find? k = some ⟨k, v, expiryAt now ttl⟩ := by
      intro m' h
      unfold Map.find? at h ⊢
      simp [List.find?_append, h]
    apply hnone
    split
    · by_cases hvk : victim = k
      · rw [hvk]; exact find?_erase_self m k
      · rw [find?_erase_ne m k victim hvk]; exact hf
    · exact hf

theorem set_find?_other (m : Map α) (k s : String) (v : α) (ttl now : Nat) (victim : String)
    (hs : s ≠ k) (hv : m.evicts k = true → victim ≠ s) :
    (m.set k v ttl now victim).find? s = m.find? s := by
  unfold Map.set
  cases hf : m.find? k with
  | some e =>
    simp only
    unfold Map.find?
    exact lfind_map_other m.entries k s (fun e => ({ e with val := v, expiry := expiryAt now ttl } : Entry α)) (fun _ => rfl) hs
  | none =>
    simp only
    have happ : ∀ m' : Map α,
        ({ m' with entries := m'.entries ++ [⟨k, v, expiryAt now ttl⟩] } : Map α).find? s = m'.find? s := by
      intro m'
      unfold Map.find?
      have : ¬ k = s := fun h => hs h.symm
      simp [List.find?_append, this]
    rw [happ]
    split
    · rename_i he
      exact find?_erase_ne m s victim (hv he)
    · rfl

theorem set_capacity (m : Map α) (k : String) (v : α) (ttl now : Nat) (victim : String) :
    (m.set k v ttl now victim).capacity = m.capacity := by
  unfold Map.set
  cases hf : m.find? k with
  | some e => rfl
  | none => simp only; split <;> rfl

theorem set_keys_subset (m : Map α) (k : String) (v : α) (ttl now : Nat) (victim : String) :
    (m.set k v ttl now victim).keys ⊆ k :: m.keys := by
  unfold Map.set
  cases hf : m.find? k with
  | some e =>
    simp only
    unfold Map.keys
    intro x hx
    simp only [List.mem_map] at hx
    obtain ⟨e', ⟨e0, he0, rfl⟩, rfl⟩ := hx
    by_cases h : e0.key = k
    · simp [h]
    · simp only [beq_iff_eq, h, if_false]
      exact List.mem_cons_of_mem _ (List.mem_map_of_mem he0)
  | none =>
    simp only
    intro x hx
    unfold Map.keys at hx ⊢
    simp only [List.map_append, List.mem_append, List.map_cons, List.map_nil, List.mem_singleton] at hx
    rcases hx with hx | hx
    · apply List.mem_cons_of_mem
      split at hx
      · unfold Map.erase at hx
        simp only [List.mem_map, List.mem_filter] at hx ⊢
        obtain ⟨e, ⟨he, _⟩, rfl⟩ := hx
        exact ⟨e, he, rfl⟩
      · exact hx
    · rw [hx]; exact List.mem_cons_self

theorem set_keys_nodup (m : Map α) (k : String) (v : α) (ttl now : Nat) (victim : String)
    (h : m.keys.Nodup) : (m.set k v ttl now victim).keys.Nodup := by
  unfold Map.set
  cases hf : m.find? k with
  | some e =>
    simp only
    have : (List.map (fun e => if (e.key == k) = true then ({ e with val := v, expiry := expiryAt now ttl } : Entry α) else e) m.entries).map (·.key)
        = m.entries.map (·.key) := by
      rw [List.map_map]
      apply List.map_congr_left
      intro e _
      simp only [Function.comp]
      split <;> rfl
    unfold Map.keys at h ⊢
    simp only
    rw [this]; exact h
  | none =>
    simp only
    have hk : ∀ m' : Map α, m'.keys.Nodup → k ∉ m'.keys →
        ({ m' with entries := m'.entries ++ [⟨k, v, expiryAt now ttl⟩] } : Map α).keys.Nodup := by
      intro m' h1 h2
      unfold Map.keys at *
      simp only [List.map_append, List.map_cons, List.map_nil]
      rw [List.nodup_append]
      refine ⟨h1, List.nodup_singleton _, ?_⟩
      intro a ha b hb
      simp only [List.mem_singleton] at hb
      rw [hb]; intro hab; rw [hab] at ha; exact h2 ha
    have hknot : k ∉ m.keys := (find?_none_iff m k).mp hf
    split
    · apply hk _ (erase_keys_nodup m victim h)
      intro hmem
      apply hknot
      unfold Map.erase Map.keys at hmem
      unfold Map.keys
      simp only [List.mem_map, List.mem_filter] at hmem ⊢
      obtain ⟨e, ⟨he, _⟩, rfl⟩ := hmem
      exact ⟨e, he, rfl⟩
    · exact hk _ h hknot

theorem set_find?_victim (m : Map α) (k : String) (v : α) (ttl now : Nat) (victim : String)
    (hf : m.find? k = none) (hev : m.evicts k = true) (hne : victim ≠ k) :
    (m.set k v ttl now victim).find? victim = none := by
  unfold Map.set
  rw [hf]
  simp only [hev, if_true]
  have h1 := find?_erase_self m victim
  unfold Map.find? at h1 ⊢
  simp only [List.find?_append, h1, Option.none_or]
  rw [List.find?_cons_of_neg (by simpa using fun h => hne h.symm)]
  rfl


theorem evicts_find?_none (m : Map α) (k : String) (h : m.evicts k = true) : m.find? k = none := by
  unfold Map.evicts at h
  simp only [Bool.and_eq_true, Option.isNone_iff_eq_none] at h
  exact h.1.1

/-- the entry of another key survives a `set` untouched, unless it is the one evicted -/
theorem set_find?_other_or_none (m : Map α) (k s : String) (v : α) (ttl now : Nat) (victim : String) (hs : s ≠ k) :
    (m.set k v ttl now victim).find? s = m.find? s ∨ (m.set k v ttl now victim).find? s = none := by
  by_cases h : m.evicts k = true ∧ victim = s
  · right
    rw [← h.2]
    exact set_find?_victim m k v ttl now victim (evicts_find?_none m k h.1) h.1 (by rw [h.2]; exact hs)
  · left
    apply set_find?_other m k s v ttl now victim hs
    intro he hv
    exact h ⟨he, hv⟩

/-- `expiryAt` in closed form -/
theorem expiryAt_eq (now ttl : Nat) : expiryAt now ttl = now / 1000000000 + ttl := by
  unfold expiryAt
  omega

/-- pigeonhole: a key outside a duplicate-free key list that lives in `S` leaves room -/
theorem length_lt_of_new_key (keys S : List String) (k : String) (hnd : keys.Nodup) (hsub : keys ⊆ S)
    (hk : k ∈ S) (hnew : k ∉ keys) : keys.length < S.dedup.length := by
  have h1 : (k :: keys).Nodup := List.nodup_cons.mpr ⟨hnew, hnd⟩
  have h2 : (k :: keys) ⊆ S.dedup := by
    intro x hx
    rw [List.mem_dedup]
    rcases List.mem_cons.mp hx with rfl | hx
    · exact hk
    · exact hsub hx
  have := (List.subperm_of_subset h1 h2).length_le
  simpa using this

end TTL
