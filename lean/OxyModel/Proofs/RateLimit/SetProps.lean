import OxyModel.Proofs.RateLimit.Bucket

/-!
# Token bucket / bucket set: the property theorems (C03 window bound, C13 set behaviour)
-/
namespace RL

/-! ### histories are `Steps` -/

theorem step_is_step (b : Bucket) (t n : Nat) (rb : Bool) : Step b t (b.step t n rb).2 (b.step t n rb).1 := by
  unfold Bucket.step
  cases rb
  · simpa using consume_step b t n
  · simpa using rollback_consume_step b t n

theorem run_steps : ∀ (ops : List (Nat × Nat × Bool)) (b : Bucket),
    ∃ b', Steps b (ops.map (·.1)) (b.run ops) b' := by
  intro ops
  induction ops with
  | nil => intro b; exact ⟨b, Steps.nil b⟩
  | cons p ops ih =>
    intro b
    obtain ⟨t, n, rb⟩ := p
    obtain ⟨b', h⟩ := ih (b.step t n rb).1
    exact ⟨b', Steps.cons (step_is_step b t n rb) h⟩

/-- **C03**: over any stretch `i..j` of a single bucket's history at most
    `burst + (t_j − t_i)/tpt + 1` tokens leave -/
theorem bucket_window (b : Bucket) (t0 : Nat) (hb : b.WF t0)
    (ops : List (Nat × Nat × Bool)) (hs : SortedFrom t0 (ops.map (·.1)))
    (i j : Nat) (hij : i ≤ j) (hj : j < ops.length) :
    windowSum (b.run ops) i j ≤
      b.burst + ((ops.map (·.1)).getD j 0 - (ops.map (·.1)).getD i 0) / b.tpt + 1 := by
  obtain ⟨b', h⟩ := run_steps ops b
  exact steps_window h t0 i j hb hs hij (by simpa using hj)

theorem consumeSet_tpt_pos (bs : List Bucket) (now n : Nat) (htpt : ∀ b ∈ bs, 0 < b.tpt) :
    ∀ b ∈ (consumeSet bs now n).1, 0 < b.tpt := by
  intro b hb
  obtain ⟨k, hk, rfl⟩ := List.mem_iff_getElem.mp hb
  have hk' : k < bs.length := by rwa [consumeSet_length] at hk
  obtain ⟨b', h1, h2⟩ := consumeSet_bucket bs now n k hk' htpt
  rw [List.getElem?_eq_getElem hk] at h1
  cases h1
  rw [h2.tpt_eq]
  exact htpt _ (List.getElem_mem hk')

theorem set_steps : ∀ (ops : List (Nat × Nat)) (bs : List Bucket) (_ : ∀ b ∈ bs, 0 < b.tpt)
    (k : Nat) (hk : k < bs.length), ∃ b', Steps bs[k] (ops.map (·.1)) (admittedSet bs ops) b' := by
  intro ops
  induction ops with
  | nil => intro bs _ k hk; exact ⟨bs[k], Steps.nil _⟩
  | cons p ops ih =>
    intro bs htpt k hk
    obtain ⟨t, n⟩ := p
    obtain ⟨b1, h1, s1⟩ := consumeSet_bucket bs t n k hk htpt
    have hk1 : k < (consumeSet bs t n).1.length := by rwa [consumeSet_length]
    rw [List.getElem?_eq_getElem hk1] at h1
    cases h1
    obtain ⟨b', h⟩ := ih (consumeSet bs t n).1 (consumeSet_tpt_pos bs t n htpt) k hk1
    exact ⟨b', Steps.cons s1 h⟩

/-- **C03 / C13**: the amounts a bucket set admits obey every member bucket's window bound -/
theorem set_window (bs : List Bucket) (t0 : Nat) (hwf : ∀ b ∈ bs, b.WF t0)
    (ops : List (Nat × Nat)) (hs : SortedFrom t0 (ops.map (·.1)))
    (i j : Nat) (hij : i ≤ j) (hj : j < ops.length) :
    ∀ b ∈ bs, windowSum (admittedSet bs ops) i j ≤
      b.burst + ((ops.map (·.1)).getD j 0 - (ops.map (·.1)).getD i 0) / b.tpt + 1 := by
  intro b hb
  obtain ⟨k, hk, rfl⟩ := List.mem_iff_getElem.mp hb
  obtain ⟨b', h⟩ := set_steps ops bs (fun b hb => (hwf b hb).1) k hk
  exact steps_window h t0 i j (hwf _ hb) hs hij (by simpa using hj)

/-! ### C13: all-or-nothing -/

/-- C13: a refused request leaves every bucket exactly as a bare refill would -/
theorem reject_no_debit (bs : List Bucket) (now n : Nat) (h : (consumeSet bs now n).2 ≠ .ok) :
    (consumeSet bs now n).1 = bs.map (fun b => { b.refill now with lastConsumed := 0 }) :=
  consumeSet_fst_of_not_ok bs now n h

/-- C13: an admitted request debits every bucket by exactly n -/
theorem admit_debits_all (bs : List Bucket) (now n : Nat) (htpt : ∀ b ∈ bs, 0 < b.tpt)
    (h : (consumeSet bs now n).2 = .ok) :
    (consumeSet bs now n).1 =
        bs.map (fun b => { b.refill now with avail := (b.refill now).avail - n, lastConsumed := n })
    ∧ ∀ b ∈ bs, n ≤ (b.refill now).avail := by
  have hall := consumeSet_all_of_ok bs now n htpt h
  have hav : ∀ b ∈ bs, n ≤ (b.refill now).avail := fun b hb => ((consume_ok_iff b now n).mp (hall b hb)).2
  refine ⟨?_, hav⟩
  rw [consumeSet_fst_of_ok bs now n h]
  apply List.map_congr_left
  intro b hb
  have h1 := ((consume_ok_iff b now n).mp (hall b hb))
  simp only [Bucket.consume, refill_burst]
  rw [if_neg (by omega), if_neg (by omega)]

/-- an amount-0 request is always admitted and is a bare refill of every bucket -/
theorem consumeSet_zero (bs : List Bucket) (t : Nat) :
    consumeSet bs t 0 = (bs.map (fun b => { b.refill t with lastConsumed := 0 }), .ok) := by
  have hok : (consumeSet bs t 0).2 = .ok :=
    consumeSet_ok_of_all bs t 0 (fun b _ => by rw [consume_zero])
  have h1 := consumeSet_fst_of_ok bs t 0 hok
  simp only [consume_zero] at h1
  exact Prod.ext h1 hok

/-- C13 flood: a history of refused requests has exactly the effect of amount-0 requests ("touches")
    at the same instants -/
theorem flood_as_touches (bs : List Bucket) (flood : List (Nat × Nat))
    (hrej : ∀ r ∈ runSet bs flood, r ≠ .ok) :
    afterSet bs flood = afterSet bs (flood.map (fun p => (p.1, 0))) := by
  induction flood generalizing bs with
  | nil => rfl
  | cons p flood ih =>
    obtain ⟨t, n⟩ := p
    simp only [runSet, List.mem_cons, forall_eq_or_imp] at hrej
    simp only [afterSet, List.map_cons]
    rw [reject_no_debit bs t n hrej.1, consumeSet_zero]
    apply ih
    rw [← reject_no_debit bs t n hrej.1]
    exact hrej.2

theorem flood_no_drain_aux (flood : List (Nat × Nat)) : ∀ (bs0 bs : List Bucket),
    List.Forall₂ (fun b b' => b.avail ≤ b'.avail ∧ b'.avail ≤ b'.burst ∧ b'.burst = b.burst ∧
      b'.tpt = b.tpt ∧ b'.period = b.period) bs0 bs →
    (∀ r ∈ runSet bs flood, r ≠ .ok) →
    List.Forall₂ (fun b b' => b.avail ≤ b'.avail ∧ b'.avail ≤ b'.burst ∧ b'.burst = b.burst ∧
      b'.tpt = b.tpt ∧ b'.period = b.period) bs0 (afterSet bs flood) := by
  induction flood with
  | nil => intro bs0 bs h _; exact h
  | cons p flood ih =>
    intro bs0 bs h hrej
    obtain ⟨t, n⟩ := p
    simp only [runSet, List.mem_cons, forall_eq_or_imp] at hrej
    simp only [afterSet]
    refine ih bs0 _ ?_ hrej.2
    rw [reject_no_debit bs t n hrej.1, List.forall₂_map_right_iff]
    refine h.imp ?_
    intro a b ⟨h1, h2, h3, h4, h5⟩
    have := refill_mono b t h2
    exact ⟨by simpa using le_trans h1 this.1, by simpa using this.2, by simpa using h3,
      by simpa using h4, by simpa using h5⟩

/-- C13 flood: no bucket loses tokens (or changes its parameters) over a history of refused requests -/
theorem flood_no_drain (bs : List Bucket) (hav : ∀ b ∈ bs, b.avail ≤ b.burst) (flood : List (Nat × Nat))
    (hrej : ∀ r ∈ runSet bs flood, r ≠ .ok) :
    List.Forall₂ (fun b b' => b.avail ≤ b'.avail ∧ b'.avail ≤ b'.burst ∧ b'.burst = b.burst ∧
      b'.tpt = b.tpt ∧ b'.period = b.period) bs (afterSet bs flood) := by
  refine flood_no_drain_aux flood bs bs ?_ hrej
  rw [List.forall₂_same]
  intro b hb
  exact ⟨Nat.le_refl _, hav b hb, rfl, rfl, rfl⟩

/-- right after any request at `t` (admitted or not) a refill at `t` is a no-op on every bucket: the
    precondition of `flood_same_instant` -/
theorem settled_after_consumeSet (bs : List Bucket) (t n : Nat) :
    ∀ b ∈ (consumeSet bs t n).1, b.refill t = b := by
  intro b hb
  rw [consumeSet_eq] at hb
  split_ifs at hb <;> simp only [List.mem_map] at hb <;> obtain ⟨b0, _, rfl⟩ := hb
  · exact (refill_consume b0 t n).2
  · exact (refill_consume b0 t n).2
  · exact (refill_consume b0 t n).1

/-- a refused request clears `lastConsumed` -/
theorem lastConsumed_after_reject (bs : List Bucket) (t n : Nat) (h : (consumeSet bs t n).2 ≠ .ok) :
    ∀ b ∈ (consumeSet bs t n).1, b.lastConsumed = 0 := by
  intro b hb
  rw [reject_no_debit bs t n h] at hb
  obtain ⟨b0, _, rfl⟩ := List.mem_map.mp hb
  rfl

/-- same-instant flood (state): requests refused at the instant `t` at which the set was last touched
    change nothing at all -/
theorem flood_same_instant_state (bs : List Bucket) (t : Nat)
    (hset : ∀ b ∈ bs, b.refill t = b ∧ b.lastConsumed = 0)
    (flood : List (Nat × Nat)) (ht : ∀ p ∈ flood, p.1 = t) (hrej : ∀ r ∈ runSet bs flood, r ≠ .ok) :
    afterSet bs flood = bs := by
  induction flood with
  | nil => rfl
  | cons p flood ih =>
    obtain ⟨t1, n⟩ := p
    simp only [runSet, List.mem_cons, forall_eq_or_imp] at hrej ht
    obtain ⟨rfl, ht⟩ := ht
    have hsame : (consumeSet bs t1 n).1 = bs := by
      rw [reject_no_debit bs t1 n hrej.1]
      conv_rhs => rw [← List.map_id bs]
      apply List.map_congr_left
      intro b hb
      obtain ⟨h1, h2⟩ := hset b hb
      rw [h1]; cases b; simp_all
    simp only [afterSet]
    rw [hsame] at hrej ⊢
    exact ih ht hrej.2

/-- same-instant flood: requests refused at the instant `t` at which the set was last touched do not
    influence any later request at `t` (neither its outcome nor the resulting state) -/
theorem flood_same_instant (bs : List Bucket) (t : Nat) (hset : ∀ b ∈ bs, b.refill t = b)
    (flood : List (Nat × Nat)) (ht : ∀ p ∈ flood, p.1 = t) (hrej : ∀ r ∈ runSet bs flood, r ≠ .ok)
    (n' : Nat) :
    consumeSet (afterSet bs flood) t n' = consumeSet bs t n' := by
  induction flood generalizing bs with
  | nil => rfl
  | cons p flood ih =>
    obtain ⟨t1, n⟩ := p
    simp only [runSet, List.mem_cons, forall_eq_or_imp] at hrej ht
    obtain ⟨rfl, ht⟩ := ht
    simp only [afterSet]
    rw [ih _ (settled_after_consumeSet bs t1 n) ht hrej.2, reject_no_debit bs t1 n hrej.1]
    apply consumeSet_congr
    rw [List.map_map]
    apply List.map_congr_left
    intro b hb
    simp only [Function.comp, hset b hb, consume_set_lastConsumed]

/-! ### C13: delays, idling, oversize -/

/-- C13: the advertised delay suffices -/
theorem delay_sufficient (bs : List Bucket) (now n d : Nat) (hwf : ∀ b ∈ bs, b.WF now)
    (h : (consumeSet bs now n).2 = .delay d) (t' : Nat) (ht : now + d ≤ t') :
    (consumeSet (consumeSet bs now n).1 t' n).2 = .ok := by
  obtain ⟨_, hburst, hmax, _⟩ := consumeSet_delay bs now n d h
  rw [reject_no_debit bs now n (by rw [h]; simp)]
  apply consumeSet_ok_of_all
  intro b1 hb1
  obtain ⟨b, hb, rfl⟩ := List.mem_map.mp hb1
  rw [consume_set_lastConsumed, consume_ok_iff]
  obtain ⟨r1, r2, _, ⟨w1, w2, w3⟩, _⟩ := refill_spec b now (hwf b hb)
  refine ⟨by simpa using hburst b hb, ?_⟩
  have hne : (b.refill now).tpt ≠ 0 := by rw [r1]; have := (hwf b hb).1; omega
  rw [refill_avail _ t' hne, r1, r2]
  have hb' := hburst b hb
  by_cases hav : n ≤ (b.refill now).avail
  · generalize (t' - (b.refill now).lr) / b.tpt = c; omega
  · have hd' := hmax b hb _ ((consume_delay_iff b now n _).mpr ⟨hb', by omega, rfl⟩)
    have : n - (b.refill now).avail ≤ (t' - (b.refill now).lr) / b.tpt := by
      rw [Nat.le_div_iff_mul_le (hwf b hb).1]; omega
    generalize (t' - (b.refill now).lr) / b.tpt = c at *; omega

set_option linter.unusedVariables false in
/-- and the delay is positive and no longer than refilling the whole amount in the slowest bucket -/
theorem delay_bounds (bs : List Bucket) (now n d : Nat) (hwf : ∀ b ∈ bs, b.WF now)
    (h : (consumeSet bs now n).2 = .delay d) :
    0 < d ∧ ∃ b ∈ bs, d ≤ n * b.tpt := by
  obtain ⟨hpos, _, _, b, hb, hd⟩ := consumeSet_delay bs now n d h
  refine ⟨hpos, b, hb, ?_⟩
  rw [((consume_delay_iff b now n d).mp hd).2.2]
  exact Nat.mul_le_mul_right _ (Nat.sub_le _ _)

/-- C13: idle for burst·tpt ⇒ full -/
theorem idle_full_burst (b : Bucket) (t0 now : Nat) (hb : b.WF t0) (h : t0 + b.burst * b.tpt ≤ now) :
    (b.refill now).avail = b.burst := by
  obtain ⟨htpt, hav, hlr⟩ := hb
  rw [refill_avail b now (by omega)]
  have : b.burst ≤ (now - b.lr) / b.tpt := by
    rw [Nat.le_div_iff_mul_le htpt]; omega
  omega

theorem idle_admits (bs : List Bucket) (t0 now n : Nat) (hwf : ∀ b ∈ bs, b.WF t0)
    (hidle : ∀ b ∈ bs, t0 + b.burst * b.tpt ≤ now) (hn : ∀ b ∈ bs, n ≤ b.burst) :
    (consumeSet bs now n).2 = .ok := by
  apply consumeSet_ok_of_all
  intro b hb
  rw [consume_ok_iff, idle_full_burst b t0 now (hwf b hb) (hidle b hb)]
  exact ⟨hn b hb, hn b hb⟩

/-- C13: larger than some burst ⇒ error (not a delay), and only then -/
theorem over_burst_is_error (bs : List Bucket) (now n : Nat) :
    (consumeSet bs now n).2 = .err ↔ ∃ b ∈ bs, b.burst < n :=
  consumeSet_err_iff bs now n

/-! ### an idle bucket is as good as new -/

theorem consume_congr {b b' : Bucket} {now : Nat} (n : Nat)
    (h : ({ b.refill now with lastConsumed := 0 } : Bucket) = { b'.refill now with lastConsumed := 0 }) :
    b.consume now n = b'.consume now n := by
  simp only [Bucket.mk.injEq, and_true] at h
  obtain ⟨e1, e2, e3, e4, e5⟩ := h
  simp only [Bucket.consume, e1, e2, e3, e4, e5]

/-- used by the limiter refinement: a bucket idle long enough behaves exactly like a brand-new one -/
theorem consume_idle_eq_fresh (b : Bucket) (r : Rate) (t0 now n : Nat)
    (hp : r.period ≠ 0) (hper : b.period = r.period) (htpt : b.tpt = tptOf r.period r.average)
    (hburst : b.burst = r.burst) (hav : b.avail ≤ b.burst) (hlr : b.lr ≤ t0) (hpos : 0 < r.burst)
    (h : t0 + b.burst * b.tpt ≤ now) :
    b.consume now n = (mkBucket r now).consume now n := by
  have htp : 0 < b.tpt := by rw [htpt]; exact tptOf_pos _ _
  have hfull := idle_full_burst b t0 now ⟨htp, hav, hlr⟩ h
  have hc : (now - b.lr) / b.tpt ≠ 0 := by
    have : 1 ≤ (now - b.lr) / b.tpt := by
      rw [Nat.le_div_iff_mul_le htp]
      have : 1 * b.tpt ≤ b.burst * b.tpt := Nat.mul_le_mul_right _ (by omega)
      omega
    omega
  have hlr' : (b.refill now).lr = now := by
    rw [refill_lr]; simp [hc]; omega
  have hfresh : (mkBucket r now).refill now = mkBucket r now := by
    apply refill_of_settled
    right
    simp [mkBucket]
  apply consume_congr
  rw [hfresh]
  apply Bucket.ext' <;> simp [mkBucket, hp, hper, htpt, hburst, hlr', hfull]

/-- the list version: a set whose buckets have all been idle long enough behaves like a brand-new set -/
theorem consumeSet_idle_eq_fresh (bs : List Bucket) (rates : List Rate) (t0 now n : Nat)
    (hrel : List.Forall₂ (fun (b : Bucket) (r : Rate) =>
      r.period ≠ 0 ∧ b.period = r.period ∧ b.tpt = tptOf r.period r.average ∧ b.burst = r.burst ∧
      b.avail ≤ b.burst ∧ b.lr ≤ t0 ∧ 0 < r.burst ∧ t0 + b.burst * b.tpt ≤ now) bs rates) :
    consumeSet bs now n = consumeSet (rates.map (fun r => mkBucket r now)) now n := by
  apply consumeSet_congr
  induction hrel with
  | nil => rfl
  | cons hbr _ ih =>
    obtain ⟨h1, h2, h3, h4, h5, h6, h7, h8⟩ := hbr
    simp only [List.map_cons]
    rw [consume_idle_eq_fresh _ _ t0 now n h1 h2 h3 h4 h5 h6 h7 h8]
    rw [ih]

/-! ### the hypotheses are satisfiable: concrete instances -/

/-- full bucket, one token per 100 ns, burst 5 -/
def exFull : Bucket := { period := 1000, tpt := 100, burst := 5, avail := 5, lr := 0, lastConsumed := 0 }
/-- the same bucket, empty -/
def exEmpty : Bucket := { period := 1000, tpt := 100, burst := 5, avail := 0, lr := 0, lastConsumed := 0 }
/-- a second, slower and smaller bucket -/
def exSlow : Bucket := { period := 5000, tpt := 1000, burst := 3, avail := 3, lr := 0, lastConsumed := 0 }

-- window bound: the `+ 1` is attained (the refresh stamp may lag the clock by up to `tpt − 1`)
example : exFull.WF 99 := by decide
example : SortedFrom 99 ([(99, 5, false), (100, 1, false)].map (·.1)) := by simp [SortedFrom]
example : windowSum (exFull.run [(99, 5, false), (100, 1, false)]) 0 1 = 6 := by decide
example : windowSum (exFull.run [(99, 5, false), (100, 1, false)]) 0 1 ≤ 5 + (100 - 99) / 100 + 1 :=
  bucket_window exFull 99 (by decide) [(99, 5, false), (100, 1, false)] (by simp [SortedFrom]) 0 1
    (by omega) (by simp)
example : admittedSet [exFull, exSlow] [(0, 3), (10, 1), (1000, 1)] = [3, 0, 1] ∧
    runSet [exFull, exSlow] [(0, 3), (10, 1), (1000, 2), (1000, 4)] = [.ok, .delay 1000, .delay 1000, .err] := by
  decide
example : windowSum (admittedSet [exFull, exSlow] [(0, 3), (10, 1), (1000, 1)]) 0 2 ≤ 3 + (1000 - 0) / 1000 + 1 :=
  set_window [exFull, exSlow] 0 (by decide) [(0, 3), (10, 1), (1000, 1)] (by simp [SortedFrom]) 0 2
    (by omega) (by simp) exSlow (by simp)

-- all-or-nothing
example : (consumeSet [exFull, exSlow] 0 4).2 = .err ∧ (consumeSet [exFull, exEmpty] 0 4).2 = .delay 400 ∧
    (consumeSet [exFull, exSlow] 0 3).2 = .ok := by decide
example : (consumeSet [exFull, exEmpty] 50 4).1 = [exFull, exEmpty] :=
  (reject_no_debit [exFull, exEmpty] 50 4 (by decide)).trans (by decide)
example : ∀ b ∈ [exFull, exSlow], 3 ≤ (b.refill 0).avail :=
  (admit_debits_all [exFull, exSlow] 0 3 (by decide) (by decide)).2

-- floods
example : ∀ r ∈ runSet [exEmpty] [(150, 5), (160, 5), (310, 4)], r ≠ .ok := by decide
example : afterSet [exEmpty] [(150, 5), (160, 5), (310, 4)] = afterSet [exEmpty] [(150, 0), (160, 0), (310, 0)] :=
  flood_as_touches [exEmpty] _ (by decide)
example : ∀ b ∈ (consumeSet [exEmpty] 150 5).1, b.refill 150 = b ∧ b.lastConsumed = 0 := by decide
example : afterSet (consumeSet [exEmpty] 150 5).1 [(150, 5), (150, 3)] = (consumeSet [exEmpty] 150 5).1 :=
  flood_same_instant_state _ 150 (by decide) [(150, 5), (150, 3)] (by decide) (by decide)

/-- a refused request CAN change a later outcome — through the remainder of the division that the
    refill it triggers drops (`lastRefresh` jumps to `now`): alone, 2 tokens are available at 200; after a
    refused request at 150 (which credits 1 token and forgets the 50 ns already waited towards the
    second) they are not. -/
theorem flood_remainder_witness :
    (consumeSet [exEmpty] 200 2).2 = .ok ∧
    (consumeSet [exEmpty] 150 5).2 = .delay 400 ∧
    (consumeSet (consumeSet [exEmpty] 150 5).1 200 2).2 = .delay 100 := by decide

-- delays
example : (consumeSet [exEmpty] 150 5).2 = .delay 400 ∧ ∀ b ∈ [exEmpty], b.WF 150 := by decide
example : (consumeSet (consumeSet [exEmpty] 150 5).1 550 5).2 = .ok :=
  delay_sufficient [exEmpty] 150 5 400 (by decide) (by decide) 550 (by omega)

-- idling
example : (consumeSet [exEmpty, exSlow] 3000 3).2 = .ok :=
  idle_admits [exEmpty, exSlow] 0 3000 3 (by decide) (by decide) (by decide)
example : (consumeSet [exEmpty, exSlow] 3000 4).2 = .err :=
  (over_burst_is_error _ _ _).mpr ⟨exSlow, by simp, by decide⟩

-- as good as new
example : exEmpty.consume 500 2 = (mkBucket { period := 1000, average := 10, burst := 5 } 500).consume 500 2 :=
  consume_idle_eq_fresh exEmpty { period := 1000, average := 10, burst := 5 } 0 500 2
    (by decide) rfl (by decide) rfl (by decide) (by decide) (by decide) (by decide)


end RL
