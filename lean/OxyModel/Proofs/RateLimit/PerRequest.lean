import OxyModel.Proofs.RateLimit.Limiter

/-! Non-interference for histories in which every request carries its own rate set (`ExtractRates`):
`bucketSet.Update(effectiveRates)` on an existing entry is part of `serve`, and still only the source's
own entry matters. -/
namespace RL
open TTL

def opsOfR (s : String) (reqs : List ReqR) : List (Nat × Nat × List Rate) :=
  (reqs.filter (fun r => r.src = s)).map (fun r => (r.t, r.amount, r.rates))

def entryRunR (defaults : List Rate) (s : String) : Option (Entry BucketSet) → List (Nat × Nat × List Rate) → List Resp
  | _, [] => []
  | e, (t, n, rr) :: ops =>
    (serveEntry defaults e t s n rr).2 :: entryRunR defaults s (some (serveEntry defaults e t s n rr).1) ops

theorem decisions_eq_entryRunR (s : String) (reqs : List ReqR) : ∀ (l : Limiter), l.sparesR s reqs →
    l.decisionsForR s reqs = entryRunR l.defaults s (l.sets.find? s) (opsOfR s reqs) := by
  induction reqs with
  | nil => intro l _; rfl
  | cons r rs ih =>
    intro l hsp
    obtain ⟨h1, h2⟩ := hsp
    by_cases hr : r.src = s
    · have hops : opsOfR s (r :: rs) = (r.t, r.amount, r.rates) :: opsOfR s rs := by
        unfold opsOfR; simp [hr]
      rw [hops]
      unfold Limiter.decisionsForR
      rw [if_pos hr]
      unfold entryRunR
      rw [ih _ h2, serve_defaults, serve_resp]
      subst hr
      rw [serve_find_self]
    · have hops : opsOfR s (r :: rs) = opsOfR s rs := by
        unfold opsOfR; simp [hr]
      rw [hops]
      unfold Limiter.decisionsForR
      rw [if_neg hr, ih _ h2, serve_defaults,
        serve_find_other l r.t r.src s r.amount r.rates r.victim (fun h => hr h.symm) (h1 hr)]

theorem sparesR_of_noEvictR (s : String) (reqs : List ReqR) : ∀ (l : Limiter), l.noEvictR reqs → l.sparesR s reqs := by
  induction reqs with
  | nil => intro _ _; trivial
  | cons r rs ih =>
    intro l h
    exact ⟨fun _ he => by rw [h.1] at he; exact absurd he (by simp), ih _ h.2⟩

theorem sparesR_of_own (s : String) (reqs : List ReqR) (hall : ∀ r ∈ reqs, r.src = s) :
    ∀ (l : Limiter), l.sparesR s reqs := by
  induction reqs with
  | nil => intro _; trivial
  | cons r rs ih =>
    intro l
    exact ⟨fun h => absurd (hall r List.mem_cons_self) h, ih (fun r' hr' => hall r' (List.mem_cons_of_mem _ hr')) _⟩

theorem decisionsForR_own (s : String) (reqs : List ReqR) (hall : ∀ r ∈ reqs, r.src = s) :
    ∀ (l : Limiter), l.decisionsForR s reqs = l.runR reqs := by
  induction reqs with
  | nil => intro _; rfl
  | cons r rs ih =>
    intro l
    unfold Limiter.decisionsForR Limiter.runR
    rw [if_pos (hall r List.mem_cons_self), ih (fun r' hr' => hall r' (List.mem_cons_of_mem _ hr'))]

theorem opsOfR_filter (s : String) (reqs : List ReqR) :
    opsOfR s (reqs.filter (fun r => r.src = s)) = opsOfR s reqs := by
  unfold opsOfR
  rw [List.filter_filter]
  simp

theorem runR_own_eq_entryRunR (s : String) (reqs : List ReqR) (l : Limiter) :
    l.runR (reqs.filter (fun r => r.src = s)) = entryRunR l.defaults s (l.sets.find? s) (opsOfR s reqs) := by
  have hall : ∀ r ∈ reqs.filter (fun r => r.src = s), r.src = s := by
    intro r hr
    simpa using (List.mem_filter.mp hr).2
  rw [← decisionsForR_own s _ hall l, decisions_eq_entryRunR s _ l (sparesR_of_own s _ hall l), opsOfR_filter]

theorem noEvictR_of_capacity (S : List String) (reqs : List ReqR) : ∀ (l : Limiter),
    l.sets.keys.Nodup → l.sets.keys ⊆ S → (∀ r ∈ reqs, r.src ∈ S) → S.dedup.length ≤ l.sets.capacity →
    l.noEvictR reqs := by
  induction reqs with
  | nil => intro _ _ _ _ _; trivial
  | cons r rs ih =>
    intro l hnd hsub hS hcap
    have hr : r.src ∈ S := hS r List.mem_cons_self
    refine ⟨?_, ?_⟩
    · unfold Limiter.evictsAt Map.evicts
      cases hf : ((l.sets.get r.src r.t).1.find? r.src) with
      | some e => simp
      | none =>
        have hnew : r.src ∉ (l.sets.get r.src r.t).1.keys := (find?_none_iff _ _).mp hf
        have hlt := length_lt_of_new_key _ S r.src (get_keys_nodup l.sets r.src r.t hnd)
          (fun x hx => hsub (get_keys_subset _ _ _ hx)) hr hnew
        have hc := get_capacity l.sets r.src r.t
        have hlen : (l.sets.get r.src r.t).1.keys.length = (l.sets.get r.src r.t).1.entries.length := by
          unfold Map.keys; simp
        have : ¬ ((l.sets.get r.src r.t).1.entries.length ≥ (l.sets.get r.src r.t).1.capacity) := by omega
        simp [this]
    · apply ih
      · exact serve_keys_nodup _ _ _ _ _ _ hnd
      · intro x hx
        rcases List.mem_cons.mp (serve_keys_subset _ _ _ _ _ _ hx) with h | h
        · rw [h]; exact hr
        · exact hsub h
      · exact fun r' hr' => hS r' (List.mem_cons_of_mem _ hr')
      · rw [serve_capacity]; exact hcap

end RL
