import OxyModel.Proofs.Source.Split

/-! Textual shapes of the peer addresses an HTTP server produces (`net.TCPAddr.String()`), and the
facts about them that the extractor theorems need. -/
namespace Source

def hexDigit (c : Char) : Bool := c.isDigit || ('a' ≤ c && c ≤ 'f') || ('A' ≤ c && c ≤ 'F')

/-- dotted decimal: non-empty, digits and dots -/
def isIPv4 (s : Str) : Bool := !s.isEmpty && s.all fun c => c.isDigit || c == '.'

/-- IPv6 text: hex digits, colons (at least one), dots (v4-mapped tail) -/
def isIPv6 (s : Str) : Bool := s.contains ':' && s.all fun c => hexDigit c || c == ':' || c == '.'

/-- a zone (interface name or index): non-empty, no brackets -/
def isZone (z : Str) : Bool := !z.isEmpty && z.all fun c => c != '[' && c != ']'

/-- IPv6 with zone: `<ipv6>%<zone>`, split at the last `%` as `net.splitHostZone` does -/
def isIPv6Zone (s : Str) : Bool :=
  match lastIndexOf '%' s with
  | some i => isIPv6 (s.take i) && isZone (s.drop (i + 1))
  | none => false

/-- decimal port -/
def isPort (p : Str) : Bool := p.all Char.isDigit

theorem not_mem_of_all {f : Char → Bool} {s : Str} {c : Char} (h : s.all f = true) (hc : f c = false) : c ∉ s := by
  intro hm
  have := List.all_eq_true.1 h c hm
  rw [hc] at this; cases this

theorem isPort_plain {p : Str} (h : isPort p = true) : plain p :=
  ⟨not_mem_of_all h (by decide), not_mem_of_all h (by decide), not_mem_of_all h (by decide)⟩

theorem isIPv4_spec {s : Str} (h : isIPv4 s = true) : s ≠ [] ∧ plain s := by
  simp only [isIPv4, Bool.and_eq_true] at h
  refine ⟨?_, not_mem_of_all h.2 (by decide), not_mem_of_all h.2 (by decide), not_mem_of_all h.2 (by decide)⟩
  intro he; subst he; simp at h

theorem isIPv6_spec {s : Str} (h : isIPv6 s = true) : s ≠ [] ∧ noBrackets s ∧ ':' ∈ s := by
  simp only [isIPv6, Bool.and_eq_true] at h
  have hc : ':' ∈ s := by simpa using h.1
  refine ⟨?_, ⟨not_mem_of_all h.2 (by decide), not_mem_of_all h.2 (by decide)⟩, hc⟩
  intro he; subst he; simp at hc

theorem isIPv6Zone_spec {s : Str} (h : isIPv6Zone s = true) : s ≠ [] ∧ noBrackets s ∧ ':' ∈ s := by
  unfold isIPv6Zone at h
  cases hl : lastIndexOf '%' s with
  | none => simp [hl] at h
  | some i =>
    simp only [hl, Bool.and_eq_true] at h
    obtain ⟨_, ⟨a1, a2⟩, a3⟩ := isIPv6_spec h.1
    obtain ⟨l1, _, _⟩ := lastIndexOf_some_spec hl
    have hz := h.2
    simp only [isZone, Bool.and_eq_true] at hz
    have z1 : '[' ∉ s.drop (i + 1) := not_mem_of_all hz.2 (by decide)
    have z2 : ']' ∉ s.drop (i + 1) := not_mem_of_all hz.2 (by decide)
    refine ⟨?_, ⟨?_, ?_⟩, List.mem_of_mem_take a3⟩
    · intro he; subst he; simp at a3
    · rw [l1]; simp [a1, z1]
    · rw [l1]; simp [a2, z2]

/-- the three shapes of a peer IP -/
def isPeerIP (s : Str) : Bool := isIPv4 s || isIPv6 s || isIPv6Zone s

theorem isPeerIP_spec {s : Str} (h : isPeerIP s = true) : s ≠ [] ∧ noBrackets s := by
  simp only [isPeerIP, Bool.or_eq_true] at h
  rcases h with (h | h) | h
  · exact ⟨(isIPv4_spec h).1, (isIPv4_spec h).2.noBrackets⟩
  · exact ⟨(isIPv6_spec h).1, (isIPv6_spec h).2.1⟩
  · exact ⟨(isIPv6Zone_spec h).1, (isIPv6Zone_spec h).2.1⟩

/-- splitting a joined address gives the parts back, whichever form `JoinHostPort` chose -/
theorem split_join (ip port : Str) (hip : noBrackets ip) (hport : plain port) :
    splitHostPort (joinHostPort ip port) = .ok (ip, port) := by
  unfold joinHostPort
  split
  · exact split_bracket ip port hip hport
  · rename_i hc
    have : ':' ∉ ip := by intro hm; exact hc (indexOf_isSome.2 hm)
    exact split_plain ip port ⟨this, hip.1, hip.2⟩ hport

theorem extractClientIP_of_split {ra h p : Str} (hs : splitHostPort ra = .ok (h, p)) (hh : h ≠ []) :
    extractClientIP ra = .ok (h, 1) := by
  simp [extractClientIP, hs, hh]

theorem extractClientIP_of_split_err {ra : Str} {e : SplitErr} (hs : splitHostPort ra = .error e) (hh : ra ≠ []) :
    extractClientIP ra = .ok (ra, 1) := by
  simp [extractClientIP, hs, hh]

/-! ### header lookup -/

theorem headerGet_cons_ne (a : Str × Str) (t : List (Str × Str)) (name : Str)
    (h : canonKey a.1 ≠ canonKey name) : headerGet (a :: t) name = headerGet t name := by
  simp [headerGet, h]

theorem headerGet_cons_eq (a : Str × Str) (t : List (Str × Str)) (name : Str)
    (h : canonKey a.1 = canonKey name) : headerGet (a :: t) name = a.2 := by
  simp [headerGet, h]

theorem headerGet_hit (pre post : List (Str × Str)) (n v name : Str)
    (hn : canonKey n = canonKey name) (hpre : ∀ q ∈ pre, canonKey q.1 ≠ canonKey name) :
    headerGet (pre ++ (n, v) :: post) name = v := by
  induction pre with
  | nil => exact headerGet_cons_eq (n, v) post name hn
  | cons a t ih =>
    rw [List.cons_append, headerGet_cons_ne _ _ _ (hpre a (by simp))]
    exact ih (fun q hq => hpre q (List.mem_cons_of_mem _ hq))

theorem headerGet_miss (hs : List (Str × Str)) (name : Str)
    (h : ∀ q ∈ hs, canonKey q.1 ≠ canonKey name) : headerGet hs name = [] := by
  induction hs with
  | nil => rfl
  | cons a t ih =>
    rw [headerGet_cons_ne _ _ _ (h a (by simp))]
    exact ih (fun q hq => h q (List.mem_cons_of_mem _ hq))

/-! ### `NewExtractor` -/

theorem clientVar_eq : "client.ip".toList = ['c','l','i','e','n','t','.','i','p'] := by decide
theorem hostVar_eq : "request.host".toList = ['r','e','q','u','e','s','t','.','h','o','s','t'] := by decide
theorem headerPrefix_eq : headerPrefix = ['r','e','q','u','e','s','t','.','h','e','a','d','e','r','.'] := by decide

theorem newExtractor_header (name : Str) (hne : name ≠ []) :
    newExtractor (headerPrefix ++ name) = .ok (.header name) := by
  have h1 : headerPrefix ++ name ≠ "client.ip".toList := by
    rw [clientVar_eq, headerPrefix_eq]; simp
  have h2 : headerPrefix ++ name ≠ "request.host".toList := by
    rw [hostVar_eq, headerPrefix_eq]; simp
  have h3 : hasPrefix (headerPrefix ++ name) headerPrefix = true := by
    unfold hasPrefix; rw [List.isPrefixOf_iff_prefix]; exact List.prefix_append _ _
  unfold newExtractor
  rw [if_neg h1, if_neg h2, if_pos h3]
  simp only [List.drop_left]
  rw [if_neg hne]

theorem newExtractor_ok_iff (v : Str) (k : Kind) :
    newExtractor v = .ok k ↔
      (v = "client.ip".toList ∧ k = .clientIP) ∨ (v = "request.host".toList ∧ k = .host) ∨
      (∃ name, name ≠ [] ∧ v = headerPrefix ++ name ∧ k = .header name) := by
  constructor
  · intro h
    unfold newExtractor at h
    split at h
    · left; rename_i hv; simp at h; exact ⟨hv, h.symm⟩
    split at h
    · right; left; rename_i hv; simp at h; exact ⟨hv, h.symm⟩
    split at h
    · rename_i hp
      right; right
      unfold hasPrefix at hp
      rw [List.isPrefixOf_iff_prefix, List.prefix_iff_eq_append] at hp
      simp only at h
      split at h
      · cases h
      · rename_i hne
        simp at h
        exact ⟨_, hne, hp.symm, h.symm⟩
    · cases h
  · rintro (⟨rfl, rfl⟩ | ⟨rfl, rfl⟩ | ⟨name, hne, rfl, rfl⟩)
    · unfold newExtractor; rw [if_pos rfl]
    · have : "request.host".toList ≠ "client.ip".toList := by decide
      unfold newExtractor
      rw [if_neg this, if_pos rfl]
    · exact newExtractor_header name hne

end Source
