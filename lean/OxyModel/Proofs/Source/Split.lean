import OxyModel.Model.Source

/-! `net.SplitHostPort` on the model: search lemmas, split-of-join, exact characterisation of success. -/
namespace Source

theorem indexOf_eq_none {c : Char} {l : Str} : indexOf c l = none ↔ c ∉ l := by
  induction l with
  | nil => simp [indexOf]
  | cons x t ih =>
    by_cases h : x = c
    · simp [indexOf, h]
    · have h' : ¬ c = x := fun e => h e.symm
      simp [indexOf, h, h', ih]

theorem indexOf_isSome {c : Char} {l : Str} : (indexOf c l).isSome = true ↔ c ∈ l := by
  rw [Option.isSome_iff_ne_none, Ne, indexOf_eq_none, Classical.not_not]

theorem lastIndexOf_eq_none {c : Char} {l : Str} : lastIndexOf c l = none ↔ c ∉ l := by
  induction l with
  | nil => simp [lastIndexOf]
  | cons x t ih =>
    unfold lastIndexOf
    cases hl : lastIndexOf c t with
    | some j =>
      have : c ∈ t := by
        apply Classical.byContradiction; intro hn; rw [ih.2 hn] at hl; cases hl
      simp [this]
    | none =>
      have hn := ih.1 hl
      by_cases h : x = c
      · simp [h]
      · have h' : ¬ c = x := fun e => h e.symm
        simp [h, h', hn]

theorem indexOf_some_spec {c : Char} {l : Str} {e : Nat} (h : indexOf c l = some e) :
    l = l.take e ++ c :: l.drop (e + 1) ∧ c ∉ l.take e ∧ e < l.length := by
  induction l generalizing e with
  | nil => simp [indexOf] at h
  | cons x t ih =>
    unfold indexOf at h
    split at h
    · rename_i hx; simp at h; subst h; subst hx; simp
    · rename_i hx
      cases ht : indexOf c t with
      | none => simp [ht] at h
      | some e' =>
        simp [ht] at h; subst h
        obtain ⟨h1, h2, h3⟩ := ih ht
        have h' : ¬ c = x := fun e => hx e.symm
        refine ⟨?_, ?_, ?_⟩
        · simp; exact h1
        · simp [h', h2]
        · simp; omega

theorem lastIndexOf_some_spec {c : Char} {l : Str} {i : Nat} (h : lastIndexOf c l = some i) :
    l = l.take i ++ c :: l.drop (i + 1) ∧ c ∉ l.drop (i + 1) ∧ i < l.length := by
  induction l generalizing i with
  | nil => simp [lastIndexOf] at h
  | cons x t ih =>
    unfold lastIndexOf at h
    cases ht : lastIndexOf c t with
    | some j =>
      simp [ht] at h; subst h
      obtain ⟨h1, h2, h3⟩ := ih ht
      refine ⟨?_, ?_, ?_⟩
      · simp; exact h1
      · simpa using h2
      · simp; omega
    | none =>
      simp [ht] at h
      obtain ⟨hx, rfl⟩ := h
      subst hx
      refine ⟨by simp, ?_, by simp⟩
      simpa using lastIndexOf_eq_none.1 ht

theorem indexOf_append_cons {c : Char} (a b : Str) (h : c ∉ a) : indexOf c (a ++ c :: b) = some a.length := by
  induction a with
  | nil => simp [indexOf]
  | cons x t ih =>
    simp at h
    have hx : ¬ x = c := fun e => h.1 e.symm
    simp [indexOf, hx, ih h.2]

theorem lastIndexOf_append_cons {c : Char} (a b : Str) (h : c ∉ b) :
    lastIndexOf c (a ++ c :: b) = some a.length := by
  induction a with
  | nil => simp [lastIndexOf, lastIndexOf_eq_none.2 h]
  | cons x t ih => simp [lastIndexOf, ih]

/-- no `':'`, `'['`, `']'` -/
def plain (s : Str) : Prop := ':' ∉ s ∧ '[' ∉ s ∧ ']' ∉ s

/-- no `'['`, `']'` -/
def noBrackets (s : Str) : Prop := '[' ∉ s ∧ ']' ∉ s

theorem plain.noBrackets {s : Str} (h : plain s) : noBrackets s := ⟨h.2.1, h.2.2⟩

/-- `host:port` splits back -/
theorem split_plain (h p : Str) (hh : plain h) (hp : plain p) :
    splitHostPort (h ++ ':' :: p) = .ok (h, p) := by
  obtain ⟨h1, h2, h3⟩ := hh
  obtain ⟨p1, p2, p3⟩ := hp
  unfold splitHostPort
  rw [lastIndexOf_append_cons h p p1]
  have hhead : ¬ (h ++ ':' :: p).head? = some '[' := by
    cases h with
    | nil => simp
    | cons x t => simp at h2 ⊢; exact fun e => h2.1 e.symm
  simp only [hhead, if_false]
  have ht : List.take h.length (h ++ ':' :: p) = h := by simp
  simp only [ht, indexOf_eq_none.2 h1, Option.isSome_none, Bool.false_eq_true, if_false]
  have e1 : (indexOf '[' (h ++ ':' :: p)).isSome = false := by
    rw [Bool.eq_false_iff, Ne, indexOf_isSome]; simp [h2, p2]
  have e2 : (indexOf ']' (h ++ ':' :: p)).isSome = false := by
    rw [Bool.eq_false_iff, Ne, indexOf_isSome]; simp [h3, p3]
  simp [splitTail, e1, e2]

/-- `[host]:port` splits back -/
theorem split_bracket (h p : Str) (hh : noBrackets h) (hp : plain p) :
    splitHostPort ('[' :: (h ++ ']' :: ':' :: p)) = .ok (h, p) := by
  obtain ⟨h2, h3⟩ := hh
  obtain ⟨p1, p2, p3⟩ := hp
  unfold splitHostPort
  have hl : lastIndexOf ':' ('[' :: (h ++ ']' :: ':' :: p)) = some (h.length + 2) := by
    have := lastIndexOf_append_cons ('[' :: h ++ [']']) p p1
    simpa using this
  have hi : indexOf ']' ('[' :: (h ++ ']' :: ':' :: p)) = some (h.length + 1) := by
    have := indexOf_append_cons (c := ']') ('[' :: h) (':' :: p) (by simp [h3])
    simpa using this
  rw [hl, hi]
  have hlen : ¬ (h.length + 1 + 1 = ('[' :: (h ++ ']' :: ':' :: p)).length) := by simp
  simp only [List.head?_cons, if_true, hlen, if_false]
  have e1 : (indexOf '[' (h ++ ']' :: ':' :: p)).isSome = false := by
    rw [Bool.eq_false_iff, Ne, indexOf_isSome]; simp [h2, p2]
  have d2 : List.drop (h.length + 1) (h ++ ']' :: ':' :: p) = ':' :: p := by
    have : h ++ ']' :: ':' :: p = (h ++ [']']) ++ ':' :: p := by simp
    rw [this]
    have : h.length + 1 = (h ++ [']']).length := by simp
    rw [this, List.drop_left]
  have e2 : (indexOf ']' (':' :: p)).isSome = false := by
    rw [Bool.eq_false_iff, Ne, indexOf_isSome]; simp [p3]
  have d3 : List.drop (h.length + 2) (h ++ ']' :: ':' :: p) = p := by
    have : h ++ ']' :: ':' :: p = (h ++ [']', ':']) ++ p := by simp
    rw [this]
    have : h.length + 2 = (h ++ [']', ':']).length := by simp
    rw [this, List.drop_left]
  have d4 : List.take h.length (h ++ ']' :: ':' :: p) = h := by simp
  simp [splitTail, e1, e2, d2, d3, d4]

theorem drop_of_split {l : Str} {i : Nat} {c : Char} {r : Str} (h : l = l.take i ++ c :: r)
    (hi : i < l.length) : l.drop i = c :: r := by
  induction l generalizing i with
  | nil => simp at hi
  | cons x t ih =>
    cases i with
    | zero => simpa using h
    | succ i =>
      simp at h hi
      simpa using ih h (by omega)

theorem not_mem_take {c : Char} {l : Str} (n : Nat) (h : c ∉ l) : c ∉ l.take n :=
  fun hm => h (List.mem_of_mem_take hm)

theorem not_mem_drop {c : Char} {l : Str} (n : Nat) (h : c ∉ l) : c ∉ l.drop n :=
  fun hm => h (List.mem_of_mem_drop hm)

/-- a successful split is the inverse of one of the two join shapes -/
theorem split_ok_spec {hp h p : Str} (hs : splitHostPort hp = .ok (h, p)) :
    (hp = h ++ ':' :: p ∧ plain h ∧ plain p) ∨
    (hp = '[' :: (h ++ ']' :: ':' :: p) ∧ noBrackets h ∧ plain p) := by
  unfold splitHostPort at hs
  cases hl : lastIndexOf ':' hp with
  | none => simp [hl] at hs
  | some i =>
    simp only [hl] at hs
    split at hs
    · -- bracketed
      rename_i hhead
      cases hp with
      | nil => simp at hhead
      | cons x t =>
        simp at hhead; subst hhead
        cases he : indexOf ']' ('[' :: t) with
        | none => simp [he] at hs
        | some e =>
          simp only [he] at hs
          split at hs
          · cases hs
          split at hs
          · rename_i hne hei
            subst hei
            -- e = e' + 1 with e' the position in t
            have hx : ¬ '[' = ']' := by decide
            simp only [indexOf, hx, if_false] at he
            cases he' : indexOf ']' t with
            | none => simp [he'] at he
            | some e' =>
              simp [he'] at he; subst he
              obtain ⟨e1, e2, e3⟩ := indexOf_some_spec he'
              -- position of the last colon in t
              have hlt : lastIndexOf ':' t = some (e' + 1) := by
                unfold lastIndexOf at hl
                cases hj : lastIndexOf ':' t with
                | none => simp [hj] at hl
                | some j => simp [hj] at hl; rw [← hl]
              obtain ⟨l1, l2, l3⟩ := lastIndexOf_some_spec hlt
              have hd := drop_of_split l1 l3
              unfold splitTail at hs
              split at hs
              · cases hs
              split at hs
              · cases hs
              rename_i ho hc
              simp at hs
              obtain ⟨rfl, rfl⟩ := hs
              simp only [Bool.not_eq_true] at ho hc
              have ho' : '[' ∉ t := by
                intro hm; have := indexOf_isSome.2 hm; simp at ho; simp [ho] at this
              have hc' : ']' ∉ List.drop (e' + 1) t := by
                intro hm; have := indexOf_isSome.2 hm; simp at hc; simp [hc] at this
              right
              refine ⟨?_, ⟨?_, ?_⟩, ?_, ?_, ?_⟩
              · congr 1
                show t = List.take e' t ++ ']' :: ':' :: List.drop (e' + 1 + 1) t
                rw [← hd]; exact e1
              · exact not_mem_take _ ho'
              · exact e2
              · exact l2
              · exact not_mem_drop _ ho'
              · intro hm
                apply hc'
                have : List.drop (e' + 2) t = List.drop 1 (List.drop (e' + 1) t) := by
                  rw [List.drop_drop]
                rw [this] at hm
                exact List.mem_of_mem_drop hm
          · split at hs <;> cases hs
    · -- host:port
      rename_i hhead
      obtain ⟨l1, l2, l3⟩ := lastIndexOf_some_spec hl
      split at hs
      · cases hs
      rename_i hcol
      unfold splitTail at hs
      split at hs
      · cases hs
      split at hs
      · cases hs
      rename_i ho hc
      simp at hs
      obtain ⟨rfl, rfl⟩ := hs
      have hcol' : ':' ∉ List.take i hp := by
        intro hm; have := indexOf_isSome.2 hm; simp [this] at hcol
      have ho' : '[' ∉ hp := by
        intro hm; have := indexOf_isSome.2 hm; simp at ho; simp [ho] at this
      have hc' : ']' ∉ hp := by
        intro hm; have := indexOf_isSome.2 hm; simp at hc; simp [hc] at this
      left
      exact ⟨l1, ⟨hcol', not_mem_take _ ho', not_mem_take _ hc'⟩, l2, not_mem_drop _ ho', not_mem_drop _ hc'⟩

/-- **exact characterisation** of the addresses `net.SplitHostPort` accepts -/
theorem split_ok_iff (hp h p : Str) :
    splitHostPort hp = .ok (h, p) ↔
      (hp = h ++ ':' :: p ∧ plain h ∧ plain p) ∨
      (hp = '[' :: (h ++ ']' :: ':' :: p) ∧ noBrackets h ∧ plain p) := by
  constructor
  · exact split_ok_spec
  · rintro (⟨rfl, hh, hp⟩ | ⟨rfl, hh, hp⟩)
    · exact split_plain h p hh hp
    · exact split_bracket h p hh hp

end Source
