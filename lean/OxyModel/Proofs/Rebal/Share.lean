import OxyModel.Proofs.Rebal.Serve

/-! Adjustments: when they cannot happen, what they do to shares, convergence steps. -/
namespace RB
open PoolM RR

/-- `UpsertServer` / `RemoveServer` -/
def Op.isAdmin : Op → Prop
  | .upsert _ _ => True
  | .upsertFailing _ _ => True
  | .remove _ => True
  | _ => False

theorem Reb.adjust_not_expired {r : Reb} {now : Nat} (h : ¬ r.timer < (now : Int)) : r.adjust now = r := by
  unfold Reb.adjust Reb.timerExpired
  simp [h]

/-- the effective weights and the timer after a non-administrative operation made while the timer
    has not expired -/
theorem Sys.step_frozen {s : Sys} (h : s.Inv) (op : Op) (hna : ¬ op.isAdmin) (ht : ¬ s.reb.timer < (s.now : Int)) :
    (s.step op).1.bal.ws = s.bal.ws ∧ (s.step op).1.reb.timer = s.reb.timer := by
  cases op with
  | upsert u w => exact absurd trivial hna
  | upsertFailing u w => exact absurd trivial hna
  | remove u => exact absurd trivial hna
  | next =>
    obtain ⟨_, e2, _, _⟩ := Sys.step_next_out h
    exact ⟨e2, rfl⟩
  | serve cookie mt =>
    obtain ⟨rw_, ru, rr, rws, _⟩ := Bal.route_wf h.bal s.sticky cookie
    unfold Sys.step
    simp only
    cases hrt : (s.bal.route s.sticky cookie).1 with
    | err e => exact ⟨rws, rfl⟩
    | fwd ref st =>
      simp only
      obtain ⟨_, f2, _, _⟩ := Bal.route_fwd h.bal hrt
      obtain ⟨_, _, _, m4, _, _⟩ := Bal.mutate_wf rw_ (r := ref) (by rw [rr]; exact f2) mt
      by_cases hv : s.viaRb = true
      · rw [if_pos hv]
        have : (s.withBal ((s.bal.route s.sticky cookie).2.mutate ref mt)).reb.adjust s.now =
            (s.withBal ((s.bal.route s.sticky cookie).2.mutate ref mt)).reb := Reb.adjust_not_expired ht
        show ((s.withBal ((s.bal.route s.sticky cookie).2.mutate ref mt)).reb.adjust s.now).bal.ws = _ ∧
          ((s.withBal ((s.bal.route s.sticky cookie).2.mutate ref mt)).reb.adjust s.now).timer = _
        rw [this]
        exact ⟨m4.trans rws, rfl⟩
      · rw [if_neg hv]
        exact ⟨m4.trans rws, rfl⟩
  | rate k v =>
    unfold Sys.step Reb.setRating
    simp only
    cases s.reb.find k <;> exact ⟨rfl, rfl⟩
  | ready k v =>
    unfold Sys.step Reb.setReady
    simp only
    cases s.reb.find k <;> exact ⟨rfl, rfl⟩
  | adv ns => exact ⟨rfl, rfl⟩

/-- **no second change before the timer**: along any continuation without administration calls the
    effective weights and the timer stay as they are for as long as the clock has not passed the timer -/
theorem Sys.frozen_until_timer (tail : List Op) : ∀ {s : Sys}, s.Inv → (∀ op ∈ tail, ¬ op.isAdmin) →
    ((s.applyOps tail).now : Int) ≤ s.reb.timer →
    (s.applyOps tail).bal.ws = s.bal.ws ∧ (s.applyOps tail).reb.timer = s.reb.timer := by
  induction tail with
  | nil => intro s _ _ _; exact ⟨rfl, rfl⟩
  | cons op tail ih =>
    intro s h hna hnow
    obtain ⟨a, _, c⟩ := Sys.step_spec h (sp := s.configured) (fun _ => rfl) op
    obtain ⟨_, _, c'⟩ := Sys.applyOps_spec tail a (sp := (s.step op).1.configured) (fun _ => rfl)
    have hle : (s.now : Int) ≤ s.reb.timer := by
      have h1 : s.now ≤ ((s.step op).1.applyOps tail).now := le_trans c.now c'.now
      have h2 : (((s.step op).1.applyOps tail).now : Int) ≤ s.reb.timer := hnow
      omega
    obtain ⟨e1, e2⟩ := Sys.step_frozen h op (hna op List.mem_cons_self) (by omega)
    obtain ⟨f1, f2⟩ := ih a (fun o ho => hna o (List.mem_cons_of_mem _ ho))
      (by rw [e2]; exact hnow)
    exact ⟨f1.trans e1, f2.trans e2⟩

/-! ### shares -/

theorem sumCur_eq (ps : List Rec) : sumCur ps = (ps.map (·.cur)).sum := rfl

/-- the adjustment that runs when the marking is mixed -/
theorem Reb.adjust_marked {r : Reb} {now : Nat} (hm : r.marks.2 = true) :
    r.adjust now = r ∨
    ((r.adjust now).servers = (setMarked (r.servers.zip r.marks.1)).1 ∧ 2 ≤ r.servers.length ∧
      r.metricsReady = true ∧ r.timer < (now : Int)) := by
  unfold Reb.adjust
  split
  · exact Or.inl rfl
  · split
    · exact Or.inl rfl
    · split
      · exact Or.inl rfl
      · rename_i h1 h2 h3
        simp only
        split
        · right
          refine ⟨?_, by omega, by simpa using h2, by unfold Reb.timerExpired at h3; simpa using h3⟩
          show r.newWeights.1 = _
          unfold Reb.newWeights
          simp only [hm, if_true]
        · exact Or.inl rfl

/-- **an adjustment made while some servers are rated as outliers never increases the share of a
    server that is not rated good** -/
theorem Reb.adjust_share_le (r : Reb) (now : Nat) (hm : r.marks.2 = true) (i : Nat) (p p' : Rec)
    (hp : r.servers[i]? = some p) (hp' : (r.adjust now).servers[i]? = some p')
    (hbad : r.marks.1[i]? = some false) :
    p'.cur * sumCur r.servers ≤ p.cur * sumCur (r.adjust now).servers := by
  rcases Reb.adjust_marked (now := now) hm with e | ⟨e, _⟩
  · rw [e] at hp' ⊢
    rw [hp] at hp'; cases hp'; exact le_rfl
  · rw [e] at hp' ⊢
    have hi : i < r.servers.length := by
      by_contra hlt; rw [List.getElem?_eq_none (by omega)] at hp; cases hp
    have hz : i < (r.servers.zip r.marks.1).length := by
      simp [Reb.marks_length, hi]
    have hzi : (r.servers.zip r.marks.1)[i] = (p, false) := by
      rw [List.getElem_zip]
      have h1 : r.servers[i] = p := by
        rw [List.getElem?_eq_getElem hi] at hp; exact Option.some.inj hp
      have hl : i < r.marks.1.length := by rw [Reb.marks_length]; exact hi
      have h2 : r.marks.1[i] = false := by
        rw [List.getElem?_eq_getElem hl] at hbad; exact Option.some.inj hbad
      rw [h1, h2]
    have := setMarked_share_le (r.servers.zip r.marks.1) i hz (by rw [hzi])
    rw [Reb.zip_marks_fst, hzi] at this
    have hl' : i < (setMarked (r.servers.zip r.marks.1)).1.length := by rw [setMarked_length]; exact hz
    rw [List.getElem?_eq_getElem hl'] at hp'
    rw [← Option.some.inj hp']
    exact this

/-- **an outlier loses share** when the adjustment runs and a good server can still grow -/
theorem Reb.adjust_share_lt (r : Reb) (now : Nat) (hm : r.marks.2 = true) (hlen : 2 ≤ r.servers.length)
    (hready : r.metricsReady = true) (hexp : r.timer < (now : Int)) (i : Nat) (p p' : Rec)
    (hp : r.servers[i]? = some p) (hp' : (r.adjust now).servers[i]? = some p')
    (hbad : r.marks.1[i]? = some false) (hpos : 0 < p.cur)
    (hgood : ∃ (j : Nat) (q : Rec), r.servers[j]? = some q ∧ r.marks.1[j]? = some true ∧ 0 < q.cur ∧ 4 * q.cur ≤ 4096) :
    p'.cur * sumCur r.servers < p.cur * sumCur (r.adjust now).servers := by
  have hi : i < r.servers.length := by
    by_contra hlt; rw [List.getElem?_eq_none (by omega)] at hp; cases hp
  have hg : ∃ q ∈ r.servers.zip r.marks.1, grows q.1 q.2 = true ∧ 0 < q.1.cur := by
    obtain ⟨j, q, hq, hmj, hqpos, hqcap⟩ := hgood
    have hj : j < r.servers.length := by
      by_contra hlt; rw [List.getElem?_eq_none (by omega)] at hq; cases hq
    have hjz : j < (r.servers.zip r.marks.1).length := by simp [Reb.marks_length, hj]
    refine ⟨(q, true), ?_, ?_, hqpos⟩
    · have : (r.servers.zip r.marks.1)[j] = (q, true) := by
        rw [List.getElem_zip]
        have h1 : r.servers[j] = q := by
          rw [List.getElem?_eq_getElem hj] at hq; exact Option.some.inj hq
        have hl : j < r.marks.1.length := by rw [Reb.marks_length]; exact hj
        have h2 : r.marks.1[j] = true := by
          rw [List.getElem?_eq_getElem hl] at hmj; exact Option.some.inj hmj
        rw [h1, h2]
      rw [← this]; exact List.getElem_mem hjz
    · unfold grows increase fsmGrowFactor fsmMaxWeight
      simp; omega
  have hfire : (r.adjust now).servers = (setMarked (r.servers.zip r.marks.1)).1 := by
    have hany : (r.servers.zip r.marks.1).any (fun q => grows q.1 q.2) = true := by
      obtain ⟨q, hq, hgq, _⟩ := hg
      exact List.any_eq_true.mpr ⟨q, hq, hgq⟩
    unfold Reb.adjust
    have h1 : ¬ r.servers.length < 2 := by omega
    have h3 : r.timerExpired now = true := by unfold Reb.timerExpired; simpa using hexp
    have hnw : r.newWeights = setMarked (r.servers.zip r.marks.1) := by
      unfold Reb.newWeights; simp only [hm, if_true]
    have hch : r.newWeights.2 = true := by
      rw [hnw]; unfold setMarked; rw [if_pos hany]
    simp only [h1, hready, h3, if_false, Bool.not_true, Bool.false_eq_true, hch, if_true]
    exact congrArg Prod.fst hnw
  rw [hfire] at hp' ⊢
  have hz : i < (r.servers.zip r.marks.1).length := by simp [Reb.marks_length, hi]
  have hzi : (r.servers.zip r.marks.1)[i] = (p, false) := by
    rw [List.getElem_zip]
    have h1 : r.servers[i] = p := by
      rw [List.getElem?_eq_getElem hi] at hp; exact Option.some.inj hp
    have hl : i < r.marks.1.length := by rw [Reb.marks_length]; exact hi
    have h2 : r.marks.1[i] = false := by
      rw [List.getElem?_eq_getElem hl] at hbad; exact Option.some.inj hbad
    rw [h1, h2]
  have := setMarked_share_lt (r.servers.zip r.marks.1) i hz (by rw [hzi]) (by rw [hzi]; exact hpos) hg
  rw [Reb.zip_marks_fst, hzi] at this
  have hl' : i < (setMarked (r.servers.zip r.marks.1)).1.length := by rw [setMarked_length]; exact hz
  rw [List.getElem?_eq_getElem hl'] at hp'
  rw [← Option.some.inj hp']
  exact this

/-! ### converging adjustments -/

/-- an adjustment that runs (≥ 2 servers, all meters ready, timer expired) with no server rated
    differently from the others: `convergeWeights` -/
theorem Reb.adjust_converge {r : Reb} {now : Nat} (hlen : 2 ≤ r.servers.length) (hready : r.metricsReady = true)
    (hexp : r.timer < (now : Int)) (hm : r.marks.2 = false) :
    (r.adjust now).servers = (converge r.servers).1 := by
  unfold Reb.adjust
  have h1 : ¬ r.servers.length < 2 := by omega
  have h3 : r.timerExpired now = true := by unfold Reb.timerExpired; simpa using hexp
  have hnw : r.newWeights = converge r.servers := by
    unfold Reb.newWeights; simp [hm]
  simp only [h1, hready, h3, if_false, Bool.not_true, Bool.false_eq_true]
  split
  · exact congrArg Prod.fst hnw
  · rename_i hch
    rw [hnw] at hch
    unfold converge at hch ⊢
    split
    · rename_i hc; rw [if_pos hc] at hch; simp at hch
    · rfl

/-- same configured and effective weights, record by record (meters may differ) -/
def SameWeights (ps qs : List Rec) : Prop :=
  ps.map (fun p => (p.orig, p.cur)) = qs.map (fun p => (p.orig, p.cur))

theorem SameWeights.bounded {ps qs : List Rec} (h : SameWeights ps qs) {T : Nat}
    (hb : ∀ p ∈ ps, Bounded T p) : ∀ q ∈ qs, Bounded T q := by
  intro q hq
  have : (q.orig, q.cur) ∈ qs.map (fun p => (p.orig, p.cur)) := List.mem_map.mpr ⟨q, hq, rfl⟩
  rw [← h] at this
  obtain ⟨p, hp, e⟩ := List.mem_map.mp this
  have := hb p hp
  simp only [Prod.mk.injEq] at e
  unfold Bounded at this ⊢
  rw [← e.1, ← e.2]; exact this

/-- one converging adjustment, possibly after meter readings changed -/
def ConvAdj (a b : Reb) : Prop :=
  ∃ (a' : Reb) (now : Nat), SameWeights a.servers a'.servers ∧ 2 ≤ a'.servers.length ∧ a'.metricsReady = true ∧
    a'.timer < (now : Int) ∧ a'.marks.2 = false ∧ b = a'.adjust now

theorem ConvAdj.bounded {a b : Reb} (h : ConvAdj a b) {T : Nat} (hb : ∀ p ∈ a.servers, Bounded (4 * T) p) :
    ∀ q ∈ b.servers, Bounded T q := by
  obtain ⟨a', now, hs, h1, h2, h3, h4, rfl⟩ := h
  rw [Reb.adjust_converge h1 h2 h3 h4]
  exact converge_bounded T _ (hs.bounded hb)

theorem ConvAdj.final {a b : Reb} (h : ConvAdj a b) (hb : ∀ p ∈ a.servers, Bounded 4 p) :
    Proportional b.servers := by
  obtain ⟨a', now, hs, h1, h2, h3, h4, rfl⟩ := h
  rw [Reb.adjust_converge h1 h2 h3 h4]
  exact converge_final _ (hs.bounded hb)

end RB

namespace RB
open PoolM RR

/-- which records an adjustment produces does not depend on the balancer it is applied to -/
theorem Reb.adjust_servers_bal (r : Reb) (b : Bal) (now : Nat) :
    (({ r with bal := b } : Reb).adjust now).servers = (r.adjust now).servers := by
  unfold Reb.adjust Reb.metricsReady Reb.timerExpired Reb.newWeights Reb.marks
  simp only
  split
  · rfl
  · split
    · rfl
    · split
      · rfl
      · split
        · split <;> rfl
        · split <;> rfl

end RB
