import OxyModel.Proofs.Pool.Bal
import OxyModel.Proofs.Rebal.Arith

/-! Invariants of the rebalancer over its balancer: the shadow records and the balancer's servers
are the same keys in the same order with `curWeight` = the balancer's weight; weights stay in range;
the shadow records' configured weights follow the administration calls. -/
namespace RB
open PoolM RR

/-! ### list helpers -/

theorem map_modify_same {α β : Type} (g : α → β) (f : α → α) (h : ∀ a, g (f a) = g a) (l : List α) (i : Nat) :
    (l.modify i f).map g = l.map g := by
  apply List.ext_getElem?
  intro j
  simp only [List.getElem?_map, List.getElem?_modify]
  cases l[j]? with
  | none => rfl
  | some a => by_cases hij : i = j <;> simp [hij, h]

theorem map_modify_set {α β : Type} (g : α → β) (f : α → α) (x : β) (h : ∀ a, g (f a) = x) (l : List α) (i : Nat) :
    (l.modify i f).map g = (l.map g).set i x := by
  apply List.ext_getElem?
  intro j
  simp only [List.getElem?_map, List.getElem?_modify, List.getElem?_set]
  by_cases hij : i = j
  · subst hij
    cases hl : l[i]? with
    | none =>
      have : ¬ i < l.length := by
        intro hlt; rw [List.getElem?_eq_getElem hlt] at hl; cases hl
      simp [this]
    | some a =>
      have : i < l.length := by
        by_contra hlt; rw [List.getElem?_eq_none (by omega)] at hl; cases hl
      simp [this, h]
  · cases l[j]? <;> simp [hij]

/-! ### `applyWeights` -/

theorem applyWeights_fold (ps : List Rec) : ∀ (b : Bal), b.WF → (∀ s ∈ ps, s.key ∈ b.view.keys) →
    (Reb.applyWeights b ps).WF ∧
    (Reb.applyWeights b ps).view = b.view.applyAll (ps.map fun s => (s.key, s.cur)) ∧
    (Reb.applyWeights b ps).urls = b.urls ∧ (Reb.applyWeights b ps).refs = b.refs ∧
    (Reb.applyWeights b ps).heap = b.heap := by
  induction ps with
  | nil => intro b hb _; exact ⟨hb, rfl, rfl, rfl, rfl⟩
  | cons s ps ih =>
    intro b hb hm
    have hs : s.url.key ∈ b.view.keys := hm s List.mem_cons_self
    have hwf := Bal.upsert_wf hb s.url (some s.cur)
    have hv := Bal.upsert_view hb s.url (some s.cur)
    obtain ⟨hu, hr, hh⟩ := Bal.upsert_urls_of_mem (b := b) s.url (some s.cur) hs
    have hk : (b.upsert s.url (some s.cur)).view.keys = b.view.keys := by
      rw [hv, Pool.upsert_keys, if_pos hs]
    obtain ⟨i1, i2, i3, i4, i5⟩ := ih (b.upsert s.url (some s.cur)) hwf
      (fun t ht => by rw [hk]; exact hm t (List.mem_cons_of_mem _ ht))
    refine ⟨i1, ?_, i3.trans hu, i4.trans hr, i5.trans hh⟩
    show (Reb.applyWeights (b.upsert s.url (some s.cur)) ps).view = _
    rw [i2, hv]
    rfl

theorem applyWeights_spec {b : Bal} (hb : b.WF) (ps : List Rec) (hk : ps.map Rec.key = b.view.keys) :
    (Reb.applyWeights b ps).WF ∧ (Reb.applyWeights b ps).view.keys = b.view.keys ∧
    (Reb.applyWeights b ps).ws = ps.map (·.cur) ∧ (Reb.applyWeights b ps).urls = b.urls ∧
    (Reb.applyWeights b ps).refs = b.refs ∧ (Reb.applyWeights b ps).heap = b.heap := by
  have hm : ∀ s ∈ ps, s.key ∈ b.view.keys := by
    intro s hs; rw [← hk]; exact List.mem_map.mpr ⟨s, hs, rfl⟩
  obtain ⟨h1, h2, h3, h4, h5⟩ := applyWeights_fold ps b hb hm
  have := Pool.applyAll_spec hb.view (ps.map fun s => (s.key, s.cur)) (by rw [List.map_map]; exact hk)
  refine ⟨h1, by rw [h2]; exact this.1, ?_, h3, h4, h5⟩
  have e : (Reb.applyWeights b ps).ws = (Reb.applyWeights b ps).view.ws := rfl
  rw [e, h2, this.2, List.map_map]; rfl

/-! ### the invariant -/

structure Reb.Inv (r : Reb) : Prop where
  bal : r.bal.WF
  keys : r.servers.map Rec.key = r.bal.view.keys
  ws : r.servers.map (·.cur) = r.bal.ws
  bounded : ∀ p ∈ r.servers, Bounded fsmMaxWeight p
  pos : ∀ p ∈ r.servers, Pos p

theorem Reb.init_inv (bo : Nat) (nr : Bool) : (Reb.init bo nr).Inv :=
  ⟨Bal.empty_wf, rfl, rfl, by simp [Reb.init], by simp [Reb.init]⟩

/-- `reset()`: what it establishes from key-synchrony alone -/
theorem Reb.reset_spec {r : Reb} (hb : r.bal.WF) (hk : r.servers.map Rec.key = r.bal.view.keys) (now : Nat) :
    (r.reset now).Inv ∧ (∀ p ∈ (r.reset now).servers, p.cur = p.orig) ∧
    (r.reset now).servers.map Rec.rest = r.servers.map Rec.rest ∧
    (r.reset now).timer = (now : Int) - second ∧ (r.reset now).bal.urls = r.bal.urls ∧
    (r.reset now).bal.refs = r.bal.refs ∧ (r.reset now).bal.heap = r.bal.heap ∧
    (r.reset now).backoff = r.backoff ∧ (r.reset now).newReady = r.newReady := by
  have hk' : (r.servers.map fun s => { s with cur := s.orig }).map Rec.key = r.bal.view.keys := by
    rw [List.map_map, ← hk]; rfl
  obtain ⟨a1, a2, a3, a4, a5, a6⟩ := applyWeights_spec hb _ hk'
  have hall : ∀ p ∈ (r.reset now).servers, p.cur = p.orig := by
    intro p hp
    obtain ⟨s, _, rfl⟩ := List.mem_map.mp hp
    rfl
  refine ⟨⟨a1, ?_, a3.symm, ?_, ?_⟩, hall, ?_, rfl, a4, a5, a6, rfl, rfl⟩
  · show (r.servers.map fun s => { s with cur := s.orig }).map Rec.key = _
    rw [hk']; exact a2.symm
  · intro p hp
    have := hall p hp
    exact ⟨by rw [this]; exact le_max_left _ _, fun h0 => by rw [this]; exact h0⟩
  · intro p hp ho
    rw [hall p hp]; exact ho
  · show (r.servers.map fun s => { s with cur := s.orig }).map Rec.rest = _
    rw [List.map_map]; rfl

/-! ### the shadow records as a pool of configured weights -/

/-- keys and configured weights of the shadow records, as an `RR.Pool` -/
def Reb.shadow (r : Reb) : Pool Key := ⟨r.servers.map Rec.key, r.servers.map (·.orig), It.reset⟩

/-- the configured weight the rebalancer remembers for a key -/
def Reb.configured (r : Reb) (k : Key) : Option Nat := r.shadow.weight k

/-- the model's `findServer` searches with the product `BEq`, `RR.Pool.find` with the one from
    `DecidableEq`: the same function -/
theorem idxOf_inst (k : Key) (l : List Key) :
    @List.idxOf? Key instBEqProd k l = @List.idxOf? Key instBEqOfDecidableEq k l := by
  unfold List.idxOf?
  congr 1
  funext x
  rw [Bool.eq_iff_iff]; simp

theorem Reb.find_eq (r : Reb) (k : Key) : r.find k = r.shadow.find k := by
  unfold Reb.find Reb.shadow Pool.find; exact idxOf_inst _ _

theorem shadow_of_rest {r1 r2 : Reb} (h : r1.servers.map Rec.rest = r2.servers.map Rec.rest) :
    r1.shadow = r2.shadow := by
  have hk : r1.servers.map Rec.key = r2.servers.map Rec.key := by
    have := congrArg (List.map (fun t : URL × Nat × Rat × Bool => t.1.key)) h
    show r1.servers.map (fun x : Rec => x.url.key) = r2.servers.map (fun x : Rec => x.url.key)
    simpa [List.map_map, Function.comp_def, Rec.rest] using this
  have ho : r1.servers.map (·.orig) = r2.servers.map (·.orig) := by
    have := congrArg (List.map (fun t : URL × Nat × Rat × Bool => t.2.1)) h
    simpa [List.map_map, Function.comp_def, Rec.rest] using this
  unfold Reb.shadow; rw [hk, ho]

theorem keys_of_rest {ps qs : List Rec} (h : ps.map Rec.rest = qs.map Rec.rest) :
    ps.map Rec.key = qs.map Rec.key := by
  have := congrArg (List.map (fun t : URL × Nat × Rat × Bool => t.1.key)) h
  show ps.map (fun x : Rec => x.url.key) = qs.map (fun x : Rec => x.url.key)
  simpa [List.map_map, Function.comp_def, Rec.rest] using this

theorem Reb.Inv.shadow_wf {r : Reb} (h : r.Inv) : r.shadow.WF :=
  ⟨by simp [Reb.shadow], by show (r.servers.map Rec.key).Nodup; rw [h.keys]; exact h.bal.nodup⟩

theorem Reb.Inv.find_bal {r : Reb} (h : r.Inv) (k : Key) : r.bal.view.find k = r.find k := by
  unfold Reb.find Pool.find; rw [h.keys]; exact (idxOf_inst _ _).symm

theorem set_getD_self (l : List Nat) (i : Nat) : l.set i (l.getD i 0) = l := by
  apply List.ext_getElem?
  intro j
  rw [List.getElem?_set]
  by_cases hij : i = j
  · subst hij
    by_cases hl : i < l.length
    · simp [hl, List.getD_eq_getElem?_getD]
    · simp [hl]
  · simp [hij]

/-- `UpsertServer` through the rebalancer -/
theorem Reb.upsert_spec {r : Reb} (h : r.Inv) (now : Nat) (u : URL) (w : Option Nat) :
    (r.upsert now u w).Inv ∧
    (r.upsert now u w).shadow.keys = (r.shadow.upsert u.key w).keys ∧
    (r.upsert now u w).shadow.ws = (r.shadow.upsert u.key w).ws ∧
    (∀ p ∈ (r.upsert now u w).servers, p.cur = p.orig) ∧
    (r.upsert now u w).timer = (now : Int) - second ∧
    (r.upsert now u w).backoff = r.backoff ∧ (r.upsert now u w).newReady = r.newReady ∧
    r.bal.heap.length ≤ (r.upsert now u w).bal.heap.length := by
  unfold Reb.upsert
  cases hf : r.find u.key with
  | some i =>
    simp only
    have hfb : r.bal.view.find u.key = some i := by rw [h.find_bal]; exact hf
    have hm : u.key ∈ r.bal.view.keys := Pool.find_isSome.mp (by rw [hfb]; rfl)
    generalize hx : Reb.configuredOf ((r.servers.map (·.orig)).getD i 0) w = x
    have hwf := Bal.upsert_wf h.bal u (some x)
    have hv := Bal.upsert_view h.bal u (some x)
    have hk1 : (r.bal.upsert u (some x)).view.keys = r.bal.view.keys := by
      rw [hv, Pool.upsert_keys, if_pos hm]
    have hwt : (r.bal.upsert u (some x)).weight u.key = some x := by
      unfold Bal.weight
      rw [hv, Pool.weight_upsert h.bal.view, if_pos rfl]
      have : (r.bal.view.weight u.key).isSome := Pool.weight_isSome.mpr hm
      cases hw0 : r.bal.view.weight u.key with
      | none => rw [hw0] at this; cases this
      | some old => rfl
    rw [hwt]
    simp only [Option.getD_some]
    have hks : (r.servers.modify i fun s => { s with orig := x }).map Rec.key = r.servers.map Rec.key :=
      map_modify_same Rec.key (fun s => { s with orig := x }) (fun a => rfl) _ _
    obtain ⟨i1, i2, i3, i4, i5, i6, i7, i8, i9⟩ :=
      Reb.reset_spec (r := { r with bal := r.bal.upsert u (some x), servers := r.servers.modify i fun s => { s with orig := x } })
        hwf (by show (r.servers.modify i fun s => { s with orig := x }).map Rec.key = _; rw [hks, hk1]; exact h.keys) now
    have hsh := shadow_of_rest i3
    refine ⟨i1, ?_, ?_, i2, i4, i8, i9, ?_⟩
    · rw [hsh]
      show (r.servers.modify i fun s => { s with orig := x }).map Rec.key = _
      rw [hks, Pool.upsert_keys, if_pos (by show u.key ∈ r.servers.map Rec.key; rw [h.keys]; exact hm)]
      rfl
    · rw [hsh]
      show (r.servers.modify i fun s => { s with orig := x }).map (·.orig) = _
      rw [map_modify_set (fun s : Rec => s.orig) _ x (fun a => rfl)]
      unfold Pool.upsert
      rw [← Reb.find_eq, hf]
      cases w with
      | some w0 => simp only [Reb.configuredOf] at hx; subst hx; rfl
      | none =>
        simp only [Reb.configuredOf] at hx; subst hx
        exact set_getD_self _ _
    · rw [i7]; exact Bal.upsert_heap_le _ _ _
  | none =>
    simp only
    have hfb : r.bal.view.find u.key = none := by rw [h.find_bal]; exact hf
    have hm : u.key ∉ r.bal.view.keys := Pool.find_none.mp hfb
    have hwf := Bal.upsert_wf h.bal u w
    have hv := Bal.upsert_view h.bal u w
    have hk1 : (r.bal.upsert u w).view.keys = r.bal.view.keys ++ [u.key] := by
      rw [hv, Pool.upsert_keys, if_neg hm]
    have hwt : (r.bal.upsert u w).weight u.key = some (Pool.newWeight w) := by
      unfold Bal.weight
      rw [hv, Pool.weight_upsert h.bal.view, if_pos rfl, Pool.weight_none.mpr hm]
    rw [hwt]
    simp only [Option.getD_some]
    obtain ⟨i1, i2, i3, i4, i5, i6, i7, i8, i9⟩ :=
      Reb.reset_spec (r := { r with bal := r.bal.upsert u w, servers := r.servers ++
          [{ url := u, orig := Pool.newWeight w, cur := Pool.newWeight w, rating := 0, ready := r.newReady }] })
        hwf (by simp only [List.map_append, List.map_cons, List.map_nil]; rw [hk1, h.keys]; rfl) now
    have hsh := shadow_of_rest i3
    have hms : u.key ∉ r.shadow.keys := by show u.key ∉ r.servers.map Rec.key; rw [h.keys]; exact hm
    refine ⟨i1, ?_, ?_, i2, i4, i8, i9, ?_⟩
    · rw [hsh, Pool.upsert_keys, if_neg hms]
      simp [Reb.shadow, Rec.key]
    · rw [hsh]
      unfold Pool.upsert
      rw [Pool.find_none.mpr hms]
      cases w <;> simp [Reb.shadow, Pool.newWeight]
    · rw [i7]; exact Bal.upsert_heap_le _ _ _

/-- `UpsertServer` whose meter factory fails: rolled back, nothing but the iterator and the heap differ -/
theorem Reb.upsertMeterFails_spec {r : Reb} (h : r.Inv) (u : URL) (w : Option Nat) (hf : r.find u.key = none) :
    (r.upsertMeterFails u w).Inv ∧ (r.upsertMeterFails u w).servers = r.servers ∧
    (r.upsertMeterFails u w).timer = r.timer ∧ (r.upsertMeterFails u w).backoff = r.backoff ∧
    (r.upsertMeterFails u w).bal.urls = r.bal.urls ∧ (r.upsertMeterFails u w).bal.ws = r.bal.ws := by
  have hk : u.key ∉ r.bal.view.keys := by
    rw [← Pool.find_none, h.find_bal]; exact hf
  obtain ⟨b', hb', hwf, hu, hws, _, _⟩ := Bal.upsert_remove_new h.bal u w hk
  have e : r.upsertMeterFails u w = { r with bal := b' } := by
    unfold Reb.upsertMeterFails; simp only; rw [hb']; rfl
  rw [e]
  exact ⟨⟨hwf, by show r.servers.map Rec.key = b'.view.keys; rw [Bal.view_keys, hu]; exact h.keys,
    by show r.servers.map (·.cur) = b'.ws; rw [hws]; exact h.ws, h.bounded, h.pos⟩, rfl, rfl, rfl, hu, hws⟩

/-- `RemoveServer` through the rebalancer -/
theorem Reb.remove_spec {r r' : Reb} (h : r.Inv) {now : Nat} {u : URL} (hr : r.remove now u = some r') :
    r'.Inv ∧ r.shadow.remove u.key = some r'.shadow ∧ (∀ p ∈ r'.servers, p.cur = p.orig) ∧
    r'.timer = (now : Int) - second ∧ r'.backoff = r.backoff ∧ r'.newReady = r.newReady ∧
    r'.bal.heap = r.bal.heap := by
  unfold Reb.remove at hr
  cases hf : r.find u.key with
  | none => rw [hf] at hr; simp at hr
  | some i =>
    rw [hf] at hr
    simp only at hr
    have hfb : r.bal.view.find u.key = some i := by rw [h.find_bal]; exact hf
    cases hb : r.bal.remove u with
    | none => rw [hb] at hr; simp at hr
    | some b1 =>
      rw [hb] at hr
      simp only [Option.some.injEq] at hr
      have hwf := Bal.remove_wf h.bal hb
      have hv := Bal.remove_view hb
      have hk1 : b1.view.keys = r.bal.view.keys.eraseIdx i := by
        unfold Pool.remove at hv
        rw [hfb] at hv
        simp only [Option.some.injEq] at hv
        rw [← hv]
      obtain ⟨i1, i2, i3, i4, i5, i6, i7, i8, i9⟩ :=
        Reb.reset_spec (r := { r with bal := b1, servers := r.servers.eraseIdx i }) hwf
          (by show (r.servers.eraseIdx i).map Rec.key = _; rw [hk1, ← h.keys, List.eraseIdx_map]) now
      subst hr
      have hsh := shadow_of_rest i3
      refine ⟨i1, ?_, i2, i4, i8, i9, by rw [i7]; exact Bal.remove_heap hb⟩
      rw [hsh]
      unfold Pool.remove
      rw [← Reb.find_eq, hf]
      simp [Reb.shadow, List.eraseIdx_map]

theorem Reb.remove_none {r : Reb} (h : r.Inv) (now : Nat) (u : URL) :
    r.remove now u = none ↔ u.key ∉ r.bal.view.keys := by
  rw [← Pool.find_none, h.find_bal]
  unfold Reb.remove
  cases hf : r.find u.key with
  | none => simp
  | some i =>
    simp only
    have hfb : r.bal.view.find u.key = some i := by rw [h.find_bal]; exact hf
    have : r.bal.remove u ≠ none := by
      rw [Ne, Bal.remove_none, ← Pool.find_none, hfb]; simp
    cases hb : r.bal.remove u with
    | none => exact absurd hb this
    | some b => simp

/-- a meter reading changes nothing but the reading -/
theorem Reb.modify_meter_spec {r : Reb} (h : r.Inv) (i : Nat) (f : Rec → Rec)
    (hf : ∀ s, (f s).url = s.url ∧ (f s).orig = s.orig ∧ (f s).cur = s.cur) :
    ({ r with servers := r.servers.modify i f } : Reb).Inv ∧
    ({ r with servers := r.servers.modify i f } : Reb).shadow = r.shadow := by
  have hk : (r.servers.modify i f).map Rec.key = r.servers.map Rec.key :=
    map_modify_same Rec.key f (fun a => by unfold Rec.key; rw [(hf a).1]) _ _
  have ho : (r.servers.modify i f).map (·.orig) = r.servers.map (·.orig) :=
    map_modify_same (fun s : Rec => s.orig) f (fun a => (hf a).2.1) _ _
  have hc : (r.servers.modify i f).map (·.cur) = r.servers.map (·.cur) :=
    map_modify_same (fun s : Rec => s.cur) f (fun a => (hf a).2.2) _ _
  have hmem : ∀ p ∈ r.servers.modify i f, ∃ s ∈ r.servers, p.orig = s.orig ∧ p.cur = s.cur := by
    intro p hp
    obtain ⟨j, hj, rfl⟩ := List.getElem_of_mem hp
    have hj' : j < r.servers.length := by simpa using hj
    refine ⟨r.servers[j], List.getElem_mem hj', ?_⟩
    rw [List.getElem_modify]
    split
    · exact ⟨(hf _).2.1, (hf _).2.2⟩
    · exact ⟨rfl, rfl⟩
  refine ⟨⟨h.bal, hk.trans h.keys, hc.trans h.ws, ?_, ?_⟩, ?_⟩
  · intro p hp
    obtain ⟨s, hs, e1, e2⟩ := hmem p hp
    have := h.bounded s hs
    unfold Bounded at this ⊢
    rw [e1, e2]; exact this
  · intro p hp
    obtain ⟨s, hs, e1, e2⟩ := hmem p hp
    have := h.pos s hs
    unfold Pos at this ⊢
    rw [e1, e2]; exact this
  · unfold Reb.shadow
    simp only
    rw [hk, ho]

theorem Reb.marks_length (r : Reb) : r.marks.1.length = r.servers.length := by
  simp [Reb.marks, markServers]

theorem Reb.zip_marks_fst (r : Reb) : (r.servers.zip r.marks.1).map (·.1) = r.servers := by
  apply List.map_fst_zip
  rw [Reb.marks_length]

/-- the new weights of an adjustment: only `cur` changes, and stays in range -/
theorem Reb.newWeights_spec {r : Reb} (h : r.Inv) :
    r.newWeights.1.map Rec.rest = r.servers.map Rec.rest ∧
    (∀ p ∈ r.newWeights.1, Bounded fsmMaxWeight p) ∧ (∀ p ∈ r.newWeights.1, Pos p) := by
  unfold Reb.newWeights
  simp only
  split
  · refine ⟨?_, ?_, ?_⟩
    · rw [setMarked_rest]
      have := congrArg (List.map Rec.rest) (Reb.zip_marks_fst r)
      rw [List.map_map] at this
      exact this
    · apply setMarked_bounded
      intro q hq
      exact h.bounded _ (List.of_mem_zip hq).1
    · apply setMarked_pos
      intro q hq
      exact h.pos _ (List.of_mem_zip hq).1
  · refine ⟨converge_rest _, ?_, converge_pos _ h.pos⟩
    intro q hq
    exact (converge_bounded 1024 _ h.bounded q hq).mono (by unfold fsmMaxWeight; omega)

/-- `adjustWeights()` -/
theorem Reb.adjust_spec {r : Reb} (h : r.Inv) (now : Nat) :
    (r.adjust now).Inv ∧ (r.adjust now).servers.map Rec.rest = r.servers.map Rec.rest ∧
    (r.adjust now).bal.urls = r.bal.urls ∧ (r.adjust now).bal.refs = r.bal.refs ∧
    (r.adjust now).bal.heap = r.bal.heap ∧ (r.adjust now).backoff = r.backoff ∧
    (r.adjust now).newReady = r.newReady ∧
    (r.adjust now = r ∨
      (r.timer < (now : Int) ∧ (r.adjust now).timer = (now : Int) + r.backoff ∧
        (r.adjust now).servers = r.newWeights.1 ∧ 2 ≤ r.servers.length ∧ r.metricsReady = true)) := by
  unfold Reb.adjust
  split
  · exact ⟨h, rfl, rfl, rfl, rfl, rfl, rfl, Or.inl rfl⟩
  · split
    · exact ⟨h, rfl, rfl, rfl, rfl, rfl, rfl, Or.inl rfl⟩
    · split
      · exact ⟨h, rfl, rfl, rfl, rfl, rfl, rfl, Or.inl rfl⟩
      · simp only
        split
        · rename_i h1 h2 h3 h4
          obtain ⟨n1, n2, n3⟩ := Reb.newWeights_spec h
          obtain ⟨a1, a2, a3, a4, a5, a6⟩ := applyWeights_spec h.bal r.newWeights.1
            (by rw [keys_of_rest n1]; exact h.keys)
          refine ⟨⟨a1, ?_, a3.symm, n2, n3⟩, n1, a4, a5, a6, rfl, rfl, Or.inr ⟨?_, rfl, rfl, by omega, ?_⟩⟩
          · show r.newWeights.1.map Rec.key = _
            rw [keys_of_rest n1, a2]; exact h.keys
          · unfold Reb.timerExpired at h3; simpa using h3
          · simpa using h2
        · exact ⟨h, rfl, rfl, rfl, rfl, rfl, rfl, Or.inl rfl⟩

end RB
