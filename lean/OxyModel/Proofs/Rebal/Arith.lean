import OxyModel.Model.Rebalancer
import Mathlib.Tactic

/-! Weight arithmetic of the rebalancer: `normalize`, `converge`, `setMarked` keep the weights in
range; six converging adjustments restore the configured proportions; a marked adjustment never
raises the share of a record that is not marked good. -/
namespace RB

/-! ### gcd fold -/

theorem foldl_gcd_dvd_acc (ps : List Rec) (a : Nat) : ps.foldl (fun d p => Nat.gcd d p.cur) a ∣ a := by
  induction ps generalizing a with
  | nil => simp
  | cons p ps ih => exact (ih (Nat.gcd a p.cur)).trans (Nat.gcd_dvd_left a p.cur)

theorem foldl_gcd_dvd_mem (ps : List Rec) (a : Nat) :
    ∀ p ∈ ps, ps.foldl (fun d p => Nat.gcd d p.cur) a ∣ p.cur := by
  induction ps generalizing a with
  | nil => simp
  | cons x ps ih =>
    intro p hp
    rcases List.mem_cons.mp hp with rfl | hp
    · exact (foldl_gcd_dvd_acc ps (Nat.gcd a p.cur)).trans (Nat.gcd_dvd_right a p.cur)
    · exact ih _ p hp

theorem gcdCur_dvd {ps : List Rec} {p : Rec} (h : p ∈ ps) : gcdCur ps ∣ p.cur := foldl_gcd_dvd_mem ps 0 p h

/-- the divisor `normalizeWeights` actually uses -/
def normDiv (ps : List Rec) : Nat := if gcdCur ps ≤ 1 then 1 else gcdCur ps

theorem normDiv_pos (ps : List Rec) : 0 < normDiv ps := by unfold normDiv; split <;> omega

theorem normDiv_dvd {ps : List Rec} {p : Rec} (h : p ∈ ps) : normDiv ps ∣ p.cur := by
  unfold normDiv; split
  · exact one_dvd _
  · exact gcdCur_dvd h

theorem normalize_eq (ps : List Rec) : normalize ps = ps.map (fun p => { p with cur := p.cur / normDiv ps }) := by
  unfold normalize normDiv
  simp only
  split
  · simp
  · rfl

/-- what `normalize` does to each record -/
theorem normalize_mem {ps : List Rec} {q : Rec} (h : q ∈ normalize ps) :
    ∃ p ∈ ps, q = { p with cur := p.cur / normDiv ps } := by
  rw [normalize_eq] at h
  obtain ⟨p, hp, rfl⟩ := List.mem_map.mp h
  exact ⟨p, hp, rfl⟩

/-! ### range -/

/-- `cur ≤ max orig T`, a zero configured weight stays zero -/
def Bounded (T : Nat) (p : Rec) : Prop := p.cur ≤ max p.orig T ∧ (p.orig = 0 → p.cur = 0)

/-- a positive configured weight never drops to zero -/
def Pos (p : Rec) : Prop := 0 < p.orig → 1 ≤ p.cur

theorem Bounded.mono {T T' : Nat} (h : T ≤ T') {p : Rec} (hb : Bounded T p) : Bounded T' p :=
  ⟨le_trans hb.1 (max_le_max le_rfl h), hb.2⟩

theorem normalize_bounded {T : Nat} {ps : List Rec} (h : ∀ p ∈ ps, Bounded T p) :
    ∀ q ∈ normalize ps, Bounded T q := by
  intro q hq
  obtain ⟨p, hp, rfl⟩ := normalize_mem hq
  obtain ⟨b1, b2⟩ := h p hp
  exact ⟨le_trans (Nat.div_le_self _ _) b1, fun h0 => by simp [b2 h0]⟩

theorem normalize_pos {ps : List Rec} (h : ∀ p ∈ ps, Pos p) : ∀ q ∈ normalize ps, Pos q := by
  intro q hq
  obtain ⟨p, hp, rfl⟩ := normalize_mem hq
  intro ho
  have h1 : 1 ≤ p.cur := h p hp ho
  exact Nat.div_pos (Nat.le_of_dvd h1 (normDiv_dvd hp)) (normDiv_pos ps)

theorem decrease_le (o c T : Nat) (h : c ≤ max o (4 * T)) : decrease o c ≤ max o T := by
  unfold decrease fsmGrowFactor
  simp only
  split
  · exact le_max_left _ _
  · rcases le_max_iff.mp h with h | h
    · exact le_trans (le_trans (Nat.div_le_self _ _) h) (le_max_left _ _)
    · have : c / 4 ≤ T := by omega
      exact le_trans this (le_max_right _ _)

theorem convergeRec_bounded {T : Nat} {p : Rec} (h : Bounded (4 * T) p) : Bounded T (convergeRec p) := by
  obtain ⟨b1, b2⟩ := h
  unfold convergeRec
  split
  · rename_i he
    exact ⟨by rw [← he]; exact le_max_left _ _, b2⟩
  · rename_i he
    exact ⟨decrease_le _ _ T b1, fun h0 => absurd (by rw [h0, b2 h0]) he⟩

theorem convergeRec_pos {p : Rec} (h : Pos p) : Pos (convergeRec p) := by
  unfold convergeRec
  split
  · exact h
  · intro ho
    show 1 ≤ decrease p.orig p.cur
    have ho : 0 < p.orig := ho
    unfold decrease; simp only; split <;> omega

theorem converge_bounded (T : Nat) (ps : List Rec) (h : ∀ p ∈ ps, Bounded (4 * T) p) :
    ∀ q ∈ (converge ps).1, Bounded T q := by
  unfold converge
  split
  · apply normalize_bounded
    intro m hm
    obtain ⟨p, hp, rfl⟩ := List.mem_map.mp hm
    exact convergeRec_bounded (h p hp)
  · rename_i hc
    intro q hq
    have := List.any_eq_true.not.mp hc
    push Not at this
    have e : q.orig = q.cur := by simpa using this q hq
    exact ⟨by rw [← e]; exact le_max_left _ _, (h q hq).2⟩

theorem converge_pos (ps : List Rec) (h : ∀ p ∈ ps, Pos p) : ∀ q ∈ (converge ps).1, Pos q := by
  unfold converge
  split
  · apply normalize_pos
    intro m hm
    obtain ⟨p, hp, rfl⟩ := List.mem_map.mp hm
    exact convergeRec_pos (h p hp)
  · exact h

theorem markRec_bounded {q : Rec × Bool} (h : Bounded fsmMaxWeight q.1) : Bounded fsmMaxWeight (markRec q) := by
  unfold markRec
  split
  · rename_i hg
    unfold grows at hg
    simp only [Bool.and_eq_true, decide_eq_true_eq] at hg
    exact ⟨le_trans hg.2 (le_max_right _ _), fun h0 => by simp [increase, h.2 h0]⟩
  · exact h

theorem markRec_pos {q : Rec × Bool} (h : Pos q.1) : Pos (markRec q) := by
  unfold markRec
  split
  · intro ho
    have : 1 ≤ q.1.cur := h ho
    show 1 ≤ increase q.1.cur
    unfold increase fsmGrowFactor; omega
  · exact h

theorem setMarked_bounded (ps : List (Rec × Bool)) (h : ∀ q ∈ ps, Bounded fsmMaxWeight q.1) :
    ∀ r ∈ (setMarked ps).1, Bounded fsmMaxWeight r := by
  unfold setMarked
  split
  · apply normalize_bounded
    intro m hm
    obtain ⟨q, hq, rfl⟩ := List.mem_map.mp hm
    exact markRec_bounded (h q hq)
  · intro r hr
    obtain ⟨q, hq, rfl⟩ := List.mem_map.mp hr
    exact h q hq

theorem setMarked_pos (ps : List (Rec × Bool)) (h : ∀ q ∈ ps, Pos q.1) : ∀ r ∈ (setMarked ps).1, Pos r := by
  unfold setMarked
  split
  · apply normalize_pos
    intro m hm
    obtain ⟨q, hq, rfl⟩ := List.mem_map.mp hm
    exact markRec_pos (h q hq)
  · intro r hr
    obtain ⟨q, hq, rfl⟩ := List.mem_map.mp hr
    exact h q hq

/-! ### convergence in six adjustments -/

theorem decrease_eq_orig (o c : Nat) (h : c ≤ max o 4) (h0 : o = 0 → c = 0) : decrease o c = o ∨ o = c := by
  unfold decrease fsmGrowFactor
  simp only
  by_cases hlt : c / 4 < o
  · left; rw [if_pos hlt]
  · rw [if_neg hlt]
    rcases Nat.eq_zero_or_pos o with ho | ho
    · right; rw [ho, h0 ho]
    · left
      rcases le_max_iff.mp h with h4 | h4 <;> omega

/-- last step: once every current weight is within `max orig 4`, one more converging adjustment
    yields weights proportional to the configured ones -/
theorem converge_final (ps : List Rec) (h : ∀ p ∈ ps, Bounded 4 p) :
    ∃ g, 0 < g ∧ ∀ q ∈ (converge ps).1, q.cur * g = q.orig := by
  unfold converge
  split
  · refine ⟨normDiv (ps.map convergeRec), normDiv_pos _, ?_⟩
    intro q hq
    obtain ⟨m, hm, rfl⟩ := normalize_mem hq
    have hd := normDiv_dvd hm
    obtain ⟨p, hp, rfl⟩ := List.mem_map.mp hm
    show (convergeRec p).cur / _ * _ = (convergeRec p).orig
    rw [Nat.div_mul_cancel hd]
    obtain ⟨b1, b2⟩ := h p hp
    unfold convergeRec
    split
    · rename_i he; exact he.symm
    · rename_i he
      rcases decrease_eq_orig p.orig p.cur b1 b2 with e | e
      · exact e
      · exact absurd e he
  · rename_i hc
    refine ⟨1, by omega, ?_⟩
    intro q hq
    have := List.any_eq_true.not.mp hc
    push Not at this
    have e : q.orig = q.cur := by simpa using this q hq
    omega

/-- proportional to the configured weights -/
def Proportional (ps : List Rec) : Prop := ∃ g, 0 < g ∧ ∀ q ∈ ps, q.cur * g = q.orig

/-- **six converging adjustments restore the configured proportions**, whatever the weights were -/
theorem converge_six (p0 p1 p2 p3 p4 p5 p6 : List Rec) (h : ∀ p ∈ p0, Bounded 4096 p)
    (h1 : p1 = (converge p0).1) (h2 : p2 = (converge p1).1) (h3 : p3 = (converge p2).1)
    (h4 : p4 = (converge p3).1) (h5 : p5 = (converge p4).1) (h6 : p6 = (converge p5).1) :
    Proportional p6 := by
  subst h1 h2 h3 h4 h5 h6
  apply converge_final
  have s1 := converge_bounded 1024 p0 h
  have s2 := converge_bounded 256 _ s1
  have s3 := converge_bounded 64 _ s2
  have s4 := converge_bounded 16 _ s3
  exact converge_bounded 4 _ s4

/-! ### shape: adjustments only touch `cur` -/

/-- everything but `cur` -/
def Rec.rest (p : Rec) : PoolM.URL × Nat × Rat × Bool := (p.url, p.orig, p.rating, p.ready)

theorem normalize_rest (ps : List Rec) : (normalize ps).map Rec.rest = ps.map Rec.rest := by
  rw [normalize_eq, List.map_map]; rfl

theorem converge_rest (ps : List Rec) : (converge ps).1.map Rec.rest = ps.map Rec.rest := by
  unfold converge
  split
  · rw [normalize_rest, List.map_map]
    apply List.map_congr_left
    intro p _
    simp only [Function.comp]
    unfold convergeRec; split <;> rfl
  · rfl

theorem setMarked_rest (ps : List (Rec × Bool)) : (setMarked ps).1.map Rec.rest = ps.map (fun q => q.1.rest) := by
  unfold setMarked
  split
  · rw [normalize_rest, List.map_map]
    apply List.map_congr_left
    intro p _
    simp only [Function.comp]
    unfold markRec; split <;> rfl
  · rw [List.map_map]; rfl

/-! ### shares -/

def sumCur (ps : List Rec) : Nat := (ps.map (·.cur)).sum

theorem sumCur_div (ps : List Rec) (g : Nat) (hd : ∀ p ∈ ps, g ∣ p.cur) :
    sumCur (ps.map (fun p => { p with cur := p.cur / g })) * g = sumCur ps := by
  induction ps with
  | nil => simp [sumCur]
  | cons p ps ih =>
    have ih := ih (fun q hq => hd q (List.mem_cons_of_mem _ hq))
    simp only [sumCur, List.map_cons, List.sum_cons, List.map_map] at ih ⊢
    rw [Nat.add_mul, Nat.div_mul_cancel (hd p List.mem_cons_self), ← ih]

theorem sumCur_normalize (ps : List Rec) : sumCur (normalize ps) * normDiv ps = sumCur ps := by
  rw [normalize_eq]; exact sumCur_div ps _ (fun p hp => normDiv_dvd hp)

theorem sumCur_markRec_ge (ps : List (Rec × Bool)) : sumCur (ps.map (·.1)) ≤ sumCur (ps.map markRec) := by
  induction ps with
  | nil => simp
  | cons q ps ih =>
    simp only [sumCur, List.map_cons, List.sum_cons, List.map_map] at ih ⊢
    have : q.1.cur ≤ (markRec q).cur := by
      unfold markRec; split
      · show q.1.cur ≤ increase q.1.cur
        unfold increase fsmGrowFactor; omega
      · exact le_rfl
    omega

theorem sumCur_markRec_gt (ps : List (Rec × Bool)) (h : ∃ q ∈ ps, grows q.1 q.2 = true ∧ 0 < q.1.cur) :
    sumCur (ps.map (·.1)) < sumCur (ps.map markRec) := by
  induction ps with
  | nil => simp at h
  | cons q ps ih =>
    obtain ⟨q', hq', hg, hpos⟩ := h
    have hle := sumCur_markRec_ge ps
    have hq : q.1.cur ≤ (markRec q).cur := by
      have := sumCur_markRec_ge [q]
      simpa [sumCur] using this
    simp only [sumCur, List.map_cons, List.sum_cons, List.map_map] at ih hle ⊢
    rcases List.mem_cons.mp hq' with rfl | hm
    · have : q'.1.cur < (markRec q').cur := by
        unfold markRec; rw [if_pos hg]
        show q'.1.cur < increase q'.1.cur
        unfold increase fsmGrowFactor; omega
      omega
    · have := ih ⟨q', hm, hg, hpos⟩
      omega

/-- index-wise description of `setMarked` -/
theorem setMarked_getElem (ps : List (Rec × Bool)) (i : Nat) (h : i < ps.length)
    (h' : i < (setMarked ps).1.length) :
    ((setMarked ps).1[i]).cur * (if ps.any (fun q => grows q.1 q.2) then normDiv (ps.map markRec) else 1)
      = (if ps.any (fun q => grows q.1 q.2) then (markRec ps[i]).cur else ps[i].1.cur) := by
  unfold setMarked at h' ⊢
  split
  · have hm : markRec ps[i] ∈ ps.map markRec := List.mem_map.mpr ⟨ps[i], List.getElem_mem h, rfl⟩
    simp only [normalize_eq, List.getElem_map]
    exact Nat.div_mul_cancel (normDiv_dvd hm)
  · simp

theorem setMarked_length (ps : List (Rec × Bool)) : (setMarked ps).1.length = ps.length := by
  have := congrArg List.length (setMarked_rest ps)
  simpa using this

/-- **a marked adjustment never raises the share of a record that is not marked good**
    (cross-multiplied: `cur'ᵢ / Σcur' ≤ curᵢ / Σcur`) -/
theorem setMarked_share_le (ps : List (Rec × Bool)) (i : Nat) (h : i < ps.length) (hbad : ps[i].2 = false) :
    ((setMarked ps).1[i]'(by rw [setMarked_length]; exact h)).cur * sumCur (ps.map (·.1))
      ≤ ps[i].1.cur * sumCur (setMarked ps).1 := by
  have hl : i < (setMarked ps).1.length := by rw [setMarked_length]; exact h
  have hi := setMarked_getElem ps i h hl
  by_cases hc : ps.any (fun q => grows q.1 q.2) = true
  · simp only [hc, if_true] at hi
    have hm : (markRec ps[i]).cur = ps[i].1.cur := by
      unfold markRec grows; simp [hbad]
    rw [hm] at hi
    have hs : sumCur (setMarked ps).1 * normDiv (ps.map markRec) = sumCur (ps.map markRec) := by
      unfold setMarked; rw [if_pos hc]; exact sumCur_normalize _
    have hge := sumCur_markRec_ge ps
    have hg := normDiv_pos (ps.map markRec)
    apply Nat.le_of_mul_le_mul_right _ hg
    calc (setMarked ps).1[i].cur * sumCur (ps.map (·.1)) * normDiv (ps.map markRec)
        = ((setMarked ps).1[i].cur * normDiv (ps.map markRec)) * sumCur (ps.map (·.1)) := by ring
      _ = ps[i].1.cur * sumCur (ps.map (·.1)) := by rw [hi]
      _ ≤ ps[i].1.cur * sumCur (ps.map markRec) := Nat.mul_le_mul_left _ hge
      _ = ps[i].1.cur * (sumCur (setMarked ps).1 * normDiv (ps.map markRec)) := by rw [hs]
      _ = ps[i].1.cur * sumCur (setMarked ps).1 * normDiv (ps.map markRec) := by ring
  · have hc' : ps.any (fun q => grows q.1 q.2) = false := by simpa using hc
    simp only [hc', Bool.false_eq_true, if_false, Nat.mul_one] at hi
    have hs : (setMarked ps).1 = ps.map (·.1) := by unfold setMarked; simp [hc']
    rw [hi, hs]

/-- **an outlier loses share** when some good record is below the cap -/
theorem setMarked_share_lt (ps : List (Rec × Bool)) (i : Nat) (h : i < ps.length) (hbad : ps[i].2 = false)
    (hpos : 0 < ps[i].1.cur) (hg : ∃ q ∈ ps, grows q.1 q.2 = true ∧ 0 < q.1.cur) :
    ((setMarked ps).1[i]'(by rw [setMarked_length]; exact h)).cur * sumCur (ps.map (·.1))
      < ps[i].1.cur * sumCur (setMarked ps).1 := by
  have hl : i < (setMarked ps).1.length := by rw [setMarked_length]; exact h
  have hi := setMarked_getElem ps i h hl
  have hc : ps.any (fun q => grows q.1 q.2) = true := by
    obtain ⟨q, hq, hgq, _⟩ := hg
    exact List.any_eq_true.mpr ⟨q, hq, hgq⟩
  simp only [hc, if_true] at hi
  have hm : (markRec ps[i]).cur = ps[i].1.cur := by
    unfold markRec grows; simp [hbad]
  rw [hm] at hi
  have hs : sumCur (setMarked ps).1 * normDiv (ps.map markRec) = sumCur (ps.map markRec) := by
    unfold setMarked; rw [if_pos hc]; exact sumCur_normalize _
  have hgt := sumCur_markRec_gt ps hg
  have hgp := normDiv_pos (ps.map markRec)
  apply Nat.lt_of_mul_lt_mul_right (a := normDiv (ps.map markRec))
  calc (setMarked ps).1[i].cur * sumCur (ps.map (·.1)) * normDiv (ps.map markRec)
      = ((setMarked ps).1[i].cur * normDiv (ps.map markRec)) * sumCur (ps.map (·.1)) := by ring
    _ = ps[i].1.cur * sumCur (ps.map (·.1)) := by rw [hi]
    _ < ps[i].1.cur * sumCur (ps.map markRec) := Nat.mul_lt_mul_of_pos_left hgt hpos
    _ = ps[i].1.cur * (sumCur (setMarked ps).1 * normDiv (ps.map markRec)) := by rw [hs]
    _ = ps[i].1.cur * sumCur (setMarked ps).1 * normDiv (ps.map markRec) := by ring

end RB
