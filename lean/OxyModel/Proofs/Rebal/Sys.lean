import OxyModel.Proofs.Pool.Route
import OxyModel.Proofs.Rebal.Inv

/-! The system (`RB.Sys`: bare balancer or rebalancer over balancer): the invariant and the
refinement of the administration history hold after every operation. -/
namespace RB
open PoolM RR

theorem Pool.weight_congr {p q : Pool Key} (hk : p.keys = q.keys) (hw : p.ws = q.ws) (k : Key) :
    p.weight k = q.weight k := by
  unfold Pool.weight Pool.find; rw [hk, hw]

/-- the specification after one operation -/
def specStep (viaRb : Bool) (sp : Spec) : Op → Spec
  | .upsert _ (some (.negSucc _)) => sp
  | .upsert u (some (.ofNat w)) => sp.upsert u.key (some w)
  | .upsert u none => sp.upsert u.key none
  -- an add whose meter factory fails defines nothing (a meter is only created by the rebalancer, for a
  -- server it has no record of); otherwise it is an ordinary add / update
  | .upsertFailing u w => if viaRb && (sp u.key).isNone then sp else sp.upsert u.key w
  | .remove u => sp.remove u.key
  | _ => sp

/-- the set (with configured weights) defined by the add / update / remove calls of a history, for a
    pool managed through the rebalancer (`viaRb`) or directly -/
def specOf (viaRb : Bool) (ops : List Op) : Spec := ops.foldl (specStep viaRb) Spec.empty

structure Sys.Inv (s : Sys) : Prop where
  bal : s.bal.WF
  reb : s.viaRb = true → s.reb.Inv
  bare : s.viaRb = false → s.reb.servers = []
  timer : s.reb.timer ≤ (s.now : Int) + s.reb.backoff

/-- the configured weight the system holds for a key: the balancer's weight, or — behind a
    rebalancer, where the balancer holds the *effective* weight — the shadow record's `origWeight` -/
def Sys.configured (s : Sys) (k : Key) : Option Nat :=
  if s.viaRb then s.reb.configured k else s.bal.weight k

def Sys.Refines (s : Sys) (sp : Spec) : Prop := ∀ k, s.configured k = sp k

theorem Sys.init_inv (v st : Bool) (bo : Nat) (nr : Bool) : (Sys.init v st bo nr).Inv := by
  refine ⟨Bal.empty_wf, fun _ => Reb.init_inv bo nr, fun _ => rfl, ?_⟩
  show zeroTime ≤ ((0 : Nat) : Int) + ((Reb.init bo nr).backoff : Int)
  unfold zeroTime; omega

theorem Sys.init_refines (v st : Bool) (bo : Nat) (nr : Bool) : (Sys.init v st bo nr).Refines Spec.empty := by
  intro k
  unfold Sys.configured
  cases v <;> rfl

/-- replacing the balancer by one with the same stored URLs and weights -/
theorem Reb.Inv.withBal {r : Reb} (h : r.Inv) {b' : Bal} (hb : b'.WF) (hu : b'.urls = r.bal.urls)
    (hw : b'.ws = r.bal.ws) : ({ r with bal := b' } : Reb).Inv :=
  ⟨hb, by show r.servers.map Rec.key = b'.view.keys; rw [Bal.view_keys, hu]; exact h.keys,
    by show r.servers.map (·.cur) = b'.ws; rw [hw]; exact h.ws, h.bounded, h.pos⟩

theorem spec_upsert_eq {f : Key → Option Nat} {sp : Spec} (hf : ∀ k, f k = sp k) (k k' : Key) (w : Option Nat) :
    (if k' = k then
        (match f k, w with
          | some old, none => some old
          | some _, some w => some w
          | none, w => some (Pool.newWeight w))
      else f k') = sp.upsert k w k' := by
  unfold Spec.upsert
  by_cases hk : k' = k
  · rw [if_pos hk, if_pos hk, hf k]
    cases sp k <;> cases w <;> rfl
  · rw [if_neg hk, if_neg hk, hf k']

/-- a system whose balancer is replaced by one with the same URLs and weights (selection, routing,
    a handler's writes to its own object) still satisfies everything -/
theorem Sys.withBal_spec {s : Sys} (h : s.Inv) {sp : Spec} (hr : s.Refines sp) {b' : Bal} (hb : b'.WF)
    (hu : b'.urls = s.bal.urls) (hw : b'.ws = s.bal.ws) :
    (s.withBal b').Inv ∧ (s.withBal b').Refines sp := by
  refine ⟨⟨hb, fun hv => (h.reb hv).withBal hb hu hw, h.bare, h.timer⟩, ?_⟩
  intro k
  have := hr k
  unfold Sys.configured at this ⊢
  show (if s.viaRb = true then _ else _) = _
  cases hv : s.viaRb with
  | true => rw [hv] at this; exact this
  | false =>
    rw [hv] at this
    simp only [Bool.false_eq_true, if_false] at this ⊢
    rw [← this]
    exact Pool.weight_congr (by show b'.view.keys = s.bal.view.keys; rw [Bal.view_keys, Bal.view_keys, hu]) hw k

theorem Sys.upsert_spec {s : Sys} (h : s.Inv) {sp : Spec} (hr : s.Refines sp) (u : URL) (w : Option Nat) :
    let s' : Sys := if s.viaRb then { s with reb := s.reb.upsert s.now u w } else s.withBal (s.bal.upsert u w)
    s'.Inv ∧ s'.Refines (sp.upsert u.key w) ∧ s'.viaRb = s.viaRb ∧ s'.sticky = s.sticky ∧ s'.now = s.now ∧
      s'.reb.backoff = s.reb.backoff := by
  intro s'
  cases hv : s.viaRb with
  | true =>
    have hs' : s' = { s with reb := s.reb.upsert s.now u w } := by simp [s', hv]
    rw [hs']
    have hi := h.reb hv
    obtain ⟨i1, i2, i3, _, i5, i6, _, _⟩ := Reb.upsert_spec hi s.now u w
    refine ⟨⟨i1.bal, fun _ => i1, fun hb => (by rw [hv] at hb; cases hb), ?_⟩, ?_, hv, rfl, rfl, i6⟩
    · show (s.reb.upsert s.now u w).timer ≤ (s.now : Int) + (s.reb.upsert s.now u w).backoff
      rw [i5]; unfold second; omega
    · intro k
      unfold Sys.configured
      show (if s.viaRb = true then (s.reb.upsert s.now u w).configured k else _) = _
      rw [hv]; simp only [if_true]
      unfold Reb.configured
      rw [Pool.weight_congr i2 i3, Pool.weight_upsert hi.shadow_wf]
      apply spec_upsert_eq
      intro k'
      have := hr k'
      unfold Sys.configured at this
      rw [hv] at this
      exact this
  | false =>
    have hs' : s' = s.withBal (s.bal.upsert u w) := by simp [s', hv]
    rw [hs']
    refine ⟨⟨Bal.upsert_wf h.bal u w, fun hb => (by have hb' : s.viaRb = true := hb; rw [hv] at hb'; cases hb'),
      h.bare, h.timer⟩, ?_, hv, rfl, rfl, rfl⟩
    intro k
    unfold Sys.configured
    show (if s.viaRb = true then _ else (s.bal.upsert u w).weight k) = _
    rw [hv]; simp only [Bool.false_eq_true, if_false]
    unfold Bal.weight
    rw [Bal.upsert_view h.bal, Pool.weight_upsert h.bal.view]
    apply spec_upsert_eq
    intro k'
    have := hr k'
    unfold Sys.configured at this
    rw [hv] at this
    exact this

theorem spec_remove_eq {f : Key → Option Nat} {sp : Spec} (hf : ∀ k, f k = sp k) (k k' : Key) :
    (if k' = k then none else f k') = sp.remove k k' := by
  unfold Spec.remove; split <;> simp [hf]

theorem spec_remove_none {sp : Spec} {k : Key} (h : sp k = none) : sp.remove k = sp := by
  funext k'; unfold Spec.remove; split
  · rename_i e; rw [e, h]
  · rfl

/-- properties every operation preserves -/
structure Sys.Same (s s' : Sys) : Prop where
  viaRb : s'.viaRb = s.viaRb
  sticky : s'.sticky = s.sticky
  backoff : s'.reb.backoff = s.reb.backoff
  now : s.now ≤ s'.now

theorem Sys.Same.rfl' (s : Sys) : s.Same s := ⟨rfl, rfl, rfl, le_rfl⟩

theorem Sys.configured_mem {s : Sys} (h : s.Inv) (k : Key) :
    (s.configured k).isSome ↔ k ∈ s.bal.view.keys := by
  unfold Sys.configured
  cases hv : s.viaRb with
  | true =>
    simp only [if_true]
    unfold Reb.configured
    rw [Pool.weight_isSome]
    show k ∈ s.reb.servers.map Rec.key ↔ _
    rw [(h.reb hv).keys]; rfl
  | false =>
    simp only [Bool.false_eq_true, if_false]
    exact Pool.weight_isSome

theorem Sys.viaRb_false {s : Sys} (hv : ¬ s.viaRb = true) : s.viaRb = false := by simpa using hv

theorem Sys.remove_spec {s : Sys} (h : s.Inv) {sp : Spec} (hr : s.Refines sp) (u : URL) :
    (s.step (.remove u)).1.Inv ∧ (s.step (.remove u)).1.Refines (sp.remove u.key) ∧
    s.Same (s.step (.remove u)).1 ∧
    (u.key ∉ s.bal.view.keys → s.step (.remove u) = (s, .errNotFound)) ∧
    (u.key ∈ s.bal.view.keys → (s.step (.remove u)).2 = .ok) := by
  have hnone : u.key ∉ s.bal.view.keys → sp.remove u.key = sp := by
    intro hm
    apply spec_remove_none
    rw [← hr, ← Option.not_isSome_iff_eq_none, Sys.configured_mem h]; exact hm
  by_cases hv : s.viaRb = true
  · have hi := h.reb hv
    cases hrm : s.reb.remove s.now u with
    | none =>
      have e : s.step (.remove u) = (s, .errNotFound) := by
        simp only [Sys.step, hv, if_true, hrm]
      rw [e]
      have hm := (Reb.remove_none hi s.now u).mp hrm
      exact ⟨h, by rw [hnone hm]; exact hr, Sys.Same.rfl' s, fun _ => rfl, fun hm' => absurd hm' hm⟩
    | some r' =>
      have e : s.step (.remove u) = ({ s with reb := r' }, .ok) := by
        simp only [Sys.step, hv, if_true, hrm]
      rw [e]
      obtain ⟨i1, i2, _, i4, i5, _, _⟩ := Reb.remove_spec hi hrm
      have hm : u.key ∈ s.bal.view.keys := by
        by_contra hm
        rw [(Reb.remove_none hi s.now u).mpr hm] at hrm; cases hrm
      refine ⟨⟨i1.bal, fun _ => i1, fun hb => absurd hv (by rw [show s.viaRb = false from hb]; simp), ?_⟩, ?_,
        ⟨rfl, rfl, i5, le_rfl⟩, fun hm' => absurd hm hm', fun _ => rfl⟩
      · show r'.timer ≤ (s.now : Int) + r'.backoff
        rw [i4]; unfold second; omega
      · intro k
        have hc : ({ s with reb := r' } : Sys).configured k = r'.configured k := by
          unfold Sys.configured; exact if_pos hv
        rw [hc]
        unfold Reb.configured
        rw [Pool.weight_remove hi.shadow_wf i2]
        apply spec_remove_eq
        intro k'
        have := hr k'
        unfold Sys.configured at this
        rw [if_pos hv] at this
        exact this
  · have hv' := Sys.viaRb_false hv
    cases hrm : s.bal.remove u with
    | none =>
      have e : s.step (.remove u) = (s, .errNotFound) := by
        simp only [Sys.step, hv', Bool.false_eq_true, if_false, hrm]
      rw [e]
      have hm := Bal.remove_none.mp hrm
      exact ⟨h, by rw [hnone hm]; exact hr, Sys.Same.rfl' s, fun _ => rfl, fun hm' => absurd hm' hm⟩
    | some b' =>
      have e : s.step (.remove u) = (s.withBal b', .ok) := by
        simp only [Sys.step, hv', Bool.false_eq_true, if_false, hrm]
      rw [e]
      have hm : u.key ∈ s.bal.view.keys := by
        by_contra hm
        rw [Bal.remove_none.mpr hm] at hrm; cases hrm
      refine ⟨⟨Bal.remove_wf h.bal hrm, fun hb => absurd (show s.viaRb = true from hb) hv,
        h.bare, h.timer⟩, ?_, ⟨rfl, rfl, rfl, le_rfl⟩, fun hm' => absurd hm hm', fun _ => rfl⟩
      intro k
      have hc : (s.withBal b').configured k = b'.weight k := by
        unfold Sys.configured; exact if_neg hv
      rw [hc]
      unfold Bal.weight
      rw [Pool.weight_remove h.bal.view (Bal.remove_view hrm)]
      apply spec_remove_eq
      intro k'
      have := hr k'
      unfold Sys.configured at this
      rw [if_neg hv] at this
      exact this

theorem Sys.withBal_same (s : Sys) (b : Bal) : s.Same (s.withBal b) := ⟨rfl, rfl, rfl, le_rfl⟩

/-- replacing the rebalancer by one that differs in the meters or in the effective weights only -/
theorem Sys.withReb_spec {s : Sys} (_h : s.Inv) {sp : Spec} (hr : s.Refines sp) {r' : Reb} (hv : s.viaRb = true)
    (hi : r'.Inv) (hsh : r'.shadow = s.reb.shadow) (ht : r'.timer ≤ (s.now : Int) + r'.backoff)
    (hbo : r'.backoff = s.reb.backoff) :
    ({ s with reb := r' } : Sys).Inv ∧ ({ s with reb := r' } : Sys).Refines sp ∧ s.Same { s with reb := r' } := by
  refine ⟨⟨hi.bal, fun _ => hi, fun hb => absurd hv (by rw [show s.viaRb = false from hb]; simp), ht⟩, ?_,
    ⟨rfl, rfl, hbo, le_rfl⟩⟩
  intro k
  have := hr k
  have hc : ({ s with reb := r' } : Sys).configured k = r'.configured k := by
    unfold Sys.configured; exact if_pos hv
  rw [hc]
  unfold Sys.configured at this
  rw [if_pos hv] at this
  unfold Reb.configured at this ⊢
  rw [hsh]; exact this

theorem Sys.meter_spec {s : Sys} (h : s.Inv) {sp : Spec} (hr : s.Refines sp) (i : Nat) (f : Rec → Rec)
    (hf : ∀ x, (f x).url = x.url ∧ (f x).orig = x.orig ∧ (f x).cur = x.cur) :
    ({ s with reb := { s.reb with servers := s.reb.servers.modify i f } } : Sys).Inv ∧
    ({ s with reb := { s.reb with servers := s.reb.servers.modify i f } } : Sys).Refines sp ∧
    s.Same { s with reb := { s.reb with servers := s.reb.servers.modify i f } } := by
  by_cases hv : s.viaRb = true
  · obtain ⟨m1, m2⟩ := Reb.modify_meter_spec (h.reb hv) i f hf
    exact Sys.withReb_spec h hr hv m1 m2 h.timer rfl
  · have he : s.reb.servers.modify i f = s.reb.servers := by rw [h.bare (Sys.viaRb_false hv)]; simp
    rw [he]
    exact ⟨h, hr, Sys.Same.rfl' s⟩

/-- **every operation preserves the invariant and refines the specification step** -/
theorem Sys.step_spec {s : Sys} (h : s.Inv) {sp : Spec} (hr : s.Refines sp) (op : Op) :
    (s.step op).1.Inv ∧ (s.step op).1.Refines (specStep s.viaRb sp op) ∧ s.Same (s.step op).1 := by
  cases op with
  | upsert u w =>
    cases w with
    | none =>
      obtain ⟨a, b, c, d, e, f⟩ := Sys.upsert_spec h hr u none
      exact ⟨a, b, ⟨c, d, f, le_of_eq e.symm⟩⟩
    | some w =>
      cases w with
      | ofNat w =>
        obtain ⟨a, b, c, d, e, f⟩ := Sys.upsert_spec h hr u (some w)
        exact ⟨a, b, ⟨c, d, f, le_of_eq e.symm⟩⟩
      | negSucc w => exact ⟨h, hr, Sys.Same.rfl' s⟩
  | upsertFailing u w =>
    have hiff : (s.viaRb && (s.reb.find u.key).isNone) = (s.viaRb && (sp u.key).isNone) := by
      by_cases hv : s.viaRb = true
      · have := hr u.key
        unfold Sys.configured at this
        rw [if_pos hv] at this
        unfold Reb.configured at this
        have h1 : (s.reb.find u.key).isSome = (sp u.key).isSome := by
          rw [Bool.eq_iff_iff, Reb.find_eq, Pool.find_isSome, ← Pool.weight_isSome, this]
        rw [hv]
        simp only [Bool.true_and]
        cases hx : s.reb.find u.key <;> cases hy : sp u.key <;> simp [hx, hy] at h1 ⊢
      · rw [Sys.viaRb_false hv]; rfl
    by_cases hc : (s.viaRb && (s.reb.find u.key).isNone) = true
    · have e : s.step (.upsertFailing u w) = ({ s with reb := s.reb.upsertMeterFails u w }, .errMeter) := by
        simp only [Sys.step]; rw [if_pos hc]
      have e2 : specStep s.viaRb sp (.upsertFailing u w) = sp := by
        simp only [specStep]; rw [← hiff, if_pos hc]
      rw [e, e2]
      have hv : s.viaRb = true := by
        cases hvv : s.viaRb
        · rw [hvv] at hc; simp at hc
        · rfl
      have hf : s.reb.find u.key = none := by
        rw [hv] at hc; simpa using hc
      obtain ⟨i1, i2, i3, i4, _, _⟩ := Reb.upsertMeterFails_spec (h.reb hv) u w hf
      have hsh : (s.reb.upsertMeterFails u w).shadow = s.reb.shadow := by unfold Reb.shadow; rw [i2]
      exact Sys.withReb_spec h hr hv i1 hsh (by rw [i3, i4]; exact h.timer) i4
    · have e : s.step (.upsertFailing u w) =
          ((if s.viaRb then { s with reb := s.reb.upsert s.now u w } else s.withBal (s.bal.upsert u w)), .ok) := by
        simp only [Sys.step]; rw [if_neg hc]
      have e2 : specStep s.viaRb sp (.upsertFailing u w) = sp.upsert u.key w := by
        simp only [specStep]; rw [← hiff, if_neg hc]
      rw [e, e2]
      obtain ⟨a, b, c, d, e', f⟩ := Sys.upsert_spec h hr u w
      exact ⟨a, b, ⟨c, d, f, le_of_eq e'.symm⟩⟩
  | remove u =>
    obtain ⟨a, b, c, _, _⟩ := Sys.remove_spec h hr u
    exact ⟨a, b, c⟩
  | next =>
    obtain ⟨hw, hu⟩ := Bal.nextServer_wf h.bal
    obtain ⟨⟨_, h2, _, _⟩, _⟩ := Bal.nextServer_spec s.bal
    obtain ⟨a, b⟩ := Sys.withBal_spec h hr hw hu h2
    exact ⟨a, b, Sys.withBal_same _ _⟩
  | serve cookie mt =>
    obtain ⟨rw_, ru, rr, rws, _⟩ := Bal.route_wf h.bal s.sticky cookie
    unfold Sys.step
    simp only
    cases hrt : (s.bal.route s.sticky cookie).1 with
    | err e =>
      simp only
      obtain ⟨a, b⟩ := Sys.withBal_spec h hr rw_ ru rws
      exact ⟨a, b, Sys.withBal_same _ _⟩
    | fwd ref st =>
      simp only
      obtain ⟨_, f2, _, _⟩ := Bal.route_fwd h.bal hrt
      obtain ⟨m1, m2, m3, m4, _, _⟩ := Bal.mutate_wf rw_ (r := ref) (by rw [rr]; exact f2) mt
      obtain ⟨a, b⟩ := Sys.withBal_spec h hr m1 (m2.trans ru) (m4.trans rws)
      by_cases hv : s.viaRb = true
      · rw [if_pos hv]
        obtain ⟨j1, j2, _, _, _, j6, _, j8⟩ := Reb.adjust_spec (a.reb hv) s.now
        have ht : ((s.withBal ((s.bal.route s.sticky cookie).2.mutate ref mt)).reb.adjust s.now).timer ≤
            (s.now : Int) + ((s.withBal ((s.bal.route s.sticky cookie).2.mutate ref mt)).reb.adjust s.now).backoff := by
          rcases j8 with e | ⟨_, e, _⟩
          · rw [e]; exact a.timer
          · rw [e, j6]
        obtain ⟨x, y, z⟩ := Sys.withReb_spec (s := s.withBal ((s.bal.route s.sticky cookie).2.mutate ref mt))
          a b hv j1 (shadow_of_rest j2) ht j6
        exact ⟨x, y, ⟨z.viaRb, z.sticky, z.backoff, z.now⟩⟩
      · rw [if_neg hv]
        exact ⟨a, b, Sys.withBal_same _ _⟩
  | rate k v =>
    unfold Sys.step Reb.setRating
    simp only
    cases s.reb.find k with
    | none => exact ⟨h, hr, Sys.Same.rfl' s⟩
    | some i => exact Sys.meter_spec h hr i _ (fun x => ⟨rfl, rfl, rfl⟩)
  | ready k v =>
    unfold Sys.step Reb.setReady
    simp only
    cases s.reb.find k with
    | none => exact ⟨h, hr, Sys.Same.rfl' s⟩
    | some i => exact Sys.meter_spec h hr i _ (fun x => ⟨rfl, rfl, rfl⟩)
  | adv ns =>
    refine ⟨⟨h.bal, h.reb, h.bare, ?_⟩, hr, ⟨rfl, rfl, rfl, Nat.le_add_right _ _⟩⟩
    have := h.timer
    show s.reb.timer ≤ ((s.now + ns : Nat) : Int) + s.reb.backoff
    omega

/-- **after every history**: invariant and refinement -/
theorem Sys.applyOps_spec (ops : List Op) : ∀ {s : Sys} {sp : Spec}, s.Inv → s.Refines sp →
    (s.applyOps ops).Inv ∧ (s.applyOps ops).Refines (ops.foldl (specStep s.viaRb) sp) ∧ s.Same (s.applyOps ops) := by
  induction ops with
  | nil => intro s sp h hr; exact ⟨h, hr, Sys.Same.rfl' s⟩
  | cons op ops ih =>
    intro s sp h hr
    obtain ⟨a, b, c⟩ := Sys.step_spec h hr op
    obtain ⟨a', b', c'⟩ := ih a b
    rw [c.viaRb] at b'
    exact ⟨a', b', ⟨c'.viaRb.trans c.viaRb, c'.sticky.trans c.sticky, c'.backoff.trans c.backoff, le_trans c.now c'.now⟩⟩

end RB
