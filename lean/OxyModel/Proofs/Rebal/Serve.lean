import OxyModel.Proofs.Rebal.Sys

/-! What selections and requests can return, in terms of the pool before the operation. -/
namespace RB
open PoolM RR

/-- the URL a `NextServer()` call returned or a request was forwarded to -/
def Out.routedTo : Out → Option URL
  | .next _ (some x) => some x
  | .forwarded x _ => some x
  | _ => none

/-- is the operation an add / update of this key -/
def Op.upsertsKey (k : Key) : Op → Prop
  | .upsert u _ => u.key = k
  | .upsertFailing u _ => u.key = k
  | _ => False

theorem Sys.step_next (s : Sys) :
    s.step .next = (s.withBal s.bal.nextServer.2.2, .next s.bal.nextServer.1 (s.bal.nextServer.2.1.map s.bal.nextServer.2.2.deref)) := rfl

/-- **whatever is selected or forwarded to is a stored URL of the pool as it was before the call,
    and a forwarded request never carries one of the pool's own objects** -/
theorem Sys.routed_member {s : Sys} (h : s.Inv) (op : Op) {x : URL} (hx : (s.step op).2.routedTo = some x) :
    x ∈ s.servers ∧ ∀ y f, (s.step op).2 = .forwarded y f → f = true := by
  cases op with
  | next =>
    rw [Sys.step_next] at hx ⊢
    simp only at hx ⊢
    cases hr : s.bal.nextServer.2.1 with
    | none => rw [hr] at hx; simp [Out.routedTo] at hx
    | some r =>
      rw [hr] at hx
      simp only [Option.map_some, Out.routedTo, Option.some.injEq] at hx
      obtain ⟨_, e2, _⟩ := Bal.nextServer_url h.bal hr
      exact ⟨hx ▸ e2, fun y f hy => by simp at hy⟩
  | serve cookie mt =>
    unfold Sys.step at hx ⊢
    simp only at hx ⊢
    cases hrt : (s.bal.route s.sticky cookie).1 with
    | err e => rw [hrt] at hx; simp [Out.routedTo] at hx
    | fwd ref st =>
      rw [hrt] at hx
      simp only [Out.routedTo, Option.some.injEq] at hx
      obtain ⟨_, f2, _, f4⟩ := Bal.route_fwd h.bal hrt
      obtain ⟨_, _, rr, _, _⟩ := Bal.route_wf h.bal s.sticky cookie
      refine ⟨hx ▸ f4, ?_⟩
      intro y f hy
      simp only [Out.forwarded.injEq] at hy
      rw [← hy.2, rr]
      simpa using f2
  | upsert u w =>
    unfold Sys.step at hx
    cases w with
    | none => simp [Out.routedTo] at hx
    | some w => cases w <;> simp [Out.routedTo] at hx
  | upsertFailing u w =>
    simp only [Sys.step] at hx
    split at hx <;> simp [Out.routedTo] at hx
  | remove u =>
    unfold Sys.step at hx
    simp only at hx
    split at hx
    · split at hx <;> simp [Out.routedTo] at hx
    · split at hx <;> simp [Out.routedTo] at hx
  | rate k v =>
    unfold Sys.step at hx
    simp only at hx
    split at hx <;> simp [Out.routedTo] at hx
  | ready k v =>
    unfold Sys.step at hx
    simp only at hx
    split at hx <;> simp [Out.routedTo] at hx
  | adv ns => simp [Sys.step, Out.routedTo] at hx

/-- the keys of the pool after an operation -/
theorem Sys.step_keys {s : Sys} (h : s.Inv) (op : Op) (k : Key) :
    k ∈ (s.step op).1.bal.view.keys → k ∈ s.bal.view.keys ∨ op.upsertsKey k := by
  have hsp := Sys.step_spec h (sp := s.configured) (fun _ => rfl) op
  intro hk
  rw [← Sys.configured_mem hsp.1, hsp.2.1 k] at hk
  cases op with
  | upsert u w =>
    by_cases he : u.key = k
    · exact Or.inr he
    · left
      rw [← Sys.configured_mem h]
      cases w with
      | none => simpa [specStep, Spec.upsert, Ne.symm he] using hk
      | some w =>
        cases w with
        | ofNat w => simpa [specStep, Spec.upsert, Ne.symm he] using hk
        | negSucc w => simpa [specStep] using hk
  | upsertFailing u w =>
    by_cases he : u.key = k
    · exact Or.inr he
    · left
      rw [← Sys.configured_mem h]
      simp only [specStep] at hk
      split at hk
      · exact hk
      · simpa [Spec.upsert, Ne.symm he] using hk
  | remove u =>
    left
    rw [← Sys.configured_mem h]
    simp only [specStep, Spec.remove] at hk
    split at hk
    · simp at hk
    · exact hk
  | next => left; rw [← Sys.configured_mem h]; simpa [specStep] using hk
  | serve c m => left; rw [← Sys.configured_mem h]; simpa [specStep] using hk
  | rate k' v => left; rw [← Sys.configured_mem h]; simpa [specStep] using hk
  | ready k' v => left; rw [← Sys.configured_mem h]; simpa [specStep] using hk
  | adv ns => left; rw [← Sys.configured_mem h]; simpa [specStep] using hk

theorem Sys.servers_keys (s : Sys) {x : URL} (hx : x ∈ s.servers) : x.key ∈ s.bal.view.keys :=
  List.mem_map.mpr ⟨x, hx, rfl⟩

/-- a key that is not in the pool is not routed to by any later operation, until it is upserted -/
theorem Sys.absent_never_routed (tail : List Op) : ∀ {s : Sys}, s.Inv → ∀ {k : Key}, k ∉ s.bal.view.keys →
    (∀ op ∈ tail, ¬ op.upsertsKey k) → ∀ out ∈ s.outs tail, ∀ x, out.routedTo = some x → x.key ≠ k := by
  induction tail with
  | nil => intro s _ k _ _ out ho; simp [Sys.outs] at ho
  | cons op tail ih =>
    intro s h k hk hno out ho x hx
    simp only [Sys.outs, List.mem_cons] at ho
    rcases ho with rfl | ho
    · intro e
      have := (Sys.routed_member h op hx).1
      exact hk (e ▸ Sys.servers_keys s this)
    · have hinv := (Sys.step_spec h (sp := s.configured) (fun _ => rfl) op).1
      have hk' : k ∉ (s.step op).1.bal.view.keys := by
        intro hm
        rcases Sys.step_keys h op k hm with h1 | h1
        · exact hk h1
        · exact hno op List.mem_cons_self h1
      exact ih hinv hk' (fun o ho' => hno o (List.mem_cons_of_mem _ ho')) out ho x hx

/-! ### consecutive `NextServer()` calls -/

/-- the output of a `NextServer()` call with result `r` on stored URLs `urls` -/
def nextOut (urls : List URL) (r : Res) : Out :=
  .next r (match r with | .sel i => some (urls.getD i default) | _ => none)

theorem Sys.step_next_out {s : Sys} (h : s.Inv) :
    (s.step .next).2 = nextOut s.servers (next s.bal.ws s.bal.it).1 ∧
    (s.step .next).1.bal.ws = s.bal.ws ∧ (s.step .next).1.bal.it = (next s.bal.ws s.bal.it).2 ∧
    (s.step .next).1.servers = s.servers := by
  rw [Sys.step_next]
  obtain ⟨⟨h1, h2, h3, h4⟩, h5⟩ := Bal.nextServer_spec s.bal
  obtain ⟨_, hu⟩ := Bal.nextServer_wf h.bal
  refine ⟨?_, h2, h3, hu⟩
  simp only
  rw [h4]
  unfold nextOut
  rcases h5 with ⟨i, hs, hi, hr, _⟩ | ⟨hn, hr, _⟩
  · rw [h4] at hs
    rw [hs, hr]
    simp only [Option.map_some]
    obtain ⟨_, _, i', hs', hi', hd⟩ := Bal.nextServer_url h.bal hr
    rw [h4, hs] at hs'
    cases hs'
    rw [hd]
    congr 2
    unfold Sys.servers Bal.urls
    simp [List.getD_eq_getElem?_getD, hi']
  · rw [hr]
    rw [h4] at hn
    cases hres : (next s.bal.ws s.bal.it).1 with
    | sel i => exact absurd hres (hn i)
    | errNoServers => rfl
    | errAllZero => rfl
    | outOfFuel => rfl

theorem Sys.outs_nexts (n : Nat) : ∀ {s : Sys}, s.Inv →
    s.outs (List.replicate n .next) = (run s.bal.ws n s.bal.it).map (nextOut s.servers) := by
  induction n with
  | zero => intro s _; rfl
  | succ n ih =>
    intro s h
    obtain ⟨e1, e2, e3, e4⟩ := Sys.step_next_out h
    have hinv := (Sys.step_spec h (sp := s.configured) (fun _ => rfl) .next).1
    simp only [List.replicate_succ, Sys.outs, run, List.map_cons]
    rw [e1, ih hinv, e2, e3, e4]

theorem Sys.applyOps_nexts (n : Nat) : ∀ {s : Sys}, s.Inv →
    (s.applyOps (List.replicate n .next)).Inv ∧
    (s.applyOps (List.replicate n .next)).bal.ws = s.bal.ws ∧
    (s.applyOps (List.replicate n .next)).bal.it = after s.bal.ws n s.bal.it ∧
    (s.applyOps (List.replicate n .next)).servers = s.servers := by
  induction n with
  | zero => intro s h; exact ⟨h, rfl, rfl, rfl⟩
  | succ n ih =>
    intro s h
    obtain ⟨_, e2, e3, e4⟩ := Sys.step_next_out h
    have hinv := (Sys.step_spec h (sp := s.configured) (fun _ => rfl) .next).1
    obtain ⟨a, b, c, d⟩ := ih hinv
    simp only [List.replicate_succ, Sys.applyOps, List.foldl_cons] at a b c d ⊢
    refine ⟨a, b.trans e2, ?_, d.trans e4⟩
    rw [c, e2, e3]; rfl

/-! ### zero weights -/

theorem Sys.all_zero_of_spec {s : Sys} (h : s.Inv) {sp : Spec} (hr : s.Refines sp)
    (hz : ∀ k w, sp k = some w → w = 0) : ∀ w ∈ s.bal.ws, w = 0 := by
  intro w hw
  obtain ⟨i, hi, rfl⟩ := List.getElem_of_mem hw
  have hlen : s.bal.view.keys.length = s.bal.ws.length := h.bal.view.len.symm
  have hi' : i < s.bal.view.keys.length := by rw [hlen]; exact hi
  by_cases hv : s.viaRb = true
  · have hinv := h.reb hv
    have hk : i < s.reb.shadow.keys.length := by
      show i < (s.reb.servers.map Rec.key).length
      rw [hinv.keys]; exact hi'
    have hs : i < s.reb.servers.length := by simpa [Reb.shadow] using hk
    have hc : s.reb.shadow.weight s.reb.shadow.keys[i] = some s.reb.servers[i].orig :=
      (Pool.weight_some hinv.shadow_wf).mpr ⟨i, hk, rfl, by simp [Reb.shadow]⟩
    have := hr s.reb.shadow.keys[i]
    unfold Sys.configured at this
    rw [if_pos hv] at this
    unfold Reb.configured at this
    rw [hc] at this
    have ho := hz _ _ this.symm
    have hb := (hinv.bounded _ (List.getElem_mem hs)).2 ho
    have hws : s.bal.ws[i] = s.reb.servers[i].cur := by
      have e : s.bal.ws = s.reb.servers.map (·.cur) := hinv.ws.symm
      have : s.bal.ws[i]? = (s.reb.servers.map (·.cur))[i]? := by rw [e]
      simpa [List.getElem?_eq_getElem hi, List.getElem?_eq_getElem hs] using this
    rw [hws]; exact hb
  · have hc : s.bal.view.weight s.bal.view.keys[i] = some s.bal.ws[i] :=
      (Pool.weight_some h.bal.view).mpr ⟨i, hi', rfl, rfl⟩
    have := hr s.bal.view.keys[i]
    unfold Sys.configured at this
    rw [if_neg hv] at this
    unfold Bal.weight at this
    rw [hc] at this
    exact hz _ _ this.symm

theorem Sys.keys_nil_of_spec {s : Sys} (h : s.Inv) {sp : Spec} (hr : s.Refines sp)
    (hz : ∀ k, sp k = none) : s.bal.refs = [] ∧ s.bal.ws = [] := by
  have hk : s.bal.view.keys = [] := by
    apply List.eq_nil_iff_forall_not_mem.mpr
    intro k hk
    rw [← Sys.configured_mem h, hr k, hz k] at hk
    cases hk
  have h1 : s.bal.refs = [] := by
    simpa [Bal.view_keys, Bal.urls] using hk
  refine ⟨h1, ?_⟩
  apply List.eq_nil_of_length_eq_zero
  rw [h.bal.len, h1]; rfl

end RB

namespace RB
open PoolM RR

theorem applyWeights_it (ps : List Rec) : ∀ (b : Bal), ps ≠ [] → (Reb.applyWeights b ps).it = It.reset := by
  induction ps with
  | nil => intro b h; exact absurd rfl h
  | cons s ps ih =>
    intro b _
    by_cases hp : ps = []
    · subst hp; exact Bal.upsert_it b s.url (some s.cur)
    · exact ih (b.upsert s.url (some s.cur)) hp

/-- a successful add / update leaves the iterator reset, through either front end -/
theorem Sys.upsert_it {s : Sys} (h : s.Inv) (u : URL) (w : Option Nat) :
    ((if s.viaRb then { s with reb := s.reb.upsert s.now u w } else s.withBal (s.bal.upsert u w) : Sys)).bal.it = It.reset := by
  by_cases hv : s.viaRb = true
  · rw [if_pos hv]
    have hi := h.reb hv
    obtain ⟨i1, i2, _⟩ := Reb.upsert_spec hi s.now u w
    have hne : (s.reb.upsert s.now u w).servers ≠ [] := by
      intro he
      have hk : u.key ∈ (s.reb.upsert s.now u w).shadow.keys := by
        rw [i2, Pool.mem_upsert_keys]; exact Or.inl rfl
      simp [Reb.shadow, he] at hk
    have : ∃ b0, (s.reb.upsert s.now u w).bal = Reb.applyWeights b0 (s.reb.upsert s.now u w).servers := by
      unfold Reb.upsert Reb.reset; exact ⟨_, rfl⟩
    obtain ⟨b0, hb0⟩ := this
    show (s.reb.upsert s.now u w).bal.it = _
    rw [hb0]
    exact applyWeights_it _ _ hne
  · rw [if_neg hv]
    exact Bal.upsert_it _ _ _

end RB
