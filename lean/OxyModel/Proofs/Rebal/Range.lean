import OxyModel.Proofs.Rebal.Share
import OxyModel.Props.C01

/-! Configured vs effective weight of a server behind the rebalancer; servability. -/
namespace RB
open PoolM RR

/-- behind the rebalancer: the record of a configured key, and the balancer's (effective) weight -/
theorem Sys.effective_of_configured {s : Sys} (h : s.Inv) (hv : s.viaRb = true) {k : Key} {w : Nat}
    (hc : s.reb.configured k = some w) :
    ∃ p ∈ s.reb.servers, p.key = k ∧ p.orig = w ∧ s.bal.weight k = some p.cur := by
  have hinv := h.reb hv
  unfold Reb.configured at hc
  obtain ⟨i, hi, hk, hw⟩ := (Pool.weight_some hinv.shadow_wf).mp hc
  have hs : i < s.reb.servers.length := by simpa [Reb.shadow] using hi
  have hk' : s.reb.servers[i].key = k := by simpa [Reb.shadow] using hk
  have hw' : s.reb.servers[i].orig = w := by simpa [Reb.shadow] using hw
  refine ⟨s.reb.servers[i], List.getElem_mem hs, hk', hw', ?_⟩
  unfold Bal.weight
  have hib : i < s.bal.view.keys.length := by
    have e : s.bal.view.keys = s.reb.servers.map Rec.key := hinv.keys.symm
    rw [e]; simpa using hs
  rw [Pool.weight_some h.bal.view]
  refine ⟨i, hib, ?_, ?_⟩
  · have : s.bal.view.keys[i]? = (s.reb.servers.map Rec.key)[i]? := by rw [hinv.keys]; rfl
    rw [List.getElem?_eq_getElem hib, List.getElem?_eq_getElem (by simpa using hs)] at this
    rw [Option.some.inj this]; simpa using hk'
  · have e : s.bal.ws = s.reb.servers.map (·.cur) := hinv.ws.symm
    have hiw : i < s.bal.ws.length := by rw [e]; simpa using hs
    have : s.bal.ws[i]? = (s.reb.servers.map (·.cur))[i]? := by rw [e]
    rw [List.getElem?_eq_getElem hiw, List.getElem?_eq_getElem (by simpa using hs)] at this
    have := Option.some.inj this
    simpa using this

/-- with a positive weight in the pool, selection succeeds (C01: never an error, never fuel) -/
theorem Sys.next_sel {s : Sys} (h : s.Inv) (hp : ∃ w ∈ s.bal.ws, 0 < w) :
    ∃ i, (next s.bal.ws s.bal.it).1 = .sel i ∧ i < s.bal.ws.length ∧ 0 < s.bal.ws.getD i 0 := by
  obtain ⟨j, hj⟩ := h.bal.orbit
  have := C01.C01_selects_positive s.bal.ws hp j 1 (next s.bal.ws s.bal.it).1 (by rw [← hj]; simp [run])
  obtain ⟨i, e, hi, hpos⟩ := this
  exact ⟨i, e, hi, hpos⟩

/-- a request on a pool with a positive weight is forwarded -/
theorem Sys.serve_forwarded {s : Sys} (h : s.Inv) (hp : ∃ w ∈ s.bal.ws, 0 < w) (cookie : Option Key) (mt : Option Mut) :
    ∃ y f, (s.step (.serve cookie mt)).2 = .forwarded y f := by
  unfold Sys.step
  simp only
  cases hrt : (s.bal.route s.sticky cookie).1 with
  | fwd ref st => exact ⟨_, _, rfl⟩
  | err e =>
    exfalso
    obtain ⟨hs, _, _, _, _, he⟩ := Bal.route_err hrt
    obtain ⟨i, hsel, _, _⟩ := Sys.next_sel h hp
    rw [hsel] at he
    -- the error path is only taken when the selection failed
    rw [Bal.route_eq, hs] at hrt
    simp only at hrt
    obtain ⟨⟨_, _, _, h4⟩, h5⟩ := Bal.nextServer_spec s.bal
    rcases hn : s.bal.nextServer with ⟨res, oref, b'⟩
    rw [hn] at hrt h4 h5
    simp only at h4 h5
    rw [hsel] at h4
    subst h4
    rcases h5 with ⟨i', _, _, hsome, _⟩ | ⟨hnsel, _, _⟩
    · subst hsome; simp at hrt
    · exact hnsel i rfl

/-- behind the rebalancer, on a pool with a positive weight: the effective weights after a request are
    those of the adjustment the request runs -/
theorem Sys.serve_ws {s : Sys} (h : s.Inv) (hv : s.viaRb = true) (hp : ∃ w ∈ s.bal.ws, 0 < w)
    (cookie : Option Key) (mt : Option Mut) :
    (s.step (.serve cookie mt)).1.bal.ws = (s.reb.adjust s.now).servers.map (·.cur) := by
  obtain ⟨a, _, c⟩ := Sys.step_spec h (sp := s.configured) (fun _ => rfl) (.serve cookie mt)
  have hws := (a.reb (by rw [c.viaRb]; exact hv)).ws
  obtain ⟨y, f, hfw⟩ := Sys.serve_forwarded h hp cookie mt
  unfold Sys.step at hws hfw ⊢
  simp only at hws hfw ⊢
  cases hrt : (s.bal.route s.sticky cookie).1 with
  | err e => rw [hrt] at hfw; simp at hfw
  | fwd ref st' =>
    rw [hrt] at hws
    simp only at hws ⊢
    rw [if_pos hv] at hws ⊢
    have hsv : ((s.withBal ((s.bal.route s.sticky cookie).2.mutate ref mt)).reb.adjust s.now).servers =
        (s.reb.adjust s.now).servers := Reb.adjust_servers_bal s.reb _ s.now
    rw [← hsv]
    exact hws.symm

/-- after a successful membership / configured-weight change through the rebalancer every effective
    weight is the configured one -/
theorem Sys.restored_of_all_orig {s : Sys} (h : s.Inv) (hv : s.viaRb = true)
    (hall : ∀ p ∈ s.reb.servers, p.cur = p.orig) (k : Key) : s.bal.weight k = s.reb.configured k := by
  have hinv := h.reb hv
  unfold Bal.weight Reb.configured
  apply Pool.weight_congr
  · exact hinv.keys.symm
  · show s.bal.ws = s.reb.servers.map (·.orig)
    have e : s.bal.ws = s.reb.servers.map (·.cur) := hinv.ws.symm
    rw [e]
    apply List.map_congr_left
    intro p hp; exact hall p hp

end RB
