import OxyModel.Model.Rebalancer
import Mathlib.Tactic

/-! `SplitFloat64` over rationals: with non-negative ratings at least one server is rated good, so
"some server is rated an outlier" always means a *mixed* marking. -/
namespace RB

theorem insertRat_perm (x : Rat) (l : List Rat) : (insertRat x l).Perm (x :: l) := by
  induction l with
  | nil => exact List.Perm.refl _
  | cons y ys ih =>
    unfold insertRat
    split
    · exact List.Perm.refl _
    · exact (List.Perm.cons y ih).trans (List.Perm.swap x y ys)

theorem sortRat_perm (l : List Rat) : (sortRat l).Perm l := by
  induction l with
  | nil => exact List.Perm.refl _
  | cons x xs ih => exact (insertRat_perm x _).trans (List.Perm.cons x ih)

theorem insertRat_sorted (x : Rat) (l : List Rat) (h : l.Pairwise (· ≤ ·)) :
    (insertRat x l).Pairwise (· ≤ ·) := by
  induction l with
  | nil => simp [insertRat]
  | cons y ys ih =>
    unfold insertRat
    split
    · rename_i hxy
      refine List.Pairwise.cons ?_ h
      intro z hz
      rcases List.mem_cons.mp hz with rfl | hz
      · exact hxy
      · exact le_trans hxy (List.rel_of_pairwise_cons h hz)
    · rename_i hxy
      have hyx : y ≤ x := le_of_lt (not_le.mp hxy)
      refine List.Pairwise.cons ?_ (ih (List.Pairwise.of_cons h))
      intro z hz
      have := (insertRat_perm x ys).mem_iff.mp hz
      rcases List.mem_cons.mp this with rfl | hz'
      · exact hyx
      · exact List.rel_of_pairwise_cons h hz'

theorem sortRat_sorted (l : List Rat) : (sortRat l).Pairwise (· ≤ ·) := by
  induction l with
  | nil => simp [sortRat]
  | cons x xs ih => exact insertRat_sorted x _ ih

theorem sortRat_length (l : List Rat) : (sortRat l).length = l.length := (sortRat_perm l).length_eq

/-- the median of an odd number of values is one of them -/
theorem median_odd (vs : List Rat) (hodd : vs.length % 2 = 1) :
    ∃ h : vs.length / 2 < (sortRat vs).length, median vs = (sortRat vs)[vs.length / 2] := by
  have hl := sortRat_length vs
  have hlt : vs.length / 2 < (sortRat vs).length := by rw [hl]; omega
  refine ⟨hlt, ?_⟩
  unfold median
  simp only [hl]
  rw [if_pos (by omega)]
  simp [List.getD_eq_getElem?_getD, hlt]

theorem median_mem (vs : List Rat) (hodd : vs.length % 2 = 1) : median vs ∈ vs := by
  obtain ⟨h, e⟩ := median_odd vs hodd
  rw [e]
  exact (sortRat_perm vs).mem_iff.mp (List.getElem_mem h)

/-- the least element of the sorted list is at most the median -/
theorem sorted_le_median (vs : List Rat) (hodd : vs.length % 2 = 1) (i : Nat) (hi : i ≤ vs.length / 2)
    (h : i < (sortRat vs).length) : (sortRat vs)[i] ≤ median vs := by
  obtain ⟨h2, e⟩ := median_odd vs hodd
  rw [e]
  rcases Nat.lt_or_eq_of_le hi with hlt | rfl
  · exact (List.pairwise_iff_getElem.mp (sortRat_sorted vs)) i (vs.length / 2) h h2 hlt
  · exact le_rfl

theorem take_two (l : List Rat) (h0 : 0 < l.length) (h1 : 1 < l.length) : l.take 2 = [l[0], l[1]] := by
  rcases l with _ | ⟨a, _ | ⟨b, t⟩⟩
  · simp at h0
  · simp at h1
  · simp

/-- with non-negative values some value is at most the cut -/
theorem exists_le_cut (values : List Rat) (hne : values ≠ []) (hnn : ∀ v ∈ values, 0 ≤ v) :
    ∃ v ∈ values, ¬ v > splitCut splitThreshold 0 values := by
  unfold splitCut
  generalize hnv : (if values.length % 2 = 0 then values ++ [(0 : Rat)] else values) = nv
  have hodd : nv.length % 2 = 1 := by
    rw [← hnv]; split
    · simp; omega
    · omega
  have hnn' : ∀ v ∈ nv, 0 ≤ v := by
    rw [← hnv]; split
    · intro v hv
      rcases List.mem_append.mp hv with h | h
      · exact hnn v h
      · simp at h; rw [h]
    · exact hnn
  have hm0 : 0 ≤ median nv := hnn' _ (median_mem nv hodd)
  have hmad0 : 0 ≤ medianAbsoluteDeviation nv := by
    unfold medianAbsoluteDeviation
    simp only
    have hodd' : (nv.map fun v => Rat.abs (v - median nv)).length % 2 = 1 := by simpa using hodd
    have := median_mem _ hodd'
    obtain ⟨v, _, hv⟩ := List.mem_map.mp this
    rw [← hv]
    exact Rat.abs_nonneg
  have hcut : median nv ≤ (median nv + medianAbsoluteDeviation nv) * splitThreshold := by
    unfold splitThreshold
    nlinarith
  -- some value is ≤ the median
  suffices h : ∃ v ∈ values, v ≤ median nv by
    obtain ⟨v, hv, hle⟩ := h
    exact ⟨v, hv, not_lt.mpr (le_trans hle hcut)⟩
  have hlen : (sortRat nv).length = nv.length := sortRat_length nv
  by_cases hev : values.length % 2 = 0
  · -- even count: the sentinel was appended; two sorted positions are ≤ the median, at most one is the sentinel
    rw [if_pos hev] at hnv
    by_contra hcon
    push Not at hcon
    have hvl : 2 ≤ values.length := by
      have : values.length ≠ 0 := fun h => hne (List.length_eq_zero_iff.mp h)
      omega
    have hnl : nv.length = values.length + 1 := by rw [← hnv]; simp
    have h0 : 0 < (sortRat nv).length := by omega
    have h1 : 1 < (sortRat nv).length := by omega
    have le0 := sorted_le_median nv hodd 0 (by omega) h0
    have le1 := sorted_le_median nv hodd 1 (by omega) h1
    have hc2 : 2 ≤ (sortRat nv).countP (fun x => decide (x ≤ median nv)) := by
      have hsub : [(sortRat nv)[0], (sortRat nv)[1]].Sublist (sortRat nv) := by
        rw [← take_two (sortRat nv) h0 h1]; exact List.take_sublist 2 _
      have := List.Sublist.countP_le (p := fun x => decide (x ≤ median nv)) hsub
      simpa [List.countP_cons, le0, le1] using this
    rw [(sortRat_perm nv).countP_eq, ← hnv, List.countP_append] at hc2
    have hz : values.countP (fun x => decide (x ≤ median nv)) = 0 := by
      rw [List.countP_eq_zero]
      intro v hv
      have := hcon v hv
      rw [hnv] at *
      simpa using this
    rw [hnv] at hc2
    rw [hz] at hc2
    have : List.countP (fun x => decide (x ≤ median nv)) [(0 : Rat)] ≤ 1 := by
      simpa using List.countP_le_length (p := fun x => decide (x ≤ median nv)) (l := [(0 : Rat)])
    omega
  · rw [if_neg hev] at hnv
    subst hnv
    have h0 : 0 < (sortRat values).length := by
      rw [hlen]; exact List.length_pos_iff.mpr hne
    exact ⟨(sortRat values)[0], (sortRat_perm values).mem_iff.mp (List.getElem_mem h0),
      sorted_le_median values hodd 0 (by omega) h0⟩

/-- the `good` flag of a rating is "not above the cut" -/
theorem markServers_flag (ratings : List Rat) (i : Nat) (h : i < ratings.length) :
    (markServers ratings).1[i]? = some (!decide (ratings[i] > splitCut splitThreshold 0 ratings)) := by
  unfold markServers splitFloat64
  simp only [List.getElem?_map, List.getElem?_eq_getElem h, Option.map_some, Option.some.injEq]
  rw [Bool.eq_iff_iff]
  simp only [List.contains_iff_mem, List.mem_filter, Bool.not_eq_true', decide_eq_false_iff_not]
  constructor
  · intro hx; exact hx.2
  · intro hx; exact ⟨List.getElem_mem h, hx⟩

/-- **with non-negative ratings, a server rated an outlier implies a mixed marking** -/
theorem markServers_mixed (ratings : List Rat) (hnn : ∀ v ∈ ratings, 0 ≤ v) (i : Nat)
    (hbad : (markServers ratings).1[i]? = some false) : (markServers ratings).2 = true := by
  have hi : i < ratings.length := by
    by_contra hlt
    have : (markServers ratings).1.length = ratings.length := by simp [markServers]
    rw [List.getElem?_eq_none (by omega)] at hbad; cases hbad
  have hne : ratings ≠ [] := by
    intro e; rw [e] at hi; simp at hi
  rw [markServers_flag ratings i hi] at hbad
  have hb : ratings[i] > splitCut splitThreshold 0 ratings := by simpa using hbad
  obtain ⟨v, hv, hg⟩ := exists_le_cut ratings hne hnn
  unfold markServers splitFloat64
  simp only [Bool.and_eq_true, Bool.not_eq_true', List.isEmpty_eq_false_iff_exists_mem]
  exact ⟨⟨v, List.mem_filter.mpr ⟨hv, by simpa using hg⟩⟩, ⟨ratings[i], List.mem_filter.mpr ⟨List.getElem_mem hi, by simpa using hb⟩⟩⟩

end RB
