import OxyModel.Proofs.RR.Orbit

namespace RR
namespace Ctx
variable (c : Ctx)

/-- position `p` (0-based count of loop iterations since reset) selects its server -/
def hit (p : Nat) : Prop := (c.o (p + 1)).cw ≤ c.ws.getD (p % c.n) 0

instance : DecidablePred c.hit := fun p => by unfold hit; exact inferInstance

theorem hit_periodic (p : Nat) : c.hit (p + c.M) ↔ c.hit p := by
  unfold hit
  have e : p + c.M + 1 = p + 1 + c.M := by omega
  rw [e, c.o_period p]
  have : (p + c.M) % c.n = p % c.n := by
    unfold M; rw [Nat.add_mul_mod_self_right]
  rw [this]

/-- the loop, started after `P` iterations, stops at the least hit `q ≥ P` -/
theorem loop_spec : ∀ (fuel P q : Nat), P ≤ q → (∀ r, P ≤ r → r < q → ¬ c.hit r) → c.hit q →
    q - P < fuel → loop c.ws c.g c.mx fuel (c.o P) = (.sel (q % c.n), c.o (q + 1)) := by
  intro fuel
  induction fuel with
  | zero => intro P q _ _ _ hf; omega
  | succ fuel ih =>
    intro P q hPq hno hh hf
    have hs : advance c.ws.length c.g c.mx (c.o P) = c.o (P + 1) := rfl
    unfold loop
    simp only [hs]
    have hcw := c.o_cw_pos P
    have hidx := c.o_idx1 P
    have h1 : ¬ ((c.o (P + 1)).idx1 = 1 ∧ (c.o (P + 1)).cw = 0) := by omega
    simp only [h1, if_false]
    have hidx' : (c.o (P + 1)).idx1 - 1 = P % c.n := by omega
    rw [hidx']
    by_cases hPeq : P = q
    · subst hPeq
      have : c.ws.getD (P % c.n) 0 ≥ (c.o (P + 1)).cw := hh
      simp only [this, if_true]
    · have hnot : ¬ c.hit P := hno P (Nat.le_refl _) (by omega)
      have : ¬ (c.ws.getD (P % c.n) 0 ≥ (c.o (P + 1)).cw) := hnot
      simp only [this, if_false]
      exact ih (P + 1) q (by omega) (fun r hr hrq => hno r (by omega) hrq) hh (by omega)

/-- some server carries the maximal weight, and it is hit on every sweep -/
theorem exists_hit (P : Nat) : ∃ q, P ≤ q ∧ q < P + c.n ∧ c.hit q := by
  have hn := c.n_pos
  obtain ⟨im, him, hget⟩ := List.getElem_of_mem (maxW_mem c.hmx)
  have him' : im < c.n := him
  generalize hr0 : P % c.n = r
  have hr : r < c.n := by rw [← hr0]; exact Nat.mod_lt _ hn
  have hd : (im + c.n - r) % c.n = if r ≤ im then im - r else im + c.n - r := by
    split
    · have e : im + c.n - r = (im - r) + c.n := by omega
      rw [e, Nat.add_mod_right, Nat.mod_eq_of_lt (by omega)]
    · rw [Nat.mod_eq_of_lt (by omega)]
  refine ⟨P + (im + c.n - r) % c.n, by omega, ?_, ?_⟩
  · have := Nat.mod_lt (im + c.n - r) hn; omega
  · have hmod : (P + (im + c.n - r) % c.n) % c.n = im := by
      rw [Nat.add_mod, Nat.mod_mod, hr0, hd]
      split
      · have : r + (im - r) = im := by omega
        rw [this, Nat.mod_eq_of_lt him']
      · have : r + (im + c.n - r) = im + c.n := by omega
        rw [this, Nat.add_mod_right, Nat.mod_eq_of_lt him']
    unfold hit
    rw [hmod]
    have : c.ws.getD im 0 = c.mx := by
      rw [List.getD_eq_getElem?_getD, List.getElem?_eq_getElem him]; exact hget
    rw [this]
    exact c.o_cw_le _

/-- least hit at or after `P` -/
def nextHit (P : Nat) : Nat := Nat.find (p := fun q => P ≤ q ∧ c.hit q)
  (let ⟨q, h1, _, h3⟩ := c.exists_hit P; ⟨q, h1, h3⟩)

theorem nextHit_spec (P : Nat) :
    P ≤ c.nextHit P ∧ c.hit (c.nextHit P) ∧ c.nextHit P < P + c.n ∧
    ∀ r, P ≤ r → r < c.nextHit P → ¬ c.hit r := by
  unfold nextHit
  have hs := Nat.find_spec (p := fun q => P ≤ q ∧ c.hit q)
    (let ⟨q, h1, _, h3⟩ := c.exists_hit P; ⟨q, h1, h3⟩)
  refine ⟨hs.1, hs.2, ?_, ?_⟩
  · obtain ⟨q, h1, h2, h3⟩ := c.exists_hit P
    have := Nat.find_min' (p := fun q => P ≤ q ∧ c.hit q)
      (let ⟨q, h1, _, h3⟩ := c.exists_hit P; ⟨q, h1, h3⟩) ⟨h1, h3⟩
    omega
  · intro r hr hlt hhit
    have := Nat.find_min (p := fun q => P ≤ q ∧ c.hit q)
      (let ⟨q, h1, _, h3⟩ := c.exists_hit P; ⟨q, h1, h3⟩) hlt
    exact this ⟨hr, hhit⟩

theorem next_spec (P : Nat) :
    next c.ws (c.o P) = (.sel (c.nextHit P % c.n), c.o (c.nextHit P + 1)) := by
  have hn := c.n_pos
  obtain ⟨h1, h2, h3, h4⟩ := c.nextHit_spec P
  unfold next
  have hlen : ¬ (c.ws.length = 0) := by have : c.ws.length = c.n := rfl; omega
  have hmx : ¬ (maxW c.ws = 0) := by have := c.mx_pos; have : c.mx = maxW c.ws := rfl; omega
  simp only [hlen, hmx, if_false]
  apply c.loop_spec _ P (c.nextHit P) h1 h4 h2
  have : c.ws.length = c.n := rfl
  rw [this]
  have : c.n * (maxW c.ws / gcdW c.ws) + c.n + 1 ≥ c.n + 1 := by omega
  omega

end Ctx
end RR
