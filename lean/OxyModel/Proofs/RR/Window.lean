import OxyModel.Proofs.RR.Period
import Mathlib.Algebra.BigOperators.Group.Finset.Basic

/-! `W = Σ w_i / g`, and splitting of `run` / `after` -/
namespace RR

open Finset in
theorem count_split (q : Nat → Prop) [DecidablePred q] (f : Nat → Nat) (n : Nat)
    (hf : ∀ p, f p < n) (m : Nat) :
    Nat.count q m = ∑ i ∈ range n, Nat.count (fun p => q p ∧ f p = i) m := by
  induction m with
  | zero => simp
  | succ m ih =>
    simp only [Nat.count_succ, Finset.sum_add_distrib, ← ih]
    congr 1
    by_cases hq : q m
    · simp only [hq, true_and, if_true]
      rw [Finset.sum_ite_eq (range n) (f m) (fun _ => 1)]
      simp [hf m]
    · simp [hq]

theorem sum_range_getD (l : List Nat) (h : Nat → Nat) (h0 : h 0 = 0 ∨ True) :
    (∑ i ∈ Finset.range l.length, h (l.getD i 0)) = (l.map h).sum := by
  induction l with
  | nil => simp
  | cons a l ih =>
    rw [List.length_cons, Finset.sum_range_succ']
    simp only [List.getD_cons_succ, List.getD_cons_zero, List.map_cons, List.sum_cons]
    rw [ih]; omega

namespace Ctx
variable (c : Ctx)

theorem W_eq_sum : c.W = (c.ws.map (· / c.g)).sum := by
  unfold W
  rw [count_split c.hit (fun p => p % c.n) c.n (fun p => Nat.mod_lt p c.n_pos) c.M]
  have : ∀ i, Nat.count (fun p => c.hit p ∧ p % c.n = i) c.M = c.ws.getD i 0 / c.g :=
    fun i => c.count_hitI_period i
  simp only [this]
  exact sum_range_getD c.ws (· / c.g) (Or.inr trivial)

theorem sum_div_eq : (c.ws.map (· / c.g)).sum = c.ws.sum / c.g := by
  have hg := c.g_pos
  have hd : ∀ w ∈ c.ws, c.g ∣ w := fun w hw => gcdW_dvd hw
  generalize c.g = g at *
  generalize c.ws = ws at *
  induction ws with
  | nil => simp
  | cons a l ih =>
    simp only [List.map_cons, List.sum_cons]
    rw [ih (fun w hw => hd w (List.mem_cons_of_mem _ hw))]
    obtain ⟨k, rfl⟩ := hd a (List.mem_cons_self)
    rw [Nat.mul_comm g k, Nat.mul_div_cancel _ hg, Nat.add_comm (k * g), Nat.add_mul_div_right _ _ hg, Nat.add_comm]

end Ctx

theorem run_add (ws : List Nat) (a b : Nat) : ∀ s,
    run ws (a + b) s = run ws a s ++ run ws b (after ws a s) := by
  induction a with
  | zero => intro s; simp [run, after]
  | succ a ih => intro s; rw [Nat.succ_add]; simp only [run, after, List.cons_append]; rw [ih]

theorem after_add (ws : List Nat) (a b : Nat) : ∀ s,
    after ws (a + b) s = after ws b (after ws a s) := by
  induction a with
  | zero => intro s; simp [after]
  | succ a ih => intro s; rw [Nat.succ_add]; simp only [after]; rw [ih]

end RR
