import OxyModel.Model.RoundRobin
import Mathlib.Data.Nat.Count
import Mathlib.Data.Nat.Periodic
import Mathlib.Tactic

namespace RR

/-! ### fold facts -/

theorem foldl_gcd_dvd_acc (ws : List Nat) (a : Nat) : ws.foldl Nat.gcd a ∣ a := by
  induction ws generalizing a with
  | nil => simp
  | cons w ws ih => exact (ih (Nat.gcd a w)).trans (Nat.gcd_dvd_left a w)

theorem foldl_gcd_dvd_mem (ws : List Nat) (a : Nat) : ∀ w ∈ ws, ws.foldl Nat.gcd a ∣ w := by
  induction ws generalizing a with
  | nil => simp
  | cons x ws ih =>
    intro w hw
    rcases List.mem_cons.mp hw with rfl | hw
    · exact (foldl_gcd_dvd_acc ws (Nat.gcd a w)).trans (Nat.gcd_dvd_right a w)
    · exact ih _ w hw

theorem gcdW_dvd {ws : List Nat} {w : Nat} (h : w ∈ ws) : gcdW ws ∣ w :=
  foldl_gcd_dvd_mem ws 0 w h

theorem foldl_max_ge_acc (ws : List Nat) (a : Nat) : a ≤ ws.foldl max a := by
  induction ws generalizing a with
  | nil => simp
  | cons w ws ih => exact le_trans (le_max_left a w) (ih _)

theorem foldl_max_ge_mem (ws : List Nat) (a : Nat) : ∀ w ∈ ws, w ≤ ws.foldl max a := by
  induction ws generalizing a with
  | nil => simp
  | cons x ws ih =>
    intro w hw
    rcases List.mem_cons.mp hw with rfl | hw
    · exact le_trans (le_max_right a w) (foldl_max_ge_acc ws _)
    · exact ih _ w hw

theorem le_maxW {ws : List Nat} {w : Nat} (h : w ∈ ws) : w ≤ maxW ws := foldl_max_ge_mem ws 0 w h

theorem foldl_max_mem (ws : List Nat) (a : Nat) : ws.foldl max a = a ∨ ws.foldl max a ∈ ws := by
  induction ws generalizing a with
  | nil => simp
  | cons w ws ih =>
    simp only [List.foldl]
    rcases ih (max a w) with h | h
    · rcases le_total a w with hw | hw
      · right; rw [h, max_eq_right hw]; exact List.mem_cons_self
      · left; rw [h, max_eq_left hw]
    · right; exact List.mem_cons_of_mem _ h

theorem maxW_mem {ws : List Nat} (h : 0 < maxW ws) : maxW ws ∈ ws := by
  rcases foldl_max_mem ws 0 with h0 | hm
  · unfold maxW at h; omega
  · exact hm

theorem gcdW_dvd_maxW {ws : List Nat} (h : 0 < maxW ws) : gcdW ws ∣ maxW ws := gcdW_dvd (maxW_mem h)

theorem gcdW_pos {ws : List Nat} (h : 0 < maxW ws) : 0 < gcdW ws :=
  Nat.pos_of_dvd_of_pos (gcdW_dvd_maxW h) h

end RR
