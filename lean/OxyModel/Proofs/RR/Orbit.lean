import OxyModel.Proofs.RR.Folds

namespace RR

/-- fixed pool with a positive maximal weight -/
structure Ctx where
  ws : List Nat
  hmx : 0 < maxW ws

namespace Ctx
variable (c : Ctx)

def n : Nat := c.ws.length
def g : Nat := gcdW c.ws
def mx : Nat := maxW c.ws
def L : Nat := c.mx / c.g
def M : Nat := c.L * c.n

theorem g_pos : 0 < c.g := gcdW_pos c.hmx
theorem mx_pos : 0 < c.mx := c.hmx
theorem n_pos : 0 < c.n := by
  have := maxW_mem c.hmx
  exact List.length_pos_of_mem this
theorem mx_eq : c.mx = c.L * c.g := by
  unfold L; exact (Nat.div_mul_cancel (gcdW_dvd_maxW c.hmx)).symm
theorem L_pos : 0 < c.L := by
  have h := c.mx_eq; have := c.mx_pos
  rcases Nat.eq_zero_or_pos c.L with h0 | h0
  · rw [h0] at h; omega
  · exact h0
theorem M_pos : 0 < c.M := Nat.mul_pos c.L_pos c.n_pos

/-- orbit of the iterator: state after `P` loop iterations from a reset iterator -/
def o (c : Ctx) : Nat → It
  | 0 => It.reset
  | P + 1 => advance c.n c.g c.mx (o c P)

theorem advance_idx1 (n g mx : Nat) (s : It) : (advance n g mx s).idx1 = s.idx1 % n + 1 := by
  unfold advance; simp only; split <;> (try split) <;> rfl

theorem o_idx1 (P : Nat) : (c.o (P + 1)).idx1 = P % c.n + 1 := by
  induction P with
  | zero => simp [o, advance_idx1, It.reset]
  | succ P ih =>
    rw [o, advance_idx1, ih, Nat.mod_add_mod]

theorem o_cw_pos (P : Nat) : 0 < (c.o (P + 1)).cw := by
  have hmx := c.mx_pos
  induction P with
  | zero => simp [o, advance, It.reset]; exact hmx
  | succ P ih =>
    rw [o]; unfold advance; simp only
    split
    · split
      · exact hmx
      · simp only; omega
    · exact ih

theorem o_cw_le (P : Nat) : (c.o P).cw ≤ c.mx := by
  induction P with
  | zero => simp [o, It.reset]
  | succ P ih =>
    rw [o]; unfold advance; simp only
    split
    · split
      · exact Nat.le_refl _
      · simp only; omega
    · exact ih

/-- the orbit inside one period, by (level index `a`, server index `b`) -/
theorem o_block : ∀ a, a < c.L → ∀ b, b < c.n →
    c.o (a * c.n + b + 1) = ⟨b + 1, c.mx - a * c.g⟩ := by
  have hn := c.n_pos
  have hg := c.g_pos
  have hmx := c.mx_eq
  intro a
  induction a with
  | zero =>
    intro ha b
    induction b with
    | zero => intro _; simp [o, advance, It.reset]
    | succ b ihb =>
      intro hb
      have := ihb (by omega)
      simp only [Nat.zero_mul, Nat.zero_add] at this ⊢
      rw [o, this]; unfold advance; simp only
      have h1 : (b + 1) % c.n = b + 1 := Nat.mod_eq_of_lt hb
      rw [h1]; simp
  | succ a iha =>
    intro ha b
    induction b with
    | zero =>
      intro _
      have hlast := iha (by omega) (c.n - 1) (by omega)
      have e : (a + 1) * c.n + 0 + 1 = (a * c.n + (c.n - 1) + 1) + 1 := by
        rw [Nat.add_mul]; omega
      rw [e, o, hlast]; unfold advance; simp only
      have h1 : (c.n - 1 + 1) % c.n = 0 := by
        rw [Nat.sub_add_cancel hn]; exact Nat.mod_self _
      rw [h1]; simp only [if_true]
      have hlt : ¬ (c.mx - a * c.g ≤ c.g) := by
        rw [hmx]
        have : (a + 2) * c.g ≤ c.L * c.g := Nat.mul_le_mul_right _ (by omega)
        rw [Nat.add_mul] at this
        omega
      simp only [hlt, if_false]
      congr 1
      rw [Nat.add_mul]; omega
    | succ b ihb =>
      intro hb
      have := ihb (by omega)
      have e : (a + 1) * c.n + (b + 1) + 1 = ((a + 1) * c.n + b + 1) + 1 := by omega
      rw [e, o, this]; unfold advance; simp only
      have h1 : (b + 1) % c.n = b + 1 := Nat.mod_eq_of_lt hb
      rw [h1]; simp

theorem o_period_base : c.o (c.M + 1) = c.o 1 := by
  have hn := c.n_pos
  have hL := c.L_pos
  have hlast := c.o_block (c.L - 1) (by omega) (c.n - 1) (by omega)
  have e : c.M + 1 = ((c.L - 1) * c.n + (c.n - 1) + 1) + 1 := by
    unfold M
    have : c.L * c.n = (c.L - 1) * c.n + c.n := by
      rw [Nat.sub_mul]; have := Nat.le_mul_of_pos_left c.n hL; omega
    omega
  rw [e, o, hlast]
  unfold advance; simp only
  have h1 : (c.n - 1 + 1) % c.n = 0 := by
    rw [Nat.sub_add_cancel hn]; exact Nat.mod_self _
  rw [h1]; simp only [if_true]
  have hle : c.mx - (c.L - 1) * c.g ≤ c.g := by
    rw [c.mx_eq, Nat.sub_mul]
    have : c.g ≤ c.L * c.g := Nat.le_mul_of_pos_left _ hL
    omega
  simp only [hle, if_true]
  simp [o, advance, It.reset]

theorem o_period (P : Nat) : c.o (P + 1 + c.M) = c.o (P + 1) := by
  induction P with
  | zero => rw [Nat.zero_add, Nat.add_comm]; exact c.o_period_base
  | succ P ih =>
    have e : P + 1 + 1 + c.M = (P + 1 + c.M) + 1 := by omega
    rw [e, o, ih, ← o]

end Ctx
end RR
