import OxyModel.Proofs.RR.Count

namespace RR

theorem count_congr_lt (p q : Nat → Prop) [DecidablePred p] [DecidablePred q] :
    ∀ n, (∀ k, k < n → (p k ↔ q k)) → Nat.count p n = Nat.count q n := by
  intro n
  induction n with
  | zero => intro _; simp
  | succ n ih =>
    intro h
    rw [Nat.count_succ, Nat.count_succ, ih (fun k hk => h k (by omega))]
    have := h n (by omega)
    by_cases hp : p n
    · have hq : q n := this.mp hp; simp [hp, hq]
    · have hq : ¬ q n := fun hq => hp (this.mpr hq); simp [hp, hq]

namespace Ctx
variable (c : Ctx)

/-- hits of server `i` inside the first `a` sweeps -/
theorem count_hitI_sweeps (i : Nat) (hi : i < c.n) : ∀ a, a ≤ c.L →
    Nat.count (c.hitI i) (a * c.n) =
      Nat.count (fun a' => c.mx - a' * c.g ≤ c.ws.getD i 0) a := by
  intro a
  induction a with
  | zero => intro _; simp
  | succ a ih =>
    intro ha
    rw [Nat.add_mul, Nat.one_mul, Nat.count_add, ih (by omega), Nat.count_succ]
    congr 1
    have hcongr : Nat.count (fun k => c.hitI i (a * c.n + k)) c.n
        = Nat.count (fun k => k = i ∧ c.mx - a * c.g ≤ c.ws.getD i 0) c.n := by
      apply count_congr_lt
      intro k hk
      unfold hitI hit
      have hmod : (a * c.n + k) % c.n = k := by
        rw [Nat.mul_comm, Nat.mul_add_mod, Nat.mod_eq_of_lt hk]
      rw [hmod, c.o_block a (by omega) k hk]
      constructor
      · rintro ⟨h1, h2⟩; subst h2; exact ⟨rfl, h1⟩
      · rintro ⟨h1, h2⟩; subst h1; exact ⟨h2, rfl⟩
    rw [hcongr, count_indicator]
    by_cases hC : c.mx - a * c.g ≤ c.ws.getD i 0 <;> simp [hi, hC]

/-- one period selects server `i` exactly `w_i / g` times -/
theorem count_hitI_period (i : Nat) : Nat.count (c.hitI i) c.M = c.ws.getD i 0 / c.g := by
  have hg := c.g_pos
  by_cases hi : i < c.n
  · have hmem : c.ws.getD i 0 ∈ c.ws := by
      have hi' : i < c.ws.length := hi
      rw [List.getD_eq_getElem?_getD, List.getElem?_eq_getElem hi']
      exact List.getElem_mem hi'
    obtain ⟨m, hm⟩ := gcdW_dvd hmem
    have hm' : c.ws.getD i 0 = m * c.g := by rw [hm]; exact Nat.mul_comm _ _
    have hle : m ≤ c.L := by
      have h1 := le_maxW hmem
      have h2 : c.ws.getD i 0 ≤ c.L * c.g := by rw [← c.mx_eq]; exact h1
      rw [hm'] at h2
      exact Nat.le_of_mul_le_mul_right h2 hg
    unfold M
    rw [c.count_hitI_sweeps i hi c.L (Nat.le_refl _), hm', Nat.mul_div_cancel _ hg]
    have hc : Nat.count (fun a' => c.mx - a' * c.g ≤ m * c.g) c.L
        = Nat.count (fun a' => c.L - m ≤ a') c.L := by
      apply count_congr_lt
      intro k hk
      rw [c.mx_eq, ← Nat.sub_mul]
      constructor
      · intro h
        have := Nat.le_of_mul_le_mul_right h hg
        omega
      · intro h
        exact Nat.mul_le_mul_right _ (by omega)
    rw [hc, count_ge]; omega
  · have h0 : c.ws.getD i 0 = 0 := by
      have : c.ws.length ≤ i := by have : c.ws.length = c.n := rfl; omega
      rw [List.getD_eq_getElem?_getD, List.getElem?_eq_none this]; rfl
    rw [h0, Nat.zero_div]
    have : Nat.count (c.hitI i) c.M = Nat.count (fun _ => False) c.M := by
      apply count_congr_lt
      intro k _
      unfold hitI
      constructor
      · rintro ⟨_, h2⟩
        have := Nat.mod_lt k c.n_pos; omega
      · intro h; exact h.elim
    rw [this]; simp

theorem after_orbit (j : Nat) : ∀ P, after c.ws j (c.o P) = c.o (c.Qfrom P j) := by
  induction j with
  | zero => intro P; rfl
  | succ j ih => intro P; unfold after Qfrom; rw [c.next_spec P]; exact ih _

/-- **C01 (core)**: any `W` consecutive selections (after any number `j` of earlier calls
    from a reset iterator) choose server `i` exactly `w_i / g` times. -/
theorem C01_window (i j : Nat) :
    (run c.ws c.W (after c.ws j It.reset)).count (.sel i) = c.ws.getD i 0 / c.g := by
  have : It.reset = c.o 0 := rfl
  rw [this, c.after_orbit j 0, c.window_count, c.count_hitI_period]

end Ctx
end RR
