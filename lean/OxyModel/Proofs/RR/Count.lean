import OxyModel.Proofs.RR.Loop

namespace RR

/-! ### generic facts about `Nat.count` -/

theorem count_shift_succ (q : Nat → Prop) [DecidablePred q] (M : Nat) (hq : q M ↔ q 0) :
    Nat.count (fun k => q (k + 1)) M = Nat.count q M := by
  have h1 := Nat.count_succ q M
  have h2 := Nat.count_succ' q M
  have : (if q M then 1 else 0) = (if q 0 then 1 else 0) := by
    by_cases h : q 0 <;> simp [h, hq]
  omega

theorem count_shift_periodic (q : Nat → Prop) [DecidablePred q] (M : Nat)
    (hq : ∀ p, q (p + M) ↔ q p) (a : Nat) :
    Nat.count (fun k => q (a + k)) M = Nat.count q M := by
  induction a with
  | zero => simp
  | succ a ih =>
    rw [← ih]
    have := count_shift_succ (fun k => q (a + k)) M (by
      show q (a + M) ↔ q (a + 0)
      rw [Nat.add_zero]; exact hq a)
    rw [← this]
    congr 1; funext k; rw [show a + 1 + k = a + (k + 1) by omega]

theorem count_mono' (q : Nat → Prop) [DecidablePred q] {a b : Nat} (h : a ≤ b) :
    Nat.count q a ≤ Nat.count q b := Nat.count_monotone q h

theorem count_eq_of_no_hits (q : Nat → Prop) [DecidablePred q] (a : Nat) :
    ∀ b, a ≤ b → (∀ r, a ≤ r → r < b → ¬ q r) → Nat.count q b = Nat.count q a := by
  intro b hab
  induction b, hab using Nat.le_induction with
  | base => intro _; rfl
  | succ b hab ih =>
    intro hno
    rw [Nat.count_succ, ih (fun r h1 h2 => hno r h1 (by omega))]
    have : ¬ q b := hno b hab (by omega)
    simp [this]

theorem no_hits_of_count_eq (q : Nat → Prop) [DecidablePred q] {a b : Nat} (hab : a ≤ b)
    (h : Nat.count q a = Nat.count q b) : ∀ r, a ≤ r → r < b → ¬ q r := by
  intro r h1 h2 hq
  have e1 : Nat.count q (r + 1) = Nat.count q r + 1 := by rw [Nat.count_succ]; simp [hq]
  have e2 := count_mono' q h1
  have e3 := count_mono' q (show r + 1 ≤ b by omega)
  omega

theorem count_ge (t : Nat) : ∀ L, Nat.count (fun a => t ≤ a) L = L - t := by
  intro L
  induction L with
  | zero => simp
  | succ L ih =>
    rw [Nat.count_succ, ih]
    by_cases h : t ≤ L <;> simp [h] <;> omega

theorem count_indicator (i n : Nat) (C : Prop) [Decidable C] :
    Nat.count (fun k => k = i ∧ C) n = if i < n ∧ C then 1 else 0 := by
  induction n with
  | zero => simp
  | succ n ih =>
    rw [Nat.count_succ, ih]
    by_cases hC : C
    · by_cases h1 : i < n
      · have : ¬ (n = i) := by omega
        simp [h1, hC, this]; omega
      · by_cases h2 : n = i
        · simp [h2, hC]
        · have : ¬ (i < n + 1) := by omega
          simp [h1, h2, hC, this]
    · simp [hC]

namespace Ctx
variable (c : Ctx)

/-- hit of server `i` -/
def hitI (i p : Nat) : Prop := c.hit p ∧ p % c.n = i

instance (i : Nat) : DecidablePred (c.hitI i) := fun p => by unfold hitI; exact inferInstance

theorem hitI_periodic (i p : Nat) : c.hitI i (p + c.M) ↔ c.hitI i p := by
  unfold hitI
  rw [c.hit_periodic p]
  have : (p + c.M) % c.n = p % c.n := by unfold M; rw [Nat.add_mul_mod_self_right]
  rw [this]

/-- number of loop iterations consumed after `k` calls started at iteration count `P` -/
def Qfrom : Nat → Nat → Nat
  | P, 0 => P
  | P, k + 1 => Qfrom (c.nextHit P + 1) k

theorem Qfrom_le (k : Nat) : ∀ P, P ≤ c.Qfrom P k := by
  induction k with
  | zero => intro P; exact Nat.le_refl _
  | succ k ih =>
    intro P
    have := (c.nextHit_spec P).1
    have := ih (c.nextHit P + 1)
    unfold Qfrom; omega

theorem count_hit_Qfrom (k : Nat) : ∀ P, Nat.count c.hit (c.Qfrom P k) = Nat.count c.hit P + k := by
  induction k with
  | zero => intro P; rfl
  | succ k ih =>
    intro P
    obtain ⟨h1, h2, _, h4⟩ := c.nextHit_spec P
    unfold Qfrom
    rw [ih, Nat.count_succ, count_eq_of_no_hits c.hit P _ h1 h4]
    simp [h2]; omega

/-- the last iteration before `Qfrom P (k+1)` is a hit -/
theorem Qfrom_succ_hit (k : Nat) : ∀ P, ∃ q, c.Qfrom P (k + 1) = q + 1 ∧ c.hit q ∧ P ≤ q := by
  induction k with
  | zero =>
    intro P
    obtain ⟨h1, h2, _, _⟩ := c.nextHit_spec P
    exact ⟨c.nextHit P, rfl, h2, h1⟩
  | succ k ih =>
    intro P
    obtain ⟨q, e, hq, hle⟩ := ih (c.nextHit P + 1)
    have := (c.nextHit_spec P).1
    refine ⟨q, ?_, hq, by omega⟩
    rw [← e]; rfl

theorem run_spec (i k : Nat) : ∀ P,
    (run c.ws k (c.o P)).count (.sel i) + Nat.count (c.hitI i) P
      = Nat.count (c.hitI i) (c.Qfrom P k) := by
  induction k with
  | zero => intro P; simp [run, Qfrom]
  | succ k ih =>
    intro P
    obtain ⟨h1, h2, _, h4⟩ := c.nextHit_spec P
    have hn := c.next_spec P
    unfold run Qfrom
    simp only [hn]
    rw [List.count_cons]
    have ih' := ih (c.nextHit P + 1)
    have hcnt : Nat.count (c.hitI i) (c.nextHit P + 1)
        = Nat.count (c.hitI i) P + (if c.nextHit P % c.n = i then 1 else 0) := by
      rw [Nat.count_succ,
        count_eq_of_no_hits (c.hitI i) P _ h1 (fun r a b hr => h4 r a b hr.1)]
      congr 1
      unfold hitI
      by_cases h : c.nextHit P % c.n = i <;> simp [h, h2]
    have hbeq : ((Res.sel (c.nextHit P % c.n) == Res.sel i) = true) ↔ c.nextHit P % c.n = i := by
      constructor
      · intro h; have := of_decide_eq_true h; injection this
      · intro h; rw [h]; exact decide_eq_true rfl
    have hite : (if (Res.sel (c.nextHit P % c.n) == Res.sel i) = true then 1 else 0)
        = (if c.nextHit P % c.n = i then 1 else 0) := by
      by_cases h : c.nextHit P % c.n = i
      · rw [if_pos (hbeq.mpr h), if_pos h]
      · rw [if_neg (fun hh => h (hbeq.mp hh)), if_neg h]
    rw [hite]
    omega

/-- number of selections in one period -/
def W : Nat := Nat.count c.hit c.M

/-- **window lemma**: `W` consecutive calls, started anywhere on the orbit, select server `i`
    exactly as often as one period does -/
theorem window_count (i P : Nat) :
    (run c.ws c.W (c.o P)).count (.sel i) = Nat.count (c.hitI i) c.M := by
  have hrun := c.run_spec i c.W P
  set K := c.Qfrom P c.W with hK
  have hPK : P ≤ K := c.Qfrom_le c.W P
  have hcK : Nat.count c.hit K = Nat.count c.hit (P + c.M) := by
    rw [hK, c.count_hit_Qfrom, Nat.count_add, count_shift_periodic c.hit c.M c.hit_periodic P]; rfl
  have hKle : K ≤ P + c.M := by
    by_contra hgt
    have hWpos : 0 < c.W := by
      by_contra h0
      have h0' : c.W = 0 := by omega
      rw [hK, h0'] at hgt
      simp [Qfrom] at hgt
    obtain ⟨k, hk⟩ : ∃ k, c.W = k + 1 := ⟨c.W - 1, by omega⟩
    obtain ⟨q, e, hq, _⟩ := c.Qfrom_succ_hit k P
    rw [hK, hk, e] at hgt hcK
    have e1 : Nat.count c.hit (q + 1) = Nat.count c.hit q + 1 := by rw [Nat.count_succ]; simp [hq]
    have e2 := count_mono' c.hit (show P + c.M ≤ q by omega)
    omega
  have hno := no_hits_of_count_eq c.hit hKle hcK
  have hI : Nat.count (c.hitI i) (P + c.M) = Nat.count (c.hitI i) K :=
    count_eq_of_no_hits (c.hitI i) K _ hKle (fun r a b hr => hno r a b hr.1)
  rw [← hI, Nat.count_add, count_shift_periodic (c.hitI i) c.M (c.hitI_periodic i) P] at hrun
  omega

end Ctx
end RR
