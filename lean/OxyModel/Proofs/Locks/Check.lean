import OxyModel.Model.Locks

/-! C09: soundness of the Boolean discipline checker, and "conforms to disciplined facts ⇒ guarded". -/
namespace Locks

theorem run_split' {σ σf : St} {a b : List Ev} (h : run σ (a ++ b) = some σf) :
    ∃ σm, run σ a = some σm ∧ run σm b = some σf := by
  induction a generalizing σ with
  | nil => exact ⟨σ, rfl, h⟩
  | cons e a ih =>
    simp only [List.cons_append, run] at h ⊢
    cases hs : step σ e with
    | none => simp [hs] at h
    | some σ1 => rw [hs] at h; exact ih h

theorem holds_sound {f : Fact} {ℓ : Nat} (h : f.holds ℓ = true) :
    ∃ m, (ℓ, m) ∈ f.locks ∧ (f.write = true → m = true) := by
  unfold Fact.holds at h
  rw [List.any_eq_true] at h
  obtain ⟨⟨l, m⟩, hp, hq⟩ := h
  simp only [Bool.and_eq_true, Bool.or_eq_true, Bool.not_eq_true'] at hq
  obtain ⟨h1, h2⟩ := hq
  have h1' : l = ℓ := Nat.eq_of_beq_eq_true h1
  subst h1'
  refine ⟨m, hp, ?_⟩
  intro hw
  rcases h2 with h2 | h2
  · exact h2
  · rw [hw] at h2; cases h2

theorem foldl_min_mem : ∀ (xs : List Nat) (x : Nat), xs.foldl Nat.min x = x ∨ xs.foldl Nat.min x ∈ xs := by
  intro xs
  induction xs with
  | nil => intro x; exact Or.inl rfl
  | cons y ys ih =>
    intro x
    simp only [List.foldl_cons, List.mem_cons]
    rcases ih (Nat.min x y) with h | h
    · rw [h]
      rcases Nat.le_total x y with hxy | hxy
      · exact Or.inl (Nat.min_eq_left hxy)
      · exact Or.inr (Or.inl (Nat.min_eq_right hxy))
    · exact Or.inr (Or.inr h)

theorem minOf_mem {l : List Nat} {x : Nat} (h : minOf l = some x) : x ∈ l := by
  cases l with
  | nil => simp [minOf] at h
  | cons y ys =>
    simp only [minOf, Option.some.injEq] at h
    rcases foldl_min_mem ys y with h' | h'
    · rw [h'] at h; subst h; exact List.mem_cons_self
    · rw [h] at h'; exact List.mem_cons_of_mem _ h'

theorem groupLock_sound {g : List Fact} {ℓ : Nat} (h : groupLock g = some ℓ) : ∀ f ∈ g, f.holds ℓ = true := by
  cases g with
  | nil => simp [groupLock] at h
  | cons f0 fs =>
    simp only [groupLock] at h
    have hm := minOf_mem h
    rw [List.mem_filter] at hm
    have := hm.2
    rw [List.all_eq_true] at this
    exact this

theorem checkVar_sound {fs : List Fact} {v ℓ : Nat} (h : checkVar fs v = some ℓ) : DisciplinedBy fs v ℓ := by
  intro f hf hv
  unfold checkVar at h
  apply holds_sound
  apply groupLock_sound h
  unfold factsOf
  rw [List.mem_filter]
  exact ⟨hf, by rw [hv]; exact Nat.beq_refl v⟩

theorem checkGroups_sound : ∀ (gs : List (List Fact)) (i : Nat), checkGroups i gs = true →
    (∀ f ∈ gs.flatten, i ≤ f.var) ∧ ∀ v, Disciplined gs.flatten v := by
  intro gs
  induction gs with
  | nil =>
    intro i _
    exact ⟨by intro f hf; simp at hf, by intro v; exact ⟨0, by intro f hf; simp at hf⟩⟩
  | cons g gs ih =>
    intro i h
    simp only [checkGroups, Bool.and_eq_true] at h
    obtain ⟨⟨htag, hlock⟩, hrest⟩ := h
    obtain ⟨hge, hdis⟩ := ih (i + 1) hrest
    rw [List.all_eq_true] at htag
    have htag' : ∀ f ∈ g, f.var = i := fun f hf => Nat.eq_of_beq_eq_true (htag f hf)
    refine ⟨?_, ?_⟩
    · intro f hf
      simp only [List.flatten_cons, List.mem_append] at hf
      rcases hf with hf | hf
      · rw [htag' f hf]; exact Nat.le_refl i
      · have := hge f hf; omega
    · intro v
      by_cases hv : v = i
      · rw [Option.isSome_iff_exists] at hlock
        obtain ⟨ℓ, hℓ⟩ := hlock
        refine ⟨ℓ, ?_⟩
        intro f hf hfv
        simp only [List.flatten_cons, List.mem_append] at hf
        rcases hf with hf | hf
        · exact holds_sound (groupLock_sound hℓ f hf)
        · have := hge f hf; omega
      · obtain ⟨ℓ, hℓ⟩ := hdis v
        refine ⟨ℓ, ?_⟩
        intro f hf hfv
        simp only [List.flatten_cons, List.mem_append] at hf
        rcases hf with hf | hf
        · exact absurd ((htag' f hf).symm.trans hfv).symm hv
        · exact hℓ f hf hfv

/-- the kernel-evaluated check implies the discipline for every variable of the grouped table -/
theorem checkAll_sound {gs : List (List Fact)} (h : checkGroups 0 gs = true) : ∀ v, Disciplined gs.flatten v :=
  (checkGroups_sound gs 0 h).2

/-- an execution that behaves as the facts say is guarded by the lock that disciplines the facts -/
theorem conforms_guarded {fs : List Fact} {es : List Ev} {v ℓ : Nat}
    (hc : Conforms fs es) (hd : DisciplinedBy fs v ℓ) : Guarded ℓ v es := by
  intro pre post t w σ he hr
  obtain ⟨f, hf, hv, hw, hl⟩ := hc pre post t v w σ he hr
  obtain ⟨m, hm, hmw⟩ := hd f hf hv
  have h := hl (ℓ, m) hm
  unfold holdsFor
  cases m with
  | true =>
    simp only [if_true] at h
    cases w with
    | true => simpa using h
    | false => simp only [Bool.false_eq_true, if_false]; exact Or.inl h
  | false =>
    simp only [Bool.false_eq_true, if_false] at h
    cases w with
    | true => rw [hw] at hmw; exact absurd (hmw rfl) (by simp)
    | false => simpa using h

/-- the same for executions over lock/variable instances (several objects of one class, stacks) -/
theorem conformsI_guarded {fs : List Fact} {es : List Ev} {vcls obj : Nat → Nat} {lockOf : Nat → Nat → Nat} {v c : Nat}
    (hc : ConformsI fs vcls obj lockOf es) (hd : DisciplinedBy fs (vcls v) c) : Guarded (lockOf (obj v) c) v es := by
  intro pre post t w σ he hr
  obtain ⟨f, hf, hv, hw, hl⟩ := hc pre post t v w σ he hr
  obtain ⟨m, hm, hmw⟩ := hd f hf hv
  have h := hl (c, m) hm
  unfold holdsFor
  cases m with
  | true =>
    simp only [if_true] at h
    cases w with
    | true => simpa using h
    | false => simp only [Bool.false_eq_true, if_false]; exact Or.inl h
  | false =>
    simp only [Bool.false_eq_true, if_false] at h
    cases w with
    | true => rw [hw] at hmw; exact absurd (hmw rfl) (by simp)
    | false => simpa using h

theorem isCounterB_sound {fs : List Fact} {v : Nat} (h : isCounterB fs v = true) : IsCounter fs v := by
  intro f hf hv hw
  unfold isCounterB at h
  rw [List.all_eq_true] at h
  have := h f hf
  rw [hv, hw] at this
  simp only [Nat.beq_refl, Bool.not_true, Bool.false_or] at this
  exact Nat.eq_of_beq_eq_true this

theorem noSplitB_sound {fs : List Fact} (h : noSplitB fs = true) : ∀ f ∈ fs, f.kind ≠ 3 := by
  intro f hf hk
  unfold noSplitB at h
  rw [List.all_eq_true] at h
  have := h f hf
  rw [hk] at this
  simp at this

theorem updatesAtomic_of {fs : List Fact} {v ℓ : Nat} (hd : DisciplinedBy fs v ℓ) (hc : IsCounter fs v) :
    UpdatesAtomicBy fs v ℓ := by
  intro f hf hv hw
  refine ⟨hc f hf hv hw, ?_⟩
  obtain ⟨m, hm, hmw⟩ := hd f hf hv
  rw [hmw hw] at hm
  exact hm

/-- executions that behave as the facts say at their update sites keep every update of a counter
    variable inside one critical section of its lock -/
theorem conformsU_atomic {fs : List Fact} {es : List Ev} {v ℓ : Nat} (hwf : WellFormed es)
    (hu : ConformsU fs es) (ha : UpdatesAtomicBy fs v ℓ) : AtomicUpdates ℓ v es := by
  intro pre post t he
  obtain ⟨σf, hrun⟩ := hwf
  rw [he] at hrun
  obtain ⟨σ, hpre, _⟩ := run_split' hrun
  obtain ⟨f, hf, hv, hw, hk⟩ := hu pre post t v σ he hpre
  obtain ⟨hk1, hl⟩ := ha f hf hv hw
  obtain ⟨p1, mid, σ1, e1, e2, e3, e4, e5⟩ := hk hk1
  refine ⟨p1, mid, σ1, e1, e2, ?_, ?_, e5⟩
  · have := e3 (ℓ, true) hl
    simpa using this
  · intro m
    exact e4 (ℓ, true) hl m

end Locks
