import OxyModel.Proofs.Locks.Sound

/-! C09: no update is lost when every write is the store half of a read-modify-write that stays inside
one critical section of the variable's lock.  The memory semantics (`vstep`) has no discipline built in;
the discipline is the hypotheses `Guarded` and `AtomicUpdates`.  Core Lean only. -/
namespace Locks

theorem vrun_append (v : Nat) : ∀ (a b : List Ev) (s : VS), vrun v s (a ++ b) = vrun v (vrun v s a) b := by
  intro a
  induction a with
  | nil => intro b s; rfl
  | cons e a ih => intro b s; simp only [List.cons_append, vrun]; exact ih b _

theorem writesTo_append (v : Nat) (a b : List Ev) : writesTo v (a ++ b) = writesTo v a + writesTo v b := by
  simp [writesTo, List.filter_append]

theorem vstep_not_write {v : Nat} {s : VS} {e : Ev} (h : e.isWriteTo v = false) : (vstep v s e).mem = s.mem := by
  cases e with
  | acq t l w => rfl
  | rel t l w => rfl
  | acc t v' w =>
    cases w with
    | false => simp only [vstep]; split <;> rfl
    | true =>
      simp only [Ev.isWriteTo, beq_eq_false_iff_ne, ne_eq] at h
      simp only [vstep, if_neg h]

/-- inside a critical section: while `t` keeps `ℓ` exclusively and everybody obeys the discipline, nobody
    else touches `v`, so `t`'s register stays equal to the memory -/
theorem hold_section (ℓ v t : Nat) : ∀ (mid : List Ev) (σ σ' : St) (s : VS),
    run σ mid = some σ' → Inv σ → holdsW σ t ℓ →
    (∀ m, Ev.rel t ℓ m ∉ mid) → Ev.acc t v true ∉ mid →
    (∀ (a b : List Ev) (t' : Nat) (w : Bool) (σa : St), mid = a ++ Ev.acc t' v w :: b → run σ a = some σa → holdsFor σa t' ℓ w) →
    s.reg t = some s.mem →
    (vrun v s mid).reg t = some (vrun v s mid).mem ∧ (vrun v s mid).mem = s.mem := by
  intro mid
  induction mid with
  | nil => intro σ σ' s _ _ _ _ _ _ hr; exact ⟨hr, rfl⟩
  | cons e mid ih =>
    intro σ σ' s hrun hi hw hnr hns hg hr
    obtain ⟨σ1, h1, h2⟩ := run_cons hrun
    have hw1 : holdsW σ1 t ℓ := by
      apply Classical.byContradiction
      intro hn
      have := lose_w h1 hw hn
      exact hnr true (by rw [this]; exact List.mem_cons_self)
    have hi1 : Inv σ1 := step_inv h1 hi
    -- the effect of `e` on the value state
    have hs1 : (vstep v s e).reg t = some (vstep v s e).mem ∧ (vstep v s e).mem = s.mem := by
      cases e with
      | acq t' l w => exact ⟨hr, rfl⟩
      | rel t' l w => exact ⟨hr, rfl⟩
      | acc t' v' w =>
        by_cases hv : v' = v
        · subst hv
          have hf := hg [] mid t' w σ (by simp) (by simp [run])
          have hany : holdsAny σ t' ℓ := by
            unfold holdsFor at hf
            cases w with
            | true => exact Or.inl (by simpa using hf)
            | false => simpa using hf
          have htt : t' = t := by
            apply Classical.byContradiction
            intro hne
            exact excl_any hi (fun h' => hne h'.symm) hw hany
          subst htt
          cases w with
          | true => exact absurd List.mem_cons_self hns
          | false => simp [vstep, setReg]
        · cases w <;> simp only [vstep, if_neg hv] <;> exact ⟨hr, trivial⟩
    have := ih σ1 σ' (vstep v s e) h2 hi1 hw1
      (fun m hm => hnr m (List.mem_cons_of_mem _ hm))
      (fun hm => hns (List.mem_cons_of_mem _ hm))
      (fun a b t' w σa hab hra => hg (e :: a) b t' w σa (by simp [hab]) (by simp only [run, h1]; exact hra))
      hs1.1
    simp only [vrun]
    exact ⟨this.1, this.2.trans hs1.2⟩

theorem no_lost_update_aux (ℓ v : Nat) (es : List Ev) (hwf : WellFormed es) (hg : Guarded ℓ v es)
    (ha : AtomicUpdates ℓ v es) : ∀ (post pre : List Ev), es = pre ++ post →
    (vrun v VS.init pre).mem = writesTo v pre → (vrun v VS.init es).mem = writesTo v es := by
  intro post
  induction post with
  | nil => intro pre he h; simp only [List.append_nil] at he; rw [he]; exact h
  | cons e post ih =>
    intro pre he h
    apply ih (pre ++ [e]) (by rw [he]; simp)
    rw [vrun_append, writesTo_append]
    simp only [vrun]
    cases hwr : e.isWriteTo v with
    | false =>
      rw [vstep_not_write hwr, h]
      simp [writesTo, hwr]
    | true =>
      -- `e` is a write to `v` by some thread `t`
      have hev : ∃ t, e = Ev.acc t v true := by
        cases e with
        | acq t l w => simp [Ev.isWriteTo] at hwr
        | rel t l w => simp [Ev.isWriteTo] at hwr
        | acc t v' w =>
          cases w with
          | false => simp [Ev.isWriteTo] at hwr
          | true => simp only [Ev.isWriteTo, beq_iff_eq] at hwr; exact ⟨t, by rw [hwr]⟩
      obtain ⟨t, het⟩ := hev
      subst het
      obtain ⟨p1, mid, σ, hpre, hp1, hw, hnr, hns⟩ := ha pre post t he
      obtain ⟨σf, hrun⟩ := hwf
      have hes : es = p1 ++ (Ev.acc t v false :: (mid ++ Ev.acc t v true :: post)) := by rw [he, hpre]; simp
      rw [hes] at hrun
      obtain ⟨σ', hp1', hrest⟩ := run_split hrun
      rw [hp1] at hp1'
      have hσ : σ' = σ := by injection hp1' with h'; exact h'.symm
      subst hσ
      obtain ⟨σl, hl, hrest2⟩ := run_cons hrest
      have hσl : σl = σ' := step_acc hl
      subst hσl
      obtain ⟨σm, hmid, _⟩ := run_split hrest2
      have hi : Inv σl := run_inv hp1 inv_init
      have hload : run St.init (p1 ++ [Ev.acc t v false]) = some σl := run_join hp1 (by simp [run, step])
      have hk := hold_section ℓ v t mid σl σm (vstep v (vrun v VS.init p1) (Ev.acc t v false)) hmid hi hw hnr hns
        (fun a b t' w σa hab hra => hg (p1 ++ Ev.acc t v false :: a) (b ++ Ev.acc t v true :: post) t' w σa
          (by rw [hes, hab]; simp) (by
            have := run_join hload hra
            simpa using this))
        (by simp [vstep, setReg])
      have hpre_state : vrun v VS.init pre = vrun v (vstep v (vrun v VS.init p1) (Ev.acc t v false)) mid := by
        rw [hpre, vrun_append]; rfl
      rw [← hpre_state] at hk
      simp only [vstep, if_true, hk.1, Option.getD_some, h]
      simp [writesTo, Ev.isWriteTo]

/-- **no lost update, general form**: in every well-formed execution in which all accesses to `v` hold `ℓ`
    (exclusively for writes) and every write is the store of a read-modify-write that stays inside one
    critical section of `ℓ`, the final value equals the number of updates -/
theorem no_lost_update_general (ℓ v : Nat) (es : List Ev) (hwf : WellFormed es) (hg : Guarded ℓ v es)
    (ha : AtomicUpdates ℓ v es) : (vrun v VS.init es).mem = writesTo v es :=
  no_lost_update_aux ℓ v es hwf hg ha es [] rfl rfl

end Locks
