import OxyModel.Proofs.Locks.Basic

/-! C09: the lockset discipline orders conflicting accesses (release by the first thread, later
acquire by the second), hence no race w.r.t. happens-before. Core Lean only. -/
namespace Locks

theorem step_acc {σ σ' : St} {t v : Nat} {w : Bool} (h : step σ (.acc t v w) = some σ') : σ' = σ := by
  simp only [step, Option.some.injEq] at h; exact h.symm

/-- core of `C09_lockset_sound` -/
theorem lockset_sound_split (pre mid post : List Ev) (t1 t2 v ℓ : Nat) (w1 w2 : Bool)
    (hwf : WellFormed (pre ++ [Ev.acc t1 v w1] ++ mid ++ [Ev.acc t2 v w2] ++ post))
    (hg : Guarded ℓ v (pre ++ [Ev.acc t1 v w1] ++ mid ++ [Ev.acc t2 v w2] ++ post))
    (hne : t1 ≠ t2) (hc : w1 = true ∨ w2 = true) :
    ∃ (a b c : List Ev) (m1 m2 : Bool),
      mid = a ++ [Ev.rel t1 ℓ m1] ++ b ++ [Ev.acq t2 ℓ m2] ++ c ∧ (m1 = true ∨ m2 = true) := by
  obtain ⟨σf, h⟩ := hwf
  obtain ⟨σ4, h4, _⟩ := run_split h
  obtain ⟨σ3, h3, _⟩ := run_split h4
  obtain ⟨σ2, h2, hmid⟩ := run_split h3
  obtain ⟨σ1, h1, hacc1⟩ := run_split h2
  have e21 : σ2 = σ1 := step_acc (run_single hacc1)
  subst e21
  have g1 : holdsFor σ2 t1 ℓ w1 := hg pre (mid ++ [Ev.acc t2 v w2] ++ post) t1 w1 σ2 (by simp) h1
  have g2 : holdsFor σ3 t2 ℓ w2 := hg (pre ++ [Ev.acc t1 v w1] ++ mid) post t2 w2 σ3 (by simp) h3
  have hi2 : Inv σ2 := run_inv h1 inv_init
  have hi3 : Inv σ3 := run_inv hmid hi2
  have hne' : t2 ≠ t1 := fun h' => hne h'.symm
  cases w1 with
  | true =>
    -- the first access is a write: t1 holds ℓ exclusively
    have hw1 : holdsW σ2 t1 ℓ := by simpa [holdsFor] using g1
    have ha2 : holdsAny σ3 t2 ℓ := by
      cases w2 with
      | true => exact Or.inl (by simpa [holdsFor] using g2)
      | false => simpa [holdsFor] using g2
    have hn1 : ¬ holdsW σ3 t1 ℓ := excl_w hi3 hne' ha2
    obtain ⟨a, e, b, σa, σb, emid, ra, sa, pa, pb, rb⟩ := first_flip (fun σ => holdsW σ t1 ℓ) mid σ2 σ3 hmid hw1 hn1
    have he : e = Ev.rel t1 ℓ true := lose_w sa pa pb
    subst he
    have hia : Inv σa := run_inv ra hi2
    have hn2a : ¬ holdsAny σa t2 ℓ := excl_any hia hne pa
    have hn2b : ¬ holdsAny σb t2 ℓ := by
      intro hh
      obtain ⟨m, hm⟩ := gain_any sa hn2a hh
      cases hm
    obtain ⟨a', e', b', σa', σb', eb, _, sa', pa', pb', _⟩ :=
      first_flip (fun σ => ¬ holdsAny σ t2 ℓ) b σb σ3 rb hn2b (fun hh => hh ha2)
    have hb' : holdsAny σb' t2 ℓ := Classical.not_not.mp pb'
    obtain ⟨m, hm⟩ := gain_any sa' pa' hb'
    subst hm
    exact ⟨a, a', b', true, m, by rw [emid, eb]; simp, Or.inl rfl⟩
  | false =>
    -- the first access is a read, so the second is a write: t2 holds ℓ exclusively then
    have hw2t : w2 = true := by rcases hc with hc | hc <;> simp_all
    subst hw2t
    have ha1 : holdsAny σ2 t1 ℓ := by simpa [holdsFor] using g1
    have hw2 : holdsW σ3 t2 ℓ := by simpa [holdsFor] using g2
    have hn1 : ¬ holdsAny σ3 t1 ℓ := excl_any hi3 hne' hw2
    obtain ⟨a, e, b, σa, σb, emid, ra, sa, pa, pb, rb⟩ := first_flip (fun σ => holdsAny σ t1 ℓ) mid σ2 σ3 hmid ha1 hn1
    obtain ⟨m, he⟩ := lose_any sa pa pb
    subst he
    have hia : Inv σa := run_inv ra hi2
    have hn2a : ¬ holdsW σa t2 ℓ := excl_w hia hne pa
    have hn2b : ¬ holdsW σb t2 ℓ := rel_no_new_writer sa hn2a
    obtain ⟨a', e', b', σa', σb', eb, _, sa', pa', pb', _⟩ :=
      first_flip (fun σ => ¬ holdsW σ t2 ℓ) b σb σ3 rb hn2b (fun hh => hh hw2)
    have hb' : holdsW σb' t2 ℓ := Classical.not_not.mp pb'
    have he' := gain_w sa' pa' hb'
    subst he'
    exact ⟨a, a', b', m, true, by rw [emid, eb]; simp, Or.inr rfl⟩

theorem split_at : ∀ {es : List Ev} {i : Nat} {e : Ev}, es[i]? = some e →
    ∃ pre post, es = pre ++ e :: post ∧ pre.length = i := by
  intro es
  induction es with
  | nil => intro i e h; simp at h
  | cons x xs ih =>
    intro i e h
    cases i with
    | zero => simp only [List.getElem?_cons_zero, Option.some.injEq] at h; subst h; exact ⟨[], xs, by simp, rfl⟩
    | succ i =>
      simp only [List.getElem?_cons_succ] at h
      obtain ⟨pre, post, e1, e2⟩ := ih h
      exact ⟨x :: pre, post, by simp [e1], by simp [e2]⟩

theorem nth_mid (xs ys : List Ev) (e : Ev) : (xs ++ e :: ys)[xs.length]? = some e := by simp

/-- the lockset discipline excludes data races (w.r.t. happens-before) -/
theorem no_race (es : List Ev) (ℓ v : Nat) (hwf : WellFormed es) (hg : Guarded ℓ v es) : ¬ Race es v := by
  rintro ⟨i, j, t1, t2, w1, w2, hij, hi, hj, hne, hc, hnhb⟩
  apply hnhb
  obtain ⟨pre, rest, e1, l1⟩ := split_at hi
  have hj' : rest[j - i - 1]? = some (Ev.acc t2 v w2) := by
    rw [e1] at hj
    rw [List.getElem?_append_right (by omega)] at hj
    rw [l1] at hj
    have : j - i = (j - i - 1) + 1 := by omega
    rw [this, List.getElem?_cons_succ] at hj
    exact hj
  obtain ⟨mid, post, e2, l2⟩ := split_at hj'
  have ees : es = pre ++ [Ev.acc t1 v w1] ++ mid ++ [Ev.acc t2 v w2] ++ post := by rw [e1, e2]; simp
  obtain ⟨a, b, c, m1, m2, emid, hm⟩ := lockset_sound_split pre mid post t1 t2 v ℓ w1 w2 (ees ▸ hwf) (ees ▸ hg) hne hc
  -- positions of the release and the acquire
  have hk1 : es[i + 1 + a.length]? = some (Ev.rel t1 ℓ m1) := by
    have : es = (pre ++ Ev.acc t1 v w1 :: a) ++ Ev.rel t1 ℓ m1 :: (b ++ [Ev.acq t2 ℓ m2] ++ c ++ [Ev.acc t2 v w2] ++ post) := by
      rw [ees, emid]; simp
    rw [this]
    have hl : (pre ++ Ev.acc t1 v w1 :: a).length = i + 1 + a.length := by simp [l1]; omega
    rw [← hl]; exact nth_mid _ _ _
  have hk2 : es[i + 1 + a.length + 1 + b.length]? = some (Ev.acq t2 ℓ m2) := by
    have : es = (pre ++ Ev.acc t1 v w1 :: (a ++ Ev.rel t1 ℓ m1 :: b)) ++ Ev.acq t2 ℓ m2 :: (c ++ [Ev.acc t2 v w2] ++ post) := by
      rw [ees, emid]; simp
    rw [this]
    have hl : (pre ++ Ev.acc t1 v w1 :: (a ++ Ev.rel t1 ℓ m1 :: b)).length = i + 1 + a.length + 1 + b.length := by
      simp [l1]; omega
    rw [← hl]; exact nth_mid _ _ _
  have hjlen : j = i + 1 + mid.length := by omega
  have hmidlen : mid.length = a.length + 1 + b.length + 1 + c.length := by rw [emid]; simp; omega
  have s1 : HB es i (i + 1 + a.length) := HB.po (by omega) hi hk1 rfl
  have s2 : HB es (i + 1 + a.length) (i + 1 + a.length + 1 + b.length) := HB.sw (by omega) hk1 hk2 hm
  have s3 : HB es (i + 1 + a.length + 1 + b.length) j := HB.po (by omega) hk2 hj rfl
  exact HB.trans s1 (HB.trans s2 s3)

end Locks
