import OxyModel.Model.Locks

/-! Helper lemmas for C09: runs, the per-lock view of a step, the "writer excludes readers"
invariant and the first-flip lemma. Core Lean only. -/
namespace Locks

theorem run_append {σ : St} {a b : List Ev} :
    run σ (a ++ b) = (run σ a).bind (fun σ' => run σ' b) := by
  induction a generalizing σ with
  | nil => simp [run]
  | cons e a ih =>
    simp only [List.cons_append, run]
    cases step σ e with
    | none => simp
    | some σ' => exact ih

theorem run_split {σ σf : St} {a b : List Ev} (h : run σ (a ++ b) = some σf) :
    ∃ σm, run σ a = some σm ∧ run σm b = some σf := by
  rw [run_append] at h
  cases h1 : run σ a with
  | none => simp [h1] at h
  | some σm => rw [h1] at h; exact ⟨σm, rfl, by simpa using h⟩

theorem run_join {σ σm σf : St} {a b : List Ev} (h1 : run σ a = some σm) (h2 : run σm b = some σf) :
    run σ (a ++ b) = some σf := by
  rw [run_append, h1]; simpa using h2

theorem run_cons {σ σf : St} {e : Ev} {es : List Ev} (h : run σ (e :: es) = some σf) :
    ∃ σ1, step σ e = some σ1 ∧ run σ1 es = some σf := by
  simp only [run] at h
  cases hs : step σ e with
  | none => simp [hs] at h
  | some σ1 => rw [hs] at h; exact ⟨σ1, rfl, h⟩

theorem run_single {σ σf : St} {e : Ev} (h : run σ [e] = some σf) : step σ e = some σf := by
  obtain ⟨σ1, h1, h2⟩ := run_cons h
  simp only [run, Option.some.injEq] at h2
  rw [h1, h2]

/-- what one step does to the state of the fixed lock `ℓ` -/
inductive LStep (ℓ : Nat) : LS → Ev → LS → Prop
  | same {s : LS} {e : Ev} : (∀ t m, e ≠ .acq t ℓ m) → (∀ t m, e ≠ .rel t ℓ m) → LStep ℓ s e s
  | acqW {s : LS} {t : Nat} : s.writer = none → s.readers = [] → LStep ℓ s (.acq t ℓ true) { s with writer := some t }
  | acqR {s : LS} {t : Nat} : s.writer = none → LStep ℓ s (.acq t ℓ false) { s with readers := t :: s.readers }
  | relW {s : LS} {t : Nat} : s.writer = some t → LStep ℓ s (.rel t ℓ true) { s with writer := none }
  | relR {s : LS} {t : Nat} : t ∈ s.readers → LStep ℓ s (.rel t ℓ false) { s with readers := s.readers.erase t }

theorem upd_same (σ : St) (ℓ : Nat) (s : LS) : upd σ ℓ s ℓ = s := by simp [upd]
theorem upd_other (σ : St) {ℓ k : Nat} (s : LS) (h : k ≠ ℓ) : upd σ ℓ s k = σ k := by simp [upd, h]

theorem step_at {σ σ' : St} {e : Ev} (h : step σ e = some σ') (ℓ : Nat) : LStep ℓ (σ ℓ) e (σ' ℓ) := by
  cases e with
  | acc t v w =>
    simp only [step, Option.some.injEq] at h; subst h
    exact .same (by intro _ _ h; cases h) (by intro _ _ h; cases h)
  | acq t ℓ' w =>
    by_cases hl : ℓ' = ℓ
    · subst hl
      cases w with
      | true =>
        simp only [step] at h
        split at h
        · rename_i hc; cases h; rw [upd_same]; exact .acqW hc.1 hc.2
        · cases h
      | false =>
        simp only [step] at h
        split at h
        · rename_i hc; cases h; rw [upd_same]; exact .acqR hc
        · cases h
    · have hne : ℓ ≠ ℓ' := fun h' => hl h'.symm
      have : σ' ℓ = σ ℓ := by
        cases w <;> simp only [step] at h <;> split at h <;> first | (cases h; exact upd_other σ _ hne) | cases h
      rw [this]
      exact .same (by intro _ _ h'; cases h'; exact hl rfl) (by intro _ _ h'; cases h')
  | rel t ℓ' w =>
    by_cases hl : ℓ' = ℓ
    · subst hl
      cases w with
      | true =>
        simp only [step] at h
        split at h
        · rename_i hc; cases h; rw [upd_same]; exact .relW hc
        · cases h
      | false =>
        simp only [step] at h
        split at h
        · rename_i hc; cases h; rw [upd_same]; exact .relR hc
        · cases h
    · have hne : ℓ ≠ ℓ' := fun h' => hl h'.symm
      have : σ' ℓ = σ ℓ := by
        cases w <;> simp only [step] at h <;> split at h <;> first | (cases h; exact upd_other σ _ hne) | cases h
      rw [this]
      exact .same (by intro _ _ h'; cases h') (by intro _ _ h'; cases h'; exact hl rfl)

/-- a writer excludes readers -/
def Inv (σ : St) : Prop := ∀ ℓ, (σ ℓ).writer ≠ none → (σ ℓ).readers = []

theorem inv_init : Inv St.init := by intro ℓ h; rfl

theorem step_inv {σ σ' : St} {e : Ev} (h : step σ e = some σ') (hi : Inv σ) : Inv σ' := by
  intro ℓ
  have hs := step_at h ℓ
  have hl := hi ℓ
  revert hs hl
  generalize σ ℓ = s
  generalize σ' ℓ = s'
  intro hs hl
  cases hs with
  | same _ _ => exact hl
  | acqW h1 h2 => intro _; exact h2
  | acqR h1 => intro hw; exact absurd h1 hw
  | relW h1 => intro hw; exact absurd rfl hw
  | relR h1 => intro hw; simp [hl hw]

theorem run_inv : ∀ {es : List Ev} {σ σ' : St}, run σ es = some σ' → Inv σ → Inv σ' := by
  intro es
  induction es with
  | nil => intro σ σ' h hi; simp only [run, Option.some.injEq] at h; subst h; exact hi
  | cons e es ih =>
    intro σ σ' h hi
    obtain ⟨σ1, h1, h2⟩ := run_cons h
    exact ih h2 (step_inv h1 hi)

/-- if `P` holds at the start of a run and not at its end, some step of the run switches it off -/
theorem first_flip (P : St → Prop) : ∀ (es : List Ev) (σ σ' : St), run σ es = some σ' → P σ → ¬ P σ' →
    ∃ (a : List Ev) (e : Ev) (b : List Ev) (σa σb : St), es = a ++ e :: b ∧ run σ a = some σa ∧
      step σa e = some σb ∧ P σa ∧ ¬ P σb ∧ run σb b = some σ' := by
  intro es
  induction es with
  | nil => intro σ σ' h hp hn; simp only [run, Option.some.injEq] at h; subst h; exact absurd hp hn
  | cons e es ih =>
    intro σ σ' h hp hn
    obtain ⟨σ1, h1, h2⟩ := run_cons h
    by_cases hp1 : P σ1
    · obtain ⟨a, e', b, σa, σb, e1, e2, e3, e4, e5, e6⟩ := ih σ1 σ' h2 hp1 hn
      refine ⟨e :: a, e', b, σa, σb, by simp [e1], ?_, e3, e4, e5, e6⟩
      simp only [run, h1]; exact e2
    · exact ⟨[], e, es, σ, σ1, by simp, by simp [run], h1, hp, hp1, h2⟩

/-! single-step analyses at the lock `ℓ` -/

theorem lose_any {σa σb : St} {e : Ev} {t ℓ : Nat} (hs : step σa e = some σb)
    (h1 : holdsAny σa t ℓ) (h2 : ¬ holdsAny σb t ℓ) : ∃ m, e = .rel t ℓ m := by
  unfold holdsAny holdsW holdsR at *
  have hl := step_at hs ℓ
  generalize σa ℓ = s at *
  generalize σb ℓ = s' at *
  cases hl with
  | same _ _ => exact absurd h1 h2
  | acqW hw hr => rcases h1 with h1 | h1 <;> simp_all
  | acqR hw => exfalso; apply h2; rcases h1 with h1 | h1 <;> simp_all
  | @relW t' hw =>
    by_cases ht : t' = t
    · exact ⟨true, by rw [ht]⟩
    · exfalso; apply h2
      rcases h1 with h1 | h1
      · rw [hw] at h1; injection h1 with h1; exact absurd h1 ht
      · exact Or.inr h1
  | @relR t' hr =>
    by_cases ht : t' = t
    · exact ⟨false, by rw [ht]⟩
    · exfalso; apply h2
      rcases h1 with h1 | h1
      · exact Or.inl h1
      · exact Or.inr ((List.mem_erase_of_ne (fun h' => ht h'.symm)).2 h1)

theorem lose_w {σa σb : St} {e : Ev} {t ℓ : Nat} (hs : step σa e = some σb)
    (h1 : holdsW σa t ℓ) (h2 : ¬ holdsW σb t ℓ) : e = .rel t ℓ true := by
  unfold holdsW at *
  have hl := step_at hs ℓ
  generalize σa ℓ = s at *
  generalize σb ℓ = s' at *
  cases hl with
  | same _ _ => exact absurd h1 h2
  | acqW hw hr => simp_all
  | acqR hw => simp_all
  | @relW t' hw => rw [hw] at h1; injection h1 with h1; rw [h1]
  | @relR t' hr => exact absurd h1 h2

theorem gain_any {σa σb : St} {e : Ev} {t ℓ : Nat} (hs : step σa e = some σb)
    (h1 : ¬ holdsAny σa t ℓ) (h2 : holdsAny σb t ℓ) : ∃ m, e = .acq t ℓ m := by
  unfold holdsAny holdsW holdsR at *
  have hl := step_at hs ℓ
  generalize σa ℓ = s at *
  generalize σb ℓ = s' at *
  cases hl with
  | same _ _ => exact absurd h2 h1
  | @acqW t' hw hr =>
    by_cases ht : t' = t
    · exact ⟨true, by rw [ht]⟩
    · exfalso; apply h1
      rcases h2 with h2 | h2
      · simp only [Option.some.injEq] at h2; exact absurd h2 ht
      · exact Or.inr h2
  | @acqR t' hw =>
    by_cases ht : t' = t
    · exact ⟨false, by rw [ht]⟩
    · exfalso; apply h1
      rcases h2 with h2 | h2
      · exact Or.inl h2
      · simp only [List.mem_cons] at h2
        rcases h2 with h2 | h2
        · exact absurd h2.symm ht
        · exact Or.inr h2
  | relW hw => exfalso; apply h1; rcases h2 with h2 | h2 <;> simp_all
  | relR hr =>
    exfalso; apply h1
    rcases h2 with h2 | h2
    · exact Or.inl h2
    · exact Or.inr (List.mem_of_mem_erase h2)

theorem gain_w {σa σb : St} {e : Ev} {t ℓ : Nat} (hs : step σa e = some σb)
    (h1 : ¬ holdsW σa t ℓ) (h2 : holdsW σb t ℓ) : e = .acq t ℓ true := by
  unfold holdsW at *
  have hl := step_at hs ℓ
  generalize σa ℓ = s at *
  generalize σb ℓ = s' at *
  cases hl with
  | same _ _ => exact absurd h2 h1
  | @acqW t' hw hr => simp only [Option.some.injEq] at h2; rw [h2]
  | acqR hw => exact absurd h2 h1
  | relW hw => simp at h2
  | relR hr => exact absurd h2 h1

/-- while one thread holds the lock in any mode, no other thread holds it exclusively -/
theorem excl_w {σ : St} (hi : Inv σ) {t1 t2 ℓ : Nat} (hne : t1 ≠ t2) (h : holdsAny σ t1 ℓ) : ¬ holdsW σ t2 ℓ := by
  intro hw
  unfold holdsW at hw
  have hr : (σ ℓ).readers = [] := hi ℓ (by rw [hw]; simp)
  rcases h with h | h
  · unfold holdsW at h; rw [hw] at h; injection h with h; exact hne h.symm
  · unfold holdsR at h; rw [hr] at h; simp at h

/-- while one thread holds the lock exclusively, no other thread holds it at all -/
theorem excl_any {σ : St} (hi : Inv σ) {t1 t2 ℓ : Nat} (hne : t1 ≠ t2) (h : holdsW σ t1 ℓ) : ¬ holdsAny σ t2 ℓ := by
  intro h2
  unfold holdsW at h
  have hr : (σ ℓ).readers = [] := hi ℓ (by rw [h]; simp)
  rcases h2 with h2 | h2
  · unfold holdsW at h2; rw [h] at h2; injection h2 with h2; exact hne h2
  · unfold holdsR at h2; rw [hr] at h2; simp at h2

/-- a release never makes anybody the writer -/
theorem rel_no_new_writer {σa σb : St} {t t2 ℓ : Nat} {m : Bool} (hs : step σa (.rel t ℓ m) = some σb)
    (h : ¬ holdsW σa t2 ℓ) : ¬ holdsW σb t2 ℓ := by
  intro h2
  have := gain_w hs h h2
  cases this

end Locks
