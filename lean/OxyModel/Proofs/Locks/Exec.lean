import OxyModel.Proofs.Locks.Basic

/-! Executable companions of `WellFormed` / `Guarded` (used for the non-vacuity examples), and
`HB ⇒ earlier position`. Core Lean only. -/
namespace Locks

theorem wf_of_isSome {es : List Ev} (h : (run St.init es).isSome = true) : WellFormed es := by
  cases hr : run St.init es with
  | none => rw [hr] at h; cases h
  | some σ => exact ⟨σ, hr⟩

def holdsForB (σ : St) (t ℓ : Nat) (w : Bool) : Bool :=
  if w then (σ ℓ).writer == some t else ((σ ℓ).writer == some t || (σ ℓ).readers.contains t)

theorem holdsForB_sound {σ : St} {t ℓ : Nat} {w : Bool} (h : holdsForB σ t ℓ w = true) : holdsFor σ t ℓ w := by
  unfold holdsForB at h
  unfold holdsFor holdsAny holdsW holdsR
  cases w with
  | true => simpa using h
  | false => simpa using h

/-- walk the execution and test every access to `v` -/
def guardedFrom (ℓ v : Nat) : St → List Ev → Bool
  | _, [] => true
  | σ, e :: es =>
    (match e with
      | .acc t v' w => v' != v || holdsForB σ t ℓ w
      | _ => true) &&
    (match step σ e with
      | none => true
      | some σ' => guardedFrom ℓ v σ' es)

theorem guardedFrom_sound (ℓ v : Nat) : ∀ (es : List Ev) (σ0 : St), guardedFrom ℓ v σ0 es = true →
    ∀ (pre post : List Ev) (t : Nat) (w : Bool) (σ : St),
      es = pre ++ Ev.acc t v w :: post → run σ0 pre = some σ → holdsFor σ t ℓ w := by
  intro es
  induction es with
  | nil => intro σ0 _ pre post t w σ he _; simp at he
  | cons e es ih =>
    intro σ0 hg pre post t w σ he hr
    simp only [guardedFrom, Bool.and_eq_true] at hg
    cases pre with
    | nil =>
      simp only [List.nil_append, List.cons.injEq] at he
      simp only [run, Option.some.injEq] at hr
      subst hr
      rw [he.1] at hg
      have := hg.1
      simp only [bne_self_eq_false, Bool.false_or] at this
      exact holdsForB_sound this
    | cons x pre' =>
      simp only [List.cons_append, List.cons.injEq] at he
      obtain ⟨σ1, h1, h2⟩ := run_cons hr
      have he1 : e = x := he.1
      subst he1
      have hg2 := hg.2
      rw [h1] at hg2
      exact ih σ1 hg2 pre' post t w σ he.2 h2

theorem guarded_of_check {ℓ v : Nat} {es : List Ev} (h : guardedFrom ℓ v St.init es = true) : Guarded ℓ v es :=
  guardedFrom_sound ℓ v es St.init h

def holdsModeB (σ : St) (t : Nat) (p : Nat × Bool) : Bool :=
  if p.2 then (σ p.1).writer == some t else ((σ p.1).writer == some t || (σ p.1).readers.contains t)

theorem holdsModeB_sound {σ : St} {t : Nat} {p : Nat × Bool} (h : holdsModeB σ t p = true) :
    if p.2 then holdsW σ t p.1 else holdsAny σ t p.1 := by
  unfold holdsModeB at h
  unfold holdsAny holdsW holdsR
  cases hp : p.2 with
  | true => rw [hp] at h; simpa using h
  | false => rw [hp] at h; simpa using h

/-- walk the execution and match every access against the fact table -/
def conformsFrom (fs : List Fact) : St → List Ev → Bool
  | _, [] => true
  | σ, e :: es =>
    (match e with
      | .acc t v w => fs.any fun f => Nat.beq f.var v && (f.write == w) && f.locks.all (holdsModeB σ t)
      | _ => true) &&
    (match step σ e with
      | none => true
      | some σ' => conformsFrom fs σ' es)

theorem conformsFrom_sound (fs : List Fact) : ∀ (es : List Ev) (σ0 : St), conformsFrom fs σ0 es = true →
    ∀ (pre post : List Ev) (t v : Nat) (w : Bool) (σ : St),
      es = pre ++ Ev.acc t v w :: post → run σ0 pre = some σ →
      ∃ f ∈ fs, f.var = v ∧ f.write = w ∧ ∀ p ∈ f.locks, if p.2 then holdsW σ t p.1 else holdsAny σ t p.1 := by
  intro es
  induction es with
  | nil => intro σ0 _ pre post t v w σ he _; simp at he
  | cons e es ih =>
    intro σ0 hg pre post t v w σ he hr
    simp only [conformsFrom, Bool.and_eq_true] at hg
    cases pre with
    | nil =>
      simp only [List.nil_append, List.cons.injEq] at he
      simp only [run, Option.some.injEq] at hr
      subst hr
      rw [he.1] at hg
      have h1 := hg.1
      simp only [List.any_eq_true, Bool.and_eq_true, beq_iff_eq, List.all_eq_true] at h1
      obtain ⟨f, hf, ⟨hv, hw⟩, hl⟩ := h1
      exact ⟨f, hf, Nat.eq_of_beq_eq_true hv, hw, fun p hp => holdsModeB_sound (hl p hp)⟩
    | cons x pre' =>
      simp only [List.cons_append, List.cons.injEq] at he
      obtain ⟨σ1, h1, h2⟩ := run_cons hr
      have he1 : e = x := he.1
      subst he1
      have hg2 := hg.2
      rw [h1] at hg2
      exact ih σ1 hg2 pre' post t v w σ he.2 h2

theorem conforms_of_check {fs : List Fact} {es : List Ev} (h : conformsFrom fs St.init es = true) : Conforms fs es :=
  conformsFrom_sound fs es St.init h

theorem HB.lt {es : List Ev} {i j : Nat} (h : HB es i j) : i < j := by
  induction h with
  | po h _ _ _ => exact h
  | sw h _ _ _ => exact h
  | trans _ _ ih1 ih2 => omega

/-- two neighbouring positions are ordered only by program order or because the first is an unlock -/
theorem HB.adjacent {es : List Ev} {i j : Nat} (h : HB es i j) : j = i + 1 →
    ∃ a b, es[i]? = some a ∧ es[j]? = some b ∧ (a.thread = b.thread ∨ ∃ t ℓ m, a = Ev.rel t ℓ m) := by
  induction h with
  | po _ h1 h2 ht => intro _; exact ⟨_, _, h1, h2, Or.inl ht⟩
  | sw _ h1 h2 _ => intro _; exact ⟨_, _, h1, h2, Or.inr ⟨_, _, _, rfl⟩⟩
  | trans h1 h2 _ _ => intro hj; have := h1.lt; have := h2.lt; omega

end Locks
