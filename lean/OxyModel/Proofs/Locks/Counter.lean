import OxyModel.Model.Locks

/-! C09: increments performed under the exclusive lock are never lost. Core Lean only. -/
namespace Locks

/-- a pending increment belongs to the lock holder and has loaded the current value -/
def CInv (s : CS) : Prop := ∀ t x, s.reg t = some x → s.writer = some t ∧ x = s.mem

theorem cinv_init : CInv CS.init := by intro t x h; simp [CS.init] at h

theorem cstep_inv {s s' : CS} {e : CEv} (h : cstep true s e = some s') (hi : CInv s) :
    CInv s' ∧ s'.mem = s.mem + (if e.isStore then 1 else 0) := by
  cases e with
  | acqW t =>
    simp only [cstep] at h
    split at h
    · rename_i hc; cases h
      refine ⟨?_, by simp [CEv.isStore]⟩
      intro t' x hr
      have := (hi t' x hr).1
      rw [hc] at this; cases this
    · cases h
  | relW t =>
    simp only [cstep] at h
    split at h
    · rename_i hc; cases h
      refine ⟨?_, by simp [CEv.isStore]⟩
      intro t' x hr
      simp only at hr
      have h1 := (hi t' x hr).1
      rw [hc.1] at h1; injection h1 with h1; subst h1
      rw [hc.2 trivial] at hr; cases hr
    · cases h
  | ld t =>
    simp only [cstep] at h
    split at h
    · rename_i hc; cases h
      refine ⟨?_, by simp [CEv.isStore]⟩
      intro t' x hr
      simp only [setReg] at hr
      split at hr
      · rename_i ht; subst ht; injection hr with hr; exact ⟨hc.1 trivial, hr.symm⟩
      · exact hi t' x hr
    · cases h
  | st t =>
    simp only [cstep] at h
    split at h
    · cases h
    · rename_i x hx
      split at h
      · rename_i hc; cases h
        have hx' := hi t x hx
        refine ⟨?_, by simp [CEv.isStore, hx'.2]⟩
        intro t' y hr
        simp only [setReg] at hr
        split at hr
        · cases hr
        · rename_i ht
          have h1 := (hi t' y hr).1
          rw [hx'.1] at h1; injection h1 with h1; exact absurd h1.symm ht
      · cases h

theorem crun_count : ∀ (es : List CEv) (s s' : CS), crun true s es = some s' → CInv s →
    CInv s' ∧ s'.mem = s.mem + increments es := by
  intro es
  induction es with
  | nil => intro s s' h hi; simp only [crun, Option.some.injEq] at h; subst h; exact ⟨hi, by simp [increments]⟩
  | cons e es ih =>
    intro s s' h hi
    simp only [crun] at h
    cases hs : cstep true s e with
    | none => simp [hs] at h
    | some s1 =>
      rw [hs] at h
      obtain ⟨hi1, hm1⟩ := cstep_inv hs hi
      obtain ⟨hi', hm'⟩ := ih s1 s' h hi1
      refine ⟨hi', ?_⟩
      rw [hm', hm1]
      cases e <;> simp [increments, CEv.isStore, List.filter] <;> omega

end Locks
