import OxyModel.Model.CBreakerHist

/-!
# The composite (breaker × histogram) against the oracle model
-/
namespace CBH
open CB CBExpr

theorem completeH_eq (kf : KF) (c : Cfg) (s : Brk × Hist.Rolling) (now code lat : Nat) :
    completeH kf c s now code lat =
      (((complete c s.1 now code (oracleOf kf c (s.2.recordLatency now lat))).1,
        if (complete c s.1 now code (oracleOf kf c (s.2.recordLatency now lat))).2
        then (s.2.recordLatency now lat).reset now else s.2.recordLatency now lat),
       (complete c s.1 now code (oracleOf kf c (s.2.recordLatency now lat))).2) := rfl

/-- one step of the composite is the step of the oracle model on the event with the oracle filled in -/
theorem stepH_brk (kf : KF) (c : Cfg) (s : Brk × Hist.Rolling) (e : EvH) :
    (stepH kf c s e).1.1 = (step c s.1 (toEv kf c s e)).1 ∧ (stepH kf c s e).2 = (step c s.1 (toEv kf c s e)).2 := by
  cases e <;> exact ⟨rfl, rfl⟩

theorem runH_brk (kf : KF) (c : Cfg) (es : List EvH) (s : Brk × Hist.Rolling) :
    (runH kf c s es).1.1 = (run c s.1 (toTrace kf c s es)).1 ∧ (runH kf c s es).2 = (run c s.1 (toTrace kf c s es)).2 := by
  induction es generalizing s with
  | nil => exact ⟨rfl, rfl⟩
  | cons e es ih =>
    obtain ⟨h1, h2⟩ := stepH_brk kf c s e
    obtain ⟨i1, i2⟩ := ih (stepH kf c s e).1
    unfold runH toTrace run
    simp only
    rw [← h1, ← h2]
    exact ⟨i1, by rw [i2]⟩

theorem toTrace_time (kf : KF) (c : Cfg) (es : List EvH) (s : Brk × Hist.Rolling) :
    (toTrace kf c s es).map Ev.time = es.map (fun e => match e with
      | .arrive t => t | .record t _ _ => t | .check t => t | .complete t _ _ => t) := by
  induction es generalizing s with
  | nil => rfl
  | cons e es ih =>
    unfold toTrace
    rw [List.map_cons, List.map_cons, ih]
    cases e <;> rfl

end CBH
