import OxyModel.Proofs.Hist.Quantile
import OxyModel.Proofs.Hist.Rolling

/-!
# Histories of one histogram, and the rank property on the rolling histogram
-/
namespace Hist

/-- an operation on one `hdrhistogram.Histogram` -/
inductive HOp where
  | record (v : Nat)       -- `RecordValue(v)`
  | reset                  -- `Reset()`
deriving Repr, DecidableEq

def HOp.apply (h : H) : HOp → H
  | .record v => h.record v
  | .reset => h.reset

/-- a new histogram after a history of operations -/
def runOps (ops : List HOp) : H := ops.foldl HOp.apply H.new

def HOp.log (acc : List Nat) : HOp → List Nat
  | .record v => v :: acc
  | .reset => []

/-- the values recorded since the last reset (every value: also those the histogram drops), newest first -/
def sinceOps (ops : List HOp) : List Nat := ops.foldl HOp.log []

/-- the values below 2^32 among them: those the histogram holds -/
def held (ops : List HOp) : List Nat := (sinceOps ops).filter (fun v => decide (v < 2 ^ 32))

theorem rep_runOps (ops : List HOp) : Rep (runOps ops) (held ops) := by
  unfold runOps held sinceOps
  have : ∀ (ops : List HOp) (h : H) (acc : List Nat), Rep h (acc.filter (fun v => decide (v < 2 ^ 32))) →
      Rep (ops.foldl HOp.apply h) ((ops.foldl HOp.log acc).filter (fun v => decide (v < 2 ^ 32))) := by
    intro ops
    induction ops with
    | nil => intro h acc hr; exact hr
    | cons o ops ih =>
      intro h acc hr
      apply ih
      cases o with
      | reset => exact rep_reset hr
      | record v =>
        have := rep_record hr v
        show Rep (h.record v) ((v :: acc).filter _)
        rw [List.filter_cons]
        by_cases hv : v < 2 ^ 32
        · rw [if_pos hv] at this; simpa [hv] using this
        · rw [if_neg hv] at this; simpa [hv] using this
  exact this ops _ _ rep_new

theorem countP_held_index (ops : List HOp) (i : Nat) (hi : i < countsLen) :
    (held ops).countP (fun v => countsIndexFor v = i) = (sinceOps ops).countP (fun v => countsIndexFor v = i) := by
  unfold held
  rw [List.countP_filter]
  apply List.countP_congr
  intro v _
  simp only [decide_eq_true_eq, Bool.and_eq_true]
  constructor
  · exact fun a => a.1
  · intro a
    exact ⟨a, (inRange_iff v).1 (by omega)⟩

theorem length_held (ops : List HOp) :
    (held ops).length = (sinceOps ops).countP (fun v => countsIndexFor v < countsLen) := by
  unfold held
  rw [← List.countP_eq_length_filter]
  apply List.countP_congr
  intro v _
  simp only [decide_eq_true_eq]
  exact (inRange_iff v).symm

/-- membership from equal counts -/
theorem mem_of_countP_eq {L M : List Nat} (h : ∀ p : Nat → Bool, L.countP p = M.countP p) {v : Nat} (hv : v ∈ L) : v ∈ M := by
  have h1 : 0 < L.countP (fun x => decide (x = v)) := List.countP_pos_iff.2 ⟨v, hv, by simp⟩
  rw [h] at h1
  obtain ⟨w, hw, he⟩ := List.countP_pos_iff.1 h1
  have : w = v := by simpa using he
  rw [← this]; exact hw

/-- `v * 1µs / 1ms` -/
theorem us_to_ms (v : Nat) : v * 1000 / 1000000 = v / 1000 := by omega

end Hist
