import OxyModel.Proofs.Hist.Counts

/-!
# `ValueAtPercentile` picks the class of the k-th smallest recorded value
-/
namespace Hist

theorem isClass_zero : IsClass 0 0 0 := ⟨by decide, Or.inl rfl, by decide, by decide⟩

theorem lowestEq_zero : lowestEq 0 = 0 := by
  rw [(of_isClass isClass_zero).2.1]

theorem highestEq_zero : highestEq 0 = 0 := by
  rw [(of_isClass isClass_zero).2.2]

/-- `countAtPercentile = 0` (an empty histogram, the percentile 0, a small percentile of few values): 0 -/
theorem valueAtCount_zero (h : H) (z : Bool) : h.valueAtCount 0 z = 0 := by
  unfold H.valueAtCount
  rw [valueUpToCount_zero]
  cases z
  · simpa using highestEq_zero
  · simpa using lowestEq_zero

/-- a value counted at or below the position of `v` is at most `highestEq v` -/
theorem le_highestEq_of_index_le {x v : Nat} (h : countsIndexFor x ≤ countsIndexFor v) : x ≤ highestEq v := by
  by_cases hx : x ≤ v
  · exact Nat.le_trans hx (le_highestEq v)
  · have h2 := countsIndexFor_mono (show v ≤ x by omega)
    have he : countsIndexFor x = countsIndexFor v := by omega
    rw [← highestEq_eq_of_index he]
    exact le_highestEq x

/-- a value below `lowestEq v` is counted at a lower position -/
theorem index_lt_of_lt_lowestEq {x v : Nat} (h : x < lowestEq v) : countsIndexFor x < countsIndexFor v := by
  apply Classical.byContradiction
  intro hn
  have hge : countsIndexFor v ≤ countsIndexFor x := by omega
  by_cases he : countsIndexFor x = countsIndexFor v
  · have := (countsIndexFor_eq_iff x v).1 he
    have := lowestEq_le x
    omega
  · have hvx : ¬ x ≤ v := fun c => by
      have := countsIndexFor_mono c
      omega
    have := lowestEq_le v
    omega

/-- **rank**: for `1 ≤ k ≤ totalCount`, `r = highestEquivalentValue(getValueFromIdxUpToCount(k))` is the
    highest value equivalent to some recorded value; at least `k` recorded values are `≤ r`; fewer than `k` lie
    below the lowest value equivalent to `r` -/
theorem valueAtCount_rank {h : H} {vs : List Nat} (hr : Rep h vs) {k : Nat} (h1 : 1 ≤ k) (h2 : k ≤ h.total) :
    (∃ v ∈ vs, h.valueAtCount k false = highestEq v) ∧
    k ≤ vs.countP (fun v => decide (v ≤ h.valueAtCount k false)) ∧
    vs.countP (fun v => decide (v < lowestEq (h.valueAtCount k false))) < k := by
  obtain ⟨m, _, hlo, hhi, hval⟩ := valueUpToCount_spec hr h1 h2
  rw [psum_rep hr] at hlo hhi
  rw [countP_index_lt_succ] at hhi
  have hpos : 0 < vs.countP (fun v => countsIndexFor v = m) := by omega
  obtain ⟨v, hv, hvm⟩ := List.countP_pos_iff.1 hpos
  have hvm : countsIndexFor v = m := by simpa using hvm
  have hr' : h.valueAtCount k false = highestEq v := by
    unfold H.valueAtCount
    simp only [hval, Bool.false_eq_true, if_false]
    rw [← hvm, ← lowestEq_eq_valueAt, highestEq_lowestEq]
  refine ⟨⟨v, hv, hr'⟩, ?_, ?_⟩
  · rw [hr']
    have : vs.countP (fun x => decide (countsIndexFor x < m + 1)) ≤ vs.countP (fun x => decide (x ≤ highestEq v)) := by
      apply List.countP_mono_left
      intro x _ hx
      have hx : countsIndexFor x < m + 1 := by simpa using hx
      have := le_highestEq_of_index_le (x := x) (v := v) (by omega)
      simpa using this
    rw [countP_index_lt_succ] at this
    omega
  · rw [hr', lowestEq_highestEq]
    have : vs.countP (fun x => decide (x < lowestEq v)) ≤ vs.countP (fun x => decide (countsIndexFor x < m)) := by
      apply List.countP_mono_left
      intro x _ hx
      have hx : x < lowestEq v := by simpa using hx
      have := index_lt_of_lt_lowestEq hx
      simpa [hvm] using this
    omega

/-! ### the exact-rational count -/

/-- for a percentile `≤ 100` (after the clamp) the count never exceeds `totalCount`: the loop of
    `getValueFromIdxUpToCount` stays inside `counts` -/
theorem countAtQ_le (num den total : Nat) (hd : 0 < den) : countAtQ num den total ≤ total := by
  unfold countAtQ
  by_cases h : num > 100 * den
  · rw [if_pos h]; omega
  · rw [if_neg h]
    have hp : 0 < 200 * den := by omega
    rw [Nat.div_le_iff_le_mul_add_pred hp]
    have h1 : 2 * num * total ≤ 2 * (100 * den) * total := Nat.mul_le_mul_right _ (Nat.mul_le_mul_left _ (by omega))
    have e : 2 * (100 * den) * total = 200 * den * total := by rw [← Nat.mul_assoc]
    omega

/-- the percentile 0 gives the count 0 -/
theorem countAtQ_zero (den total : Nat) (hd : 0 < den) : countAtQ 0 den total = 0 := by
  unfold countAtQ
  rw [if_neg (by omega)]
  simp only [Nat.mul_zero, Nat.zero_mul, Nat.zero_add]
  exact Nat.div_eq_of_lt (by omega)

/-- the percentile 100 and above gives `totalCount` -/
theorem countAtQ_full (num den total : Nat) (hd : 0 < den) (h : 100 * den ≤ num) : countAtQ num den total = total := by
  unfold countAtQ
  by_cases h1 : num > 100 * den
  · rw [if_pos h1]; omega
  · rw [if_neg h1]
    have e : num = 100 * den := by omega
    subst e
    have e2 : 2 * (100 * den) * total + 100 * den = (200 * den) * total + 100 * den := by
      rw [← Nat.mul_assoc]
    rw [e2, Nat.mul_add_div (by omega), Nat.div_eq_of_lt (by omega)]
    rfl

end Hist
