import OxyModel.Model.Hist

/-!
# The indexing arithmetic of the HDR histogram

`bucketIdx` / `subIdx` / `countsIndexFor` / `lowestEq` / `highestEq` as division and multiplication by
powers of two; every value `v` has a unique *class* `(b, s)` — bucket and sub-bucket — with
`s < 256`, `b = 0 ∨ 128 ≤ s`, `s·2^b ≤ v < (s+1)·2^b`.
-/
namespace Hist

theorem two_pow_pos' (n : Nat) : 0 < 2 ^ n := Nat.pow_pos (by decide)

theorem pow_le_pow {a b : Nat} (h : a ≤ b) : 2 ^ a ≤ 2 ^ b := Nat.pow_le_pow_right (by decide) h

/-- `v | 255 = 255` below 256 -/
theorem or_mask_small {v : Nat} (h : v < 256) : v ||| 255 = 255 := by
  have h1 : v ||| 255 < 2 ^ 8 := Nat.or_lt_two_pow (by simpa using h) (by decide)
  have h2 : 255 ≤ v ||| 255 := Nat.right_le_or
  have : (2 : Nat) ^ 8 = 256 := by decide
  omega

theorem bucketIdx_small {v : Nat} (h : v < 256) : bucketIdx v = 0 := by
  unfold bucketIdx bitLen subBucketMask unitMagnitude subBucketHalfCountMagnitude
  rw [or_mask_small h]
  have : Nat.log2 255 = 7 := (Nat.log2_eq_iff (by decide)).2 ⟨by decide, by decide⟩
  simp [this]

theorem log2_or_mask {v : Nat} (h : 256 ≤ v) : Nat.log2 (v ||| 255) = Nat.log2 v := by
  have hv : v ≠ 0 := by omega
  have h1 : 2 ^ v.log2 ≤ v := Nat.log2_self_le hv
  have h2 : v < 2 ^ (v.log2 + 1) := Nat.lt_log2_self
  have h8 : 8 ≤ v.log2 := (Nat.le_log2 hv).2 (by simpa using h)
  have h3 : (2 : Nat) ^ 9 ≤ 2 ^ (v.log2 + 1) := pow_le_pow (by omega)
  have h4 : v ||| 255 < 2 ^ (v.log2 + 1) :=
    Nat.or_lt_two_pow h2 (by have : (2 : Nat) ^ 9 = 512 := by decide
                             omega)
  have h5 : v ≤ v ||| 255 := Nat.left_le_or
  exact (Nat.log2_eq_iff (by omega)).2 ⟨by omega, h4⟩

theorem bucketIdx_large {v : Nat} (h : 256 ≤ v) : bucketIdx v = Nat.log2 v - 7 := by
  unfold bucketIdx bitLen subBucketMask unitMagnitude subBucketHalfCountMagnitude
  have h5 : v ≤ v ||| 255 := Nat.left_le_or
  rw [if_neg (by omega), log2_or_mask h]
  omega

/-- `getBucketIndex` without bit operations -/
theorem bucketIdx_eq (v : Nat) : bucketIdx v = if v < 256 then 0 else Nat.log2 v - 7 := by
  by_cases h : v < 256
  · rw [if_pos h, bucketIdx_small h]
  · rw [if_neg h, bucketIdx_large (by omega)]

theorem subIdx_eq (v b : Nat) : subIdx v b = v / 2 ^ b := by
  unfold subIdx unitMagnitude
  rw [Nat.add_zero, Nat.shiftRight_eq_div_pow]

theorem valueFromIndex_eq (b s : Nat) : valueFromIndex b s = s * 2 ^ b := by
  unfold valueFromIndex unitMagnitude
  rw [Nat.add_zero, Nat.shiftLeft_eq]

theorem bucketBaseIdx_eq (b : Nat) : bucketBaseIdx b = (b + 1) * 128 := by
  unfold bucketBaseIdx subBucketHalfCountMagnitude
  rw [Nat.shiftLeft_eq]

theorem countsIndex_eq (b s : Nat) : countsIndex b s = b * 128 + s := by
  unfold countsIndex subBucketHalfCount
  rw [bucketBaseIdx_eq]
  omega

/-- `(b, s)` is the class of `v` -/
def IsClass (v b s : Nat) : Prop :=
  s < 256 ∧ (b = 0 ∨ 128 ≤ s) ∧ s * 2 ^ b ≤ v ∧ v < (s + 1) * 2 ^ b

/-- the class of a value is `(bucketIdx v, subIdx v (bucketIdx v))` -/
theorem isClass_self (v : Nat) : IsClass v (bucketIdx v) (v / 2 ^ bucketIdx v) := by
  have hp := two_pow_pos' (bucketIdx v)
  have hlo : v / 2 ^ bucketIdx v * 2 ^ bucketIdx v ≤ v := Nat.div_mul_le_self _ _
  have hhi : v < (v / 2 ^ bucketIdx v + 1) * 2 ^ bucketIdx v := by
    have := Nat.lt_div_mul_add (a := v) hp
    rw [Nat.add_mul, Nat.one_mul]; exact this
  by_cases h : v < 256
  · have hb := bucketIdx_small h
    rw [hb] at hlo hhi ⊢
    refine ⟨by simpa using h, Or.inl rfl, hlo, hhi⟩
  · have h' : 256 ≤ v := by omega
    have hv : v ≠ 0 := by omega
    have hb := bucketIdx_large h'
    have h1 : 2 ^ v.log2 ≤ v := Nat.log2_self_le hv
    have h2 : v < 2 ^ (v.log2 + 1) := Nat.lt_log2_self
    have h8 : 8 ≤ v.log2 := (Nat.le_log2 hv).2 (by simpa using h')
    have e1 : v.log2 = 7 + bucketIdx v := by omega
    have e2 : v.log2 + 1 = 8 + bucketIdx v := by omega
    rw [e1, Nat.pow_add] at h1
    rw [e2, Nat.pow_add] at h2
    have c7 : (2 : Nat) ^ 7 = 128 := by decide
    have c8 : (2 : Nat) ^ 8 = 256 := by decide
    rw [c7] at h1
    rw [c8] at h2
    refine ⟨(Nat.div_lt_iff_lt_mul hp).2 h2, Or.inr ((Nat.le_div_iff_mul_le hp).2 h1), hlo, hhi⟩

/-- the class determines the bucket and the sub-bucket -/
theorem isClass_unique {v b s : Nat} (h : IsClass v b s) : bucketIdx v = b ∧ v / 2 ^ b = s := by
  obtain ⟨hs, hbs, hlo, hhi⟩ := h
  have hp := two_pow_pos' b
  have hdiv : v / 2 ^ b = s := by
    apply Nat.div_eq_of_lt_le
    · exact hlo
    · exact hhi
  refine ⟨?_, hdiv⟩
  by_cases hb0 : b = 0
  · subst hb0
    have : v < 256 := by simp at hhi; omega
    exact bucketIdx_small this
  · have h128 : 128 ≤ s := by rcases hbs with h | h; exact absurd h hb0; exact h
    have c7 : (2 : Nat) ^ 7 = 128 := by decide
    have c8 : (2 : Nat) ^ 8 = 256 := by decide
    have hge : 2 ^ (7 + b) ≤ v := by
      rw [Nat.pow_add, c7]
      exact Nat.le_trans (Nat.mul_le_mul_right _ h128) hlo
    have hlt : v < 2 ^ (7 + b + 1) := by
      have : 7 + b + 1 = 8 + b := by omega
      rw [this, Nat.pow_add, c8]
      exact Nat.lt_of_lt_of_le hhi (Nat.mul_le_mul_right _ (by omega))
    have h256 : 256 ≤ v := by
      have : (2 : Nat) ^ 8 ≤ 2 ^ (7 + b) := pow_le_pow (by omega)
      omega
    have hlog : v.log2 = 7 + b := (Nat.log2_eq_iff (by omega)).2 ⟨hge, hlt⟩
    rw [bucketIdx_large h256, hlog]
    omega

/-! ### the functions of the code in terms of the class -/

theorem countsIndexFor_eq (v : Nat) : countsIndexFor v = bucketIdx v * 128 + v / 2 ^ bucketIdx v := by
  unfold countsIndexFor
  simp only [subIdx_eq, countsIndex_eq]

theorem lowestEq_eq (v : Nat) : lowestEq v = v / 2 ^ bucketIdx v * 2 ^ bucketIdx v := by
  unfold lowestEq
  simp only [subIdx_eq, valueFromIndex_eq]

theorem sizeOfRange_eq (v : Nat) : sizeOfRange v (bucketIdx v) = 2 ^ bucketIdx v := by
  unfold sizeOfRange subBucketCount unitMagnitude
  simp only [subIdx_eq]
  have := (isClass_self v).1
  rw [if_neg (by omega), Nat.zero_add, Nat.shiftLeft_eq, Nat.one_mul]

theorem highestEq_eq (v : Nat) : highestEq v = v / 2 ^ bucketIdx v * 2 ^ bucketIdx v + 2 ^ bucketIdx v - 1 := by
  unfold highestEq nextNonEq
  simp only [lowestEq_eq, sizeOfRange_eq]

theorem of_isClass {v b s : Nat} (h : IsClass v b s) :
    countsIndexFor v = b * 128 + s ∧ lowestEq v = s * 2 ^ b ∧ highestEq v = s * 2 ^ b + 2 ^ b - 1 := by
  obtain ⟨hb, hs⟩ := isClass_unique h
  rw [countsIndexFor_eq, lowestEq_eq, highestEq_eq, hb, hs]
  exact ⟨rfl, rfl, rfl⟩

/-- `lowestEquivalentValue(v) ≤ v ≤ highestEquivalentValue(v)` -/
theorem lowestEq_le (v : Nat) : lowestEq v ≤ v := by
  rw [lowestEq_eq]; exact (isClass_self v).2.2.1

theorem le_highestEq (v : Nat) : v ≤ highestEq v := by
  rw [highestEq_eq]
  have := (isClass_self v).2.2.2
  rw [Nat.add_mul, Nat.one_mul] at this
  omega

/-- values between `lowestEq v` and `highestEq v` have the class of `v` -/
theorem isClass_of_between {v w : Nat} (h1 : lowestEq v ≤ w) (h2 : w ≤ highestEq v) :
    IsClass w (bucketIdx v) (v / 2 ^ bucketIdx v) := by
  obtain ⟨hs, hbs, _, _⟩ := isClass_self v
  rw [lowestEq_eq] at h1
  rw [highestEq_eq] at h2
  have hp := two_pow_pos' (bucketIdx v)
  refine ⟨hs, hbs, h1, ?_⟩
  rw [Nat.add_mul, Nat.one_mul]
  omega

theorem bucketIdx_mono {u v : Nat} (h : u ≤ v) : bucketIdx u ≤ bucketIdx v := by
  rw [bucketIdx_eq, bucketIdx_eq]
  by_cases hu : u < 256
  · rw [if_pos hu]; exact Nat.zero_le _
  · have hv : ¬ v < 256 := by omega
    rw [if_neg hu, if_neg hv]
    have : u.log2 ≤ v.log2 := by
      rw [Nat.le_log2 (by omega)]
      exact Nat.le_trans (Nat.log2_self_le (by omega)) h
    omega

/-- `countsIndexFor` is monotone -/
theorem countsIndexFor_mono {u v : Nat} (h : u ≤ v) : countsIndexFor u ≤ countsIndexFor v := by
  rw [countsIndexFor_eq, countsIndexFor_eq]
  have hb := bucketIdx_mono h
  obtain ⟨hsu, _, _, _⟩ := isClass_self u
  obtain ⟨_, hbv, _, _⟩ := isClass_self v
  by_cases he : bucketIdx u = bucketIdx v
  · rw [he]
    have := Nat.div_le_div_right (c := 2 ^ bucketIdx v) h
    omega
  · have hlt : bucketIdx u + 1 ≤ bucketIdx v := by omega
    have h128 : 128 ≤ v / 2 ^ bucketIdx v := by
      rcases hbv with h0 | h0
      · omega
      · exact h0
    have := Nat.mul_le_mul_right 128 hlt
    omega

/-- the linear position `i` of `counts` as (bucket, sub-bucket) -/
def pos (i : Nat) : Nat × Nat := if i < 256 then (0, i) else (i / 128 - 1, 128 + i % 128)

/-- `valueFromIndex` of position `i`: the lowest value counted at `counts[i]` -/
def valueAt (i : Nat) : Nat := valueFromIndex (pos i).1 (pos i).2

theorem pos_class (i : Nat) : (pos i).2 < 256 ∧ ((pos i).1 = 0 ∨ 128 ≤ (pos i).2) ∧ (pos i).1 * 128 + (pos i).2 = i := by
  unfold pos
  by_cases h : i < 256
  · rw [if_pos h]; exact ⟨h, Or.inl rfl, by simp⟩
  · rw [if_neg h]
    refine ⟨by simp only; omega, Or.inr (by simp only; omega), by simp only; omega⟩

theorem pos_of_class {b s : Nat} (hs : s < 256) (hbs : b = 0 ∨ 128 ≤ s) : pos (b * 128 + s) = (b, s) := by
  unfold pos
  by_cases hb : b = 0
  · subst hb; simp [hs]
  · have : 128 ≤ s := by rcases hbs with h | h; exact absurd h hb; exact h
    rw [if_neg (by omega)]
    congr 1 <;> omega

theorem isClass_valueAt (i : Nat) : IsClass (valueAt i) (pos i).1 (pos i).2 := by
  obtain ⟨h1, h2, _⟩ := pos_class i
  unfold valueAt
  rw [valueFromIndex_eq]
  have hp := two_pow_pos' (pos i).1
  refine ⟨h1, h2, Nat.le_refl _, ?_⟩
  rw [Nat.add_mul, Nat.one_mul]; omega

/-- recording `valueFromIndex` of position `i` lands in `counts[i]` -/
theorem countsIndexFor_valueAt (i : Nat) : countsIndexFor (valueAt i) = i := by
  rw [(of_isClass (isClass_valueAt i)).1]
  exact (pos_class i).2.2

/-- `lowestEquivalentValue(v)` is `valueFromIndex` of the position of `v` -/
theorem lowestEq_eq_valueAt (v : Nat) : lowestEq v = valueAt (countsIndexFor v) := by
  obtain ⟨hs, hbs, _, _⟩ := isClass_self v
  rw [countsIndexFor_eq, lowestEq_eq]
  unfold valueAt
  rw [pos_of_class hs hbs, valueFromIndex_eq]

theorem countsIndexFor_lowestEq (v : Nat) : countsIndexFor (lowestEq v) = countsIndexFor v := by
  rw [lowestEq_eq_valueAt, countsIndexFor_valueAt]

/-- two values are counted at the same position iff they have the same lowest equivalent value -/
theorem countsIndexFor_eq_iff (u v : Nat) : countsIndexFor u = countsIndexFor v ↔ lowestEq u = lowestEq v := by
  constructor
  · intro h; rw [lowestEq_eq_valueAt, lowestEq_eq_valueAt, h]
  · intro h; rw [← countsIndexFor_lowestEq u, ← countsIndexFor_lowestEq v, h]

theorem highestEq_eq_of_index {u v : Nat} (h : countsIndexFor u = countsIndexFor v) : highestEq u = highestEq v := by
  have hl := (countsIndexFor_eq_iff u v).1 h
  have hc : IsClass u (bucketIdx v) (v / 2 ^ bucketIdx v) :=
    isClass_of_between (by rw [← hl]; exact lowestEq_le u)
      (by have := lowestEq_le u
          have hv := le_highestEq v
          have hcv := isClass_self v
          have hcu := isClass_self u
          -- u lies in the class of v because its lowest equivalent value does
          rw [countsIndexFor_eq, countsIndexFor_eq] at h
          obtain ⟨hsu, hbu, _, _⟩ := hcu
          obtain ⟨hsv, hbv, _, _⟩ := hcv
          have hb : bucketIdx u = bucketIdx v := by
            have e1 := pos_of_class hsu hbu
            have e2 := pos_of_class hsv hbv
            rw [h] at e1
            have := e1.symm.trans e2
            exact (Prod.mk.inj this).1
          have hs : u / 2 ^ bucketIdx u = v / 2 ^ bucketIdx v := by rw [hb] at h ⊢; omega
          rw [highestEq_eq]
          have hu := (isClass_self u).2.2.2
          rw [hb] at hu
          rw [hb] at hs
          rw [hs, Nat.add_mul, Nat.one_mul] at hu
          omega)
  rw [(of_isClass hc).2.2, highestEq_eq]

theorem countsIndexFor_highestEq (v : Nat) : countsIndexFor (highestEq v) = countsIndexFor v := by
  have hc := isClass_of_between (v := v) (w := highestEq v)
    (Nat.le_trans (lowestEq_le v) (le_highestEq v)) (Nat.le_refl _)
  rw [(of_isClass hc).1, countsIndexFor_eq]

theorem lowestEq_highestEq (v : Nat) : lowestEq (highestEq v) = lowestEq v :=
  (countsIndexFor_eq_iff _ _).1 (countsIndexFor_highestEq v)

theorem highestEq_lowestEq (v : Nat) : highestEq (lowestEq v) = highestEq v :=
  highestEq_eq_of_index (countsIndexFor_lowestEq v)

/-- the width of a class: exactly `2^bucket` values; at most `v/128` apart, more than `v/256` wide -/
theorem class_width (v : Nat) :
    highestEq v - lowestEq v + 1 = 2 ^ bucketIdx v ∧
    (highestEq v - lowestEq v) * 128 ≤ v ∧ v < (highestEq v - lowestEq v + 1) * 256 := by
  have hp := two_pow_pos' (bucketIdx v)
  obtain ⟨hs, hbs, hlo, hhi⟩ := isClass_self v
  have e1 : highestEq v - lowestEq v + 1 = 2 ^ bucketIdx v := by
    rw [highestEq_eq, lowestEq_eq]; omega
  refine ⟨e1, ?_, ?_⟩
  · have e2 : highestEq v - lowestEq v = 2 ^ bucketIdx v - 1 := by omega
    rw [e2]
    rcases hbs with h0 | h128
    · rw [h0]; simp
    · have := Nat.mul_le_mul_right (2 ^ bucketIdx v) h128
      have h3 : (2 ^ bucketIdx v - 1) * 128 ≤ 128 * 2 ^ bucketIdx v := by
        rw [Nat.mul_comm]; exact Nat.mul_le_mul_left _ (by omega)
      omega
  · rw [e1]
    have := Nat.mul_le_mul_right (2 ^ bucketIdx v) (show v / 2 ^ bucketIdx v + 1 ≤ 256 by omega)
    rw [Nat.mul_comm (2 ^ bucketIdx v) 256]
    omega

/-- the values the histogram accepts: `countsIndexFor v < countsLen` iff `v < 2^32` -/
theorem inRange_iff (v : Nat) : countsIndexFor v < countsLen ↔ v < 2 ^ 32 := by
  obtain ⟨hs, hbs, hlo, hhi⟩ := isClass_self v
  rw [countsIndexFor_eq]
  unfold countsLen
  have c32 : (2 : Nat) ^ 32 = 256 * 2 ^ 24 := by decide
  have c32' : (2 : Nat) ^ 32 = 128 * 2 ^ 25 := by decide
  constructor
  · intro h
    have hb : bucketIdx v ≤ 24 := by
      rcases hbs with h0 | h128 <;> omega
    have h1 : (v / 2 ^ bucketIdx v + 1) * 2 ^ bucketIdx v ≤ 256 * 2 ^ 24 :=
      Nat.mul_le_mul (by omega) (pow_le_pow hb)
    omega
  · intro h
    have hb : bucketIdx v ≤ 24 := by
      apply Classical.byContradiction
      intro hn
      have h25 : 25 ≤ bucketIdx v := by omega
      have h128 : 128 ≤ v / 2 ^ bucketIdx v := by rcases hbs with h0 | h0 <;> omega
      have : 128 * 2 ^ 25 ≤ v / 2 ^ bucketIdx v * 2 ^ bucketIdx v := Nat.mul_le_mul h128 (pow_le_pow h25)
      omega
    omega

end Hist
