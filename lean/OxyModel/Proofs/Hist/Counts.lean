import OxyModel.Proofs.Hist.Index

/-!
# What a histogram holds: `Rep h vs`

`Rep h vs`: the histogram `h` holds exactly the values of the list `vs` (all below 2^32), i.e.
`counts[i]` is the number of `v ∈ vs` with `countsIndexFor v = i` and `totalCount` their number.
`record`, `reset`, `merge` and the two Go loops (the iterator of `Merge`, `getValueFromIdxUpToCount`)
are analysed against it.
-/
namespace Hist

/-- `h` holds exactly the values `vs` -/
def Rep (h : H) (vs : List Nat) : Prop :=
  h.counts.size = countsLen ∧
  (∀ i, h.counts.getD i 0 = vs.countP (fun v => countsIndexFor v = i)) ∧
  h.total = vs.length ∧
  ∀ v ∈ vs, v < 2 ^ 32

theorem getD_modify (a : Array Nat) (j i n : Nat) (hj : j < a.size) :
    (a.modify j (· + n)).getD i 0 = a.getD i 0 + if i = j then n else 0 := by
  simp only [Array.getD_eq_getD_getElem?, Array.getElem?_modify]
  by_cases h : j = i
  · subst h
    simp [hj]
  · have h' : ¬ i = j := fun e => h e.symm
    simp [h, h']

theorem rep_new : Rep H.new [] := by
  refine ⟨Array.size_replicate, fun i => ?_, rfl, by simp⟩
  show (Array.replicate countsLen 0).getD i 0 = _
  rewrite [Array.getD_eq_getD_getElem?, Array.getElem?_replicate]
  by_cases h : i < countsLen
  · rewrite [if_pos h]; simp
  · rewrite [if_neg h]; simp

theorem rep_reset {h : H} {vs : List Nat} (hr : Rep h vs) : Rep h.reset [] := by
  refine ⟨by simp [H.reset, hr.1], fun i => ?_, rfl, by simp⟩
  simp only [H.reset, Array.getD_eq_getD_getElem?, Array.getElem?_map]
  cases h.counts[i]? <;> simp

/-- `RecordValues(v, n)` of a value in range: `n` more copies of `v` -/
theorem rep_recordValues_in {h : H} {vs : List Nat} (hr : Rep h vs) {v : Nat} (hv : v < 2 ^ 32) (n : Nat) :
    Rep (h.recordValues v n) (List.replicate n v ++ vs) := by
  obtain ⟨hsz, hc, ht, hin⟩ := hr
  have hi : countsIndexFor v < countsLen := (inRange_iff v).2 hv
  unfold H.recordValues
  simp only
  rw [if_neg (by omega)]
  refine ⟨by simp [hsz], fun i => ?_, ?_, ?_⟩
  · simp only
    rw [getD_modify _ _ _ _ (by omega), hc i, List.countP_append, List.countP_replicate]
    by_cases he : i = countsIndexFor v
    · rw [he, if_pos rfl]
      simp only [decide_true, if_true]
      omega
    · have : ¬ countsIndexFor v = i := fun e => he e.symm
      rw [if_neg he]
      simp only [this, decide_false]
      simp
  · simp [ht]; omega
  · intro w hw
    rcases List.mem_append.mp hw with h1 | h1
    · rw [(List.mem_replicate.mp h1).2]; exact hv
    · exact hin w h1

/-- a value of 2^32 µs or more is dropped -/
theorem recordValues_out (h : H) {v : Nat} (hv : ¬ v < 2 ^ 32) (n : Nat) : h.recordValues v n = h := by
  have hi : ¬ countsIndexFor v < countsLen := fun c => hv ((inRange_iff v).1 c)
  unfold H.recordValues
  simp only
  rw [if_pos (by omega)]

theorem rep_record {h : H} {vs : List Nat} (hr : Rep h vs) (v : Nat) :
    Rep (h.record v) (if v < 2 ^ 32 then v :: vs else vs) := by
  unfold H.record
  by_cases hv : v < 2 ^ 32
  · rw [if_pos hv]; exact rep_recordValues_in hr hv 1
  · rw [if_neg hv, recordValues_out h hv]; exact hr

/-! ### prefix sums of `counts` -/

/-- `counts[0] + … + counts[n-1]` -/
def psum (a : Array Nat) : Nat → Nat
  | 0 => 0
  | n + 1 => psum a n + a.getD n 0

theorem psum_mono (a : Array Nat) {m n : Nat} (h : m ≤ n) : psum a m ≤ psum a n := by
  induction n with
  | zero => have : m = 0 := by omega
            subst this; exact Nat.le_refl _
  | succ n ih =>
    by_cases he : m = n + 1
    · subst he; exact Nat.le_refl _
    · have := ih (by omega)
      show psum a m ≤ psum a n + a.getD n 0
      omega

theorem psum_zero_of_eq (a : Array Nat) {m n : Nat} (h : psum a n ≤ psum a m) {i : Nat} (h1 : m ≤ i) (h2 : i < n) :
    a.getD i 0 = 0 := by
  have a1 := psum_mono a h1
  have a2 := psum_mono a (show i + 1 ≤ n by omega)
  have : psum a (i + 1) = psum a i + a.getD i 0 := rfl
  omega

theorem countP_index_lt_succ (vs : List Nat) (n : Nat) :
    vs.countP (fun v => countsIndexFor v < n + 1) =
      vs.countP (fun v => countsIndexFor v < n) + vs.countP (fun v => countsIndexFor v = n) := by
  induction vs with
  | nil => rfl
  | cons v vs ih =>
    simp only [List.countP_cons, ih]
    by_cases h1 : countsIndexFor v < n
    · have : countsIndexFor v < n + 1 := by omega
      have h3 : ¬ countsIndexFor v = n := by omega
      simp [h1, this, h3]; omega
    · by_cases h2 : countsIndexFor v = n
      · have : countsIndexFor v < n + 1 := by omega
        simp [h2]; omega
      · have : ¬ countsIndexFor v < n + 1 := by omega
        simp [h1, this, h2]

/-- the prefix sum up to position `n` counts the values below position `n` -/
theorem psum_rep {h : H} {vs : List Nat} (hr : Rep h vs) (n : Nat) :
    psum h.counts n = vs.countP (fun v => countsIndexFor v < n) := by
  induction n with
  | zero => simp [psum]
  | succ n ih => rw [countP_index_lt_succ, ← ih, ← hr.2.1 n]; rfl

theorem total_rep {h : H} {vs : List Nat} (hr : Rep h vs) : h.total = psum h.counts countsLen := by
  rw [psum_rep hr, hr.2.2.1]
  symm
  apply List.countP_eq_length.2
  intro v hv
  simpa using (inRange_iff v).2 (hr.2.2.2 v hv)

/-! ### the iterator walks `counts` linearly -/

/-- the iterator state before it moves to position `n`: `(bucketIdx, subBucketIdx + 1)` -/
def before (n : Nat) : Nat × Nat := if n = 0 then (0, 0) else ((pos (n - 1)).1, (pos (n - 1)).2 + 1)

theorem advance_before (n : Nat) : advance (before n).1 (before n).2 = pos n := by
  unfold before advance pos subBucketCount subBucketHalfCount
  by_cases h0 : n = 0
  · subst h0; simp
  · rw [if_neg h0]
    by_cases h1 : n - 1 < 256
    · rw [if_pos h1]
      simp only
      by_cases h2 : n < 256
      · rw [if_neg (by omega), if_pos h2]
        congr 1; omega
      · rw [if_pos (by omega), if_neg h2]
        congr 1 <;> omega
    · rw [if_neg h1]
      simp only
      have h2 : ¬ n < 256 := by omega
      rw [if_neg h2]
      by_cases h3 : 128 + (n - 1) % 128 + 1 ≥ 256
      · rw [if_pos h3]; congr 1 <;> omega
      · rw [if_neg h3]; congr 1 <;> omega

theorem before_succ (n : Nat) : before (n + 1) = ((pos n).1, (pos n).2 + 1) := by
  unfold before
  simp

theorem index_pos (n : Nat) : bucketBaseIdx (pos n).1 + (pos n).2 - subBucketHalfCount = n := by
  have := countsIndex_eq (pos n).1 (pos n).2
  unfold countsIndex at this
  rw [this]; exact (pos_class n).2.2

theorem pos_bucket_ge (n : Nat) : (pos n).1 ≥ bucketCount ↔ n ≥ countsLen := by
  unfold pos bucketCount countsLen
  by_cases h : n < 256
  · rw [if_pos h]; simp only; omega
  · rw [if_neg h]; simp only; omega

/-- `getValueFromIdxUpToCount` over linear positions -/
def upToLin (counts : Array Nat) (k : Nat) : Nat → Nat → Nat → Nat → Nat
  | 0, _, _, value => value
  | fuel + 1, n, countTo, value =>
    if countTo ≥ k then value
    else upToLin counts k fuel (n + 1) (countTo + counts.getD n 0) (valueAt n)

theorem upToLoop_eq_lin (counts : Array Nat) (k : Nat) (fuel n countTo value : Nat) :
    upToLoop counts k fuel (before n).1 (before n).2 countTo value = upToLin counts k fuel n countTo value := by
  induction fuel generalizing n countTo value with
  | zero => rfl
  | succ fuel ih =>
    unfold upToLoop upToLin
    by_cases hb : countTo ≥ k
    · rw [if_pos hb, if_pos hb]
    · rw [if_neg hb, if_neg hb]
      simp only
      rw [advance_before, index_pos]
      have := ih (n + 1) (countTo + counts.getD n 0) (valueAt n)
      rw [before_succ] at this
      exact this

theorem upToLin_break (counts : Array Nat) (k fuel n countTo value : Nat) (h : countTo ≥ k) :
    upToLin counts k fuel n countTo value = value := by
  cases fuel with
  | zero => rfl
  | succ fuel => unfold upToLin; rw [if_pos h]

/-- the loop stops at the first position `m` whose prefix sum reaches `k` -/
theorem upToLin_spec (counts : Array Nat) (k : Nat) (fuel n value : Nat)
    (h1 : psum counts n < k) (h2 : k ≤ psum counts (n + fuel)) :
    ∃ m, n ≤ m ∧ m < n + fuel ∧ psum counts m < k ∧ k ≤ psum counts (m + 1) ∧
      upToLin counts k fuel n (psum counts n) value = valueAt m := by
  induction fuel generalizing n value with
  | zero => exact absurd h2 (by simpa using h1)
  | succ fuel ih =>
    unfold upToLin
    rw [if_neg (by omega)]
    by_cases h3 : k ≤ psum counts (n + 1)
    · refine ⟨n, Nat.le_refl _, by omega, h1, h3, ?_⟩
      exact upToLin_break _ _ _ _ _ _ h3
    · obtain ⟨m, a1, a2, a3, a4, a5⟩ := ih (n + 1) (valueAt n) (by omega) (by rw [show n + 1 + fuel = n + (fuel + 1) by omega]; exact h2)
      exact ⟨m, by omega, by omega, a3, a4, a5⟩

/-- `getValueFromIdxUpToCount(k)` for `1 ≤ k ≤ totalCount` -/
theorem valueUpToCount_spec {h : H} {vs : List Nat} (hr : Rep h vs) {k : Nat} (h1 : 1 ≤ k) (h2 : k ≤ h.total) :
    ∃ m, m < countsLen ∧ psum h.counts m < k ∧ k ≤ psum h.counts (m + 1) ∧ h.valueUpToCount k = valueAt m := by
  unfold H.valueUpToCount
  have e := upToLoop_eq_lin h.counts k countsLen 0 0 0
  have hb : before 0 = (0, 0) := rfl
  rw [hb] at e
  rw [e]
  rw [total_rep hr] at h2
  obtain ⟨m, _, a2, a3, a4, a5⟩ := upToLin_spec h.counts k countsLen 0 0 (by simp [psum]; omega) (by simpa using h2)
  exact ⟨m, by omega, a3, a4, by simpa [psum] using a5⟩

theorem valueUpToCount_zero (h : H) : h.valueUpToCount 0 = 0 := by
  unfold H.valueUpToCount countsLen upToLoop
  simp

/-! ### `Merge` -/

/-- the loop of `Merge` over linear positions -/
def mergeLin (src : H) : Nat → Nat → Nat → H → H
  | 0, _, _, h => h
  | fuel + 1, n, countTo, h =>
    if countTo ≥ src.total then h
    else if n ≥ countsLen then h
    else
      let c := src.counts.getD n 0
      mergeLin src fuel (n + 1) (countTo + c) (if c ≠ 0 then h.recordValues (valueAt n) c else h)

theorem mergeLoop_eq_lin (src : H) (fuel n countTo : Nat) (h : H) :
    mergeLoop src fuel (before n).1 (before n).2 countTo h = mergeLin src fuel n countTo h := by
  induction fuel generalizing n countTo h with
  | zero => rfl
  | succ fuel ih =>
    unfold mergeLoop mergeLin
    by_cases hb : countTo ≥ src.total
    · rw [if_pos hb, if_pos hb]
    · rw [if_neg hb, if_neg hb]
      simp only
      rw [advance_before]
      by_cases hc : n ≥ countsLen
      · rw [if_pos ((pos_bucket_ge n).2 hc), if_pos hc]
      · rw [if_neg (fun c => hc ((pos_bucket_ge n).1 c)), if_neg hc]
        have e1 : countsIndex (pos n).1 (pos n).2 = n := by rw [countsIndex_eq]; exact (pos_class n).2.2
        rw [e1]
        have := ih (n + 1) (countTo + src.counts.getD n 0)
          (if src.counts.getD n 0 ≠ 0 then h.recordValues (valueAt n) (src.counts.getD n 0) else h)
        rw [before_succ] at this
        exact this

/-- the values of `vs` counted at positions `≥ n` -/
def fromPos (vs : List Nat) (n : Nat) : List Nat := vs.filter (fun v => decide (n ≤ countsIndexFor v))

theorem countP_fromPos (vs : List Nat) (n i : Nat) :
    (fromPos vs n).countP (fun v => countsIndexFor v = i) =
      if n ≤ i then vs.countP (fun v => countsIndexFor v = i) else 0 := by
  unfold fromPos
  rw [List.countP_filter]
  by_cases h : n ≤ i
  · rw [if_pos h]
    apply List.countP_congr
    intro v _
    simp only [decide_eq_true_eq, Bool.and_eq_true]
    constructor
    · exact fun a => a.1
    · exact fun a => ⟨a, by omega⟩
  · rw [if_neg h]
    apply List.countP_eq_zero.2
    intro v _
    simp only [decide_eq_true_eq, Bool.and_eq_true]
    omega

/-- counts-level effect of the merge loop from position `n` on -/
theorem mergeLin_counts (src : H) (ws : List Nat) (hs : Rep src ws) (fuel n : Nat) (h : H)
    (hsz : h.counts.size = countsLen) (hf : countsLen + 1 ≤ n + fuel) :
    (mergeLin src fuel n (psum src.counts n) h).counts.size = countsLen ∧
    (∀ i, (mergeLin src fuel n (psum src.counts n) h).counts.getD i 0 =
      h.counts.getD i 0 + if n ≤ i then src.counts.getD i 0 else 0) ∧
    (mergeLin src fuel n (psum src.counts n) h).total = h.total + (src.total - psum src.counts n) := by
  have hsrcsz := hs.1
  have htot := total_rep hs
  have hbeyond : ∀ i, countsLen ≤ i → src.counts.getD i 0 = 0 := by
    intro i hi
    simp only [Array.getD_eq_getD_getElem?]
    rw [Array.getElem?_eq_none (by omega)]; rfl
  induction fuel generalizing n h with
  | zero =>
    have hn : countsLen ≤ n := by omega
    have hp : psum src.counts countsLen ≤ psum src.counts n := psum_mono _ hn
    refine ⟨hsz, fun i => ?_, ?_⟩
    · show h.counts.getD i 0 = _
      by_cases hi : n ≤ i
      · rw [if_pos hi, hbeyond i (by omega)]; rfl
      · rw [if_neg hi]; rfl
    · show h.total = _
      omega
  | succ fuel ih =>
    unfold mergeLin
    by_cases hb : psum src.counts n ≥ src.total
    · rw [if_pos hb]
      refine ⟨hsz, fun i => ?_, by omega⟩
      by_cases hi : n ≤ i
      · rw [if_pos hi]
        by_cases hi2 : i < countsLen
        · rw [psum_zero_of_eq src.counts (m := n) (n := countsLen) (by omega) hi hi2]; rfl
        · rw [hbeyond i (by omega)]; rfl
      · rw [if_neg hi]; rfl
    · rw [if_neg hb]
      by_cases hc : n ≥ countsLen
      · have hp : psum src.counts countsLen ≤ psum src.counts n := psum_mono _ hc
        omega
      · rw [if_neg hc]
        simp only
        have hstep : psum src.counts n + src.counts.getD n 0 = psum src.counts (n + 1) := rfl
        rw [hstep]
        have hle : psum src.counts (n + 1) ≤ src.total := by rw [htot]; exact psum_mono _ (by omega)
        by_cases hz : src.counts.getD n 0 = 0
        · rw [if_neg (by simpa using hz)]
          obtain ⟨a1, a2, a3⟩ := ih (n + 1) h hsz (by omega)
          refine ⟨a1, fun i => ?_, by omega⟩
          rw [a2 i]
          by_cases hi : n + 1 ≤ i
          · have g1 : n ≤ i := by omega
            rw [if_pos hi, if_pos g1]
          · rw [if_neg hi]
            by_cases hi2 : n ≤ i
            · have g2 : i = n := by omega
              rw [if_pos hi2, g2, hz]
            · rw [if_neg hi2]
        · rw [if_pos (by simpa using hz)]
          have hidx : countsIndexFor (valueAt n) = n := countsIndexFor_valueAt n
          have hrv : (h.recordValues (valueAt n) (src.counts.getD n 0)) =
              { counts := h.counts.modify n (· + src.counts.getD n 0), total := h.total + src.counts.getD n 0 } := by
            unfold H.recordValues
            simp only
            rw [hidx, if_neg (by omega)]
          rw [hrv]
          obtain ⟨a1, a2, a3⟩ := ih (n + 1)
            { counts := h.counts.modify n (· + src.counts.getD n 0), total := h.total + src.counts.getD n 0 }
            (by simp [hsz]) (by omega)
          refine ⟨a1, fun i => ?_, by rw [a3]; simp only; omega⟩
          rw [a2 i]
          simp only
          rw [getD_modify _ _ _ _ (by omega)]
          by_cases hi : n + 1 ≤ i
          · have g1 : n ≤ i := by omega
            have g2 : ¬ i = n := by omega
            rw [if_pos hi, if_pos g1, if_neg g2]; omega
          · rw [if_neg hi]
            by_cases hi2 : n ≤ i
            · have g2 : i = n := by omega
              rw [if_pos hi2, if_pos g2, g2]; omega
            · have g2 : ¬ i = n := by omega
              rw [if_neg hi2, if_neg g2]

/-- **`Merge` adds the counts position by position** (for histograms that hold value lists) -/
theorem merge_counts {h src : H} {vs ws : List Nat} (hh : Rep h vs) (hs : Rep src ws) :
    (h.merge src).counts.size = countsLen ∧
    (∀ i, (h.merge src).counts.getD i 0 = h.counts.getD i 0 + src.counts.getD i 0) ∧
    (h.merge src).total = h.total + src.total := by
  unfold H.merge
  have e := mergeLoop_eq_lin src (countsLen + 1) 0 0 h
  have hb : before 0 = (0, 0) := rfl
  rw [hb] at e
  rw [e]
  obtain ⟨a1, a2, a3⟩ := mergeLin_counts src ws hs (countsLen + 1) 0 h hh.1 (by omega)
  have p0 : psum src.counts 0 = 0 := rfl
  rw [p0] at a1 a2 a3
  refine ⟨a1, fun i => ?_, by rw [a3]; omega⟩
  rw [a2 i, if_pos (Nat.zero_le _)]

theorem rep_merge {h src : H} {vs ws : List Nat} (hh : Rep h vs) (hs : Rep src ws) :
    Rep (h.merge src) (ws ++ vs) := by
  obtain ⟨a1, a2, a3⟩ := merge_counts hh hs
  refine ⟨a1, fun i => ?_, ?_, ?_⟩
  · rw [a2 i, hh.2.1 i, hs.2.1 i, List.countP_append]; omega
  · rw [a3, hh.2.2.1, hs.2.2.1, List.length_append]; omega
  · intro v hv
    rcases List.mem_append.mp hv with h1 | h1
    · exact hs.2.2.2 v h1
    · exact hh.2.2.2 v h1

end Hist
