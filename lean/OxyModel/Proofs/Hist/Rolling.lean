import OxyModel.Proofs.Hist.Counts

/-!
# Which latencies the rolling histogram holds

A *ghost* `Ghost` keeps, for each of the six sub-histograms, the list of the `(time, latency ns)` pairs it
holds — written from the text of `getHist` / `rotate` / `Reset` on plain lists, with no histogram in it —
plus the list of the pairs a rotation has evicted since the last reset.  `Sim r g`: every sub-histogram of the
model `r` holds exactly the microsecond values of its ghost list.  The invariant is proved over every
history of `recordLatency` / `reset`; the timing facts (`GInv`) bound how old an evicted pair must be.
-/
namespace Hist

/-- a history of the rolling histogram: `RecordLatencies(d, 1)` at clock reading `now`, `Reset()` at `now` -/
inductive REv where
  | record (now dNs : Nat)
  | reset (now : Nat)
deriving Repr, DecidableEq

def REv.time : REv → Nat
  | .record t _ => t
  | .reset t => t

/-- the model run over a history -/
def stepR (r : Rolling) : REv → Rolling
  | .record now d => r.recordLatency now d
  | .reset now => r.reset now

def runR (es : List REv) : Rolling := es.foldl stepR Rolling.new

/-- one event on the log of pairs `(time, latency ns)` recorded since the last reset -/
def sinceStep (acc : List (Nat × Nat)) : REv → List (Nat × Nat)
  | .record t d => (t, d) :: acc
  | .reset _ => []

/-- the pairs `(time, latency ns)` recorded since the last reset, newest first -/
def sinceReset (es : List REv) : List (Nat × Nat) := es.foldl sinceStep []

/-- explicit per-bucket lists -/
structure Ghost where
  idx      : Nat
  lastRoll : Nat
  slots    : List (List (Nat × Nat))    -- per sub-histogram: the pairs it holds, newest first
  dropped  : List (Nat × Nat)           -- pairs evicted by a rotation since the last reset
deriving Repr, DecidableEq

def Ghost.new : Ghost := ⟨0, 0, List.replicate histBuckets [], []⟩

/-- one event on the ghost: a record at `now` first rotates iff `now - lastRoll ≥ histPeriod` (once, however
    long the gap): the next slot `(idx + 1) % 6` is emptied — its pairs are evicted — and becomes current; then the
    pair is put into the current slot.  A reset empties everything and makes slot 0 current. -/
def stepG (g : Ghost) : REv → Ghost
  | .record now d =>
    let g1 : Ghost :=
      if now - g.lastRoll ≥ histPeriod then
        let i := (g.idx + 1) % histBuckets
        { idx := i, lastRoll := now, slots := g.slots.modify i (fun _ => []), dropped := g.dropped ++ g.slots.getD i [] }
      else g
    { g1 with slots := g1.slots.modify g1.idx (fun s => (now, d) :: s) }
  | .reset now => { idx := 0, lastRoll := now, slots := g.slots.map (fun _ => []), dropped := [] }

def runG (es : List REv) : Ghost := es.foldl stepG Ghost.new

/-- the microsecond values a list of pairs puts into a histogram: `d / 1µs`, those of 2^32 µs or more are dropped -/
def vals (l : List (Nat × Nat)) : List Nat := (l.map (fun p => p.2 / 1000)).filter (fun v => decide (v < 2 ^ 32))

theorem vals_cons (p : Nat × Nat) (l : List (Nat × Nat)) :
    vals (p :: l) = if p.2 / 1000 < 2 ^ 32 then p.2 / 1000 :: vals l else vals l := by
  unfold vals
  rw [List.map_cons, List.filter_cons]
  by_cases h : p.2 / 1000 < 2 ^ 32 <;> simp [h]

/-! ### model and ghost move together -/

/-- two lists related element by element -/
inductive All₂ {α β : Type} (R : α → β → Prop) : List α → List β → Prop
  | nil : All₂ R [] []
  | cons {a : α} {b : β} {l1 : List α} {l2 : List β} : R a b → All₂ R l1 l2 → All₂ R (a :: l1) (b :: l2)

theorem forall₂_modify {α β : Type} {R : α → β → Prop} {l1 : List α} {l2 : List β} (h : All₂ R l1 l2)
    (i : Nat) (f : α → α) (g : β → β) (hfg : ∀ a b, R a b → R (f a) (g b)) :
    All₂ R (l1.modify i f) (l2.modify i g) := by
  induction h generalizing i with
  | nil => simp only [List.modify_nil]; exact All₂.nil
  | cons hab hrest ih =>
    cases i with
    | zero => simp only [List.modify_zero_cons]; exact All₂.cons (hfg _ _ hab) hrest
    | succ i => simp only [List.modify_succ_cons]; exact All₂.cons hab (ih i)

theorem forall₂_map {α β : Type} {R : α → β → Prop} {l1 : List α} {l2 : List β} (h : All₂ R l1 l2)
    (f : α → α) (g : β → β) (hfg : ∀ a b, R a b → R (f a) (g b)) :
    All₂ R (l1.map f) (l2.map g) := by
  induction h with
  | nil => exact All₂.nil
  | cons hab _ ih => simp only [List.map_cons]; exact All₂.cons (hfg _ _ hab) ih

theorem forall₂_replicate {α β : Type} {R : α → β → Prop} {a : α} {b : β} (h : R a b) (n : Nat) :
    All₂ R (List.replicate n a) (List.replicate n b) := by
  induction n with
  | zero => exact All₂.nil
  | succ n ih => simp only [List.replicate_succ]; exact All₂.cons h ih

/-- `Sim r g`: same position and roll time, six sub-histograms, each holding the values of its ghost list -/
def Sim (r : Rolling) (g : Ghost) : Prop :=
  r.idx = g.idx ∧ r.lastRoll = g.lastRoll ∧ r.period = histPeriod ∧ r.buckets.length = histBuckets ∧
  All₂ (fun h s => Rep h (vals s)) r.buckets g.slots

theorem sim_new : Sim Rolling.new Ghost.new :=
  ⟨rfl, rfl, rfl, by simp [Rolling.new], forall₂_replicate (R := fun h s => Rep h (vals s)) (show Rep H.new (vals []) from rep_new) _⟩

theorem sim_step {r : Rolling} {g : Ghost} (h : Sim r g) (e : REv) : Sim (stepR r e) (stepG g e) := by
  obtain ⟨h1, h2, h3, h4, h5⟩ := h
  cases e with
  | reset now =>
    refine ⟨rfl, rfl, h3, by simp [stepR, Rolling.reset, h4], ?_⟩
    exact forall₂_map h5 H.reset (fun _ => []) (fun a b hab => show Rep a.reset (vals []) from rep_reset hab)
  | record now d =>
    have hrec : ∀ (a : H) (b : List (Nat × Nat)), Rep a (vals b) →
        Rep (a.recordValues (d / 1000) 1) (vals ((now, d) :: b)) := by
      intro a b hab
      have := rep_record hab (d / 1000)
      rw [vals_cons]
      exact this
    unfold stepR Rolling.recordLatency Rolling.getHist stepG
    simp only
    rw [h2, h3]
    by_cases hrot : now - g.lastRoll ≥ histPeriod
    · rw [if_pos hrot, if_pos hrot]
      unfold Rolling.rotate
      simp only
      rw [h1, h4]
      refine ⟨rfl, rfl, h3, by simp [h4], ?_⟩
      apply forall₂_modify _ _ _ _ hrec
      exact forall₂_modify h5 _ H.reset (fun _ => []) (fun a b hab => show Rep a.reset (vals []) from rep_reset hab)
    · rw [if_neg hrot, if_neg hrot]
      refine ⟨h1, h2, h3, by simp [h4], ?_⟩
      rw [h1]
      exact forall₂_modify h5 _ _ _ hrec

theorem sim_run (es : List REv) : Sim (runR es) (runG es) := by
  unfold runR runG
  have : ∀ (es : List REv) (r : Rolling) (g : Ghost), Sim r g → Sim (es.foldl stepR r) (es.foldl stepG g) := by
    intro es
    induction es with
    | nil => intro r g h; exact h
    | cons e es ih => intro r g h; exact ih _ _ (sim_step h e)
  exact this es _ _ sim_new

/-! ### `Merged` -/

theorem rep_foldl_merge {bs : List H} {ss : List (List (Nat × Nat))}
    (h : All₂ (fun h s => Rep h (vals s)) bs ss) {acc : H} {vs : List Nat} (ha : Rep acc vs) :
    Rep (bs.foldl H.merge acc) (ss.foldl (fun a s => vals s ++ a) vs) := by
  induction h generalizing acc vs with
  | nil => exact ha
  | cons hab _ ih => exact ih (rep_merge ha hab)

theorem countP_foldl_vals (p : Nat → Bool) (ss : List (List (Nat × Nat))) (vs : List Nat) :
    (ss.foldl (fun a s => vals s ++ a) vs).countP p = vs.countP p + (vals ss.flatten).countP p := by
  induction ss generalizing vs with
  | nil => simp [vals]
  | cons s ss ih =>
    rw [List.foldl_cons, ih, List.countP_append, List.flatten_cons]
    have : vals (s ++ ss.flatten) = vals s ++ vals ss.flatten := by simp [vals]
    rw [this, List.countP_append]; omega

theorem length_foldl_vals (ss : List (List (Nat × Nat))) (vs : List Nat) :
    (ss.foldl (fun a s => vals s ++ a) vs).length = vs.length + (vals ss.flatten).length := by
  have := countP_foldl_vals (fun _ => true) ss vs
  simpa using this

/-- the merged histogram holds exactly the values of all ghost slots -/
theorem merged_counts {r : Rolling} {g : Ghost} (h : Sim r g) :
    r.merged.counts.size = countsLen ∧
    (∀ i, r.merged.counts.getD i 0 = (vals g.slots.flatten).countP (fun v => countsIndexFor v = i)) ∧
    r.merged.total = (vals g.slots.flatten).length ∧
    ∃ L, Rep r.merged L ∧ ∀ p : Nat → Bool, L.countP p = (vals g.slots.flatten).countP p := by
  have hr : Rep r.merged _ := rep_foldl_merge h.2.2.2.2 rep_new
  refine ⟨hr.1, fun i => ?_, ?_, ⟨_, hr, fun p => ?_⟩⟩
  · have := hr.2.1 i
    rw [countP_foldl_vals] at this
    simpa using this
  · have := hr.2.2.1
    rw [length_foldl_vals] at this
    simpa using this
  · rw [countP_foldl_vals]; simp

/-! ### the ghost: partition and timing -/

theorem perm_flatten_modify_cons {α : Type} (x : α) (l : List (List α)) (i : Nat) (hi : i < l.length) :
    ((l.modify i (fun s => x :: s)).flatten).Perm (x :: l.flatten) := by
  induction l generalizing i with
  | nil => simp at hi
  | cons s l ih =>
    cases i with
    | zero => simp
    | succ i =>
      simp only [List.modify_succ_cons, List.flatten_cons]
      have := ih i (by simpa using hi)
      exact (List.Perm.append_left s this).trans List.perm_middle

theorem perm_flatten_modify_nil {α : Type} (l : List (List α)) (i : Nat) :
    ((l.modify i (fun _ => [])).flatten ++ l.getD i []).Perm l.flatten := by
  induction l generalizing i with
  | nil => simp
  | cons s l ih =>
    cases i with
    | zero =>
      simp only [List.modify_zero_cons, List.flatten_cons, List.nil_append, List.getD_cons_zero]
      exact List.perm_append_comm
    | succ i =>
      simp only [List.modify_succ_cons, List.flatten_cons, List.getD_cons_succ, List.append_assoc]
      exact List.Perm.append_left s (ih i)

/-- age of slot `j`: the number of rotations since it was current -/
def age (idx j : Nat) : Nat := (idx + histBuckets - j) % histBuckets

/-- the ghost invariant: six slots; a pair in a slot of age `a` satisfies `t + a·period < lastRoll + period`;
    an evicted pair satisfies `t + 5·period < lastRoll` -/
def GInv (g : Ghost) : Prop :=
  g.idx < histBuckets ∧ g.slots.length = histBuckets ∧
  (∀ j, j < histBuckets → ∀ p ∈ g.slots.getD j [], p.1 + age g.idx j * histPeriod < g.lastRoll + histPeriod) ∧
  (∀ p ∈ g.dropped, p.1 + 5 * histPeriod < g.lastRoll)

theorem getD_modify_list {α : Type} (l : List α) (i j : Nat) (f : α → α) (d : α) (hi : i < l.length) :
    (l.modify i f).getD j d = if i = j then f (l.getD j d) else l.getD j d := by
  simp only [List.getD_eq_getElem?_getD, List.getElem?_modify]
  by_cases h : i = j
  · subst h
    rw [if_pos rfl, List.getElem?_eq_getElem hi]
    simp
  · rw [if_neg h]
    cases l[j]? <;> simp [h]

theorem ginv_new : GInv Ghost.new := by
  refine ⟨by decide, by simp [Ghost.new], ?_, by simp [Ghost.new]⟩
  intro j hj p hp
  have : (List.replicate histBuckets ([] : List (Nat × Nat))).getD j [] = [] := by
    simp [List.getD_eq_getElem?_getD, hj]
  have hp' : p ∈ (List.replicate histBuckets ([] : List (Nat × Nat))).getD j [] := hp
  rw [this] at hp'
  exact absurd hp' List.not_mem_nil

theorem ginv_step {g : Ghost} (h : GInv g) (e : REv) : GInv (stepG g e) := by
  obtain ⟨h1, h2, h3, h4⟩ := h
  have hP : 0 < histPeriod := by decide
  cases e with
  | reset now =>
    refine ⟨by show 0 < histBuckets; decide, by simp [stepG, h2], ?_, by simp [stepG]⟩
    intro j hj p hp
    have : (g.slots.map (fun _ => ([] : List (Nat × Nat)))).getD j [] = [] := by
      simp only [List.getD_eq_getElem?_getD, List.getElem?_map]
      cases g.slots[j]? <;> rfl
    have hp' : p ∈ (g.slots.map (fun _ => ([] : List (Nat × Nat)))).getD j [] := hp
    rw [this] at hp'
    exact absurd hp' List.not_mem_nil
  | record now d =>
    unfold stepG
    simp only
    by_cases hrot : now - g.lastRoll ≥ histPeriod
    · rw [if_pos hrot]
      simp only
      have hi : (g.idx + 1) % histBuckets < histBuckets := Nat.mod_lt _ (by decide)
      refine ⟨hi, by simp [h2], ?_, ?_⟩
      · intro j hj p hp
        dsimp only at hp ⊢
        rw [getD_modify_list _ _ _ _ _ (by simp [h2]; exact hi)] at hp
        rw [getD_modify_list _ _ _ _ _ (by rw [h2]; exact hi)] at hp
        by_cases hj2 : (g.idx + 1) % histBuckets = j
        · rw [if_pos hj2, if_pos hj2] at hp
          have : p = (now, d) := by simpa using hp
          subst this
          have : age ((g.idx + 1) % histBuckets) j = 0 := by
            unfold age histBuckets at *; omega
          rw [this]; simp only; omega
        · rw [if_neg hj2, if_neg hj2] at hp
          have := h3 j hj p hp
          have ha : age ((g.idx + 1) % histBuckets) j = age g.idx j + 1 := by
            unfold age histBuckets at *; omega
          rw [ha, Nat.add_mul, Nat.one_mul]
          omega
      · intro p hp
        dsimp only at hp ⊢
        rcases List.mem_append.mp hp with hp | hp
        · have := h4 p hp; omega
        · have := h3 _ hi p hp
          have ha : age g.idx ((g.idx + 1) % histBuckets) = 5 := by
            unfold age histBuckets at *; omega
          rw [ha] at this
          omega
    · rw [if_neg hrot]
      refine ⟨h1, by simp [h2], ?_, h4⟩
      intro j hj p hp
      rw [getD_modify_list _ _ _ _ _ (by rw [h2]; exact h1)] at hp
      by_cases hj2 : g.idx = j
      · rw [if_pos hj2] at hp
        rcases List.mem_cons.mp hp with hp | hp
        · subst hp
          have : age g.idx j = 0 := by unfold age histBuckets at *; omega
          rw [this]; simp only; omega
        · exact h3 j hj p hp
      · rw [if_neg hj2] at hp
        exact h3 j hj p hp

theorem foldl_inv {σ ε : Type} (P : σ → Prop) (f : σ → ε → σ) (hstep : ∀ s e, P s → P (f s e)) :
    ∀ (es : List ε) (s : σ), P s → P (es.foldl f s) := by
  intro es
  induction es with
  | nil => intro s h; exact h
  | cons e es ih => intro s h; exact ih _ (hstep s e h)

theorem ginv_run (es : List REv) : GInv (runG es) :=
  foldl_inv GInv stepG (fun _ e h => ginv_step h e) es _ ginv_new

/-- partition: what was recorded since the last reset is what the slots hold plus what rotations evicted -/
theorem partition_step {g : Ghost} {acc : List (Nat × Nat)} (hg : GInv g)
    (h : acc.Perm (g.slots.flatten ++ g.dropped)) (e : REv) :
    (sinceStep acc e).Perm ((stepG g e).slots.flatten ++ (stepG g e).dropped) := by
  obtain ⟨h1, h2, _, _⟩ := hg
  cases e with
  | reset now =>
    have : (g.slots.map (fun _ => ([] : List (Nat × Nat)))).flatten = [] := by
      simp [List.flatten_eq_nil_iff]
    simp [sinceStep, stepG, this]
  | record now d =>
    unfold stepG sinceStep
    simp only
    by_cases hrot : now - g.lastRoll ≥ histPeriod
    · rw [if_pos hrot]
      simp only
      have hi : (g.idx + 1) % histBuckets < histBuckets := Nat.mod_lt _ (by decide)
      have p1 := perm_flatten_modify_cons (now, d) (g.slots.modify ((g.idx + 1) % histBuckets) (fun _ => []))
        ((g.idx + 1) % histBuckets) (by simp [h2]; exact hi)
      have p2 := perm_flatten_modify_nil g.slots ((g.idx + 1) % histBuckets)
      -- new :: (flatten slots ++ dropped)
      refine (List.Perm.cons _ h).trans ?_
      refine List.Perm.symm ?_
      refine (List.Perm.append_right _ p1).trans ?_
      simp only [List.cons_append]
      refine List.Perm.cons _ ?_
      refine (List.Perm.append_left _ List.perm_append_comm).trans ?_
      rw [← List.append_assoc]
      exact List.Perm.append_right _ p2
    · rw [if_neg hrot]
      have p1 := perm_flatten_modify_cons (now, d) g.slots g.idx (by rw [h2]; exact h1)
      refine (List.Perm.cons _ h).trans ?_
      exact ((List.Perm.append_right _ p1).trans (by simp)).symm

theorem partition_run (es : List REv) :
    (sinceReset es).Perm ((runG es).slots.flatten ++ (runG es).dropped) := by
  unfold sinceReset runG
  have : ∀ (es : List REv) (g : Ghost) (acc : List (Nat × Nat)), GInv g → acc.Perm (g.slots.flatten ++ g.dropped) →
      (es.foldl sinceStep acc).Perm ((es.foldl stepG g).slots.flatten ++ (es.foldl stepG g).dropped) := by
    intro es
    induction es with
    | nil => intro g acc _ h; exact h
    | cons e es ih => intro g acc hg h; exact ih _ _ (ginv_step hg e) (partition_step hg h e)
  refine this es _ _ ginv_new ?_
  simp [Ghost.new]

/-- `lastRoll` is 0 or the clock reading of some event -/
theorem lastRoll_le (es : List REv) (now : Nat) (h : ∀ e ∈ es, e.time ≤ now) : (runG es).lastRoll ≤ now := by
  unfold runG
  have : ∀ (es : List REv) (g : Ghost), g.lastRoll ≤ now → (∀ e ∈ es, e.time ≤ now) → (es.foldl stepG g).lastRoll ≤ now := by
    intro es
    induction es with
    | nil => intro g h _; exact h
    | cons e es ih =>
      intro g hg he
      apply ih _ _ (fun e' he' => he e' (List.mem_cons_of_mem _ he'))
      have het := he e List.mem_cons_self
      cases e with
      | reset t => exact het
      | record t d =>
        unfold stepG
        simp only
        by_cases hrot : t - g.lastRoll ≥ histPeriod
        · rw [if_pos hrot]; exact het
        · rw [if_neg hrot]; exact hg
  exact this es _ (Nat.zero_le _) h

end Hist
