import OxyModel.Proofs.Counter.History

/-! C17: a live counter and a `Clone()` of it, driven by an arbitrarily interleaved history. -/
namespace RCnt

/-- what the live counter itself went through: its own events, and a read for every `Clone()`
    (`Clone` starts with `cleanup`); events on the snapshot are dropped -/
def liveHist : List (Nat × DEv) → List (Nat × Ev)
  | [] => []
  | (t, .live e) :: h => (t, e) :: liveHist h
  | (t, .clone) :: h => (t, .read) :: liveHist h
  | (_, .snap _) :: h => liveHist h

theorem foldl_live (c : Cfg) : ∀ (h : List (Nat × DEv)) (d : Duo),
    (h.foldl (fun d e => d.step c e.1 e.2) d).live
      = (liveHist h).foldl (fun s e => step c s e.1 e.2) d.live := by
  intro h
  induction h with
  | nil => intro d; rfl
  | cons e h ih =>
    intro d
    obtain ⟨t, ev⟩ := e
    cases ev with
    | live e => rw [List.foldl_cons, ih]; rfl
    | clone => rw [List.foldl_cons, ih]; rfl
    | snap e => rw [List.foldl_cons, ih]; rfl

/-- the live counter after the interleaved history is the counter after its own history alone -/
theorem run_live (c : Cfg) (h : List (Nat × DEv)) : (Duo.run c h).live = run c (liveHist h) :=
  foldl_live c h (Duo.init c)

theorem liveHist_sublist : ∀ h : List (Nat × DEv), ((liveHist h).map Prod.fst).Sublist (h.map Prod.fst) := by
  intro h
  induction h with
  | nil => exact List.Sublist.slnil
  | cons e h ih =>
    obtain ⟨t, ev⟩ := e
    cases ev with
    | live e => exact List.Sublist.cons_cons _ ih
    | clone => exact List.Sublist.cons_cons _ ih
    | snap e => exact List.Sublist.cons _ ih

/-! ghost logs: (increments of the live counter since its last reset, increments the snapshot holds:
the live log at `Clone()` time plus its own since) -/

def stepLogs (l : Log × Log) (t : Nat) : DEv → Log × Log
  | .live e => (stepLog l.1 t e, l.2)
  | .clone => (l.1, l.1)
  | .snap e => (l.1, stepLog l.2 t e)

/-- the increments a snapshot holds: those of the live counter (since its last reset) up to the
    latest `Clone()`, then the snapshot's own (since its own last reset) -/
def snapIncs (h : List (Nat × DEv)) : Log := (h.foldl (fun l e => stepLogs l e.1 e.2) ([], [])).2

def DInv (c : Cfg) (off : Nat) (d : Duo) (lo : Nat) (l : Log × Log) : Prop :=
  (∃ ta, ta ≤ lo ∧ Inv c off d.live ta l.1) ∧ ∀ s, d.snap = some s → ∃ tb, tb ≤ lo ∧ Inv c off s tb l.2

theorem dstep_inv {c : Cfg} {off : Nat} (g : Good c off) {d : Duo} {lo : Nat} {l : Log × Log}
    (h : DInv c off d lo l) {t : Nat} (ht : lo ≤ t) (hoff : off ≤ c.slot t) (ev : DEv) :
    DInv c off (d.step c t ev) t (stepLogs l t ev) := by
  obtain ⟨⟨ta, h1, ha⟩, hs⟩ := h
  cases ev with
  | live e =>
    refine ⟨⟨t, Nat.le_refl _, step_inv g ha (by omega) hoff e⟩, fun s hs' => ?_⟩
    obtain ⟨tb, h2, hb⟩ := hs s hs'
    exact ⟨tb, by omega, hb⟩
  | clone =>
    have hc : Inv c off (cleanup c d.live t) t l.1 := cleanup_inv g ha (by omega)
    refine ⟨⟨t, Nat.le_refl _, hc⟩, fun s hs' => ?_⟩
    have : s = ⟨(cleanup c d.live t).vals, 0, (cleanup c d.live t).lastBucket, (cleanup c d.live t).lu⟩ :=
      (Option.some.inj hs').symm
    subst this
    exact ⟨t, Nat.le_refl _, hc⟩
  | snap e =>
    refine ⟨⟨ta, by omega, ha⟩, fun s hs' => ?_⟩
    cases hd : d.snap with
    | none => simp [Duo.step, hd] at hs'
    | some s0 =>
      obtain ⟨tb, h2, hb⟩ := hs s0 hd
      have : s = step c s0 t e := by
        simp [Duo.step, hd] at hs'; exact hs'.symm
      subst this
      exact ⟨t, Nat.le_refl _, step_inv g hb (by omega) hoff e⟩

theorem dfoldl_inv {c : Cfg} {off : Nat} (g : Good c off) (now : Nat) : ∀ (h : List (Nat × DEv))
    (d : Duo) (lo : Nat) (l : Log × Log), DInv c off d lo l →
    List.Pairwise (· ≤ ·) (lo :: h.map Prod.fst) →
    (∀ e ∈ h, off ≤ c.slot e.1) → lo ≤ now → (∀ e ∈ h, e.1 ≤ now) →
    ∃ lo', lo' ≤ now ∧ DInv c off (h.foldl (fun d e => d.step c e.1 e.2) d) lo'
      (h.foldl (fun l e => stepLogs l e.1 e.2) l) := by
  intro h
  induction h with
  | nil => intro d lo l hi _ _ hn _; exact ⟨lo, hn, hi⟩
  | cons e h ih =>
    intro d lo l hi hp ho hn hb
    rw [List.foldl_cons, List.foldl_cons]
    rw [List.map_cons, List.pairwise_cons] at hp
    have hte : lo ≤ e.1 := hp.1 _ List.mem_cons_self
    exact ih _ e.1 _ (dstep_inv g hi hte (ho e List.mem_cons_self) e.2) hp.2
      (fun x hx => ho x (List.mem_cons_of_mem _ hx)) (hb e List.mem_cons_self)
      (fun x hx => hb x (List.mem_cons_of_mem _ hx))

/-- **snapshot, every interleaving**: a read of the snapshot returns the increments it holds whose
    slot is among the last `n` slots — whatever happened to the live counter after `Clone()` -/
theorem snap_run_exact (c : Cfg) (hn : 0 < c.n) (hr : 0 < c.r) (h : List (Nat × DEv)) (now : Nat)
    (hs : List.Pairwise (· ≤ ·) (h.map Prod.fst)) (hb : ∀ e ∈ h, e.1 ≤ now)
    (h70 : ∀ e ∈ h, unixEpochNs + c.n * c.r ≤ e.1) (h70' : unixEpochNs + c.n * c.r ≤ now)
    (s : St) (hsnap : (Duo.run c h).snap = some s) :
    (count c s now).2 = sumIf (fun u => now / c.r < u / c.r + c.n) (snapIncs h) := by
  have g := good_off c hn hr
  obtain ⟨lo, hlo, _, hS⟩ := dfoldl_inv g now h (Duo.init c) 0 ([], [])
    ⟨⟨0, Nat.le_refl _, inv_init c _⟩, fun s hs' => by simp [Duo.init] at hs'⟩
    (List.pairwise_cons.mpr ⟨fun _ _ => Nat.zero_le _, hs⟩)
    (fun e he => by have := off_add_le_slot c hn hr (h70 e he); omega) (Nat.zero_le _) hb
  obtain ⟨tb, h2, hi⟩ := hS s hsnap
  have hi : Inv c c.off s tb (snapIncs h) := hi
  rw [count_exact g hi (by omega : tb ≤ now) (off_add_le_slot c hn hr h70')]
  exact windowSum_eq_sumIf c _ now (fun e he => by have := hi.2.2.1 e he; have := hi.2.1; omega)

end RCnt
