import OxyModel.Model.Counter
import Mathlib.Tactic.Linarith
import Mathlib.Tactic.Ring
import Mathlib.Algebra.BigOperators.Fin

/-! Helper lemmas for C17: list/`Finset` sums, the ghost log of increments, per-slot sums. -/
namespace RCnt
open Finset

/-- the slot (number of whole resolutions since Go's zero Time) a clock reading falls into -/
def Cfg.slot (c : Cfg) (t : Nat) : Nat := t / c.r

/-- slot ↦ bucket index, i.e. `getBucket` on a truncated time -/
def Cfg.bmap (c : Cfg) (k : Nat) : Nat := ((k * c.r - unixEpochNs) / c.r) % c.n

theorem getBucket_eq (c : Cfg) (t : Nat) : getBucket c t = c.bmap (c.slot t) := rfl

/-! ### list helpers -/

theorem getD_set_zero (l : List Int) (a b : Nat) :
    (l.set a 0).getD b 0 = if a = b then 0 else l.getD b 0 := by
  simp only [List.getD_eq_getElem?_getD, List.getElem?_set]
  by_cases h : a = b
  · simp only [h, if_true]; split <;> rfl
  · simp only [h, if_false]

theorem getD_set_other (l : List Int) (a b : Nat) (x : Int) (h : a ≠ b) :
    (l.set a x).getD b 0 = l.getD b 0 := by
  simp only [List.getD_eq_getElem?_getD, List.getElem?_set, h, if_false]

theorem getD_set_self (l : List Int) (a : Nat) (x : Int) (h : a < l.length) :
    (l.set a x).getD a 0 = x := by
  simp only [List.getD_eq_getElem?_getD, List.getElem?_set, if_true, h]; rfl

theorem sum_eq_sum_range (l : List Int) : l.sum = ∑ b ∈ range l.length, l.getD b 0 := by
  have h1 : l.sum = (List.ofFn (fun i : Fin l.length => l.get i)).sum := by rw [List.ofFn_get]
  rw [h1, List.sum_ofFn, ← Fin.sum_univ_eq_sum_range (fun b => l.getD b 0) l.length]
  apply Finset.sum_congr rfl
  intro i _
  simp [List.getD_eq_getElem?_getD]

/-- summing a function over a rotated index range -/
theorem sum_rot (f : Nat → Int) (n : Nat) (_hn : 0 < n) (a : Nat) :
    ∑ j ∈ range n, f ((a + j) % n) = ∑ b ∈ range n, f b := by
  induction a with
  | zero =>
    apply Finset.sum_congr rfl
    intro j hj
    rw [Nat.zero_add, Nat.mod_eq_of_lt (Finset.mem_range.mp hj)]
  | succ a ih =>
    rw [← ih]
    have h1 := Finset.sum_range_succ (fun j => f ((a + j) % n)) n
    have h2 := Finset.sum_range_succ' (fun j => f ((a + j) % n)) n
    have e : f ((a + n) % n) = f ((a + 0) % n) := by rw [Nat.add_mod_right, Nat.add_zero]
    have h3 : ∑ k ∈ range n, f ((a + (k + 1)) % n) = ∑ j ∈ range n, f ((a + j) % n) := by
      rw [h1] at h2; rw [e] at h2; linarith
    rw [← h3]
    apply Finset.sum_congr rfl
    intro j _
    rw [show a + 1 + j = a + (j + 1) by omega]

/-! ### the ghost log of increments -/

abbrev Log := List (Nat × Int)

/-- sum of the increments recorded in slot `s` -/
def sig (c : Cfg) (log : Log) (s : Nat) : Int :=
  (log.map (fun p => if c.slot p.1 = s then p.2 else 0)).sum

/-- sum of the increments whose slot lies in the last `n` slots at time `now` -/
def windowSum (c : Cfg) (log : Log) (now : Nat) : Int :=
  (log.map (fun p => if c.slot now < c.slot p.1 + c.n ∧ c.slot p.1 ≤ c.slot now then p.2 else 0)).sum

theorem sig_cons (c : Cfg) (p : Nat × Int) (log : Log) (s : Nat) :
    sig c (p :: log) s = (if c.slot p.1 = s then p.2 else 0) + sig c log s := by
  simp [sig]

theorem sum_indicator (x s0 n : Nat) (v : Int) :
    ∑ j ∈ range n, (if x = s0 + j then v else 0) = if s0 ≤ x ∧ x < s0 + n then v else 0 := by
  induction n with
  | zero => simp
  | succ n ih =>
    rw [Finset.sum_range_succ, ih]
    by_cases h1 : s0 ≤ x ∧ x < s0 + n
    · have : ¬ (x = s0 + n) := by omega
      have h2 : s0 ≤ x ∧ x < s0 + (n + 1) := by omega
      simp [h1, this, h2]
    · by_cases h3 : x = s0 + n
      · have h2 : s0 ≤ x ∧ x < s0 + (n + 1) := by omega
        simp [h3]
      · have h2 : ¬ (s0 ≤ x ∧ x < s0 + (n + 1)) := by omega
        simp [h1, h3, h2]

theorem sum_sig_window (c : Cfg) (log : Log) (s0 : Nat) :
    ∑ j ∈ range c.n, sig c log (s0 + j)
      = (log.map (fun p => if s0 ≤ c.slot p.1 ∧ c.slot p.1 < s0 + c.n then p.2 else 0)).sum := by
  induction log with
  | nil => simp [sig]
  | cons p log ih =>
    simp only [sig_cons, Finset.sum_add_distrib, ih, List.map_cons, List.sum_cons]
    congr 1
    exact sum_indicator (c.slot p.1) s0 c.n p.2

end RCnt
