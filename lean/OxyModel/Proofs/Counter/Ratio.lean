import OxyModel.Proofs.Counter.History

/-! C17: the two counters of a `RatioCounter` keep the invariant along every history. -/
namespace RCnt

def stepLogA (log : Log) (t : Nat) : REv → Log
  | .incA v => (t, v) :: log
  | .incB _ => log
  | .read => log
  | .reset => []

def stepLogB (log : Log) (t : Nat) : REv → Log
  | .incA _ => log
  | .incB v => (t, v) :: log
  | .read => log
  | .reset => []

/-- the `IncA` increments since the last `Reset` -/
def incsA (h : List (Nat × REv)) : Log := h.foldl (fun l e => stepLogA l e.1 e.2) []
/-- the `IncB` increments since the last `Reset` -/
def incsB (h : List (Nat × REv)) : Log := h.foldl (fun l e => stepLogB l e.1 e.2) []

theorem mem_foldl_stepLogA (h : List (Nat × REv)) : ∀ (l : Log) (p : Nat × Int),
    p ∈ h.foldl (fun l e => stepLogA l e.1 e.2) l → p ∈ l ∨ (p.1, REv.incA p.2) ∈ h := by
  induction h with
  | nil => intro l p hp; exact Or.inl hp
  | cons e h ih =>
    intro l p hp
    rw [List.foldl_cons] at hp
    rcases ih _ p hp with h1 | h1
    · obtain ⟨t, ev⟩ := e
      cases ev with
      | incA v =>
        rcases List.mem_cons.mp h1 with rfl | h2
        · exact Or.inr List.mem_cons_self
        · exact Or.inl h2
      | incB v => exact Or.inl h1
      | read => exact Or.inl h1
      | reset => cases h1
    · exact Or.inr (List.mem_cons_of_mem _ h1)

theorem mem_foldl_stepLogB (h : List (Nat × REv)) : ∀ (l : Log) (p : Nat × Int),
    p ∈ h.foldl (fun l e => stepLogB l e.1 e.2) l → p ∈ l ∨ (p.1, REv.incB p.2) ∈ h := by
  induction h with
  | nil => intro l p hp; exact Or.inl hp
  | cons e h ih =>
    intro l p hp
    rw [List.foldl_cons] at hp
    rcases ih _ p hp with h1 | h1
    · obtain ⟨t, ev⟩ := e
      cases ev with
      | incB v =>
        rcases List.mem_cons.mp h1 with rfl | h2
        · exact Or.inr List.mem_cons_self
        · exact Or.inl h2
      | incA v => exact Or.inl h1
      | read => exact Or.inl h1
      | reset => cases h1
    · exact Or.inr (List.mem_cons_of_mem _ h1)

theorem mem_incsA {h : List (Nat × REv)} {p : Nat × Int} (hp : p ∈ incsA h) :
    (p.1, REv.incA p.2) ∈ h := by
  rcases mem_foldl_stepLogA h [] p hp with h1 | h1
  · cases h1
  · exact h1

theorem mem_incsB {h : List (Nat × REv)} {p : Nat × Int} (hp : p ∈ incsB h) :
    (p.1, REv.incB p.2) ∈ h := by
  rcases mem_foldl_stepLogB h [] p hp with h1 | h1
  · cases h1
  · exact h1

/-- both counters satisfy the invariant, each at its own last-touched time `≤ lo` -/
def RInv (c : Cfg) (off : Nat) (s : Ratio) (lo : Nat) (la lb : Log) : Prop :=
  ∃ ta tb, ta ≤ lo ∧ tb ≤ lo ∧ Inv c off s.a ta la ∧ Inv c off s.b tb lb

theorem rstep_inv {c : Cfg} {off : Nat} (g : Good c off) {s : Ratio} {lo : Nat} {la lb : Log}
    (h : RInv c off s lo la lb) {t : Nat} (ht : lo ≤ t) (hoff : off ≤ c.slot t) (ev : REv) :
    RInv c off (s.step c t ev) t (stepLogA la t ev) (stepLogB lb t ev) := by
  obtain ⟨ta, tb, h1, h2, ha, hb⟩ := h
  cases ev with
  | incA v => exact ⟨t, tb, Nat.le_refl _, by omega, inc_inv g ha (by omega) hoff v, hb⟩
  | incB v => exact ⟨ta, t, by omega, Nat.le_refl _, ha, inc_inv g hb (by omega) hoff v⟩
  | read =>
    exact ⟨t, t, Nat.le_refl _, Nat.le_refl _, cleanup_inv g ha (by omega), cleanup_inv g hb (by omega)⟩
  | reset =>
    exact ⟨t, t, Nat.le_refl _, Nat.le_refl _, reset_inv c off s.a ha.1 t, reset_inv c off s.b hb.1 t⟩

theorem rfoldl_inv {c : Cfg} {off : Nat} (g : Good c off) (now : Nat) : ∀ (h : List (Nat × REv))
    (s : Ratio) (lo : Nat) (la lb : Log), RInv c off s lo la lb →
    List.Pairwise (· ≤ ·) (lo :: h.map Prod.fst) →
    (∀ e ∈ h, off ≤ c.slot e.1) → lo ≤ now → (∀ e ∈ h, e.1 ≤ now) →
    ∃ lo', lo' ≤ now ∧ RInv c off (h.foldl (fun s e => s.step c e.1 e.2) s) lo'
      (h.foldl (fun l e => stepLogA l e.1 e.2) la) (h.foldl (fun l e => stepLogB l e.1 e.2) lb) := by
  intro h
  induction h with
  | nil => intro s lo la lb hi _ _ hn _; exact ⟨lo, hn, hi⟩
  | cons e h ih =>
    intro s lo la lb hi hp ho hn hb
    rw [List.foldl_cons, List.foldl_cons, List.foldl_cons]
    rw [List.map_cons, List.pairwise_cons] at hp
    have hte : lo ≤ e.1 := hp.1 _ List.mem_cons_self
    exact ih _ e.1 _ _ (rstep_inv g hi hte (ho e List.mem_cons_self) e.2) hp.2
      (fun x hx => ho x (List.mem_cons_of_mem _ hx)) (hb e List.mem_cons_self)
      (fun x hx => hb x (List.mem_cons_of_mem _ hx))

/-- **ratio, every history**: `Ratio()` is `a/(a+b)` of the exact window sums, `0` when `a+b = 0` -/
theorem ratio_run_exact (c : Cfg) (hn : 0 < c.n) (hr : 0 < c.r) (h : List (Nat × REv)) (now : Nat)
    (hs : List.Pairwise (· ≤ ·) (h.map Prod.fst)) (hb : ∀ e ∈ h, e.1 ≤ now)
    (h70 : ∀ e ∈ h, unixEpochNs + c.n * c.r ≤ e.1) (h70' : unixEpochNs + c.n * c.r ≤ now) :
    ((Ratio.run c h).ratio c now).2 =
      if sumIf (fun u => now / c.r < u / c.r + c.n) (incsA h)
          + sumIf (fun u => now / c.r < u / c.r + c.n) (incsB h) = 0 then (0, 0)
      else (sumIf (fun u => now / c.r < u / c.r + c.n) (incsA h),
            sumIf (fun u => now / c.r < u / c.r + c.n) (incsA h)
              + sumIf (fun u => now / c.r < u / c.r + c.n) (incsB h)) := by
  have g := good_off c hn hr
  obtain ⟨lo, hlo, ta, tb, h1, h2, ha, hb'⟩ := rfoldl_inv g now h (Ratio.init c) 0 [] []
    ⟨0, 0, Nat.le_refl _, Nat.le_refl _, inv_init c _, inv_init c _⟩
    (List.pairwise_cons.mpr ⟨fun _ _ => Nat.zero_le _, hs⟩)
    (fun e he => by have := off_add_le_slot c hn hr (h70 e he); omega) (Nat.zero_le _) hb
  have hw := off_add_le_slot c hn hr h70'
  have ha : Inv c c.off (Ratio.run c h).a ta (incsA h) := ha
  have hb' : Inv c c.off (Ratio.run c h).b tb (incsB h) := hb'
  have ea := count_exact g ha (by omega : ta ≤ now) hw
  have eb := count_exact g hb' (by omega : tb ≤ now) hw
  rw [windowSum_eq_sumIf c _ now (fun e he => hb _ (mem_incsA he))] at ea
  rw [windowSum_eq_sumIf c _ now (fun e he => hb _ (mem_incsB he))] at eb
  simp only [Ratio.ratio]
  rw [ea, eb]

end RCnt
