import OxyModel.Proofs.Counter.Inv

/-! C17: the bucket map of the code satisfies `Good`; the invariant holds after every history;
conditional sums over the log of increments and the slot/time window arithmetic. -/
namespace RCnt

/-! ### the code's slot → bucket map is "slot number minus a constant, mod n" -/

/-- first slot that starts at or after 1970-01-01: `⌈unixEpochNs / r⌉` -/
def Cfg.off (c : Cfg) : Nat := (unixEpochNs + c.r - 1) / c.r

theorem off_mul_le (c : Cfg) : c.off * c.r ≤ unixEpochNs + c.r - 1 := Nat.div_mul_le_self _ _

theorem le_off_mul (c : Cfg) (hr : 0 < c.r) : unixEpochNs ≤ c.off * c.r := by
  have := Nat.lt_div_mul_add (a := unixEpochNs + c.r - 1) hr
  unfold Cfg.off; omega

theorem bmap_off (c : Cfg) (hr : 0 < c.r) (k : Nat) (hk : c.off ≤ k) :
    c.bmap k = (k - c.off) % c.n := by
  have h1 := off_mul_le c
  have h2 := le_off_mul c hr
  obtain ⟨d, rfl⟩ := Nat.exists_eq_add_of_le hk
  unfold Cfg.bmap
  have e : (c.off + d) * c.r - unixEpochNs = (c.off * c.r - unixEpochNs) + d * c.r := by
    rw [Nat.add_mul]; omega
  rw [e, Nat.add_mul_div_right _ _ hr, Nat.div_eq_of_lt (by omega), Nat.zero_add,
    Nat.add_sub_cancel_left]

theorem good_off (c : Cfg) (hn : 0 < c.n) (hr : 0 < c.r) : Good c c.off :=
  ⟨hn, hr, bmap_off c hr⟩

/-- a clock reading at least one window after 1970 lies `n` slots after `off` -/
theorem off_add_le_slot (c : Cfg) (hn : 0 < c.n) (hr : 0 < c.r) {t : Nat}
    (ht : unixEpochNs + c.n * c.r ≤ t) : c.off + c.n ≤ c.slot t + 1 := by
  obtain ⟨m, hm⟩ : ∃ m, c.n = m + 1 := ⟨c.n - 1, by omega⟩
  have h1 := off_mul_le c
  have h2 : (c.off + m) * c.r ≤ t := by
    rw [Nat.add_mul]; rw [hm, Nat.succ_mul] at ht; omega
  have h3 := (Nat.le_div_iff_mul_le hr).mpr h2
  unfold Cfg.slot; omega

/-! ### ghost log of a history -/

def stepLog (log : Log) (t : Nat) : Ev → Log
  | .inc v => (t, v) :: log
  | .read => log
  | .reset => []

/-- the increments (time, value) made since the last `Reset` -/
def incs (h : List (Nat × Ev)) : Log := h.foldl (fun l e => stepLog l e.1 e.2) []

theorem mem_foldl_stepLog (h : List (Nat × Ev)) : ∀ (l : Log) (p : Nat × Int),
    p ∈ h.foldl (fun l e => stepLog l e.1 e.2) l → p ∈ l ∨ (p.1, Ev.inc p.2) ∈ h := by
  induction h with
  | nil => intro l p hp; exact Or.inl hp
  | cons e h ih =>
    intro l p hp
    rw [List.foldl_cons] at hp
    rcases ih _ p hp with h1 | h1
    · obtain ⟨t, ev⟩ := e
      cases ev with
      | inc v =>
        rcases List.mem_cons.mp h1 with rfl | h2
        · exact Or.inr List.mem_cons_self
        · exact Or.inl h2
      | read => exact Or.inl h1
      | reset => cases h1
    · exact Or.inr (List.mem_cons_of_mem _ h1)

theorem mem_incs {h : List (Nat × Ev)} {p : Nat × Int} (hp : p ∈ incs h) : (p.1, Ev.inc p.2) ∈ h := by
  rcases mem_foldl_stepLog h [] p hp with h1 | h1
  · cases h1
  · exact h1

/-! ### the invariant after every history -/

theorem reset_inv (c : Cfg) (off : Nat) (s : St) (hl : s.vals.length = c.n) (tc : Nat) :
    Inv c off (reset s) tc [] := by
  refine ⟨by simp [reset, hl], Nat.zero_le _, by simp, fun k _ _ _ => ?_⟩
  simp [reset, sig, List.getD_eq_getElem?_getD, List.getElem?_replicate]
  split <;> rfl

theorem step_inv {c : Cfg} {off : Nat} (g : Good c off) {s : St} {tc : Nat} {log : Log}
    (h : Inv c off s tc log) {t : Nat} (ht : tc ≤ t) (hoff : off ≤ c.slot t) (ev : Ev) :
    Inv c off (step c s t ev) t (stepLog log t ev) := by
  cases ev with
  | inc v => exact inc_inv g h ht hoff v
  | read => exact cleanup_inv g h ht
  | reset => exact reset_inv c off s h.1 t

theorem foldl_inv {c : Cfg} {off : Nat} (g : Good c off) (now : Nat) : ∀ (h : List (Nat × Ev)) (s : St) (tc : Nat)
    (log : Log), Inv c off s tc log → List.Pairwise (· ≤ ·) (tc :: h.map Prod.fst) →
    (∀ e ∈ h, off ≤ c.slot e.1) → tc ≤ now → (∀ e ∈ h, e.1 ≤ now) →
    ∃ tc', tc' ≤ now ∧ Inv c off (h.foldl (fun s e => step c s e.1 e.2) s) tc'
      (h.foldl (fun l e => stepLog l e.1 e.2) log) := by
  intro h
  induction h with
  | nil => intro s tc log hi _ _ hn _; exact ⟨tc, hn, hi⟩
  | cons e h ih =>
    intro s tc log hi hp ho hn hb
    rw [List.foldl_cons, List.foldl_cons]
    rw [List.map_cons, List.pairwise_cons] at hp
    have hte : tc ≤ e.1 := hp.1 _ List.mem_cons_self
    exact ih _ e.1 _ (step_inv g hi hte (ho e List.mem_cons_self) e.2) hp.2
      (fun x hx => ho x (List.mem_cons_of_mem _ hx)) (hb e List.mem_cons_self)
      (fun x hx => hb x (List.mem_cons_of_mem _ hx))

theorem run_inv {c : Cfg} {off : Nat} (g : Good c off) (h : List (Nat × Ev)) (now : Nat)
    (hs : List.Pairwise (· ≤ ·) (h.map Prod.fst)) (ho : ∀ e ∈ h, off ≤ c.slot e.1)
    (hb : ∀ e ∈ h, e.1 ≤ now) : ∃ tc, tc ≤ now ∧ Inv c off (run c h) tc (incs h) :=
  foldl_inv g now h (St.init c) 0 [] (inv_init c off)
    (List.pairwise_cons.mpr ⟨fun _ _ => Nat.zero_le _, hs⟩) ho (Nat.zero_le _) hb

/-! ### conditional sums over the log -/

/-- sum of the logged increments whose time stamp satisfies `p` -/
def sumIf (p : Nat → Prop) [DecidablePred p] (log : Log) : Int :=
  (log.map fun e => if p e.1 then e.2 else 0).sum

theorem sumIf_cons (p : Nat → Prop) [DecidablePred p] (e : Nat × Int) (log : Log) :
    sumIf p (e :: log) = (if p e.1 then e.2 else 0) + sumIf p log := by
  simp [sumIf]

theorem sumIf_congr {p q : Nat → Prop} [DecidablePred p] [DecidablePred q] (log : Log)
    (h : ∀ e ∈ log, (p e.1 ↔ q e.1)) : sumIf p log = sumIf q log := by
  induction log with
  | nil => rfl
  | cons e log ih =>
    rw [sumIf_cons, sumIf_cons, ih (fun x hx => h x (List.mem_cons_of_mem _ hx))]
    have := h e List.mem_cons_self
    by_cases hp : p e.1
    · rw [if_pos hp, if_pos (this.mp hp)]
    · rw [if_neg hp, if_neg (fun hq => hp (this.mpr hq))]

theorem sumIf_mono {p q : Nat → Prop} [DecidablePred p] [DecidablePred q] (log : Log)
    (hv : ∀ e ∈ log, 0 ≤ e.2) (h : ∀ e ∈ log, p e.1 → q e.1) : sumIf p log ≤ sumIf q log := by
  induction log with
  | nil => exact Int.le_refl _
  | cons e log ih =>
    rw [sumIf_cons, sumIf_cons]
    have h1 := ih (fun x hx => hv x (List.mem_cons_of_mem _ hx)) (fun x hx => h x (List.mem_cons_of_mem _ hx))
    have h2 := hv e List.mem_cons_self
    have h3 := h e List.mem_cons_self
    by_cases hp : p e.1
    · rw [if_pos hp, if_pos (h3 hp)]; omega
    · rw [if_neg hp]; split <;> omega

theorem sumIf_none {p : Nat → Prop} [DecidablePred p] (log : Log) (h : ∀ e ∈ log, ¬ p e.1) :
    sumIf p log = 0 := by
  induction log with
  | nil => rfl
  | cons e log ih =>
    rw [sumIf_cons, ih (fun x hx => h x (List.mem_cons_of_mem _ hx)), if_neg (h e List.mem_cons_self)]
    rfl

theorem windowSum_eq_sumIf (c : Cfg) (log : Log) (now : Nat) (hb : ∀ e ∈ log, e.1 ≤ now) :
    windowSum c log now = sumIf (fun u => now / c.r < u / c.r + c.n) log := by
  have : windowSum c log now
      = sumIf (fun u => c.slot now < c.slot u + c.n ∧ c.slot u ≤ c.slot now) log := rfl
  rw [this]
  apply sumIf_congr
  intro e he
  have := slot_mono c (hb e he)
  unfold Cfg.slot at *
  constructor
  · exact fun h => h.1
  · exact fun h => ⟨h, this⟩

/-! ### slots versus time distances -/

/-- made within the last `(n-1)·r` ⇒ its slot is among the last `n` slots -/
theorem slot_of_recent (n r : Nat) (hn : 0 < n) (hr : 0 < r) {u now : Nat}
    (h : now ≤ u + (n - 1) * r) : now / r < u / r + n := by
  have h1 : now / r ≤ (u + (n - 1) * r) / r := Nat.div_le_div_right h
  rw [Nat.add_mul_div_right _ _ hr] at h1
  omega

/-- its slot is among the last `n` slots ⇒ made within the last `n·r` -/
theorem recent_of_slot (n r : Nat) (hr : 0 < r) {u now : Nat} (h : now / r < u / r + n) :
    now < u + n * r := by
  have h1 : now < (u / r + n) * r := (Nat.div_lt_iff_lt_mul hr).mp h
  rw [Nat.add_mul] at h1
  have h2 := Nat.div_mul_le_self u r
  omega

/-- older than `n·r` ⇒ its slot is not among the last `n` slots -/
theorem not_slot_of_old (n r : Nat) (hr : 0 < r) {u now : Nat} (h : u + n * r ≤ now) :
    ¬ now / r < u / r + n := by
  have h1 : (u + n * r) / r ≤ now / r := Nat.div_le_div_right h
  rw [Nat.add_mul_div_right _ _ hr] at h1
  omega

/-- **exact window, every history**: a read after any history returns the sum of the increments made
    since the last reset whose slot is among the last `n` slots -/
theorem count_run_exact (c : Cfg) (hn : 0 < c.n) (hr : 0 < c.r) (h : List (Nat × Ev)) (now : Nat)
    (hs : List.Pairwise (· ≤ ·) (h.map Prod.fst)) (hb : ∀ e ∈ h, e.1 ≤ now)
    (h70 : ∀ e ∈ h, unixEpochNs + c.n * c.r ≤ e.1) (h70' : unixEpochNs + c.n * c.r ≤ now) :
    (count c (run c h) now).2 = sumIf (fun u => now / c.r < u / c.r + c.n) (incs h) := by
  have g := good_off c hn hr
  obtain ⟨tc, htc, hi⟩ := run_inv g h now hs
    (fun e he => by have := off_add_le_slot c hn hr (h70 e he); omega) hb
  rw [count_exact g hi htc (off_add_le_slot c hn hr h70')]
  exact windowSum_eq_sumIf c _ now (fun e he => hb _ (mem_incs he))

end RCnt
