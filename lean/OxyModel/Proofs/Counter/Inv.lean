import OxyModel.Proofs.Counter.Basic

namespace RCnt
open Finset

structure Good (c : Cfg) (off : Nat) : Prop where
  n_pos : 0 < c.n
  r_pos : 0 < c.r
  bmap_eq : ∀ k, off ≤ k → c.bmap k = (k - off) % c.n

theorem slot_sub (c : Cfg) (now j : Nat) : c.slot (now - j * c.r) = c.slot now - j := by
  unfold Cfg.slot; rw [Nat.mul_comm]; exact Nat.sub_mul_div now c.r j

theorem truncate_gt_iff (c : Cfg) (hr : 0 < c.r) (a b : Nat) :
    c.truncate a > c.truncate b ↔ c.slot a > c.slot b := by
  unfold Cfg.truncate Cfg.slot
  exact Nat.mul_lt_mul_right hr

theorem slot_mono (c : Cfg) {a b : Nat} (h : a ≤ b) : c.slot a ≤ c.slot b :=
  Nat.div_le_div_right h

theorem mod_ne_of_lt (n a b : Nat) (h1 : a < b) (h2 : b < a + n) : a % n ≠ b % n := by
  intro h
  have h0 : (b - a) % n = 0 := Nat.sub_mod_eq_zero_of_mod_eq h.symm
  rw [Nat.mod_eq_of_lt (by omega)] at h0
  omega

theorem bmap_ne {c : Cfg} {off : Nat} (g : Good c off) {k k' : Nat} (hk : off ≤ k) (h1 : k < k')
    (h2 : k' < k + c.n) : c.bmap k ≠ c.bmap k' := by
  rw [g.bmap_eq k hk, g.bmap_eq k' (by omega)]
  exact mod_ne_of_lt c.n (k - off) (k' - off) (by omega) (by omega)

def Zeroed (c : Cfg) (lu now i fuel b : Nat) : Prop :=
  ∃ j, i ≤ j ∧ j < i + fuel ∧ c.slot lu < c.slot now - j ∧ c.bmap (c.slot now - j) = b

theorem cleanupLoop_spec (c : Cfg) (hr : 0 < c.r) (lu now : Nat) : ∀ fuel i (vals : List Int),
    (cleanupLoop c lu now i fuel vals).length = vals.length ∧
    ∀ b, (Zeroed c lu now i fuel b → (cleanupLoop c lu now i fuel vals).getD b 0 = 0) ∧
         (¬ Zeroed c lu now i fuel b → (cleanupLoop c lu now i fuel vals).getD b 0 = vals.getD b 0) := by
  intro fuel
  induction fuel with
  | zero =>
    intro i vals
    refine ⟨rfl, fun b => ⟨?_, fun _ => rfl⟩⟩
    rintro ⟨j, h1, h2, _⟩; omega
  | succ fuel ih =>
    intro i vals
    unfold cleanupLoop
    simp only [getBucket_eq, truncate_gt_iff c hr, slot_sub]
    by_cases hc : c.slot now - i > c.slot lu
    · simp only [hc, if_true]
      obtain ⟨hl, hv⟩ := ih (i + 1) (vals.set (c.bmap (c.slot now - i)) 0)
      refine ⟨by rw [hl, List.length_set], fun b => ⟨?_, ?_⟩⟩
      · rintro ⟨j, a1, a2, a3, a4⟩
        by_cases hE : Zeroed c lu now (i + 1) fuel b
        · exact (hv b).1 hE
        · rw [(hv b).2 hE, getD_set_zero]
          have hji : j = i := by
            by_contra hne
            exact hE ⟨j, by omega, by omega, a3, a4⟩
          subst hji
          rw [if_pos a4]
      · intro hZ
        have hE : ¬ Zeroed c lu now (i + 1) fuel b := by
          rintro ⟨j, a1, a2, a3, a4⟩
          exact hZ ⟨j, by omega, by omega, a3, a4⟩
        rw [(hv b).2 hE, getD_set_zero]
        have hb : ¬ (c.bmap (c.slot now - i) = b) := fun hb =>
          hZ ⟨i, by omega, by omega, hc, hb⟩
        rw [if_neg hb]
    · simp only [hc, if_false]
      refine ⟨trivial, fun b => ⟨?_, fun _ => trivial⟩⟩
      rintro ⟨j, a1, _, a3, _⟩; omega

/-- representation invariant at "last operation time" `tc` with ghost log `log` -/
def Inv (c : Cfg) (off : Nat) (s : St) (tc : Nat) (log : Log) : Prop :=
  s.vals.length = c.n ∧ s.lu ≤ tc ∧ (∀ p ∈ log, p.1 ≤ s.lu) ∧
  ∀ k, off ≤ k → k ≤ c.slot tc → c.slot tc < k + c.n → s.vals.getD (c.bmap k) 0 = sig c log k

theorem sig_zero_of_gt (c : Cfg) (log : Log) (lu k : Nat) (h : ∀ p ∈ log, p.1 ≤ lu)
    (hk : c.slot lu < k) : sig c log k = 0 := by
  induction log with
  | nil => simp [sig]
  | cons p log ih =>
    rw [sig_cons, ih (fun q hq => h q (List.mem_cons_of_mem _ hq))]
    have := slot_mono c (h p List.mem_cons_self)
    have : ¬ (c.slot p.1 = k) := by omega
    simp [this]

theorem inv_init (c : Cfg) (off : Nat) : Inv c off (St.init c) 0 [] := by
  refine ⟨by simp [St.init], Nat.le_refl _, by simp, fun k _ _ _ => ?_⟩
  simp [St.init, sig, List.getD_eq_getElem?_getD, List.getElem?_replicate]
  split <;> rfl

theorem cleanup_inv {c : Cfg} {off : Nat} (g : Good c off) {s : St} {tc : Nat} {log : Log}
    (h : Inv c off s tc log) {now : Nat} (hnow : tc ≤ now) : Inv c off (cleanup c s now) now log := by
  obtain ⟨hlen, hlu, hlog, hv⟩ := h
  obtain ⟨hl, hs⟩ := cleanupLoop_spec c g.r_pos s.lu now c.n 0 s.vals
  refine ⟨by simp only [cleanup]; rw [hl, hlen], by simp only [cleanup]; omega, hlog, ?_⟩
  intro k hk1 hk2 hk3
  simp only [cleanup]
  by_cases hkl : c.slot s.lu < k
  · have : Zeroed c s.lu now 0 c.n (c.bmap k) :=
      ⟨c.slot now - k, by omega, by omega, by omega, by congr 1; omega⟩
    rw [(hs _).1 this, sig_zero_of_gt c log s.lu k hlog hkl]
  · have : ¬ Zeroed c s.lu now 0 c.n (c.bmap k) := by
      rintro ⟨j, _, a2, a3, a4⟩
      exact bmap_ne g hk1 (by omega : k < c.slot now - j) (by omega) a4.symm
    rw [(hs _).2 this]
    have h1 := slot_mono c hlu
    have h2 := slot_mono c hnow
    exact hv k hk1 (by omega) (by omega)

theorem inc_inv {c : Cfg} {off : Nat} (g : Good c off) {s : St} {tc : Nat} {log : Log}
    (h : Inv c off s tc log) {now : Nat} (hnow : tc ≤ now) (hoff : off ≤ c.slot now) (v : Int) :
    Inv c off (inc c s now v) now ((now, v) :: log) := by
  obtain ⟨hlen, hlu, hlog, hv⟩ := cleanup_inv g h hnow
  have hb0 : c.bmap (c.slot now) < c.n := by
    rw [g.bmap_eq _ hoff]; exact Nat.mod_lt _ g.n_pos
  refine ⟨?_, Nat.le_refl _, ?_, ?_⟩
  · simp only [inc]; rw [List.length_set]; exact hlen
  · intro p hp
    simp only [inc]
    rcases List.mem_cons.mp hp with rfl | hp
    · exact Nat.le_refl _
    · exact le_trans (hlog p hp) (by simp only [cleanup] at hlu ⊢; omega)
  · intro k hk1 hk2 hk3
    simp only [inc, getBucket_eq]
    rw [sig_cons]
    by_cases hk : k = c.slot now
    · subst hk
      rw [getD_set_self _ _ _ (by rw [hlen]; exact hb0), hv _ hk1 hk2 hk3]
      simp; ring
    · have hne : c.bmap (c.slot now) ≠ c.bmap k :=
        (bmap_ne g hk1 (by omega : k < c.slot now) (by omega)).symm
      rw [getD_set_other _ _ _ _ hne, hv k hk1 hk2 hk3]
      have : ¬ (c.slot now = k) := fun e => hk e.symm
      simp [this]

/-- **C17 (core)**: a read returns exactly the increments of the last `n` slots -/
theorem count_exact {c : Cfg} {off : Nat} (g : Good c off) {s : St} {tc : Nat} {log : Log}
    (h : Inv c off s tc log) {now : Nat} (hnow : tc ≤ now) (hoff : off + c.n ≤ c.slot now + 1) :
    (count c s now).2 = windowSum c log now := by
  obtain ⟨hlen, hlu, hlog, hv⟩ := cleanup_inv g h hnow
  simp only [count]
  rw [sum_eq_sum_range, hlen]
  set s0 := c.slot now + 1 - c.n with hs0
  rw [← sum_rot (fun b => (cleanup c s now).vals.getD b 0) c.n g.n_pos (s0 - off)]
  have e1 : ∀ j ∈ range c.n, (cleanup c s now).vals.getD ((s0 - off + j) % c.n) 0
      = sig c log (s0 + j) := by
    intro j hj
    have hj' := Finset.mem_range.mp hj
    have : (s0 - off + j) % c.n = c.bmap (s0 + j) := by
      rw [g.bmap_eq _ (by omega)]; congr 1; omega
    rw [this]
    exact hv (s0 + j) (by omega) (by omega) (by omega)
  rw [Finset.sum_congr rfl e1, sum_sig_window]
  unfold windowSum
  congr 1
  apply List.map_congr_left
  intro p hp
  have hp1 := slot_mono c (le_trans (hlog p hp) hlu)
  have : (s0 ≤ c.slot p.1 ∧ c.slot p.1 < s0 + c.n) ↔
      (c.slot now < c.slot p.1 + c.n ∧ c.slot p.1 ≤ c.slot now) := by
    constructor <;> intro ⟨a, b⟩ <;> constructor <;> omega
  simp only [this]

end RCnt
