import OxyModel.Model.Heap
import Mathlib.Tactic

/-!
# `container/heap` model: lengths, permutations and the heap order

The sift argument is done with the generalised invariant `Exc h n i` ("heap on the prefix `n` except at
position `i`") and two induction principles (`up_ind`, `downLoop_ind`) that hide the well-founded recursion.
-/
namespace Heap

/-! ## access lemmas -/

theorem prio_congr {h h' : T} {k k' : Nat} (e : h'[k']? = h[k]?) : prio h' k' = prio h k := by
  unfold prio; rw [e]

theorem prio_of_getElem? {h : T} {k : Nat} {x : Item} (e : h[k]? = some x) : prio h k = x.2 := by
  unfold prio; rw [e]; rfl

theorem swap_of_lt (h : T) (i j : Nat) (hi : i < h.length) (hj : j < h.length) :
    swap h i j = (h.set i h[j]).set j h[i] := by
  unfold swap
  rw [List.getElem?_eq_getElem hi, List.getElem?_eq_getElem hj]

theorem swap_of_not (h : T) (i j : Nat) (hij : ¬ (i < h.length ∧ j < h.length)) : swap h i j = h := by
  unfold swap
  split
  · rename_i x y hx hy
    exact absurd ⟨(List.getElem?_eq_some_iff.1 hx).1, (List.getElem?_eq_some_iff.1 hy).1⟩ hij
  · rfl

theorem swap_length (h : T) (i j : Nat) : (swap h i j).length = h.length := by
  by_cases c : i < h.length ∧ j < h.length
  · rw [swap_of_lt h i j c.1 c.2]; simp
  · rw [swap_of_not h i j c]

theorem swap_perm (h : T) (i j : Nat) : (swap h i j).Perm h := by
  by_cases c : i < h.length ∧ j < h.length
  · rw [swap_of_lt h i j c.1 c.2]
    have hi : i < h.toArray.size := by simpa using c.1
    have hj : j < h.toArray.size := by simpa using c.2
    have p := (Array.swap_perm (xs := h.toArray) hi hj).toList
    rw [Array.toList_swap] at p
    simpa using p
  · rw [swap_of_not h i j c]

/-- positions other than `i`, `j` are untouched by `swap` (no range condition) -/
theorem getElem?_swap_of_ne (h : T) (i j k : Nat) (hki : k ≠ i) (hkj : k ≠ j) :
    (swap h i j)[k]? = h[k]? := by
  by_cases c : i < h.length ∧ j < h.length
  · rw [swap_of_lt h i j c.1 c.2, List.getElem?_set, if_neg (Ne.symm hkj), List.getElem?_set,
      if_neg (Ne.symm hki)]
  · rw [swap_of_not h i j c]

theorem getElem?_swap_right (h : T) (i j : Nat) (hi : i < h.length) (hj : j < h.length) :
    (swap h i j)[j]? = h[i]? := by
  rw [swap_of_lt h i j hi hj, List.getElem?_set, if_pos rfl, if_pos (by simpa using hj),
    List.getElem?_eq_getElem hi]

theorem getElem?_swap_left (h : T) (i j : Nat) (hi : i < h.length) (hj : j < h.length) :
    (swap h i j)[i]? = h[j]? := by
  by_cases e : i = j
  · subst e; exact getElem?_swap_right h i i hi hi
  · rw [swap_of_lt h i j hi hj, List.getElem?_set, if_neg (Ne.symm e), List.getElem?_set, if_pos rfl,
      if_pos hi, List.getElem?_eq_getElem hj]

theorem prio_swap_left (h : T) (i j : Nat) (hi : i < h.length) (hj : j < h.length) :
    prio (swap h i j) i = prio h j := prio_congr (getElem?_swap_left h i j hi hj)

theorem prio_swap_right (h : T) (i j : Nat) (hi : i < h.length) (hj : j < h.length) :
    prio (swap h i j) j = prio h i := prio_congr (getElem?_swap_right h i j hi hj)

theorem prio_swap_of_ne (h : T) (i j k : Nat) (hki : k ≠ i) (hkj : k ≠ j) :
    prio (swap h i j) k = prio h k := prio_congr (getElem?_swap_of_ne h i j k hki hkj)

theorem prio_append_left (h : T) (x : Item) (k : Nat) (hk : k < h.length) :
    prio (h ++ [x]) k = prio h k := prio_congr (List.getElem?_append_left hk)

theorem prio_append_last (h : T) (x : Item) : prio (h ++ [x]) h.length = x.2 :=
  prio_of_getElem? (by simp)

theorem prio_dropLast (h : T) (k : Nat) (hk : k < h.length - 1) : prio h.dropLast k = prio h k :=
  prio_congr (by rw [List.getElem?_dropLast, if_pos hk])

/-- `Inv` only looks at the priorities of the positions `< n` -/
theorem Inv.congr {h h' : T} {n : Nat} (hinv : Inv h n) (e : ∀ k, k < n → prio h' k = prio h k) :
    Inv h' n := by
  intro k hk0 hkn
  rw [e k hkn, e ((k - 1) / 2) (by omega)]
  exact hinv k hk0 hkn

theorem Inv.mono {h : T} {n m : Nat} (hinv : Inv h n) (hm : m ≤ n) : Inv h m :=
  fun k hk0 hkm => hinv k hk0 (by omega)

theorem Inv.dropLast {h : T} {n : Nat} (hinv : Inv h n) (hn : n ≤ h.length - 1) : Inv h.dropLast n :=
  hinv.congr (fun k hk => prio_dropLast h k (by omega))

/-- if the last position holds `x`, dropping it removes exactly `x` -/
theorem dropLast_perm (l : T) (x : Item) (hx : l[l.length - 1]? = some x) : (x :: l.dropLast).Perm l := by
  obtain ⟨hlt, e⟩ := List.getElem?_eq_some_iff.1 hx
  have hne : l ≠ [] := by rintro rfl; simp at hlt
  have e2 : l.dropLast ++ [x] = l := by
    rw [← e, ← List.getLast_eq_getElem hne]; exact List.dropLast_append_getLast hne
  have p := (List.perm_append_singleton x l.dropLast).symm
  rw [e2] at p; exact p

/-! ## `up` -/

theorem up_zero (h : T) : up h 0 = h := by rw [up]; simp

theorem up_pos (h : T) (j : Nat) (hj : 0 < j) :
    up h j = if prio h j < prio h ((j - 1) / 2) then up (swap h ((j - 1) / 2) j) ((j - 1) / 2) else h := by
  conv_lhs => rw [up]
  simp [Nat.ne_of_gt hj, less]

/-- induction principle for `up` -/
theorem up_ind {P : T → Nat → T → Prop}
    (stop : ∀ h j, (j = 0 ∨ prio h ((j - 1) / 2) ≤ prio h j) → P h j h)
    (step : ∀ h j r, 0 < j → prio h j < prio h ((j - 1) / 2) →
      P (swap h ((j - 1) / 2) j) ((j - 1) / 2) r → P h j r) :
    ∀ j h, P h j (up h j) := by
  intro j
  induction j using Nat.strong_induction_on with
  | _ j ih =>
    intro h
    by_cases hj : j = 0
    · subst hj; rw [up_zero]; exact stop h 0 (Or.inl rfl)
    · rw [up_pos h j (by omega)]
      split_ifs with c
      · exact step h j _ (by omega) c (ih ((j - 1) / 2) (by omega) _)
      · exact stop h j (Or.inr (by omega))

theorem up_length (h : T) (j : Nat) : (up h j).length = h.length :=
  up_ind (P := fun h _ r => r.length = h.length) (fun _ _ _ => rfl)
    (fun h _ _ _ _ ih => by rw [ih, swap_length]) j h

theorem up_perm (h : T) (j : Nat) : (up h j).Perm h :=
  up_ind (P := fun h _ r => r.Perm h) (fun _ _ _ => List.Perm.refl _)
    (fun h _ _ _ _ ih => ih.trans (swap_perm h _ _)) j h

/-- `up h j` only touches positions `≤ j` -/
theorem up_frame (h : T) (j : Nat) : ∀ k, j < k → (up h j)[k]? = h[k]? :=
  up_ind (P := fun h j r => ∀ k, j < k → r[k]? = h[k]?) (fun _ _ _ _ _ => rfl)
    (fun h j r _ _ ih k hk => by
      rw [ih k (by omega), getElem?_swap_of_ne h _ _ k (by omega) (by omega)]) j h

/-! ## `downLoop` -/

/-- `m` is the child of `i` (within the prefix `n`) that `heap.down` compares with `i` -/
def MinChild (h : T) (i n m : Nat) : Prop :=
  (m = 2 * i + 1 ∨ m = 2 * i + 2) ∧ m < n ∧
    ∀ c, c < n → (c = 2 * i + 1 ∨ c = 2 * i + 2) → prio h m ≤ prio h c

theorem downLoop_base (h : T) (i n : Nat) (h1 : n ≤ 2 * i + 1) : downLoop h i n = (h, i) := by
  rw [downLoop]; simp [h1]

theorem downLoop_step (h : T) (i n : Nat) (h1 : 2 * i + 1 < n) :
    ∃ m, MinChild h i n m ∧
      downLoop h i n = if prio h m < prio h i then downLoop (swap h i m) m n else (h, i) := by
  have hn : ¬ (2 * i + 1 ≥ n) := by omega
  have e := downLoop.eq_1 h i n
  rw [dif_neg hn] at e
  by_cases c : 2 * i + 2 < n ∧ less h (2 * i + 2) (2 * i + 1) = true
  · refine ⟨2 * i + 2, ⟨Or.inr rfl, c.1, ?_⟩, ?_⟩
    · intro c' _ hcc
      rcases hcc with rfl | rfl
      · have := c.2; simp only [less, decide_eq_true_eq] at this; omega
      · exact le_refl _
    · rw [e, if_pos c]; simp [less]
  · refine ⟨2 * i + 1, ⟨Or.inl rfl, h1, ?_⟩, ?_⟩
    · intro c' hc' hcc
      rcases hcc with rfl | rfl
      · exact le_refl _
      · simp only [less, decide_eq_true_eq, not_and, not_lt] at c; exact c hc'
    · rw [e, if_neg c]; simp [less]

/-- induction principle for `downLoop` -/
theorem downLoop_ind (n : Nat) {P : T → Nat → T × Nat → Prop}
    (base : ∀ h i, n ≤ 2 * i + 1 → P h i (h, i))
    (stop : ∀ h i m, MinChild h i n m → prio h i ≤ prio h m → P h i (h, i))
    (step : ∀ h i m r, MinChild h i n m → prio h m < prio h i → P (swap h i m) m r → P h i r) :
    ∀ h i, P h i (downLoop h i n) := by
  intro h i
  induction hd : n - i using Nat.strong_induction_on generalizing h i with
  | _ d ih =>
    by_cases h1 : n ≤ 2 * i + 1
    · rw [downLoop_base h i n h1]; exact base h i h1
    · obtain ⟨m, hm, e⟩ := downLoop_step h i n (by omega)
      rw [e]
      have him : i < m ∧ m < n := by
        obtain ⟨a, b, _⟩ := hm
        constructor
        · omega
        · exact b
      split_ifs with c
      · exact step h i m _ hm c (ih (n - m) (by omega) _ m rfl)
      · exact stop h i m hm (by omega)

theorem downLoop_length (h : T) (i n : Nat) : (downLoop h i n).1.length = h.length :=
  downLoop_ind n (P := fun h _ r => r.1.length = h.length) (fun _ _ _ => rfl) (fun _ _ _ _ _ => rfl)
    (fun h _ _ _ _ _ ih => by rw [ih, swap_length]) h i

theorem downLoop_perm (h : T) (i n : Nat) : (downLoop h i n).1.Perm h :=
  downLoop_ind n (P := fun h _ r => r.1.Perm h) (fun _ _ _ => List.Perm.refl _)
    (fun _ _ _ _ _ => List.Perm.refl _) (fun h _ _ _ _ _ ih => ih.trans (swap_perm h _ _)) h i

/-- `downLoop h i n` never touches the positions `≥ n` -/
theorem downLoop_frame (h : T) (i n : Nat) (hin : i < n) : ∀ k, n ≤ k → (downLoop h i n).1[k]? = h[k]? :=
  downLoop_ind n (P := fun h i r => i < n → ∀ k, n ≤ k → r.1[k]? = h[k]?) (fun _ _ _ _ _ _ => rfl)
    (fun _ _ _ _ _ _ _ _ => rfl)
    (fun h i m r hm _ ih hin k hk => by
      rw [ih hm.2.1 k hk, getElem?_swap_of_ne h _ _ k (by omega) (by have := hm.2.1; omega)]) h i hin

/-! ## the generalised invariant -/

/-- heap on the prefix `n` except at position `i`: all parent/child pairs not involving `i` are ordered, and
every child of `i` is ≥ the parent of `i` -/
def Exc (h : T) (n i : Nat) : Prop :=
  (∀ k, 0 < k → k < n → k ≠ i → (k - 1) / 2 ≠ i → prio h ((k - 1) / 2) ≤ prio h k) ∧
  (∀ c, 0 < c → c < n → (c - 1) / 2 = i → 0 < i → prio h ((i - 1) / 2) ≤ prio h c)

/-- every child of `i` within the prefix `n` is ≥ `i` -/
def ChildGe (h : T) (n i : Nat) : Prop :=
  ∀ c, 0 < c → c < n → (c - 1) / 2 = i → prio h i ≤ prio h c

theorem inv_of_exc {h : T} {n i : Nat} (he : Exc h n i) (hc : ChildGe h n i)
    (hp : i = 0 ∨ prio h ((i - 1) / 2) ≤ prio h i) : Inv h n := by
  intro k hk0 hkn
  by_cases h1 : k = i
  · subst h1
    rcases hp with hp | hp
    · omega
    · exact hp
  · by_cases h2 : (k - 1) / 2 = i
    · rw [h2]; exact hc k hk0 hkn h2
    · exact he.1 k hk0 hkn h1 h2

theorem exc_of_inv {h : T} {n i : Nat} (hinv : Inv h n) (hin : i < n) : Exc h n i := by
  refine ⟨fun k hk0 hkn _ _ => hinv k hk0 hkn, fun c hc0 hcn hcp hi0 => ?_⟩
  have a := hinv c hc0 hcn
  rw [hcp] at a
  exact le_trans (hinv i hi0 hin) a

theorem exc_up_step {h : T} {n j p : Nat} (hpj : (j - 1) / 2 = p) (he : Exc h n j) (hj0 : 0 < j)
    (hjn : j < n) (hn : n ≤ h.length) (hlt : prio h j < prio h p) :
    Exc (swap h p j) n p ∧ ChildGe (swap h p j) n p := by
  have hp : p < j := by omega
  have e1 : prio (swap h p j) p = prio h j := prio_swap_left h p j (by omega) (by omega)
  have e2 : prio (swap h p j) j = prio h p := prio_swap_right h p j (by omega) (by omega)
  have e3 : ∀ k, k ≠ p → k ≠ j → prio (swap h p j) k = prio h k := fun k => prio_swap_of_ne h p j k
  refine ⟨⟨?_, ?_⟩, ?_⟩
  · intro k hk0 hkn hkp hkpp
    by_cases h1 : k = j
    · subst h1; exact absurd hpj hkpp
    · by_cases h2 : (k - 1) / 2 = j
      · rw [h2, e2, e3 k hkp h1]
        have a := he.2 k hk0 hkn h2 hj0
        rw [hpj] at a; exact a
      · rw [e3 _ hkpp h2, e3 k hkp h1]
        exact he.1 k hk0 hkn h1 h2
  · intro c hc0 hcn hcp hp0
    have b := he.1 p hp0 (by omega) (by omega) (by omega)
    rw [e3 ((p - 1) / 2) (by omega) (by omega)]
    by_cases h1 : c = j
    · subst h1; rw [e2]; exact b
    · rw [e3 c (by omega) h1]
      have a := he.1 c hc0 hcn h1 (by omega)
      rw [hcp] at a
      exact le_trans b a
  · intro c hc0 hcn hcp
    rw [e1]
    by_cases h1 : c = j
    · subst h1; rw [e2]; omega
    · rw [e3 c (by omega) h1]
      have a := he.1 c hc0 hcn h1 (by omega)
      rw [hcp] at a
      omega

/-- the `up` lemma: a prefix that is a heap except at `j`, whose children are all ≥ `j`, is repaired by `up` -/
theorem up_inv (n : Nat) : ∀ j h, Exc h n j → j < n → n ≤ h.length → ChildGe h n j → Inv (up h j) n := by
  refine up_ind (P := fun h j r => Exc h n j → j < n → n ≤ h.length → ChildGe h n j → Inv r n) ?_ ?_
  · intro h j hstop he _ _ hc
    exact inv_of_exc he hc hstop
  · intro h j r hj0 hlt ih he hjn hn _
    obtain ⟨a, b⟩ := exc_up_step rfl he hj0 hjn hn hlt
    exact ih a (by omega) (by rw [swap_length]; exact hn) b

theorem exc_down_step {h : T} {n i m : Nat} (he : Exc h n i) (hn : n ≤ h.length)
    (hm : MinChild h i n m) (hlt : prio h m < prio h i) :
    Exc (swap h i m) n m ∧ prio (swap h i m) ((m - 1) / 2) ≤ prio (swap h i m) m := by
  obtain ⟨hm1, hmn, hmin⟩ := hm
  have hmi : (m - 1) / 2 = i := by omega
  have him : i < m := by omega
  have e1 : prio (swap h i m) i = prio h m := prio_swap_left h i m (by omega) (by omega)
  have e2 : prio (swap h i m) m = prio h i := prio_swap_right h i m (by omega) (by omega)
  have e3 : ∀ k, k ≠ i → k ≠ m → prio (swap h i m) k = prio h k := fun k => prio_swap_of_ne h i m k
  refine ⟨⟨?_, ?_⟩, ?_⟩
  · intro k hk0 hkn hkm hkpm
    by_cases h1 : k = i
    · subst h1
      rw [e3 _ (by omega) (by omega), e1]
      exact he.2 m (by omega) hmn hmi hk0
    · by_cases h2 : (k - 1) / 2 = i
      · rw [h2, e1, e3 k h1 hkm]
        exact hmin k hkn (by omega)
      · rw [e3 _ h2 hkpm, e3 k h1 hkm]
        exact he.1 k hk0 hkn h1 h2
  · intro c hc0 hcn hcp _
    rw [hmi, e1, e3 c (by omega) (by omega)]
    have a := he.1 c hc0 hcn (by omega) (by omega)
    rw [hcp] at a; exact a
  · rw [hmi, e1, e2]; omega

/-- the `downLoop` lemma -/
theorem downLoop_main (n : Nat) : ∀ h i, Exc h n i → i < n → n ≤ h.length →
    i ≤ (downLoop h i n).2 ∧
    ((i < (downLoop h i n).2 ∨ i = 0 ∨ prio h ((i - 1) / 2) ≤ prio h i) → Inv (downLoop h i n).1 n) ∧
    ((downLoop h i n).2 = i → (downLoop h i n).1 = h ∧ ChildGe h n i) := by
  refine downLoop_ind n (P := fun h i r => Exc h n i → i < n → n ≤ h.length →
    i ≤ r.2 ∧ ((i < r.2 ∨ i = 0 ∨ prio h ((i - 1) / 2) ≤ prio h i) → Inv r.1 n) ∧
    (r.2 = i → r.1 = h ∧ ChildGe h n i)) ?_ ?_ ?_
  · intro h i hb he _ _
    have hc : ChildGe h n i := by intro c hc0 hcn hcp; omega
    refine ⟨le_refl _, ?_, fun _ => ⟨rfl, hc⟩⟩
    intro hcond
    rcases hcond with h1 | h1
    · exact absurd h1 (lt_irrefl _)
    · exact inv_of_exc he hc h1
  · intro h i m hm hle he _ _
    have hc : ChildGe h n i := by
      intro c _ hcn hcp
      exact le_trans hle (hm.2.2 c hcn (by omega))
    refine ⟨le_refl _, ?_, fun _ => ⟨rfl, hc⟩⟩
    intro hcond
    rcases hcond with h1 | h1
    · exact absurd h1 (lt_irrefl _)
    · exact inv_of_exc he hc h1
  · intro h i m r hm hlt ih he _ hn
    obtain ⟨a, b⟩ := exc_down_step he hn hm hlt
    obtain ⟨i1, i2, _⟩ := ih a hm.2.1 (by rw [swap_length]; exact hn)
    have him : i < m := by have := hm.1; omega
    exact ⟨by omega, fun _ => i2 (Or.inr (Or.inr b)), fun hr => by omega⟩

/-! ## `push` -/

theorem push_length (h : T) (x : Item) : (push h x).length = h.length + 1 := by
  unfold push; rw [up_length]; simp

theorem push_perm (h : T) (x : Item) : (push h x).Perm (x :: h) := by
  unfold push; exact (up_perm _ _).trans (List.perm_append_singleton x h)

theorem push_inv (h : T) (x : Item) (hinv : Inv h h.length) : Inv (push h x) (h.length + 1) := by
  unfold push
  apply up_inv (h.length + 1) h.length (h ++ [x])
  · refine ⟨?_, ?_⟩
    · intro k hk0 hkn hk _
      rw [prio_append_left h x k (by omega), prio_append_left h x _ (by omega)]
      exact hinv k hk0 (by omega)
    · intro c hc0 hcn hcp _; omega
  · omega
  · simp
  · intro c hc0 hcn hcp; omega

/-! ## `pop` and `removeAt` -/

/-- `removeAt h i` for `i` not the last position, in terms of `downLoop` -/
theorem removeAt_of_ne (h : T) (i : Nat) (hne : h.length - 1 ≠ i) :
    removeAt h i =
      (if i < (downLoop (swap h i (h.length - 1)) i (h.length - 1)).2
        then (downLoop (swap h i (h.length - 1)) i (h.length - 1)).1
        else up (downLoop (swap h i (h.length - 1)) i (h.length - 1)).1 i).dropLast := by
  unfold removeAt down
  rw [if_pos hne]
  simp only [gt_iff_lt, decide_eq_true_eq]

theorem removeAt_last (h : T) : removeAt h (h.length - 1) = h.dropLast := by
  unfold removeAt; simp

/-- the list just before the final `h.Pop()` of `heap.Remove(h, i)`, `i` not last: a permutation of `h` of the
same length whose last position holds the removed item and whose prefix is a heap -/
theorem sift_spec (h : T) (i : Nat) (hi : i < h.length - 1) :
    ∃ d : T, removeAt h i = d.dropLast ∧ d.length = h.length ∧ d.Perm h ∧
      d[h.length - 1]? = h[i]? ∧ (Inv h h.length → Inv d (h.length - 1)) := by
  have hil : i < h.length := by omega
  have hnl : h.length - 1 < h.length := by omega
  have hsl : (swap h i (h.length - 1)).length = h.length := swap_length _ _ _
  have hlast : (swap h i (h.length - 1))[h.length - 1]? = h[i]? := getElem?_swap_right h _ _ hil hnl
  have hexc : Inv h h.length → Exc (swap h i (h.length - 1)) (h.length - 1) i := by
    intro hinv
    have e3 : ∀ k, k ≠ i → k < h.length - 1 → prio (swap h i (h.length - 1)) k = prio h k :=
      fun k hk hkn => prio_swap_of_ne h _ _ k hk (by omega)
    refine ⟨?_, ?_⟩
    · intro k hk0 hkn hk hkp
      rw [e3 k hk hkn, e3 _ hkp (by omega)]
      exact hinv k hk0 (by omega)
    · intro c hc0 hcn hcp hi0
      rw [e3 c (by omega) hcn, e3 _ (by omega) (by omega)]
      exact (exc_of_inv hinv hil).2 c hc0 (by omega) hcp hi0
  rw [removeAt_of_ne h i (by omega)]
  split_ifs with c
  · refine ⟨_, rfl, by rw [downLoop_length, hsl], (downLoop_perm _ _ _).trans (swap_perm _ _ _), ?_, ?_⟩
    · rw [downLoop_frame _ _ _ hi _ (le_refl _), hlast]
    · intro hinv
      exact (downLoop_main _ _ _ (hexc hinv) hi (by omega)).2.1 (Or.inl c)
  · refine ⟨_, rfl, by rw [up_length, downLoop_length, hsl],
      ((up_perm _ _).trans (downLoop_perm _ _ _)).trans (swap_perm _ _ _), ?_, ?_⟩
    · rw [up_frame _ _ _ hi, downLoop_frame _ _ _ hi _ (le_refl _), hlast]
    · intro hinv
      obtain ⟨m1, _, m3⟩ := downLoop_main _ _ _ (hexc hinv) hi (by omega)
      obtain ⟨e, hc⟩ := m3 (by omega)
      rw [e]
      exact up_inv _ _ _ (hexc hinv) hi (by omega) hc

theorem removeAt_length (h : T) (i : Nat) (hi : i < h.length) : (removeAt h i).length = h.length - 1 := by
  by_cases c : i = h.length - 1
  · subst c; rw [removeAt_last]; simp
  · obtain ⟨d, e, hl, _⟩ := sift_spec h i (by omega)
    rw [e, List.length_dropLast, hl]

/-- Remove(i) removes exactly the item at position i -/
theorem removeAt_perm (h : T) (i : Nat) (x : Item) (hx : h[i]? = some x) : (x :: removeAt h i).Perm h := by
  have hi : i < h.length := (List.getElem?_eq_some_iff.1 hx).1
  by_cases c : i = h.length - 1
  · subst c; rw [removeAt_last]; exact dropLast_perm h x hx
  · obtain ⟨d, e, hl, hp, hlast, _⟩ := sift_spec h i (by omega)
    rw [e]
    exact (dropLast_perm d x (by rw [hl, hlast, hx])).trans hp

theorem removeAt_inv (h : T) (i : Nat) (hi : i < h.length) (hinv : Inv h h.length) :
    Inv (removeAt h i) (h.length - 1) := by
  by_cases c : i = h.length - 1
  · subst c; rw [removeAt_last]; exact (hinv.mono (by omega)).dropLast (le_refl _)
  · obtain ⟨d, e, hl, _, _, hd⟩ := sift_spec h i (by omega)
    rw [e]
    exact (hd hinv).dropLast (by omega)

theorem swap_self (h : T) (i : Nat) : swap h i i = h := by
  by_cases c : i < h.length
  · apply List.ext_getElem?
    intro k
    by_cases e : k = i
    · subst e; exact getElem?_swap_right h k k c c
    · exact getElem?_swap_of_ne h i i k e e
  · exact swap_of_not h i i (fun hh => c hh.1)

/-- `heap.Pop` is `heap.Remove(h, 0)` (`up _ 0` is the identity) -/
theorem pop_eq_removeAt (h : T) : pop h = removeAt h 0 := by
  by_cases c : h.length - 1 = 0
  · have e : removeAt h 0 = h.dropLast := by
      have := removeAt_last h; rw [c] at this; exact this
    rw [e]
    unfold pop down
    rw [c, downLoop_base _ _ _ (by omega), swap_self]
  · rw [removeAt_of_ne h 0 c]
    unfold pop down
    split_ifs with c2
    · rfl
    · rw [up_zero]

theorem pop_length (h : T) : (pop h).length = h.length - 1 := by
  rw [pop_eq_removeAt]
  by_cases c : 0 < h.length
  · exact removeAt_length h 0 c
  · have : h.length - 1 = 0 := by omega
    have e := removeAt_last h
    rw [this] at e; rw [e]; simp

/-- Pop removes exactly the top item -/
theorem pop_perm (h : T) (x : Item) (hx : top h = some x) : (x :: pop h).Perm h := by
  rw [pop_eq_removeAt]; exact removeAt_perm h 0 x hx

theorem pop_inv (h : T) (hinv : Inv h h.length) : Inv (pop h) (h.length - 1) := by
  by_cases c : 0 < h.length
  · rw [pop_eq_removeAt]; exact removeAt_inv h 0 c hinv
  · intro k hk0 hkn; omega

/-! ## the heap order -/

/-- the top has minimal priority -/
theorem top_min (h : T) (hinv : Inv h h.length) (k : Nat) (hk : k < h.length) : prio h 0 ≤ prio h k := by
  induction k using Nat.strong_induction_on with
  | _ k ih =>
    by_cases c : k = 0
    · subst c; exact le_refl _
    · exact le_trans (ih ((k - 1) / 2) (by omega) (by omega)) (hinv k (by omega) hk)

theorem removeKey_inv (h : T) (key : String) (hinv : Inv h h.length) :
    Inv (removeKey h key) (removeKey h key).length := by
  unfold removeKey
  split_ifs with c
  · rw [removeAt_length h _ c]; exact removeAt_inv h _ c hinv
  · exact hinv

theorem update_inv (h : T) (key : String) (p : Nat) (hinv : Inv h h.length) :
    Inv (update h key p) (update h key p).length := by
  unfold update
  rw [push_length]
  exact push_inv _ _ (removeKey_inv h key hinv)

/-- priority-level consequence: the top's priority is ≤ the priority of every item of the list -/
theorem top_le_all (h : T) (hinv : Inv h h.length) (x : Item) (hx : top h = some x) :
    ∀ y ∈ h, x.2 ≤ y.2 := by
  intro y hy
  obtain ⟨k, hk⟩ := List.mem_iff_getElem?.1 hy
  have hkl : k < h.length := (List.getElem?_eq_some_iff.1 hk).1
  have a := top_min h hinv k hkl
  rw [prio_of_getElem? hk, prio_of_getElem? (show h[0]? = some x from hx)] at a
  exact a

end Heap
