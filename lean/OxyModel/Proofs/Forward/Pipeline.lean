import OxyModel.Proofs.Forward.Tokens
/-! Lookups through the whole outgoing pipeline: Director → hop-by-hop removal → stdlib additions → wire. -/
namespace Fwd
open FwdURL

/-- names the stdlib writes itself after hop-by-hop removal (ReverseProxy) or on the wire (Transport) -/
def stdlibOwn : List String :=
  ["Te", "Connection", "Upgrade", "X-Forwarded-For", "User-Agent", "Content-Length", "Host", "Transfer-Encoding", "Trailer"]

/-- canonical names listed by the Connection header of `h` -/
def named (h : Hdr) : List String := (tokens (vals h Connection)).map canonKey

theorem lookup_removeHopByHop (h : Hdr) (k : String) :
    (removeHopByHop h).lookup k = if k ∈ hopHeaders ∨ k ∈ named h then none else h.lookup k := by
  simp only [removeHopByHop, lookup_delAll, named]
  by_cases h1 : k ∈ hopHeaders <;> by_cases h2 : k ∈ (tokens (vals h Connection)).map canonKey <;> simp [h1, h2]

theorem modifyRequest_header (r : Req) : (modifyRequest r).header = r.header := by simp [modifyRequest]
theorem modifyRequest_host (r : Req) : (modifyRequest r).host = r.host := by simp [modifyRequest]
theorem modifyRequest_remoteAddr (r : Req) : (modifyRequest r).remoteAddr = r.remoteAddr := by simp [modifyRequest]
theorem modifyRequest_tls (r : Req) : (modifyRequest r).tls = r.tls := by simp [modifyRequest]

theorem director_header (c : Cfg) (r : Req) :
    (director c r).header = protectForwardingHeaders (rewrite c (modifyRequest r)) := by
  simp only [director]; split <;> rfl

theorem lookup_stTe (i h : Hdr) (k : String) (hk : k ≠ "Te") : (stTe i h).lookup k = h.lookup k := by
  simp only [stTe]; split <;> simp [lookup_set, hk]
theorem lookup_stUpgrade (u : String) (h : Hdr) (k : String) (h1 : k ≠ Connection) (h2 : k ≠ "Upgrade") :
    (stUpgrade u h).lookup k = h.lookup k := by
  simp only [stUpgrade]; split <;> simp [lookup_set, h1, h2]
theorem lookup_stUserAgent (h : Hdr) (k : String) (hk : k ≠ "User-Agent") : (stUserAgent h).lookup k = h.lookup k := by
  simp only [stUserAgent]; split <;> simp [lookup_set, hk]
theorem lookup_appendXFF (a : String) (h : Hdr) (k : String) (hk : k ≠ XForwardedFor) :
    (appendXFF a h).lookup k = h.lookup k := by
  simp only [appendXFF]; split
  · simp [lookup_set, hk]
  · rfl
theorem lookup_wireHeader (h : Hdr) (m : String) (n : Nat) (k : String) (hm : k ∉ transportManaged) :
    (wireHeader h m n).lookup k = h.lookup k := by
  have h1 : k ≠ "User-Agent" := fun e => hm (by simp [transportManaged, e])
  have h2 : k ≠ "Content-Length" := fun e => hm (by simp [transportManaged, e])
  simp only [wireHeader]
  repeat' split
  all_goals simp [lookup_set, lookup_delAll, hm, h1, h2]

theorem lookup_wire (c : Cfg) (r : Req) (k : String) (hk : k ∉ stdlibOwn) :
    (wireHeader (outHeader c r) r.method r.bodyLen).lookup k = (removeHopByHop (director c r).header).lookup k := by
  simp only [stdlibOwn, List.mem_cons, List.not_mem_nil, or_false, not_or] at hk
  obtain ⟨h1, h2, h3, h4, h5, h6, h7, h8, h9⟩ := hk
  have hm : k ∉ transportManaged := by simp [transportManaged, h5, h6, h7, h8, h9]
  rw [lookup_wireHeader _ _ _ _ hm]
  simp only [outHeader]
  rw [lookup_stUserAgent _ _ h5, lookup_appendXFF _ _ _ h4, lookup_stUpgrade _ _ _ h2 h3, lookup_stTe _ _ _ h1]

end Fwd
