import OxyModel.Model.Forward
/-! Header-map algebra: `lookup` through `del`, `set`, `delAll`. -/
namespace Fwd

theorem lookup_filter_key (p : String → Bool) (l : Hdr) (k' : String) :
    (l.filter (fun e => p e.1)).lookup k' = if p k' then l.lookup k' else none := by
  induction l with
  | nil => simp
  | cons e t ih =>
    obtain ⟨a, b⟩ := e
    by_cases hpa : p a = true
    · rw [List.filter_cons_of_pos (by simpa using hpa)]
      by_cases hk : k' = a
      · subst hk; simp [hpa]
      · have : (k' == a) = false := by simpa using hk
        simp only [List.lookup_cons, this]; exact ih
    · rw [List.filter_cons_of_neg (by simpa using hpa)]
      by_cases hk : k' = a
      · subst hk; rw [ih]; simp [hpa]
      · have : (k' == a) = false := by simpa using hk
        simp only [List.lookup_cons, this]; exact ih

theorem lookup_del (h : Hdr) (k k' : String) :
    (del h k).lookup k' = if k' = k then none else h.lookup k' := by
  have := lookup_filter_key (fun x => decide (x ≠ k)) h k'
  simp only [del]
  rw [this]; by_cases hk : k' = k <;> simp [hk]
theorem lookup_set (h : Hdr) (k v k' : String) :
    (set h k v).lookup k' = if k' = k then some [v] else h.lookup k' := by
  by_cases hk : k' = k
  · subst hk; simp [set]
  · have : (k' == k) = false := by simpa using hk
    simp [set, List.lookup_cons, this, lookup_del, hk]

theorem lookup_delAll (ks : List String) (h : Hdr) (k' : String) :
    (delAll ks h).lookup k' = if k' ∈ ks then none else h.lookup k' := by
  induction ks generalizing h with
  | nil => simp [delAll]
  | cons k t ih =>
    simp only [delAll, List.foldl_cons] at ih ⊢
    rw [ih, lookup_del]
    by_cases h1 : k' ∈ t
    · simp [h1]
    · by_cases h2 : k' = k <;> simp [h1, h2]

theorem vals_del (h : Hdr) (k k' : String) : vals (del h k) k' = if k' = k then [] else vals h k' := by
  simp only [vals, lookup_del]; split <;> simp
theorem vals_set (h : Hdr) (k v k' : String) : vals (set h k v) k' = if k' = k then [v] else vals h k' := by
  simp only [vals, lookup_set]; split <;> simp
theorem vals_delAll (ks : List String) (h : Hdr) (k' : String) :
    vals (delAll ks h) k' = if k' ∈ ks then [] else vals h k' := by
  simp only [vals, lookup_delAll]; split <;> simp
theorem has_del (h : Hdr) (k k' : String) : has (del h k) k' = if k' = k then false else has h k' := by
  simp only [has, lookup_del]; split <;> simp
theorem has_set (h : Hdr) (k v k' : String) : has (set h k v) k' = if k' = k then true else has h k' := by
  simp only [has, lookup_set]; split <;> simp
theorem has_delAll (ks : List String) (h : Hdr) (k' : String) :
    has (delAll ks h) k' = if k' ∈ ks then false else has h k' := by
  simp only [has, lookup_delAll]; split <;> simp
theorem get_set (h : Hdr) (k v k' : String) : get (set h k v) k' = if k' = k then v else get h k' := by
  simp only [get, vals_set]; split <;> simp

end Fwd
