import OxyModel.Proofs.Forward.Pipeline
/-! What `HeaderRewriter.Rewrite` leaves in each forwarding header. -/
namespace Fwd
open FwdURL

theorem lookup_rwTrust (t : Bool) (h : Hdr) (k : String) (hk : k ∉ XHeaders) : (rwTrust t h).lookup k = h.lookup k := by
  simp only [rwTrust]; split <;> simp [lookup_delAll, hk]
theorem rwTrust_true (h : Hdr) : rwTrust true h = h := by simp [rwTrust]
theorem lookup_rwRealIP (a : String) (h : Hdr) (k : String) (hk : k ≠ XRealIP) : (rwRealIP a h).lookup k = h.lookup k := by
  simp only [rwRealIP]; repeat' split
  all_goals simp [lookup_set, hk]
theorem lookup_rwProto (t : Bool) (h : Hdr) (k : String) (hk : k ≠ XForwardedProto) : (rwProto t h).lookup k = h.lookup k := by
  simp only [rwProto]; split <;> simp [lookup_set, hk]
theorem lookup_rwPort (a : String) (t : Bool) (h : Hdr) (k : String) (hk : k ≠ XForwardedPort) : (rwPort a t h).lookup k = h.lookup k := by
  simp only [rwPort]; split <;> simp [lookup_set, hk]
theorem lookup_rwHost (a : String) (h : Hdr) (k : String) (hk : k ≠ XForwardedHost) : (rwHost a h).lookup k = h.lookup k := by
  simp only [rwHost]; split <;> simp [lookup_set, hk]
theorem lookup_rwServer (a : String) (h : Hdr) (k : String) (hk : k ≠ XForwardedServer) : (rwServer a h).lookup k = h.lookup k := by
  simp only [rwServer]; split <;> simp [lookup_set, hk]

theorem lookup_rewrite_other (c : Cfg) (r : Req) (k : String) (hk : k ∉ XHeaders) :
    (rewrite c r).lookup k = r.header.lookup k := by
  have hk' := hk
  simp only [XHeaders, List.mem_cons, List.not_mem_nil, or_false, not_or] at hk'
  obtain ⟨h1, h2, h3, h4, h5, h6⟩ := hk'
  simp only [rewrite]
  rw [lookup_rwServer _ _ _ h5, lookup_rwHost _ _ _ h3, lookup_rwPort _ _ _ _ h4, lookup_rwProto _ _ _ h1,
    lookup_rwRealIP _ _ _ h6, lookup_rwTrust _ _ _ hk]

theorem vals_eq_of_lookup {h h' : Hdr} {k : String} (e : h.lookup k = h'.lookup k) : vals h k = vals h' k := by
  simp [vals, e]
theorem get_eq_of_lookup {h h' : Hdr} {k : String} (e : h.lookup k = h'.lookup k) : get h k = get h' k := by
  simp [get, vals, e]

theorem vals_rewrite_proto (c : Cfg) (r : Req) (ht : c.trust = true) :
    vals (rewrite c r) XForwardedProto =
      if get r.header XForwardedProto = "" then [if r.tls then "https" else "http"] else vals r.header XForwardedProto := by
  simp only [rewrite, ht, rwTrust_true]
  rw [vals_eq_of_lookup (lookup_rwServer _ _ _ (by decide)), vals_eq_of_lookup (lookup_rwHost _ _ _ (by decide)),
    vals_eq_of_lookup (lookup_rwPort _ _ _ _ (by decide))]
  have e := get_eq_of_lookup (lookup_rwRealIP r.remoteAddr r.header XForwardedProto (by decide))
  have e2 := vals_eq_of_lookup (lookup_rwRealIP r.remoteAddr r.header XForwardedProto (by decide))
  simp only [rwProto, e]
  split <;> simp [vals_set, e2]

theorem vals_rewrite_realip (c : Cfg) (r : Req) (ht : c.trust = true) :
    vals (rewrite c r) XRealIP =
      match splitHostPort r.remoteAddr with
      | some (ip, _) => if get r.header XRealIP = "" then [ipv6fix ip] else vals r.header XRealIP
      | none => vals r.header XRealIP := by
  simp only [rewrite, ht, rwTrust_true]
  rw [vals_eq_of_lookup (lookup_rwServer _ _ _ (by decide)), vals_eq_of_lookup (lookup_rwHost _ _ _ (by decide)),
    vals_eq_of_lookup (lookup_rwPort _ _ _ _ (by decide)), vals_eq_of_lookup (lookup_rwProto _ _ _ (by decide))]
  simp only [rwRealIP]
  cases hs : splitHostPort r.remoteAddr with
  | none => simp
  | some p =>
    obtain ⟨ip, port⟩ := p
    simp only []
    split <;> simp [vals_set]

theorem vals_rewrite_host (c : Cfg) (r : Req) (ht : c.trust = true) :
    vals (rewrite c r) XForwardedHost =
      if get r.header XForwardedHost = "" ∧ r.host ≠ "" then [r.host] else vals r.header XForwardedHost := by
  simp only [rewrite, ht, rwTrust_true]
  rw [vals_eq_of_lookup (lookup_rwServer _ _ _ (by decide))]
  have l : ∀ k, k ≠ XForwardedPort → k ≠ XForwardedProto → k ≠ XRealIP →
      (rwPort r.host r.tls (rwProto r.tls (rwRealIP r.remoteAddr r.header))).lookup k = r.header.lookup k := by
    intro k h1 h2 h3
    rw [lookup_rwPort _ _ _ _ h1, lookup_rwProto _ _ _ h2, lookup_rwRealIP _ _ _ h3]
  have e := get_eq_of_lookup (l XForwardedHost (by decide) (by decide) (by decide))
  have e2 := vals_eq_of_lookup (l XForwardedHost (by decide) (by decide) (by decide))
  generalize rwPort r.host r.tls (rwProto r.tls (rwRealIP r.remoteAddr r.header)) = H at e e2 ⊢
  simp only [rwHost, e]
  by_cases h1 : get r.header XForwardedHost = "" <;> by_cases h2 : r.host = "" <;> simp [h1, h2, vals_set, e2]

/-- `forwardedPort` as a function of the effective X-Forwarded-Proto value -/
def portFor (host proto : String) (tls : Bool) : String :=
  match splitHostPort host with
  | some (_, port) =>
    if port ≠ "" then port
    else if proto = "https" || proto = "wss" then "443"
    else if tls then "443" else "80"
  | none =>
    if proto = "https" || proto = "wss" then "443"
    else if tls then "443" else "80"

theorem forwardedPort_eq (host : String) (h : Hdr) (tls : Bool) :
    forwardedPort host h tls = portFor host (get h XForwardedProto) tls := rfl

/-- the X-Forwarded-Proto value the backend will see -/
def effProto (r : Req) : String :=
  if get r.header XForwardedProto = "" then (if r.tls then "https" else "http") else get r.header XForwardedProto

theorem vals_rewrite_port (c : Cfg) (r : Req) (ht : c.trust = true) :
    vals (rewrite c r) XForwardedPort =
      if get r.header XForwardedPort = "" then [portFor r.host (effProto r) r.tls] else vals r.header XForwardedPort := by
  simp only [rewrite, ht, rwTrust_true]
  rw [vals_eq_of_lookup (lookup_rwServer _ _ _ (by decide)), vals_eq_of_lookup (lookup_rwHost _ _ _ (by decide))]
  have l : ∀ k, k ≠ XForwardedProto → k ≠ XRealIP →
      (rwProto r.tls (rwRealIP r.remoteAddr r.header)).lookup k = r.header.lookup k := by
    intro k h2 h3
    rw [lookup_rwProto _ _ _ h2, lookup_rwRealIP _ _ _ h3]
  have e := get_eq_of_lookup (l XForwardedPort (by decide) (by decide))
  have e2 := vals_eq_of_lookup (l XForwardedPort (by decide) (by decide))
  have ep : get (rwProto r.tls (rwRealIP r.remoteAddr r.header)) XForwardedProto = effProto r := by
    have e3 := get_eq_of_lookup (lookup_rwRealIP r.remoteAddr r.header XForwardedProto (by decide))
    simp only [rwProto, effProto, e3]
    split <;> simp_all [get_set]
  simp only [rwPort, e, forwardedPort_eq, ep]
  split <;> simp [vals_set, e2]

theorem vals_rewrite_server (c : Cfg) (r : Req) (hn : c.hostname ≠ "") :
    vals (rewrite c r) XForwardedServer = [c.hostname] := by
  simp [rewrite, rwServer, hn, vals_set]

theorem vals_rewrite_xff (c : Cfg) (r : Req) (ht : c.trust = true) :
    vals (rewrite c r) XForwardedFor = vals r.header XForwardedFor := by
  simp only [rewrite, ht, rwTrust_true]
  exact vals_eq_of_lookup (by
    rw [lookup_rwServer _ _ _ (by decide), lookup_rwHost _ _ _ (by decide), lookup_rwPort _ _ _ _ (by decide),
      lookup_rwProto _ _ _ (by decide), lookup_rwRealIP _ _ _ (by decide)])

end Fwd
