import OxyModel.Model.Forward
/-! `net/url` round trip of valid origin-form request targets. -/
namespace FwdURL

theorem char_le_iff (a b : Char) : a ≤ b ↔ a.toNat ≤ b.toNat := by
  rw [Char.le_def, UInt32.le_iff_toNat_le]; rfl

theorem isAlnum_range (c : Char) (h : isAlnum c = true) : 0x30 ≤ c.toNat ∧ c.toNat ≤ 0x7a := by
  simp only [isAlnum, Bool.or_eq_true, Bool.and_eq_true, decide_eq_true_eq, char_le_iff] at h
  simp only [Char.reduceToNat] at h
  omega

def pchar (c : Char) : Bool := isAlnum c || "-._~!$&'()*+,;=:@".toList.contains c

theorem pchar_cases (c : Char) (h : pchar c = true) :
    isAlnum c = true ∨ c ∈ ['-', '.', '_', '~', '!', '$', '&', '\'', '(', ')', '*', '+', ',', ';', '=', ':', '@'] := by
  simp only [pchar, Bool.or_eq_true] at h
  rcases h with h | h
  · exact Or.inl h
  · right; simpa using h

theorem isAlnum_validEncodedChar (c : Char) (h : isAlnum c = true) : validEncodedChar c = true := by
  simp [validEncodedChar, shouldEscape, h]

theorem pchar_validEncodedChar (c : Char) (h : pchar c = true ∨ c = '/') : validEncodedChar c = true := by
  rcases h with h | h
  · rcases pchar_cases c h with h | h
    · exact isAlnum_validEncodedChar c h
    · simp only [List.mem_cons, List.not_mem_nil, or_false] at h
      rcases h with h | h | h | h | h | h | h | h | h | h | h | h | h | h | h | h | h <;> subst h <;> decide
  · subst h; decide

/-! ## valid origin-form targets (RFC 3986: `"/" *( pchar / "/" )  [ "?" *( pchar / "/" / "?" ) ]`) -/

/-- path bytes: `pchar` (without `%`), `/`, or a well-formed `%XY` triple -/
def validPathTail : Bytes → Bool
  | [] => true
  | c :: rest =>
    if c = '%' then
      match rest with
      | a :: b :: rest' => ishex a && ishex b && validPathTail rest'
      | _ => false
    else (pchar c || c = '/') && validPathTail rest

def validPath (p : Bytes) : Bool := p.head? = some '/' && validPathTail p

/-- query bytes: `pchar`, `/`, `?`, and `%` (Go does not inspect escapes in the query; a superset of the RFC) -/
def qchar (c : Char) : Bool := pchar c || c = '/' || c = '?' || c = '%'
def validQuery (q : Bytes) : Bool := q.all qchar

theorem ishex_isAlnum (c : Char) (h : ishex c = true) : isAlnum c = true := by
  simp only [ishex, isAlnum, Bool.or_eq_true, Bool.and_eq_true, decide_eq_true_eq, char_le_iff, Char.reduceToNat] at h ⊢
  omega

theorem pchar_not_special (c : Char) (h : pchar c = true ∨ c = '/') :
    c ≠ '?' ∧ c ≠ '%' ∧ ¬ (c.toNat < 0x20 ∨ c.toNat = 0x7f) := by
  rcases h with h | h
  · rcases pchar_cases c h with h | h
    · have := isAlnum_range c h
      refine ⟨?_, ?_, by omega⟩ <;> (intro e; subst e; exact absurd h (by decide))
    · simp only [List.mem_cons, List.not_mem_nil, or_false] at h
      rcases h with h | h | h | h | h | h | h | h | h | h | h | h | h | h | h | h | h <;> subst h <;> decide
  · subst h; decide

theorem validPathTail_facts (p : Bytes) (h : validPathTail p = true) :
    (∃ P, unescape p = some P) ∧ validEncoded p = true ∧ '?' ∉ p ∧ containsCTL p = false := by
  induction p using validPathTail.induct with
  | case1 => simp [unescape, validEncoded, containsCTL]
  | case2 a b rest' ih =>
    simp only [validPathTail, if_true, Bool.and_eq_true] at h
    obtain ⟨⟨ha, hb⟩, hr⟩ := h
    obtain ⟨⟨P, hP⟩, hv, hq, hc⟩ := ih hr
    have va := pchar_not_special a (Or.inl (by simp [pchar, ishex_isAlnum a ha]))
    have vb := pchar_not_special b (Or.inl (by simp [pchar, ishex_isAlnum b hb]))
    refine ⟨⟨Char.ofNat (unhex a * 16 + unhex b) :: P, by simp [unescape, ha, hb, hP]⟩, ?_, ?_, ?_⟩
    · simp only [validEncoded, List.all_cons, Bool.and_eq_true]
      exact ⟨by decide, isAlnum_validEncodedChar a (ishex_isAlnum a ha), isAlnum_validEncodedChar b (ishex_isAlnum b hb), hv⟩
    · simp only [List.mem_cons, not_or]
      exact ⟨by decide, fun e => va.1 e.symm, fun e => vb.1 e.symm, hq⟩
    · simp only [containsCTL, List.any_cons, Bool.or_eq_false_iff] at hc ⊢
      refine ⟨by decide, ?_, ?_, hc⟩
      · simpa using va.2.2
      · simpa using vb.2.2
  | case3 rest hrest =>
    simp only [validPathTail, if_true] at h
    exact absurd h (by decide)
  | case4 c rest hc ih =>
    unfold validPathTail at h
    simp only [hc, if_false, Bool.and_eq_true, Bool.or_eq_true, decide_eq_true_eq] at h
    obtain ⟨hpc, hr⟩ := h
    obtain ⟨⟨P, hP⟩, hv, hq, hctl⟩ := ih hr
    have vc := pchar_not_special c hpc
    refine ⟨⟨c :: P, by unfold unescape; simp [hc, hP]⟩, ?_, ?_, ?_⟩
    · simp only [validEncoded, List.all_cons, Bool.and_eq_true]
      exact ⟨pchar_validEncodedChar c hpc, hv⟩
    · simp only [List.mem_cons, not_or]; exact ⟨fun e => vc.1 e.symm, hq⟩
    · simp only [containsCTL, List.any_cons, Bool.or_eq_false_iff] at hctl ⊢
      exact ⟨by simpa using vc.2.2, hctl⟩

theorem validQuery_noCTL (q : Bytes) (h : validQuery q = true) : containsCTL q = false := by
  induction q with
  | nil => simp [containsCTL]
  | cons c r ih =>
    simp only [validQuery, List.all_cons, Bool.and_eq_true] at h
    have hr := ih (by simpa [validQuery] using h.2)
    simp only [containsCTL, List.any_cons, Bool.or_eq_false_iff] at hr ⊢
    refine ⟨?_, hr⟩
    have hc := h.1
    simp only [qchar, Bool.or_eq_true, decide_eq_true_eq] at hc
    rcases hc with ((hc | hc) | hc) | hc
    · simpa using (pchar_not_special c (Or.inl hc)).2.2
    · simpa using (pchar_not_special c (Or.inr hc)).2.2
    · subst hc; decide
    · subst hc; decide

theorem containsCTL_append (a b : Bytes) : containsCTL (a ++ b) = (containsCTL a || containsCTL b) := by
  simp [containsCTL]

theorem cutQ_noq (p : Bytes) (h : '?' ∉ p) : cutQ p = (p, none) := by
  induction p with
  | nil => rfl
  | cons c r ih =>
    have hc : c ≠ '?' := fun e => h (by simp [e])
    have hr : '?' ∉ r := fun e => h (by simp [e])
    simp [cutQ, hc, ih hr]

theorem cutQ_append (p q : Bytes) (h : '?' ∉ p) : cutQ (p ++ '?' :: q) = (p, some q) := by
  induction p with
  | nil => simp [cutQ]
  | cons c r ih =>
    have hc : c ≠ '?' := fun e => h (by simp [e])
    have hr : '?' ∉ r := fun e => h (by simp [e])
    simp [cutQ, hc, ih hr]

/-- the `ForceQuery` test of `url.parse` is false unless the target is `path?` with nothing after the `?` -/
theorem forceQuery_test_false (p q : Bytes) (hp : '?' ∉ p) (hq : q ≠ []) :
    ((p ++ '?' :: q).getLast? = some '?' && (p ++ '?' :: q).count '?' = 1) = false := by
  by_cases hc : (p ++ '?' :: q).count '?' = 1
  · have h0 : q.count '?' = 0 := by
      simp only [List.count_append, List.count_cons_self] at hc
      have : p.count '?' = 0 := List.count_eq_zero.mpr hp
      omega
    have hnq : '?' ∉ q := List.count_eq_zero.mp h0
    have hl : (p ++ '?' :: q).getLast? = q.getLast? := by
      rw [List.getLast?_append, List.getLast?_cons]
      cases hq' : q.getLast? with
      | none => exact absurd (List.getLast?_eq_none_iff.mp hq') hq
      | some x => simp
    have : q.getLast? ≠ some '?' := fun e => hnq (List.mem_of_getLast? e)
    simp [hl, this]
  · simp only [Bool.and_eq_false_iff, decide_eq_false_iff_not]; right; exact hc

theorem forceQuery_test_false_noq (p : Bytes) (hp : '?' ∉ p) :
    (p.getLast? = some '?' && p.count '?' = 1) = false := by
  have : p.count '?' = 0 := List.count_eq_zero.mpr hp
  simp [this]

/-- `setPath` on a valid path, and what `EscapedPath` then returns -/
theorem escapedPath_setPath (u0 : URL) (p : Bytes) (hv : validPath p = true) :
    ∃ u, setPath u0 p = some u ∧ u.forceQuery = u0.forceQuery ∧ u.rawQuery = u0.rawQuery ∧
      ∀ v : URL, v.path = u.path → v.rawPath = u.rawPath → escapedPath v = p := by
  simp only [validPath, Bool.and_eq_true, decide_eq_true_eq] at hv
  obtain ⟨hhead, htail⟩ := hv
  obtain ⟨⟨P, hP⟩, hve, -, -⟩ := validPathTail_facts p htail
  obtain ⟨r, rfl⟩ : ∃ r, p = '/' :: r := by
    cases p with
    | nil => simp at hhead
    | cons c r => simp at hhead; exact ⟨r, by rw [hhead]⟩
  by_cases he : '/' :: r = escape P
  · refine ⟨{ u0 with path := P, rawPath := [] }, by simp only [setPath, hP]; rw [if_pos he], rfl, rfl, ?_⟩
    intro v hv1 hv2
    have hstar : P ≠ ['*'] := by
      intro e; subst e; simp [escape, shouldEscape, isAlnum] at he
    simp only [] at hv1 hv2
    simp [escapedPath, hv1, hv2, hstar, he]
  · refine ⟨{ u0 with path := P, rawPath := '/' :: r }, by simp only [setPath, hP]; rw [if_neg he], rfl, rfl, ?_⟩
    intro v hv1 hv2
    simp only [] at hv1 hv2
    simp [escapedPath, hv1, hv2, hve, hP]

/-- the origin-form target `path[?query]` -/
def target (p : Bytes) (q : Option Bytes) : Bytes := p ++ (match q with | some q' => '?' :: q' | none => [])

theorem forceQuery_test_true (p : Bytes) (hp : '?' ∉ p) :
    ((p ++ ['?']).getLast? = some '?' && (p ++ ['?']).count '?' = 1) = true := by
  have : p.count '?' = 0 := List.count_eq_zero.mpr hp
  simp [List.count_append, this]

/-- **request-target round trip** at the level of `net/url`: parse a valid target, copy path, raw path, raw query
and the force-query flag into any URL, print the request URI: the same bytes. -/
theorem requestURI_parse (base : URL) (p : Bytes) (q : Option Bytes)
    (hp : validPath p = true) (hq : ∀ q', q = some q' → validQuery q' = true) :
    ∃ u, parseRequestURI (target p q) = some u ∧
      requestURI { base with path := u.path, rawPath := u.rawPath, rawQuery := u.rawQuery, forceQuery := u.forceQuery }
        = target p q := by
  simp only [target]
  have hv := hp
  simp only [validPath, Bool.and_eq_true, decide_eq_true_eq] at hv
  obtain ⟨hhead, htail⟩ := hv
  obtain ⟨-, -, hnq, hctl⟩ := validPathTail_facts p htail
  obtain ⟨r, rfl⟩ : ∃ r, p = '/' :: r := by
    cases p with
    | nil => simp at hhead
    | cons c r => simp at hhead; exact ⟨r, by rw [hhead]⟩
  cases q with
  | none =>
    obtain ⟨u, hu, hf, hrq, hesc⟩ := escapedPath_setPath { rawQuery := [] } ('/' :: r) hp
    refine ⟨u, ?_, ?_⟩
    · simp only [List.append_nil, parseRequestURI, hctl]
      have := forceQuery_test_false_noq _ hnq
      simp only [Bool.false_eq_true, if_false, this, cutQ_noq _ hnq, Option.getD_none]
      exact hu
    · have := hesc { base with path := u.path, rawPath := u.rawPath, rawQuery := u.rawQuery, forceQuery := u.forceQuery } rfl rfl
      simp only [List.append_nil, requestURI]; rw [this]; simp [hf, hrq]
  | some q' =>
    have hvq := hq q' rfl
    have hc : containsCTL ('/' :: r ++ '?' :: q') = false := by
      rw [containsCTL_append, hctl, Bool.false_or]
      have := validQuery_noCTL q' hvq
      simp only [containsCTL, List.any_cons, Bool.or_eq_false_iff] at this ⊢
      exact ⟨by decide, this⟩
    by_cases hne : q' = []
    · subst hne
      obtain ⟨u, hu, hf, hrq, hesc⟩ := escapedPath_setPath { forceQuery := true } ('/' :: r) hp
      refine ⟨u, ?_, ?_⟩
      · have hfq := forceQuery_test_true _ hnq
        simp only [parseRequestURI, hc, Bool.false_eq_true, if_false]
        simp only [List.cons_append] at hfq ⊢
        simp only [hfq, if_true]
        have : ('/' :: (r ++ ['?'])).dropLast = '/' :: r := by
          rw [← List.cons_append, List.dropLast_concat]
        rw [this]; exact hu
      · have := hesc { base with path := u.path, rawPath := u.rawPath, rawQuery := u.rawQuery, forceQuery := u.forceQuery } rfl rfl
        simp only [requestURI]; rw [this]; simp [hf, hrq]
    · obtain ⟨u, hu, hf, hrq, hesc⟩ := escapedPath_setPath { rawQuery := q' } ('/' :: r) hp
      refine ⟨u, ?_, ?_⟩
      · have hfq := forceQuery_test_false _ q' hnq hne
        simp only [parseRequestURI, hc, Bool.false_eq_true, if_false]
        simp only [List.cons_append] at hfq ⊢
        simp only [hfq, Bool.false_eq_true, if_false]
        have := cutQ_append _ q' hnq
        simp only [List.cons_append] at this
        simp only [this, Option.getD_some]
        exact hu
      · have := hesc { base with path := u.path, rawPath := u.rawPath, rawQuery := u.rawQuery, forceQuery := u.forceQuery } rfl rfl
        simp only [requestURI]; rw [this]; simp [hf, hrq, hne]

end FwdURL
