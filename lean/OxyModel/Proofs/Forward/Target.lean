import OxyModel.Model.Forward
/-! `net/url` round trip of valid origin-form request targets. -/
namespace FwdURL

theorem char_le_iff (a b : Char) : a ≤ b ↔ a.toNat ≤ b.toNat := by
  rw [Char.le_def, UInt32.le_iff_toNat_le]; rfl

theorem isAlnum_range (c : Char) (h : isAlnum c = true) : 0x30 ≤ c.toNat ∧ c.toNat ≤ 0x7a := by
  simp only [isAlnum, Bool.or_eq_true, Bool.and_eq_true, decide_eq_true_eq, char_le_iff] at h
  simp only [Char.reduceToNat] at h
  omega

def pchar (c : Char) : Bool := isAlnum c || "-._~!$&'()*+,;=:@".toList.contains c

theorem pchar_cases (c : Char) (h : pchar c = true) :
    isAlnum c = true ∨ c ∈ ['-', '.', '_', '~', '!', '$', '&', '\'', '(', ')', '*', '+', ',', ';', '=', ':', '@'] := by
  simp only [pchar, Bool.or_eq_true] at h
  rcases h with h | h
  · exact Or.inl h
  · right; simpa using h

theorem isAlnum_validEncodedChar (c : Char) (h : isAlnum c = true) : validEncodedChar c = true := by
  simp [validEncodedChar, shouldEscape, h]

theorem pchar_validEncodedChar (c : Char) (h : pchar c = true ∨ c = '/') : validEncodedChar c = true := by
  rcases h with h | h
  · rcases pchar_cases c h with h | h
    · exact isAlnum_validEncodedChar c h
    · simp only [List.mem_cons, List.not_mem_nil, or_false] at h
      rcases h with h | h | h | h | h | h | h | h | h | h | h | h | h | h | h | h | h <;> subst h <;> decide
  · subst h; decide

/-! ## valid origin-form targets (RFC 3986: `"/" *( pchar / "/" )  [ "?" *( pchar / "/" / "?" ) ]`) -/

/-- path bytes: `pchar` (without `%`), `/`, or a well-formed `%XY` triple -/
def validPathTail : Bytes → Bool
  | [] => true
  | c :: rest =>
    if c = '%' then
      match rest with
      | a :: b :: rest' => ishex a && ishex b && validPathTail rest'
      | _ => false
    else (pchar c || c = '/') && validPathTail rest

def validPath (p : Bytes) : Bool := p.head? = some '/' && validPathTail p

/-- query bytes: `pchar`, `/`, `?`, and `%` (Go does not inspect escapes in the query; a superset of the RFC) -/
def qchar (c : Char) : Bool := pchar c || c = '/' || c = '?' || c = '%'
def validQuery (q : Bytes) : Bool := q.all qchar

theorem ishex_isAlnum (c : Char) (h : ishex c = true) : isAlnum c = true := by
  simp only [ishex, isAlnum, Bool.or_eq_true, Bool.and_eq_true, decide_eq_true_eq, char_le_iff, Char.reduceToNat] at h ⊢
  omega

theorem pchar_not_special (c : Char) (h : pchar c = true ∨ c = '/') :
    c ≠ '?' ∧ c ≠ '%' ∧ ¬ (c.toNat < 0x20 ∨ c.toNat = 0x7f) := by
  rcases h with h | h
  · rcases pchar_cases c h with h | h
    · have := isAlnum_range c h
      refine ⟨?_, ?_, by omega⟩ <;> (intro e; subst e; exact absurd h (by decide))
    · simp only [List.mem_cons, List.not_mem_nil, or_false] at h
      rcases h with h | h | h | h | h | h | h | h | h | h | h | h | h | h | h | h | h <;> subst h <;> decide
  · subst h; decide

theorem validPathTail_facts (p : Bytes) (h : validPathTail p = true) :
    (∃ P, unescape p = some P) ∧ validEncoded p = true ∧ '?' ∉ p ∧ containsCTL p = false := by
  induction p using validPathTail.induct with
  | case1 => simp [unescape, validEncoded, containsCTL]
  | case2 a b rest' ih =>
    simp only [validPathTail, if_true, Bool.and_eq_true] at h
    obtain ⟨⟨ha, hb⟩, hr⟩ := h
    obtain ⟨⟨P, hP⟩, hv, hq, hc⟩ := ih hr
    have va := pchar_not_special a (Or.inl (by simp [pchar, ishex_isAlnum a ha]))
    have vb := pchar_not_special b (Or.inl (by simp [pchar, ishex_isAlnum b hb]))
    refine ⟨⟨Char.ofNat (unhex a * 16 + unhex b) :: P, by simp [unescape, ha, hb, hP]⟩, ?_, ?_, ?_⟩
    · simp only [validEncoded, List.all_cons, Bool.and_eq_true]
      exact ⟨by decide, isAlnum_validEncodedChar a (ishex_isAlnum a ha), isAlnum_validEncodedChar b (ishex_isAlnum b hb), hv⟩
    · simp only [List.mem_cons, not_or]
      exact ⟨by decide, fun e => va.1 e.symm, fun e => vb.1 e.symm, hq⟩
    · simp only [containsCTL, List.any_cons, Bool.or_eq_false_iff] at hc ⊢
      refine ⟨by decide, ?_, ?_, hc⟩
      · simpa using va.2.2
      · simpa using vb.2.2
  | case3 rest hrest =>
    simp only [validPathTail, if_true] at h
    exact absurd h (by decide)
  | case4 c rest hc ih =>
    unfold validPathTail at h
    simp only [hc, if_false, Bool.and_eq_true, Bool.or_eq_true, decide_eq_true_eq] at h
    obtain ⟨hpc, hr⟩ := h
    obtain ⟨⟨P, hP⟩, hv, hq, hctl⟩ := ih hr
    have vc := pchar_not_special c hpc
    refine ⟨⟨c :: P, by unfold unescape; simp [hc, hP]⟩, ?_, ?_, ?_⟩
    · simp only [validEncoded, List.all_cons, Bool.and_eq_true]
      exact ⟨pchar_validEncodedChar c hpc, hv⟩
    · simp only [List.mem_cons, not_or]; exact ⟨fun e => vc.1 e.symm, hq⟩
    · simp only [containsCTL, List.any_cons, Bool.or_eq_false_iff] at hctl ⊢
      exact ⟨by simpa using vc.2.2, hctl⟩

theorem validQuery_noCTL (q : Bytes) (h : validQuery q = true) : containsCTL q = false := by
  induction q with
  | nil => simp [containsCTL]
  | cons c r ih =>
    simp only [validQuery, List.all_cons, Bool.and_eq_true] at h
    have hr := ih (by simpa [validQuery] using h.2)
    simp only [containsCTL, List.any_cons, Bool.or_eq_false_iff] at hr ⊢
    refine ⟨?_, hr⟩
    have hc := h.1
    simp only [qchar, Bool.or_eq_true, decide_eq_true_eq] at hc
    rcases hc with ((hc | hc) | hc) | hc
    · simpa using (pchar_not_special c (Or.inl hc)).2.2
    · simpa using (pchar_not_special c (Or.inr hc)).2.2
    · subst hc; decide
    · subst hc; decide

theorem containsCTL_append (a b : Bytes) : containsCTL (a ++ b) = (containsCTL a || containsCTL b) := by
  simp [containsCTL]

theorem cutQ_noq (p : Bytes) (h : '?' ∉ p) : cutQ p = (p, none) := by
  induction p with
  | nil => rfl
  | cons c r ih =>
    have hc : c ≠ '?' := fun e => h (by simp [e])
    have hr : '?' ∉ r := fun e => h (by simp [e])
    simp [cutQ, hc, ih hr]

theorem cutQ_append (p q : Bytes) (h : '?' ∉ p) : cutQ (p ++ '?' :: q) = (p, some q) := by
  induction p with
  | nil => simp [cutQ]
  | cons c r ih =>
    have hc : c ≠ '?' := fun e => h (by simp [e])
    have hr : '?' ∉ r := fun e => h (by simp [e])
    simp [cutQ, hc, ih hr]

/-- the `ForceQuery` test of `url.parse` is false unless the target is `path?` with nothing after the `?` -/
theorem forceQuery_test_false (p q : Bytes) (hp : '?' ∉ p) (hq : q ≠ []) :
    ((p ++ '?' :: q).getLast? = some '?' && (p ++ '?' :: q).count '?' = 1) = false := by
  by_cases hc : (p ++ '?' :: q).count '?' = 1
  · have h0 : q.count '?' = 0 := by
      simp only [List.count_append, List.count_cons_self] at hc
      have : p.count '?' = 0 := List.count_eq_zero.mpr hp
      omega
    have hnq : '?' ∉ q := List.count_eq_zero.mp h0
    have hl : (p ++ '?' :: q).getLast? = q.getLast? := by
      rw [List.getLast?_append, List.getLast?_cons]
      cases hq' : q.getLast? with
      | none => exact absurd (List.getLast?_eq_none_iff.mp hq') hq
      | some x => simp
    have : q.getLast? ≠ some '?' := fun e => hnq (List.mem_of_getLast? e)
    simp [hl, this]
  · simp only [Bool.and_eq_false_iff, decide_eq_false_iff_not]; right; exact hc

theorem forceQuery_test_false_noq (p : Bytes) (hp : '?' ∉ p) :
    (p.getLast? = some '?' && p.count '?' = 1) = false := by
  have : p.count '?' = 0 := List.count_eq_zero.mpr hp
  simp [this]

/-- `setPath` on a valid path, and what `EscapedPath` then returns -/
theorem escapedPath_setPath (u0 : URL) (p : Bytes) (hv : validPath p = true) :
    ∃ u, setPath u0 p = some u ∧ u.forceQuery = u0.forceQuery ∧ u.rawQuery = u0.rawQuery ∧
      ∀ v : URL, v.path = u.path → v.rawPath = u.rawPath → escapedPath v = p := by
  simp only [validPath, Bool.and_eq_true, decide_eq_true_eq] at hv
  obtain ⟨hhead, htail⟩ := hv
  obtain ⟨⟨P, hP⟩, hve, -, -⟩ := validPathTail_facts p htail
  obtain ⟨r, rfl⟩ : ∃ r, p = '/' :: r := by
    cases p with
    | nil => simp at hhead
    | cons c r => simp at hhead; exact ⟨r, by rw [hhead]⟩
  by_cases he : '/' :: r = escape P
  · refine ⟨{ u0 with path := P, rawPath := [] }, by simp only [setPath, hP]; rw [if_pos he], rfl, rfl, ?_⟩
    intro v hv1 hv2
    have hstar : P ≠ ['*'] := by
      intro e; subst e; simp [escape, shouldEscape, isAlnum] at he
    simp only [] at hv1 hv2
    simp [escapedPath, hv1, hv2, hstar, he]
  · refine ⟨{ u0 with path := P, rawPath := '/' :: r }, by simp only [setPath, hP]; rw [if_neg he], rfl, rfl, ?_⟩
    intro v hv1 hv2
    simp only [] at hv1 hv2
    simp [escapedPath, hv1, hv2, hve, hP]

/-- the origin-form target `path[?query]` -/
def target (p : Bytes) (q : Option Bytes) : Bytes := p ++ (match q with | some q' => '?' :: q' | none => [])

theorem forceQuery_test_true (p : Bytes) (hp : '?' ∉ p) :
    ((p ++ ['?']).getLast? = some '?' && (p ++ ['?']).count '?' = 1) = true := by
  have : p.count '?' = 0 := List.count_eq_zero.mpr hp
  simp [List.count_append, this]

/-- **request-target round trip** at the level of `net/url`: parse a valid target, copy path, raw path, raw query
and the force-query flag into any URL, print the request URI: the same bytes. -/
theorem requestURI_parse (base : URL) (p : Bytes) (q : Option Bytes)
    (hp : validPath p = true) (hq : ∀ q', q = some q' → validQuery q' = true) :
    ∃ u, parseRequestURI (target p q) = some u ∧
      requestURI { base with path := u.path, rawPath := u.rawPath, rawQuery := u.rawQuery, forceQuery := u.forceQuery }
        = target p q := by
  simp only [target]
  have hv := hp
  simp only [validPath, Bool.and_eq_true, decide_eq_true_eq] at hv
  obtain ⟨hhead, htail⟩ := hv
  obtain ⟨-, -, hnq, hctl⟩ := validPathTail_facts p htail
  obtain ⟨r, rfl⟩ : ∃ r, p = '/' :: r := by
    cases p with
    | nil => simp at hhead
    | cons c r => simp at hhead; exact ⟨r, by rw [hhead]⟩
  cases q with
  | none =>
    obtain ⟨u, hu, hf, hrq, hesc⟩ := escapedPath_setPath { rawQuery := [] } ('/' :: r) hp
    refine ⟨u, ?_, ?_⟩
    · simp only [List.append_nil, parseRequestURI, hctl]
      have := forceQuery_test_false_noq _ hnq
      simp only [Bool.false_eq_true, if_false, this, cutQ_noq _ hnq, Option.getD_none]
      exact hu
    · have := hesc { base with path := u.path, rawPath := u.rawPath, rawQuery := u.rawQuery, forceQuery := u.forceQuery } rfl rfl
      simp only [List.append_nil, requestURI]; rw [this]; simp [hf, hrq]
  | some q' =>
    have hvq := hq q' rfl
    have hc : containsCTL ('/' :: r ++ '?' :: q') = false := by
      rw [containsCTL_append, hctl, Bool.false_or]
      have := validQuery_noCTL q' hvq
      simp only [containsCTL, List.any_cons, Bool.or_eq_false_iff] at this ⊢
      exact ⟨by decide, this⟩
    by_cases hne : q' = []
    · subst hne
      obtain ⟨u, hu, hf, hrq, hesc⟩ := escapedPath_setPath { forceQuery := true } ('/' :: r) hp
      refine ⟨u, ?_, ?_⟩
      · have hfq := forceQuery_test_true _ hnq
        simp only [parseRequestURI, hc, Bool.false_eq_true, if_false]
        simp only [List.cons_append] at hfq ⊢
        simp only [hfq, if_true]
        have : ('/' :: (r ++ ['?'])).dropLast = '/' :: r := by
          rw [← List.cons_append, List.dropLast_concat]
        rw [this]; exact hu
      · have := hesc { base with path := u.path, rawPath := u.rawPath, rawQuery := u.rawQuery, forceQuery := u.forceQuery } rfl rfl
        simp only [requestURI]; rw [this]; simp [hf, hrq]
    · obtain ⟨u, hu, hf, hrq, hesc⟩ := escapedPath_setPath { rawQuery := q' } ('/' :: r) hp
      refine ⟨u, ?_, ?_⟩
      · have hfq := forceQuery_test_false _ q' hnq hne
        simp only [parseRequestURI, hc, Bool.false_eq_true, if_false]
        simp only [List.cons_append] at hfq ⊢
        simp only [hfq, Bool.false_eq_true, if_false]
        have := cutQ_append _ q' hnq
        simp only [List.cons_append] at this
        simp only [this, Option.getD_some]
        exact hu
      · have := hesc { base with path := u.path, rawPath := u.rawPath, rawQuery := u.rawQuery, forceQuery := u.forceQuery } rfl rfl
        simp only [requestURI]; rw [this]; simp [hf, hrq, hne]

/-! ## absolute-form targets -/

/-- `scheme = ALPHA *( ALPHA / DIGIT / "+" / "-" / "." )` -/
def schemeChar (c : Char) : Bool := isAlpha c || isDigit c || c = '+' || c = '-' || c = '.'
def validScheme : Bytes → Bool
  | [] => false
  | c :: r => isAlpha c && r.all schemeChar

/-- `[ "?" query ]` -/
def qstr : Option Bytes → Bytes
  | some q' => '?' :: q'
  | none => []

theorem target_eq (p : Bytes) (q : Option Bytes) : target p q = p ++ qstr q := by
  cases q <;> rfl

/-- `scheme "://" authority path-abempty [ "?" query ]` -/
def absTarget (s a p : Bytes) (q : Option Bytes) : Bytes := s ++ ':' :: '/' :: '/' :: (a ++ target p q)

/-- ForceQuery / RawQuery for a target's query part -/
def qparts : Option Bytes → Bool × Bytes
  | none => (false, [])
  | some [] => (true, [])
  | some q' => (false, q')

theorem splitQuery_target (b : Bytes) (hb : '?' ∉ b) (q : Option Bytes) :
    splitQuery (b ++ qstr q) = (b, qparts q) := by
  cases q with
  | none =>
    have h1 := forceQuery_test_false_noq b hb
    show splitQuery (b ++ []) = _
    rw [List.append_nil]
    unfold splitQuery
    split
    · next h =>
      simp only [Bool.and_eq_true, decide_eq_true_eq] at h
      simp [h.1, h.2] at h1
    · rw [cutQ_noq b hb]; rfl
  | some q' =>
    show splitQuery (b ++ '?' :: q') = _
    by_cases hne : q' = []
    · subst hne
      have h1 := forceQuery_test_true b hb
      have h2 : (b ++ ['?']).dropLast = b := List.dropLast_concat
      unfold splitQuery
      split
      · rw [h2]; rfl
      · next h =>
        simp only [Bool.and_eq_true, decide_eq_true_eq] at h h1
        exact absurd h1 h
    · have h1 := forceQuery_test_false b q' hb hne
      unfold splitQuery
      split
      · next h =>
        simp only [Bool.and_eq_true, decide_eq_true_eq] at h
        simp [h.1, h.2] at h1
      · rw [cutQ_append b q' hb]
        cases q' with
        | nil => exact absurd rfl hne
        | cons x xs => rfl

theorem requestURI_shape (v : URL) (e : Bytes) (he : escapedPath v = e) (q : Option Bytes)
    (hf : v.forceQuery = (qparts q).1) (hr : v.rawQuery = (qparts q).2) :
    requestURI v = (if e = [] then ['/'] else e) ++ qstr q := by
  simp only [requestURI, he, hf, hr]
  cases q with
  | none => simp [qparts, qstr]
  | some q' => cases q' <;> simp [qparts, qstr]

theorem qsuffix (q : Option Bytes) :
    (if (qparts q).1 || (qparts q).2 ≠ [] then '?' :: (qparts q).2 else []) = qstr q := by
  cases q with
  | none => simp [qparts, qstr]
  | some q' => cases q' <;> simp [qparts, qstr]

theorem isAlpha_isAlnum (c : Char) (h : isAlpha c = true) : isAlnum c = true := by
  simp only [isAlpha, isAlnum, Bool.or_eq_true, Bool.and_eq_true, decide_eq_true_eq] at h ⊢
  rcases h with h | h
  · exact Or.inl (Or.inl h)
  · exact Or.inl (Or.inr h)

theorem isDigit_isAlnum (c : Char) (h : isDigit c = true) : isAlnum c = true := by
  simp only [isDigit, isAlnum, Bool.or_eq_true, Bool.and_eq_true, decide_eq_true_eq] at h ⊢
  exact Or.inr h

/-- characters of schemes and simple authorities: nothing that `url.parse` treats specially except `:` -/
def plainChar (c : Char) : Bool := isAlnum c || c = '.' || c = '-' || c = '+' || c = ':'

theorem plainChar_facts (c : Char) (h : plainChar c = true) :
    c ≠ '?' ∧ c ≠ '/' ∧ ¬ (c.toNat < 0x20 ∨ c.toNat = 0x7f) := by
  simp only [plainChar, Bool.or_eq_true, decide_eq_true_eq] at h
  rcases h with (((h | h) | h) | h) | h
  · have := isAlnum_range c h
    refine ⟨?_, ?_, by omega⟩ <;> (intro e; subst e; exact absurd h (by decide))
  all_goals (subst h; decide)

theorem schemeChar_plain (c : Char) (h : schemeChar c = true) : plainChar c = true := by
  simp only [schemeChar, Bool.or_eq_true, decide_eq_true_eq] at h
  simp only [plainChar, Bool.or_eq_true, decide_eq_true_eq]
  rcases h with (((h | h) | h) | h) | h
  · exact Or.inl (Or.inl (Or.inl (Or.inl (isAlpha_isAlnum c h))))
  · exact Or.inl (Or.inl (Or.inl (Or.inl (isDigit_isAlnum c h))))
  · exact Or.inl (Or.inr h)
  · exact Or.inl (Or.inl (Or.inr h))
  · exact Or.inl (Or.inl (Or.inl (Or.inr h)))

theorem dropWhile_head_false (f : Char → Bool) (l : Bytes) (x : Char) (xs : Bytes)
    (h : l.dropWhile f = x :: xs) : f x = false := by
  induction l with
  | nil => simp at h
  | cons c r ih =>
    by_cases hc : f c = true
    · rw [List.dropWhile_cons_of_pos hc] at h; exact ih h
    · rw [List.dropWhile_cons_of_neg hc] at h
      simp only [List.cons.injEq] at h
      rw [← h.1]; simpa using hc

theorem simpleAuthority_plain (a : Bytes) (h : simpleAuthority a = true) : ∀ c ∈ a, plainChar c = true := by
  simp only [simpleAuthority, Bool.and_eq_true, List.all_eq_true] at h
  obtain ⟨h1, h2⟩ := h
  intro c hc
  rw [← List.takeWhile_append_dropWhile (p := fun x => decide (x ≠ ':')) (l := a)] at hc
  rcases List.mem_append.mp hc with hc | hc
  · have := h1 c hc
    simp only [Bool.or_eq_true, decide_eq_true_eq] at this
    simp only [plainChar, Bool.or_eq_true, decide_eq_true_eq]
    rcases this with (h | h) | h
    · exact Or.inl (Or.inl (Or.inl (Or.inl h)))
    · exact Or.inl (Or.inl (Or.inl (Or.inr h)))
    · exact Or.inl (Or.inl (Or.inr h))
  · cases hd : a.dropWhile (fun x => decide (x ≠ ':')) with
    | nil => rw [hd] at hc; simp at hc
    | cons x xs =>
      rw [hd] at hc h2
      have hx : x = ':' := by
        have := dropWhile_head_false _ a x xs hd
        simpa using this
      rcases List.mem_cons.mp hc with e | e
      · subst e; subst hx; decide
      · have := h2 c (by simpa using e)
        simp only [plainChar, Bool.or_eq_true, decide_eq_true_eq]
        exact Or.inl (Or.inl (Or.inl (Or.inl (isDigit_isAlnum c this))))

theorem plain_list_facts (l : Bytes) (h : ∀ c ∈ l, plainChar c = true) :
    '?' ∉ l ∧ '/' ∉ l ∧ containsCTL l = false := by
  induction l with
  | nil => simp [containsCTL]
  | cons c r ih =>
    obtain ⟨i1, i2, i3⟩ := ih (fun x hx => h x (by simp [hx]))
    have f := plainChar_facts c (h c (by simp))
    refine ⟨?_, ?_, ?_⟩
    · simp only [List.mem_cons, not_or]; exact ⟨fun e => f.1 e.symm, i1⟩
    · simp only [List.mem_cons, not_or]; exact ⟨fun e => f.2.1 e.symm, i2⟩
    · simp only [containsCTL, List.any_cons, Bool.or_eq_false_iff] at i3 ⊢
      exact ⟨by simpa using f.2.2, i3⟩

theorem scanScheme_tail (s rest : Bytes) (hs : s.all schemeChar = true) :
    scanScheme false (s ++ ':' :: rest) = .found s rest := by
  induction s with
  | nil => simp [scanScheme, isAlpha, isDigit]
  | cons c r ih =>
    simp only [List.all_cons, Bool.and_eq_true] at hs
    have ihr := ih hs.2
    simp only [List.cons_append, scanScheme, ihr]
    have hc := hs.1
    simp only [schemeChar, Bool.or_eq_true, decide_eq_true_eq] at hc
    by_cases ha : isAlpha c = true
    · simp [ha]
    · have : (isDigit c || decide (c = '+') || decide (c = '-') || decide (c = '.')) = true := by
        simp only [Bool.or_eq_true, decide_eq_true_eq]
        rcases hc with (((h | h) | h) | h) | h
        · exact absurd h ha
        · exact Or.inl (Or.inl (Or.inl h))
        · exact Or.inl (Or.inl (Or.inr h))
        · exact Or.inl (Or.inr h)
        · exact Or.inr h
      simp [ha, this]

theorem takeWhile_dropWhile_slash (a p : Bytes) (ha : '/' ∉ a) (hp : p = [] ∨ p.head? = some '/') :
    (a ++ p).takeWhile (fun x => decide (x ≠ '/')) = a ∧ (a ++ p).dropWhile (fun x => decide (x ≠ '/')) = p := by
  induction a with
  | nil =>
    rcases hp with hp | hp
    · subst hp; simp
    · cases p with
      | nil => simp at hp
      | cons x xs => simp at hp; subst hp; simp
  | cons c r ih =>
    have hne : c ≠ '/' := fun e => ha (by simp [e])
    have hc2 : decide (c ≠ '/') = true := by simpa using hne
    obtain ⟨t1, t2⟩ := ih (fun e => ha (by simp [e]))
    constructor
    · rw [List.cons_append, List.takeWhile_cons]; simp only [hc2, if_true, t1]
    · rw [List.cons_append, List.dropWhile_cons]; simp only [hc2, if_true, t2]

theorem setPath_host (u0 u : URL) (p : Bytes) (h : setPath u0 p = some u) : u.host = u0.host := by
  unfold setPath at h
  split at h
  · exact absurd h (by simp)
  · split at h <;> (cases h; rfl)

/-- **request-target round trip, absolute-form**: the path (`/` if empty) and the query of a valid absolute-form
target come out of parse → copy → `RequestURI()` byte for byte; scheme and authority of the target are not used. -/
theorem requestURI_parse_abs (base : URL) (s a p : Bytes) (q : Option Bytes)
    (hs : validScheme s = true) (ha : simpleAuthority a = true) (hp : p = [] ∨ validPath p = true)
    (hq : ∀ q', q = some q' → validQuery q' = true) :
    ∃ u, parseRequestURI (absTarget s a p q) = some u ∧ u.host = String.ofList a ∧
      requestURI { base with path := u.path, rawPath := u.rawPath, rawQuery := u.rawQuery, forceQuery := u.forceQuery }
        = target (if p = [] then ['/'] else p) q := by
  obtain ⟨c, s', rfl⟩ : ∃ c s', s = c :: s' := by
    cases s with
    | nil => simp [validScheme] at hs
    | cons c s' => exact ⟨c, s', rfl⟩
  simp only [validScheme, Bool.and_eq_true] at hs
  obtain ⟨hc, hs'⟩ := hs
  have hcplain := plainChar_facts c (schemeChar_plain c (by simp [schemeChar, hc]))
  have hsplain := plain_list_facts s' (fun x hx => schemeChar_plain x (List.all_eq_true.mp hs' x hx))
  have haplain := plain_list_facts a (simpleAuthority_plain a ha)
  have hpf : '?' ∉ p ∧ containsCTL p = false ∧ (p = [] ∨ p.head? = some '/') := by
    rcases hp with hp | hp
    · subst hp; simp [containsCTL]
    · have hv := hp
      simp only [validPath, Bool.and_eq_true, decide_eq_true_eq] at hv
      obtain ⟨-, -, h3, h4⟩ := validPathTail_facts p hv.2
      exact ⟨h3, h4, Or.inr hv.1⟩
  have hqctl : containsCTL (qstr q) = false := by
    cases hqe : q with
    | none => simp [qstr, containsCTL]
    | some q' =>
      have := validQuery_noCTL q' (hq q' hqe)
      simp only [qstr, containsCTL, List.any_cons, Bool.or_eq_false_iff] at this ⊢
      exact ⟨by decide, this⟩
  have hshape : absTarget (c :: s') a p q = [c] ++ (s' ++ ([':', '/', '/'] ++ (a ++ (p ++ qstr q)))) := by
    simp [absTarget, target_eq]
  have hctl : containsCTL (absTarget (c :: s') a p q) = false := by
    have h1 : containsCTL [c] = false := by
      simp only [containsCTL, List.any_cons, List.any_nil, Bool.or_false]; simpa using hcplain.2.2
    have h2 : containsCTL [':', '/', '/'] = false := by decide
    rw [hshape]
    simp only [containsCTL_append, h1, h2, hsplain.2.2, haplain.2.2, hpf.2.1, hqctl, Bool.or_false]
  have hhead : (absTarget (c :: s') a p q).head? ≠ some '/' := by
    rw [hshape]; simp only [List.singleton_append, List.head?_cons, ne_eq, Option.some.injEq]; exact hcplain.2.1
  have hscan : scanScheme true (absTarget (c :: s') a p q) = .found (c :: s') ('/' :: '/' :: (a ++ p) ++ qstr q) := by
    have : absTarget (c :: s') a p q = c :: (s' ++ ':' :: ('/' :: '/' :: (a ++ p) ++ qstr q)) := by
      simp [absTarget, target_eq]
    rw [this]
    simp only [scanScheme, hc, if_true, scanScheme_tail s' _ hs']
  have hb : '?' ∉ '/' :: '/' :: (a ++ p) := by
    simp only [List.mem_cons, List.mem_append, not_or]
    exact ⟨by decide, by decide, haplain.1, hpf.1⟩
  have hsq := splitQuery_target ('/' :: '/' :: (a ++ p)) hb q
  obtain ⟨htw, hdw⟩ := takeWhile_dropWhile_slash a p haplain.2.1 hpf.2.2
  have hparse : parseRequestURI (absTarget (c :: s') a p q) =
      setPath { scheme := String.ofList ((c :: s').map Char.toLower), host := String.ofList a,
                forceQuery := (qparts q).1, rawQuery := (qparts q).2 } p := by
    unfold parseRequestURI
    rw [if_neg (by rw [hctl]; simp), if_neg hhead, hscan]
    simp only [hsq, htw, hdw, ha, if_true]
  rcases hp with hp | hp
  · subst hp
    refine ⟨{ scheme := String.ofList ((c :: s').map Char.toLower), host := String.ofList a,
              forceQuery := (qparts q).1, rawQuery := (qparts q).2, path := [], rawPath := [] },
      by rw [hparse]; simp [setPath, unescape, escape], rfl, ?_⟩
    rw [requestURI_shape _ [] (by simp [escapedPath, escape]) q rfl rfl, target_eq]
  · obtain ⟨u, hu, hf, hrq, hesc⟩ := escapedPath_setPath
      { scheme := String.ofList ((c :: s').map Char.toLower), host := String.ofList a,
        forceQuery := (qparts q).1, rawQuery := (qparts q).2 } p hp
    refine ⟨u, by rw [hparse]; exact hu, setPath_host _ _ _ hu, ?_⟩
    have hpne : p ≠ [] := by intro e; subst e; simp [validPath] at hp
    have e := hesc { base with path := u.path, rawPath := u.rawPath, rawQuery := u.rawQuery, forceQuery := u.forceQuery } rfl rfl
    rw [requestURI_shape _ p e q hf hrq, target_eq]

end FwdURL
