import OxyModel.Proofs.Forward.Hdr
/-! `protectForwardingHeaders` removes exactly the forwarding-header names from the Connection tokens. -/
namespace Fwd

theorem splitComma_ne_nil (s : List Char) : splitComma s ≠ [] := by
  induction s with
  | nil => simp [splitComma]
  | cons c r ih =>
    simp only [splitComma]
    split
    · simp
    · split <;> simp

theorem splitComma_nocomma (x : List Char) (hx : ',' ∉ x) : splitComma x = [x] := by
  induction x with
  | nil => simp [splitComma]
  | cons c r ih =>
    have hc : c ≠ ',' := fun h => hx (by simp [h])
    have hr : ',' ∉ r := fun h => hx (by simp [h])
    simp [splitComma, ih hr, hc]

theorem splitComma_append (x s : List Char) (hx : ',' ∉ x) :
    splitComma (x ++ ',' :: s) = x :: splitComma s := by
  induction x with
  | nil =>
    simp only [List.nil_append, splitComma]
    split
    · next h => exact absurd h (splitComma_ne_nil s)
    · next y ys h => simp [h]
  | cons c r ih =>
    have hc : c ≠ ',' := fun h => hx (by simp [h])
    have hr : ',' ∉ r := fun h => hx (by simp [h])
    simp [splitComma, ih hr, hc]

theorem splitComma_mem_nocomma (s x : List Char) (h : x ∈ splitComma s) : ',' ∉ x := by
  induction s generalizing x with
  | nil => simp [splitComma] at h; simp [h]
  | cons c r ih =>
    simp only [splitComma] at h
    split at h
    · next hnil => exact absurd hnil (splitComma_ne_nil r)
    · next y ys hy =>
      have hy' : ∀ z ∈ y :: ys, ',' ∉ z := fun z hz => ih z (hy ▸ hz)
      split at h
      · rcases List.mem_cons.mp h with h | h
        · simp [h]
        · exact hy' x h
      · next hc =>
        rcases List.mem_cons.mp h with h | h
        · subst h
          have := hy' y (by simp)
          simp [this]
          exact fun h => hc h.symm
        · exact hy' x (by simp [h])

theorem splitComma_joinComma (kept : List (List Char)) (hne : kept ≠ []) (hk : ∀ x ∈ kept, ',' ∉ x) :
    splitComma (joinComma kept) = kept := by
  induction kept with
  | nil => exact absurd rfl hne
  | cons x r ih =>
    cases r with
    | nil => simpa [joinComma] using splitComma_nocomma x (hk x (by simp))
    | cons y r' =>
      simp only [joinComma]
      rw [splitComma_append x _ (hk x (by simp)), ih (by simp) (fun z hz => hk z (by simp [hz]))]

/-- the tokens of one protected line -/
theorem tokens_protectLine (f : String) :
    tokens ((protectLine f).toList) = (tokens [f]).filter (fun s => !XHeaders.contains (canonKey s)) := by
  have comm : ∀ l : List (List Char),
      ((l.map tok).filter (· ≠ "")).filter (fun s => !XHeaders.contains (canonKey s))
        = ((l.filter keepTok).map tok).filter (· ≠ "") := by
    intro l
    induction l with
    | nil => simp
    | cons a t ih =>
      by_cases h1 : keepTok a = true <;> by_cases h2 : tok a = "" <;>
        simp_all [keepTok]
  simp only [protectLine]
  split
  · next hnil =>
    simp only [Option.toList, tokens, List.flatMap_nil, List.filter_nil, List.flatMap_cons, List.append_nil]
    rw [comm, hnil]; simp
  · next hne =>
    simp only [Option.toList, tokens, List.flatMap_cons, List.flatMap_nil, List.append_nil, String.toList_ofList]
    rw [comm, splitComma_joinComma _ hne]
    intro x hx
    exact splitComma_mem_nocomma _ x (List.mem_filter.mp hx).1

theorem tokens_append (a b : List String) : tokens (a ++ b) = tokens a ++ tokens b := by
  simp [tokens]

theorem tokens_filterMap_protect (vs : List String) :
    tokens (vs.filterMap protectLine) = (tokens vs).filter (fun s => !XHeaders.contains (canonKey s)) := by
  induction vs with
  | nil => simp [tokens]
  | cons f t ih =>
    have h1 : (f :: t).filterMap protectLine = (protectLine f).toList ++ t.filterMap protectLine := by
      simp only [List.filterMap_cons]; cases protectLine f <;> simp
    have h2 : f :: t = [f] ++ t := rfl
    rw [h1, tokens_append, ih, tokens_protectLine, h2, tokens_append, List.filter_append]

theorem lookup_protect_other (h : Hdr) (k : String) (hk : k ≠ Connection) :
    (protectForwardingHeaders h).lookup k = h.lookup k := by
  simp only [protectForwardingHeaders]
  split
  · rfl
  · split
    · simp [lookup_del, hk]
    · have : (k == Connection) = false := by simpa using hk
      simp [List.lookup_cons, this, lookup_del, hk]

theorem vals_protect_connection (h : Hdr) :
    vals (protectForwardingHeaders h) Connection = (vals h Connection).filterMap protectLine := by
  simp only [protectForwardingHeaders]
  split
  · next hh =>
    have : h.lookup Connection = none := by
      simp only [has, Bool.not_eq_true', Option.isSome_eq_false_iff, Option.isNone_iff_eq_none] at hh; exact hh
    simp [vals, this]
  · split
    · next hnil => rw [hnil]; simp [vals_del]
    · simp [vals]

/-- **what `protectForwardingHeaders` achieves**: the Connection tokens afterwards are the ones before minus
the forwarding-header names (compared after canonicalisation), in order. -/
theorem tokens_protect (h : Hdr) :
    tokens (vals (protectForwardingHeaders h) Connection)
      = (tokens (vals h Connection)).filter (fun s => !XHeaders.contains (canonKey s)) := by
  rw [vals_protect_connection, tokens_filterMap_protect]

end Fwd
