import OxyModel.Proofs.Sticky.Codec

/-! The driver's symbolic AEAD (`symCipher`, cookie string = protocol token) satisfies `Cipher.Ideal`. -/
namespace Sticky

theorem esc_cons (c : Char) (s : Str) : esc (c :: s) = (if tokKeep c then [c] else escByte c) ++ esc s := by
  simp [esc]

theorem unesc_cons (c : Char) (rest : Str) (hc : c ≠ '%') : unesc (c :: rest) = (unesc rest).map (c :: ·) := by
  rcases rest with _ | ⟨a, _ | ⟨b, r⟩⟩ <;> simp [unesc, hc]

theorem unesc_pct (a b : Char) (rest : Str) (ha : ishex a = true) (hb : ishex b = true) :
    unesc ('%' :: a :: b :: rest) = (unesc rest).map (Char.ofNat (unhex a * 16 + unhex b) :: ·) := by
  rw [unesc.eq_2]; simp [ha, hb]

theorem unesc_esc (m : Str) (hb : Bytes m) : unesc (esc m) = some m := by
  induction m with
  | nil => rfl
  | cons c t ih =>
    have iht := ih fun x hx => hb x (by simp [hx])
    have hc := hb c (by simp)
    rw [esc_cons]
    cases hk : tokKeep c with
    | false =>
      simp only [Bool.false_eq_true, if_false, escByte, List.cons_append, List.nil_append]
      rw [unesc_pct _ _ _ (nibble _ (by omega)).2 (nibble _ (Nat.mod_lt _ (by omega))).2, byte_of_nibbles c hc, iht]; rfl
    | true =>
      have hne : c ≠ '%' := by intro e; subst e; revert hk; decide
      simp only [if_true, List.cons_append, List.nil_append]
      rw [unesc_cons c _ hne, iht]; rfl

theorem hexDigit_safe : ∀ d, d < 16 → (validCookieValueByte (hexDigit d) && hexDigit d != ' ' && hexDigit d != ',') = true := by
  decide

theorem safe_of_range (c : Char) (hr : (97 ≤ c.toNat ∧ c.toNat ≤ 122) ∨ (65 ≤ c.toNat ∧ c.toNat ≤ 90) ∨
    (48 ≤ c.toNat ∧ c.toNat ≤ 57)) : (validCookieValueByte c && c != ' ' && c != ',') = true := by
  have ne : ∀ d : Char, (d.toNat < 48 ∨ (57 < d.toNat ∧ d.toNat < 65) ∨ (90 < d.toNat ∧ d.toNat < 97) ∨ 122 < d.toNat) → c ≠ d := by
    intro d hd e; subst e; omega
  simp only [validCookieValueByte, Bool.and_eq_true, decide_eq_true_eq, bne_iff_ne, ne_eq]
  and_intros <;> first | omega | exact ne _ (by decide)

theorem tokKeep_safe (c : Char) (h : tokKeep c = true) : (validCookieValueByte c && c != ' ' && c != ',') = true := by
  simp only [tokKeep, Bool.or_eq_true] at h
  rcases h with (h | h) | h
  · exact safe_of_range c (by rcases alpha_nat c h with h | h <;> omega)
  · exact safe_of_range c (Or.inr (Or.inr (digit_nat c h)))
  · simp only [List.contains_iff_mem, List.mem_cons, List.not_mem_nil, or_false] at h
    rcases h with e | e | e | e | e | e | e | e | e | e | e | e <;> (subst e; decide)

theorem esc_safe (m : Str) (hb : Bytes m) : cookieSafe (esc m) = true := by
  unfold cookieSafe
  induction m with
  | nil => rfl
  | cons c t ih =>
    have iht := ih fun x hx => hb x (by simp [hx])
    have hc := hb c (by simp)
    rw [esc_cons, List.all_append, iht, Bool.and_true]
    cases hk : tokKeep c with
    | true => simp only [if_true, List.all_cons, List.all_nil, Bool.and_true]; exact tokKeep_safe c hk
    | false =>
      simp only [Bool.false_eq_true, if_false, escByte, List.all_cons, List.all_nil, Bool.and_true]
      rw [hexDigit_safe _ (by omega), hexDigit_safe _ (Nat.mod_lt _ (by omega))]; decide

theorem isDigit_nat (c : Char) (h : c.isDigit = true) : 48 ≤ c.toNat ∧ c.toNat ≤ 57 := by
  simp only [Char.isDigit, Bool.and_eq_true, decide_eq_true_eq] at h
  have h1 := UInt32.le_iff_toNat_le.mp h.1
  have h2 := UInt32.le_iff_toNat_le.mp h.2
  exact ⟨h1, h2⟩

theorem decimal_safe (n : Nat) : cookieSafe (decimal n) = true := by
  unfold cookieSafe
  rw [List.all_eq_true]
  intro c hc
  exact safe_of_range c (Or.inr (Or.inr (isDigit_nat c (decimal_digits n c hc))))

theorem dot_not_mem_decimal (n : Nat) : '.' ∉ decimal n := by
  intro m; have := isDigit_nat _ (decimal_digits n _ m); revert this; decide

theorem decimal_inj (a b : Nat) (h : decimal a = decimal b) : a = b := by
  have ha : Nat.ofDigitChars 10 (decimal a) 0 = a := Nat.ofDigitChars_ten_toDigits
  have hb : Nat.ofDigitChars 10 (decimal b) 0 = b := Nat.ofDigitChars_ten_toDigits
  rw [h] at ha; omega

theorem dropWhile_head_false {p : Char → Bool} : ∀ {l : Str} {x : Char} {t : Str}, l.dropWhile p = x :: t → p x = false
  | [], _, _, h => by cases h
  | y :: l, x, t, h => by
    rw [List.dropWhile_cons] at h
    cases hy : p y with
    | true => rw [hy] at h; exact dropWhile_head_false h
    | false =>
      rw [hy] at h
      simp only [Bool.false_eq_true, if_false, List.cons.injEq] at h
      rw [← h.1]; exact hy

theorem cut_true (c : Char) (s : Str) (h : (cut c s).2.2 = true) : s = (cut c s).1 ++ c :: (cut c s).2.1 := by
  unfold cut at h ⊢
  cases hd : s.dropWhile (· != c) with
  | nil => rw [hd] at h; cases h
  | cons x t =>
    simp only
    have hx : x = c := by simpa using dropWhile_head_false hd
    subst hx
    rw [← hd]; exact List.takeWhile_append_dropWhile.symm

theorem symCipher_unbox (k : Nat) (v : Str) :
    symCipher.unbox k v = if aesTag.isPrefixOf v then
      (let c := cut '.' (v.drop 4)
       if c.2.2 && c.1 = decimal k then
         match unesc c.2.1 with
         | some m => if esc m = c.2.1 then some m else none
         | none => none
       else none) else none := rfl

theorem symCipher_box (k n : Nat) (m : Str) : symCipher.box k n m = aesTag ++ decimal k ++ '.' :: esc m := rfl

theorem symCipher_open_token (k k' : Nat) (body : Str) :
    symCipher.unbox k' (aesTag ++ decimal k ++ '.' :: body) =
      if k = k' then (match unesc body with
        | some m => if esc m = body then some m else none
        | none => none) else none := by
  rw [symCipher_unbox]
  have hp : aesTag.isPrefixOf (aesTag ++ decimal k ++ '.' :: body) = true := by
    rw [List.append_assoc]; simp [aesTag]
  have hd : (aesTag ++ decimal k ++ '.' :: body).drop 4 = decimal k ++ '.' :: body := by
    rw [List.append_assoc]; rfl
  rw [hp, hd, cut_append_cons '.' _ _ (dot_not_mem_decimal k)]
  by_cases hk : k = k'
  · subst hk; simp
  · have : decimal k ≠ decimal k' := fun e => hk (decimal_inj _ _ e)
    simp [hk, this]

/-- the symbolic cipher of the driver is an ideal AEAD in the sense of the theorems -/
theorem symCipher_ideal : symCipher.Ideal where
  unbox_box := by
    intro k n m hb
    rw [symCipher_box, symCipher_open_token, if_pos rfl, unesc_esc m hb]; simp
  authentic := by
    intro k v m h
    rw [symCipher_unbox] at h
    split at h
    · next hp =>
      simp only at h
      split at h
      · next hc =>
        simp only [Bool.and_eq_true, decide_eq_true_eq] at hc
        obtain ⟨t, ht⟩ := List.isPrefixOf_iff_prefix.mp hp
        have hdrop : v.drop 4 = t := by rw [← ht]; rfl
        have hcut := cut_true '.' (v.drop 4) hc.1
        cases hu : unesc (cut '.' (v.drop 4)).2.1 with
        | none => rw [hu] at h; cases h
        | some m' =>
          rw [hu] at h
          simp only at h
          split at h
          · next he =>
            cases h
            refine ⟨0, ?_⟩
            suffices hv : v = symCipher.box k 0 m by intro k'; rw [← hv]
            rw [symCipher_box, ← ht, ← hdrop, List.append_assoc]
            congr 1
            rw [← hc.2, he]; exact hcut
          · cases h
      · cases h
    · cases h
  key_sep := by
    intro k k' n m hk
    rw [symCipher_box, symCipher_open_token, if_neg hk]
  safe := by
    intro k n m hb
    rw [symCipher_box]
    unfold cookieSafe
    have h1 := decimal_safe k
    have h2 := esc_safe m hb
    unfold cookieSafe at h1 h2
    rw [List.all_append, List.all_append, h1, List.all_cons, h2]
    decide

end Sticky
