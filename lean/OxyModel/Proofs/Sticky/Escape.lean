import OxyModel.Proofs.Sticky.Lists

/-! `unescape ∘ escape` and character-class facts of `net/url`'s escaping. -/
namespace Sticky

theorem char_le_iff (a b : Char) : a ≤ b ↔ a.toNat ≤ b.toNat := by
  rw [Char.le_def]; exact UInt32.le_iff_toNat_le

theorem nibble : ∀ d, d < 16 → unhex (hexDigit d) = d ∧ ishex (hexDigit d) = true := by decide

theorem hexDigit_plain : ∀ d, d < 16 →
    hexDigit d ≠ '#' ∧ hexDigit d ≠ '?' ∧ hexDigit d ≠ '/' ∧ hexDigit d ≠ '@' ∧
      ¬((hexDigit d).toNat < 0x20 ∨ (hexDigit d).toNat = 0x7f) := by decide

theorem byte_of_nibbles (c : Char) (h : c.toNat < 256) :
    Char.ofNat (unhex (hexDigit (c.toNat / 16)) * 16 + unhex (hexDigit (c.toNat % 16))) = c := by
  rw [(nibble _ (by omega)).1, (nibble _ (Nat.mod_lt _ (by omega))).1, Nat.div_add_mod']
  exact Char.ofNat_toNat c

theorem unescape_cons (mode : Enc) (c : Char) (rest : Str) (hc : c ≠ '%') :
    unescape mode (c :: rest) =
      if (mode == .host || mode == .zone) && c.toNat < 0x80 && shouldEscape c mode then none
      else (unescape mode rest).map (c :: ·) := by
  rcases rest with _ | ⟨a, _ | ⟨b, r⟩⟩ <;> simp [unescape, hc]

theorem unescape_pct (mode : Enc) (a b : Char) (rest : Str) (hm : mode ≠ .host ∧ mode ≠ .zone)
    (ha : ishex a = true) (hb : ishex b = true) :
    unescape mode ('%' :: a :: b :: rest) =
      (unescape mode rest).map (Char.ofNat (unhex a * 16 + unhex b) :: ·) := by
  have h1 : (mode == Enc.host) = false := by simpa using hm.1
  have h2 : (mode == Enc.zone) = false := by simpa using hm.2
  rw [unescape.eq_2]; simp [ha, hb, h1, h2]

theorem escape_cons (mode : Enc) (c : Char) (s : Str) :
    escape mode (c :: s) = (if shouldEscape c mode then escByte c else [c]) ++ escape mode s := by
  simp [escape]

/-- `unescape(escape(p, mode), mode) = p` for the non-host modes -/
theorem unescape_escape (mode : Enc) (hm : mode ≠ .host ∧ mode ≠ .zone) (hp : shouldEscape '%' mode = true) (p : Str)
    (hb : ∀ c ∈ p, c.toNat < 256) : unescape mode (escape mode p) = some p := by
  induction p with
  | nil => rfl
  | cons c t ih =>
    have iht := ih fun x hx => hb x (by simp [hx])
    have hc := hb c (by simp)
    rw [escape_cons]
    cases he : shouldEscape c mode with
    | true =>
      simp only [if_true, escByte, List.cons_append, List.nil_append]
      rw [unescape_pct mode _ _ _ hm (nibble _ (by omega)).2 (nibble _ (Nat.mod_lt _ (by omega))).2,
        byte_of_nibbles c hc, iht]; rfl
    | false =>
      have hne : c ≠ '%' := by intro e; rw [e, hp] at he; cases he
      have h1 : (mode == Enc.host) = false := by simpa using hm.1
      have h2 : (mode == Enc.zone) = false := by simpa using hm.2
      simp only [Bool.false_eq_true, if_false, List.cons_append, List.nil_append]
      rw [unescape_cons mode c _ hne, iht]; simp [h1, h2]

theorem escape_id (mode : Enc) (s : Str) (h : ∀ c ∈ s, shouldEscape c mode = false) : escape mode s = s := by
  induction s with
  | nil => rfl
  | cons c t ih =>
    rw [escape_cons, h c (by simp), ih fun x hx => h x (by simp [hx])]; rfl

theorem unescape_id (mode : Enc) (s : Str) (h : ∀ c ∈ s, c ≠ '%' ∧ shouldEscape c mode = false) :
    unescape mode s = some s := by
  induction s with
  | nil => rfl
  | cons c t ih =>
    rw [unescape_cons mode c t (h c (by simp)).1, (h c (by simp)).2, ih fun x hx => h x (by simp [hx])]
    simp

/-- every character of an escaped string is `%`, an upper-case hex digit, or an unescaped original -/
theorem mem_escape (mode : Enc) (s : Str) (hb : ∀ c ∈ s, c.toNat < 256) (x : Char) (hx : x ∈ escape mode s) :
    x = '%' ∨ (∃ d, d < 16 ∧ x = hexDigit d) ∨ (x ∈ s ∧ shouldEscape x mode = false) := by
  induction s with
  | nil => simp [escape] at hx
  | cons c t ih =>
    have hc := hb c (by simp)
    rw [escape_cons, List.mem_append] at hx
    rcases hx with hx | hx
    · cases he : shouldEscape c mode with
      | true =>
        simp only [he, if_true, escByte, List.mem_cons, List.not_mem_nil, or_false] at hx
        rcases hx with e | e | e
        · exact Or.inl e
        · exact Or.inr (Or.inl ⟨_, by omega, e⟩)
        · exact Or.inr (Or.inl ⟨_, Nat.mod_lt _ (by omega), e⟩)
      | false =>
        simp only [he, Bool.false_eq_true, if_false, List.mem_cons, List.not_mem_nil, or_false] at hx
        subst hx; exact Or.inr (Or.inr ⟨by simp, he⟩)
    · rcases ih (fun x hx => hb x (by simp [hx])) hx with h | h | h
      · exact Or.inl h
      · exact Or.inr (Or.inl h)
      · exact Or.inr (Or.inr ⟨by simp [h.1], h.2⟩)

/-- the characters `escape(·, encodePath)` leaves alone -/
theorem not_escaped_path (c : Char) (h : shouldEscape c .path = false) :
    isAlpha c = true ∨ isDigit c = true ∨ c ∈ ['-', '_', '.', '~', '$', '&', '+', ',', '/', ':', ';', '=', '@'] := by
  unfold shouldEscape at h
  by_cases h1 : (isAlpha c || isDigit c) = true
  · simp only [Bool.or_eq_true] at h1
    rcases h1 with h1 | h1
    · exact Or.inl h1
    · exact Or.inr (Or.inl h1)
  · right; right
    simp only [h1, Bool.false_eq_true, if_false, show (Enc.path == Enc.host) = false from rfl,
      show (Enc.path == Enc.zone) = false from rfl, show (Enc.path == Enc.fragment) = false from rfl,
      Bool.or_self, Bool.false_and] at h
    by_cases h2 : (['-', '_', '.', '~'].contains c) = true
    · simp only [List.contains_iff_mem, List.mem_cons, List.not_mem_nil, or_false] at h2
      simp only [List.mem_cons, List.not_mem_nil, or_false]
      rcases h2 with e | e | e | e <;> simp [e]
    · simp only [h2, Bool.false_eq_true, if_false] at h
      by_cases h3 : (['$', '&', '+', ',', '/', ':', ';', '=', '?', '@'].contains c) = true
      · simp only [h3, if_true, beq_eq_false_iff_ne, ne_eq] at h
        simp only [List.contains_iff_mem, List.mem_cons, List.not_mem_nil, or_false] at h3
        simp only [List.mem_cons, List.not_mem_nil, or_false]
        rcases h3 with e | e | e | e | e | e | e | e | e | e <;> first | exact absurd e h | simp [e]
      · simp only [h3, Bool.false_eq_true, if_false] at h
        cases h

theorem plain_of_not_escaped_path (c : Char) (h : shouldEscape c .path = false) :
    c ≠ '#' ∧ c ≠ '?' ∧ ¬(c.toNat < 0x20 ∨ c.toNat = 0x7f) := by
  rcases not_escaped_path c h with h | h | h
  · simp only [isAlpha, Bool.or_eq_true, Bool.and_eq_true, decide_eq_true_eq, char_le_iff, Char.reduceToNat] at h
    refine ⟨?_, ?_, by omega⟩ <;> (intro e; subst e; simp at h)
  · simp only [isDigit, Bool.and_eq_true, decide_eq_true_eq, char_le_iff, Char.reduceToNat] at h
    refine ⟨?_, ?_, by omega⟩ <;> (intro e; subst e; simp at h)
  · simp only [List.mem_cons, List.not_mem_nil, or_false] at h
    rcases h with e | e | e | e | e | e | e | e | e | e | e | e | e <;> (subst e; decide)

/-- an escaped path contains no `#`, no `?`, no control byte -/
theorem escape_path_plain (p : Str) (hb : ∀ c ∈ p, c.toNat < 256) (x : Char) (hx : x ∈ escape .path p) :
    x ≠ '#' ∧ x ≠ '?' ∧ ¬(x.toNat < 0x20 ∨ x.toNat = 0x7f) := by
  rcases mem_escape .path p hb x hx with h | ⟨d, hd, h⟩ | ⟨_, h⟩
  · subst h; decide
  · subst h; have := hexDigit_plain d hd; exact ⟨this.1, this.2.1, this.2.2.2.2⟩
  · exact plain_of_not_escaped_path x h

end Sticky
