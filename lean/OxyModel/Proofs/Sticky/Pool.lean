import OxyModel.Model.Sticky

/-! `UpsertServer` / `RemoveServer` keep the keys of the pool pairwise distinct. -/
namespace Sticky

def keysOf (l : List Srv) : List Key := l.map (·.url.key)

theorem mem_keys_upsertL (u : URL) (w : Option Nat) (k : Key) :
    ∀ l : List Srv, k ∈ keysOf (upsertL u w l) → k ∈ keysOf l ∨ k = u.key
  | [], h => by simp [upsertL, keysOf] at h; exact Or.inr h
  | s :: t, h => by
    unfold upsertL at h
    by_cases hk : s.url.key = u.key
    · rw [if_pos hk] at h; left; simpa [keysOf] using h
    · rw [if_neg hk] at h
      simp only [keysOf, List.map_cons, List.mem_cons] at h ⊢
      rcases h with h | h
      · exact Or.inl (Or.inl h)
      · rcases mem_keys_upsertL u w k t h with h | h
        · exact Or.inl (Or.inr h)
        · exact Or.inr h

theorem nodup_upsertL (u : URL) (w : Option Nat) : ∀ l : List Srv, (keysOf l).Nodup → (keysOf (upsertL u w l)).Nodup
  | [], _ => by simp [upsertL, keysOf]
  | s :: t, h => by
    unfold upsertL
    by_cases hk : s.url.key = u.key
    · rw [if_pos hk]; simpa [keysOf] using h
    · rw [if_neg hk]
      simp only [keysOf, List.map_cons, List.nodup_cons] at h ⊢
      refine ⟨?_, nodup_upsertL u w t h.2⟩
      intro hm
      rcases mem_keys_upsertL u w _ t hm with h' | h'
      · exact h.1 h'
      · exact hk h'

theorem sublist_removeL (k : Key) : ∀ (l l' : List Srv), removeL k l = some l' → l'.Sublist l
  | [], _, h => by cases h
  | s :: t, l', h => by
    unfold removeL at h
    by_cases hk : s.url.key = k
    · rw [if_pos hk] at h; cases h; exact List.sublist_cons_self s t
    · rw [if_neg hk] at h
      cases hr : removeL k t with
      | none => rw [hr] at h; cases h
      | some t' =>
        rw [hr] at h; cases h
        exact (sublist_removeL k t t' hr).cons_cons s

theorem nodup_removeL (k : Key) (l l' : List Srv) (h : removeL k l = some l') (hn : (keysOf l).Nodup) :
    (keysOf l').Nodup :=
  List.Pairwise.sublist ((sublist_removeL k l l' h).map _) hn

end Sticky
