import OxyModel.Proofs.Sticky.Wire
import OxyModel.Proofs.Sticky.URLRound

/-! Lemmas about the codecs: lookup by URL, decimal expiry, TTL check. -/
namespace Sticky

theorem eq_of_nodup_map {α β : Type} (f : α → β) : ∀ (l : List α), (l.map f).Nodup → ∀ a ∈ l, ∀ b ∈ l, f a = f b → a = b
  | [], _, a, ha, _, _, _ => by cases ha
  | x :: t, hnd, a, ha, b, hb, hab => by
    rw [List.map_cons, List.nodup_cons] at hnd
    rcases List.mem_cons.mp ha with ea | ha' <;> rcases List.mem_cons.mp hb with eb | hb'
    · rw [ea, eb]
    · exfalso; apply hnd.1; rw [← ea, hab]; exact List.mem_map_of_mem hb'
    · exfalso; apply hnd.1; rw [← eb, ← hab]; exact List.mem_map_of_mem ha'
    · exact eq_of_nodup_map f t hnd.2 a ha' b hb' hab

theorem sameKey_iff (p u : URL) : (p.scheme == u.scheme && p.host == u.host && p.path == u.path) = true ↔ p.key = u.key := by
  simp only [Bool.and_eq_true, beq_iff_eq, URL.key, Prod.mk.injEq, and_assoc]

/-- `RawValue.FindURL(u.String(), servers)` finds `u` -/
theorem findByURL_render (urls : List URL) (s : URL) (hnd : (urls.map URL.key).Nodup) (hs : s ∈ urls)
    (hrt : RoundTrip s) : findByURL (render s) urls = some s := by
  unfold RoundTrip at hrt
  unfold findByURL
  cases hp : parse (render s) with
  | none => rw [hp] at hrt; cases hrt
  | some p =>
    rw [hp] at hrt
    simp only [Option.map_some, Option.some.injEq] at hrt
    simp only
    apply find?_unique hs
    · exact (sameKey_iff p s).mpr hrt
    · intro u hu hpu
      exact eq_of_nodup_map URL.key urls hnd u hu s hs (((sameKey_iff p u).mp hpu).symm.trans hrt)

theorem findByURL_mem (raw : Str) (urls : List URL) (u : URL) (h : findByURL raw urls = some u) : u ∈ urls := by
  unfold findByURL at h
  cases hp : parse raw with
  | none => rw [hp] at h; cases h
  | some p => rw [hp] at h; exact List.mem_of_find?_eq_some h

/-! decimal -/

theorem decimal_digits (n : Nat) : ∀ c ∈ decimal n, c.isDigit = true :=
  fun _ hc => Nat.isDigit_of_mem_toDigits (by decide) (by decide) hc

theorem isDigit_ne (c : Char) (h : c.isDigit = true) : c ≠ '|' ∧ c ≠ '-' ∧ c ≠ '+' := by
  refine ⟨?_, ?_, ?_⟩ <;> (intro e; subst e; revert h; decide)

theorem parseInt64_decimal (n : Nat) (hn : n < 2 ^ 63) : parseInt64 (decimal n) = some (n : Int) := by
  have hd := decimal_digits n
  have hne : decimal n ≠ [] := Nat.toDigits_ne_nil
  have hval : Nat.ofDigitChars 10 (decimal n) 0 = n := Nat.ofDigitChars_ten_toDigits
  cases hl : decimal n with
  | nil => exact absurd hl hne
  | cons c t =>
    have hc := isDigit_ne c (hd c (by rw [hl]; simp))
    rw [hl] at hd hval
    have hall : (c :: t).all Char.isDigit = true := List.all_eq_true.mpr hd
    have h1 : ((c :: t).head? = some '-') = False := by simp [hc.2.1]
    have h2 : ((c :: t).head? = some '+') = False := by simp [hc.2.2]
    unfold parseInt64
    simp only [h1, h2, or_self, if_false, decide_false, hall, hval, hn]
    simp

theorem pipe_not_mem_decimal (n : Nat) : '|' ∉ decimal n :=
  fun m => (isDigit_ne _ (decimal_digits n _ m)).1 rfl

/-- the TTL check on a plaintext minted with expiry `e` -/
theorem checkTTL_minted (now ttl e : Nat) (r : Str) (httl : 0 < ttl) (he : e < 2 ^ 63) :
    checkTTL now ttl (r ++ '|' :: decimal e) =
      if ((baseUnixNs + now : Nat) : Int) > (e : Int) * 1000000000 then none else some r := by
  unfold checkTTL
  rw [if_pos httl, cutLast_append_cons '|' r (decimal e) (pipe_not_mem_decimal e)]
  simp only [parseInt64_decimal e he]

theorem cookieSafe_filter (v : Str) (h : cookieSafe v = true) : v.filter validCookieValueByte = v := by
  rw [List.filter_eq_self]
  intro c hc
  have := List.all_eq_true.mp h c hc
  simp only [Bool.and_eq_true] at this
  exact this.1.1

end Sticky
