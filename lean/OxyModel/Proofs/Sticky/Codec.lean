import OxyModel.Proofs.Sticky.Wire
import OxyModel.Proofs.Sticky.URLRound

/-! Lemmas about the codecs: lookup by URL, decimal expiry, TTL check. -/
namespace Sticky

theorem eq_of_nodup_map {α β : Type} (f : α → β) : ∀ (l : List α), (l.map f).Nodup → ∀ a ∈ l, ∀ b ∈ l, f a = f b → a = b
  | [], _, a, ha, _, _, _ => by cases ha
  | x :: t, hnd, a, ha, b, hb, hab => by
    rw [List.map_cons, List.nodup_cons] at hnd
    rcases List.mem_cons.mp ha with ea | ha' <;> rcases List.mem_cons.mp hb with eb | hb'
    · rw [ea, eb]
    · exfalso; apply hnd.1; rw [← ea, hab]; exact List.mem_map_of_mem hb'
    · exfalso; apply hnd.1; rw [← eb, ← hab]; exact List.mem_map_of_mem ha'
    · exact eq_of_nodup_map f t hnd.2 a ha' b hb' hab

theorem sameKey_iff (p u : URL) : (p.scheme == u.scheme && p.host == u.host && p.path == u.path) = true ↔ p.key = u.key := by
  simp only [Bool.and_eq_true, beq_iff_eq, URL.key, Prod.mk.injEq, and_assoc]

/-- `RawValue.FindURL(u.String(), servers)` finds `u` -/
theorem findByURL_render (urls : List URL) (s : URL) (hnd : (urls.map URL.key).Nodup) (hs : s ∈ urls)
    (hrt : RoundTrip s) : findByURL (render s) urls = some s := by
  unfold RoundTrip at hrt
  unfold findByURL
  cases hp : parse (render s) with
  | none => rw [hp] at hrt; cases hrt
  | some p =>
    rw [hp] at hrt
    simp only [Option.map_some, Option.some.injEq] at hrt
    simp only
    apply find?_unique hs
    · exact (sameKey_iff p s).mpr hrt
    · intro u hu hpu
      exact eq_of_nodup_map URL.key urls hnd u hu s hs (((sameKey_iff p u).mp hpu).symm.trans hrt)

theorem findByURL_mem (raw : Str) (urls : List URL) (u : URL) (h : findByURL raw urls = some u) : u ∈ urls := by
  unfold findByURL at h
  cases hp : parse raw with
  | none => rw [hp] at h; cases h
  | some p => rw [hp] at h; exact List.mem_of_find?_eq_some h

/-! decimal -/

theorem decimal_digits (n : Nat) : ∀ c ∈ decimal n, c.isDigit = true :=
  fun _ hc => Nat.isDigit_of_mem_toDigits (by decide) (by decide) hc

theorem isDigit_ne (c : Char) (h : c.isDigit = true) : c ≠ '|' ∧ c ≠ '-' ∧ c ≠ '+' := by
  refine ⟨?_, ?_, ?_⟩ <;> (intro e; subst e; revert h; decide)

theorem parseInt64_decimal (n : Nat) (hn : n < 2 ^ 63) : parseInt64 (decimal n) = some (n : Int) := by
  have hd := decimal_digits n
  have hne : decimal n ≠ [] := Nat.toDigits_ne_nil
  have hval : Nat.ofDigitChars 10 (decimal n) 0 = n := Nat.ofDigitChars_ten_toDigits
  cases hl : decimal n with
  | nil => exact absurd hl hne
  | cons c t =>
    have hc := isDigit_ne c (hd c (by rw [hl]; simp))
    rw [hl] at hd hval
    have hall : (c :: t).all Char.isDigit = true := List.all_eq_true.mpr hd
    have h1 : ((c :: t).head? = some '-') = False := by simp [hc.2.1]
    have h2 : ((c :: t).head? = some '+') = False := by simp [hc.2.2]
    unfold parseInt64
    simp only [h1, h2, or_self, if_false, decide_false, hall, hval, hn]
    simp

theorem pipe_not_mem_decimal (n : Nat) : '|' ∉ decimal n :=
  fun m => (isDigit_ne _ (decimal_digits n _ m)).1 rfl

/-- the TTL check on a plaintext minted with expiry `e` -/
theorem checkTTL_minted (now ttl e : Nat) (r : Str) (httl : 0 < ttl) (he : e < 2 ^ 63) :
    checkTTL now ttl (r ++ '|' :: decimal e) =
      if ((baseUnixNs + now : Nat) : Int) > (e : Int) * 1000000000 then none else some r := by
  unfold checkTTL
  rw [if_pos httl, cutLast_append_cons '|' r (decimal e) (pipe_not_mem_decimal e)]
  simp only [parseInt64_decimal e he]

theorem cookieSafe_filter (v : Str) (h : cookieSafe v = true) : v.filter validCookieValueByte = v := by
  rw [List.filter_eq_self]
  intro c hc
  have := List.all_eq_true.mp h c hc
  simp only [Bool.and_eq_true] at this
  exact this.1.1

/-- the cookie of a server whose key has left the pool finds nothing -/
theorem findByURL_gone (urls : List URL) (s : URL) (hrt : RoundTrip s) (hgone : ∀ u ∈ urls, u.key ≠ s.key) :
    findByURL (render s) urls = none := by
  unfold RoundTrip at hrt
  unfold findByURL
  cases hp : parse (render s) with
  | none => rfl
  | some p =>
    rw [hp] at hrt
    simp only [Option.map_some, Option.some.injEq] at hrt
    simp only
    rw [List.find?_eq_none]
    intro u hu hpu
    exact hgone u hu (((sameKey_iff p u).mp hpu).symm.trans hrt)

/-! a string without `:` never parses to a URL with a scheme -/

theorem getSchemeGo_no_colon (raw : Str) : ∀ (rest acc : Str), ':' ∉ rest → getSchemeGo raw rest acc = some ([], raw)
  | [], _, _ => rfl
  | c :: t, acc, h => by
    have hc : c ≠ ':' := fun e => h (by simp [e])
    have ht : ':' ∉ t := fun m => h (by simp [m])
    unfold getSchemeGo
    split
    · exact getSchemeGo_no_colon raw t _ ht
    · split
      · split
        · rfl
        · exact getSchemeGo_no_colon raw t _ ht
      · simp [hc]

theorem setPath_scheme (u p : URL) (r : Str) (h : setPath u r = some p) : p.scheme = u.scheme := by
  unfold setPath at h
  split at h
  · cases h
  · cases h; rfl

theorem parseNoFrag_scheme_nil (w : Str) (p : URL) (hc : ':' ∉ w) (hp : parseNoFrag w = some p) : p.scheme = [] := by
  unfold parseNoFrag at hp
  rw [show getScheme w = some ([], w) from getSchemeGo_no_colon w w [] hc] at hp
  simp only [List.map_nil] at hp
  repeat' split at hp
  all_goals first | (cases hp; rfl) | cases hp | exact setPath_scheme _ _ _ hp

theorem parse_scheme_nil (v : Str) (p : URL) (hc : ':' ∉ v) (hp : parse v = some p) : p.scheme = [] := by
  unfold parse at hp
  simp only at hp
  have hc1 : ':' ∉ (cut '#' v).1 := by
    unfold cut
    split
    · exact hc
    · exact fun m => hc ((List.takeWhile_sublist _).subset m)
  cases hn : parseNoFrag (cut '#' v).1 with
  | none => rw [hn] at hp; cases hp
  | some q =>
    rw [hn] at hp
    have hq := parseNoFrag_scheme_nil _ q hc1 hn
    simp only at hp
    split at hp
    · cases hp; exact hq
    · unfold setFragment at hp
      split at hp
      · cases hp
      · cases hp; exact hq

/-- `RawValue.FindURL` never claims a value without `:` (a hash, a base64 string) when every member has a scheme -/
theorem findByURL_no_colon (v : Str) (urls : List URL) (hc : ':' ∉ v) (hs : ∀ u ∈ urls, u.scheme ≠ []) :
    findByURL v urls = none := by
  unfold findByURL
  cases hp : parse v with
  | none => rfl
  | some p =>
    simp only
    rw [List.find?_eq_none]
    intro u hu hpu
    have := ((sameKey_iff p u).mp hpu)
    simp only [URL.key, Prod.mk.injEq] at this
    exact hs u hu (this.1 ▸ parse_scheme_nil v p hc hp)

end Sticky
