import OxyModel.Proofs.Sticky.Escape

/-! `url.Parse(u.String())` gives back scheme, host and path — proved for absolute URLs (`Abs`): lower-case scheme,
optional userinfo (any bytes), reg-name or bracketed IP-literal host with optional numeric port, any path bytes
(with or without a `RawPath` hint), any query without `#` and control bytes; no fragment. -/
namespace Sticky

/-- `url.Parse ∘ URL.String` preserves what `sameURL` compares -/
def RoundTrip (u : URL) : Prop := (parse (render u)).map URL.key = some u.key

instance (u : URL) : Decidable (RoundTrip u) := by unfold RoundTrip; infer_instance

def schemeChar (c : Char) : Bool := ('a' ≤ c && c ≤ 'z') || isDigit c || c == '+' || c == '-' || c == '.'
def hostChar (c : Char) : Bool := isAlpha c || isDigit c || c == '.' || c == '-'

def isCTL (c : Char) : Bool := c.toNat < 0x20 || c.toNat == 0x7f

/-- harmless in every position of an absolute URL string -/
structure Inert (c : Char) : Prop where
  h1 : c ≠ '#'
  h2 : c ≠ '?'
  h3 : c ≠ '/'
  h4 : c ≠ '@'
  h5 : c ≠ '%'
  h6 : c ≠ '['
  ctl : isCTL c = false
  host : shouldEscape c .host = false

theorem lower_nat (c : Char) (h : 'a' ≤ c ∧ c ≤ 'z') : 97 ≤ c.toNat ∧ c.toNat ≤ 122 := by
  simpa only [char_le_iff, Char.reduceToNat] using h

theorem digit_nat (c : Char) (h : isDigit c = true) : 48 ≤ c.toNat ∧ c.toNat ≤ 57 := by
  simpa only [isDigit, Bool.and_eq_true, decide_eq_true_eq, char_le_iff, Char.reduceToNat] using h

theorem alpha_nat (c : Char) (h : isAlpha c = true) :
    (97 ≤ c.toNat ∧ c.toNat ≤ 122) ∨ (65 ≤ c.toNat ∧ c.toNat ≤ 90) := by
  simpa only [isAlpha, Bool.or_eq_true, Bool.and_eq_true, decide_eq_true_eq, char_le_iff, Char.reduceToNat] using h

theorem inert_of_range (c : Char) (hr : (97 ≤ c.toNat ∧ c.toNat ≤ 122) ∨ (65 ≤ c.toNat ∧ c.toNat ≤ 90) ∨
    (48 ≤ c.toNat ∧ c.toNat ≤ 57)) : Inert c := by
  have ne : ∀ d : Char, (d.toNat < 48 ∨ (57 < d.toNat ∧ d.toNat < 65) ∨ (90 < d.toNat ∧ d.toNat < 97) ∨ 122 < d.toNat) → c ≠ d := by
    intro d hd e; subst e; omega
  have hesc : shouldEscape c .host = false := by
    have : (isAlpha c || isDigit c) = true := by
      simp only [isAlpha, isDigit, Bool.or_eq_true, Bool.and_eq_true, decide_eq_true_eq, char_le_iff, Char.reduceToNat]
      omega
    unfold shouldEscape; simp [this]
  refine ⟨ne _ (by decide), ne _ (by decide), ne _ (by decide), ne _ (by decide), ne _ (by decide), ne _ (by decide), ?_, hesc⟩
  simp only [isCTL, Bool.or_eq_false_iff, decide_eq_false_iff_not, beq_eq_false_iff_ne]; omega

theorem inert_dot : Inert '.' := ⟨by decide, by decide, by decide, by decide, by decide, by decide, by decide, by decide⟩
theorem inert_dash : Inert '-' := ⟨by decide, by decide, by decide, by decide, by decide, by decide, by decide, by decide⟩
theorem inert_plus : Inert '+' := ⟨by decide, by decide, by decide, by decide, by decide, by decide, by decide, by decide⟩
theorem inert_colon : Inert ':' := ⟨by decide, by decide, by decide, by decide, by decide, by decide, by decide, by decide⟩

theorem inert_digit (c : Char) (h : isDigit c = true) : Inert c :=
  inert_of_range c (Or.inr (Or.inr (digit_nat c h)))

theorem inert_hostChar (c : Char) (h : hostChar c = true) : Inert c := by
  simp only [hostChar, Bool.or_eq_true, beq_iff_eq] at h
  rcases h with ((h | h) | h) | h
  · exact inert_of_range c (by rcases alpha_nat c h with h | h <;> omega)
  · exact inert_digit c h
  · subst h; exact inert_dot
  · subst h; exact inert_dash

theorem inert_schemeChar (c : Char) (h : schemeChar c = true) : Inert c := by
  simp only [schemeChar, Bool.or_eq_true, Bool.and_eq_true, decide_eq_true_eq, beq_iff_eq] at h
  rcases h with (((h | h) | h) | h) | h
  · exact inert_of_range c (Or.inl (lower_nat c h))
  · exact inert_digit c h
  · subst h; exact inert_plus
  · subst h; exact inert_dash
  · subst h; exact inert_dot

theorem hostChar_ne_colon (c : Char) (h : hostChar c = true) : c ≠ ':' := by
  intro e; subst e; revert h; decide

theorem digit_ne_colon (c : Char) (h : isDigit c = true) : c ≠ ':' := by
  intro e; subst e; revert h; decide

/-- `getScheme` reads a well-formed scheme up to the colon -/
theorem getSchemeGo_scheme (raw : Str) (t rest acc : Str) (ht : t.all schemeChar = true) (hacc : acc ≠ []) :
    getSchemeGo raw (t ++ ':' :: rest) acc = some (acc.reverse ++ t, rest) := by
  induction t generalizing acc with
  | nil => simp [getSchemeGo, isAlpha, isDigit, hacc]
  | cons c t ih =>
    have hc : schemeChar c = true := by simp only [List.all_cons, Bool.and_eq_true] at ht; exact ht.1
    have ht' : t.all schemeChar = true := by simp only [List.all_cons, Bool.and_eq_true] at ht; exact ht.2
    simp only [List.cons_append, getSchemeGo]
    by_cases ha : isAlpha c = true
    · simp only [ha, if_true]
      rw [ih (c :: acc) ht' (by simp)]; simp
    · have hd : (isDigit c || c == '+' || c == '-' || c == '.') = true := by
        simp only [schemeChar, Bool.or_eq_true, Bool.and_eq_true, decide_eq_true_eq, beq_iff_eq] at hc
        simp only [Bool.or_eq_true, beq_iff_eq]
        rcases hc with (((h | h) | h) | h) | h
        · exfalso; apply ha; simp only [isAlpha, Bool.or_eq_true, Bool.and_eq_true, decide_eq_true_eq]; exact Or.inl h
        · exact Or.inl (Or.inl (Or.inl h))
        · exact Or.inl (Or.inl (Or.inr h))
        · exact Or.inl (Or.inr h)
        · exact Or.inr h
      simp only [ha, Bool.false_eq_true, if_false, hd, if_true, hacc]
      rw [ih (c :: acc) ht' (by simp)]; simp

theorem toLowerC_schemeChar (c : Char) (h : schemeChar c = true ∨ ('a' ≤ c ∧ c ≤ 'z')) : toLowerC c = c := by
  have hn : ¬('A' ≤ c ∧ c ≤ 'Z') := by
    simp only [char_le_iff, Char.reduceToNat]
    rcases h with h | h
    · simp only [schemeChar, Bool.or_eq_true, Bool.and_eq_true, decide_eq_true_eq, beq_iff_eq] at h
      rcases h with (((h | h) | h) | h) | h
      · have := lower_nat c h; omega
      · have := digit_nat c h; omega
      · subst h; decide
      · subst h; decide
      · subst h; decide
    · have := lower_nat c h; omega
  simp [toLowerC, hn]


/-! ## hosts -/

/-- harmless inside an authority -/
structure HostSafe (c : Char) : Prop where
  h1 : c ≠ '#'
  h2 : c ≠ '?'
  h3 : c ≠ '/'
  h4 : c ≠ '@'
  h5 : c ≠ '%'
  ctl : isCTL c = false
  host : shouldEscape c .host = false

theorem Inert.safe {c : Char} (h : Inert c) : HostSafe c := ⟨h.h1, h.h2, h.h3, h.h4, h.h5, h.ctl, h.host⟩
theorem safe_lbr : HostSafe '[' := ⟨by decide, by decide, by decide, by decide, by decide, by decide, by decide⟩
theorem safe_rbr : HostSafe ']' := ⟨by decide, by decide, by decide, by decide, by decide, by decide, by decide⟩

/-- inside the brackets of an IP literal: hex digits, `:`, `.` (no zone) -/
def litChar (c : Char) : Bool := hostChar c || c == ':'

def PortOK (port : Str) : Prop := port = [] ∨ ∃ ds, port = ':' :: ds ∧ ds.all isDigit = true

/-- `name[:port]` with `name` of letters, digits, `.`, `-`; or `[literal][:port]` -/
def HostOK (h : Str) : Prop :=
  ∃ core port, h = core ++ port ∧ PortOK port ∧
    ((core ≠ [] ∧ core.all hostChar = true) ∨ (∃ lit, core = '[' :: lit ++ [']'] ∧ lit.all litChar = true))

theorem safe_litChar (c : Char) (h : litChar c = true) : HostSafe c := by
  simp only [litChar, Bool.or_eq_true, beq_iff_eq] at h
  rcases h with h | h
  · exact (inert_hostChar c h).safe
  · subst h; exact inert_colon.safe

theorem port_safe {port : Str} (hp : PortOK port) : ∀ c ∈ port, Inert c ∧ c ≠ ']' := by
  intro c hc
  rcases hp with hp | ⟨ds, hp, hd⟩
  · subst hp; cases hc
  · subst hp
    rcases List.mem_cons.mp hc with e | h
    · subst e; exact ⟨inert_colon, by decide⟩
    · have hdg := List.all_eq_true.mp hd c h
      refine ⟨inert_digit c hdg, ?_⟩
      intro e; subst e; revert hdg; decide

theorem host_safe {h : Str} (hh : HostOK h) : ∀ c ∈ h, HostSafe c := by
  obtain ⟨core, port, e, hp, hc⟩ := hh
  subst e
  intro c hm
  rcases List.mem_append.mp hm with hm | hm
  · rcases hc with ⟨_, hn⟩ | ⟨lit, e, hl⟩
    · exact (inert_hostChar c (List.all_eq_true.mp hn c hm)).safe
    · subst e
      simp only [List.cons_append, List.mem_cons, List.mem_append, List.not_mem_nil, or_false] at hm
      rcases hm with e | hm | e
      · subst e; exact safe_lbr
      · exact safe_litChar c (List.all_eq_true.mp hl c hm)
      · subst e; exact safe_rbr
  · exact (port_safe hp c hm).1.safe

theorem splitAtSub_none (s : Str) (h : '%' ∉ s) : splitAtSub ['%', '2', '5'] s = none := by
  induction s with
  | nil => rfl
  | cons c t ih =>
    have hc : c ≠ '%' := fun e => h (by simp [e])
    have ht : '%' ∉ t := fun m => h (by simp [m])
    have hp : (['%', '2', '5'].isPrefixOf (c :: t)) = false := by
      simp [List.isPrefixOf, Ne.symm hc]
    rw [splitAtSub, hp, ih ht]; rfl

theorem validOptionalPort_ok {port : Str} (hp : PortOK port) : validOptionalPort port = true := by
  rcases hp with hp | ⟨ds, hp, hd⟩
  · subst hp; rfl
  · subst hp; simp [validOptionalPort, hd]

theorem parseHost_ok {h : Str} (hh : HostOK h) : parseHost h = some h := by
  have hs := host_safe hh
  have hun : unescape .host h = some h := unescape_id .host _ fun c hc => ⟨(hs c hc).h5, (hs c hc).host⟩
  obtain ⟨core, port, e, hp, hc⟩ := hh
  subst e
  unfold parseHost
  rcases hc with ⟨hne, hn⟩ | ⟨lit, e, hl⟩
  · -- reg-name
    have hhead : (core ++ port).head? ≠ some '[' := by
      cases core with
      | nil => exact absurd rfl hne
      | cons x t =>
        simp only [List.cons_append, List.head?_cons, ne_eq, Option.some.injEq]
        exact (inert_hostChar x (List.all_eq_true.mp hn x (by simp))).h6
    have hcolon : ':' ∉ core := fun m => hostChar_ne_colon _ (List.all_eq_true.mp hn _ m) rfl
    rw [if_neg hhead]
    rcases hp with hp | ⟨ds, hp', hd⟩
    · subst hp
      rw [List.append_nil] at hun ⊢
      rw [cutLast_not_mem ':' core hcolon]; exact hun
    · subst hp'
      have hds : ':' ∉ ds := fun m => digit_ne_colon _ (List.all_eq_true.mp hd _ m) rfl
      rw [cutLast_append_cons ':' core ds hds]
      simp only [validOptionalPort, beq_self_eq_true, hd, Bool.and_self, Bool.not_true, Bool.false_eq_true, if_false]
      exact hun
  · -- bracketed literal
    subst e
    have hshape : ('[' :: lit ++ [']']) ++ port = ('[' :: lit) ++ ']' :: port := by simp
    have hrb : ']' ∉ port := fun m => (port_safe hp _ m).2 rfl
    have hpct : '%' ∉ '[' :: lit := by
      intro m
      rcases List.mem_cons.mp m with e | m
      · revert e; decide
      · exact (safe_litChar _ (List.all_eq_true.mp hl _ m)).h5 rfl
    rw [hshape] at hun ⊢
    rw [if_pos (by simp), cutLast_append_cons ']' _ port hrb]
    simp only [validOptionalPort_ok hp, Bool.not_true, Bool.false_eq_true, if_false, splitAtSub_none _ hpct]
    exact hun

/-! ## userinfo -/

/-- the per-character test of `validUserinfo` -/
def vuChar (c : Char) : Bool :=
  isAlpha c || isDigit c ||
    ['-', '.', '_', ':', '~', '!', '$', '&', '\'', '(', ')', '*', '+', ',', ';', '=', '%', '@'].contains c

theorem validUserinfo_eq (s : Str) : validUserinfo s = s.all vuChar := rfl

/-- what an escaped user name or password consists of -/
def UiOK (c : Char) : Prop :=
  c ≠ '#' ∧ c ≠ '?' ∧ c ≠ '/' ∧ c ≠ '@' ∧ c ≠ ':' ∧ isCTL c = false ∧ vuChar c = true

theorem uiOK_hex : ∀ d, d < 16 → UiOK (hexDigit d) := by unfold UiOK; decide

theorem uiOK_alnum (c : Char) (h : isAlpha c = true ∨ isDigit c = true) : UiOK c := by
  have hr : (97 ≤ c.toNat ∧ c.toNat ≤ 122) ∨ (65 ≤ c.toNat ∧ c.toNat ≤ 90) ∨ (48 ≤ c.toNat ∧ c.toNat ≤ 57) := by
    rcases h with h | h
    · rcases alpha_nat c h with h | h <;> omega
    · exact Or.inr (Or.inr (digit_nat c h))
  have hi := inert_of_range c hr
  have hv : vuChar c = true := by
    unfold vuChar
    rcases h with h | h <;> simp [h]
  refine ⟨hi.h1, hi.h2, hi.h3, hi.h4, ?_, hi.ctl, hv⟩
  intro e; subst e; revert hr; decide

theorem not_escaped_up (c : Char) (h : shouldEscape c .userPassword = false) :
    isAlpha c = true ∨ isDigit c = true ∨ c ∈ ['-', '_', '.', '~', '$', '&', '+', ',', ';', '='] := by
  unfold shouldEscape at h
  by_cases h1 : (isAlpha c || isDigit c) = true
  · simp only [Bool.or_eq_true] at h1
    rcases h1 with h1 | h1
    · exact Or.inl h1
    · exact Or.inr (Or.inl h1)
  · right; right
    simp only [h1, Bool.false_eq_true, if_false, show (Enc.userPassword == Enc.host) = false from rfl,
      show (Enc.userPassword == Enc.zone) = false from rfl, show (Enc.userPassword == Enc.fragment) = false from rfl,
      Bool.or_self, Bool.false_and] at h
    by_cases h2 : (['-', '_', '.', '~'].contains c) = true
    · simp only [List.contains_iff_mem, List.mem_cons, List.not_mem_nil, or_false] at h2
      simp only [List.mem_cons, List.not_mem_nil, or_false]
      rcases h2 with e | e | e | e <;> simp [e]
    · simp only [h2, Bool.false_eq_true, if_false] at h
      by_cases h3 : (['$', '&', '+', ',', '/', ':', ';', '=', '?', '@'].contains c) = true
      · simp only [h3, if_true, Bool.or_eq_false_iff, beq_eq_false_iff_ne, ne_eq] at h
        simp only [List.contains_iff_mem, List.mem_cons, List.not_mem_nil, or_false] at h3
        simp only [List.mem_cons, List.not_mem_nil, or_false]
        obtain ⟨⟨⟨ha, hs⟩, hq⟩, hcol⟩ := h
        rcases h3 with e | e | e | e | e | e | e | e | e | e <;>
          first | exact absurd e ha | exact absurd e hs | exact absurd e hq | exact absurd e hcol | simp [e]
      · simp only [h3, Bool.false_eq_true, if_false] at h
        cases h

theorem uiOK_escape (s : Str) (hb : Bytes s) : ∀ c ∈ escape .userPassword s, UiOK c := by
  intro c hc
  rcases mem_escape .userPassword s hb c hc with h | ⟨d, hd, h⟩ | ⟨_, h⟩
  · subst h; unfold UiOK; decide
  · subst h; exact uiOK_hex d hd
  · rcases not_escaped_up c h with h | h | h
    · exact uiOK_alnum c (Or.inl h)
    · exact uiOK_alnum c (Or.inr h)
    · simp only [List.mem_cons, List.not_mem_nil, or_false] at h
      rcases h with e | e | e | e | e | e | e | e | e | e <;> (subst e; unfold UiOK; decide)

def UserOK : Option (Str × Option Str) → Prop
  | none => True
  | some (n, none) => Bytes n
  | some (n, some p) => Bytes n ∧ Bytes p

/-- the characters of `userinfo@` -/
theorem userinfoAt_chars (user : Option (Str × Option Str)) (hu : UserOK user) :
    ∀ c ∈ userinfoAt user, c ≠ '#' ∧ c ≠ '?' ∧ c ≠ '/' ∧ isCTL c = false := by
  have hat : ('@' : Char) ≠ '#' ∧ '@' ≠ '?' ∧ '@' ≠ '/' ∧ isCTL '@' = false := by decide
  have hco : (':' : Char) ≠ '#' ∧ ':' ≠ '?' ∧ ':' ≠ '/' ∧ isCTL ':' = false := by decide
  have hui : ∀ c, UiOK c → c ≠ '#' ∧ c ≠ '?' ∧ c ≠ '/' ∧ isCTL c = false := fun c h => ⟨h.1, h.2.1, h.2.2.1, h.2.2.2.2.2.1⟩
  intro c hc
  match user, hu with
  | none, _ => cases hc
  | some (n, none), hn =>
    simp only [userinfoAt, List.mem_append, List.mem_cons, List.not_mem_nil, or_false] at hc
    rcases hc with h | e
    · exact hui c (uiOK_escape n hn c h)
    · subst e; exact hat
  | some (n, some p), ⟨hn, hp⟩ =>
    simp only [userinfoAt, List.mem_append, List.mem_cons, List.not_mem_nil, or_false] at hc
    rcases hc with ((h | e) | h) | e
    · exact hui c (uiOK_escape n hn c h)
    · subst e; exact hco
    · exact hui c (uiOK_escape p hp c h)
    · subst e; exact hat

theorem all_vuChar {s : Str} (h : ∀ c ∈ s, UiOK c) : s.all vuChar = true :=
  List.all_eq_true.mpr fun c hc => (h c hc).2.2.2.2.2.2

/-- `parseAuthority` accepts `userinfo@host` as rendered and returns the host unchanged -/
theorem parseAuthority_ok (user : Option (Str × Option Str)) (hu : UserOK user) {H : Str} (hH : HostOK H) :
    ∃ usr, parseAuthority (userinfoAt user ++ H) = some (usr, H) := by
  have hat : '@' ∉ H := fun m => (host_safe hH '@' m).h4 rfl
  have hph := parseHost_ok hH
  match user, hu with
  | none, _ =>
    refine ⟨none, ?_⟩
    simp only [userinfoAt, List.nil_append]
    unfold parseAuthority
    rw [cutLast_not_mem '@' _ hat, hph]; rfl
  | some (n, none), hn =>
    have hchars := uiOK_escape n hn
    have hshape : userinfoAt (some (n, none)) ++ H = escape .userPassword n ++ '@' :: H := by simp [userinfoAt]
    have hnc : (escape .userPassword n).contains ':' = false := by
      rw [Bool.eq_false_iff]; intro h
      exact (hchars ':' (List.contains_iff_mem.mp h)).2.2.2.2.1 rfl
    rw [hshape]
    unfold parseAuthority
    rw [cutLast_append_cons '@' _ H hat]
    simp only [hph, validUserinfo_eq, all_vuChar hchars, Bool.not_true, Bool.false_eq_true, if_false, hnc, Bool.not_false, if_true,
      unescape_escape .userPassword (by decide) (by decide) n hn, Option.map_some]
    exact ⟨_, rfl⟩
  | some (n, some p), ⟨hn, hp⟩ =>
    have hcn := uiOK_escape n hn
    have hcp := uiOK_escape p hp
    have hshape : userinfoAt (some (n, some p)) ++ H =
        (escape .userPassword n ++ ':' :: escape .userPassword p) ++ '@' :: H := by simp [userinfoAt]
    have hall : (escape .userPassword n ++ ':' :: escape .userPassword p).all vuChar = true := by
      rw [List.all_append, all_vuChar hcn, List.all_cons, all_vuChar hcp]; decide
    have hcol : (escape .userPassword n ++ ':' :: escape .userPassword p).contains ':' = true := by
      rw [List.contains_iff_mem]; simp
    have hncol : ':' ∉ escape .userPassword n := fun m => (hcn ':' m).2.2.2.2.1 rfl
    rw [hshape]
    unfold parseAuthority
    rw [cutLast_append_cons '@' _ H hat]
    simp only [hph, validUserinfo_eq, hall, Bool.not_true, Bool.false_eq_true, if_false, hcol,
      cut_append_cons ':' _ _ hncol, unescape_escape .userPassword (by decide) (by decide) n hn,
      unescape_escape .userPassword (by decide) (by decide) p hp]
    exact ⟨_, rfl⟩

/-! ## paths -/

theorem escape_path_head (p : Str) (h : p = [] ∨ p.head? = some '/') :
    escape .path p = [] ∨ ∃ t, escape .path p = '/' :: t := by
  rcases h with h | h
  · subst h; exact Or.inl rfl
  · cases p with
    | nil => cases h
    | cons c t =>
      simp only [List.head?_cons, Option.some.injEq] at h
      subst h
      right; exact ⟨escape .path t, by rw [escape_cons]; rfl⟩

theorem validEncoded_plain (s : Str) (h : validEncoded .path s = true) :
    ∀ c ∈ s, c ≠ '#' ∧ c ≠ '?' ∧ ¬(c.toNat < 0x20 ∨ c.toNat = 0x7f) := by
  intro c hc
  have := List.all_eq_true.mp h c hc
  simp only [Bool.or_eq_true, Bool.not_eq_true'] at this
  rcases this with h | h
  · simp only [List.contains_iff_mem, List.mem_cons, List.not_mem_nil, or_false] at h
    rcases h with e | e | e | e | e | e | e | e | e | e | e | e | e | e | e | e <;> (subst e; decide)
  · exact plain_of_not_escaped_path c h

/-- the path of `u` and its optional `RawPath` hint are consistent and rooted -/
def PathOK (u : URL) : Prop :=
  (u.rawPath = [] ∧ (u.path = [] ∨ u.path.head? = some '/') ∧ Bytes u.path) ∨
  (u.rawPath ≠ [] ∧ validEncoded .path u.rawPath = true ∧ unescape .path u.rawPath = some u.path ∧
    u.rawPath.head? = some '/')

/-- what `EscapedPath()` returns: rooted, free of `#`, `?` and control bytes, and it unescapes to `Path` -/
theorem escapedPath_ok (u : URL) (h : PathOK u) :
    (escapedPath u = [] ∨ ∃ t, escapedPath u = '/' :: t) ∧
    (∀ c ∈ escapedPath u, c ≠ '#' ∧ c ≠ '?' ∧ ¬(c.toNat < 0x20 ∨ c.toNat = 0x7f)) ∧
    unescape .path (escapedPath u) = some u.path := by
  rcases h with ⟨hr, hp, hb⟩ | ⟨hne, hv, hun, hh⟩
  · have hstar : u.path ≠ ['*'] := by
      rcases hp with h | h
      · rw [h]; simp
      · intro e; rw [e] at h; cases h
    have hep : escapedPath u = escape .path u.path := by simp [escapedPath, hr, hstar]
    rw [hep]
    exact ⟨escape_path_head u.path hp, escape_path_plain u.path hb, unescape_escape .path (by decide) (by decide) u.path hb⟩
  · have hep : escapedPath u = u.rawPath := by simp [escapedPath, hne, hv, hun]
    rw [hep]
    refine ⟨Or.inr ?_, validEncoded_plain _ hv, hun⟩
    cases hrp : u.rawPath with
    | nil => exact absurd hrp hne
    | cons c t => rw [hrp] at hh; simp only [List.head?_cons, Option.some.injEq] at hh; exact ⟨t, by rw [hh]⟩

/-! ## the class and the theorem -/

/-- `scheme://[userinfo@]host[:port][/path][?query]` — the shape of a server URL:
    lower-case scheme; any user name / password bytes; reg-name or bracketed IP-literal host, numeric port;
    ANY path bytes (with or without a consistent `RawPath`); any query without `#` and control bytes; no fragment -/
structure Abs (u : URL) : Prop where
  scheme : ∃ c t, u.scheme = c :: t ∧ ('a' ≤ c ∧ c ≤ 'z') ∧ t.all schemeChar = true
  user : UserOK u.user
  host : HostOK u.host
  path : PathOK u
  query : ∀ c ∈ u.rawQuery, c ≠ '#' ∧ isCTL c = false
  noOpaq : u.opaq = []
  noOmit : u.omitHost = false
  noFrag : u.fragment = []

theorem hostOK_ne_nil {h : Str} (hh : HostOK h) : h ≠ [] := by
  obtain ⟨core, port, e, _, hc⟩ := hh
  subst e
  rcases hc with ⟨hne, _⟩ | ⟨lit, e, _⟩
  · cases core with | nil => exact absurd rfl hne | cons _ _ => simp
  · subst e; simp

/-- what `String()` produces for an `Abs` URL -/
theorem render_abs (u : URL) (hu : Abs u) :
    render u = u.scheme ++ ':' :: '/' :: '/' :: (userinfoAt u.user ++ u.host ++ escapedPath u) ++
      (if u.forceQuery || u.rawQuery != [] then '?' :: u.rawQuery else []) := by
  obtain ⟨c0, t, hs, _, _⟩ := hu.scheme
  have hhost : u.host ≠ [] := hostOK_ne_nil hu.host
  have hsch : u.scheme ≠ [] := by rw [hs]; simp
  have hesc : escape .host u.host = u.host := escape_id .host _ fun c hc => (host_safe hu.host c hc).host
  have hslash : (escapedPath u != [] && (escapedPath u).head? != some '/' && u.host != []) = false := by
    rcases (escapedPath_ok u hu.path).1 with h | ⟨t, h⟩ <;> simp [h]
  simp only [render, hu.noOpaq, hu.noOmit, hu.noFrag, hslash, hesc]
  simp [hsch, hhost]

/-- **URL round trip**: `url.Parse(u.String())` has the scheme, host and path of `u`, for every `Abs` URL -/
theorem roundTrip_abs (u : URL) (hu : Abs u) : RoundTrip u := by
  obtain ⟨c0, t, hs, hc0, ht⟩ := hu.scheme
  have hS : ∀ c ∈ u.scheme, Inert c := by
    rw [hs]; intro c hc
    rcases List.mem_cons.mp hc with e | h
    · subst e; exact inert_of_range c (Or.inl (lower_nat c hc0))
    · exact inert_schemeChar c (List.all_eq_true.mp ht c h)
  have hH := host_safe hu.host
  have hU := userinfoAt_chars u.user hu.user
  obtain ⟨hEPhead, hEP, hunesc⟩ := escapedPath_ok u hu.path
  -- authority ++ path: no '#', no '?', no control byte; the authority has no '/'
  let A : Str := userinfoAt u.user ++ u.host
  let EP := escapedPath u
  have hA : ∀ c ∈ A, c ≠ '#' ∧ c ≠ '?' ∧ c ≠ '/' ∧ isCTL c = false := by
    intro c hc
    rcases List.mem_append.mp hc with h | h
    · exact hU c h
    · exact ⟨(hH c h).h1, (hH c h).h2, (hH c h).h3, (hH c h).ctl⟩
  let X : Str := '/' :: '/' :: (A ++ EP)
  have hX : ∀ c ∈ X, c ≠ '#' ∧ c ≠ '?' ∧ isCTL c = false := by
    intro c hc
    simp only [X, List.mem_cons, List.mem_append] at hc
    rcases hc with e | e | h | h
    · subst e; decide
    · subst e; decide
    · exact ⟨(hA c h).1, (hA c h).2.1, (hA c h).2.2.2⟩
    · have := hEP c h
      refine ⟨this.1, this.2.1, ?_⟩
      simp only [isCTL, Bool.or_eq_false_iff, decide_eq_false_iff_not, beq_eq_false_iff_ne]
      omega
  let T : Str := if u.forceQuery || u.rawQuery != [] then '?' :: u.rawQuery else []
  have hT : ∀ c ∈ T, c ≠ '#' ∧ isCTL c = false := by
    intro c hc
    simp only [T] at hc
    split at hc
    · rcases List.mem_cons.mp hc with e | h
      · subst e; decide
      · exact hu.query c h
    · cases hc
  have hR : render u = u.scheme ++ ':' :: (X ++ T) := by
    rw [render_abs u hu]; simp [X, A, EP, T, List.append_assoc]
  have hmemR : ∀ c ∈ render u, c ≠ '#' ∧ isCTL c = false := by
    intro c hc
    rw [hR] at hc
    simp only [List.mem_append, List.mem_cons] at hc
    rcases hc with h | h | h | h
    · exact ⟨(hS c h).h1, (hS c h).ctl⟩
    · subst h; decide
    · exact ⟨(hX c h).1, (hX c h).2.2⟩
    · exact hT c h
  have hhash : '#' ∉ render u := fun m => (hmemR _ m).1 rfl
  have hctl : containsCTL (render u) = false := by
    unfold containsCTL
    rw [List.any_eq_false]
    intro c hc
    have := (hmemR c hc).2
    simpa [isCTL] using this
  have hstar : render u ≠ ['*'] := by rw [hR, hs]; simp
  have hsch : getScheme (render u) = some (u.scheme, X ++ T) := by
    unfold getScheme
    rw [hR, hs]
    have ha : isAlpha c0 = true := by
      simp only [isAlpha, Bool.or_eq_true, Bool.and_eq_true, decide_eq_true_eq]; exact Or.inl hc0
    simp only [List.cons_append, getSchemeGo, ha, if_true]
    rw [getSchemeGo_scheme _ t (X ++ T) [c0] ht (by simp)]; rfl
  have hlow : u.scheme.map toLowerC = u.scheme := by
    rw [hs]
    simp only [List.map_cons]
    rw [toLowerC_schemeChar c0 (Or.inr hc0)]
    congr 1
    have hid : ∀ l : Str, (∀ c ∈ l, toLowerC c = c) → l.map toLowerC = l := by
      intro l hl
      induction l with
      | nil => rfl
      | cons x xs ih => simp [hl x (by simp), ih fun c hc => hl c (by simp [hc])]
    exact hid t fun c hc => toLowerC_schemeChar c (Or.inl (List.all_eq_true.mp ht c hc))
  have hqX : '?' ∉ X := fun m => (hX _ m).2.1 rfl
  -- the query split leaves `X` as the hierarchical part, whatever the query is
  have hsplit : ∃ q fq, (if (X ++ T).getLast? = some '?' && (X ++ T).count '?' == 1 then ((X ++ T).dropLast, ([] : Str), true)
      else ((cut '?' (X ++ T)).1, (cut '?' (X ++ T)).2.1, false)) = (X, q, fq) := by
    by_cases hT0 : T = []
    · rw [hT0, List.append_nil]
      have : X.getLast? ≠ some '?' := fun h => hqX (List.mem_of_getLast? h)
      refine ⟨[], false, ?_⟩
      simp [this, cut_not_mem '?' X hqX]
    · have hTq : T = '?' :: u.rawQuery := by
        simp only [T] at hT0 ⊢
        split
        · rfl
        · next h => simp [h] at hT0
      rw [hTq]
      by_cases hq0 : u.rawQuery = []
      · rw [hq0]
        refine ⟨[], true, ?_⟩
        have hc1 : (X ++ ['?']).count '?' = 1 := by
          rw [List.count_append, List.count_eq_zero_of_not_mem hqX]; rfl
        simp [hc1]
      · refine ⟨u.rawQuery, false, ?_⟩
        have hcond : ((X ++ '?' :: u.rawQuery).getLast? = some '?' && (X ++ '?' :: u.rawQuery).count '?' == 1) = false := by
          by_cases hl : (X ++ '?' :: u.rawQuery).getLast? = some '?'
          · have hlq : u.rawQuery.getLast? = some '?' := by
              cases hrq : u.rawQuery with
              | nil => exact absurd hrq hq0
              | cons x xs =>
                rw [hrq, List.getLast?_append, List.getLast?_cons_cons] at hl
                cases hg : (x :: xs).getLast? with
                | none => simp at hg
                | some y => rw [hg] at hl; simpa using hl
            have hm : '?' ∈ u.rawQuery := List.mem_of_getLast? hlq
            have hcnt : 0 < u.rawQuery.count '?' := List.count_pos_iff.mpr hm
            have : (X ++ '?' :: u.rawQuery).count '?' = 1 + u.rawQuery.count '?' := by
              rw [List.count_append, List.count_eq_zero_of_not_mem hqX, List.count_cons_self]; omega
            simp only [hl, this, decide_true, Bool.true_and, beq_eq_false_iff_ne, ne_eq]
            omega
          · simp only [hl, decide_false, Bool.false_and]
        rw [hcond, cut_append_cons '?' X u.rawQuery hqX]
        simp
  obtain ⟨q, fq, hsplit⟩ := hsplit
  have htd : (A ++ EP).takeWhile (· != '/') = A ∧ (A ++ EP).dropWhile (· != '/') = EP := by
    have hne' : ∀ c ∈ A, (c != '/') = true := fun c hc => by simpa using (hA c hc).2.2.1
    rcases hEPhead with h | ⟨t', h⟩
    · simp only [EP, h, List.append_nil]
      exact ⟨takeWhile_all hne', dropWhile_all hne'⟩
    · simp only [EP, h]
      exact ⟨takeWhile_append_cons hne' (by simp), dropWhile_append_cons hne' (by simp)⟩
  obtain ⟨usr, hauth⟩ := parseAuthority_ok u.user hu.user hu.host
  have hschne : (u.scheme != []) = true := by rw [hs]; simp
  have hpn : ∃ p, parseNoFrag (render u) = some p ∧ p.key = u.key := by
    unfold parseNoFrag
    rw [if_neg (by simp [hctl]), if_neg hstar, hsch]
    simp only [hlow, hsplit, X, List.head?_cons, hschne]
    simp only [bne_self_eq_false, Bool.false_and, Bool.false_eq_true, if_false, Bool.true_or,
      List.isPrefixOf_cons_cons_self, List.isPrefixOf_nil_left, Bool.and_self, if_true, List.drop_succ_cons, List.drop_zero,
      htd.1, htd.2, A, hauth]
    simp only [setPath, EP, hunesc]
    exact ⟨_, rfl, rfl⟩
  obtain ⟨p, hp, hk⟩ := hpn
  unfold RoundTrip parse
  rw [cut_not_mem '#' _ hhash]
  simp only [hp, if_true, Option.map_some, hk]

end Sticky
