import OxyModel.Proofs.Sticky.Escape

/-! `url.Parse(u.String())` gives back scheme, host and path — proved for absolute URLs without userinfo,
query and fragment (`Plain`), any path bytes. -/
namespace Sticky

/-- `url.Parse ∘ URL.String` preserves what `sameURL` compares -/
def RoundTrip (u : URL) : Prop := (parse (render u)).map URL.key = some u.key

instance (u : URL) : Decidable (RoundTrip u) := by unfold RoundTrip; infer_instance

def schemeChar (c : Char) : Bool := ('a' ≤ c && c ≤ 'z') || isDigit c || c == '+' || c == '-' || c == '.'
def hostChar (c : Char) : Bool := isAlpha c || isDigit c || c == '.' || c == '-'

/-- `scheme://host[:port][/path]`: lower-case scheme, host of letters, digits, `.`, `-`, optional numeric
    port, path empty or rooted — ANY path bytes — no userinfo, query, fragment -/
structure Plain (u : URL) : Prop where
  scheme : ∃ c t, u.scheme = c :: t ∧ ('a' ≤ c ∧ c ≤ 'z') ∧ t.all schemeChar = true
  host : ∃ name port, u.host = name ++ port ∧ name ≠ [] ∧ name.all hostChar = true ∧
      (port = [] ∨ ∃ ds, port = ':' :: ds ∧ ds.all isDigit = true)
  path : u.path = [] ∨ u.path.head? = some '/'
  bytes : ∀ c ∈ u.path, c.toNat < 256
  noUser : u.user = none
  noOpaq : u.opaq = []
  noRawPath : u.rawPath = []
  noOmit : u.omitHost = false
  noForce : u.forceQuery = false
  noQuery : u.rawQuery = []
  noFrag : u.fragment = []

def isCTL (c : Char) : Bool := c.toNat < 0x20 || c.toNat == 0x7f

/-- harmless in every position of an absolute URL string -/
structure Inert (c : Char) : Prop where
  h1 : c ≠ '#'
  h2 : c ≠ '?'
  h3 : c ≠ '/'
  h4 : c ≠ '@'
  h5 : c ≠ '%'
  h6 : c ≠ '['
  ctl : isCTL c = false
  host : shouldEscape c .host = false

theorem lower_nat (c : Char) (h : 'a' ≤ c ∧ c ≤ 'z') : 97 ≤ c.toNat ∧ c.toNat ≤ 122 := by
  simpa only [char_le_iff, Char.reduceToNat] using h

theorem digit_nat (c : Char) (h : isDigit c = true) : 48 ≤ c.toNat ∧ c.toNat ≤ 57 := by
  simpa only [isDigit, Bool.and_eq_true, decide_eq_true_eq, char_le_iff, Char.reduceToNat] using h

theorem alpha_nat (c : Char) (h : isAlpha c = true) :
    (97 ≤ c.toNat ∧ c.toNat ≤ 122) ∨ (65 ≤ c.toNat ∧ c.toNat ≤ 90) := by
  simpa only [isAlpha, Bool.or_eq_true, Bool.and_eq_true, decide_eq_true_eq, char_le_iff, Char.reduceToNat] using h

theorem inert_of_range (c : Char) (hr : (97 ≤ c.toNat ∧ c.toNat ≤ 122) ∨ (65 ≤ c.toNat ∧ c.toNat ≤ 90) ∨
    (48 ≤ c.toNat ∧ c.toNat ≤ 57)) : Inert c := by
  have ne : ∀ d : Char, (d.toNat < 48 ∨ (57 < d.toNat ∧ d.toNat < 65) ∨ (90 < d.toNat ∧ d.toNat < 97) ∨ 122 < d.toNat) → c ≠ d := by
    intro d hd e; subst e; omega
  have hesc : shouldEscape c .host = false := by
    have : (isAlpha c || isDigit c) = true := by
      simp only [isAlpha, isDigit, Bool.or_eq_true, Bool.and_eq_true, decide_eq_true_eq, char_le_iff, Char.reduceToNat]
      omega
    unfold shouldEscape; simp [this]
  refine ⟨ne _ (by decide), ne _ (by decide), ne _ (by decide), ne _ (by decide), ne _ (by decide), ne _ (by decide), ?_, hesc⟩
  simp only [isCTL, Bool.or_eq_false_iff, decide_eq_false_iff_not, beq_eq_false_iff_ne]; omega

theorem inert_dot : Inert '.' := ⟨by decide, by decide, by decide, by decide, by decide, by decide, by decide, by decide⟩
theorem inert_dash : Inert '-' := ⟨by decide, by decide, by decide, by decide, by decide, by decide, by decide, by decide⟩
theorem inert_plus : Inert '+' := ⟨by decide, by decide, by decide, by decide, by decide, by decide, by decide, by decide⟩
theorem inert_colon : Inert ':' := ⟨by decide, by decide, by decide, by decide, by decide, by decide, by decide, by decide⟩

theorem inert_digit (c : Char) (h : isDigit c = true) : Inert c :=
  inert_of_range c (Or.inr (Or.inr (digit_nat c h)))

theorem inert_hostChar (c : Char) (h : hostChar c = true) : Inert c := by
  simp only [hostChar, Bool.or_eq_true, beq_iff_eq] at h
  rcases h with ((h | h) | h) | h
  · exact inert_of_range c (by rcases alpha_nat c h with h | h <;> omega)
  · exact inert_digit c h
  · subst h; exact inert_dot
  · subst h; exact inert_dash

theorem inert_schemeChar (c : Char) (h : schemeChar c = true) : Inert c := by
  simp only [schemeChar, Bool.or_eq_true, Bool.and_eq_true, decide_eq_true_eq, beq_iff_eq] at h
  rcases h with (((h | h) | h) | h) | h
  · exact inert_of_range c (Or.inl (lower_nat c h))
  · exact inert_digit c h
  · subst h; exact inert_plus
  · subst h; exact inert_dash
  · subst h; exact inert_dot

theorem hostChar_ne_colon (c : Char) (h : hostChar c = true) : c ≠ ':' := by
  intro e; subst e; revert h; decide

theorem digit_ne_colon (c : Char) (h : isDigit c = true) : c ≠ ':' := by
  intro e; subst e; revert h; decide

/-- `getScheme` reads a well-formed scheme up to the colon -/
theorem getSchemeGo_scheme (raw : Str) (t rest acc : Str) (ht : t.all schemeChar = true) (hacc : acc ≠ []) :
    getSchemeGo raw (t ++ ':' :: rest) acc = some (acc.reverse ++ t, rest) := by
  induction t generalizing acc with
  | nil => simp [getSchemeGo, isAlpha, isDigit, hacc]
  | cons c t ih =>
    have hc : schemeChar c = true := by simp only [List.all_cons, Bool.and_eq_true] at ht; exact ht.1
    have ht' : t.all schemeChar = true := by simp only [List.all_cons, Bool.and_eq_true] at ht; exact ht.2
    simp only [List.cons_append, getSchemeGo]
    by_cases ha : isAlpha c = true
    · simp only [ha, if_true]
      rw [ih (c :: acc) ht' (by simp)]; simp
    · have hd : (isDigit c || c == '+' || c == '-' || c == '.') = true := by
        simp only [schemeChar, Bool.or_eq_true, Bool.and_eq_true, decide_eq_true_eq, beq_iff_eq] at hc
        simp only [Bool.or_eq_true, beq_iff_eq]
        rcases hc with (((h | h) | h) | h) | h
        · exfalso; apply ha; simp only [isAlpha, Bool.or_eq_true, Bool.and_eq_true, decide_eq_true_eq]; exact Or.inl h
        · exact Or.inl (Or.inl (Or.inl h))
        · exact Or.inl (Or.inl (Or.inr h))
        · exact Or.inl (Or.inr h)
        · exact Or.inr h
      simp only [ha, Bool.false_eq_true, if_false, hd, if_true, hacc]
      rw [ih (c :: acc) ht' (by simp)]; simp

theorem toLowerC_schemeChar (c : Char) (h : schemeChar c = true ∨ ('a' ≤ c ∧ c ≤ 'z')) : toLowerC c = c := by
  have hn : ¬('A' ≤ c ∧ c ≤ 'Z') := by
    simp only [char_le_iff, Char.reduceToNat]
    rcases h with h | h
    · simp only [schemeChar, Bool.or_eq_true, Bool.and_eq_true, decide_eq_true_eq, beq_iff_eq] at h
      rcases h with (((h | h) | h) | h) | h
      · have := lower_nat c h; omega
      · have := digit_nat c h; omega
      · subst h; decide
      · subst h; decide
      · subst h; decide
    · have := lower_nat c h; omega
  simp [toLowerC, hn]

/-- the host of a `Plain` URL: every character inert except the port colon -/
theorem plain_host_chars {name port : Str} (hn : name.all hostChar = true)
    (hp : port = [] ∨ ∃ ds, port = ':' :: ds ∧ ds.all isDigit = true) :
    ∀ c ∈ name ++ port, Inert c := by
  intro c hc
  rcases List.mem_append.mp hc with h | h
  · exact inert_hostChar c (List.all_eq_true.mp hn c h)
  · rcases hp with hp | ⟨ds, hp, hd⟩
    · subst hp; cases h
    · subst hp
      rcases List.mem_cons.mp h with e | h
      · subst e; exact inert_colon
      · exact inert_digit c (List.all_eq_true.mp hd c h)

theorem parseHost_plain {name port : Str} (_hne : name ≠ []) (hn : name.all hostChar = true)
    (hp : port = [] ∨ ∃ ds, port = ':' :: ds ∧ ds.all isDigit = true) :
    parseHost (name ++ port) = some (name ++ port) := by
  have hin := plain_host_chars hn hp
  have hun : unescape .host (name ++ port) = some (name ++ port) :=
    unescape_id .host _ fun c hc => ⟨(hin c hc).h5, (hin c hc).host⟩
  have hhead : (name ++ port).head? ≠ some '[' := by
    intro h
    exact (hin '[' (List.mem_of_head? h)).h6 rfl
  have hcolon : ':' ∉ name := fun m => hostChar_ne_colon _ (List.all_eq_true.mp hn _ m) rfl
  unfold parseHost
  rw [if_neg hhead]
  rcases hp with hp | ⟨ds, hp, hd⟩
  · subst hp
    rw [List.append_nil] at hun ⊢
    rw [cutLast_not_mem ':' name hcolon]; exact hun
  · subst hp
    have hds : ':' ∉ ds := fun m => digit_ne_colon _ (List.all_eq_true.mp hd _ m) rfl
    rw [cutLast_append_cons ':' name ds hds]
    simp only [validOptionalPort, beq_self_eq_true, hd, Bool.and_self, Bool.not_true, Bool.false_eq_true, if_false]
    exact hun

theorem parseAuthority_plain {name port : Str} (hne : name ≠ []) (hn : name.all hostChar = true)
    (hp : port = [] ∨ ∃ ds, port = ':' :: ds ∧ ds.all isDigit = true) :
    parseAuthority (name ++ port) = some (none, name ++ port) := by
  have hat : '@' ∉ name ++ port := fun m => (plain_host_chars hn hp '@' m).h4 rfl
  unfold parseAuthority
  rw [cutLast_not_mem '@' _ hat, parseHost_plain hne hn hp]; rfl

theorem escape_path_head (p : Str) (h : p = [] ∨ p.head? = some '/') :
    escape .path p = [] ∨ ∃ t, escape .path p = '/' :: t := by
  rcases h with h | h
  · subst h; exact Or.inl rfl
  · cases p with
    | nil => cases h
    | cons c t =>
      simp only [List.head?_cons, Option.some.injEq] at h
      subst h
      right; exact ⟨escape .path t, by rw [escape_cons]; rfl⟩

/-- what `String()` produces for a `Plain` URL -/
theorem render_plain (u : URL) (hu : Plain u) :
    render u = u.scheme ++ ':' :: '/' :: '/' :: (u.host ++ escape .path u.path) := by
  obtain ⟨c0, t, hs, _, _⟩ := hu.scheme
  obtain ⟨name, port, hh, hne, hn, hp⟩ := hu.host
  have hhost : u.host ≠ [] := by rw [hh]; cases name with | nil => exact absurd rfl hne | cons _ _ => simp
  have hsch : u.scheme ≠ [] := by rw [hs]; simp
  have hesc : escape .host u.host = u.host := by
    rw [hh]; exact escape_id .host _ fun c hc => (plain_host_chars hn hp c hc).host
  have hstar : u.path ≠ ['*'] := by
    rcases hu.path with h | h
    · rw [h]; simp
    · intro e; rw [e] at h; cases h
  have hep : escapedPath u = escape .path u.path := by
    simp [escapedPath, hu.noRawPath, hstar]
  have hslash : (escape .path u.path != [] && (escape .path u.path).head? != some '/' && u.host != []) = false := by
    rcases escape_path_head u.path hu.path with h | ⟨t, h⟩ <;> simp [h]
  simp only [render, hu.noOpaq, hu.noUser, hu.noOmit, hu.noForce, hu.noQuery, hu.noFrag, hep, hslash, hesc]
  simp [hsch, hhost, userinfoAt]

theorem not_mem_of_inert {l : Str} (h : ∀ c ∈ l, Inert c) :
    '#' ∉ l ∧ '?' ∉ l ∧ '/' ∉ l ∧ l.all (fun c => !isCTL c) = true :=
  ⟨fun m => (h _ m).h1 rfl, fun m => (h _ m).h2 rfl, fun m => (h _ m).h3 rfl,
    List.all_eq_true.mpr fun c hc => by simp [(h c hc).ctl]⟩

/-- **URL round trip** for `Plain` URLs: `url.Parse(u.String())` has the scheme, host and path of `u` -/
theorem roundTrip_plain (u : URL) (hu : Plain u) : RoundTrip u := by
  obtain ⟨c0, t, hs, hc0, ht⟩ := hu.scheme
  obtain ⟨name, port, hh, hne, hn, hp⟩ := hu.host
  have hS : ∀ c ∈ u.scheme, Inert c := by
    rw [hs]; intro c hc
    rcases List.mem_cons.mp hc with e | h
    · subst e; exact inert_of_range c (Or.inl (lower_nat c hc0))
    · exact inert_schemeChar c (List.all_eq_true.mp ht c h)
  have hH : ∀ c ∈ u.host, Inert c := by rw [hh]; exact plain_host_chars hn hp
  obtain ⟨hS1, hS2, _, hS4⟩ := not_mem_of_inert hS
  obtain ⟨hH1, hH2, hH3, hH4⟩ := not_mem_of_inert hH
  have hP := escape_path_plain u.path hu.bytes
  -- the rendered string and its tail after the scheme
  let P := escape .path u.path
  let rest : Str := '/' :: '/' :: (u.host ++ P)
  have hR : render u = u.scheme ++ ':' :: rest := render_plain u hu
  have hmemR : ∀ c ∈ render u, c ≠ '#' ∧ c ≠ '?' ∧ isCTL c = false := by
    intro c hc
    rw [hR] at hc
    simp only [rest, List.mem_append, List.mem_cons] at hc
    rcases hc with h | h | h | h | h | h
    · exact ⟨(hS c h).h1, (hS c h).h2, (hS c h).ctl⟩
    · subst h; decide
    · subst h; decide
    · subst h; decide
    · exact ⟨(hH c h).h1, (hH c h).h2, (hH c h).ctl⟩
    · have := hP c h
      refine ⟨this.1, this.2.1, ?_⟩
      simp only [isCTL, Bool.or_eq_false_iff, decide_eq_false_iff_not, beq_eq_false_iff_ne]
      omega
  have hhash : '#' ∉ render u := fun m => (hmemR _ m).1 rfl
  have hq : '?' ∉ rest := by
    intro m
    have : '?' ∈ render u := by rw [hR]; simp [m]
    exact (hmemR _ this).2.1 rfl
  have hctl : containsCTL (render u) = false := by
    unfold containsCTL
    rw [List.any_eq_false]
    intro c hc
    have := (hmemR c hc).2.2
    simpa [isCTL] using this
  have hstar : render u ≠ ['*'] := by
    rw [hR, hs]; simp
  have hsch : getScheme (render u) = some (u.scheme, rest) := by
    unfold getScheme
    rw [hR, hs]
    have ha : isAlpha c0 = true := by
      simp only [isAlpha, Bool.or_eq_true, Bool.and_eq_true, decide_eq_true_eq]; exact Or.inl hc0
    simp only [List.cons_append, getSchemeGo, ha, if_true]
    rw [getSchemeGo_scheme _ t rest [c0] ht (by simp)]; rfl
  have hlow : u.scheme.map toLowerC = u.scheme := by
    rw [hs]
    simp only [List.map_cons]
    rw [toLowerC_schemeChar c0 (Or.inr hc0)]
    congr 1
    have hid : ∀ l : Str, (∀ c ∈ l, toLowerC c = c) → l.map toLowerC = l := by
      intro l hl
      induction l with
      | nil => rfl
      | cons x xs ih => simp [hl x (by simp), ih fun c hc => hl c (by simp [hc])]
    exact hid t fun c hc => toLowerC_schemeChar c (Or.inl (List.all_eq_true.mp ht c hc))
  have hlast : (rest.getLast? = some '?' && rest.count '?' == 1) = false := by
    have : rest.getLast? ≠ some '?' := fun h => hq (List.mem_of_getLast? h)
    simp [this]
  have hcutq : cut '?' rest = (rest, [], false) := cut_not_mem '?' rest hq
  have htd : (u.host ++ P).takeWhile (· != '/') = u.host ∧ (u.host ++ P).dropWhile (· != '/') = P := by
    have hne' : ∀ c ∈ u.host, (c != '/') = true := fun c hc => by simpa using (hH c hc).h3
    rcases escape_path_head u.path hu.path with h | ⟨t', h⟩
    · simp only [P, h, List.append_nil]
      exact ⟨takeWhile_all hne', dropWhile_all hne'⟩
    · simp only [P, h]
      exact ⟨takeWhile_append_cons hne' (by simp), dropWhile_append_cons hne' (by simp)⟩
  have hauth : parseAuthority u.host = some (none, u.host) := by rw [hh]; exact parseAuthority_plain hne hn hp
  have hunesc : unescape .path P = some u.path := unescape_escape .path (by decide) (by decide) u.path hu.bytes
  have hschne : (u.scheme != []) = true := by rw [hs]; simp
  have hpn : parseNoFrag (render u) =
      some { scheme := u.scheme, host := u.host, path := u.path, rawPath := [] } := by
    unfold parseNoFrag
    rw [if_neg (by simp [hctl]), if_neg hstar, hsch]
    simp only [hlow, hlast, hcutq, Bool.false_eq_true, if_false, rest, List.head?_cons, hschne]
    simp only [bne_self_eq_false, Bool.false_and, Bool.false_eq_true, if_false, Bool.true_or,
      List.isPrefixOf_cons_cons_self, List.isPrefixOf_nil_left, Bool.and_self, if_true, List.drop_succ_cons, List.drop_zero,
      htd.1, htd.2, hauth]
    simp only [setPath, hunesc, P, if_true]
  unfold RoundTrip parse
  rw [cut_not_mem '#' _ hhash]
  simp only [hpn, if_true, Option.map_some, URL.key]

end Sticky
