import OxyModel.Model.Sticky

/-! Helper lemmas on the small string functions of the sticky model (core Lean only). -/
namespace Sticky

theorem takeWhile_append_cons {p : Char → Bool} {a b : Str} {x : Char}
    (ha : ∀ c ∈ a, p c = true) (hx : p x = false) : (a ++ x :: b).takeWhile p = a := by
  rw [List.takeWhile_append_of_pos ha, List.takeWhile_cons]; simp [hx]

theorem dropWhile_append_cons {p : Char → Bool} {a b : Str} {x : Char}
    (ha : ∀ c ∈ a, p c = true) (hx : p x = false) : (a ++ x :: b).dropWhile p = x :: b := by
  rw [List.dropWhile_append_of_pos ha, List.dropWhile_cons]; simp [hx]

theorem dropWhile_all {p : Char → Bool} {a : Str} (ha : ∀ c ∈ a, p c = true) : a.dropWhile p = [] := by
  induction a with
  | nil => rfl
  | cons x t ih =>
    rw [List.dropWhile_cons, if_pos (ha x (by simp))]
    exact ih fun c hc => ha c (by simp [hc])

theorem takeWhile_all {p : Char → Bool} {a : Str} (ha : ∀ c ∈ a, p c = true) : a.takeWhile p = a := by
  induction a with
  | nil => rfl
  | cons x t ih =>
    rw [List.takeWhile_cons, if_pos (ha x (by simp)), ih fun c hc => ha c (by simp [hc])]

private theorem ne_of_not_mem {c : Char} {a : Str} (h : c ∉ a) : ∀ x ∈ a, (x != c) = true := by
  intro x hx
  simp only [bne_iff_ne, ne_eq]
  intro e; exact h (e ▸ hx)

theorem cut_append_cons (c : Char) (a b : Str) (h : c ∉ a) : cut c (a ++ c :: b) = (a, b, true) := by
  unfold cut
  rw [dropWhile_append_cons (ne_of_not_mem h) (by simp), takeWhile_append_cons (ne_of_not_mem h) (by simp)]

theorem cut_not_mem (c : Char) (s : Str) (h : c ∉ s) : cut c s = (s, [], false) := by
  unfold cut
  rw [dropWhile_all (ne_of_not_mem h)]

theorem cutLast_append_cons (c : Char) (a b : Str) (h : c ∉ b) : cutLast c (a ++ c :: b) = some (a, b) := by
  unfold cutLast
  have hr : (a ++ c :: b).reverse = b.reverse ++ c :: a.reverse := by simp
  have hb : c ∉ b.reverse := by simpa using h
  rw [hr, dropWhile_append_cons (ne_of_not_mem hb) (by simp), takeWhile_append_cons (ne_of_not_mem hb) (by simp)]
  simp

theorem cutLast_not_mem (c : Char) (s : Str) (h : c ∉ s) : cutLast c s = none := by
  unfold cutLast
  have hb : c ∉ s.reverse := by simpa using h
  rw [dropWhile_all (ne_of_not_mem hb)]

theorem find?_unique {α : Type} {p : α → Bool} {l : List α} {s : α} (hs : s ∈ l) (hp : p s = true)
    (hu : ∀ u ∈ l, p u = true → u = s) : l.find? p = some s := by
  induction l with
  | nil => cases hs
  | cons x t ih =>
    rw [List.find?_cons]
    cases hx : p x with
    | true => simp only; rw [hu x (by simp) hx]
    | false =>
      simp only
      have : s ∈ t := by
        rcases List.mem_cons.mp hs with e | h
        · rw [e, hx] at hp; cases hp
        · exact h
      exact ih this fun u hu' => hu u (by simp [hu'])

theorem splitOn_not_mem (c : Char) (s : Str) (h : c ∉ s) : splitOn c s = [s] := by
  induction s with
  | nil => rfl
  | cons x t ih =>
    have hx : x ≠ c := fun e => h (by simp [e])
    have ht : c ∉ t := fun m => h (by simp [m])
    simp [splitOn, hx, ih ht]

end Sticky
