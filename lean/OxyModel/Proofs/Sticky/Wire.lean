import OxyModel.Proofs.Sticky.Lists

/-! The cookie wire: what `Request.Cookie` reads back from the pair `http.SetCookie` wrote. -/
namespace Sticky

theorem dropWhile_head {p : Char → Bool} : ∀ (l : Str), (∀ c, l.head? = some c → p c = false) → l.dropWhile p = l
  | [], _ => rfl
  | x :: t, h => by rw [List.dropWhile_cons]; simp [h x rfl]

theorem trimString_id (l : Str) (h1 : ∀ c, l.head? = some c → isASCIISpace c = false)
    (h2 : ∀ c, l.getLast? = some c → isASCIISpace c = false) : trimString l = l := by
  unfold trimString
  rw [dropWhile_head l h1, dropWhile_head l.reverse (by simpa using h2)]
  simp

theorem token_facts (c : Char) (h : isTokenChar c = true) : c ≠ ';' ∧ c ≠ '=' ∧ isASCIISpace c = false := by
  refine ⟨?_, ?_, ?_⟩
  · intro e; subst e; revert h; decide
  · intro e; subst e; revert h; decide
  · cases hs : isASCIISpace c with
    | false => rfl
    | true =>
      simp only [isASCIISpace, Bool.or_eq_true, beq_iff_eq] at hs
      rcases hs with ((e | e) | e) | e <;> (subst e; revert h; decide)

theorem valid_facts (c : Char) (h : validCookieValueByte c = true) :
    c ≠ ';' ∧ c ≠ '"' ∧ (c ≠ ' ' → isASCIISpace c = false) := by
  refine ⟨?_, ?_, ?_⟩
  · intro e; subst e; revert h; decide
  · intro e; subst e; revert h; decide
  · intro hne
    cases hs : isASCIISpace c with
    | false => rfl
    | true =>
      simp only [isASCIISpace, Bool.or_eq_true, beq_iff_eq] at hs
      rcases hs with ((e | e) | e) | e
      · exact absurd e hne
      all_goals (subst e; revert h; decide)

/-- the pair `name=w` is read back as `parseCookieValue w` -/
theorem readCookie_pair (name w : Str) (hn : isCookieNameValid name = true) (hw1 : ';' ∉ w)
    (hw2 : ∀ c, ('=' :: w).getLast? = some c → isASCIISpace c = false) :
    readCookie name (echoLine name w) = parseCookieValue w := by
  have hn' := hn
  simp only [isCookieNameValid, Bool.and_eq_true, bne_iff_ne, ne_eq, List.all_eq_true] at hn'
  obtain ⟨hne, htok⟩ := hn'
  have hsemi : ';' ∉ name := fun m => (token_facts _ (htok _ m)).1 rfl
  have heq : '=' ∉ name := fun m => (token_facts _ (htok _ m)).2.1 rfl
  have hnameTrim : trimString name = name := by
    apply trimString_id
    · intro c hc; exact (token_facts c (htok c (List.mem_of_head? hc))).2.2
    · intro c hc; exact (token_facts c (htok c (List.mem_of_getLast? hc))).2.2
  have hL : trimString (echoLine name w) = echoLine name w := by
    apply trimString_id
    · intro c hc
      cases name with
      | nil => exact absurd rfl hne
      | cons x t =>
        simp only [echoLine, List.cons_append, List.head?_cons, Option.some.injEq] at hc
        subst hc; exact (token_facts x (htok x (by simp))).2.2
    · intro c hc
      unfold echoLine at hc
      rw [List.getLast?_append] at hc
      cases hl : ('=' :: w).getLast? with
      | none => simp at hl
      | some d =>
        rw [hl] at hc
        simp only [Option.some_or, Option.some.injEq] at hc
        subst hc; exact hw2 d hl
  have hsplit : splitOn ';' (echoLine name w) = [echoLine name w] := by
    apply splitOn_not_mem
    unfold echoLine
    simp only [List.mem_append, List.mem_cons, not_or]
    exact ⟨hsemi, by decide, hw1⟩
  have hcut : cut '=' (echoLine name w) = (name, w, true) := cut_append_cons '=' name w heq
  have hLne : echoLine name w ≠ [] := by unfold echoLine; simp
  unfold readCookie
  rw [hL, hsplit]
  simp only [List.findSome?_cons, List.findSome?_nil, hL, hLne, if_false, hcut, hnameTrim, hn, Bool.not_true,
    Bool.false_eq_true, bne_self_eq_false]
  cases parseCookieValue w <;> rfl

/-- what `http.SetCookie` wrote for value `v` is read back as `v` without its invalid bytes -/
theorem parse_sanitize (v : Str) :
    parseCookieValue (sanitizeCookieValue v) = some (v.filter validCookieValueByte) := by
  have hv : ∀ c ∈ v.filter validCookieValueByte, validCookieValueByte c = true := fun c hc => (List.mem_filter.mp hc).2
  unfold sanitizeCookieValue
  simp only
  generalize v.filter validCookieValueByte = v' at hv ⊢
  have hall : v'.all validCookieValueByte = true := List.all_eq_true.mpr hv
  split
  · next h => subst h; rfl
  · next hne =>
    split
    · -- quoted
      unfold parseCookieValue
      have h1 : (('"' :: (v' ++ ['"'])).length > 1) = True := by simp
      have h3 : ('"' :: (v' ++ ['"'])).getLast? = some '"' := by
        rw [show '"' :: (v' ++ ['"']) = ('"' :: v') ++ ['"'] from rfl, List.getLast?_concat]
      have h4 : (List.drop 1 ('"' :: (v' ++ ['"']))).dropLast = v' := by
        simp only [List.drop_succ_cons, List.drop_zero, List.dropLast_concat]
      simp only [h1, h3, h4, List.cons_append, List.head?_cons, decide_true, Bool.and_self, if_true, hall]
    · -- unquoted
      unfold parseCookieValue
      have hh : (v'.head? = some '"') = False := by
        apply eq_false
        intro hq
        exact (valid_facts _ (hv _ (List.mem_of_head? hq))).2.1 rfl
      simp only [hh, decide_false, Bool.and_false, Bool.false_and, Bool.false_eq_true, if_false, hall, if_true]

theorem sanitize_facts (v : Str) : ';' ∉ sanitizeCookieValue v ∧
    ∀ c, ('=' :: sanitizeCookieValue v).getLast? = some c → isASCIISpace c = false := by
  have hv : ∀ c ∈ v.filter validCookieValueByte, validCookieValueByte c = true := fun c hc => (List.mem_filter.mp hc).2
  unfold sanitizeCookieValue
  simp only
  generalize v.filter validCookieValueByte = v' at hv ⊢
  split
  · refine ⟨by simp, ?_⟩
    intro c hc; simp at hc; subst hc; decide
  · next hne =>
    split
    · refine ⟨?_, ?_⟩
      · intro m
        simp only [List.cons_append, List.mem_cons, List.mem_append, List.not_mem_nil, or_false] at m
        rcases m with e | m | e
        · revert e; decide
        · exact (valid_facts _ (hv _ m)).1 rfl
        · revert e; decide
      · intro c hc
        rw [show '=' :: ('"' :: v' ++ ['"']) = ('=' :: '"' :: v') ++ ['"'] from rfl, List.getLast?_concat] at hc
        simp at hc; subst hc; decide
    · next hany =>
      refine ⟨fun m => (valid_facts _ (hv _ m)).1 rfl, ?_⟩
      intro c hc
      have hmem : c ∈ v' := by
        cases v' with
        | nil => exact absurd rfl hne
        | cons x t =>
          rw [List.getLast?_cons_cons] at hc
          exact List.mem_of_getLast? hc
      have hsp : c ≠ ' ' := by
        intro e; subst e
        apply hany
        simp only [List.any_eq_true]
        exact ⟨' ', hmem, by decide⟩
      exact (valid_facts c (hv c hmem)).2.2 hsp

/-- **wire lemma**: a client that echoes the `name=value` pair of the `Set-Cookie` line makes
    `Request.Cookie(name)` return the minted value minus the bytes `sanitizeCookieValue` drops -/
theorem readCookie_echo (name v : Str) (hn : isCookieNameValid name = true) :
    readCookie name (echoLine name (sanitizeCookieValue v)) = some (v.filter validCookieValueByte) := by
  rw [readCookie_pair name _ hn (sanitize_facts v).1 (sanitize_facts v).2, parse_sanitize]

end Sticky
