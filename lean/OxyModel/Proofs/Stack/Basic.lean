import OxyModel.Model.Stack

/-! Helper lemmas for C20: a stack is a fold of `post` over the result of the first layer that answers. -/
namespace Stack

/-- writer capabilities after passing inward through `stack` -/
def capsThrough (stack : List LayerCfg) (c : Caps) : Caps := stack.foldl (fun c l => wrapCaps l.kind c) c

/-- what the passing layers of `stack` add to a response relayed through them -/
def decorate (stack : List LayerCfg) (r : Resp) : Resp := stack.foldr decorate1 r

def hasBuffer (stack : List LayerCfg) : Prop := ∃ l ∈ stack, l.kind = Kind.buffer

@[simp] theorem capsThrough_nil (c : Caps) : capsThrough [] c = c := rfl
@[simp] theorem capsThrough_cons (l : LayerCfg) (ls : List LayerCfg) (c : Caps) :
    capsThrough (l :: ls) c = capsThrough ls (wrapCaps l.kind c) := rfl
@[simp] theorem decorate_nil (r : Resp) : decorate [] r = r := rfl
@[simp] theorem decorate_cons (l : LayerCfg) (ls : List LayerCfg) (r : Resp) :
    decorate (l :: ls) r = decorate1 l (decorate ls r) := rfl

theorem decorate_status (stack : List LayerCfg) (r : Resp) : (decorate stack r).status = r.status := by
  induction stack with
  | nil => rfl
  | cons l ls ih => simpa [decorate1] using ih

theorem decorate_body (stack : List LayerCfg) (r : Resp) : (decorate stack r).body = r.body := by
  induction stack with
  | nil => rfl
  | cons l ls ih => simpa [decorate1] using ih

theorem decorate_headers (stack : List LayerCfg) (r : Resp) :
    (decorate stack r).headers = stack.flatMap cookieOf ++ r.headers := by
  induction stack with
  | nil => rfl
  | cons l ls ih => simp [decorate1, ih]

theorem wrapCaps_canHijack (k : Kind) (c : Caps) : (wrapCaps k c).canHijack = c.canHijack := by
  cases k <;> simp [wrapCaps, Caps.proxy, Caps.buffered, Caps.canHijack]

theorem wrapCaps_canFlush (k : Kind) (c : Caps) (hk : k ≠ Kind.buffer) : (wrapCaps k c).canFlush = c.canFlush := by
  cases k <;> simp_all [wrapCaps, Caps.proxy, Caps.canFlush]

theorem capsThrough_canHijack (stack : List LayerCfg) (c : Caps) : (capsThrough stack c).canHijack = c.canHijack := by
  induction stack generalizing c with
  | nil => rfl
  | cons l ls ih => simp [ih, wrapCaps_canHijack]

theorem capsThrough_canFlush (stack : List LayerCfg) (c : Caps) (hb : ¬ hasBuffer stack) :
    (capsThrough stack c).canFlush = c.canFlush := by
  induction stack generalizing c with
  | nil => rfl
  | cons l ls ih =>
    have h1 : l.kind ≠ Kind.buffer := fun e => hb ⟨l, by simp, e⟩
    have h2 : ¬ hasBuffer ls := fun ⟨x, hx, e⟩ => hb ⟨x, by simp [hx], e⟩
    simp [ih _ h2, wrapCaps_canFlush _ _ h1]

/-- what a passing layer makes of the result of its `next`: the retry loop of a buffer, then the relay outward -/
def step (l : LayerCfg) (r : Result) : Result := post l (retryMul l r)

/-- layers that do not intervene hand the request inward and post-process what comes back -/
theorem serve_append (outer rest : List LayerCfg) (h : Req → Script) (req : Req) (c : Caps)
    (hout : ∀ l ∈ outer, intervenes l req = false) :
    serve (outer ++ rest) h req c = outer.foldr step (serve rest h req (capsThrough outer c)) := by
  induction outer generalizing c with
  | nil => rfl
  | cons l ls ih =>
    have h1 : intervenes l req = false := hout l (by simp)
    have h2 : ∀ x ∈ ls, intervenes x req = false := fun x hx => hout x (by simp [hx])
    simp [serve, h1, ih _ h2, step]

theorem foldr_post_hijacked (outer : List LayerCfg) (r : Result) (hh : r.hijacked = true) :
    outer.foldr step r = r := by
  induction outer with
  | nil => rfl
  | cons l ls ih => simp [ih, step, post, retryMul, retryable, hh]

theorem retryMul_plain (l : LayerCfg) (x : Result) (hx : x.hijacked = false)
    (ho : overflows l x.resp.body.length = false) :
    retryMul l x = { x with invoked := (if (retryBuf l && netErr x.resp.status) = true then 3 else 1) * x.invoked } := by
  obtain ⟨resp, inv, seen, hij, fl, infos, ex⟩ := x
  simp only at hx ho
  subst hx
  unfold retryMul retryable
  simp only [ho]
  cases hrb : retryBuf l <;> cases hne : netErr resp.status <;> simp

/-- number of handler runs caused by the retrying buffers of `outer` for a response with this status -/
def attemptsThrough : List LayerCfg → Nat → Nat
  | [], _ => 1
  | l :: ls, st => (if (retryBuf l && netErr st) = true then 3 else 1) * attemptsThrough ls st

theorem attemptsThrough_one (outer : List LayerCfg) (st : Nat) (h : ∀ l ∈ outer, (retryBuf l && netErr st) = false) :
    attemptsThrough outer st = 1 := by
  induction outer with
  | nil => rfl
  | cons l ls ih =>
    have h1 := h l (by simp)
    have h2 := ih (fun x hx => h x (by simp [hx]))
    simp [attemptsThrough, h1, h2]

theorem attemptsThrough_pow (outer : List LayerCfg) (st : Nat) (h : netErr st = true) :
    attemptsThrough outer st = 3 ^ outer.countP retryBuf := by
  induction outer with
  | nil => rfl
  | cons l ls ih =>
    cases hb : retryBuf l
    · simp [attemptsThrough, hb, ih]
    · simp [attemptsThrough, hb, h, ih, Nat.pow_succ, Nat.mul_comm]

/-- 1xx calls still arriving at the outside of `outer`: a buffer swallows them -/
def infosThrough : List LayerCfg → List Nat → List Nat
  | [], i => i
  | l :: ls, i => if l.kind = Kind.buffer then [] else infosThrough ls i

/-- is the final `WriteHeader` explicit at the outside of `outer`: a buffer always issues one -/
def explicitThrough : List LayerCfg → Bool → Bool
  | [], e => e
  | l :: ls, e => if l.kind = Kind.buffer then true else explicitThrough ls e

theorem infosThrough_buffer (l : LayerCfg) (ls : List LayerCfg) (i : List Nat) (hk : l.kind = Kind.buffer) :
    infosThrough (l :: ls) i = [] := by rw [infosThrough, if_pos hk]
theorem infosThrough_other (l : LayerCfg) (ls : List LayerCfg) (i : List Nat) (hk : ¬ l.kind = Kind.buffer) :
    infosThrough (l :: ls) i = infosThrough ls i := by rw [infosThrough, if_neg hk]
theorem explicitThrough_buffer (l : LayerCfg) (ls : List LayerCfg) (e : Bool) (hk : l.kind = Kind.buffer) :
    explicitThrough (l :: ls) e = true := by rw [explicitThrough, if_pos hk]
theorem explicitThrough_other (l : LayerCfg) (ls : List LayerCfg) (e : Bool) (hk : ¬ l.kind = Kind.buffer) :
    explicitThrough (l :: ls) e = explicitThrough ls e := by rw [explicitThrough, if_neg hk]

theorem infosThrough_nil' (outer : List LayerCfg) : infosThrough outer [] = [] := by
  induction outer with
  | nil => rfl
  | cons l ls ih =>
    by_cases hk : l.kind = Kind.buffer
    · exact infosThrough_buffer l ls [] hk
    · rw [infosThrough_other l ls [] hk, ih]

theorem explicitThrough_true (outer : List LayerCfg) : explicitThrough outer true = true := by
  induction outer with
  | nil => rfl
  | cons l ls ih =>
    by_cases hk : l.kind = Kind.buffer
    · exact explicitThrough_buffer l ls true hk
    · rw [explicitThrough_other l ls true hk, ih]

theorem infosThrough_noBuffer (outer : List LayerCfg) (i : List Nat) (hb : ¬ hasBuffer outer) : infosThrough outer i = i := by
  induction outer with
  | nil => rfl
  | cons l ls ih =>
    have h1 : ¬ l.kind = Kind.buffer := fun e => hb ⟨l, by simp, e⟩
    have h2 : ¬ hasBuffer ls := fun ⟨x, hx, e⟩ => hb ⟨x, by simp [hx], e⟩
    rw [infosThrough_other l ls i h1, ih h2]

theorem explicitThrough_noBuffer (outer : List LayerCfg) (e : Bool) (hb : ¬ hasBuffer outer) : explicitThrough outer e = e := by
  induction outer with
  | nil => rfl
  | cons l ls ih =>
    have h1 : ¬ l.kind = Kind.buffer := fun e => hb ⟨l, by simp, e⟩
    have h2 : ¬ hasBuffer ls := fun ⟨x, hx, e⟩ => hb ⟨x, by simp [hx], e⟩
    rw [explicitThrough_other l ls e h1, ih h2]

theorem hget_cookie1 (l : LayerCfg) (hs : List Header) (key : String) (hk : key ≠ "Set-Cookie") :
    hget (cookieOf l ++ hs) key = hget hs key := by
  unfold cookieOf
  split <;> simp [hget, Ne.symm hk]

theorem hget_cookies (stack : List LayerCfg) (hs : List Header) (key : String) (hk : key ≠ "Set-Cookie") :
    hget (stack.flatMap cookieOf ++ hs) key = hget hs key := by
  induction stack with
  | nil => rfl
  | cons l ls ih =>
    rw [List.flatMap_cons, List.append_assoc, hget_cookie1 _ _ _ hk, ih]

theorem expectBody_decorate (stack : List LayerCfg) (x : Resp) (c : Nat) :
    expectBody c (decorate stack x).headers = expectBody c x.headers := by
  unfold expectBody
  rw [decorate_headers, hget_cookies _ _ _ (by decide), hget_cookies _ _ _ (by decide)]

/-- a buffer that sees an explicit final status (or no 1xx) and a response `expectBody` keeps (or an empty body) relays it -/
theorem relayHeaderCalls_buffer (l : LayerCfg) (x : Result) (hk : l.kind = Kind.buffer)
    (hx : x.explicit = true ∨ x.infos = [])
    (hkeep : x.resp.body = [] ∨ expectBody (if x.explicit then x.resp.status else 200) x.resp.headers = true) :
    relayHeaderCalls l x = { x with infos := [], explicit := true } := by
  obtain ⟨⟨status, headers, body⟩, inv, seen, hij, fl, infos, ex⟩ := x
  simp only at hx hkeep
  unfold relayHeaderCalls bwCode
  rw [hk]
  cases ex
  · have hi : infos = [] := by simpa using hx
    subst hi
    rcases hkeep with hb | he
    · subst hb; simp
    · simp at he; simp [he]
  · rcases hkeep with hb | he
    · subst hb; simp
    · simp at he; simp [he]

/-- A response that is not hijacked and fits every buffer is relayed outward unchanged apart from the cookies — provided the
buffers see a final `WriteHeader` or no 1xx at all, and a response whose body `expectBody` keeps (or there is no buffer). -/
theorem foldr_post_plain (outer : List LayerCfg) (r : Result) (hh : r.hijacked = false)
    (ho : ∀ l ∈ outer, overflows l r.resp.body.length = false)
    (hd : r.explicit = true ∨ r.infos = [] ∨ ¬ hasBuffer outer)
    (hkeep : ¬ hasBuffer outer ∨ r.resp.body = []
      ∨ (expectBody r.resp.status r.resp.headers = true ∧ (r.explicit = false → r.resp.status = 200))) :
    outer.foldr step r = { r with resp := decorate outer r.resp, infos := infosThrough outer r.infos,
                                  explicit := explicitThrough outer r.explicit,
                                  invoked := attemptsThrough outer r.resp.status * r.invoked } := by
  induction outer with
  | nil => simp [attemptsThrough, infosThrough, explicitThrough]
  | cons l ls ih =>
    have h1 : overflows l r.resp.body.length = false := ho l (by simp)
    have h2 : ∀ x ∈ ls, overflows x r.resp.body.length = false := fun x hx => ho x (by simp [hx])
    have hd' : r.explicit = true ∨ r.infos = [] ∨ ¬ hasBuffer ls := by
      rcases hd with h | h | h
      · exact Or.inl h
      · exact Or.inr (Or.inl h)
      · exact Or.inr (Or.inr (fun ⟨x, hx, e⟩ => h ⟨x, by simp [hx], e⟩))
    have hkeep' : ¬ hasBuffer ls ∨ r.resp.body = []
        ∨ (expectBody r.resp.status r.resp.headers = true ∧ (r.explicit = false → r.resp.status = 200)) := by
      rcases hkeep with h | h
      · exact Or.inl (fun ⟨x, hx, e⟩ => h ⟨x, by simp [hx], e⟩)
      · exact Or.inr h
    have hrm := retryMul_plain l
      ⟨decorate ls r.resp, attemptsThrough ls r.resp.status * r.invoked, r.seen, r.hijacked, r.flushed, infosThrough ls r.infos, explicitThrough ls r.explicit⟩
      hh (by simpa [decorate_body] using h1)
    rw [List.foldr_cons, ih h2 hd' hkeep', step, hrm]
    simp only [attemptsThrough, decorate_status, ← Nat.mul_assoc]
    by_cases hk : l.kind = Kind.buffer
    · -- a buffer: it must see an explicit final status or no 1xx
      have hcase : explicitThrough ls r.explicit = true ∨ (explicitThrough ls r.explicit = false ∧ infosThrough ls r.infos = []) := by
        rcases hd with h | h | h
        · left; rw [h]; exact explicitThrough_true ls
        · cases he : explicitThrough ls r.explicit
          · right; exact ⟨rfl, by rw [h]; exact infosThrough_nil' ls⟩
          · left; rfl
        · exact absurd ⟨l, by simp, hk⟩ h
      have hkb : r.resp.body = []
          ∨ (expectBody r.resp.status r.resp.headers = true ∧ (r.explicit = false → r.resp.status = 200)) := by
        rcases hkeep with h | h
        · exact absurd ⟨l, by simp, hk⟩ h
        · exact h
      have hex : explicitThrough ls r.explicit = false → r.explicit = false := by
        intro he; cases hr : r.explicit
        · rfl
        · rw [hr, explicitThrough_true] at he; cases he
      rw [infosThrough_buffer l ls _ hk, explicitThrough_buffer l ls _ hk]
      have hpost : ∀ x : Result, x.hijacked = false → overflows l x.resp.body.length = false →
          post l x = relayHeaderCalls l { x with resp := decorate1 l x.resp } := by
        intro x h1' h2'; simp [post, h1', h2']
      rw [hpost _ (by exact hh) (by simpa [decorate_body] using h1)]
      rw [relayHeaderCalls_buffer l _ hk]
      · rfl
      · rcases hcase with he | ⟨_, hi⟩
        · exact Or.inl he
        · exact Or.inr hi
      · rcases hkb with hb | ⟨he, hs⟩
        · left; simp [decorate1, decorate_body, hb]
        · right
          have hc : (if explicitThrough ls r.explicit = true then r.resp.status else 200) = r.resp.status := by
            cases hx : explicitThrough ls r.explicit
            · simp [hs (hex hx)]
            · simp
          have hdec : (decorate1 l (decorate ls r.resp)).headers = (decorate (l :: ls) r.resp).headers := rfl
          simp only [decorate1, decorate_status]
          rw [hc]
          show expectBody r.resp.status (decorate (l :: ls) r.resp).headers = true
          rw [expectBody_decorate]; exact he
    · have : relayHeaderCalls l = id := by
        funext x; unfold relayHeaderCalls; cases hkk : l.kind <;> simp_all
      rw [infosThrough_other l ls _ hk, explicitThrough_other l ls _ hk]
      simp [post, hh, decorate_body, h1, this]

/-- the first intervening layer splits the stack -/
theorem exists_outermost (stack : List LayerCfg) (req : Req) (hex : ∃ l ∈ stack, intervenes l req = true) :
    ∃ outer L inner, stack = outer ++ L :: inner ∧ (∀ l ∈ outer, intervenes l req = false) ∧ intervenes L req = true := by
  induction stack with
  | nil => obtain ⟨l, hl, _⟩ := hex; cases hl
  | cons a as ih =>
    by_cases ha : intervenes a req = true
    · exact ⟨[], a, as, rfl, by simp, ha⟩
    · have hex' : ∃ l ∈ as, intervenes l req = true := by
        obtain ⟨l, hl, hi⟩ := hex
        rcases List.mem_cons.mp hl with e | hm
        · subst e; exact absurd hi ha
        · exact ⟨l, hm, hi⟩
      obtain ⟨o, L, i, e, ho, hL⟩ := ih hex'
      refine ⟨a :: o, L, i, by simp [e], ?_, hL⟩
      intro l hl
      rcases List.mem_cons.mp hl with e | hm
      · subst e; simpa using ha
      · exact ho l hm

/-! ### sequences -/

theorem eff_kind (l : LayerCfg) (n : Nat) : (eff l n).kind = l.kind := by
  unfold eff; split <;> rfl

theorem post_eff (l : LayerCfg) (n : Nat) (r : Result) : post (eff l n) r = post l r := by
  unfold eff; split <;> rfl

theorem retryBuf_eff (l : LayerCfg) (n : Nat) : retryBuf (eff l n) = retryBuf l := by
  unfold eff; split <;> simp_all [retryBuf]

theorem retryable_of_not_retryBuf (l : LayerCfg) (r : Result) (h : retryBuf l = false) : retryable l r = false := by
  simp [retryable, h]

/-- without a panic and without retrying buffers the stateful stack answers exactly like the stateless one on the
effective configuration -/
theorem serveSt_served (stack : List LayerCfg) (st : List Nat) (h : Req → Script) (req : Req) (c : Caps)
    (hnr : ∀ l ∈ stack, retryBuf l = false) :
    (serveSt stack st h req false c).1 = .served (serve (effStack stack st) h req c) := by
  induction stack generalizing st c with
  | nil => simp [serveSt, serve, effStack]
  | cons l ls ih =>
    have hl : retryBuf l = false := hnr l (by simp)
    have hls : ∀ x ∈ ls, retryBuf x = false := fun x hx => hnr x (by simp [hx])
    by_cases hi : intervenes (eff l (hd0 st)) req = true
    · simp [serveSt, serve, effStack, hi]
    · have hi' : intervenes (eff l (hd0 st)) req = false := by simpa using hi
      have h1 := ih st.tail (wrapCaps l.kind c) hls
      have hr1 : ∀ x, retryable l x = false := fun x => retryable_of_not_retryBuf l x hl
      have hr2 : ∀ x, retryable (eff l (hd0 st)) x = false :=
        fun x => retryable_of_not_retryBuf _ x (by rw [retryBuf_eff]; exact hl)
      simp [serveSt, serve, effStack, hi', h1, eff_kind, post_eff, Outcome.retryableBy, hr1, retryMul, hr2]

/-- what an admitted request leaves behind in the layers it passed, whether it returns or panics -/
def stateAfter : List LayerCfg → List Nat → List Nat
  | [], _ => []
  | l :: ls, st => leave l.kind (enter l.kind (hd0 st)) :: stateAfter ls st.tail

/-- a panicking handler behind passing layers: one invocation, every layer has run exactly its deferred code -/
theorem serveSt_aborted (stack : List LayerCfg) (st : List Nat) (h : Req → Script) (req : Req) (c : Caps)
    (hp : ∀ l ∈ effStack stack st, intervenes l req = false) :
    serveSt stack st h req true c = (.aborted 1, stateAfter stack st) := by
  induction stack generalizing st c with
  | nil => simp [serveSt, stateAfter]
  | cons l ls ih =>
    have h1 : intervenes (eff l (hd0 st)) req = false := hp _ (by simp [effStack])
    have h2 : ∀ x ∈ effStack ls st.tail, intervenes x req = false := fun x hx => hp x (by simp [effStack, hx])
    simp [serveSt, h1, ih _ _ h2, stateAfter, Outcome.retryableBy]

theorem eff_after (l : LayerCfg) (n : Nat) (hb : l.kind = Kind.ratelimit → 2 ≤ n) :
    eff l (leave l.kind (enter l.kind n)) = eff l n := by
  cases hk : l.kind <;> simp_all [eff, enter, leave]
  · rfl
  · have h1 : n - 1 ≠ 0 := by omega
    have h2 : n ≠ 0 := by omega
    simp [h1, h2]

/-- `ample stack st`: every rate limiter of the stack has at least two tokens left -/
def ample : List LayerCfg → List Nat → Prop
  | [], _ => True
  | l :: ls, st => (l.kind = Kind.ratelimit → 2 ≤ hd0 st) ∧ ample ls st.tail

theorem effStack_after (stack : List LayerCfg) (st : List Nat) (hb : ample stack st) :
    effStack stack (stateAfter stack st) = effStack stack st := by
  induction stack generalizing st with
  | nil => rfl
  | cons l ls ih =>
    obtain ⟨h1, h2⟩ := hb
    have hh : hd0 (leave l.kind (enter l.kind (hd0 st)) :: stateAfter ls st.tail) = leave l.kind (enter l.kind (hd0 st)) := rfl
    simp [effStack, stateAfter, hh, eff_after l _ h1, ih _ h2]

theorem overflows_eff (l : LayerCfg) (n k : Nat) : overflows (eff l n) k = overflows l k := by
  unfold eff; split <;> rfl

theorem retryable_eff (l : LayerCfg) (n : Nat) (x : Result) : retryable (eff l n) x = retryable l x := by
  unfold retryable; rw [retryBuf_eff, overflows_eff]

/-- **Link between the stateful loop and the stateless retry.**  In a stack without rate limiters (the only state a request
leaves behind) every attempt of a retrying buffer meets the same effective configuration, so the real loop of `serveSt` —
inner stack run again in the state the previous attempt left — gives exactly `serve` on the effective configuration, and the
effective configuration is unchanged afterwards. -/
theorem serveSt_noRate (stack : List LayerCfg) (st : List Nat) (h : Req → Script) (req : Req) (c : Caps)
    (hnr : ∀ l ∈ stack, l.kind ≠ Kind.ratelimit) :
    (serveSt stack st h req false c).1 = .served (serve (effStack stack st) h req c)
    ∧ effStack stack (serveSt stack st h req false c).2 = effStack stack st := by
  induction stack generalizing st c with
  | nil => simp [serveSt, serve, effStack]
  | cons l ls ih =>
    have hl : l.kind ≠ Kind.ratelimit := hnr l (by simp)
    have hls : ∀ x ∈ ls, x.kind ≠ Kind.ratelimit := fun x hx => hnr x (by simp [hx])
    have heff : eff l (leave l.kind (enter l.kind (hd0 st))) = eff l (hd0 st) :=
      eff_after l _ (fun e => absurd e hl)
    have hhd : ∀ (a : Nat) (t : List Nat), hd0 (a :: t) = a := fun _ _ => rfl
    by_cases hi : intervenes (eff l (hd0 st)) req = true
    · simp only [serveSt, serve, effStack, hi, if_true, hhd, List.tail_cons]
      exact ⟨trivial, trivial⟩
    · have hi' : intervenes (eff l (hd0 st)) req = false := by simpa using hi
      obtain ⟨h1o, h1s⟩ := ih st.tail (wrapCaps l.kind c) hls
      generalize hx1 : serve (effStack ls st.tail) h req (wrapCaps l.kind c) = x1 at h1o
      have key : ∀ s : List Nat, effStack ls s = effStack ls st.tail →
          (serveSt ls s h req false (wrapCaps l.kind c)).1 = .served x1
          ∧ effStack ls (serveSt ls s h req false (wrapCaps l.kind c)).2 = effStack ls st.tail := by
        intro s hs
        obtain ⟨a, b⟩ := ih s (wrapCaps l.kind c) hls
        rw [hs] at a b
        exact ⟨by rw [a, hx1], b⟩
      obtain ⟨k1o, k1s⟩ := key st.tail rfl
      obtain ⟨k2o, k2s⟩ := key _ k1s
      obtain ⟨k3o, k3s⟩ := key _ k2s
      by_cases hr : retryable l x1 = true
      · have hr' : retryable (eff l (hd0 st)) x1 = true := by rw [retryable_eff]; exact hr
        refine ⟨?_, ?_⟩
        · simp only [serveSt, hi', serve, effStack, k1o, k2o, k3o, Outcome.retryableBy, hr, if_true, Outcome.addInvoked,
            eff_kind, hx1, retryMul, hr', post_eff, Bool.false_eq_true, if_false]
          congr 2
          have : x1.invoked + (x1.invoked + x1.invoked) = 3 * x1.invoked := by omega
          cases hsn : x1.seen <;> simp [this, Outcome.seenCaps, hsn]
        · simp only [serveSt, hi', k1o, k2o, Outcome.retryableBy, hr, if_true, Bool.false_eq_true, if_false, effStack, hhd,
            List.tail_cons, heff, k3s]
      · have hr0 : retryable l x1 = false := by simpa using hr
        have hr' : retryable (eff l (hd0 st)) x1 = false := by rw [retryable_eff]; exact hr0
        refine ⟨?_, ?_⟩
        · simp only [serveSt, hi', serve, effStack, k1o, Outcome.retryableBy, hr0, eff_kind, hx1, retryMul, hr', post_eff,
            Bool.false_eq_true, if_false]
        · simp only [serveSt, hi', k1o, Outcome.retryableBy, hr0, Bool.false_eq_true, if_false, effStack, hhd,
            List.tail_cons, heff, k1s]

end Stack
