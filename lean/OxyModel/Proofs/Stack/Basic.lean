import OxyModel.Model.Stack

/-! Helper lemmas for C20: a stack is a fold of `post` over the result of the first layer that answers. -/
namespace Stack

/-- writer capabilities after passing inward through `stack` -/
def capsThrough (stack : List LayerCfg) (c : Caps) : Caps := stack.foldl (fun c l => wrapCaps l.kind c) c

/-- what the passing layers of `stack` add to a response relayed through them -/
def decorate (stack : List LayerCfg) (r : Resp) : Resp := stack.foldr decorate1 r

def hasBuffer (stack : List LayerCfg) : Prop := ∃ l ∈ stack, l.kind = Kind.buffer

@[simp] theorem capsThrough_nil (c : Caps) : capsThrough [] c = c := rfl
@[simp] theorem capsThrough_cons (l : LayerCfg) (ls : List LayerCfg) (c : Caps) :
    capsThrough (l :: ls) c = capsThrough ls (wrapCaps l.kind c) := rfl
@[simp] theorem decorate_nil (r : Resp) : decorate [] r = r := rfl
@[simp] theorem decorate_cons (l : LayerCfg) (ls : List LayerCfg) (r : Resp) :
    decorate (l :: ls) r = decorate1 l (decorate ls r) := rfl

theorem decorate_status (stack : List LayerCfg) (r : Resp) : (decorate stack r).status = r.status := by
  induction stack with
  | nil => rfl
  | cons l ls ih => simpa [decorate1] using ih

theorem decorate_body (stack : List LayerCfg) (r : Resp) : (decorate stack r).body = r.body := by
  induction stack with
  | nil => rfl
  | cons l ls ih => simpa [decorate1] using ih

theorem decorate_headers (stack : List LayerCfg) (r : Resp) :
    (decorate stack r).headers = stack.flatMap cookieOf ++ r.headers := by
  induction stack with
  | nil => rfl
  | cons l ls ih => simp [decorate1, ih]

theorem wrapCaps_canHijack (k : Kind) (c : Caps) : (wrapCaps k c).canHijack = c.canHijack := by
  cases k <;> simp [wrapCaps, Caps.proxy, Caps.buffered, Caps.canHijack]

theorem wrapCaps_canFlush (k : Kind) (c : Caps) (hk : k ≠ Kind.buffer) : (wrapCaps k c).canFlush = c.canFlush := by
  cases k <;> simp_all [wrapCaps, Caps.proxy, Caps.canFlush]

theorem capsThrough_canHijack (stack : List LayerCfg) (c : Caps) : (capsThrough stack c).canHijack = c.canHijack := by
  induction stack generalizing c with
  | nil => rfl
  | cons l ls ih => simp [ih, wrapCaps_canHijack]

theorem capsThrough_canFlush (stack : List LayerCfg) (c : Caps) (hb : ¬ hasBuffer stack) :
    (capsThrough stack c).canFlush = c.canFlush := by
  induction stack generalizing c with
  | nil => rfl
  | cons l ls ih =>
    have h1 : l.kind ≠ Kind.buffer := fun e => hb ⟨l, by simp, e⟩
    have h2 : ¬ hasBuffer ls := fun ⟨x, hx, e⟩ => hb ⟨x, by simp [hx], e⟩
    simp [ih _ h2, wrapCaps_canFlush _ _ h1]

/-- layers that do not intervene hand the request inward and post-process what comes back -/
theorem serve_append (outer rest : List LayerCfg) (h : Req → Script) (req : Req) (c : Caps)
    (hout : ∀ l ∈ outer, intervenes l req = false) :
    serve (outer ++ rest) h req c = outer.foldr post (serve rest h req (capsThrough outer c)) := by
  induction outer generalizing c with
  | nil => rfl
  | cons l ls ih =>
    have h1 : intervenes l req = false := hout l (by simp)
    have h2 : ∀ x ∈ ls, intervenes x req = false := fun x hx => hout x (by simp [hx])
    simp [serve, h1, ih _ h2]

theorem foldr_post_hijacked (outer : List LayerCfg) (r : Result) (hh : r.hijacked = true) :
    outer.foldr post r = r := by
  induction outer with
  | nil => rfl
  | cons l ls ih => simp [ih, post, hh]

/-- 1xx calls still arriving at the outside of `outer`: a buffer swallows them -/
def infosThrough : List LayerCfg → List Nat → List Nat
  | [], i => i
  | l :: ls, i => if l.kind = Kind.buffer then [] else infosThrough ls i

/-- is the final `WriteHeader` explicit at the outside of `outer`: a buffer always issues one -/
def explicitThrough : List LayerCfg → Bool → Bool
  | [], e => e
  | l :: ls, e => if l.kind = Kind.buffer then true else explicitThrough ls e

theorem infosThrough_buffer (l : LayerCfg) (ls : List LayerCfg) (i : List Nat) (hk : l.kind = Kind.buffer) :
    infosThrough (l :: ls) i = [] := by rw [infosThrough, if_pos hk]
theorem infosThrough_other (l : LayerCfg) (ls : List LayerCfg) (i : List Nat) (hk : ¬ l.kind = Kind.buffer) :
    infosThrough (l :: ls) i = infosThrough ls i := by rw [infosThrough, if_neg hk]
theorem explicitThrough_buffer (l : LayerCfg) (ls : List LayerCfg) (e : Bool) (hk : l.kind = Kind.buffer) :
    explicitThrough (l :: ls) e = true := by rw [explicitThrough, if_pos hk]
theorem explicitThrough_other (l : LayerCfg) (ls : List LayerCfg) (e : Bool) (hk : ¬ l.kind = Kind.buffer) :
    explicitThrough (l :: ls) e = explicitThrough ls e := by rw [explicitThrough, if_neg hk]

theorem infosThrough_nil' (outer : List LayerCfg) : infosThrough outer [] = [] := by
  induction outer with
  | nil => rfl
  | cons l ls ih =>
    by_cases hk : l.kind = Kind.buffer
    · exact infosThrough_buffer l ls [] hk
    · rw [infosThrough_other l ls [] hk, ih]

theorem explicitThrough_true (outer : List LayerCfg) : explicitThrough outer true = true := by
  induction outer with
  | nil => rfl
  | cons l ls ih =>
    by_cases hk : l.kind = Kind.buffer
    · exact explicitThrough_buffer l ls true hk
    · rw [explicitThrough_other l ls true hk, ih]

theorem infosThrough_noBuffer (outer : List LayerCfg) (i : List Nat) (hb : ¬ hasBuffer outer) : infosThrough outer i = i := by
  induction outer with
  | nil => rfl
  | cons l ls ih =>
    have h1 : ¬ l.kind = Kind.buffer := fun e => hb ⟨l, by simp, e⟩
    have h2 : ¬ hasBuffer ls := fun ⟨x, hx, e⟩ => hb ⟨x, by simp [hx], e⟩
    rw [infosThrough_other l ls i h1, ih h2]

theorem explicitThrough_noBuffer (outer : List LayerCfg) (e : Bool) (hb : ¬ hasBuffer outer) : explicitThrough outer e = e := by
  induction outer with
  | nil => rfl
  | cons l ls ih =>
    have h1 : ¬ l.kind = Kind.buffer := fun e => hb ⟨l, by simp, e⟩
    have h2 : ¬ hasBuffer ls := fun ⟨x, hx, e⟩ => hb ⟨x, by simp [hx], e⟩
    rw [explicitThrough_other l ls e h1, ih h2]

/-- A response that is not hijacked and fits every buffer is relayed outward unchanged apart from the cookies — provided the
buffers see a final `WriteHeader`, or no 1xx at all (or there is no buffer). -/
theorem foldr_post_plain (outer : List LayerCfg) (r : Result) (hh : r.hijacked = false)
    (ho : ∀ l ∈ outer, overflows l r.resp.body.length = false)
    (hd : r.explicit = true ∨ r.infos = [] ∨ ¬ hasBuffer outer) :
    outer.foldr post r = { r with resp := decorate outer r.resp, infos := infosThrough outer r.infos,
                                  explicit := explicitThrough outer r.explicit } := by
  induction outer with
  | nil => rfl
  | cons l ls ih =>
    have h1 : overflows l r.resp.body.length = false := ho l (by simp)
    have h2 : ∀ x ∈ ls, overflows x r.resp.body.length = false := fun x hx => ho x (by simp [hx])
    have hd' : r.explicit = true ∨ r.infos = [] ∨ ¬ hasBuffer ls := by
      rcases hd with h | h | h
      · exact Or.inl h
      · exact Or.inr (Or.inl h)
      · exact Or.inr (Or.inr (fun ⟨x, hx, e⟩ => h ⟨x, by simp [hx], e⟩))
    rw [List.foldr_cons, ih h2 hd']
    by_cases hk : l.kind = Kind.buffer
    · -- a buffer: it must see an explicit final status or no 1xx
      have hcase : explicitThrough ls r.explicit = true ∨ (explicitThrough ls r.explicit = false ∧ infosThrough ls r.infos = []) := by
        rcases hd with h | h | h
        · left; rw [h]; exact explicitThrough_true ls
        · cases he : explicitThrough ls r.explicit
          · right; exact ⟨rfl, by rw [h]; exact infosThrough_nil' ls⟩
          · left; rfl
        · exact absurd ⟨l, by simp, hk⟩ h
      rw [infosThrough_buffer l ls _ hk, explicitThrough_buffer l ls _ hk]
      rcases hcase with he | ⟨he, hi⟩
      · simp [post, hh, decorate_body, h1, relayHeaderCalls, hk, he]
      · simp [post, hh, decorate_body, h1, relayHeaderCalls, hk, he, hi]
    · have : relayHeaderCalls l = id := by
        funext x; unfold relayHeaderCalls; cases hkk : l.kind <;> simp_all
      rw [infosThrough_other l ls _ hk, explicitThrough_other l ls _ hk]
      simp [post, hh, decorate_body, h1, this]

/-- the first intervening layer splits the stack -/
theorem exists_outermost (stack : List LayerCfg) (req : Req) (hex : ∃ l ∈ stack, intervenes l req = true) :
    ∃ outer L inner, stack = outer ++ L :: inner ∧ (∀ l ∈ outer, intervenes l req = false) ∧ intervenes L req = true := by
  induction stack with
  | nil => obtain ⟨l, hl, _⟩ := hex; cases hl
  | cons a as ih =>
    by_cases ha : intervenes a req = true
    · exact ⟨[], a, as, rfl, by simp, ha⟩
    · have hex' : ∃ l ∈ as, intervenes l req = true := by
        obtain ⟨l, hl, hi⟩ := hex
        rcases List.mem_cons.mp hl with e | hm
        · subst e; exact absurd hi ha
        · exact ⟨l, hm, hi⟩
      obtain ⟨o, L, i, e, ho, hL⟩ := ih hex'
      refine ⟨a :: o, L, i, by simp [e], ?_, hL⟩
      intro l hl
      rcases List.mem_cons.mp hl with e | hm
      · subst e; simpa using ha
      · exact ho l hm

/-! ### sequences -/

theorem eff_kind (l : LayerCfg) (n : Nat) : (eff l n).kind = l.kind := by
  unfold eff; split <;> rfl

theorem post_eff (l : LayerCfg) (n : Nat) (r : Result) : post (eff l n) r = post l r := by
  unfold eff; split <;> rfl

/-- without a panic the stateful stack answers exactly like the stateless one on the effective configuration -/
theorem serveSt_served (sl : List SLayer) (h : Req → Script) (req : Req) (c : Caps) :
    (serveSt sl h req false c).1 = .served (serve (effStack sl) h req c) := by
  induction sl generalizing c with
  | nil => simp [serveSt, serve, effStack]
  | cons p ls ih =>
    obtain ⟨l, n⟩ := p
    by_cases hi : intervenes (eff l n) req = true
    · simp [serveSt, serve, effStack, hi]
    · have hi' : intervenes (eff l n) req = false := by simpa using hi
      have := ih (wrapCaps l.kind c)
      simp only [effStack] at this
      simp [serveSt, serve, effStack, hi', this, eff_kind, post_eff]

/-- what an admitted request leaves behind in a layer, whether it returns or panics -/
def after (p : SLayer) : SLayer := (p.1, leave p.1.kind (enter p.1.kind p.2))

/-- a panicking handler behind passing layers: one invocation, every layer has run exactly its deferred code -/
theorem serveSt_aborted (sl : List SLayer) (h : Req → Script) (req : Req) (c : Caps)
    (hp : ∀ l ∈ effStack sl, intervenes l req = false) :
    serveSt sl h req true c = (.aborted 1, sl.map after) := by
  induction sl generalizing c with
  | nil => simp [serveSt]
  | cons p ls ih =>
    obtain ⟨l, n⟩ := p
    have h1 : intervenes (eff l n) req = false := hp _ (by simp [effStack])
    have h2 : ∀ x ∈ effStack ls, intervenes x req = false := fun x hx => hp x (by
      simp only [effStack, List.map_cons, List.mem_cons]; exact Or.inr hx)
    simp [serveSt, h1, ih _ h2, after]

theorem eff_after (p : SLayer) (hb : p.1.kind = Kind.ratelimit → 2 ≤ p.2) :
    eff (after p).1 (after p).2 = eff p.1 p.2 := by
  obtain ⟨l, n⟩ := p
  cases hk : l.kind <;> simp_all [after, eff, enter, leave]
  omega

theorem effStack_after (sl : List SLayer) (hb : ∀ p ∈ sl, p.1.kind = Kind.ratelimit → 2 ≤ p.2) :
    effStack (sl.map after) = effStack sl := by
  induction sl with
  | nil => rfl
  | cons p ls ih =>
    have h1 := eff_after p (hb p (by simp))
    have h2 := ih (fun q hq => hb q (by simp [hq]))
    simp only [effStack, List.map_cons, List.map_map] at *
    simp [h1, h2]

end Stack
