import OxyModel.Proofs.Stack.Basic
import OxyModel.Proofs.ConnLimit.Rejecting
import OxyModel.Proofs.RateLimit.Retry
import OxyModel.Proofs.CBreaker.Machine
import OxyModel.Proofs.RR.Window
import OxyModel.Model.Pool
import OxyModel.Proofs.Buffer.Loop

/-!
# Link between the stack model (C20) and the per-layer models

`Model/Stack.lean` abstracts every stateful layer to one number (`Stack.eff`) or one flag (`LayerCfg.tripped`).
This file defines the abstraction functions from the states of the per-layer models (the objects of the
C04 / C03-C13 / C05 / C01-C02 / C15 theorems) to that number / flag and proves that they commute with the steps
of the per-layer models.  The property theorems built from these lemmas are in `Props/C20.lean` (`C20_link_*`).
-/
namespace StackLink
open Stack (LayerCfg Kind intervenes eff)

/-! ## connlimit -/
section conn
open ConnLimit

/-- abstraction: the number of requests of `src` inside the protected handler -/
def connAbs (s : SysR) (src : String) : Nat := inflightCount s.base.inflight src

/-- `eff` of a connlimit layer only looks at `limit ≤ n` -/
theorem intervenes_conn (l : LayerCfg) (hk : l.kind = Kind.connlimit) (n : Nat) (req : Stack.Req) :
    intervenes (eff l n) req = decide (l.limit ≤ n) := by
  simp [intervenes, eff, hk]

/-- the decision of `acquire` in a unit-amount state is the decision of the stack's abstraction -/
theorem conn_decision {s : SysR} (hu : Unit1 s.base) (src : String) (l : LayerCfg) (hk : l.kind = Kind.connlimit)
    (hl : (l.limit : Int) = s.base.max) (req : Stack.Req) :
    (acquire s.base.st src 1 s.base.max).isNone = intervenes (eff l (connAbs s src)) req := by
  rw [intervenes_conn l hk]
  have hg := hu.get_eq_count src
  by_cases hc : l.limit ≤ connAbs s src
  · have : acquire s.base.st src 1 s.base.max = none := by
      rw [acquire_none_iff, hg, ← hl]; unfold connAbs at hc; omega
    simp [this, hc]
  · have : acquire s.base.st src 1 s.base.max ≠ none := by
      rw [Ne, acquire_none_iff, hg, ← hl]; unfold connAbs at hc; omega
    cases hq : acquire s.base.st src 1 s.base.max with
    | none => exact absurd hq this
    | some _ => simp [hc]

/-- an arrival of `src` with a fresh id: outcome and new abstract state -/
theorem conn_start (s : SysR) (id src : String)
    (hf : findReq s.base.inflight id = none) (hr : findRej s.rejecting id = none) :
    (acquire s.base.st src 1 s.base.max ≠ none →
      (stepR s (.start id src 1)).2 = .base .admitted ∧
      connAbs (stepR s (.start id src 1)).1 src = connAbs s src + 1) ∧
    (acquire s.base.st src 1 s.base.max = none →
      ((stepR s (.start id src 1)).2 = .base .rejected ∨ (stepR s (.start id src 1)).2 = .rejecting) ∧
      (stepR s (.start id src 1)).1.base = s.base) := by
  constructor
  · intro hacq
    cases hq : acquire s.base.st src 1 s.base.max with
    | none => exact absurd hq hacq
    | some st' =>
      have hstep : ConnLimit.step s.base (.start id src 1)
          = ({ s.base with st := st', inflight := s.base.inflight ++ [⟨id, src, 1⟩] }, .admitted) := by
        simp only [ConnLimit.step, hf, hq]
      simp only [stepR, hr, hstep, connAbs]
      refine ⟨by simp, ?_⟩
      simp [count_append_one]
  · intro hq
    have hstep : ConnLimit.step s.base (.start id src 1) = (s.base, .rejected) := by
      simp only [ConnLimit.step, hf, hq]
    simp only [stepR, hr, hstep]
    by_cases hsl : s.slow = true <;> simp [hsl]

/-- a request of `src` leaves the protected handler (either way) -/
theorem conn_finish (s : SysR) (id : String) (r : ConnLimit.Req) (how : Exit)
    (hf : findReq s.base.inflight id = some r) (hr : findRej s.rejecting id = none) (k : String) :
    (stepR s (.finish id how)).2 = .base .released ∧
    connAbs (stepR s (.finish id how)).1 k + (if r.src = k then 1 else 0) = connAbs s k := by
  have hs' : (stepR s (.finish id how)).1.base
      = ⟨s.base.max, release s.base.st r.src r.amount, dropReq s.base.inflight id⟩ := by
    simp only [stepR, hr, ConnLimit.step, hf]
  refine ⟨by simp only [stepR, hr, ConnLimit.step, hf], ?_⟩
  unfold connAbs
  rw [hs']
  exact count_dropReq hf k

/-- an arrival of another source does not move the abstract state of `src` -/
theorem conn_start_other (s : SysR) (id src' src : String) (a : Int) (hne : src' ≠ src) :
    connAbs (stepR s (.start id src' a)).1 src = connAbs s src := by
  unfold connAbs
  simp only [stepR]
  split
  · rfl
  · have hb : inflightCount (ConnLimit.step s.base (.start id src' a)).1.inflight src = inflightCount s.base.inflight src := by
      simp only [ConnLimit.step]
      split
      · rfl
      · split
        · rfl
        · simp [count_append_one, hne]
    split <;> exact hb

end conn

/-! ## ratelimit -/
section rate
open RL TTL

/-- tokens a set of buckets can still hand out at the instant `t`: the smallest refilled bucket (`0` for no bucket) -/
def minAvail : List Bucket → Nat → Nat
  | [], _ => 0
  | b :: bs, t => if bs.isEmpty then (b.refill t).avail else min (b.refill t).avail (minAvail bs t)

/-- abstraction: the tokens left for `src` at the instant `t` — over the bucket set `consumeRates` would work on
(the tracked set brought up to date, or a new full one), after the refill `consume` starts with -/
def rateAbs (l : Limiter) (t : Nat) (src : String) : Nat := minAvail (l.current t src l.defaults).buckets t

theorem minAvail_single (b : Bucket) (t : Nat) : minAvail [b] t = (b.refill t).avail := by simp [minAvail]

theorem le_minAvail_iff (bs : List Bucket) (hne : bs ≠ []) (t k : Nat) :
    k ≤ minAvail bs t ↔ ∀ b ∈ bs, k ≤ (b.refill t).avail := by
  induction bs with
  | nil => exact absurd rfl hne
  | cons b bs ih =>
    cases bs with
    | nil => simp [minAvail]
    | cons c cs =>
      have := ih (by simp)
      simp only [minAvail, List.isEmpty_cons] at this ⊢
      simp only [Bool.false_eq_true, if_false, List.mem_cons, forall_eq_or_imp] at this ⊢
      rw [Nat.le_min, this]

/-- pointwise relation between the refilled contents ⇒ the same relation between the minima -/
theorem minAvail_map (bs : List Bucket) (t : Nat) (f : Bucket → Bucket) (g : Nat → Nat)
    (hg : ∀ a b, g (min a b) = min (g a) (g b))
    (hf : ∀ b ∈ bs, ((f b).refill t).avail = g (b.refill t).avail) (hne : bs ≠ []) :
    minAvail (bs.map f) t = g (minAvail bs t) := by
  induction bs with
  | nil => exact absurd rfl hne
  | cons b bs ih =>
    cases bs with
    | nil => simp [minAvail, hf b (by simp)]
    | cons c cs =>
      have := ih (fun x hx => hf x (List.mem_cons_of_mem _ hx)) (by simp)
      simp only [List.map_cons, minAvail, List.isEmpty_cons, Bool.false_eq_true, if_false] at this ⊢
      rw [hg, hf b (by simp), ← this]

theorem intervenes_rate (l : LayerCfg) (hk : l.kind = Kind.ratelimit) (n : Nat) (req : Stack.Req) :
    intervenes (eff l n) req = decide (n = 0) := by
  simp [intervenes, eff, hk]

/-- everything the link needs about one request of amount 1 on a set of buckets that match valid rates -/
theorem consumeSet_one (bs : List Bucket) (rates : List Rate) (tl t : Nat)
    (hm : List.Forall₂ (Matches tl) bs rates) (hv : ∀ r ∈ rates, r.valid = true) (hne : bs ≠ []) :
    ((consumeSet bs t 1).2 = .ok ↔ minAvail bs t ≠ 0) ∧
    ((∃ d, (consumeSet bs t 1).2 = .delay d) ↔ minAvail bs t = 0) ∧
    ((consumeSet bs t 1).2 = .ok → minAvail (consumeSet bs t 1).1 t = minAvail bs t - 1) ∧
    ((consumeSet bs t 1).2 ≠ .ok → minAvail (consumeSet bs t 1).1 t = minAvail bs t) := by
  have htpt : ∀ b ∈ bs, 0 < b.tpt := by
    intro b hb
    obtain ⟨r, _, hbr⟩ := forall₂_mem_left _ _ _ hm b hb
    rw [hbr.2.1]; exact tptOf_pos _ _
  have hburst : ∀ b ∈ bs, 1 ≤ b.burst := by
    intro b hb
    obtain ⟨r, hr, hbr⟩ := forall₂_mem_left _ _ _ hm b hb
    rw [hbr.2.2.1]; exact (valid_facts r (hv r hr)).2.2
  have hok : (consumeSet bs t 1).2 = .ok ↔ minAvail bs t ≠ 0 := by
    have h1 : minAvail bs t ≠ 0 ↔ 1 ≤ minAvail bs t := by omega
    rw [h1, le_minAvail_iff bs hne]
    constructor
    · intro h b hb
      exact ((consume_ok_iff b t 1).mp (consumeSet_all_of_ok bs t 1 htpt h b hb)).2
    · intro h
      exact consumeSet_ok_of_all bs t 1 (fun b hb => (consume_ok_iff b t 1).mpr ⟨hburst b hb, h b hb⟩)
  have hnerr : (consumeSet bs t 1).2 ≠ .err := by
    rw [Ne, consumeSet_err_iff]
    rintro ⟨b, hb, hlt⟩
    have := hburst b hb; omega
  refine ⟨hok, ?_, ?_, ?_⟩
  · constructor
    · rintro ⟨d, hd⟩
      by_contra hc
      rw [hok.mpr hc] at hd; cases hd
    · intro h0
      cases hres : (consumeSet bs t 1).2 with
      | ok => exact absurd h0 (hok.mp hres)
      | err => exact absurd hres hnerr
      | delay d => exact ⟨d, rfl⟩
  · intro h
    rw [(admit_debits_all bs t 1 htpt h).1]
    apply minAvail_map bs t _ (fun a => a - 1) (fun a b => by omega) _ hne
    intro b hb
    have hset := settled_after_consumeSet bs t 1
    rw [(admit_debits_all bs t 1 htpt h).1] at hset
    rw [hset _ (List.mem_map.mpr ⟨b, hb, rfl⟩)]
  · intro h
    rw [reject_no_debit bs t 1 h]
    have := minAvail_map bs t (fun b => { b.refill t with lastConsumed := 0 }) id (fun _ _ => rfl) ?_ hne
    · simpa using this
    · intro b hb
      have hset := settled_after_consumeSet bs t 1
      rw [reject_no_debit bs t 1 h] at hset
      rw [hset _ (List.mem_map.mpr ⟨b, hb, rfl⟩)]
      rfl

/-- the bucket set a request of `src` finds at `t` holds one well-formed bucket per configured rate -/
theorem rate_current (rates : List Rate) (hv : ValidRates rates) (l : Limiter) (t0 t : Nat)
    (hinv : LimiterInv rates l t0) (ht : t0 ≤ t) (src : String) :
    (∀ e', l.sets.find? src = some e' → ∃ tl, tl ≤ t ∧ EntryInv rates e' tl) ∧
    ∃ tl, tl ≤ t ∧ List.Forall₂ (Matches tl) (currentOf (l.sets.find? src) t rates).buckets rates := by
  obtain ⟨_, hall⟩ := hinv
  have he0 : ∀ e', l.sets.find? src = some e' → ∃ tl, tl ≤ t ∧ EntryInv rates e' tl := by
    intro e' he'
    obtain ⟨tl, htl, hi⟩ := hall src e' he'
    exact ⟨tl, by omega, hi⟩
  exact ⟨he0, (currentOf_matches rates hv (l.sets.find? src) t he0).2.1⟩

theorem rateAbs_eq (rates : List Rate) (l : Limiter) (hd : l.defaults = rates) (t : Nat) (src : String) :
    rateAbs l t src = minAvail (currentOf (l.sets.find? src) t rates).buckets t := by
  unfold rateAbs; rw [current_eq, hd]

theorem serve_one_resp (rates : List Rate) (l : Limiter) (hd : l.defaults = rates) (t : Nat) (src : String) (n : Nat) (v : String) :
    (l.serve t src n [] v).2 = Resp.ofSRes (consumeSet (currentOf (l.sets.find? src) t rates).buckets t n).2 := by
  rw [serve_resp, hd]
  unfold serveEntry BucketSet.consume
  simp only [List.isEmpty_nil, if_true]

/-- the bucket set the *next* request of `src` at the same instant finds is the one this request left -/
theorem serve_then_current (rates : List Rate) (hv : ValidRates rates) (l : Limiter) (t0 t : Nat)
    (hinv : LimiterInv rates l t0) (ht : t0 ≤ t) (src : String) (n : Nat) (v : String) :
    (currentOf ((l.serve t src n [] v).1.sets.find? src) t rates).buckets
      = (consumeSet (currentOf (l.sets.find? src) t rates).buckets t n).1 := by
  have hd : l.defaults = rates := hinv.1
  obtain ⟨he0, _⟩ := rate_current rates hv l t0 t hinv ht src
  have hinv' := serveEntry_inv rates hv (l.sets.find? src) t src n he0
  rw [serve_find_self, hd]
  have hexp : ¬ (serveEntry rates (l.sets.find? src) t src n []).1.expiry ≤ nowSec t := by
    show ¬ expiryAt t (ttlOf _) ≤ nowSec t
    rw [expiryAt_eq]; unfold ttlOf nowSec; omega
  unfold currentOf
  simp only [hexp, if_false]
  rw [update_same t t _ rates hinv'.2.2 hv.nodup hinv'.1]
  unfold serveEntry BucketSet.consume
  simp only [List.isEmpty_nil, if_true]
  rfl

theorem forall₂_ne_nil {α β : Type} (R : α → β → Prop) (l1 : List α) (l2 : List β) (h : List.Forall₂ R l1 l2)
    (hne : l2 ≠ []) : l1 ≠ [] := by
  cases h with
  | nil => exact absurd rfl hne
  | cons _ _ => simp

/-- one request of amount 1 of `src` at the instant `t`, in terms of the abstraction -/
theorem rate_serve (rates : List Rate) (hv : ValidRates rates) (hne : rates ≠ []) (l : Limiter) (t0 t : Nat)
    (hinv : LimiterInv rates l t0) (ht : t0 ≤ t) (src victim : String) :
    ((l.serve t src 1 [] victim).2 = .ok ↔ rateAbs l t src ≠ 0) ∧
    ((∃ d, (l.serve t src 1 [] victim).2 = .tooMany d) ↔ rateAbs l t src = 0) ∧
    ((l.serve t src 1 [] victim).2 = .ok → rateAbs (l.serve t src 1 [] victim).1 t src = rateAbs l t src - 1) ∧
    ((l.serve t src 1 [] victim).2 ≠ .ok → rateAbs (l.serve t src 1 [] victim).1 t src = rateAbs l t src) := by
  have hd : l.defaults = rates := hinv.1
  obtain ⟨_, tl, _, hm⟩ := rate_current rates hv l t0 t hinv ht src
  have hbs := forall₂_ne_nil _ _ _ hm hne
  obtain ⟨c1, c2, c3, c4⟩ := consumeSet_one _ rates tl t hm hv.valid hbs
  have hd' : (l.serve t src 1 [] victim).1.defaults = rates := by rw [serve_defaults]; exact hd
  rw [rateAbs_eq rates _ hd', rateAbs_eq rates l hd, serve_one_resp rates l hd, serve_then_current rates hv l t0 t hinv ht]
  refine ⟨?_, ?_, ?_, ?_⟩
  · rw [← c1]; cases (consumeSet (currentOf (l.sets.find? src) t rates).buckets t 1).2 <;> simp [Resp.ofSRes]
  · rw [← c2]; cases (consumeSet (currentOf (l.sets.find? src) t rates).buckets t 1).2 <;> simp [Resp.ofSRes]
  · intro h; apply c3
    revert h; cases (consumeSet (currentOf (l.sets.find? src) t rates).buckets t 1).2 <;> simp [Resp.ofSRes]
  · intro h; apply c4
    revert h; cases (consumeSet (currentOf (l.sets.find? src) t rates).buckets t 1).2 <;> simp [Resp.ofSRes]

/-- requests of other sources do not move the abstract state of `src` (unless they evict its entry) -/
theorem rate_serve_other (l : Limiter) (t : Nat) (src s' : String) (a : Nat) (victim : String) (hne : src ≠ s')
    (hvict : l.evictsAt t s' = true → victim ≠ src) :
    rateAbs (l.serve t s' a [] victim).1 t src = rateAbs l t src := by
  unfold rateAbs
  rw [current_eq, current_eq, serve_defaults, serve_find_other l t s' src a [] victim hne hvict]

/-- first contact: a full bucket per rate -/
theorem rate_first_contact (l : Limiter) (t : Nat) (src : String) (h : l.sets.find? src = none) :
    rateAbs l t src = minAvail (l.defaults.map (fun r => mkBucket r t)) t := by
  unfold rateAbs
  rw [current_eq, h]
  rfl

end rate

/-! ## cbreaker -/
section brk
open CB

/-- abstraction: the flag `tripped` of a cbreaker layer at the instant `now` -/
def brkFlag (b : Brk) (now : Nat) : Bool := decide (b.state = .tripped ∧ now < b.until_)

/-- the breaker states of the C20 harness: standby, or tripped with the fallback period still running.  The recovery ramp
(state `recovering`, or `tripped` with the deadline reached: the next arrival starts the ramp) is outside. -/
def brkSettled (b : Brk) (now : Nat) : Prop := b.state = .standby ∨ (b.state = .tripped ∧ now < b.until_)

instance (b : Brk) (now : Nat) : Decidable (brkSettled b now) := by unfold brkSettled; infer_instance

theorem brkFlag_eq_of_fields {b b' : Brk} (h1 : b'.state = b.state) (h2 : b'.until_ = b.until_) (now : Nat) :
    brkFlag b' now = brkFlag b now := by
  unfold brkFlag; rw [h1, h2]

end brk

/-! ## balancers -/

/-- abstraction: the flag `tripped` of a roundrobin / rebalancer layer — `NextServer` has nobody to select: no member of
positive weight, in particular the empty pool -/
def balFlag (ws : List Nat) : Bool := ws.all (fun w => w == 0)

theorem balFlag_true_iff (ws : List Nat) : balFlag ws = true ↔ ∀ w ∈ ws, w = 0 := by
  simp [balFlag]

theorem balFlag_false_iff (ws : List Nat) : balFlag ws = false ↔ ∃ w ∈ ws, 0 < w := by
  rw [← Bool.not_eq_true, balFlag_true_iff]
  constructor
  · intro h
    by_contra hc
    exact h (fun w hw => by
      by_contra h0
      exact hc ⟨w, hw, by omega⟩)
  · rintro ⟨w, hw, hp⟩ h
    have := h w hw; omega

/-- the routing part of `ServeHTTP` (both balancers) for a request without sticky cookie: it forwards iff `NextServer`
selects, and hands `NextServer`'s error to the error handler otherwise -/
theorem route_nocookie (b : PoolM.Bal) (sticky : Bool) :
    (∀ i, (RR.next b.ws b.it).1 = .sel i → ∃ r b', b.route sticky none = (.fwd r false, b')) ∧
    ((∀ i, (RR.next b.ws b.it).1 ≠ .sel i) → ∃ b', b.route sticky none = (.err (RR.next b.ws b.it).1, b')) := by
  have hstuck : (if sticky then (match (none : Option PoolM.Key) with | some k => b.findRef k | none => none) else none) = none := by
    cases sticky <;> rfl
  constructor
  · intro i hi
    simp only [PoolM.Bal.route, hstuck, PoolM.Bal.nextServer, RR.Pool.nextServer, PoolM.Bal.view, hi]
    exact ⟨_, _, rfl⟩
  · intro hn
    simp only [PoolM.Bal.route, hstuck, PoolM.Bal.nextServer, RR.Pool.nextServer, PoolM.Bal.view]
    cases hr : (RR.next b.ws b.it).1 with
    | sel i => exact absurd hr (hn i)
    | errNoServers => exact ⟨_, rfl⟩
    | errAllZero => exact ⟨_, rfl⟩
    | outOfFuel => exact ⟨_, rfl⟩

/-! ## a layer given by the state of its own model -/

/-- One layer of a stack, given by its configuration record (what the stack model needs besides the decision: cookie,
fallback, response maximum, retry, …) and, for the deciding layers, by the state of the layer's own model:
* `conn`: the connection limiter reached by the history `hist` (limit `l.limit`), and the source of the request;
* `rate`: a limiter state `lim` satisfying the reachability invariant for the default rates `rates`, the frozen instant `t`,
  the source, and the TTL map's victim choice;
* `brk`: breaker configuration and state, and the instant;
* `bal`: the pool's weight vector and the number of `NextServer` calls since the pool last changed;
* `buf`: the buffer's configuration and the request as the buffer model sees it. -/
inductive Layer where
  | plain (l : LayerCfg)
  | conn (l : LayerCfg) (slow : Bool) (hist : List ConnLimit.Event) (src : String)
  | rate (l : LayerCfg) (rates : List RL.Rate) (lim : RL.Limiter) (t0 t : Nat) (src victim : String)
  | brk (l : LayerCfg) (c : CB.Cfg) (b : CB.Brk) (now : Nat)
  | bal (l : LayerCfg) (ws : List Nat) (j : Nat)
  | buf (l : LayerCfg) (cfg : Buf.Cfg) (breq : Buf.Req)

/-- the connection limiter state of a `conn` layer -/
def connState (l : LayerCfg) (slow : Bool) (hist : List ConnLimit.Event) : ConnLimit.SysR :=
  ConnLimit.runR (ConnLimit.SysR.init (l.limit : Int) slow) hist

/-- **the abstraction**: the stack model's layer for a layer given by its own model -/
def Layer.cfg : Layer → LayerCfg
  | .plain l => l
  | .conn l slow hist src => eff l (connAbs (connState l slow hist) src)
  | .rate l _ lim _ t src _ => eff l (rateAbs lim t src)
  | .brk l _ b now => { l with tripped := brkFlag b now }
  | .bal l ws _ => { l with tripped := balFlag ws }
  | .buf l cfg _ => { l with maxReq := cfg.maxReq.toNat }

/-- well-formedness: the kind fits, the model state is reachable / inside the domain of the link, the request is the same -/
def Layer.ok : Layer → Stack.Req → Prop
  | .plain l, _ => l.kind = Kind.stream ∨ l.kind = Kind.trace
  | .conn l _ hist _, _ => l.kind = Kind.connlimit ∧ ConnLimit.amountsOne hist = true
  | .rate l rates lim t0 t _ _, _ =>
      l.kind = Kind.ratelimit ∧ RL.ValidRates rates ∧ rates ≠ [] ∧ RL.LimiterInv rates lim t0 ∧ t0 ≤ t
  | .brk l _ b now, _ => l.kind = Kind.cbreaker ∧ brkSettled b now
  | .bal l _ _, _ => l.kind = Kind.roundrobin ∨ l.kind = Kind.rebalancer
  | .buf l _ breq, req => l.kind = Kind.buffer ∧ breq.body.length = req.bodyLen

/-- the decision of the layer's **own model** on this request: it hands the request to `next` -/
def Layer.admits : Layer → Prop
  | .plain _ => True
  | .conn l slow hist src =>
      ConnLimit.acquire (connState l slow hist).base.st src 1 (connState l slow hist).base.max ≠ none
  | .rate _ _ lim _ t src victim => (lim.serve t src 1 [] victim).2 = RL.Resp.ok
  | .brk _ c b now => (CB.arrive c b now).1 = CB.Out.pass
  | .bal _ ws j => ∃ i, (RR.next ws (RR.after ws j RR.It.reset)).1 = RR.Res.sel i
  | .buf _ cfg breq => ¬ Buf.requestOver cfg breq

end StackLink
