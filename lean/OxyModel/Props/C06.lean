import OxyModel.Proofs.Buffer.Isolation
import OxyModel.Proofs.Buffer.Header

/-!
# C06 — Buffer hands the handler the exact request, identically on every attempt

Property theorems only (helper lemmas live in `OxyModel/Proofs/Buffer`).  The model is
`OxyModel/Model/Buffer.lean`: `Buf.serve cfg req script` = `Buffer.ServeHTTP` for one request, with
`script k` the behaviour of the protected handler on its `k`-th invocation; `(serve …).views[i]` is
what invocation `i+1` saw on entry plus the bytes it read from the body.

The request, its URL, its header map and the value slices are *references into a store* (`Buf.Heap`): `copyRequest`
allocates a new URL object, a new map and new backing arrays (`copyRequestH`), the handler's mutations are writes
through the references it was given (`handlerHeap`: `Set/Add/Del` re-point map entries, `h[k][0] = v` and
`URL.Path = …` write in place), and each retry copies again from `ServeHTTP`'s own request in the store as it then
is.  Sharing (same map, same slices, same URL object) is expressible — see `copyShared` at the end — so isolation
between attempts is a theorem (frame invariant `Pres`), not a consequence of the model being pure.

All theorems hold for every configuration (thresholds and maxima in any relation, any retry
expression), every request (any body length, declared or chunked framing, any header list) and every
handler script (how much each attempt reads, what it changes on its copy, how it answers).
-/
namespace C06
open Buf

/-- **C06 (exact body, true length, no chunked encoding)**: whatever invocation `i+1` exists, the bytes it
    reads are the request body from its first byte — all of it when it reads to EOF, else the first `n`
    bytes —, the `ContentLength` it sees is the body's true length and `TransferEncoding` is empty.
    This holds below and above the memory threshold and for both framings (`req.chunked`). -/
theorem C06_body_exact (cfg : Cfg) (req : Req) (script : Nat → Attempt) (i : Nat) (v : View)
    (h : (serve cfg req script).views[i]? = some v) :
    ((script (i + 1)).read = none → v.bodyRead = req.body) ∧
    (∀ n, (script (i + 1)).read = some n → v.bodyRead = req.body.take n) ∧
    v.req.contentLength = (req.body.length : Int) ∧ v.req.transferEncoding = [] := by
  by_cases hov : requestOver cfg req
  · obtain ⟨c, hc⟩ := serve_rejected cfg req script hov
    rw [hc] at h; simp at h
  · obtain ⟨b, c, hd, hp, _, hs⟩ := serve_admitted cfg req script hov
    rw [hs] at h
    have hb : BodyInv req (if req.body.length == 0 then none else some b) := by
      by_cases hz : req.body.length = 0
      · simp only [hz, beq_self_eq_true, if_true, BodyInv]; exact List.eq_nil_of_length_eq_zero hz
      · simp only [beq_iff_eq, hz, if_false, BodyInv]; exact ⟨hd, hp⟩
    have := loop_views cfg req (Heap.ofReq req).2 (ofReq_spec req).1 script req.body.length c c
      (fun k v => v.bodyRead = expectedRead req (script k) ∧ v.req = copyRequest req req.body.length)
      (Pres (Heap.ofReq req).1) (fun h a hp => stepHeap_pres _ h _ _ a hp)
      (fun k d h hp => ⟨rfl, viewReq_pres req _ h hp⟩) _ 1 _ [] [] _ rfl hb (Pres.refl _) (fun i v hv => by simp at hv) i v h
    obtain ⟨h1, h2⟩ := this
    refine ⟨?_, ?_, ?_, ?_⟩
    · intro hr; rw [h1]; unfold expectedRead; rw [hr]
    · intro n hr; rw [h1]; unfold expectedRead; rw [hr]
    · rw [h2]; rfl
    · rw [h2]; rfl

/-- **C06 (identical on every attempt, unaffected by earlier attempts)**: take any two handler scripts `s₁ s₂`
    (they may differ arbitrarily in what earlier attempts read from the shared body reader, wrote through the
    header-map / value-slice / URL pointers of their request copies — `Set`, `Add`, `Del`, in-place element
    overwrites, `URL.Path = …` — or answered) and any invocation `i+1` under `s₁` and `j+1` under `s₂` (in particular
    two attempts of the same exchange, `s₁ = s₂`): both see the same method, URL, headers, length and encoding —
    the client's — and, if they read the same amount, the same bytes.  Proof: the reader is rewound (`BodyInv`
    across `seek0`) and no write through an attempt's references reaches anything allocated before its copy was
    made (`stepHeap_pres`), so the next `copyRequest` reads the client's values again (`viewReq_pres`). -/
theorem C06_attempts_identical (cfg : Cfg) (req : Req) (s₁ s₂ : Nat → Attempt) (i j : Nat) (v w : View)
    (hv : (serve cfg req s₁).views[i]? = some v) (hw : (serve cfg req s₂).views[j]? = some w) :
    v.req = w.req ∧ v.req.method = req.method ∧ v.req.url = req.url ∧
    v.req.header = Header.copyInto [] req.header ∧
    ((s₁ (i + 1)).read = (s₂ (j + 1)).read → v.bodyRead = w.bodyRead) := by
  have key : ∀ (s : Nat → Attempt) (i : Nat) (v : View), (serve cfg req s).views[i]? = some v →
      v.bodyRead = expectedRead req (s (i + 1)) ∧ v.req = copyRequest req req.body.length := by
    intro s i v h
    by_cases hov : requestOver cfg req
    · obtain ⟨c, hc⟩ := serve_rejected cfg req s hov
      rw [hc] at h; simp at h
    · obtain ⟨b, c, hd, hp, _, hs⟩ := serve_admitted cfg req s hov
      rw [hs] at h
      have hb : BodyInv req (if req.body.length == 0 then none else some b) := by
        by_cases hz : req.body.length = 0
        · simp only [hz, beq_self_eq_true, if_true, BodyInv]; exact List.eq_nil_of_length_eq_zero hz
        · simp only [beq_iff_eq, hz, if_false, BodyInv]; exact ⟨hd, hp⟩
      exact loop_views cfg req (Heap.ofReq req).2 (ofReq_spec req).1 s req.body.length c c
        (fun k v => v.bodyRead = expectedRead req (s k) ∧ v.req = copyRequest req req.body.length)
        (Pres (Heap.ofReq req).1) (fun h a hp => stepHeap_pres _ h _ _ a hp)
        (fun k d h hp => ⟨rfl, viewReq_pres req _ h hp⟩) _ 1 _ [] [] _ rfl hb (Pres.refl _) (fun i v hv => by simp at hv) i v h
  obtain ⟨a1, a2⟩ := key s₁ i v hv
  obtain ⟨b1, b2⟩ := key s₂ j w hw
  refine ⟨by rw [a2, b2], by rw [a2]; rfl, by rw [a2]; rfl, by rw [a2]; rfl, ?_⟩
  intro hr; rw [a1, b1]; unfold expectedRead; rw [hr]

/-- **C06 (headers are the request's)**: for a Go map (every key once) the copy every attempt receives equals the
    request's header map. -/
theorem C06_headers_exact (cfg : Cfg) (req : Req) (script : Nat → Attempt) (i : Nat) (v : View)
    (hwf : Header.WF req.header) (h : (serve cfg req script).views[i]? = some v) :
    v.req.header = req.header := by
  have := (C06_attempts_identical cfg req script script i i v v h h).2.2.2.1
  rw [this, Header.copyInto_nil req.header hwf]

/-! ## non-vacuity -/

/-- memory threshold 4, retry while the status is ≥ 500 and fewer than 3 attempts: a 10-byte chunked POST is
    spilled, attempt 1 reads 3 bytes, mutates its copy and fails, attempt 2 reads everything. -/
def exCfg : Cfg := { memReq := 4, retry := some (.and (.cmp .attempts .lt 3) (.cmp .responseCode .ge 500)) }
def exReq : Req := { method := "POST", url := "/p?x=1", header := [("X-A", ["1", "3"]), ("X-B", ["2"])],
                     chunked := true, body := [1, 2, 3, 4, 5, 6, 7, 8, 9, 10] }
def exScript : Nat → Attempt
  | 1 => { read := some 3, hdrOps := [.set "X-A" "9", .del "X-B"], setUrl := some "/mut", status := some 503 }
  | _ => { read := none, writes := [[7]] }

example : (serve exCfg exReq exScript).views.length = 2 := by decide
example : ((serve exCfg exReq exScript).views.map (·.bodyRead)) = [[1, 2, 3], [1, 2, 3, 4, 5, 6, 7, 8, 9, 10]] := by decide
example : ((serve exCfg exReq exScript).views.map (·.req.url)) = ["/p?x=1", "/p?x=1"] := by decide
example : ((serve exCfg exReq exScript).views.map (·.req.contentLength)) = [10, 10] := by decide
example : (serve exCfg exReq exScript).created = 1 ∧ (serve exCfg exReq exScript).removed = 1 := by decide
example : Header.WF exReq.header := by unfold Header.WF; decide

/-- in-place edits through the copy's references leave the next attempt's view untouched -/
def exScript2 : Nat → Attempt
  | 1 => { hdrOps := [HdrOp.set0 "X-A" "evil", HdrOp.setLast "X-A" "evil", HdrOp.add "X-B" "x"],
           setUrl := some "/mut", status := some 503 }
  | _ => {}

example : ((serve exCfg exReq exScript2).views.map (·.req.header)) = [exReq.header, exReq.header] := by decide

/-! ### the store can express sharing: with a `copyRequest` that shares, the same handler breaks the next attempt -/

/-- `o := *req` without `CopyURL` / `CopyHeaders`: the handler holds the request's own URL object and header map -/
def copyShared (h : Heap) (r : ReqRef) (size : Nat) : Heap × OutRef := (h, ⟨r.method, r.urlId, r.mapId, (size : Int), []⟩)

example :
    let h0 := (Heap.ofReq exReq).1
    let r := (Heap.ofReq exReq).2
    let a : Attempt := { hdrOps := [HdrOp.set0 "X-A" "evil"], setUrl := some "/mut" }
    let h1 := handlerHeap a (copyShared h0 r 10).1 (copyShared h0 r 10).2
    h1.readMap r.mapId = [("X-A", ["evil", "3"]), ("X-B", ["2"])] ∧ h1.urls r.urlId = "/mut" ∧
    -- whereas through the real copy the original is untouched
    (stepHeap r 10 a h0).readMap r.mapId = exReq.header ∧ (stepHeap r 10 a h0).urls r.urlId = "/p?x=1" := by decide

end C06
