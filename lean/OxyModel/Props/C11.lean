import OxyModel.Proofs.Sticky.SymCipher
import OxyModel.Proofs.Sticky.Pool
import OxyModel.Props.C01

/-!
# C11 — sticky sessions pin and degrade gracefully

Property theorems only (helper lemmas: `OxyModel/Proofs/Sticky`).  Model: `OxyModel/Model/Sticky.lean`
(`Sticky.serve` = `ServeHTTP` of a balancer with a `StickySession`; `Sticky.get` / `Sticky.find` =
`CookieValue.Get` / `FindURL`; `Sticky.readCookie ∘ echoLine ∘ setCookieWire` = the `net/http` cookie wire)
and `OxyModel/Model/StickyURL.lean` (`render` = `URL.String`, `parse` = `url.Parse`).

The hash function and the AEAD are parameters (`E : Env`); collision-freedom on the pool and
`Cipher.Ideal` are explicit hypotheses.  `t0` is the time the cookie was minted, `now` the time it is
presented; `urls` is `Servers()` at that later time — any pool whatsoever that still contains `s`.
-/
namespace C11
open Sticky

/-- what `Request.Cookie` hands to `FindURL` when the client echoes the pair written for value `v` -/
def received (v : Str) : Str := v.filter validCookieValueByte

/-- the explicit hypotheses under which codec `cd` pins server `s` (minted at `t0`, presented at `now`,
    pool `urls`).  Raw: the URL round-trips through `Parse ∘ String` and survives cookie sanitising
    (this is the clause the known finding violates).  Hash: the value survives the wire and does not collide
    on the pool.  AES: ideal AEAD, round trip, expiry fits `int64`, not yet expired.  Fallback: the hypotheses
    of the minting codec `to`, and `from` does not claim the value for another server. -/
def Good (E : Env) (t0 now : Nat) (urls : List URL) (s : URL) : Codec → Prop
  | .raw => RoundTrip s ∧ (render s).all validCookieValueByte = true
  | .hash salt => (E.hash (salt ++ normalized s)).all validCookieValueByte = true ∧
      ∀ u ∈ urls, E.hash (salt ++ normalized u) = E.hash (salt ++ normalized s) → u.key = s.key
  | .aes _ ttl => E.cipher.Ideal ∧ RoundTrip s ∧ Bytes (render s) ∧
      (baseUnixNs + t0 + ttl) / 1000000000 < 2 ^ 63 ∧
      (0 < ttl → baseUnixNs + now ≤ (baseUnixNs + t0 + ttl) / 1000000000 * 1000000000)
  | .fallback frm tgt => Good E t0 now urls s tgt ∧
      ∀ u, find E now frm (received (Sticky.get E t0 tgt s)) urls = some u → u = s

private theorem recv_safe (x : Str) (hx : cookieSafe x = true) : received x = x := cookieSafe_filter x hx

/-! ## pinning -/

/-- **URL round trip** (discharges `RoundTrip`): for every server URL of the shape
    `scheme://[user[:password]@]host[:port][/path][?query]` — lower-case scheme; ANY user / password bytes; host a
    reg-name or a bracketed IP literal, numeric port; ANY path bytes, with or without a consistent `RawPath`
    (`/a%2Fb`); any query free of `#` and control bytes; no fragment — `url.Parse(u.String())` has the scheme, host
    and path of `u`.  (Outside this class — IPv6 zones, fragments, opaque or scheme-less URLs — `RoundTrip u` is
    decidable by evaluation and exercised by the correspondence run.) -/
theorem C11_url_roundtrip (u : URL) (hu : Abs u) : RoundTrip u := roundTrip_abs u hu

/-- **cookie wire**: `Request.Cookie(name)` on the echoed `Set-Cookie` pair returns the minted value minus
    the bytes `sanitizeCookieValue` drops; a value made of valid cookie bytes arrives unchanged. -/
theorem C11_cookie_wire (name v : Str) (hn : isCookieNameValid name = true) :
    (setCookieWire name v).bind (fun w => readCookie name (echoLine name w)) = some (received v) ∧
    (v.all validCookieValueByte = true → received v = v) := by
  refine ⟨?_, fun h => List.filter_eq_self.mpr (List.all_eq_true.mp h)⟩
  simp only [setCookieWire, hn, if_true, Option.bind_some]
  exact readCookie_echo name v hn

/-- **C11 round trip, raw codec** — partial: the full statement (`s ∈ urls → find (get s) = s` for every
    valid server URL) is FALSE for `RawValue` when `URL.String()` contains a byte that
    `http.SetCookie` drops (`C11_raw_counterexample`); proved under the hypothesis that it does not. -/
theorem C11_roundtrip_raw_partial (E : Env) (t0 now : Nat) (urls : List URL) (s : URL)
    (hnd : (urls.map URL.key).Nodup) (hs : s ∈ urls) (hrt : RoundTrip s)
    (hsafe : (render s).all validCookieValueByte = true) :
    find E now .raw (received (Sticky.get E t0 .raw s)) urls = some s := by
  have : received (render s) = render s := List.filter_eq_self.mpr (List.all_eq_true.mp hsafe)
  simp only [Sticky.get, find, this]
  exact findByURL_render urls s hnd hs hrt

def cexURL : URL := { scheme := ['h', 't', 't', 'p'], host := ['h'], path := ['/', 'p', ';', 'x'] }
def cexSession : Session := ⟨['a', 'f', 'f'], .raw⟩

/-- **known finding** (open): a server whose URL contains `;` is NOT pinned by the raw codec, although it is
    in the pool and its URL round-trips: the cookie the client receives names `http://h/px`. -/
theorem C11_raw_counterexample (E : Env) :
    cexURL ∈ [cexURL] ∧ RoundTrip cexURL ∧
    ∃ w, setCookieWire cexSession.name (Sticky.get E 0 cexSession.codec cexURL) = some w ∧
      getBackend E 0 cexSession (some (echoLine cexSession.name w)) [cexURL] = none := by
  refine ⟨by simp, by decide, ['h', 't', 't', 'p', ':', '/', '/', 'h', '/', 'p', 'x'], ?_, ?_⟩
  · show setCookieWire ['a', 'f', 'f'] (render cexURL) = _
    decide
  · show (match readCookie ['a', 'f', 'f'] (echoLine ['a', 'f', 'f'] ['h', 't', 't', 'p', ':', '/', '/', 'h', '/', 'p', 'x']) with
      | none => none
      | some v => findByURL v [cexURL]) = none
    decide

theorem C11_roundtrip_hash (E : Env) (t0 now : Nat) (urls : List URL) (s : URL) (salt : Str)
    (hnd : (urls.map URL.key).Nodup) (hs : s ∈ urls) (hg : Good E t0 now urls s (.hash salt)) :
    find E now (.hash salt) (received (Sticky.get E t0 (.hash salt) s)) urls = some s := by
  obtain ⟨hsafe, hinj⟩ := hg
  have : received (E.hash (salt ++ normalized s)) = E.hash (salt ++ normalized s) :=
    List.filter_eq_self.mpr (List.all_eq_true.mp hsafe)
  simp only [Sticky.get, find, this]
  apply find?_unique hs (by simp)
  intro u hu hp
  have hp' : E.hash (salt ++ normalized s) = E.hash (salt ++ normalized u) := by simpa using hp
  exact eq_of_nodup_map URL.key urls hnd u hu s hs (hinj u hu hp'.symm)

theorem C11_roundtrip_aes (E : Env) (t0 now : Nat) (urls : List URL) (s : URL) (k ttl : Nat)
    (hnd : (urls.map URL.key).Nodup) (hs : s ∈ urls) (hg : Good E t0 now urls s (.aes k ttl)) :
    find E now (.aes k ttl) (received (Sticky.get E t0 (.aes k ttl) s)) urls = some s := by
  obtain ⟨hI, hrt, hb, hfit, hlive⟩ := hg
  have hfind := findByURL_render urls s hnd hs hrt
  by_cases httl : 0 < ttl
  · have hbytes : Bytes (render s ++ '|' :: decimal ((baseUnixNs + t0 + ttl) / 1000000000)) := by
      intro c hc
      rcases List.mem_append.mp hc with h | h
      · exact hb c h
      · rcases List.mem_cons.mp h with e | h
        · subst e; decide
        · have := isDigit_nat c (decimal_digits _ c h); omega
    have hrecv := recv_safe _ (hI.safe k t0 _ hbytes)
    have hnot : ¬(((baseUnixNs + now : Nat) : Int) > (((baseUnixNs + t0 + ttl) / 1000000000 : Nat) : Int) * 1000000000) := by
      have := hlive httl
      omega
    simp only [Sticky.get, find, httl, if_true, hrecv, hI.unbox_box k t0 _ hbytes, checkTTL_minted now ttl _ (render s) httl hfit,
      if_neg hnot, hfind]
  · have h0 : ttl = 0 := by omega
    subst h0
    have hrecv := recv_safe _ (hI.safe k t0 _ hb)
    simp only [Sticky.get, find, Nat.lt_irrefl, if_false, hrecv, hI.unbox_box k t0 _ hb, checkTTL, hfind]

/-- a fallback chain pins whenever its minting codec `to` does and `from` does not steal the value -/
theorem C11_roundtrip_fallback (E : Env) (t0 now : Nat) (urls : List URL) (s : URL) (frm tgt : Codec)
    (hto : find E now tgt (received (Sticky.get E t0 tgt s)) urls = some s)
    (hns : ∀ u, find E now frm (received (Sticky.get E t0 tgt s)) urls = some u → u = s) :
    find E now (.fallback frm tgt) (received (Sticky.get E t0 (.fallback frm tgt) s)) urls = some s := by
  simp only [Sticky.get, find]
  cases hf : find E now frm (received (Sticky.get E t0 tgt s)) urls with
  | none => simpa using hto
  | some u => rw [hns u hf]

/-- **C11 round trip, every codec and chain**: under `Good`, the value minted for `s` finds `s` in every pool
    (with distinct keys — `C11_pool_invariant`) that contains `s`. -/
theorem C11_roundtrip_codec (E : Env) (t0 now : Nat) (urls : List URL) (s : URL)
    (hnd : (urls.map URL.key).Nodup) (hs : s ∈ urls) (cd : Codec) (hg : Good E t0 now urls s cd) :
    find E now cd (received (Sticky.get E t0 cd s)) urls = some s := by
  induction cd with
  | raw => exact C11_roundtrip_raw_partial E t0 now urls s hnd hs hg.1 hg.2
  | hash salt => exact C11_roundtrip_hash E t0 now urls s salt hnd hs hg
  | aes k ttl => exact C11_roundtrip_aes E t0 now urls s k ttl hnd hs hg
  | fallback frm tgt _ ihto => exact C11_roundtrip_fallback E t0 now urls s frm tgt (ihto hg.1) hg.2

/-- **C11 round trip through HTTP**: the cookie `StickBackend` wrote for `s` at `t0`, echoed by the client at
    `now`, makes `GetBackend` return `s` — for every codec and chain, every server URL satisfying `Good`,
    every pool that still contains `s`. -/
theorem C11_roundtrip (E : Env) (ss : Session) (hname : isCookieNameValid ss.name = true) (t0 now : Nat)
    (urls : List URL) (s : URL) (hnd : (urls.map URL.key).Nodup) (hs : s ∈ urls)
    (hg : Good E t0 now urls s ss.codec) (w : Str)
    (hw : setCookieWire ss.name (Sticky.get E t0 ss.codec s) = some w) :
    getBackend E now ss (some (echoLine ss.name w)) urls = some s := by
  simp only [setCookieWire, hname, if_true, Option.some.injEq] at hw
  subst hw
  simp only [getBackend, readCookie_echo ss.name _ hname]
  exact C11_roundtrip_codec E t0 now urls s hnd hs ss.codec hg

/-- **key rotation** `FallbackValue{from: AES(k₁), to: AES(k₂)}`: the no-steal hypothesis follows from the
    ideal AEAD, so a cookie minted under the new key pins. -/
theorem C11_key_rotation (E : Env) (t0 now : Nat) (urls : List URL) (s : URL) (k1 ttl1 k2 ttl2 : Nat)
    (hk : k1 ≠ k2) (hg : Good E t0 now urls s (.aes k2 ttl2)) :
    Good E t0 now urls s (.fallback (.aes k1 ttl1) (.aes k2 ttl2)) := by
  refine ⟨hg, ?_⟩
  intro u hu
  obtain ⟨hI, _, hb, _, _⟩ := hg
  exfalso
  have key : ∀ m, Bytes m → find E now (.aes k1 ttl1) (received (E.cipher.box k2 t0 m)) urls = none := by
    intro m hm
    simp only [find, recv_safe _ (hI.safe k2 t0 m hm), hI.key_sep k2 k1 t0 m (Ne.symm hk)]
  by_cases httl : 0 < ttl2
  · have hbytes : Bytes (render s ++ '|' :: decimal ((baseUnixNs + t0 + ttl2) / 1000000000)) := by
      intro c hc
      rcases List.mem_append.mp hc with h | h
      · exact hb c h
      · rcases List.mem_cons.mp h with e | h
        · subst e; decide
        · have := isDigit_nat c (decimal_digits _ c h); omega
    simp only [Sticky.get, httl, if_true] at hu
    rw [key _ hbytes] at hu; cases hu
  · simp only [Sticky.get, httl, if_false] at hu
    rw [key _ hb] at hu; cases hu

/-- **pinned regardless of rotation state and weights**: for ANY balancer state `lb` over the pool (any
    weights, zero included, any iterator position) the request carrying the cookie is forwarded to `s`,
    no new cookie is set, and the iterator is not advanced. -/
theorem C11_pinned_regardless_of_rotation (E : Env) (ss : Session) (hname : isCookieNameValid ss.name = true)
    (t0 now : Nat) (lb : LB) (s : URL) (hnd : (lb.urls.map URL.key).Nodup) (hs : s ∈ lb.urls)
    (hg : Good E t0 now lb.urls s ss.codec) (w : Str)
    (hw : setCookieWire ss.name (Sticky.get E t0 ss.codec s) = some w) :
    serve E now ss lb (some (echoLine ss.name w)) = (lb, .served s none) := by
  simp only [serve, C11_roundtrip E ss hname t0 now lb.urls s hnd hs hg w hw]

/-! ## never outside the pool -/

/-- `FindURL` returns a current member or nothing — every codec, every cookie value -/
theorem C11_never_outside_pool (E : Env) (now : Nat) (cd : Codec) (v : Str) (urls : List URL) (u : URL)
    (h : find E now cd v urls = some u) : u ∈ urls := by
  induction cd with
  | raw => exact findByURL_mem v urls u h
  | hash salt => exact List.mem_of_find?_eq_some h
  | aes k ttl =>
    simp only [find] at h
    cases hu : E.cipher.unbox k v with
    | none => rw [hu] at h; cases h
    | some p =>
      rw [hu] at h
      cases hc : checkTTL now ttl p with
      | none => simp only [hc] at h; cases h
      | some r => simp only [hc] at h; exact findByURL_mem r urls u h
  | fallback frm tgt ihf iht =>
    simp only [find] at h
    cases hf : find E now frm v urls with
    | none => rw [hf] at h; exact iht h
    | some x => rw [hf] at h; cases h; exact ihf hf

/-- every forwarded request goes to a current member: sticky path and balanced path alike, any header -/
theorem C11_served_in_pool (E : Env) (now : Nat) (ss : Session) (lb : LB) (hdr : Option Str) (u : URL)
    (set : Option Str) (h : (serve E now ss lb hdr).2 = .served u set) : u ∈ lb.urls := by
  unfold serve at h
  cases hb : getBackend E now ss hdr lb.urls with
  | some x =>
    simp only [hb] at h
    cases h
    unfold getBackend at hb
    cases hdr with
    | none => cases hb
    | some line =>
      simp only at hb
      cases hr : readCookie ss.name line with
      | none => rw [hr] at hb; cases hb
      | some v => rw [hr] at hb; exact C11_never_outside_pool E now ss.codec v lb.urls _ hb
  | none =>
    simp only [hb] at h
    split at h
    · next i _ =>
      split at h
      · next x hx => cases h; exact List.mem_of_getElem? hx
      · cases h
    · cases h

/-- a cookie naming a server that is no longer in the pool never routes to it -/
theorem C11_stale (E : Env) (now : Nat) (cd : Codec) (v : Str) (urls : List URL) (s : URL) (hs : s ∉ urls) :
    find E now cd v urls ≠ some s :=
  fun h => hs (C11_never_outside_pool E now cd v urls s h)

/-! ## bad cookies are not found -/

/-- absent or unreadable cookie (no header, other name, invalid value byte) -/
theorem C11_absent_or_malformed (E : Env) (now : Nat) (ss : Session) (urls : List URL) :
    getBackend E now ss none urls = none ∧
    (∀ line, readCookie ss.name line = none → getBackend E now ss (some line) urls = none) ∧
    (∀ v, parse v = none → find E now .raw v urls = none) ∧
    (∀ k ttl v, E.cipher.unbox k v = none → find E now (.aes k ttl) v urls = none) := by
  refine ⟨rfl, ?_, ?_, ?_⟩
  · intro line h; simp [getBackend, h]
  · intro v h; simp [find, findByURL, h]
  · intro k ttl v h; simp [find, h]

/-- forged: only (an encoding of) a cookie minted under the session key is honoured — whatever `FindURL` accepts
    opens under `k` and no key tells it apart from a minted cookie (`Cipher.same`: base64 decoding is not strict,
    so this is not string equality); a cookie minted under another key is not found. -/
theorem C11_forged (E : Env) (hI : E.cipher.Ideal) (now : Nat) (k ttl : Nat) (urls : List URL) :
    (∀ v u, find E now (.aes k ttl) v urls = some u →
      ∃ n m, E.cipher.unbox k v = some m ∧ E.cipher.same v (E.cipher.box k n m)) ∧
    (∀ k' n m, k' ≠ k → find E now (.aes k ttl) (E.cipher.box k' n m) urls = none) := by
  constructor
  · intro v u hf
    cases hu : E.cipher.unbox k v with
    | none => simp [find, hu] at hf
    | some p => obtain ⟨n, e⟩ := hI.authentic k v p hu; exact ⟨n, p, rfl, e⟩
  · intro k' n m hk
    simp [find, hI.key_sep k' k n m hk]

/-- expired: a genuine cookie whose embedded expiry `e` (unix seconds) lies before `now` is not found -/
theorem C11_expired (E : Env) (hI : E.cipher.Ideal) (now k ttl n e : Nat) (r : Str) (urls : List URL)
    (httl : 0 < ttl) (he : e < 2 ^ 63) (hb : Bytes r) (hexp : e * 1000000000 < baseUnixNs + now) :
    find E now (.aes k ttl) (E.cipher.box k n (r ++ '|' :: decimal e)) urls = none := by
  have hbytes : Bytes (r ++ '|' :: decimal e) := by
    intro c hc
    rcases List.mem_append.mp hc with h | h
    · exact hb c h
    · rcases List.mem_cons.mp h with e' | h
      · subst e'; decide
      · have := isDigit_nat c (decimal_digits _ c h); omega
  have hgt : ((baseUnixNs + now : Nat) : Int) > (e : Int) * 1000000000 := by omega
  simp only [find, hI.unbox_box k n _ hbytes, checkTTL_minted now ttl e r httl he, if_pos hgt]

/-! ## graceful degradation -/

/-- **degrades**: whenever the cookie does not name a current member (`GetBackend` finds nothing — absent,
    malformed, forged, expired, stale: the theorems above), the request is balanced exactly like a request
    without sticky sessions (`RR.next`, the C01 iterator), it is not rejected as long as some member has
    positive weight, it goes to a member of positive weight, and it receives a fresh cookie minted for the
    chosen server. -/
theorem C11_degrades (E : Env) (now : Nat) (ss : Session) (lb : LB) (hdr : Option Str)
    (hbad : getBackend E now ss hdr lb.urls = none)
    (hw : ∃ w ∈ lb.ws, 0 < w) (hit : ∃ j, lb.it = RR.after lb.ws j RR.It.reset) :
    ∃ i u, (RR.next lb.ws lb.it).1 = .sel i ∧ lb.urls[i]? = some u ∧ 0 < lb.ws.getD i 0 ∧
      serve E now ss lb hdr =
        ({ lb with it := (RR.next lb.ws lb.it).2 }, .served u (setCookieWire ss.name (Sticky.get E now ss.codec u))) := by
  obtain ⟨j, hj⟩ := hit
  have hsel := C01.C01_selects_positive lb.ws hw j 1 (RR.next lb.ws lb.it).1 (by rw [← hj]; simp [RR.run])
  obtain ⟨i, hi, hlt, hpos⟩ := hsel
  have hlen : i < lb.urls.length := by simpa [LB.urls, LB.ws] using hlt
  refine ⟨i, lb.urls[i], hi, List.getElem?_eq_getElem hlen, hpos, ?_⟩
  simp only [serve, hbad, LB.nextServer, hi, List.getElem?_eq_getElem hlen]

/-- **the fresh cookie pins**: the cookie handed out on the degraded path at `t0`, presented at `now` to ANY
    later state of the balancer (any sequence of pool changes in between) in which the chosen server is still
    a member, routes to that server. -/
theorem C11_fresh_cookie_pins (E : Env) (ss : Session) (hname : isCookieNameValid ss.name = true) (t0 now : Nat)
    (lb lb1 lb2 : LB) (hdr : Option Str) (u : URL) (w : Str)
    (h1 : serve E t0 ss lb hdr = (lb1, .served u (some w)))
    (hnd : (lb2.urls.map URL.key).Nodup) (hu : u ∈ lb2.urls) (hg : Good E t0 now lb2.urls u ss.codec) :
    serve E now ss lb2 (some (echoLine ss.name w)) = (lb2, .served u none) := by
  have hw : setCookieWire ss.name (Sticky.get E t0 ss.codec u) = some w := by
    unfold serve at h1
    cases hb : getBackend E t0 ss hdr lb.urls with
    | some x => simp only [hb, Prod.mk.injEq, Resp.served.injEq] at h1; exact absurd h1.2.2 (by simp)
    | none =>
      simp only [hb] at h1
      split at h1
      · split at h1
        · simp only [Prod.mk.injEq, Resp.served.injEq] at h1
          obtain ⟨_, e1, e2⟩ := h1
          subst e1; exact e2
        · simp at h1
      · simp at h1
  exact C11_pinned_regardless_of_rotation E ss hname t0 now lb2 u hnd hu hg w hw

/-- the explicit hypotheses under which the cookie of a server that LEFT the pool finds nothing: as `Good`, with
    "no collision with a member" for the hash and "`from` finds nothing either" for a chain (no liveness needed:
    an expired cookie finds nothing anyway) -/
def Unfound (E : Env) (t0 now : Nat) (urls : List URL) (s : URL) : Codec → Prop
  | .raw => RoundTrip s ∧ (render s).all validCookieValueByte = true
  | .hash salt => (E.hash (salt ++ normalized s)).all validCookieValueByte = true ∧
      ∀ u ∈ urls, E.hash (salt ++ normalized u) ≠ E.hash (salt ++ normalized s)
  | .aes _ ttl => E.cipher.Ideal ∧ RoundTrip s ∧ Bytes (render s) ∧ (baseUnixNs + t0 + ttl) / 1000000000 < 2 ^ 63
  | .fallback frm tgt => Unfound E t0 now urls s tgt ∧
      find E now frm (received (Sticky.get E t0 tgt s)) urls = none

/-- **stale cookie finds nothing**: the cookie minted for `s`, presented to a pool none of whose members has the
    key of `s` (it was removed; whatever else changed), makes `FindURL` return nothing — every codec and chain. -/
theorem C11_stale_none (E : Env) (t0 now : Nat) (urls : List URL) (s : URL)
    (hgone : ∀ u ∈ urls, u.key ≠ s.key) (cd : Codec) (hg : Unfound E t0 now urls s cd) :
    find E now cd (received (Sticky.get E t0 cd s)) urls = none := by
  induction cd with
  | raw =>
    have : received (render s) = render s := List.filter_eq_self.mpr (List.all_eq_true.mp hg.2)
    simp only [Sticky.get, find, this]
    exact findByURL_gone urls s hg.1 hgone
  | hash salt =>
    have : received (E.hash (salt ++ normalized s)) = E.hash (salt ++ normalized s) :=
      List.filter_eq_self.mpr (List.all_eq_true.mp hg.1)
    simp only [Sticky.get, find, this]
    rw [List.find?_eq_none]
    intro u hu hp
    have hp' : E.hash (salt ++ normalized s) = E.hash (salt ++ normalized u) := by simpa using hp
    exact hg.2 u hu hp'.symm
  | aes k ttl =>
    obtain ⟨hI, hrt, hb, hfit⟩ := hg
    have hgoneF := findByURL_gone urls s hrt hgone
    by_cases httl : 0 < ttl
    · have hbytes : Bytes (render s ++ '|' :: decimal ((baseUnixNs + t0 + ttl) / 1000000000)) := by
        intro c hc
        rcases List.mem_append.mp hc with h | h
        · exact hb c h
        · rcases List.mem_cons.mp h with e | h
          · subst e; decide
          · have := isDigit_nat c (decimal_digits _ c h); omega
      simp only [Sticky.get, find, httl, if_true, recv_safe _ (hI.safe k t0 _ hbytes), hI.unbox_box k t0 _ hbytes,
        checkTTL_minted now ttl _ (render s) httl hfit]
      by_cases hexp : ((baseUnixNs + now : Nat) : Int) > (((baseUnixNs + t0 + ttl) / 1000000000 : Nat) : Int) * 1000000000
      · rw [if_pos hexp]
      · rw [if_neg hexp]; exact hgoneF
    · have h0 : ttl = 0 := by omega
      subst h0
      simp only [Sticky.get, find, Nat.lt_irrefl, if_false, recv_safe _ (hI.safe k t0 _ hb), hI.unbox_box k t0 _ hb,
        checkTTL, hgoneF]
  | fallback frm tgt _ iht =>
    simp only [Sticky.get, find, hg.2, iht hg.1]

/-- **stale cookie ⇒ rebalanced**: a request carrying the cookie issued for a server that is no longer in the pool is
    balanced exactly like a request without sticky sessions among the current members (`RR.next`), is not rejected
    while some member has positive weight, goes to a member of positive weight and receives a fresh cookie minted
    for the server chosen. -/
theorem C11_stale_rebalanced (E : Env) (ss : Session) (hname : isCookieNameValid ss.name = true) (t0 now : Nat)
    (lb : LB) (s : URL) (hgone : ∀ u ∈ lb.urls, u.key ≠ s.key) (hg : Unfound E t0 now lb.urls s ss.codec)
    (w : Str) (hw : setCookieWire ss.name (Sticky.get E t0 ss.codec s) = some w)
    (hpos : ∃ x ∈ lb.ws, 0 < x) (hit : ∃ j, lb.it = RR.after lb.ws j RR.It.reset) :
    ∃ i u, (RR.next lb.ws lb.it).1 = .sel i ∧ lb.urls[i]? = some u ∧ 0 < lb.ws.getD i 0 ∧
      serve E now ss lb (some (echoLine ss.name w)) =
        ({ lb with it := (RR.next lb.ws lb.it).2 }, .served u (setCookieWire ss.name (Sticky.get E now ss.codec u))) := by
  apply C11_degrades E now ss lb _ _ hpos hit
  simp only [setCookieWire, hname, if_true, Option.some.injEq] at hw
  subst hw
  simp only [getBackend, readCookie_echo ss.name _ hname]
  exact C11_stale_none E t0 now lb.urls s hgone ss.codec hg

/-- **no steal, `from` = raw**: `RawValue.FindURL` never claims a value without `:` (a hex hash, a base64 AES cookie)
    when every member has a scheme — the no-steal conjunct of `Good (.fallback .raw tgt)` for such values. -/
theorem C11_no_steal_raw (E : Env) (now : Nat) (v : Str) (urls : List URL) (hc : ':' ∉ v)
    (hs : ∀ u ∈ urls, u.scheme ≠ []) : find E now .raw v urls = none :=
  findByURL_no_colon v urls hc hs

/-! ## every sequence of pool changes -/

/-- balancer states reachable by any history of `UpsertServer`, `RemoveServer` and requests -/
inductive Reach : LB → Prop where
  | empty : Reach LB.empty
  | upsert {lb : LB} (u : URL) (w : Option Nat) : Reach lb → Reach (lb.upsert u w)
  | remove {lb lb' : LB} (u : URL) : Reach lb → lb.remove u = some lb' → Reach lb'
  | serve {lb : LB} (E : Env) (now : Nat) (ss : Session) (hdr : Option Str) : Reach lb → Reach (serve E now ss lb hdr).1

private theorem keys_urls (lb : LB) : lb.urls.map URL.key = keysOf lb.srvs := by
  simp [LB.urls, keysOf, List.map_map, Function.comp_def]

/-- **every history**: after ANY sequence of `UpsertServer` / `RemoveServer` / requests (stuck or not, any
    cookies, any codec, any clock) the pool has pairwise distinct keys and the iterator is a position of the
    C01 orbit — the side conditions of the theorems above hold in every reachable state. -/
theorem C11_pool_invariant (lb : LB) (h : Reach lb) :
    (lb.urls.map URL.key).Nodup ∧ ∃ j, lb.it = RR.after lb.ws j RR.It.reset := by
  induction h with
  | empty => exact ⟨by simp [LB.urls, LB.empty], 0, rfl⟩
  | upsert u w _ ih =>
    refine ⟨?_, 0, rfl⟩
    rw [keys_urls] at ih ⊢
    exact nodup_upsertL u w _ ih.1
  | @remove lb lb' u _ hr ih =>
    unfold LB.remove at hr
    cases hl : removeL u.key lb.srvs with
    | none => rw [hl] at hr; cases hr
    | some l =>
      rw [hl] at hr
      simp only [Option.map_some, Option.some.injEq] at hr
      subst hr
      refine ⟨?_, 0, rfl⟩
      rw [keys_urls] at ih ⊢
      exact nodup_removeL u.key lb.srvs l hl ih.1
  | @serve lb E now ss hdr _ ih =>
    obtain ⟨hn, j, hj⟩ := ih
    have hstep : (RR.next lb.ws lb.it).2 = RR.after lb.ws (j + 1) RR.It.reset := by
      rw [RR.after_add lb.ws j 1, ← hj]; rfl
    unfold Sticky.serve
    cases hb : getBackend E now ss hdr lb.urls with
    | some x => exact ⟨hn, j, hj⟩
    | none =>
      simp only
      split
      · split <;> exact ⟨hn, j + 1, hstep⟩
      · exact ⟨hn, j + 1, hstep⟩

private theorem reach_reset (recs : List (URL × Nat)) : ∀ lb, Reach lb → Reach (RB.reset lb recs) := by
  induction recs with
  | nil => intro lb h; exact h
  | cons r t ih => intro lb h; exact ih _ (.upsert r.1 (some r.2) h)

/-- **behind a rebalancer**: `Rebalancer.UpsertServer` / `RemoveServer` (own records, `reset()` re-registering every
    record) are sequences of upserts / removes of the wrapped balancer, whose `Servers()` the sticky lookup uses — also
    when servers are registered on the wrapped balancer directly.  So every theorem above holds for the rebalancer
    front end (with healthy backends: no weight is re-rated). -/
theorem C11_rebalancer_admin (rb : RB) (h : Reach rb.lb) :
    (∀ u w, Reach (rb.upsert u w).lb) ∧ (∀ u rb', rb.remove u = some rb' → Reach rb'.lb) := by
  constructor
  · intro u w
    unfold RB.upsert
    exact reach_reset _ _ (.upsert u _ h)
  · intro u rb' hr
    unfold RB.remove at hr
    split at hr
    · cases hr
    · split at hr
      · cases hr
      · next lb1 hl =>
        cases hr
        exact reach_reset _ _ (.remove u h hl)

/-! ## non-vacuity: concrete servers, pools and sessions satisfy the hypotheses -/

def exA : URL := { scheme := ['h', 't', 't', 'p'], user := some (['u'], some ['p']), host := ['h', '1', ':', '8', '0'],
                   path := ['/', 'a', ' ', 'b'], rawQuery := ['q', '=', '1', '|', '2'] }
def exB : URL := { scheme := ['h', 't', 't', 'p', 's'], host := ['h', '2'], path := ['/', 'p', ';', 'x', '|', 'y'] }
def exPool : List URL := [exB, exA]
def exName : Str := ['a', 'f', 'f']
def exLB : LB := (LB.empty.upsert exB (some 0)).upsert exA (some 3)

-- both are `Abs`: `exA` has userinfo, a port, a space in the path and `|` in the query; `exB` has `;` and `|` in the path;
-- `exC` is a bracketed IPv6 host with a `RawPath` (`/a%2Fb`) and a forced empty query
def exC : URL := { scheme := ['h', 't', 't', 'p'], host := ['[', ':', ':', '1', ']', ':', '8', '0'], path := ['/', 'a', '/', 'b'],
                   rawPath := ['/', 'a', '%', '2', 'F', 'b'], forceQuery := true }
example : Abs exA :=
  { scheme := ⟨'h', ['t', 't', 'p'], rfl, by decide, by decide⟩
    user := by unfold UserOK Bytes exA; decide
    host := ⟨['h', '1'], [':', '8', '0'], rfl, Or.inr ⟨['8', '0'], rfl, by decide⟩, Or.inl ⟨by decide, by decide⟩⟩
    path := Or.inl ⟨rfl, Or.inr rfl, by unfold Bytes exA; decide⟩
    query := by decide, noOpaq := rfl, noOmit := rfl, noFrag := rfl }
example : Abs exB :=
  { scheme := ⟨'h', ['t', 't', 'p', 's'], rfl, by decide, by decide⟩
    user := trivial
    host := ⟨['h', '2'], [], rfl, Or.inl rfl, Or.inl ⟨by decide, by decide⟩⟩
    path := Or.inl ⟨rfl, Or.inr rfl, by unfold Bytes exB; decide⟩
    query := by decide, noOpaq := rfl, noOmit := rfl, noFrag := rfl }
example : Abs exC :=
  { scheme := ⟨'h', ['t', 't', 'p'], rfl, by decide, by decide⟩
    user := trivial
    host := ⟨['[', ':', ':', '1', ']'], [':', '8', '0'], rfl, Or.inr ⟨['8', '0'], rfl, by decide⟩,
      Or.inr ⟨[':', ':', '1'], rfl, by decide⟩⟩
    path := Or.inr ⟨by decide, by decide, by decide, by decide⟩
    query := by decide, noOpaq := rfl, noOmit := rfl, noFrag := rfl }
example : render exC = ['h','t','t','p',':','/','/','[',':',':','1',']',':','8','0','/','a','%','2','F','b','?'] := by decide
example : RoundTrip exA ∧ RoundTrip exB := by decide
example : render exA = ['h', 't', 't', 'p', ':', '/', '/', 'u', ':', 'p', '@', 'h', '1', ':', '8', '0', '/', 'a', '%', '2', '0', 'b', '?', 'q', '=', '1', '|', '2'] := by decide  -- http://u:p@h1:80/a%20b?q=1|2
example : (exPool.map URL.key).Nodup ∧ exA ∈ exPool := by decide
example : isCookieNameValid exName = true := by decide
example : Reach exLB := .upsert _ _ (.upsert _ _ .empty)
example : exLB.urls = exPool ∧ exLB.ws = [1, 3] := by decide

-- the hypotheses `Good` of every codec are satisfiable with the driver's instances (FNV-1a, symbolic AEAD)
example : stdEnv.cipher.Ideal := symCipher_ideal
example : Good stdEnv 0 7 exPool exA .raw := ⟨by decide, by decide⟩
example : ¬ Good stdEnv 0 7 exPool exB .raw := fun h => absurd h.2 (by decide)   -- the `;` of the known finding
example : Good stdEnv 0 7 exPool exA (.hash ['s']) ∧ Good stdEnv 0 7 exPool exB (.hash ['s']) := by
  constructor <;> exact ⟨by decide, by decide⟩
example : Good stdEnv 0 4999999999 exPool exB (.aes 1 5000000000) :=
  ⟨symCipher_ideal, by decide, by unfold Bytes; decide, by decide, by decide⟩
example : Good stdEnv 0 0 exPool exA (.fallback (.aes 1 0) (.aes 2 60000000000)) :=
  C11_key_rotation stdEnv 0 0 exPool exA 1 0 2 60000000000 (by decide)
    ⟨symCipher_ideal, by decide, by unfold Bytes; decide, by decide, by decide⟩
example : Good stdEnv 0 7 exPool exA (.fallback (.hash ['s']) .raw) := by
  refine ⟨⟨by decide, by decide⟩, ?_⟩
  intro u h
  rw [show find stdEnv 7 (.hash ['s']) (received (Sticky.get stdEnv 0 .raw exA)) exPool = none by decide] at h
  cases h

-- the conclusions, evaluated: a session against `exLB` (weights 1 and 3: the first balanced pick is `exA`)
example : serve stdEnv 0 ⟨exName, .hash ['s']⟩ exLB none =
    (⟨exLB.srvs, ⟨2, 3⟩⟩, .served exA (some ['f', '9', 'b', '5', 'a', '3', 'f', '5', '0', '3', '9', 'f', '5', 'd', '7', '4'])) := by decide  -- f9b5a3f5039f5d74
example : serve stdEnv 9 ⟨exName, .hash ['s']⟩ (exLB.upsert exB (some 100)) (some ['a', 'f', 'f', '=', 'f', '9', 'b', '5', 'a', '3', 'f', '5', '0', '3', '9', 'f', '5', 'd', '7', '4']) =
    (exLB.upsert exB (some 100), .served exA none) := by decide
-- raw codec and the `;` server: the client gets `https://h2/px%7Cy`, which names nobody, so the next request is balanced again
example : setCookieWire exName (Sticky.get stdEnv 0 .raw exB) = some ['h', 't', 't', 'p', 's', ':', '/', '/', 'h', '2', '/', 'p', 'x', '%', '7', 'C', 'y'] := by decide
example : getBackend stdEnv 0 ⟨exName, .raw⟩ (some ['a', 'f', 'f', '=', 'h', 't', 't', 'p', 's', ':', '/', '/', 'h', '2', '/', 'p', 'x', '%', '7', 'C', 'y']) exPool = none := by decide
-- forged / expired / foreign key, with the symbolic cipher
example : find stdEnv 0 (.aes 1 0) ['f', 'o', 'r', 'g', 'e', 'd'] exPool = none := by decide
example : 1577836805 * 1000000000 < baseUnixNs + 5000000001 := by decide
example : find stdEnv 5000000001 (.aes 1 5000000000) (Sticky.get stdEnv 0 (.aes 1 5000000000) exB) exPool = none ∧
    find stdEnv 5000000000 (.aes 1 5000000000) (Sticky.get stdEnv 0 (.aes 1 5000000000) exB) exPool = some exB := by decide
-- a server that left: `exA` is not in `[exB]`; its cookies (raw, hash, aes, a chain) find nothing there
example : (∀ u ∈ [exB], u.key ≠ exA.key) ∧ Unfound stdEnv 0 7 [exB] exA (.fallback (.hash ['s']) .raw) :=
  ⟨by decide, ⟨by decide, by decide⟩, by decide⟩
example : Unfound stdEnv 0 7 [exB] exA (.hash ['s']) ∧ Unfound stdEnv 0 7 [exB] exA (.aes 1 5000000000) :=
  ⟨⟨by decide, by decide⟩, symCipher_ideal, by decide, by unfold Bytes; decide, by decide⟩
-- no-steal for `from` = raw, discharged by `C11_no_steal_raw`: an FNV hex value has no `:`, every member has a scheme
example : Good stdEnv 0 7 exPool exA (.fallback .raw (.hash ['s'])) := by
  refine ⟨⟨by decide, by decide⟩, ?_⟩
  intro u h
  rw [C11_no_steal_raw stdEnv 7 _ exPool (by decide) (by decide)] at h
  cases h
-- degraded request on a reachable balancer with a positive weight
example : (∃ w ∈ exLB.ws, 0 < w) ∧ ∃ j, exLB.it = RR.after exLB.ws j RR.It.reset := ⟨⟨1, by decide, by decide⟩, 0, rfl⟩

end C11
