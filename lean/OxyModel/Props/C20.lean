import OxyModel.Proofs.Stack.Basic

/-!
# C20 — middleware stacks are transparent or decisive

`Stack.serveStack stack h req` (Model/Stack.lean) is one request through `stack` (outermost first; any order,
any depth, repetitions allowed) to the handler `h`.  All theorems quantify over every stack, every handler
behaviour `h : Req → Script` (status or none, headers, body chunks, flush point, hijack attempt), every request
and every layer configuration.
-/
namespace C20
open Stack

/-- The layer has no reason to intervene on this request/handler: its limit is not reached, the breaker is in standby,
the pool is non-empty, the request and the handler's body are within the buffer's maxima, and a buffer configured to retry on
network errors is not looking at a 502/504 (then the documented retry applies: `C20_retry_documented`). -/
def passes (l : LayerCfg) (req : Req) (s : Script) : Prop :=
  intervenes l req = false ∧ overflows l (scriptResp s).body.length = false
  ∧ (retryBuf l && netErr (scriptResp s).status) = false

instance (l : LayerCfg) (req : Req) (s : Script) : Decidable (passes l req s) := by
  unfold passes; infer_instance

/-- The documented status of each layer's own response (`connlimit.ConnErrHandler`, `ratelimit.RateErrHandler`,
`cbreaker` default fallback / `ResponseFallback` / `RedirectFallback`, `utils.DefaultHandler` for `ErrNoServers`,
`buffer.SizeErrHandler`).  Stream and trace have none (0). -/
def documentedStatus (l : LayerCfg) : Nat :=
  match l.kind with
  | .connlimit => 429
  | .ratelimit => 429
  | .cbreaker => match l.fallback with
    | .dflt => 503
    | .response code => code
    | .redirect _ => 302
  | .roundrobin => 500
  | .rebalancer => 500
  | .buffer => 413
  | .stream => 0
  | .trace => 0

/-- Domain of handler behaviours for which a buffer is transparent: a handler that sends 1xx informational responses also
sets its final status explicitly.  (Outside it the code is NOT transparent, see `C20_info_implicit_final_counterexample`.) -/
def infoDomain (stack : List LayerCfg) (s : Script) : Prop :=
  ¬ hasBuffer stack ∨ s.info = [] ∨ s.status.isSome = true

/-- Domain of handler responses whose body a buffer relays: `bufferWriter.expectBody` holds for them (or they have no body).
Outside it the Buffer *drops the body by design* (`C20_buffer_drops_body_kinds`): 204/304, `Content-Length: 0`, and a
non-empty `Grpc-Status` other than "0". -/
def bodyDomain (stack : List LayerCfg) (s : Script) : Prop :=
  ¬ hasBuffer stack ∨ (scriptResp s).body = [] ∨ expectBody (scriptResp s).status s.headers = true

theorem bodyDomain_keep {stack : List LayerCfg} {s : Script} (h : bodyDomain stack s) :
    ¬ hasBuffer stack ∨ (scriptResp s).body = []
      ∨ (expectBody (scriptResp s).status (scriptResp s).headers = true ∧ (s.status.isSome = false → (scriptResp s).status = 200)) := by
  rcases h with h | h | h
  · exact Or.inl h
  · exact Or.inr (Or.inl h)
  · refine Or.inr (Or.inr ⟨h, ?_⟩)
    intro hn; cases hs : s.status <;> simp_all [scriptResp]

/-- **Transparent.**  If every layer passes, the handler runs exactly once; the client receives the handler's status and
body unchanged and its headers preceded only by the sticky cookies of the balancers in the stack (or, if the handler
hijacked the connection, exactly what it wrote there); a hijack attempt succeeds; the handler's writer can flush through to
the client unless a buffer is in the stack, and without a buffer a requested flush does reach the client. -/
theorem C20_transparent (stack : List LayerCfg) (h : Req → Script) (req : Req)
    (hp : ∀ l ∈ stack, passes l req (h req)) (hdom : infoDomain stack (h req)) (hbody : bodyDomain stack (h req)) :
    (serveStack stack h req).invoked = 1
    ∧ (serveStack stack h req).resp
        = (if (h req).hijack then scriptResp (h req) else decorate stack (scriptResp (h req)))
    ∧ (serveStack stack h req).hijacked = (h req).hijack
    ∧ (∃ c, (serveStack stack h req).seen = some c ∧ c.canHijack = true ∧ (c.canFlush = true ∨ hasBuffer stack))
    ∧ (¬ hasBuffer stack → (serveStack stack h req).flushed = (flushRequested (h req) && !(h req).hijack))
    ∧ (¬ hasBuffer stack → (serveStack stack h req).infos = (if (h req).hijack then [] else (h req).info)) := by
  have hi : ∀ l ∈ stack, intervenes l req = false := fun l hl => (hp l hl).1
  have hs : serveStack stack h req = stack.foldr step (runHandler (h req) (capsThrough stack Caps.real)) := by
    have := serve_append stack [] h req Caps.real hi
    simpa [serveStack, serve] using this
  have hH : (capsThrough stack Caps.real).canHijack = true := by
    rw [capsThrough_canHijack]; rfl
  have hF : ¬ hasBuffer stack → (capsThrough stack Caps.real).canFlush = true := by
    intro hb; rw [capsThrough_canFlush _ _ hb]; rfl
  by_cases hj : (h req).hijack = true
  · -- the handler hijacks: nothing is touched afterwards
    have hr : runHandler (h req) (capsThrough stack Caps.real)
        = ⟨scriptResp (h req), 1, some (capsThrough stack Caps.real), true, false, [], true⟩ := by
      simp [runHandler, hj, hH]
    rw [hs, hr, foldr_post_hijacked _ _ rfl]
    refine ⟨rfl, by simp [hj], by simp [hj], ⟨_, rfl, hH, ?_⟩, by simp [hj], by simp [hj]⟩
    by_cases hb : hasBuffer stack
    · exact Or.inr hb
    · exact Or.inl (hF hb)
  · have hj' : (h req).hijack = false := by simpa using hj
    have hr : runHandler (h req) (capsThrough stack Caps.real)
        = ⟨scriptResp (h req), 1, some (capsThrough stack Caps.real), false,
            flushRequested (h req) && (capsThrough stack Caps.real).canFlush, (h req).info, (h req).status.isSome⟩ := by
      simp [runHandler, hj']
    have hd : (h req).status.isSome = true ∨ (h req).info = [] ∨ ¬ hasBuffer stack := by
      rcases hdom with h1 | h1 | h1
      · exact Or.inr (Or.inr h1)
      · exact Or.inr (Or.inl h1)
      · exact Or.inl h1
    have hone : attemptsThrough stack (scriptResp (h req)).status = 1 :=
      attemptsThrough_one _ _ (fun l hl => (hp l hl).2.2)
    rw [hs, hr, foldr_post_plain _ _ rfl (fun l hl => (hp l hl).2.1) hd (bodyDomain_keep hbody)]
    refine ⟨by simp [hone], by simp [hj'], by simp [hj'], ⟨_, rfl, hH, ?_⟩, ?_, ?_⟩
    · by_cases hb : hasBuffer stack
      · exact Or.inr hb
      · exact Or.inl (hF hb)
    · intro hb; simp [hj', hF hb]
    · intro hb; simp [hj', infosThrough_noBuffer _ _ hb]

/-- What `decorate` can add: status and body are untouched, and the only additional headers are the documented
`Set-Cookie` of the sticky balancers, in stack order, in front of the handler's own headers. -/
theorem C20_decorate_only_cookies (stack : List LayerCfg) (r : Resp) :
    (decorate stack r).status = r.status ∧ (decorate stack r).body = r.body
    ∧ (decorate stack r).headers = stack.flatMap cookieOf ++ r.headers
    ∧ (∀ hd ∈ stack.flatMap cookieOf, hd.1 = "Set-Cookie") := by
  refine ⟨decorate_status _ _, decorate_body _ _, decorate_headers _ _, ?_⟩
  intro hd hm
  obtain ⟨l, _, hl⟩ := List.mem_flatMap.mp hm
  unfold cookieOf at hl
  split at hl <;> simp_all

/-- **Decisive (at a position).**  If `L` intervenes and no layer outside it does (and the outer buffers' response maxima admit
`L`'s short body), the client receives exactly `L`'s documented response — relayed by the outer layers like any handler
response — and the handler is not invoked, whatever lies inside `L`. -/
theorem C20_decisive_at (outer inner : List LayerCfg) (L : LayerCfg) (h : Req → Script) (req : Req)
    (hout : ∀ l ∈ outer, intervenes l req = false ∧ overflows l (interventionResp L).body.length = false)
    (hL : intervenes L req = true)
    (hkeep : ¬ hasBuffer outer ∨ expectBody (interventionResp L).status (interventionResp L).headers = true) :
    serveStack (outer ++ L :: inner) h req = ⟨decorate outer (interventionResp L), 0, none, false, false, [], true⟩ := by
  have hkeep' : ¬ hasBuffer outer ∨ (interventionResp L).body = []
      ∨ (expectBody (interventionResp L).status (interventionResp L).headers = true ∧ (true = false → (interventionResp L).status = 200)) := by
    rcases hkeep with h1 | h1
    · exact Or.inl h1
    · exact Or.inr (Or.inr ⟨h1, by intro hc; cases hc⟩)
  unfold serveStack
  rw [serve_append outer (L :: inner) h req Caps.real (fun l hl => (hout l hl).1)]
  simp only [serve, hL, if_true]
  rw [foldr_post_plain _ _ rfl (fun l hl => (hout l hl).2) (Or.inl rfl) hkeep']
  simp [infosThrough_nil', explicitThrough_true]

/-- **Decisive.**  Any stack containing an intervening layer: the outermost intervening layer answers, the handler is not invoked. -/
theorem C20_decisive (stack : List LayerCfg) (h : Req → Script) (req : Req)
    (hex : ∃ l ∈ stack, intervenes l req = true)
    (hlim : ∀ l ∈ stack, ∀ L ∈ stack, overflows l (interventionResp L).body.length = false)
    (hkeep : ¬ hasBuffer stack ∨ ∀ L ∈ stack, expectBody (interventionResp L).status (interventionResp L).headers = true) :
    ∃ outer L inner, stack = outer ++ L :: inner ∧ (∀ l ∈ outer, intervenes l req = false) ∧ intervenes L req = true
      ∧ serveStack stack h req = ⟨decorate outer (interventionResp L), 0, none, false, false, [], true⟩ := by
  obtain ⟨outer, L, inner, e, ho, hL⟩ := exists_outermost stack req hex
  refine ⟨outer, L, inner, e, ho, hL, ?_⟩
  subst e
  apply C20_decisive_at _ _ _ _ _ _ hL
  · rcases hkeep with hk | hk
    · exact Or.inl (fun ⟨x, hx, e⟩ => hk ⟨x, by simp [hx], e⟩)
    · exact Or.inr (hk L (by simp))
  · intro l hl
    exact ⟨ho l hl, hlim l (by simp [hl]) L (by simp)⟩

/-- **Status table.**  The client status of a decided request is the documented status of the deciding layer; stream and
trace never decide; a rate-limit refusal carries `X-Retry-In`. -/
theorem C20_status_table (outer inner : List LayerCfg) (L : LayerCfg) (h : Req → Script) (req : Req)
    (hout : ∀ l ∈ outer, intervenes l req = false ∧ overflows l (interventionResp L).body.length = false)
    (hL : intervenes L req = true)
    (hkeep : ¬ hasBuffer outer ∨ expectBody (interventionResp L).status (interventionResp L).headers = true) :
    (serveStack (outer ++ L :: inner) h req).resp.status = documentedStatus L
    ∧ L.kind ≠ Kind.stream ∧ L.kind ≠ Kind.trace
    ∧ (L.kind = Kind.ratelimit →
        ("X-Retry-In", goDuration L.periodMs) ∈ (serveStack (outer ++ L :: inner) h req).resp.headers) := by
  rw [C20_decisive_at outer inner L h req hout hL hkeep]
  refine ⟨?_, ?_, ?_, ?_⟩
  · simp only [decorate_status]
    unfold interventionResp documentedStatus
    cases hk : L.kind <;> simp_all [intervenes]
    cases L.fallback <;> rfl
  · intro hk; simp [intervenes, hk] at hL
  · intro hk; simp [intervenes, hk] at hL
  · intro hk
    simp [decorate_headers, interventionResp, hk]

/-- **Response limit of a buffer** (the one intervention that has to run the handler first).  A buffer whose
`MaxResponseBodyBytes` is exceeded by the handler's body answers 500 in place of the handler's response; the handler has
run exactly once. -/
theorem C20_response_limit (outer inner : List LayerCfg) (B : LayerCfg) (h : Req → Script) (req : Req)
    (hout : ∀ l ∈ outer, intervenes l req = false ∧ overflows l internalError.body.length = false)
    (hB : intervenes B req = false) (hov : overflows B (scriptResp (h req)).body.length = true)
    (hin : ∀ l ∈ inner, passes l req (h req)) (hj : (h req).hijack = false)
    (hdom : (h req).info = [] ∨ (h req).status.isSome = true) (hbody : bodyDomain inner (h req)) :
    (serveStack (outer ++ B :: inner) h req).invoked = 1
    ∧ (serveStack (outer ++ B :: inner) h req).resp = decorate outer internalError := by
  have hinner := serve_append inner [] h req (capsThrough (outer ++ [B]) Caps.real) (fun l hl => (hin l hl).1)
  simp only [List.append_nil, serve] at hinner
  have hr : ∀ c, runHandler (h req) c = ⟨scriptResp (h req), 1, some c, false, flushRequested (h req) && c.canFlush,
      (h req).info, (h req).status.isSome⟩ := by
    intro c; simp [runHandler, hj]
  have hd : (h req).status.isSome = true ∨ (h req).info = [] ∨ ¬ hasBuffer inner := by
    rcases hdom with h1 | h1
    · exact Or.inr (Or.inl h1)
    · exact Or.inl h1
  have hone : attemptsThrough inner (scriptResp (h req)).status = 1 :=
    attemptsThrough_one _ _ (fun l hl => (hin l hl).2.2)
  rw [hr, foldr_post_plain _ _ rfl (fun l hl => (hin l hl).2.1) hd (bodyDomain_keep hbody)] at hinner
  simp only [hone, Nat.mul_one] at hinner
  have hB' : serve (B :: inner) h req (capsThrough outer Caps.real)
      = step B (serve inner h req (capsThrough (outer ++ [B]) Caps.real)) := by
    simp [serve, hB, capsThrough, List.foldl_append, step]
  unfold serveStack
  rw [serve_append outer (B :: inner) h req Caps.real (fun l hl => (hout l hl).1), hB', hinner]
  have hpost : ∀ c f i e, step B ⟨decorate inner (scriptResp (h req)), 1, some c, false, f, i, e⟩
      = ⟨internalError, 1, some c, false, f, [], true⟩ := by
    intro c f i e; simp [step, retryMul, retryable, post, decorate_body, hov]
  have hout1 : attemptsThrough outer internalError.status = 1 :=
    attemptsThrough_one _ _ (fun l _ => by simp [internalError, netErr])
  have hk500 : expectBody internalError.status internalError.headers = true := by decide
  rw [hpost, foldr_post_plain _ _ rfl (fun l hl => (hout l hl).2) (Or.inl rfl)
    (Or.inr (Or.inr ⟨hk500, by intro hc; cases hc⟩))]
  exact ⟨by simp [hout1], rfl⟩

/-- **A failed hijack stays a failed hijack.**  Behind a front whose writer cannot be hijacked (a recorder,
`http.TimeoutHandler`, HTTP/2) the handler's attempt fails in every passing stack, and the ordinary response it then writes is
relayed like any other: one invocation, status, headers (plus cookies) and body unchanged. -/
theorem C20_failed_hijack_relayed (front : Caps) (hf : front.canHijack = false)
    (stack : List LayerCfg) (h : Req → Script) (req : Req)
    (hp : ∀ l ∈ stack, passes l req (h req)) (hdom : infoDomain stack (h req)) (hbody : bodyDomain stack (h req)) :
    (serve stack h req front).invoked = 1 ∧ (serve stack h req front).hijacked = false
    ∧ (serve stack h req front).resp = decorate stack (scriptResp (h req)) := by
  have hi : ∀ l ∈ stack, intervenes l req = false := fun l hl => (hp l hl).1
  have hs : serve stack h req front = stack.foldr step (runHandler (h req) (capsThrough stack front)) := by
    have := serve_append stack [] h req front hi
    simpa [serve] using this
  have hH : (capsThrough stack front).canHijack = false := by rw [capsThrough_canHijack]; exact hf
  have hr : runHandler (h req) (capsThrough stack front)
      = ⟨scriptResp (h req), 1, some (capsThrough stack front), false,
          flushRequested (h req) && (capsThrough stack front).canFlush, (h req).info, (h req).status.isSome⟩ := by
    simp [runHandler, hH]
  have hd : (h req).status.isSome = true ∨ (h req).info = [] ∨ ¬ hasBuffer stack := by
    rcases hdom with h1 | h1 | h1
    · exact Or.inr (Or.inr h1)
    · exact Or.inr (Or.inl h1)
    · exact Or.inl h1
  have hone : attemptsThrough stack (scriptResp (h req)).status = 1 :=
    attemptsThrough_one _ _ (fun l hl => (hp l hl).2.2)
  rw [hs, hr, foldr_post_plain _ _ rfl (fun l hl => (hp l hl).2.1) hd (bodyDomain_keep hbody)]
  exact ⟨by simp [hone], rfl, rfl⟩

/-- the code `bufferWriter` holds when this handler returns: its final status, else its last 1xx, else the implicit 200 -/
def scriptCode (s : Script) : Nat :=
  match s.status with
  | some c => c
  | none => match s.info.getLast? with
    | some i => i
    | none => 200

/-- **Which responses lose their body behind a Buffer** (documented Buffer behaviour: `expectBody`, gRPC support).  Exactly
those whose recorded code is 1xx, 204 or 304, that carry `Content-Length: 0`, or a non-empty `Grpc-Status` other than "0" … -/
theorem C20_expectBody_false_iff (c : Nat) (hs : List Header) :
    expectBody c hs = false ↔
      ((100 ≤ c ∧ c < 200) ∨ c = 204 ∨ c = 304 ∨ hget hs "Content-Length" = "0"
        ∨ (hget hs "Grpc-Status" ≠ "" ∧ hget hs "Grpc-Status" ≠ "0")) := by
  unfold expectBody
  simp
  grind

/-- … and for those, and only those, a passing Buffer delivers an empty body instead of the handler's (status and headers are
relayed as usual). -/
theorem C20_buffer_drops_body_kinds (B : LayerCfg) (hB : B.kind = Kind.buffer) (h : Req → Script) (req : Req)
    (hpass : intervenes B req = false) (hov : overflows B (scriptResp (h req)).body.length = false)
    (hnr : (retryBuf B && netErr (scriptResp (h req)).status) = false) (hj : (h req).hijack = false) :
    (serveStack [B] h req).resp.body
      = if expectBody (scriptCode (h req)) (h req).headers then (scriptResp (h req)).body else [] := by
  have hck : cookieOf B = [] := by simp [cookieOf, hB]
  have hrt : retryable B (runHandler (h req) (wrapCaps B.kind Caps.real)) = false := by
    have : (runHandler (h req) (wrapCaps B.kind Caps.real)).resp = scriptResp (h req) := by
      simp [runHandler, hj]
    unfold retryable
    rw [this]
    cases hb : retryBuf B <;> simp_all
  simp only [serveStack, serve, hpass, retryMul, hrt]
  simp only [runHandler, hj, Bool.false_and, Bool.false_eq_true, if_false, post, hov, decorate1, hck, List.nil_append]
  unfold relayHeaderCalls bwCode scriptCode
  simp only [hB]
  cases hs : (h req).status <;> cases hi : (h req).info.getLast? <;> simp [scriptResp, hs] <;> split <;> simp_all

/-- **The stateful retry loop is the stateless one.**  In a stack without rate limiters — the only layers in which a request
leaves something behind — `serveSt` (which re-runs the inner stack in the state the previous attempt left) answers exactly
like `serveStack` on the effective configuration, retries included, and leaves the effective configuration unchanged; so
`C20_retry_documented` and `C20_transparent` apply to every request of a sequence. -/
theorem C20_retry_stateful_link (stack : List LayerCfg) (st : List Nat) (h : Req → Script) (req : Req)
    (hnr : ∀ l ∈ stack, l.kind ≠ Kind.ratelimit) :
    (serveSt stack st h req false Caps.real).1 = Outcome.served (serveStack (effStack stack st) h req)
    ∧ effStack stack (serveSt stack st h req false Caps.real).2 = effStack stack st :=
  serveSt_noRate stack st h req Caps.real hnr

/-- **Known gap in the code (1xx + implicit final status behind a buffer).**  `infoDomain` cannot be dropped from
`C20_transparent`: a handler that calls `WriteHeader(103)` and then writes its body without a final `WriteHeader` loses its
body behind a Buffer (`bufferWriter` keeps code 103, `expectBody` is false) while the bare handler delivers it. -/
theorem C20_info_implicit_final_counterexample :
    (serveStack [{ kind := .buffer }] (fun _ => ⟨none, [], [[104, 105]], 0, false, [103], false⟩) ⟨0⟩).resp.body = []
    ∧ (serveStack [] (fun _ => ⟨none, [], [[104, 105]], 0, false, [103], false⟩) ⟨0⟩).resp.body = [104, 105] := by
  decide

/-- **An aborted request leaves nothing behind.**  One stack instance in any admission state (`connections` in flight per
connection limiter, tokens left per rate limiter) in which every layer passes: a handler that ends with
`panic(http.ErrAbortHandler)` has run exactly once, and the next request — any request, any handler behaviour — is then served
exactly as the stateless stack in the state *before* the aborted request serves it (every connection slot is back; a rate
limiter that had at least two tokens still passes).  With `C20_transparent` on `effStack sl` this is full transparency of the
later request. -/
theorem C20_abort_restores (stack : List LayerCfg) (st : List Nat) (h : Req → Script) (req req2 : Req)
    (hp : ∀ l ∈ effStack stack st, intervenes l req = false)
    (hb : ample stack st) (hnr : ∀ l ∈ stack, retryBuf l = false) :
    (serveSt stack st h req true Caps.real).1 = Outcome.aborted 1
    ∧ (serveSt stack (serveSt stack st h req true Caps.real).2 h req2 false Caps.real).1
        = Outcome.served (serveStack (effStack stack st) h req2) := by
  rw [serveSt_aborted stack st h req Caps.real hp]
  refine ⟨rfl, ?_⟩
  rw [serveSt_served _ _ _ _ _ hnr, effStack_after stack st hb]
  rfl

/-- the connection slots really are what is at stake: the state after the aborted request is the state before it,
except for the rate tokens spent (`stateAfter`: `leave (enter n)` per layer, i.e. `n+1-1` for a connection limiter) -/
theorem C20_abort_state (stack : List LayerCfg) (st : List Nat) (h : Req → Script) (req : Req)
    (hp : ∀ l ∈ effStack stack st, intervenes l req = false) :
    (serveSt stack st h req true Caps.real).2 = stateAfter stack st
    ∧ ∀ (l : LayerCfg) (n : Nat), leave l.kind (enter l.kind n) = if l.kind = Kind.ratelimit then n - 1 else n := by
  rw [serveSt_aborted stack st h req Caps.real hp]
  refine ⟨rfl, ?_⟩
  intro l n
  cases hk : l.kind <;> simp [enter, leave]

/-- **The documented retry, and nothing beyond it.**  A handler that answers 502 or 504 behind buffers configured with
`Retry("IsNetworkError() && Attempts() <= 2")`: each such buffer runs its inner stack three times (attempts 1 and 2 are retried,
the third is relayed), so the handler runs `3 ^ (number of retrying buffers)` times, and the response of the last attempt is
relayed unchanged.  Every other status — 503 included — falls under `C20_transparent`: exactly one invocation. -/
theorem C20_retry_documented (stack : List LayerCfg) (h : Req → Script) (req : Req)
    (hp : ∀ l ∈ stack, intervenes l req = false ∧ overflows l (scriptResp (h req)).body.length = false)
    (hdom : infoDomain stack (h req)) (hbody : bodyDomain stack (h req)) (hj : (h req).hijack = false)
    (hst : netErr (scriptResp (h req)).status = true) :
    (serveStack stack h req).invoked = 3 ^ stack.countP retryBuf
    ∧ (serveStack stack h req).resp = decorate stack (scriptResp (h req)) := by
  have hi : ∀ l ∈ stack, intervenes l req = false := fun l hl => (hp l hl).1
  have hs : serveStack stack h req = stack.foldr step (runHandler (h req) (capsThrough stack Caps.real)) := by
    have := serve_append stack [] h req Caps.real hi
    simpa [serveStack, serve] using this
  have hr : runHandler (h req) (capsThrough stack Caps.real)
      = ⟨scriptResp (h req), 1, some (capsThrough stack Caps.real), false,
          flushRequested (h req) && (capsThrough stack Caps.real).canFlush, (h req).info, (h req).status.isSome⟩ := by
    simp [runHandler, hj]
  have hd : (h req).status.isSome = true ∨ (h req).info = [] ∨ ¬ hasBuffer stack := by
    rcases hdom with h1 | h1 | h1
    · exact Or.inr (Or.inr h1)
    · exact Or.inr (Or.inl h1)
    · exact Or.inl h1
  rw [hs, hr, foldr_post_plain _ _ rfl (fun l hl => (hp l hl).2) hd (bodyDomain_keep hbody)]
  exact ⟨by simp [attemptsThrough_pow _ _ hst], rfl⟩

/-! ## Non-vacuity: depth-4 stacks -/

private def h1 : Req → Script := fun r =>
  ⟨some 201, [("Content-Type", "text/verif"), ("X-Req-Len", toString r.bodyLen)], [[1, 2, 3], [4, 5]], 1, false, [103], false⟩
private def h2 : Req → Script := fun _ => ⟨none, [("Content-Type", "text/verif")], [[9]], 0, true, [], true⟩

private def sPass : List LayerCfg :=
  [{ kind := .trace }, { kind := .connlimit }, { kind := .rebalancer, sticky := some "sk2" }, { kind := .cbreaker }]
private def sBuf : List LayerCfg :=
  [{ kind := .roundrobin, sticky := some "sk0" }, { kind := .buffer, maxReq := 16, maxResp := 100 }, { kind := .trace }, { kind := .ratelimit }]
private def sDec : List LayerCfg :=
  [{ kind := .rebalancer, sticky := some "sk0" }, { kind := .buffer, maxResp := 64 }, { kind := .ratelimit, tripped := true },
   { kind := .cbreaker, tripped := true }]

/-- the hypotheses of `C20_transparent` hold on concrete depth-4 stacks (with and without a buffer) … -/
example : (∀ l ∈ sPass, passes l ⟨7⟩ (h1 ⟨7⟩)) ∧ (h1 ⟨7⟩).status.isSome = true := by decide
example : (∀ l ∈ sBuf, passes l ⟨16⟩ (h1 ⟨16⟩)) ∧ (h1 ⟨16⟩).status.isSome = true
    ∧ expectBody (scriptResp (h1 ⟨16⟩)).status (h1 ⟨16⟩).headers = true := by decide
/-- `bodyDomain` cannot be dropped: a 200 with `Grpc-Status: 5` keeps its body through trace but loses it behind a Buffer -/
private def hGrpc : Req → Script := fun _ =>
  ⟨some 200, [("Content-Type", "application/grpc"), ("Grpc-Status", "5")], [[7, 8]], 0, false, [], false⟩
example : (serveStack [{ kind := .trace }] hGrpc ⟨0⟩).resp.body = [7, 8]
    ∧ (serveStack [{ kind := .trace }, { kind := .buffer }] hGrpc ⟨0⟩).resp.body = []
    ∧ (serveStack [{ kind := .trace }, { kind := .buffer }] hGrpc ⟨0⟩).resp.status = 200
    ∧ (∀ l ∈ [({ kind := .trace } : LayerCfg), { kind := .buffer }], passes l ⟨0⟩ (hGrpc ⟨0⟩)) := by decide
/-- … and the conclusions are the non-trivial ones: one invocation, cookie added, flush delivered / not under a buffer, hijack works -/
example : (serveStack sPass h1 ⟨7⟩).invoked = 1 ∧ (serveStack sPass h1 ⟨7⟩).resp.status = 201
    ∧ (serveStack sPass h1 ⟨7⟩).resp.body = [1, 2, 3, 4, 5] ∧ (serveStack sPass h1 ⟨7⟩).flushed = true
    ∧ (serveStack sPass h1 ⟨7⟩).resp.headers.length = 3 ∧ (serveStack sPass h1 ⟨7⟩).infos = [103] := by decide
example : (serveStack sBuf h1 ⟨16⟩).invoked = 1 ∧ (serveStack sBuf h1 ⟨16⟩).flushed = false
    ∧ (serveStack sBuf h1 ⟨16⟩).seen = some ⟨true, false, true, true⟩ ∧ (serveStack sBuf h1 ⟨16⟩).infos = [] := by decide
example : (serveStack sBuf h2 ⟨0⟩).hijacked = true ∧ (serveStack sBuf h2 ⟨0⟩).resp = scriptResp (h2 ⟨0⟩) := by decide
/-- `C20_decisive`: two tripped layers, the outer one (rate limiter) answers through a buffer and a sticky rebalancer -/
example : (∃ l ∈ sDec, intervenes l ⟨0⟩ = true)
    ∧ (∀ l ∈ sDec, ∀ L ∈ sDec, overflows l (interventionResp L).body.length = false) := by decide
example : (serveStack sDec h1 ⟨0⟩).invoked = 0 ∧ (serveStack sDec h1 ⟨0⟩).resp.status = 429
    ∧ (serveStack sDec h1 ⟨0⟩).resp.headers.length = 4 := by decide
/-- request over the buffer's `MaxRequestBodyBytes` → 413, handler not invoked; response over `MaxResponseBodyBytes` → 500, invoked once -/
example : (serveStack sBuf h1 ⟨17⟩).resp.status = 413 ∧ (serveStack sBuf h1 ⟨17⟩).invoked = 0 := by decide
example : (serveStack [{ kind := .stream }, { kind := .buffer, maxResp := 4 }, { kind := .trace }, { kind := .connlimit }] h1 ⟨0⟩).resp.status = 500
    ∧ (serveStack [{ kind := .stream }, { kind := .buffer, maxResp := 4 }, { kind := .trace }, { kind := .connlimit }] h1 ⟨0⟩).invoked = 1 := by decide

/-- `C20_abort_restores`: connection limiter of 1 with nothing in flight, rate limiter with 2 tokens, behind a buffer and a breaker -/
private def stA : List LayerCfg :=
  [{ kind := .buffer, maxReq := 16 }, { kind := .connlimit, limit := 1 }, { kind := .cbreaker }, { kind := .ratelimit }]
example : (∀ l ∈ effStack stA [0, 0, 0, 2], intervenes l ⟨3⟩ = false) ∧ ample stA [0, 0, 0, 2]
    ∧ (∀ l ∈ stA, retryBuf l = false) := by
  refine ⟨by decide, ?_, by decide⟩
  simp [ample, stA, hd0]
example : (serveSt stA [0, 0, 0, 2] h1 ⟨3⟩ true Caps.real).1 = Outcome.aborted 1
    ∧ (serveSt stA [0, 0, 0, 2] h1 ⟨3⟩ true Caps.real).2 = [0, 0, 0, 1] := by decide
/-- … and the hypotheses matter: with the slot still taken (state 1 of limit 1) the same stack refuses -/
example : (serveSt [{ kind := .connlimit, limit := 1 }] [1] h1 ⟨0⟩ false Caps.real).1
    = Outcome.served ⟨interventionResp { kind := .connlimit, limit := 1, tripped := true }, 0, none, false, false, [], true⟩ := by decide
/-- `C20_retry_documented`: 504 behind one retrying buffer in a depth-4 stack: three runs; 503: one run; the stateful loop agrees -/
private def h504 : Req → Script := fun _ => ⟨some 504, [("Content-Type", "text/verif")], [[1]], 0, false, [], false⟩
private def h503 : Req → Script := fun _ => ⟨some 503, [("Content-Type", "text/verif")], [[1]], 0, false, [], false⟩
private def sRetry : List LayerCfg :=
  [{ kind := .trace }, { kind := .buffer, retry := true }, { kind := .ratelimit }, { kind := .rebalancer }]
example : (serveStack sRetry h504 ⟨0⟩).invoked = 3 ∧ (serveStack sRetry h504 ⟨0⟩).resp.status = 504
    ∧ (serveStack sRetry h503 ⟨0⟩).invoked = 1 ∧ (∀ l ∈ sRetry, passes l ⟨0⟩ (h503 ⟨0⟩)) := by decide
example : (serveSt sRetry [0, 0, 9, 0] h504 ⟨0⟩ false Caps.real).1 = Outcome.served (serveStack sRetry h504 ⟨0⟩)
    ∧ (serveSt sRetry [0, 0, 9, 0] h504 ⟨0⟩ false Caps.real).2 = [0, 0, 6, 0] := by decide

end C20
