import OxyModel.Proofs.Stack.Basic
import OxyModel.Proofs.Stack.Link
import OxyModel.Proofs.Writer
import OxyModel.Props.C01
import OxyModel.Props.C05
import OxyModel.Props.C15

/-!
# C20 — middleware stacks are transparent or decisive

`Stack.serveStack stack h req` (Model/Stack.lean) is one request through `stack` (outermost first; any order,
any depth, repetitions allowed) to the handler `h`.  All theorems quantify over every stack, every handler
behaviour `h : Req → Script` (status or none, headers, body chunks, flush point, hijack attempt), every request
and every layer configuration.
-/
namespace C20
open Stack

/-- The layer has no reason to intervene on this request/handler: its limit is not reached, the breaker is in standby,
the pool is non-empty, the request and the handler's body are within the buffer's maxima, and a buffer configured to retry on
network errors is not looking at a 502/504 (then the documented retry applies: `C20_retry_documented`). -/
def passes (l : LayerCfg) (req : Req) (s : Script) : Prop :=
  intervenes l req = false ∧ overflows l (scriptResp s).body.length = false
  ∧ (retryBuf l && netErr (scriptResp s).status) = false

instance (l : LayerCfg) (req : Req) (s : Script) : Decidable (passes l req s) := by
  unfold passes; infer_instance

/-- The documented status of each layer's own response (`connlimit.ConnErrHandler`, `ratelimit.RateErrHandler`,
`cbreaker` default fallback / `ResponseFallback` / `RedirectFallback`, `utils.DefaultHandler` for `ErrNoServers`,
`buffer.SizeErrHandler`).  Stream and trace have none (0). -/
def documentedStatus (l : LayerCfg) : Nat :=
  match l.kind with
  | .connlimit => 429
  | .ratelimit => 429
  | .cbreaker => match l.fallback with
    | .dflt => 503
    | .response code => code
    | .redirect _ => 302
  | .roundrobin => 500
  | .rebalancer => 500
  | .buffer => 413
  | .stream => 0
  | .trace => 0

/-- Domain of handler behaviours for which a buffer is transparent: a handler that sends 1xx informational responses also
sets its final status explicitly.  (Outside it the code is NOT transparent, see `C20_info_implicit_final_counterexample`.) -/
def infoDomain (stack : List LayerCfg) (s : Script) : Prop :=
  ¬ hasBuffer stack ∨ s.info = [] ∨ s.status.isSome = true

/-- Domain of handler responses whose body a buffer relays: `bufferWriter.expectBody` holds for them (or they have no body).
Outside it the Buffer *drops the body by design* (`C20_buffer_drops_body_kinds`): 204/304, `Content-Length: 0`, and a
non-empty `Grpc-Status` other than "0". -/
def bodyDomain (stack : List LayerCfg) (s : Script) : Prop :=
  ¬ hasBuffer stack ∨ (scriptResp s).body = [] ∨ expectBody (scriptResp s).status s.headers = true

theorem bodyDomain_keep {stack : List LayerCfg} {s : Script} (h : bodyDomain stack s) :
    ¬ hasBuffer stack ∨ (scriptResp s).body = []
      ∨ (expectBody (scriptResp s).status (scriptResp s).headers = true ∧ (s.status.isSome = false → (scriptResp s).status = 200)) := by
  rcases h with h | h | h
  · exact Or.inl h
  · exact Or.inr (Or.inl h)
  · refine Or.inr (Or.inr ⟨h, ?_⟩)
    intro hn; cases hs : s.status <;> simp_all [scriptResp]

/-- **Transparent.**  If every layer passes, the handler runs exactly once; the client receives the handler's status and
body unchanged and its headers preceded only by the sticky cookies of the balancers in the stack (or, if the handler
hijacked the connection, exactly what it wrote there); a hijack attempt succeeds; the handler's writer can flush through to
the client unless a buffer is in the stack, and without a buffer a requested flush does reach the client. -/
theorem C20_transparent (stack : List LayerCfg) (h : Req → Script) (req : Req)
    (hp : ∀ l ∈ stack, passes l req (h req)) (hdom : infoDomain stack (h req)) (hbody : bodyDomain stack (h req)) :
    (serveStack stack h req).invoked = 1
    ∧ (serveStack stack h req).resp
        = (if (h req).hijack then scriptResp (h req) else decorate stack (scriptResp (h req)))
    ∧ (serveStack stack h req).hijacked = (h req).hijack
    ∧ (∃ c, (serveStack stack h req).seen = some c ∧ c.canHijack = true ∧ (c.canFlush = true ∨ hasBuffer stack))
    ∧ (¬ hasBuffer stack → (serveStack stack h req).flushed = (flushRequested (h req) && !(h req).hijack))
    ∧ (¬ hasBuffer stack → (serveStack stack h req).infos = (if (h req).hijack then [] else (h req).info)) := by
  have hi : ∀ l ∈ stack, intervenes l req = false := fun l hl => (hp l hl).1
  have hs : serveStack stack h req = stack.foldr step (runHandler (h req) (capsThrough stack Caps.real)) := by
    have := serve_append stack [] h req Caps.real hi
    simpa [serveStack, serve] using this
  have hH : (capsThrough stack Caps.real).canHijack = true := by
    rw [capsThrough_canHijack]; rfl
  have hF : ¬ hasBuffer stack → (capsThrough stack Caps.real).canFlush = true := by
    intro hb; rw [capsThrough_canFlush _ _ hb]; rfl
  by_cases hj : (h req).hijack = true
  · -- the handler hijacks: nothing is touched afterwards
    have hr : runHandler (h req) (capsThrough stack Caps.real)
        = ⟨scriptResp (h req), 1, some (capsThrough stack Caps.real), true, false, [], true⟩ := by
      simp [runHandler, hj, hH]
    rw [hs, hr, foldr_post_hijacked _ _ rfl]
    refine ⟨rfl, by simp [hj], by simp [hj], ⟨_, rfl, hH, ?_⟩, by simp [hj], by simp [hj]⟩
    by_cases hb : hasBuffer stack
    · exact Or.inr hb
    · exact Or.inl (hF hb)
  · have hj' : (h req).hijack = false := by simpa using hj
    have hr : runHandler (h req) (capsThrough stack Caps.real)
        = ⟨scriptResp (h req), 1, some (capsThrough stack Caps.real), false,
            flushRequested (h req) && (capsThrough stack Caps.real).canFlush, (h req).info, (h req).status.isSome⟩ := by
      simp [runHandler, hj']
    have hd : (h req).status.isSome = true ∨ (h req).info = [] ∨ ¬ hasBuffer stack := by
      rcases hdom with h1 | h1 | h1
      · exact Or.inr (Or.inr h1)
      · exact Or.inr (Or.inl h1)
      · exact Or.inl h1
    have hone : attemptsThrough stack (scriptResp (h req)).status = 1 :=
      attemptsThrough_one _ _ (fun l hl => (hp l hl).2.2)
    rw [hs, hr, foldr_post_plain _ _ rfl (fun l hl => (hp l hl).2.1) hd (bodyDomain_keep hbody)]
    refine ⟨by simp [hone], by simp [hj'], by simp [hj'], ⟨_, rfl, hH, ?_⟩, ?_, ?_⟩
    · by_cases hb : hasBuffer stack
      · exact Or.inr hb
      · exact Or.inl (hF hb)
    · intro hb; simp [hj', hF hb]
    · intro hb; simp [hj', infosThrough_noBuffer _ _ hb]

/-- What `decorate` can add: status and body are untouched, and the only additional headers are the documented
`Set-Cookie` of the sticky balancers, in stack order, in front of the handler's own headers. -/
theorem C20_decorate_only_cookies (stack : List LayerCfg) (r : Resp) :
    (decorate stack r).status = r.status ∧ (decorate stack r).body = r.body
    ∧ (decorate stack r).headers = stack.flatMap cookieOf ++ r.headers
    ∧ (∀ hd ∈ stack.flatMap cookieOf, hd.1 = "Set-Cookie") := by
  refine ⟨decorate_status _ _, decorate_body _ _, decorate_headers _ _, ?_⟩
  intro hd hm
  obtain ⟨l, _, hl⟩ := List.mem_flatMap.mp hm
  unfold cookieOf at hl
  split at hl <;> simp_all

/-- **Decisive (at a position).**  If `L` intervenes and no layer outside it does (and the outer buffers' response maxima admit
`L`'s short body), the client receives exactly `L`'s documented response — relayed by the outer layers like any handler
response — and the handler is not invoked, whatever lies inside `L`. -/
theorem C20_decisive_at (outer inner : List LayerCfg) (L : LayerCfg) (h : Req → Script) (req : Req)
    (hout : ∀ l ∈ outer, intervenes l req = false ∧ overflows l (interventionResp L).body.length = false)
    (hL : intervenes L req = true)
    (hkeep : ¬ hasBuffer outer ∨ expectBody (interventionResp L).status (interventionResp L).headers = true) :
    serveStack (outer ++ L :: inner) h req = ⟨decorate outer (interventionResp L), 0, none, false, false, [], true⟩ := by
  have hkeep' : ¬ hasBuffer outer ∨ (interventionResp L).body = []
      ∨ (expectBody (interventionResp L).status (interventionResp L).headers = true ∧ (true = false → (interventionResp L).status = 200)) := by
    rcases hkeep with h1 | h1
    · exact Or.inl h1
    · exact Or.inr (Or.inr ⟨h1, by intro hc; cases hc⟩)
  unfold serveStack
  rw [serve_append outer (L :: inner) h req Caps.real (fun l hl => (hout l hl).1)]
  simp only [serve, hL, if_true]
  rw [foldr_post_plain _ _ rfl (fun l hl => (hout l hl).2) (Or.inl rfl) hkeep']
  simp [infosThrough_nil', explicitThrough_true]

/-- **Decisive.**  Any stack containing an intervening layer: the outermost intervening layer answers, the handler is not invoked. -/
theorem C20_decisive (stack : List LayerCfg) (h : Req → Script) (req : Req)
    (hex : ∃ l ∈ stack, intervenes l req = true)
    (hlim : ∀ l ∈ stack, ∀ L ∈ stack, overflows l (interventionResp L).body.length = false)
    (hkeep : ¬ hasBuffer stack ∨ ∀ L ∈ stack, expectBody (interventionResp L).status (interventionResp L).headers = true) :
    ∃ outer L inner, stack = outer ++ L :: inner ∧ (∀ l ∈ outer, intervenes l req = false) ∧ intervenes L req = true
      ∧ serveStack stack h req = ⟨decorate outer (interventionResp L), 0, none, false, false, [], true⟩ := by
  obtain ⟨outer, L, inner, e, ho, hL⟩ := exists_outermost stack req hex
  refine ⟨outer, L, inner, e, ho, hL, ?_⟩
  subst e
  apply C20_decisive_at _ _ _ _ _ _ hL
  · rcases hkeep with hk | hk
    · exact Or.inl (fun ⟨x, hx, e⟩ => hk ⟨x, by simp [hx], e⟩)
    · exact Or.inr (hk L (by simp))
  · intro l hl
    exact ⟨ho l hl, hlim l (by simp [hl]) L (by simp)⟩

/-- **Status table.**  The client status of a decided request is the documented status of the deciding layer; stream and
trace never decide; a rate-limit refusal carries `X-Retry-In`. -/
theorem C20_status_table (outer inner : List LayerCfg) (L : LayerCfg) (h : Req → Script) (req : Req)
    (hout : ∀ l ∈ outer, intervenes l req = false ∧ overflows l (interventionResp L).body.length = false)
    (hL : intervenes L req = true)
    (hkeep : ¬ hasBuffer outer ∨ expectBody (interventionResp L).status (interventionResp L).headers = true) :
    (serveStack (outer ++ L :: inner) h req).resp.status = documentedStatus L
    ∧ L.kind ≠ Kind.stream ∧ L.kind ≠ Kind.trace
    ∧ (L.kind = Kind.ratelimit →
        ("X-Retry-In", goDuration L.periodMs) ∈ (serveStack (outer ++ L :: inner) h req).resp.headers) := by
  rw [C20_decisive_at outer inner L h req hout hL hkeep]
  refine ⟨?_, ?_, ?_, ?_⟩
  · simp only [decorate_status]
    unfold interventionResp documentedStatus
    cases hk : L.kind <;> simp_all [intervenes]
    cases L.fallback <;> rfl
  · intro hk; simp [intervenes, hk] at hL
  · intro hk; simp [intervenes, hk] at hL
  · intro hk
    simp [decorate_headers, interventionResp, hk]

/-- **Response limit of a buffer** (the one intervention that has to run the handler first).  A buffer whose
`MaxResponseBodyBytes` is exceeded by the handler's body answers 500 in place of the handler's response; the handler has
run exactly once. -/
theorem C20_response_limit (outer inner : List LayerCfg) (B : LayerCfg) (h : Req → Script) (req : Req)
    (hout : ∀ l ∈ outer, intervenes l req = false ∧ overflows l internalError.body.length = false)
    (hB : intervenes B req = false) (hov : overflows B (scriptResp (h req)).body.length = true)
    (hin : ∀ l ∈ inner, passes l req (h req)) (hj : (h req).hijack = false)
    (hdom : (h req).info = [] ∨ (h req).status.isSome = true) (hbody : bodyDomain inner (h req)) :
    (serveStack (outer ++ B :: inner) h req).invoked = 1
    ∧ (serveStack (outer ++ B :: inner) h req).resp = decorate outer internalError := by
  have hinner := serve_append inner [] h req (capsThrough (outer ++ [B]) Caps.real) (fun l hl => (hin l hl).1)
  simp only [List.append_nil, serve] at hinner
  have hr : ∀ c, runHandler (h req) c = ⟨scriptResp (h req), 1, some c, false, flushRequested (h req) && c.canFlush,
      (h req).info, (h req).status.isSome⟩ := by
    intro c; simp [runHandler, hj]
  have hd : (h req).status.isSome = true ∨ (h req).info = [] ∨ ¬ hasBuffer inner := by
    rcases hdom with h1 | h1
    · exact Or.inr (Or.inl h1)
    · exact Or.inl h1
  have hone : attemptsThrough inner (scriptResp (h req)).status = 1 :=
    attemptsThrough_one _ _ (fun l hl => (hin l hl).2.2)
  rw [hr, foldr_post_plain _ _ rfl (fun l hl => (hin l hl).2.1) hd (bodyDomain_keep hbody)] at hinner
  simp only [hone, Nat.mul_one] at hinner
  have hB' : serve (B :: inner) h req (capsThrough outer Caps.real)
      = step B (serve inner h req (capsThrough (outer ++ [B]) Caps.real)) := by
    simp [serve, hB, capsThrough, List.foldl_append, step]
  unfold serveStack
  rw [serve_append outer (B :: inner) h req Caps.real (fun l hl => (hout l hl).1), hB', hinner]
  have hpost : ∀ c f i e, step B ⟨decorate inner (scriptResp (h req)), 1, some c, false, f, i, e⟩
      = ⟨internalError, 1, some c, false, f, [], true⟩ := by
    intro c f i e; simp [step, retryMul, retryable, post, decorate_body, hov]
  have hout1 : attemptsThrough outer internalError.status = 1 :=
    attemptsThrough_one _ _ (fun l _ => by simp [internalError, netErr])
  have hk500 : expectBody internalError.status internalError.headers = true := by decide
  rw [hpost, foldr_post_plain _ _ rfl (fun l hl => (hout l hl).2) (Or.inl rfl)
    (Or.inr (Or.inr ⟨hk500, by intro hc; cases hc⟩))]
  exact ⟨by simp [hout1], rfl⟩

/-- **A failed hijack stays a failed hijack.**  Behind a front whose writer cannot be hijacked (a recorder,
`http.TimeoutHandler`, HTTP/2) the handler's attempt fails in every passing stack, and the ordinary response it then writes is
relayed like any other: one invocation, status, headers (plus cookies) and body unchanged. -/
theorem C20_failed_hijack_relayed (front : Caps) (hf : front.canHijack = false)
    (stack : List LayerCfg) (h : Req → Script) (req : Req)
    (hp : ∀ l ∈ stack, passes l req (h req)) (hdom : infoDomain stack (h req)) (hbody : bodyDomain stack (h req)) :
    (serve stack h req front).invoked = 1 ∧ (serve stack h req front).hijacked = false
    ∧ (serve stack h req front).resp = decorate stack (scriptResp (h req)) := by
  have hi : ∀ l ∈ stack, intervenes l req = false := fun l hl => (hp l hl).1
  have hs : serve stack h req front = stack.foldr step (runHandler (h req) (capsThrough stack front)) := by
    have := serve_append stack [] h req front hi
    simpa [serve] using this
  have hH : (capsThrough stack front).canHijack = false := by rw [capsThrough_canHijack]; exact hf
  have hr : runHandler (h req) (capsThrough stack front)
      = ⟨scriptResp (h req), 1, some (capsThrough stack front), false,
          flushRequested (h req) && (capsThrough stack front).canFlush, (h req).info, (h req).status.isSome⟩ := by
    simp [runHandler, hH]
  have hd : (h req).status.isSome = true ∨ (h req).info = [] ∨ ¬ hasBuffer stack := by
    rcases hdom with h1 | h1 | h1
    · exact Or.inr (Or.inr h1)
    · exact Or.inr (Or.inl h1)
    · exact Or.inl h1
  have hone : attemptsThrough stack (scriptResp (h req)).status = 1 :=
    attemptsThrough_one _ _ (fun l hl => (hp l hl).2.2)
  rw [hs, hr, foldr_post_plain _ _ rfl (fun l hl => (hp l hl).2.1) hd (bodyDomain_keep hbody)]
  exact ⟨by simp [hone], rfl, rfl⟩

/-- the code `bufferWriter` holds when this handler returns: its final status, else its last 1xx, else the implicit 200 -/
def scriptCode (s : Script) : Nat :=
  match s.status with
  | some c => c
  | none => match s.info.getLast? with
    | some i => i
    | none => 200

/-- **Which responses lose their body behind a Buffer** (documented Buffer behaviour: `expectBody`, gRPC support).  Exactly
those whose recorded code is 1xx, 204 or 304, that carry `Content-Length: 0`, or a non-empty `Grpc-Status` other than "0" … -/
theorem C20_expectBody_false_iff (c : Nat) (hs : List Header) :
    expectBody c hs = false ↔
      ((100 ≤ c ∧ c < 200) ∨ c = 204 ∨ c = 304 ∨ hget hs "Content-Length" = "0"
        ∨ (hget hs "Grpc-Status" ≠ "" ∧ hget hs "Grpc-Status" ≠ "0")) := by
  unfold expectBody
  simp
  grind

/-- … and for those, and only those, a passing Buffer delivers an empty body instead of the handler's (status and headers are
relayed as usual). -/
theorem C20_buffer_drops_body_kinds (B : LayerCfg) (hB : B.kind = Kind.buffer) (h : Req → Script) (req : Req)
    (hpass : intervenes B req = false) (hov : overflows B (scriptResp (h req)).body.length = false)
    (hnr : (retryBuf B && netErr (scriptResp (h req)).status) = false) (hj : (h req).hijack = false) :
    (serveStack [B] h req).resp.body
      = if expectBody (scriptCode (h req)) (h req).headers then (scriptResp (h req)).body else [] := by
  have hck : cookieOf B = [] := by simp [cookieOf, hB]
  have hrt : retryable B (runHandler (h req) (wrapCaps B.kind Caps.real)) = false := by
    have : (runHandler (h req) (wrapCaps B.kind Caps.real)).resp = scriptResp (h req) := by
      simp [runHandler, hj]
    unfold retryable
    rw [this]
    cases hb : retryBuf B <;> simp_all
  simp only [serveStack, serve, hpass, retryMul, hrt]
  simp only [runHandler, hj, Bool.false_and, Bool.false_eq_true, if_false, post, hov, decorate1, hck, List.nil_append]
  unfold relayHeaderCalls bwCode scriptCode
  simp only [hB]
  cases hs : (h req).status <;> cases hi : (h req).info.getLast? <;> simp [scriptResp, hs] <;> split <;> simp_all

/-- **The stateful retry loop is the stateless one.**  In a stack without rate limiters — the only layers in which a request
leaves something behind — `serveSt` (which re-runs the inner stack in the state the previous attempt left) answers exactly
like `serveStack` on the effective configuration, retries included, and leaves the effective configuration unchanged; so
`C20_retry_documented` and `C20_transparent` apply to every request of a sequence. -/
theorem C20_retry_stateful_link (stack : List LayerCfg) (st : List Nat) (h : Req → Script) (req : Req)
    (hnr : ∀ l ∈ stack, l.kind ≠ Kind.ratelimit) :
    (serveSt stack st h req false Caps.real).1 = Outcome.served (serveStack (effStack stack st) h req)
    ∧ effStack stack (serveSt stack st h req false Caps.real).2 = effStack stack st :=
  serveSt_noRate stack st h req Caps.real hnr

/-- **Known gap in the code (1xx + implicit final status behind a buffer).**  `infoDomain` cannot be dropped from
`C20_transparent`: a handler that calls `WriteHeader(103)` and then writes its body without a final `WriteHeader` loses its
body behind a Buffer (`bufferWriter` keeps code 103, `expectBody` is false) while the bare handler delivers it. -/
theorem C20_info_implicit_final_counterexample :
    (serveStack [{ kind := .buffer }] (fun _ => ⟨none, [], [[104, 105]], 0, false, [103], false⟩) ⟨0⟩).resp.body = []
    ∧ (serveStack [] (fun _ => ⟨none, [], [[104, 105]], 0, false, [103], false⟩) ⟨0⟩).resp.body = [104, 105] := by
  decide

/-- **An aborted request leaves nothing behind.**  One stack instance in any admission state (`connections` in flight per
connection limiter, tokens left per rate limiter) in which every layer passes: a handler that ends with
`panic(http.ErrAbortHandler)` has run exactly once, and the next request — any request, any handler behaviour — is then served
exactly as the stateless stack in the state *before* the aborted request serves it (every connection slot is back; a rate
limiter that had at least two tokens still passes).  With `C20_transparent` on `effStack sl` this is full transparency of the
later request. -/
theorem C20_abort_restores (stack : List LayerCfg) (st : List Nat) (h : Req → Script) (req req2 : Req)
    (hp : ∀ l ∈ effStack stack st, intervenes l req = false)
    (hb : ample stack st) (hnr : ∀ l ∈ stack, retryBuf l = false) :
    (serveSt stack st h req true Caps.real).1 = Outcome.aborted 1
    ∧ (serveSt stack (serveSt stack st h req true Caps.real).2 h req2 false Caps.real).1
        = Outcome.served (serveStack (effStack stack st) h req2) := by
  rw [serveSt_aborted stack st h req Caps.real hp]
  refine ⟨rfl, ?_⟩
  rw [serveSt_served _ _ _ _ _ hnr, effStack_after stack st hb]
  rfl

/-- the connection slots really are what is at stake: the state after the aborted request is the state before it,
except for the rate tokens spent (`stateAfter`: `leave (enter n)` per layer, i.e. `n+1-1` for a connection limiter) -/
theorem C20_abort_state (stack : List LayerCfg) (st : List Nat) (h : Req → Script) (req : Req)
    (hp : ∀ l ∈ effStack stack st, intervenes l req = false) :
    (serveSt stack st h req true Caps.real).2 = stateAfter stack st
    ∧ ∀ (l : LayerCfg) (n : Nat), leave l.kind (enter l.kind n) = if l.kind = Kind.ratelimit then n - 1 else n := by
  rw [serveSt_aborted stack st h req Caps.real hp]
  refine ⟨rfl, ?_⟩
  intro l n
  cases hk : l.kind <;> simp [enter, leave]

/-- **The documented retry, and nothing beyond it.**  A handler that answers 502 or 504 behind buffers configured with
`Retry("IsNetworkError() && Attempts() <= 2")`: each such buffer runs its inner stack three times (attempts 1 and 2 are retried,
the third is relayed), so the handler runs `3 ^ (number of retrying buffers)` times, and the response of the last attempt is
relayed unchanged.  Every other status — 503 included — falls under `C20_transparent`: exactly one invocation. -/
theorem C20_retry_documented (stack : List LayerCfg) (h : Req → Script) (req : Req)
    (hp : ∀ l ∈ stack, intervenes l req = false ∧ overflows l (scriptResp (h req)).body.length = false)
    (hdom : infoDomain stack (h req)) (hbody : bodyDomain stack (h req)) (hj : (h req).hijack = false)
    (hst : netErr (scriptResp (h req)).status = true) :
    (serveStack stack h req).invoked = 3 ^ stack.countP retryBuf
    ∧ (serveStack stack h req).resp = decorate stack (scriptResp (h req)) := by
  have hi : ∀ l ∈ stack, intervenes l req = false := fun l hl => (hp l hl).1
  have hs : serveStack stack h req = stack.foldr step (runHandler (h req) (capsThrough stack Caps.real)) := by
    have := serve_append stack [] h req Caps.real hi
    simpa [serveStack, serve] using this
  have hr : runHandler (h req) (capsThrough stack Caps.real)
      = ⟨scriptResp (h req), 1, some (capsThrough stack Caps.real), false,
          flushRequested (h req) && (capsThrough stack Caps.real).canFlush, (h req).info, (h req).status.isSome⟩ := by
    simp [runHandler, hj]
  have hd : (h req).status.isSome = true ∨ (h req).info = [] ∨ ¬ hasBuffer stack := by
    rcases hdom with h1 | h1 | h1
    · exact Or.inr (Or.inr h1)
    · exact Or.inr (Or.inl h1)
    · exact Or.inl h1
  rw [hs, hr, foldr_post_plain _ _ rfl (fun l hl => (hp l hl).2) hd (bodyDomain_keep hbody)]
  exact ⟨by simp [attemptsThrough_pow _ _ hst], rfl⟩

/-! ## Non-vacuity: depth-4 stacks -/

private def h1 : Req → Script := fun r =>
  ⟨some 201, [("Content-Type", "text/verif"), ("X-Req-Len", toString r.bodyLen)], [[1, 2, 3], [4, 5]], 1, false, [103], false⟩
private def h2 : Req → Script := fun _ => ⟨none, [("Content-Type", "text/verif")], [[9]], 0, true, [], true⟩

private def sPass : List LayerCfg :=
  [{ kind := .trace }, { kind := .connlimit }, { kind := .rebalancer, sticky := some "sk2" }, { kind := .cbreaker }]
private def sBuf : List LayerCfg :=
  [{ kind := .roundrobin, sticky := some "sk0" }, { kind := .buffer, maxReq := 16, maxResp := 100 }, { kind := .trace }, { kind := .ratelimit }]
private def sDec : List LayerCfg :=
  [{ kind := .rebalancer, sticky := some "sk0" }, { kind := .buffer, maxResp := 64 }, { kind := .ratelimit, tripped := true },
   { kind := .cbreaker, tripped := true }]

/-- the hypotheses of `C20_transparent` hold on concrete depth-4 stacks (with and without a buffer) … -/
example : (∀ l ∈ sPass, passes l ⟨7⟩ (h1 ⟨7⟩)) ∧ (h1 ⟨7⟩).status.isSome = true := by decide
example : (∀ l ∈ sBuf, passes l ⟨16⟩ (h1 ⟨16⟩)) ∧ (h1 ⟨16⟩).status.isSome = true
    ∧ expectBody (scriptResp (h1 ⟨16⟩)).status (h1 ⟨16⟩).headers = true := by decide
/-- `bodyDomain` cannot be dropped: a 200 with `Grpc-Status: 5` keeps its body through trace but loses it behind a Buffer -/
private def hGrpc : Req → Script := fun _ =>
  ⟨some 200, [("Content-Type", "application/grpc"), ("Grpc-Status", "5")], [[7, 8]], 0, false, [], false⟩
example : (serveStack [{ kind := .trace }] hGrpc ⟨0⟩).resp.body = [7, 8]
    ∧ (serveStack [{ kind := .trace }, { kind := .buffer }] hGrpc ⟨0⟩).resp.body = []
    ∧ (serveStack [{ kind := .trace }, { kind := .buffer }] hGrpc ⟨0⟩).resp.status = 200
    ∧ (∀ l ∈ [({ kind := .trace } : LayerCfg), { kind := .buffer }], passes l ⟨0⟩ (hGrpc ⟨0⟩)) := by decide
/-- … and the conclusions are the non-trivial ones: one invocation, cookie added, flush delivered / not under a buffer, hijack works -/
example : (serveStack sPass h1 ⟨7⟩).invoked = 1 ∧ (serveStack sPass h1 ⟨7⟩).resp.status = 201
    ∧ (serveStack sPass h1 ⟨7⟩).resp.body = [1, 2, 3, 4, 5] ∧ (serveStack sPass h1 ⟨7⟩).flushed = true
    ∧ (serveStack sPass h1 ⟨7⟩).resp.headers.length = 3 ∧ (serveStack sPass h1 ⟨7⟩).infos = [103] := by decide
example : (serveStack sBuf h1 ⟨16⟩).invoked = 1 ∧ (serveStack sBuf h1 ⟨16⟩).flushed = false
    ∧ (serveStack sBuf h1 ⟨16⟩).seen = some ⟨true, false, true, true⟩ ∧ (serveStack sBuf h1 ⟨16⟩).infos = [] := by decide
example : (serveStack sBuf h2 ⟨0⟩).hijacked = true ∧ (serveStack sBuf h2 ⟨0⟩).resp = scriptResp (h2 ⟨0⟩) := by decide
/-- `C20_decisive`: two tripped layers, the outer one (rate limiter) answers through a buffer and a sticky rebalancer -/
example : (∃ l ∈ sDec, intervenes l ⟨0⟩ = true)
    ∧ (∀ l ∈ sDec, ∀ L ∈ sDec, overflows l (interventionResp L).body.length = false) := by decide
example : (serveStack sDec h1 ⟨0⟩).invoked = 0 ∧ (serveStack sDec h1 ⟨0⟩).resp.status = 429
    ∧ (serveStack sDec h1 ⟨0⟩).resp.headers.length = 4 := by decide
/-- request over the buffer's `MaxRequestBodyBytes` → 413, handler not invoked; response over `MaxResponseBodyBytes` → 500, invoked once -/
example : (serveStack sBuf h1 ⟨17⟩).resp.status = 413 ∧ (serveStack sBuf h1 ⟨17⟩).invoked = 0 := by decide
example : (serveStack [{ kind := .stream }, { kind := .buffer, maxResp := 4 }, { kind := .trace }, { kind := .connlimit }] h1 ⟨0⟩).resp.status = 500
    ∧ (serveStack [{ kind := .stream }, { kind := .buffer, maxResp := 4 }, { kind := .trace }, { kind := .connlimit }] h1 ⟨0⟩).invoked = 1 := by decide

/-- `C20_abort_restores`: connection limiter of 1 with nothing in flight, rate limiter with 2 tokens, behind a buffer and a breaker -/
private def stA : List LayerCfg :=
  [{ kind := .buffer, maxReq := 16 }, { kind := .connlimit, limit := 1 }, { kind := .cbreaker }, { kind := .ratelimit }]
example : (∀ l ∈ effStack stA [0, 0, 0, 2], intervenes l ⟨3⟩ = false) ∧ ample stA [0, 0, 0, 2]
    ∧ (∀ l ∈ stA, retryBuf l = false) := by
  refine ⟨by decide, ?_, by decide⟩
  simp [ample, stA, hd0]
example : (serveSt stA [0, 0, 0, 2] h1 ⟨3⟩ true Caps.real).1 = Outcome.aborted 1
    ∧ (serveSt stA [0, 0, 0, 2] h1 ⟨3⟩ true Caps.real).2 = [0, 0, 0, 1] := by decide
/-- … and the hypotheses matter: with the slot still taken (state 1 of limit 1) the same stack refuses -/
example : (serveSt [{ kind := .connlimit, limit := 1 }] [1] h1 ⟨0⟩ false Caps.real).1
    = Outcome.served ⟨interventionResp { kind := .connlimit, limit := 1, tripped := true }, 0, none, false, false, [], true⟩ := by decide
/-- `C20_retry_documented`: 504 behind one retrying buffer in a depth-4 stack: three runs; 503: one run; the stateful loop agrees -/
private def h504 : Req → Script := fun _ => ⟨some 504, [("Content-Type", "text/verif")], [[1]], 0, false, [], false⟩
private def h503 : Req → Script := fun _ => ⟨some 503, [("Content-Type", "text/verif")], [[1]], 0, false, [], false⟩
private def sRetry : List LayerCfg :=
  [{ kind := .trace }, { kind := .buffer, retry := true }, { kind := .ratelimit }, { kind := .rebalancer }]
example : (serveStack sRetry h504 ⟨0⟩).invoked = 3 ∧ (serveStack sRetry h504 ⟨0⟩).resp.status = 504
    ∧ (serveStack sRetry h503 ⟨0⟩).invoked = 1 ∧ (∀ l ∈ sRetry, passes l ⟨0⟩ (h503 ⟨0⟩)) := by decide
example : (serveSt sRetry [0, 0, 9, 0] h504 ⟨0⟩ false Caps.real).1 = Outcome.served (serveStack sRetry h504 ⟨0⟩)
    ∧ (serveSt sRetry [0, 0, 9, 0] h504 ⟨0⟩ false Caps.real).2 = [0, 0, 6, 0] := by decide

/-! ## Link theorems: the stack's abstraction of a layer is what the layer's own model decides

`Stack.eff` / `LayerCfg.tripped` / `LayerCfg.maxReq` reduce every deciding layer to one number or flag.  The theorems below
show, for the **actual** per-layer models (the objects of the C04, C03/C13, C05, C01/C02 and C15 theorems), that an
abstraction function from the states of that model to that number / flag commutes with the model's steps: the model refuses
exactly when `Stack.intervenes` says so, an admission moves the abstract state as `Stack.enter`, every exit as `Stack.leave`.
So the hypotheses `intervenes … = false/true` of `C20_transparent` / `C20_decisive` are *decisions of the per-layer models*
(`C20_link_decision`, `C20_transparent_composed`, `C20_decisive_composed`), not assumptions. -/

section link
open StackLink

/-- **connlimit.**  Abstraction `connAbs s src` = number of requests of `src` inside the protected handler.  After *every*
history `h` of unit-amount events (the built-in extractors, C19; arrivals, exits of both kinds, protocol misuse, rejections in
progress, any number of sources) on a limiter with limit `m`, and for a connlimit layer with `limit := m`:
1. the table entry `connections[src]` is that number (the C04 invariant);
2. `acquire` refuses iff `Stack.intervenes (Stack.eff l n)`;
3. an arrival with an unused id: admitted when the stack passes, and the number becomes `Stack.enter .connlimit n`; turned away
   (429 at once, or parked in a slow error handler) when the stack intervenes, and nothing changes;
4. a request of `src` leaving the handler — by return **or** by panic — makes it `Stack.leave .connlimit n`;
5. exits and arrivals of other sources leave it alone. -/
theorem C20_link_connlimit (m : Nat) (slow : Bool) (h : List ConnLimit.Event) (h1 : ConnLimit.amountsOne h = true)
    (src : String) (l : LayerCfg) (hk : l.kind = Kind.connlimit) (hl : l.limit = m) (req : Req) :
    let s := ConnLimit.runR (ConnLimit.SysR.init (m : Int) slow) h
    let n := connAbs s src
    ConnLimit.get s.base.st.conns src = (n : Int)
    ∧ (ConnLimit.acquire s.base.st src 1 s.base.max).isNone = intervenes (eff l n) req
    ∧ (∀ id, ConnLimit.findReq s.base.inflight id = none → ConnLimit.findRej s.rejecting id = none →
        (intervenes (eff l n) req = false →
          (ConnLimit.stepR s (.start id src 1)).2 = .base .admitted
          ∧ connAbs (ConnLimit.stepR s (.start id src 1)).1 src = enter Kind.connlimit n) ∧
        (intervenes (eff l n) req = true →
          ((ConnLimit.stepR s (.start id src 1)).2 = .base .rejected ∨ (ConnLimit.stepR s (.start id src 1)).2 = .rejecting)
          ∧ connAbs (ConnLimit.stepR s (.start id src 1)).1 src = n))
    ∧ (∀ id r how, ConnLimit.findReq s.base.inflight id = some r → ConnLimit.findRej s.rejecting id = none →
        (ConnLimit.stepR s (.finish id how)).2 = .base .released
        ∧ (r.src = src → connAbs (ConnLimit.stepR s (.finish id how)).1 src = leave Kind.connlimit n)
        ∧ (r.src ≠ src → connAbs (ConnLimit.stepR s (.finish id how)).1 src = n))
    ∧ (∀ id src' a, src' ≠ src → connAbs (ConnLimit.stepR s (.start id src' a)).1 src = n) := by
  intro s n
  have hu : ConnLimit.Unit1 s.base :=
    ConnLimit.Unit1.after_runR (s := ConnLimit.SysR.init (m : Int) slow) (ConnLimit.Unit1.init _) h (ConnLimit.amountsOne_spec h1)
  have hmax : (l.limit : Int) = s.base.max := by
    rw [hl]; exact (ConnLimit.runR_max (ConnLimit.SysR.init (m : Int) slow) h).symm
  have hdec := conn_decision hu src l hk hmax req
  refine ⟨hu.get_eq_count src, hdec, ?_, ?_, ?_⟩
  · intro id hf hr
    obtain ⟨ha, hrj⟩ := conn_start s id src hf hr
    constructor
    · intro hi
      have hacq : ConnLimit.acquire s.base.st src 1 s.base.max ≠ none := by
        intro hq; rw [hq] at hdec; rw [← hdec] at hi; simp at hi
      exact ha hacq
    · intro hi
      have hacq : ConnLimit.acquire s.base.st src 1 s.base.max = none := by
        rw [← hdec] at hi; simpa using hi
      refine ⟨(hrj hacq).1, ?_⟩
      show connAbs _ src = connAbs s src
      unfold connAbs; rw [(hrj hacq).2]
  · intro id r how hf hr
    obtain ⟨ho, hc⟩ := conn_finish s id r how hf hr src
    refine ⟨ho, ?_, ?_⟩
    · intro he
      simp only [he, if_true] at hc
      show _ = n - 1
      show connAbs _ src = connAbs s src - 1
      omega
    · intro he
      simp only [he, if_false] at hc
      exact hc
  · intro id src' a hne
    exact conn_start_other s id src' src a hne

/-- **ratelimit.**  Abstraction `rateAbs l t src` = tokens left for `src` at the instant `t`: over the bucket set `consumeRates`
would work on (the tracked set, or a new full one at first contact / after expiry), the smallest bucket after the refill that
`consume` starts with.  (For the single-rate limiters of the C20 harness this is `availableTokens` of the one bucket:
`StackLink.minAvail_single`; the statement holds for any non-empty set of valid rates.)  For every limiter state satisfying the
reachability invariant of C13 (`C13_reachable`) at `t0 ≤ t`, a request of amount 1 at the frozen instant `t`:
1. is refused with 429 iff `Stack.intervenes (Stack.eff l n)`, i.e. iff no token is left, and admitted otherwise (never 500);
2. an admission takes one token: `Stack.enter .ratelimit n`, at the same instant;
3. a refusal takes nothing (C13's no-debit);
4. nothing is given back on exit: `Stack.leave .ratelimit = id`;
5. the invariant holds again afterwards (so 1–4 apply to the next request at `t`), and requests of other sources that do not
   evict `src`'s entry leave `src`'s tokens alone. -/
theorem C20_link_ratelimit (rates : List RL.Rate) (hv : RL.ValidRates rates) (hne : rates ≠ []) (lim : RL.Limiter) (t0 t : Nat)
    (hinv : RL.LimiterInv rates lim t0) (ht : t0 ≤ t) (src victim : String)
    (l : LayerCfg) (hk : l.kind = Kind.ratelimit) (req : Req) :
    let n := rateAbs lim t src
    let r := lim.serve t src 1 [] victim
    ((∃ d, r.2 = .tooMany d) ↔ intervenes (eff l n) req = true)
    ∧ (r.2 = .ok ↔ intervenes (eff l n) req = false)
    ∧ (r.2 = .ok → rateAbs r.1 t src = enter Kind.ratelimit n)
    ∧ (r.2 ≠ .ok → rateAbs r.1 t src = n)
    ∧ (∀ k, leave Kind.ratelimit k = k)
    ∧ RL.LimiterInv rates r.1 t
    ∧ (∀ s' a v, src ≠ s' → (lim.evictsAt t s' = true → v ≠ src) → rateAbs (lim.serve t s' a [] v).1 t src = n) := by
  intro n r
  obtain ⟨c1, c2, c3, c4⟩ := rate_serve rates hv hne lim t0 t hinv ht src victim
  rw [intervenes_rate l hk]
  refine ⟨?_, ?_, c3, c4, fun _ => rfl, RL.inv_serve rates hv lim t0 t hinv ht src 1 victim, ?_⟩
  · rw [c2]; simp [n]
  · rw [c1]; simp [n]
  · intro s' a v hs hvict
    exact rate_serve_other lim t src s' a v hs hvict

/-- **cbreaker.**  The flag of a cbreaker layer is `brkFlag b now = (state = tripped ∧ now < until)` of the breaker model.  In the
states of the C20 harness (`brkSettled`: standby, or tripped with the fallback period running) `CB.arrive` (`activateFallback`)
answers with the fallback exactly when `Stack.intervenes` says so, passes exactly in standby (`C05_standby_passes`), and does
not change the breaker — `Stack.enter .cbreaker = Stack.leave .cbreaker = id`.  A `record`, and a `check` / `complete` that does
not trip the breaker, keep the flag at every instant: it changes only when the breaker's own condition fires (C18) or the
fallback period ends (C05).

**Outside this link:** the recovery ramp.  In state `recovering` admission is the ratio test of C12; and in state `tripped`
with the deadline reached the arrival that starts the ramp is itself answered by the fallback (last clause: `allowRequest` at
elapsed time 0 denies) although `now < until` is false — "tripped and `now < until`" describes the fallback answers only within
`brkSettled`.  The C20 harness never reaches those states (default `FallbackDuration` 10 s, requests follow at once). -/
theorem C20_link_breaker (c : CB.Cfg) (b : CB.Brk) (now : Nat) (l : LayerCfg) (hk : l.kind = Kind.cbreaker) (req : Req)
    (hdom : brkSettled b now) :
    ((CB.arrive c b now).1 = .fallback ↔ intervenes { l with tripped := brkFlag b now } req = true)
    ∧ ((CB.arrive c b now).1 = .pass ↔ b.state = .standby)
    ∧ (CB.arrive c b now).2 = b
    ∧ (∀ k, enter Kind.cbreaker k = k ∧ leave Kind.cbreaker k = k)
    ∧ (∀ t code at', brkFlag (CB.record b t code) at' = brkFlag b at')
    ∧ (∀ t orc at', (CB.checkAndSet c b t orc).2 = false → brkFlag (CB.checkAndSet c b t orc).1 at' = brkFlag b at')
    ∧ (∀ t code orc at', (CB.complete c b t code orc).2 = false → brkFlag (CB.complete c b t code orc).1 at' = brkFlag b at')
    ∧ (∀ b' : CB.Brk, b'.state = .tripped → b'.until_ ≤ now →
        (CB.arrive c b' now).1 = .fallback ∧ brkFlag b' now = false ∧ (CB.arrive c b' now).2.state = .recovering) := by
  have hint : intervenes { l with tripped := brkFlag b now } req = brkFlag b now := by
    simp [intervenes, hk]
  rw [hint]
  -- standby: `C05_standby_passes`, read on `arrive`
  have hstand : b.state = .standby → CB.arrive c b now = (.pass, b) := by
    intro hs
    have h5 := C05.C05_standby_passes c b now hs
    have h2 : (CB.arrive c b now).2 = b := congrArg Prod.fst h5
    have h1 : (CB.arrive c b now).1 = .pass := by
      have h3 : (match (CB.arrive c b now).1 with | .pass => CB.Obs.pass | .fallback => CB.Obs.fallback) = CB.Obs.pass :=
        congrArg Prod.snd h5
      cases hh : (CB.arrive c b now).1 with
      | pass => rfl
      | fallback => rw [hh] at h3; cases h3
    exact Prod.ext h1 h2
  refine ⟨?_, ?_, ?_, fun _ => ⟨rfl, rfl⟩, ?_, ?_, ?_, ?_⟩
  · rcases hdom with hs | ⟨hs, hlt⟩
    · rw [hstand hs]; simp [brkFlag, hs]
    · rw [CB.arrive_tripped_before c b now hs hlt]; simp [brkFlag, hs, hlt]
  · rcases hdom with hs | ⟨hs, hlt⟩
    · rw [hstand hs]; simp [hs]
    · rw [CB.arrive_tripped_before c b now hs hlt]; simp [hs]
  · rcases hdom with hs | ⟨hs, hlt⟩
    · rw [hstand hs]
    · rw [CB.arrive_tripped_before c b now hs hlt]
  · intro t code at'
    obtain ⟨h1, h2, _⟩ := CB.record_fields b t code
    exact brkFlag_eq_of_fields h1 h2 at'
  · intro t orc at' hf
    obtain ⟨h1, h2, _⟩ := CB.check_false c b t orc hf
    exact brkFlag_eq_of_fields h1 h2 at'
  · intro t code orc at' hf
    obtain ⟨h1, h2, _⟩ := CB.complete_false c b t code orc hf
    exact brkFlag_eq_of_fields h1 h2 at'
  · intro b' hs hge
    rw [CB.arrive_tripped_after c b' now hs hge]
    refine ⟨rfl, ?_, rfl⟩
    simp [brkFlag, hs]; omega

/-- **roundrobin / rebalancer.**  The flag of a balancer layer is `balFlag ws` = "no member of positive weight" of the
round-robin model — the empty pool (`ErrNoServers`, the harness's configuration) and also a pool whose weights are all zero.
`RR.next` (`nextServer`) after any number `j` of calls since the pool last changed answers with one of its two errors — the
error `ServeHTTP` hands to the error handler: `Stack`'s 500 — exactly when `Stack.intervenes` says so, leaving the iterator
untouched (`C01_empty_error`, `C01_all_zero_error`); otherwise it selects an existing member of positive weight
(`C01_selects_positive`), never runs out of fuel; the routing part of `ServeHTTP` (`PoolM.Bal.route`, the object of C02) on a
request without sticky cookie hands exactly that error to the error handler, resp. forwards; and in no case do the weights
change: the flag is stable,
`Stack.enter = Stack.leave = id`.  So "some member has positive weight" is the non-intervening configuration.  (A request
carrying a valid sticky cookie is routed without `NextServer`, C02/C11; the stack model's requests carry none.) -/
theorem C20_link_balancer (ws : List Nat) (j : Nat) (l : LayerCfg)
    (hk : l.kind = Kind.roundrobin ∨ l.kind = Kind.rebalancer) (req : Req) :
    let s := RR.after ws j RR.It.reset
    let r := RR.next ws s
    ((r.1 = .errNoServers ∨ r.1 = .errAllZero) ↔ intervenes { l with tripped := balFlag ws } req = true)
    ∧ (ws = [] → r = (.errNoServers, s))
    ∧ (intervenes { l with tripped := balFlag ws } req = true → r.2 = s)
    ∧ (intervenes { l with tripped := balFlag ws } req = false → ∃ i, r.1 = .sel i ∧ i < ws.length ∧ 0 < ws.getD i 0)
    ∧ (∀ (b : PoolM.Bal) (sticky : Bool), b.ws = ws → b.it = s →
        (intervenes { l with tripped := balFlag ws } req = true → ∃ b', b.route sticky none = (.err r.1, b')) ∧
        (intervenes { l with tripped := balFlag ws } req = false → ∃ ref b', b.route sticky none = (.fwd ref false, b')))
    ∧ (∀ {κ : Type} (p : RR.Pool κ), p.nextServer.2.ws = p.ws ∧ p.nextServer.2.keys = p.keys)
    ∧ (∀ k, enter l.kind k = k ∧ leave l.kind k = k) := by
  intro s r
  have hint : intervenes { l with tripped := balFlag ws } req = balFlag ws := by
    rcases hk with hk | hk <;> simp [intervenes, hk]
  rw [hint]
  have hpos : balFlag ws = false → ∃ i, r.1 = .sel i ∧ i < ws.length ∧ 0 < ws.getD i 0 := by
    intro hf
    have hex := (balFlag_false_iff ws).mp hf
    exact C01.C01_selects_positive ws hex j 1 r.1 (by simp [RR.run, r, s])
  have herr : balFlag ws = true → r = (if ws = [] then .errNoServers else .errAllZero, s) := by
    intro ht
    by_cases he : ws = []
    · subst he; simp only [if_true]; exact C01.C01_empty_error s
    · simp only [he, if_false]
      exact C01.C01_all_zero_error ws he ((balFlag_true_iff ws).mp ht) s
  refine ⟨?_, ?_, ?_, hpos, ?_, fun p => ⟨rfl, rfl⟩, ?_⟩
  · constructor
    · intro he
      by_contra hc
      obtain ⟨i, hi, _⟩ := hpos (by simpa using hc)
      rw [hi] at he; simp at he
    · intro ht
      rw [herr ht]
      by_cases he : ws = [] <;> simp [he]
  · intro he; subst he; exact C01.C01_empty_error s
  · intro ht; rw [herr ht]
  · intro b sticky hws hit
    obtain ⟨hsel, hno⟩ := route_nocookie b sticky
    rw [hws, hit] at hsel hno
    constructor
    · intro ht
      apply hno
      intro i hi
      have := herr ht
      rw [show RR.next ws s = r from rfl] at hi
      rw [this] at hi
      by_cases he : ws = [] <;> simp [he] at hi
    · intro hf
      obtain ⟨i, hi, _⟩ := hpos hf
      exact hsel i hi
  · intro k
    rcases hk with hk | hk <;> rw [hk] <;> exact ⟨rfl, rfl⟩

/-- **buffer.**  For every configuration of the Buffer model (`maxReq ≤ 0`: no limit — the default `-1`, or `0`) and every
request (declared length or chunked), with the stack layer's `maxReq := cfg.maxReq.toNat` and `bodyLen :=` the length of the
body: when `Stack.intervenes` the Buffer model answers 413 with the fixed text — the status and bytes of
`Stack.interventionResp` — without invoking the handler (`C15_request_over_limit_413_no_invoke`); otherwise the request reaches
the handler (`C15_within_limit_reaches_handler`). -/
theorem C20_link_buffer (cfg : Buf.Cfg) (breq : Buf.Req) (script : Nat → Buf.Attempt) (l : LayerCfg)
    (hk : l.kind = Kind.buffer) :
    let l' : LayerCfg := { l with maxReq := cfg.maxReq.toNat }
    (Buf.requestOver cfg breq ↔ intervenes l' ⟨breq.body.length⟩ = true)
    ∧ (intervenes l' ⟨breq.body.length⟩ = true →
        (Buf.serve cfg breq script).invocations = 0
        ∧ (Buf.serve cfg breq script).resp.status = some (interventionResp l').status
        ∧ (Buf.serve cfg breq script).resp.body.map UInt8.toNat = (interventionResp l').body
        ∧ (Buf.serve cfg breq script).hijacked = false)
    ∧ (intervenes l' ⟨breq.body.length⟩ = false → 1 ≤ (Buf.serve cfg breq script).invocations) := by
  intro l'
  have hiff : Buf.requestOver cfg breq ↔ intervenes l' ⟨breq.body.length⟩ = true := by
    simp only [Buf.requestOver, intervenes, l', hk, Bool.and_eq_true, decide_eq_true_eq]
    omega
  refine ⟨hiff, ?_, ?_⟩
  · intro hi
    obtain ⟨h1, h2, h3, h4⟩ := C15.C15_request_over_limit_413_no_invoke cfg breq script (hiff.mpr hi)
    refine ⟨h1, ?_, ?_, h4⟩
    · rw [h2]; simp [interventionResp, l', hk]
    · rw [h3]; simp only [interventionResp, l', hk]; decide
  · intro hi
    exact C15.C15_within_limit_reaches_handler cfg breq script (by rw [hiff, hi]; simp)

/-- **The decision of every layer, at once.**  For a layer given by the state of its own model (`StackLink.Layer`:
connection limiter after a history, rate limiter state at a frozen instant, breaker state, pool weights, buffer configuration)
the model hands the request on (`Layer.admits`: `acquire` succeeds, `consumeRates` succeeds, `activateFallback` passes,
`NextServer` selects, the request is within `MaxRequestBodyBytes`) iff the stack model's abstraction of that layer
(`Layer.cfg`) does not intervene. -/
theorem C20_link_decision (m : Layer) (req : Req) (hok : m.ok req) :
    m.admits ↔ intervenes m.cfg req = false := by
  cases m with
  | plain l =>
    simp only [Layer.admits, Layer.cfg, true_iff]
    rcases hok with hk | hk <;> simp [intervenes, hk]
  | conn l slow hist src =>
    obtain ⟨hk, h1⟩ := hok
    obtain ⟨_, hdec, _⟩ := C20_link_connlimit l.limit slow hist h1 src l hk rfl req
    simp only [Layer.admits, Layer.cfg, connState]
    rw [← hdec]
    cases ConnLimit.acquire _ src 1 _ <;> simp
  | rate l rates lim t0 t src victim =>
    obtain ⟨hk, hv, hne, hinv, ht⟩ := hok
    exact (C20_link_ratelimit rates hv hne lim t0 t hinv ht src victim l hk req).2.1
  | brk l c b now =>
    obtain ⟨hk, hdom⟩ := hok
    obtain ⟨h1, _⟩ := C20_link_breaker c b now l hk req hdom
    simp only [Layer.admits, Layer.cfg]
    rw [← Bool.not_eq_true, ← h1]
    cases (CB.arrive c b now).1 <;> simp
  | bal l ws j =>
    obtain ⟨h1, _, _, h4, _⟩ := C20_link_balancer ws j l hok req
    simp only [Layer.admits, Layer.cfg]
    constructor
    · rintro ⟨i, hi⟩
      rw [← Bool.not_eq_true, ← h1, hi]; simp
    · intro hf
      obtain ⟨i, hi, _⟩ := h4 hf
      exact ⟨i, hi⟩
  | buf l cfg breq =>
    obtain ⟨hk, hlen⟩ := hok
    obtain ⟨h1, _⟩ := C20_link_buffer cfg breq (fun _ => {}) l hk
    simp only [Layer.admits, Layer.cfg]
    rw [h1, hlen]; simp

/-- **Transparent, composed with the per-layer models.**  A stack whose layers are given by the states of their own models, all
well-formed, **none of whose models refuses the request**: the conclusion of `C20_transparent` holds for the stack model's
abstraction of it.  (The remaining hypotheses are about the handler's *response* — within the buffers' response maxima, no
retry predicate looking at a 502/504, `infoDomain`, `bodyDomain` — exactly as in `C20_transparent`.) -/
theorem C20_transparent_composed (ms : List Layer) (h : Req → Script) (req : Req)
    (hok : ∀ m ∈ ms, m.ok req) (hadm : ∀ m ∈ ms, m.admits)
    (hresp : ∀ m ∈ ms, overflows m.cfg (scriptResp (h req)).body.length = false
      ∧ (retryBuf m.cfg && netErr (scriptResp (h req)).status) = false)
    (hdom : infoDomain (ms.map Layer.cfg) (h req)) (hbody : bodyDomain (ms.map Layer.cfg) (h req)) :
    (serveStack (ms.map Layer.cfg) h req).invoked = 1
    ∧ (serveStack (ms.map Layer.cfg) h req).resp
        = (if (h req).hijack then scriptResp (h req) else decorate (ms.map Layer.cfg) (scriptResp (h req)))
    ∧ (serveStack (ms.map Layer.cfg) h req).hijacked = (h req).hijack
    ∧ (∃ c, (serveStack (ms.map Layer.cfg) h req).seen = some c ∧ c.canHijack = true
        ∧ (c.canFlush = true ∨ hasBuffer (ms.map Layer.cfg)))
    ∧ (¬ hasBuffer (ms.map Layer.cfg) →
        (serveStack (ms.map Layer.cfg) h req).flushed = (flushRequested (h req) && !(h req).hijack))
    ∧ (¬ hasBuffer (ms.map Layer.cfg) →
        (serveStack (ms.map Layer.cfg) h req).infos = (if (h req).hijack then [] else (h req).info)) := by
  apply C20_transparent _ h req _ hdom hbody
  intro lc hlc
  obtain ⟨m, hm, rfl⟩ := List.mem_map.mp hlc
  exact ⟨(C20_link_decision m req (hok m hm)).mp (hadm m hm), (hresp m hm).1, (hresp m hm).2⟩

/-- **Decisive, composed with the per-layer models.**  If the model of the layer `M` refuses the request and the models of all
layers outside it hand it on, the client receives `M`'s documented response and the handler is not invoked (whatever the layers
inside `M` are). -/
theorem C20_decisive_composed (outer : List Layer) (M : Layer) (inner : List LayerCfg) (h : Req → Script) (req : Req)
    (hok : ∀ m ∈ outer, m.ok req) (hadm : ∀ m ∈ outer, m.admits) (hokM : M.ok req) (hrefuse : ¬ M.admits)
    (hlim : ∀ m ∈ outer, overflows m.cfg (interventionResp M.cfg).body.length = false)
    (hkeep : ¬ hasBuffer (outer.map Layer.cfg) ∨ expectBody (interventionResp M.cfg).status (interventionResp M.cfg).headers = true) :
    serveStack (outer.map Layer.cfg ++ M.cfg :: inner) h req
      = ⟨decorate (outer.map Layer.cfg) (interventionResp M.cfg), 0, none, false, false, [], true⟩ := by
  apply C20_decisive_at _ _ _ h req _ _ hkeep
  · intro lc hlc
    obtain ⟨m, hm, rfl⟩ := List.mem_map.mp hlc
    exact ⟨(C20_link_decision m req (hok m hm)).mp (hadm m hm), hlim m hm⟩
  · have := C20_link_decision M req hokM
    cases hi : intervenes M.cfg req with
    | true => rfl
    | false => exact absurd (this.mpr hi) hrefuse

/-! ### non-vacuity of the link theorems -/

/-- `C20_link_connlimit`: limit 1, two sources, a panic exit.  After `a` is admitted the abstract state of `s` is 1, the stack
intervenes, `b` is refused; after `a` has panicked it is 0 again and the stack passes. -/
private def connHist : List ConnLimit.Event :=
  [.start "a" "s" 1, .start "b" "s" 1, .start "c" "t" 1, .finish "a" .panic]
example : ConnLimit.amountsOne connHist = true := by decide
example : connAbs (ConnLimit.runR (ConnLimit.SysR.init 1 false) (connHist.take 3)) "s" = 1
    ∧ intervenes (eff { kind := .connlimit, limit := 1 } 1) ⟨0⟩ = true
    ∧ connAbs (ConnLimit.runR (ConnLimit.SysR.init 1 false) connHist) "s" = 0
    ∧ intervenes (eff { kind := .connlimit, limit := 1 } 0) ⟨0⟩ = false
    ∧ ConnLimit.findReq (ConnLimit.runR (ConnLimit.SysR.init 1 false) (connHist.take 3)).base.inflight "a" = some ⟨"a", "s", 1⟩
    ∧ ConnLimit.findRej (ConnLimit.runR (ConnLimit.SysR.init 1 false) (connHist.take 3)).rejecting "a" = none := by decide

/-- `C20_link_ratelimit`: the two configurations of the C20 harness.  Rate 1 per second, burst 1: one token at first contact,
none after one admitted request (the stack's "at its limit"), still none after the refusal that follows.  Burst 10^6: the
stack's `10^6` tokens. -/
private def r1 : RL.Rate := ⟨1000000000, 1, 1⟩
private def rM : RL.Rate := ⟨1000000000, 1000000, 1000000⟩
example : RL.ValidRates [r1] ∧ RL.ValidRates [rM] ∧ [r1] ≠ [] :=
  ⟨⟨by decide, by decide⟩, ⟨by decide, by decide⟩, by decide⟩
example : RL.LimiterInv [r1] (RL.Limiter.new [r1] 0) 0 := RL.inv_new _ _
example : rateAbs (RL.Limiter.new [r1] 0) 0 "s" = 1
    ∧ ((RL.Limiter.new [r1] 0).serve 0 "s" 1 [] "").2 = .ok
    ∧ rateAbs ((RL.Limiter.new [r1] 0).serve 0 "s" 1 [] "").1 0 "s" = 0
    ∧ ((((RL.Limiter.new [r1] 0).serve 0 "s" 1 [] "").1).serve 0 "s" 1 [] "").2 = .tooMany 1000000000
    ∧ rateAbs ((((RL.Limiter.new [r1] 0).serve 0 "s" 1 [] "").1).serve 0 "s" 1 [] "").1 0 "s" = 0
    ∧ rateAbs (RL.Limiter.new [rM] 0) 0 "s" = 1000000
    ∧ rateAbs ((RL.Limiter.new [rM] 0).serve 0 "s" 1 [] "").1 0 "s" = 999999 := by decide
/-- … and with two rates the abstraction is the scarcer bucket -/
example : rateAbs (RL.Limiter.new [⟨1000000000, 5, 5⟩, ⟨60000000000, 2, 2⟩] 0) 0 "s" = 2 := by decide

/-- `C20_link_breaker`: a fresh breaker and a breaker tripped until 100 seen at 50 are inside the domain; at 100 the same
breaker is outside it, and the arrival is answered by the fallback although the flag is down (start of the ramp). -/
private def bTripped : CB.Brk := { CB.Brk.init with state := .tripped, until_ := 100 }
example : brkSettled CB.Brk.init 5 ∧ brkFlag CB.Brk.init 5 = false
    ∧ brkSettled bTripped 50 ∧ brkFlag bTripped 50 = true ∧ ¬ brkSettled bTripped 100 := by decide
example : (CB.arrive C05.exCfg bTripped 50).1 = .fallback ∧ (CB.arrive C05.exCfg CB.Brk.init 5).1 = .pass
    ∧ (CB.arrive C05.exCfg bTripped 100).1 = .fallback ∧ brkFlag bTripped 100 = false := by decide

/-- `C20_link_balancer`: the empty pool and an all-zero pool raise the flag, a pool with a positive weight does not -/
example : balFlag [] = true ∧ balFlag [0, 0] = true ∧ balFlag [0, 3, 1] = false
    ∧ (RR.next [] RR.It.reset).1 = .errNoServers ∧ (RR.next [0, 0] RR.It.reset).1 = .errAllZero
    ∧ (RR.next [0, 3, 1] (RR.after [0, 3, 1] 2 RR.It.reset)).1 = .sel 1 := by decide

/-- `C20_link_buffer`: maximum 16, bodies of 17 and 16 bytes (chunked and declared); maximum `-1` / `0`: no limit -/
private def bodyOf (n : Nat) (chunked : Bool) : Buf.Req := ⟨"POST", "/p", [], chunked, List.replicate n 7⟩
example : Buf.requestOver { maxReq := 16 } (bodyOf 17 false) ∧ Buf.requestOver { maxReq := 16 } (bodyOf 17 true)
    ∧ ¬ Buf.requestOver { maxReq := 16 } (bodyOf 16 false) ∧ ¬ Buf.requestOver {} (bodyOf 17 false)
    ∧ ¬ Buf.requestOver { maxReq := 0 } (bodyOf 17 false) := by decide
example : intervenes { kind := .buffer, maxReq := (16 : Int).toNat } ⟨17⟩ = true
    ∧ intervenes { kind := .buffer, maxReq := (-1 : Int).toNat } ⟨17⟩ = false := by decide

/-- `C20_link_decision` / `C20_transparent_composed`: a depth-6 stack given by model states — a trace, a connection limiter of
2 with one request of the source inside, a rate limiter at first contact, a fresh breaker, a sticky rebalancer over one server
after three selections, a buffer of maximum 16 — and a request of 16 bytes: every model admits … -/
private def msPass : List Layer :=
  [.plain { kind := .trace },
   .conn { kind := .connlimit, limit := 2 } false [.start "a" "s" 1, .start "x" "t" 1] "s",
   .rate { kind := .ratelimit } [r1] (RL.Limiter.new [r1] 0) 0 0 "s" "",
   .brk { kind := .cbreaker } C05.exCfg CB.Brk.init 5,
   .bal { kind := .rebalancer, sticky := some "sk4" } [1] 3,
   .buf { kind := .buffer, maxResp := 100 } { maxReq := 16 } (bodyOf 16 false)]
example : (∀ m ∈ msPass, m.ok ⟨16⟩) := by
  intro m hm
  simp only [msPass, List.mem_cons, List.not_mem_nil, or_false] at hm
  rcases hm with rfl | rfl | rfl | rfl | rfl | rfl
  · exact Or.inr rfl
  · exact ⟨rfl, by decide⟩
  · exact ⟨rfl, ⟨by decide, by decide⟩, by decide, RL.inv_new _ _, Nat.le_refl _⟩
  · exact ⟨rfl, by decide⟩
  · exact Or.inr rfl
  · exact ⟨rfl, by decide⟩
example : (∀ m ∈ msPass, m.admits) := by
  intro m hm
  simp only [msPass, List.mem_cons, List.not_mem_nil, or_false] at hm
  rcases hm with rfl | rfl | rfl | rfl | rfl | rfl
  · trivial
  · show ConnLimit.acquire _ _ _ _ ≠ none; decide
  · show (RL.Limiter.serve _ _ _ _ _ _).2 = _; decide
  · show (CB.arrive _ _ _).1 = _; decide
  · exact ⟨0, by decide⟩
  · show ¬ Buf.requestOver _ _; decide
/-- … the response-side hypotheses hold, and the conclusion is the non-trivial one -/
example : (∀ m ∈ msPass, overflows m.cfg (scriptResp (h1 ⟨16⟩)).body.length = false
      ∧ (retryBuf m.cfg && netErr (scriptResp (h1 ⟨16⟩)).status) = false)
    ∧ (h1 ⟨16⟩).status.isSome = true ∧ expectBody (scriptResp (h1 ⟨16⟩)).status (h1 ⟨16⟩).headers = true := by decide
example : msPass.map Layer.cfg =
    [{ kind := .trace }, { kind := .connlimit, limit := 2 }, { kind := .ratelimit }, { kind := .cbreaker },
     { kind := .rebalancer, sticky := some "sk4" }, { kind := .buffer, maxResp := 100, maxReq := 16 }] := by decide
example : (serveStack (msPass.map Layer.cfg) h1 ⟨16⟩).invoked = 1 ∧ (serveStack (msPass.map Layer.cfg) h1 ⟨16⟩).resp.status = 201
    ∧ (serveStack (msPass.map Layer.cfg) h1 ⟨16⟩).resp.headers.length = 3 := by decide

/-- `C20_decisive_composed`: the same rate limiter after one admitted request refuses (no token left) behind the trace and the
connection limiter, which admit: 429 from the rate limiter, handler not invoked -/
private def mRefuse : Layer :=
  .rate { kind := .ratelimit } [r1] ((RL.Limiter.new [r1] 0).serve 0 "s" 1 [] "").1 0 0 "s" ""
example : mRefuse.ok ⟨0⟩ ∧ ¬ mRefuse.admits :=
  ⟨⟨rfl, ⟨by decide, by decide⟩, by decide, RL.inv_serve _ ⟨by decide, by decide⟩ _ 0 0 (RL.inv_new _ _) (Nat.le_refl _) _ _ _,
    Nat.le_refl _⟩, by show ¬ (RL.Limiter.serve _ _ _ _ _ _).2 = _; decide⟩
example : (serveStack ((msPass.take 2).map Layer.cfg ++ mRefuse.cfg :: [{ kind := .buffer }]) h1 ⟨0⟩).resp.status = 429
    ∧ (serveStack ((msPass.take 2).map Layer.cfg ++ mRefuse.cfg :: [{ kind := .buffer }]) h1 ⟨0⟩).invoked = 0 := by decide

end link

/-! ## The writer handed inward (`utils.ProxyWriter`, Model/Writer.lean)

`trace`, `cbreaker` and the `Rebalancer` wrap the writer in a `utils.ProxyWriter` before calling `next`.  The theorems below are
about every nest of ProxyWriters (any depth, any field values), every base writer (with or without `Flusher` / `Hijacker`) and
every sequence of calls a handler can make (`WriteHeader` with any code incl. informational ones, `Write` with any bytes incl.
none, `Flush`, `Hijack`). -/
section writer
open Writer

/-- **Transparent call by call.**  Whatever has been written through a nest of ProxyWriters, the wrapped writer has received
exactly the handler's calls, in order, minus the `Flush` / `Hijack` calls it has no method for — every `WriteHeader`
(informational or final, repeated or not) and every `Write` (empty ones included) reaches it unchanged. -/
theorem C20_pw_transparent (base : Base) (s : St) (cs : List Call) :
    (run base s cs).seen = s.seen ++ cs.filter (deliverable base) := run_seen base s cs

/-- The nest is invisible: the base writer receives the same calls as when the handler holds it directly (depth 0), so what
`net/http` puts on the wire (`Writer.wire`) is the same at every depth. -/
theorem C20_pw_depth_irrelevant (base : Base) (depth : Nat) (cs : List Call) :
    (run base (fresh depth) cs).seen = (run base (fresh 0) cs).seen
    ∧ wire (run base (fresh depth) cs).seen = wire (run base (fresh 0) cs).seen := by
  have : (run base (fresh depth) cs).seen = (run base (fresh 0) cs).seen := by simp [run_seen, fresh]
  exact ⟨this, by rw [this]⟩

/-- Over `net/http`'s own writer (a `Flusher` and `Hijacker`) nothing is filtered at all: what goes on the wire through a nest of
any depth is what the handler's calls put there when made on the server's writer directly. -/
theorem C20_pw_wire_exact (depth : Nat) (cs : List Call) :
    (run ⟨true, true⟩ (fresh depth) cs).seen = cs ∧ wire (run ⟨true, true⟩ (fresh depth) cs).seen = wire cs := by
  have h : (run ⟨true, true⟩ (fresh depth) cs).seen = cs := by
    rw [run_seen]
    simp only [fresh, List.nil_append]
    apply List.filter_eq_self.mpr
    intro c _; cases c <;> rfl
  exact ⟨h, by rw [h]⟩

/-- **What a ProxyWriter records.**  After any calls, every ProxyWriter of a fresh nest answers `StatusCode()` with the code of
the handler's *last* `WriteHeader` call (200 when there was none, or when it was 0) and `GetLength()` with the total number of
bytes passed to `Write`. -/
theorem C20_pw_records (base : Base) (depth : Nat) (cs : List Call) :
    ∀ p ∈ (run base (fresh depth) cs).pws, p.statusCode = recorded cs ∧ p.length = written cs := by
  intro p hp
  rw [run_pws] at hp
  simp only [fresh, List.map_replicate, List.mem_replicate] at hp
  obtain ⟨_, rfl⟩ := hp
  refine ⟨?_, by simp [foldl_record_length]⟩
  simp only [PW.statusCode, foldl_record_code, recorded]
  cases lastCode cs <;> simp

/-- The nest neither grows nor shrinks, and `Hijack` succeeds through it iff the base writer is a `Hijacker`; `Flush` on a
ProxyWriter never fails (without a nest the handler's own type assertion decides). -/
theorem C20_pw_capabilities (base : Base) (pws : List PW) :
    (∀ c, (call base pws c).1.length = pws.length)
    ∧ (call base pws .hijack).2.2 = base.hijacker
    ∧ (call base pws .flush).2.2 = (if pws = [] then base.flusher else true) :=
  ⟨call_length base pws, call_hijack_ok base pws, call_flush_ok base pws⟩

/-- **Recorded status = status on the wire, for orderly handlers.**  If the handler sends informational codes only before its
single final `WriteHeader` (code ≥ 100), and that call precedes every `Write` / `Flush` (or there is no `WriteHeader` at all),
then the status every ProxyWriter reports — the one the breaker's metrics and the rebalancer's meters count — is the status
`net/http` sends to the client. -/
theorem C20_pw_status_is_wire_status (cs : List Call) (h : orderly cs = true) :
    recorded cs = (wire cs).final := (orderly_spec cs {} rfl h).symm

/-- … and only for those: a 1xx followed by an implicit 200, a superfluous second `WriteHeader`, and a `WriteHeader` after the
first `Write` are each recorded with a code the client never saw (recorded behaviour of the unchanged code, not flagged: the
breaker's conditions are stated over recorded codes). -/
theorem C20_pw_status_disorderly_counterexample :
    (recorded [.writeHeader 103, .write [1]] = 103 ∧ (wire [.writeHeader 103, .write [1]]).final = 200)
    ∧ (recorded [.writeHeader 200, .writeHeader 500] = 500 ∧ (wire [.writeHeader 200, .writeHeader 500]).final = 200)
    ∧ (recorded [.write [1], .writeHeader 404] = 404 ∧ (wire [.write [1], .writeHeader 404]).final = 200) := by decide

/-- **Link to the stack model.**  `Stack.Caps.proxy` — what `Model/Stack.lean` says a layer that wraps the writer in a ProxyWriter
offers inward — is what the call-level model computes: both interfaces are always there, `Hijack` succeeds and a `Flush` reaches
the wrapped writer exactly when the wrapped writer can do it. -/
theorem C20_pw_caps_link (c : Caps) (p : PW) :
    (Caps.proxy c).flushIface = true ∧ (Caps.proxy c).hijackIface = true
    ∧ (Caps.proxy c).canHijack = (call ⟨c.canFlush, c.canHijack⟩ [p] .hijack).2.2
    ∧ ((Caps.proxy c).canFlush = true ↔ (call ⟨c.canFlush, c.canHijack⟩ [p] .flush).2.1 = [.flush]) := by
  refine ⟨rfl, rfl, ?_, ?_⟩
  · simp [Caps.proxy, Caps.canHijack, call, reach]
    cases c.hijackIface <;> cases c.hijackWorks <;> simp
  · simp [Caps.proxy, Caps.canFlush, call, reach]
    cases c.flushIface <;> cases c.flushWorks <;> simp

/-- non-vacuity: a three-deep nest over a writer without `Flusher`, a handler that sends 103, then 201, an empty and a non-empty
`Write`, flushes and tries to hijack -/
example :
    let cs : List Call := [.writeHeader 103, .writeHeader 201, .write [], .write [7, 8], .flush, .hijack]
    orderly cs = true ∧ recorded cs = 201 ∧ written cs = 2
    ∧ (run ⟨false, true⟩ (fresh 3) cs).seen = [.writeHeader 103, .writeHeader 201, .write [], .write [7, 8], .hijack]
    ∧ (wire cs).infos = [103] ∧ (wire cs).final = 201 := by decide

end writer

end C20
