import OxyModel.Proofs.CBreaker.Machine

/-!
# C05 — a tripped circuit breaker shields the backend

Property theorems only (helper lemmas: `OxyModel/Proofs/CBreaker/Machine.lean`).  Model:
`OxyModel/Model/CBreaker.lean` — `CB.arrive` = `activateFallback`, `CB.complete` = `Record` + `checkAndSet`.
A trace is any list of `arrive t`, `record t code`, `check t oracle` and `complete t code oracle` events
(`complete` = `record` then `check` with nothing in between; `record` is `metrics.Record`, which does not
run under the breaker's lock, so other requests' steps may fall between a request's `record` and its
`check`), i.e. any interleaving of overlapping requests at the granularity of the code's critical sections; `step c (run c b pre).1 e` is what event `e` shows after the history `pre`
(`CB.obs_at`: it is the `pre.length`-th observation of every trace that extends `pre ++ [e]`).
All theorems hold from **every** breaker state `b`, in particular from `Brk.init` and every reachable state.
-/
namespace C05
open CB CBExpr

/-- time stamps never decrease along the trace (the frozen clock only advances) -/
def Sorted (es : List Ev) : Prop := es.Pairwise (fun x y => x.time ≤ y.time)

/-- **shield**: if the event `e` (a `check`, or a `complete`) trips the breaker at `T = e.time` (it shows
    `done true`), then after any further events `mid` (arrivals, records and checks of requests admitted
    earlier in any interleaving, any response codes, any clock advances) a request arriving at
    `t < T + fallbackDuration` is answered by the fallback, and the breaker is still tripped with the
    deadline `T + fallbackDuration`.  (Events of `mid` lie in `[T, t]` by sortedness; no second trip can
    intervene, so `T` is the latest trip.) -/
theorem C05_tripped_shields (c : Cfg) (b : Brk) (pre mid : List Ev) (e : Ev) (t : Nat)
    (hsorted : Sorted (pre ++ e :: (mid ++ [.arrive t])))
    (htrip : (step c (run c b pre).1 e).2 = .done true)
    (hlt : t < e.time + c.fallbackDur) :
    (step c (run c b (pre ++ e :: mid)).1 (.arrive t)).2 = .fallback ∧
    (run c b (pre ++ e :: mid)).1.state = .tripped ∧
    (run c b (pre ++ e :: mid)).1.until_ = e.time + c.fallbackDur := by
  obtain ⟨f1, f2, _⟩ := step_done_true c (run c b pre).1 e htrip
  have hs2 := (List.pairwise_append.mp hsorted).2.1
  have hs3 := (List.pairwise_cons.mp hs2).2
  have hmid : ∀ e' ∈ mid, e'.time ≤ t := by
    intro e' he
    exact (List.pairwise_append.mp hs3).2.2 e' he (.arrive t) (by simp)
  have hfin : (run c b (pre ++ e :: mid)).1 = (run c (step c (run c b pre).1 e).1 mid).1 := by
    rw [run_append, run_cons]
  obtain ⟨s1, s2, _, _, _⟩ := shield c mid (step c (run c b pre).1 e).1 f1
    (fun e' he => by rw [f2]; exact Nat.lt_of_le_of_lt (hmid e' he) hlt)
  rw [hfin]
  refine ⟨?_, s1, by rw [s2, f2]⟩
  have := arrive_tripped_before c _ t s1 (by rw [s2, f2]; exact hlt)
  show (match (arrive c _ t).1 with | .pass => Obs.pass | .fallback => Obs.fallback) = _
  rw [this]

/-- every event of the shielded interval: arrivals get the fallback, records record, no check trips again -/
theorem C05_tripped_shields_all (c : Cfg) (b : Brk) (e : Ev) (mid : List Ev)
    (htrip : (step c b e).2 = .done true)
    (hlt : ∀ e' ∈ mid, e'.time < e.time + c.fallbackDur) :
    (run c (step c b e).1 mid).2 = mid.map shieldObs := by
  obtain ⟨f1, f2, _⟩ := step_done_true c b e htrip
  exact (shield c mid _ f1 (fun e' he => by rw [f2]; exact hlt e' he)).2.2.2.2

/-- **standby passes**: in standby every request is handed to the protected handler, state untouched -/
theorem C05_standby_passes (c : Cfg) (b : Brk) (t : Nat) (h : b.state = .standby) :
    step c b (.arrive t) = (b, .pass) := by
  show ((arrive c b t).2, match (arrive c b t).1 with | .pass => Obs.pass | .fallback => Obs.fallback) = _
  rw [arrive_standby c b t h]

/-- … and it stays that way until a check trips the breaker: along any trace from standby in which
    no check trips, the breaker is in standby and no request is answered by the fallback -/
theorem C05_standby_until_trip (c : Cfg) : ∀ (es : List Ev) (b : Brk), b.state = .standby →
    (∀ o ∈ (run c b es).2, o ≠ .done true) →
    (run c b es).1.state = .standby ∧ ∀ o ∈ (run c b es).2, o ≠ .fallback := by
  intro es
  induction es with
  | nil => intro b h _; exact ⟨by simpa [run_nil] using h, by simp [run_nil]⟩
  | cons e es ih =>
    intro b h hno
    rw [run_cons] at hno ⊢
    by_cases harr : ∃ t, e = .arrive t
    · obtain ⟨t, rfl⟩ := harr
      rw [C05_standby_passes c b t h] at hno ⊢
      obtain ⟨i1, i2⟩ := ih b h (fun o ho => hno o (List.mem_cons_of_mem _ ho))
      refine ⟨i1, ?_⟩
      intro o ho
      rcases List.mem_cons.mp ho with rfl | ho
      · simp
      · exact i2 o ho
    · have hnt : (step c b e).2 ≠ .done true := hno _ List.mem_cons_self
      have hst : (step c b e).1.state = .standby :=
        (step_not_trip c b e hnt (fun t he => harr ⟨t, he⟩)).trans h
      obtain ⟨i1, i2⟩ := ih _ hst (fun o ho => hno o (List.mem_cons_of_mem _ ho))
      refine ⟨i1, ?_⟩
      intro o ho
      rcases List.mem_cons.mp ho with rfl | ho
      · cases e with
        | arrive t => exact absurd ⟨t, rfl⟩ harr
        | record t code => show Obs.recorded ≠ _; simp
        | check t orc => show Obs.done _ ≠ _; simp
        | complete t code orc => show Obs.done _ ≠ _; simp
      · exact i2 o ho

/-- the only moves of the state -/
def Allowed (s s' : State) : Prop :=
  s' = s ∨ (s = .standby ∧ s' = .tripped) ∨ (s = .tripped ∧ s' = .recovering) ∨
  (s = .recovering ∧ s' = .standby) ∨ (s = .recovering ∧ s' = .tripped)

/-- **edges**: after every history `es`, whatever the next event `e`, the state stays or moves along
    standby → tripped → recovering → (standby | tripped) -/
theorem C05_edges (c : Cfg) (b : Brk) (es : List Ev) (e : Ev) :
    Allowed (run c b es).1.state (run c b (es ++ [e])).1.state := by
  have hfin : (run c b (es ++ [e])).1 = (step c (run c b es).1 e).1 := by
    rw [run_append, run_cons, run_nil]
  rw [hfin]
  cases step_edge c (run c b es).1 e with
  | same h _ _ => exact Or.inl h.symm
  | trip h1 h2 _ _ =>
    cases hs : (run c b es).1.state with
    | standby => exact Or.inr (Or.inl ⟨rfl, h2⟩)
    | tripped => exact absurd hs h1
    | recovering => exact Or.inr (Or.inr (Or.inr (Or.inr ⟨rfl, h2⟩)))
  | recover h1 h2 _ _ => exact Or.inr (Or.inr (Or.inl ⟨h1, h2⟩))
  | standby h1 h2 _ _ => exact Or.inr (Or.inr (Or.inr (Or.inl ⟨h1, h2⟩)))

/-- the breaker leaves `tripped` only through a request arriving at or after the deadline -/
theorem C05_tripped_until (c : Cfg) (b : Brk) (e : Ev) (h : b.state = .tripped)
    (h' : (step c b e).1.state ≠ .tripped) : b.until_ ≤ e.time ∧ ∃ t, e = .arrive t := by
  refine ⟨leave_tripped c b e h h', ?_⟩
  by_cases harr : ∃ t, e = .arrive t
  · exact harr
  · exfalso
    have hnt : (step c b e).2 ≠ .done true := by
      intro hd
      exact (step_done_true c b e hd).2.2.2.2.2.1 h
    exact h' ((step_not_trip c b e hnt (fun t he => harr ⟨t, he⟩)).trans h)

/-! ### non-vacuity: a real trip with overlapping requests

`fallback 10 s, recovery 10 s, check period 100 ms, condition NetworkErrorRatio() > 0.5`; two requests are
admitted, the first one completes with 502 one millisecond later and trips the breaker; the second is
still in flight, completes inside the tripped interval; arrivals up to 1 ns before the deadline get the
fallback. -/
def T0 : Nat := RCnt.baseSinceZeroNs
def exCfg : Cfg := ⟨10000000000, 10000000000, 100000000, .cmp .gt .ner (.float 1 2)⟩
def exTrace : List Ev :=
  [.arrive T0, .arrive T0, .complete (T0 + 1000000) 502 [], .arrive (T0 + 1000000),
   .complete (T0 + 2000000) 200 [], .arrive (T0 + 10000999999)]

example : (run exCfg Brk.init exTrace).2 =
    [.pass, .pass, .done true, .fallback, .done false, .fallback] := by decide
example : Sorted exTrace := by unfold Sorted; decide

/-- overlapping completions *around* the trip, below the granularity of whole completions: both responses
    are recorded before either request reaches `checkAndSet`; the first check sees `{502, 200}`
    (`NetworkErrorRatio() >= 0.5`) and trips, the second is not due.  (Run to completion one after the other,
    `[502, 200]` would trip at the first and `[200, 502]` at the second with other metrics left behind.) -/
def exCfg2 : Cfg := ⟨10000000000, 10000000000, 100000000, .cmp .ge .ner (.float 1 2)⟩
def exTrace2 : List Ev :=
  [.arrive T0, .arrive T0, .record (T0 + 1000000) 502, .record (T0 + 1000000) 200,
   .check (T0 + 1000000) [], .check (T0 + 1000000) [], .arrive (T0 + 1000001)]
example : (run exCfg2 Brk.init exTrace2).2 =
    [.pass, .pass, .recorded, .recorded, .done true, .done false, .fallback] := by decide
example : new exCfg = some Brk.init := by decide

end C05
