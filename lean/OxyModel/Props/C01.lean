import OxyModel.Proofs.RR.Window

/-!
# C01 — weighted round-robin selection is exactly proportional to the weights

Property theorems only (helper lemmas live in `OxyModel/Proofs/RR`).  The model is
`OxyModel/Model/RoundRobin.lean` (`RR.next` = `RoundRobin.nextServer`).
-/
namespace C01
open RR

/-- `W = sum(w_i) / g` -/
def W (ws : List Nat) : Nat := ws.sum / gcdW ws

private def ctx (ws : List Nat) (h : ∃ w ∈ ws, 0 < w) : Ctx :=
  ⟨ws, by obtain ⟨w, hw, hp⟩ := h; exact Nat.lt_of_lt_of_le hp (le_maxW hw)⟩

private theorem W_ctx (ws : List Nat) (h : ∃ w ∈ ws, 0 < w) : (ctx ws h).W = W ws := by
  rw [Ctx.W_eq_sum, Ctx.sum_div_eq]; rfl

/-- **C01 (window)**: for every weight vector with a positive weight, every offset `j` in the
    selection sequence and every server `i`: the `W` consecutive selections `j+1 … j+W` made from a
    freshly reset iterator choose server `i` exactly `w_i / g` times. -/
theorem C01_window (ws : List Nat) (h : ∃ w ∈ ws, 0 < w) (i j : Nat) :
    (run ws (W ws) (after ws j It.reset)).count (.sel i) = ws.getD i 0 / gcdW ws := by
  have := (ctx ws h).C01_window i j
  rw [W_ctx] at this
  exact this

/-- every state reached by calls from a reset iterator lies on the orbit -/
private theorem after_on_orbit (ws : List Nat) (h : ∃ w ∈ ws, 0 < w) (j : Nat) :
    after ws j It.reset = (ctx ws h).o ((ctx ws h).Qfrom 0 j) := by
  have : It.reset = (ctx ws h).o 0 := rfl
  rw [this]; exact (ctx ws h).after_orbit j 0

private theorem run_orbit_sel (c : Ctx) (k : Nat) : ∀ P, ∀ r ∈ run c.ws k (c.o P),
    ∃ i, r = .sel i ∧ i < c.ws.length ∧ 0 < c.ws.getD i 0 := by
  induction k with
  | zero => intro P r hr; simp [run] at hr
  | succ k ih =>
    intro P r hr
    unfold run at hr
    simp only [c.next_spec P, List.mem_cons] at hr
    rcases hr with rfl | hr
    · refine ⟨_, rfl, Nat.mod_lt _ c.n_pos, ?_⟩
      have h2 : c.hit (c.nextHit P) := (c.nextHit_spec P).2.1
      have := c.o_cw_pos (c.nextHit P)
      unfold Ctx.hit at h2
      omega
    · exact ih _ r hr

/-- **C01 (never an error, never a zero-weight server)**: with at least one positive weight every
    call selects an existing server of positive weight — in particular the loop never runs out of
    fuel, so the model's fuel is not a restriction, and zero-weight servers are never chosen. -/
theorem C01_selects_positive (ws : List Nat) (h : ∃ w ∈ ws, 0 < w) (j k : Nat) :
    ∀ r ∈ run ws k (after ws j It.reset), ∃ i, r = .sel i ∧ i < ws.length ∧ 0 < ws.getD i 0 := by
  rw [after_on_orbit ws h j]
  exact run_orbit_sel (ctx ws h) k _

theorem C01_zero_never (ws : List Nat) (h : ∃ w ∈ ws, 0 < w) (i j k : Nat) (hi : ws.getD i 0 = 0) :
    Res.sel i ∉ run ws k (after ws j It.reset) := by
  intro hm
  obtain ⟨i', e, _, hp⟩ := C01_selects_positive ws h j k _ hm
  cases e; omega

/-- **C01 (share)**: in `k·W` consecutive selections server `i` is chosen exactly `k · w_i/g` times:
    its long-run share is `w_i / sum(w)`. -/
theorem C01_share (ws : List Nat) (h : ∃ w ∈ ws, 0 < w) (i j k : Nat) :
    (run ws (k * W ws) (after ws j It.reset)).count (.sel i) = k * (ws.getD i 0 / gcdW ws) := by
  induction k generalizing j with
  | zero => simp [run]
  | succ k ih =>
    rw [Nat.succ_mul, Nat.add_comm (k * W ws), run_add, List.count_append, C01_window ws h,
      ← after_add, Nat.add_comm j, ih]
    rw [Nat.succ_mul]; omega

/-- an all-zero pool yields the error and leaves the iterator untouched -/
theorem C01_all_zero_error (ws : List Nat) (hne : ws ≠ []) (hz : ∀ w ∈ ws, w = 0) (s : It) :
    next ws s = (.errAllZero, s) := by
  have hmx : maxW ws = 0 := by
    rcases foldl_max_mem ws 0 with h | h
    · exact h
    · exact hz _ h
  have hl : ws.length ≠ 0 := by
    intro h0; exact hne (List.length_eq_zero_iff.mp h0)
  unfold next
  simp [hl, hmx]

theorem C01_empty_error (s : It) : next [] s = (.errNoServers, s) := rfl

section history
variable {κ : Type} [DecidableEq κ]

/-- **C01 (every prior history)**: after any history of calls, a successful pool change leaves the
    iterator reset — a window never straddles two weight vectors, so `C01_window` applies to the
    selections that follow, whatever happened before. -/
theorem C01_change_resets (p : Pool κ) (k : κ) (w : Option Nat) :
    (p.upsert k w).it = It.reset ∧ ∀ p', p.remove k = some p' → p'.it = It.reset := by
  constructor
  · unfold Pool.upsert; split <;> (try split) <;> rfl
  · intro p' hp; unfold Pool.remove at hp; split at hp <;> simp at hp; rw [← hp]

theorem C01_after_any_history (hist : List (Pool.Op κ)) (k : κ) (w : Option Nat) (i j : Nat)
    (h : ∃ x ∈ ((Pool.empty.applyOps hist).upsert k w).ws, 0 < x) :
    let p := (Pool.empty.applyOps hist).upsert k w
    ((p.applyOps (List.replicate j Pool.Op.next)).nexts (W p.ws)).count (.sel i)
      = p.ws.getD i 0 / gcdW p.ws := by
  intro p
  have hk : ∀ (j : Nat) (q : Pool κ), (q.applyOps (List.replicate j Pool.Op.next)).ws = q.ws ∧
      (q.applyOps (List.replicate j Pool.Op.next)).it = after q.ws j q.it := by
    intro j
    induction j with
    | zero => intro q; exact ⟨rfl, rfl⟩
    | succ j ih =>
      intro q
      have := ih (q.step Pool.Op.next).1
      simp only [List.replicate_succ, Pool.applyOps, List.foldl_cons] at this ⊢
      exact this
  obtain ⟨e1, e2⟩ := hk j p
  unfold Pool.nexts
  rw [e1, e2, (C01_change_resets _ k w).1]
  exact C01_window p.ws h i j

/-- **`UpsertServer` with any number of `Weight` options.**  A call with no or one valid option is the `upsert` of the history
theorems; a call that succeeds resets the iterator whatever its options; a call that **fails** (a negative weight after `m` valid
ones) adds no server, leaves the iterator where it was, and — on an existing server — leaves the last weight written before the
failure in the pool (`roundrobin/rr.go:200-208`: the error is returned before `resetState()`).  After such a call the pool's
weights have changed without a reset: `C01_window` is not claimed for the selections that follow it (the correspondence run and
the window monitor exercise them; a proof for arbitrary iterator positions is future work, see DESIGN §6 C01). -/
theorem C01_upsert_options (p : Pool κ) (k : κ) (xs : List Int) :
    (p.upsertOpts k [] = (p.upsert k none, true))
    ∧ (∀ w : Nat, p.upsertOpts k [(w : Int)] = (p.upsert k (some w), true))
    ∧ ((p.upsertOpts k xs).2 = true → (p.upsertOpts k xs).1.it = It.reset)
    ∧ ((p.upsertOpts k xs).2 = false →
        (p.upsertOpts k xs).1.it = p.it ∧ (p.upsertOpts k xs).1.keys = p.keys
        ∧ (p.upsertOpts k xs).1.ws.length = p.ws.length
        ∧ ∀ j, p.find k ≠ some j → (p.upsertOpts k xs).1.ws.getD j 0 = p.ws.getD j 0) := by
  refine ⟨?_, ?_, ?_, ?_⟩
  · unfold Pool.upsertOpts Pool.upsert
    cases h : p.find k with
    | some i =>
      simp only [Pool.applyWeights, if_true]
      have : p.ws.set i (p.ws.getD i 0) = p.ws := by
        apply List.ext_getElem (by simp)
        intro n h1 h2
        by_cases hn : i = n
        · subst hn; simp [List.getD_eq_getElem?_getD, List.getElem?_eq_getElem (by simpa using h1)]
        · simp [List.getElem_set, hn]
      simp only [List.getD_eq_getElem?_getD] at this ⊢
      simp [this]
    | none => simp [Pool.applyWeights]
  · intro w
    unfold Pool.upsertOpts Pool.upsert
    have hw : ¬ ((w : Int) < 0) := by omega
    cases h : p.find k with
    | some i => simp [Pool.applyWeights, hw]
    | none => simp [Pool.applyWeights, hw]
  · unfold Pool.upsertOpts
    cases h : p.find k with
    | some i => simp only; split <;> simp_all
    | none => simp only; split <;> simp_all
  · unfold Pool.upsertOpts
    cases h : p.find k with
    | some i =>
      simp only; split
      · simp_all
      · intro _
        refine ⟨rfl, rfl, by simp, ?_⟩
        intro j hj
        have : i ≠ j := fun e => hj (by rw [e])
        simp [List.getD_eq_getElem?_getD, List.getElem?_set, this]
    | none =>
      simp only; split
      · simp_all
      · intro _; exact ⟨rfl, rfl, rfl, fun _ _ => rfl⟩

/-- `nextFrom` / `nextServerFrom` (what the driver runs) is `next` / `nextServer` (what the theorems are about) whenever `next`
does not run out of fuel — by `C01_window`'s fuel lemma that is every position reached from a reset. -/
theorem C01_nextFrom_eq_next (ws : List Nat) (s : It) (k : Nat) (h : (next ws s).1 ≠ .outOfFuel) :
    nextFrom ws (k + 1) s = next ws s := by
  unfold nextFrom
  split
  · rename_i s' heq; rw [heq] at h; exact absurd rfl h
  · rfl

/-- the weight a failed call leaves behind is the last valid option before the invalid one -/
theorem C01_failed_upsert_weight (w : Nat) (ys : List Nat) (x : Int) (hx : x < 0) (zs : List Int) :
    Pool.applyWeights w (ys.map (fun y : Nat => (y : Int)) ++ x :: zs) = ((ys.getLast?).getD w, false) := by
  induction ys generalizing w with
  | nil => simp [Pool.applyWeights, hx]
  | cons y ys ih =>
    have hy : ¬ ((y : Int) < 0) := by omega
    simp only [List.map_cons, List.cons_append, Pool.applyWeights, hy, if_false, Int.toNat_natCast]
    rw [ih]
    cases ys with
    | nil => simp
    | cons y' t =>
      have : ((y' :: t).getLast?).isSome := by simp [List.getLast?_isSome]
      obtain ⟨v, hv⟩ := Option.isSome_iff_exists.mp this
      simp [List.getLast?_cons_cons, hv]

/-- non-vacuity: pool a:2 b:2 one selection in, then `UpsertServer(a, Weight(3), Weight(-1))`: error, a now weighs 3, the
iterator still stands behind a -/
example :
    let p := ((Pool.empty (κ := String)).upsert "a" (some 2)).upsert "b" (some 2)
    let q := (p.nextServer).2
    (q.upsertOpts "a" [3, -1]).2 = false ∧ (q.upsertOpts "a" [3, -1]).1.ws = [3, 2]
    ∧ (q.upsertOpts "a" [3, -1]).1.it = q.it ∧ q.it ≠ It.reset := by decide

end history

/-- **C01 (concurrent callers)**: whatever the interleaving of callers, the combined sequence of
    selections is the sequential one (each call is one atomic step), so the window law holds for it. -/
theorem C01_concurrent {τ : Type} (ws : List Nat) (sched : List τ) (s : It) :
    (Pool.runSched ws sched s).map Prod.snd = run ws sched.length s := by
  induction sched generalizing s with
  | nil => rfl
  | cons t sched ih => simp only [Pool.runSched, List.map_cons, List.length_cons, run]; rw [ih]

/-! ### non-vacuity: concrete pools satisfy the hypotheses, and the numbers are the expected ones -/
example : ∃ w ∈ [3, 0, 6, 9], 0 < w := ⟨3, by simp, by omega⟩
example : W [3, 0, 6, 9] = 6 ∧ gcdW [3, 0, 6, 9] = 3 := by decide
example : (run [3, 0, 6, 9] 6 (after [3, 0, 6, 9] 4 It.reset)).count (.sel 3) = 3 := by decide
example : run [5, 1, 1] 7 It.reset = [.sel 0, .sel 0, .sel 0, .sel 0, .sel 0, .sel 1, .sel 2] := by decide

end C01
