import OxyModel.Proofs.Counter.Ratio
import OxyModel.Proofs.Counter.Clone

/-!
# C17 — rolling counters count the recent window

Property theorems only (helper lemmas live in `OxyModel/Proofs/Counter`).  The model is
`OxyModel/Model/Counter.lean`: `RCnt.inc` / `RCnt.count` / `RCnt.reset` are `RollingCounter.Inc` /
`Count` / `Reset`, `RCnt.run c h` is a fresh counter after the timed history `h` of increments, reads
and resets, `RCnt.Ratio.*` is `RatioCounter`.  Clock readings are ns since Go's zero `Time`.

`incs h` is the list `(time, value)` of the increments made since the last `Reset`;
`sumIf p log` is the sum of the logged values whose time stamp satisfies `p`.
-/
namespace C17
open RCnt

/-- the configurations `NewCounter` / `NewRatioCounter` accept: at least one bucket, a resolution of
    one second or more (any number of ns, not necessarily whole seconds) -/
structure Accepted (c : Cfg) : Prop where
  buckets : 0 < c.n
  resolution : second ≤ c.r

/-- the clock of a history followed by a read at `now`: time stamps never decrease, the read is not
    before the last event, and every reading is at least one window after 1970-01-01 (before that
    `UnixNano()` is negative and the real `getBucket` indexes out of range) -/
structure Timeline (c : Cfg) (times : List Nat) (now : Nat) : Prop where
  sorted : List.Pairwise (· ≤ ·) times
  now_last : ∀ t ∈ times, t ≤ now
  after1970 : ∀ t ∈ times, unixEpochNs + c.n * c.r ≤ t
  now_after1970 : unixEpochNs + c.n * c.r ≤ now

/-- the event is an increment by a non-negative amount, or not an increment -/
def nonnegEv : Ev → Bool
  | .inc v => decide (0 ≤ v)
  | _ => true

def isInc : Ev → Bool
  | .inc _ => true
  | _ => false

def isIncR : REv → Bool
  | .incA _ => true
  | .incB _ => true
  | _ => false

/-- all increments of the history are non-negative -/
def NonNeg (h : List (Nat × Ev)) : Prop := ∀ e ∈ h, nonnegEv e.2 = true

private theorem tl {α : Type} {c : Cfg} {h : List (Nat × α)} {now : Nat}
    (t : Timeline c (h.map Prod.fst) now) :
    (∀ e ∈ h, e.1 ≤ now) ∧ (∀ e ∈ h, unixEpochNs + c.n * c.r ≤ e.1) :=
  ⟨fun _ he => t.now_last _ (List.mem_map_of_mem he), fun _ he => t.after1970 _ (List.mem_map_of_mem he)⟩

private theorem r_pos {c : Cfg} (hc : Accepted c) : 0 < c.r :=
  Nat.lt_of_lt_of_le (by decide : 0 < second) hc.resolution

/-- **C17 (constructor)**: `NewCounter` accepts exactly `buckets > 0 ∧ resolution ≥ 1 s`, and then
    the counter has that many buckets and that resolution. -/
theorem C17_constructor (buckets resolution : Int) :
    (0 < buckets ∧ (second : Int) ≤ resolution →
      ∃ c, newCounter buckets resolution = .ok c ∧ Accepted c ∧ (c.n : Int) = buckets ∧ (c.r : Int) = resolution) ∧
    (buckets ≤ 0 → newCounter buckets resolution = .error .buckets) ∧
    (0 < buckets → resolution < (second : Int) → newCounter buckets resolution = .error .resolution) := by
  refine ⟨fun ⟨h1, h2⟩ => ?_, fun h => ?_, fun h1 h2 => ?_⟩
  · refine ⟨⟨buckets.toNat, resolution.toNat⟩, ?_, ⟨by simp only; omega, by simp only; omega⟩, ?_, ?_⟩
    · unfold newCounter
      rw [if_neg (by omega), if_neg (by omega)]
    · simp only; omega
    · simp only; have : (0 : Int) ≤ (second : Int) := Int.natCast_nonneg _; omega
  · unfold newCounter; rw [if_pos h]
  · unfold newCounter; rw [if_neg (by omega), if_pos h2]

/-- **C17 (exact window)**: after every history of increments, reads, resets and idle gaps, a read
    returns exactly the sum of the increments (since the last reset) whose slot `⌊u / r⌋` is among
    the last `n` slots `⌊now / r⌋ - n + 1 … ⌊now / r⌋`.  Increments may be negative. -/
theorem C17_exact (c : Cfg) (hc : Accepted c) (h : List (Nat × Ev)) (now : Nat)
    (ht : Timeline c (h.map Prod.fst) now) :
    (count c (run c h) now).2 = sumIf (fun u => now / c.r < u / c.r + c.n) (incs h) :=
  count_run_exact c hc.buckets (r_pos hc) h now ht.sorted (tl ht).1 (tl ht).2 ht.now_after1970

private theorem incs_nonneg {h : List (Nat × Ev)} (hv : NonNeg h) : ∀ e ∈ incs h, 0 ≤ e.2 :=
  fun _ he => of_decide_eq_true (hv _ (mem_incs he))

/-- **C17 (lower bound: recent events are never lost)**: with non-negative increments a read reports
    at least the sum of all increments made within the last `(n-1)·r`. -/
theorem C17_lower (c : Cfg) (hc : Accepted c) (h : List (Nat × Ev)) (now : Nat)
    (ht : Timeline c (h.map Prod.fst) now) (hv : NonNeg h) :
    sumIf (fun u => now ≤ u + (c.n - 1) * c.r) (incs h) ≤ (count c (run c h) now).2 := by
  rw [C17_exact c hc h now ht]
  exact sumIf_mono _ (incs_nonneg hv) (fun _ _ hu => slot_of_recent c.n c.r hc.buckets (r_pos hc) hu)

/-- **C17 (upper bound: old events always age out)**: with non-negative increments a read reports at
    most the sum of all increments made within the last `n·r`. -/
theorem C17_upper (c : Cfg) (hc : Accepted c) (h : List (Nat × Ev)) (now : Nat)
    (ht : Timeline c (h.map Prod.fst) now) (hv : NonNeg h) :
    (count c (run c h) now).2 ≤ sumIf (fun u => now < u + c.n * c.r) (incs h) := by
  rw [C17_exact c hc h now ht]
  exact sumIf_mono _ (incs_nonneg hv) (fun _ _ hu => recent_of_slot c.n c.r (r_pos hc) hu)

/-- **C17 (ages out)**: once every increment is at least `n·r` old the counter reads 0 (any sign). -/
theorem C17_ages_out (c : Cfg) (hc : Accepted c) (h : List (Nat × Ev)) (now : Nat)
    (ht : Timeline c (h.map Prod.fst) now)
    (hidle : ∀ e ∈ h, isInc e.2 = true → e.1 + c.n * c.r ≤ now) :
    (count c (run c h) now).2 = 0 := by
  rw [C17_exact c hc h now ht]
  exact sumIf_none _ (fun e he => not_slot_of_old c.n c.r (r_pos hc) (hidle _ (mem_incs he) rfl))

/-- **C17 (ratio)**: after every history of `IncA`, `IncB`, reads and resets, `Ratio()` is the pair
    `a / (a+b)` of the two exact window sums, and `0` (printed `0/0`) when `a + b = 0`. -/
theorem C17_ratio (c : Cfg) (hc : Accepted c) (h : List (Nat × REv)) (now : Nat)
    (ht : Timeline c (h.map Prod.fst) now) :
    ((Ratio.run c h).ratio c now).2 =
      if sumIf (fun u => now / c.r < u / c.r + c.n) (incsA h)
          + sumIf (fun u => now / c.r < u / c.r + c.n) (incsB h) = 0 then (0, 0)
      else (sumIf (fun u => now / c.r < u / c.r + c.n) (incsA h),
            sumIf (fun u => now / c.r < u / c.r + c.n) (incsA h)
              + sumIf (fun u => now / c.r < u / c.r + c.n) (incsB h)) :=
  ratio_run_exact c hc.buckets (r_pos hc) h now ht.sorted (tl ht).1 (tl ht).2 ht.now_after1970

/-- **C17 (ratio, empty)**: when every `IncA`/`IncB` is at least `n·r` old the ratio is 0. -/
theorem C17_ratio_empty (c : Cfg) (hc : Accepted c) (h : List (Nat × REv)) (now : Nat)
    (ht : Timeline c (h.map Prod.fst) now)
    (hidle : ∀ e ∈ h, isIncR e.2 = true → e.1 + c.n * c.r ≤ now) :
    ((Ratio.run c h).ratio c now).2 = (0, 0) := by
  rw [C17_ratio c hc h now ht]
  rw [sumIf_none (incsA h) (fun e he =>
        not_slot_of_old c.n c.r (r_pos hc) (hidle _ (mem_incsA he) rfl)),
      sumIf_none (incsB h) (fun e he =>
        not_slot_of_old c.n c.r (r_pos hc) (hidle _ (mem_incsB he) rfl))]
  rfl

/-- **C17 (a clone is independent)**: a live counter and a snapshot taken with `Clone()` are driven by
    an arbitrarily interleaved history `h` of events on either (`Duo.run`).  Then
    (1) the live counter is *exactly* the counter its own history alone produces (`liveHist h`: its own
        events, a read per `Clone()`, snapshot events dropped) — nothing done to the snapshot changes it,
        so its reads are the exact window of its own increments;
    (2) a read of the snapshot is the exact window of the increments the snapshot holds (`snapIncs h`:
        the live counter's up to `Clone()`, then the snapshot's own) — nothing done to the live counter
        afterwards changes it. -/
theorem C17_clone_independent (c : Cfg) (hc : Accepted c) (h : List (Nat × DEv)) (now : Nat)
    (ht : Timeline c (h.map Prod.fst) now) :
    (Duo.run c h).live = run c (liveHist h) ∧
    (count c (Duo.run c h).live now).2
      = sumIf (fun u => now / c.r < u / c.r + c.n) (incs (liveHist h)) ∧
    ∀ s, (Duo.run c h).snap = some s →
      (count c s now).2 = sumIf (fun u => now / c.r < u / c.r + c.n) (snapIncs h) := by
  have hsub := liveHist_sublist h
  have ht' : Timeline c ((liveHist h).map Prod.fst) now :=
    ⟨ht.sorted.sublist hsub, fun t m => ht.now_last t (hsub.subset m),
     fun t m => ht.after1970 t (hsub.subset m), ht.now_after1970⟩
  refine ⟨run_live c h, ?_, fun s hs => ?_⟩
  · rw [run_live c h]; exact C17_exact c hc (liveHist h) now ht'
  · exact snap_run_exact c hc.buckets (r_pos hc) h now ht.sorted (tl ht).1 (tl ht).2 ht.now_after1970 s hs

/-! ### non-vacuity: concrete histories satisfy the hypotheses and the conclusions are not trivial -/

/-- 2020-01-01T00:00:00Z -/
private def T0 : Nat := baseSinceZeroNs
private def s (k : Nat) : Nat := T0 + k * 500000000   -- T0 + k/2 seconds

/-- 3 buckets of 1.5 s -/
private def exC : Cfg := ⟨3, 1500000000⟩

private def exH : List (Nat × Ev) :=
  [(s 0, .inc 2), (s 1, .read), (s 4, .inc 5), (s 4, .inc 1), (s 7, .read), (s 8, .inc 4)]

example : Accepted exC := ⟨by decide, by decide⟩
example : Timeline exC (exH.map Prod.fst) (s 9) := ⟨by decide, by decide, by decide, by decide⟩
example : NonNeg exH := by unfold NonNeg; decide
/-- at `T0+4.5 s` the slot of the first increment (`[T0, T0+1.5 s)`) has just left the 3-slot window -/
example : (count exC (run exC exH) (s 9)).2 = 10 := by decide
example : sumIf (fun u => s 9 ≤ u + (exC.n - 1) * exC.r) (incs exH) = 10 := by decide
example : sumIf (fun u => s 9 < u + exC.n * exC.r) (incs exH) = 10 := by decide
/-- half a second earlier the first slot is still inside: the lower bound is strict there -/
example : (count exC (run exC exH) (s 8)).2 = 12 ∧
    sumIf (fun u => s 8 ≤ u + (exC.n - 1) * exC.r) (incs exH) = 10 ∧
    sumIf (fun u => s 8 < u + exC.n * exC.r) (incs exH) = 12 := by decide
/-- idle gap of exactly `n·r` after the last increment -/
example : Timeline exC (exH.map Prod.fst) (s 17) ∧
    (∀ e ∈ exH, isInc e.2 = true → e.1 + exC.n * exC.r ≤ s 17) ∧
    (count exC (run exC exH) (s 14)).2 = 4 ∧ (count exC (run exC exH) (s 17)).2 = 0 := by
  refine ⟨⟨by decide, by decide, by decide, by decide⟩, by decide, by decide, by decide⟩

/-- the witness of the repaired bucket-index defect: 10 buckets of 2 s, one increment, still counted
    10 s and 18 s later, gone after 20 s -/
example : (count ⟨10, 2000000000⟩ (run ⟨10, 2000000000⟩ [(T0, .inc 1)]) (T0 + 10000000000)).2 = 1 ∧
    (count ⟨10, 2000000000⟩ (run ⟨10, 2000000000⟩ [(T0, .inc 1)]) (T0 + 18000000000)).2 = 1 ∧
    (count ⟨10, 2000000000⟩ (run ⟨10, 2000000000⟩ [(T0, .inc 1)]) (T0 + 20000000000)).2 = 0 := by decide

/-- the shared-bucket scenario: increment, `Clone()`, two more increments on the live counter in later
    slots, then the snapshot is read (and incremented), then the live counter -/
private def exD : List (Nat × DEv) :=
  [(s 0, .live (.inc 1)), (s 0, .clone), (s 3, .live (.inc 10)), (s 6, .live (.inc 100)),
   (s 6, .snap .read), (s 6, .snap (.inc 7)), (s 6, .live .read)]

example : Timeline exC (exD.map Prod.fst) (s 6) := ⟨by decide, by decide, by decide, by decide⟩
example : (count exC (Duo.run exC exD).live (s 6)).2 = 111 ∧
    (Duo.run exC exD).snap.map (fun x => (count exC x (s 6)).2) = some 8 ∧
    snapIncs exD = [(s 6, 7), (s 0, 1)] ∧
    incs (liveHist exD) = [(s 6, 100), (s 3, 10), (s 0, 1)] := by decide

private def exR : List (Nat × REv) :=
  [(s 0, .incA 1), (s 0, .incB 3), (s 4, .incA 2), (s 5, .read), (s 6, .incB 1)]

example : Timeline exC (exR.map Prod.fst) (s 9) := ⟨by decide, by decide, by decide, by decide⟩
example : ((Ratio.run exC exR).ratio exC (s 8)).2 = (3, 7) ∧
    ((Ratio.run exC exR).ratio exC (s 9)).2 = (2, 3) ∧
    ((Ratio.run exC exR).ratio exC (s 15)).2 = (0, 0) := by decide

example : newCounter 0 1000000000 = .error .buckets ∧ newCounter 5 999999999 = .error .resolution ∧
    newCounter 5 1000000001 = .ok ⟨5, 1000000001⟩ := by decide

end C17
