import OxyModel.Proofs.RateLimit.SetProps
import OxyModel.Proofs.RateLimit.Retry

/-!
# C13 — rejected requests cost nothing and the advertised wait is sufficient

Model as for C03.  Set level = `RL.consumeSet` (`TokenBucketSet.Consume`), limiter level =
`RL.Limiter.serve` (`TokenLimiter.consumeRates`), the latter also across entry expiry and eviction.

Reading of "a rejected request consumes no quota": no bucket is debited (`C13_reject_no_debit`: the state
after a refusal is *exactly* the state after a bare refill, for every subset of refusing buckets), a
flood of refused requests is indistinguishable from the same number of amount-0 requests and never
lowers any bucket (`C13_flood_free`), and at one instant it changes nothing at all
(`C13_flood_free_same_instant`).  What is *not* true of the code — and is therefore not claimed — is that
a refused request leaves every *later* outcome unchanged: like every request it makes the bucket credit
the whole tokens accrued so far and drop the sub-token remainder of elapsed time
(`updateAvailableTokens` sets `lastRefresh = now`), see `C13_flood_outcome_counterexample`.
-/
namespace C13
open RL TTL

/-! ### no debit on refusal -/

/-- **A refused request debits no bucket**: whatever subset of buckets refused (delay or error), every
    bucket of the set is afterwards exactly what a bare refill at that instant would have made it. -/
theorem C13_reject_no_debit (bs : List Bucket) (now n : Nat) (h : (consumeSet bs now n).2 ≠ .ok) :
    (consumeSet bs now n).1 = bs.map (fun b => { b.refill now with lastConsumed := 0 }) :=
  reject_no_debit bs now n h

/-- … and an admitted one debits every bucket by exactly the amount -/
theorem C13_admit_debits_all (bs : List Bucket) (now n : Nat) (htpt : ∀ b ∈ bs, 0 < b.tpt)
    (h : (consumeSet bs now n).2 = .ok) :
    (consumeSet bs now n).1 = bs.map (fun b => { b.refill now with avail := (b.refill now).avail - n, lastConsumed := n })
    ∧ ∀ b ∈ bs, n ≤ (b.refill now).avail :=
  admit_debits_all bs now n htpt h

theorem ofSRes_ok (x : SRes) : Resp.ofSRes x = .ok ↔ x = .ok := by cases x <;> simp [Resp.ofSRes]
theorem ofSRes_err (x : SRes) : Resp.ofSRes x = .err ↔ x = .err := by cases x <;> simp [Resp.ofSRes]
theorem ofSRes_delay (x : SRes) (d : Nat) : Resp.ofSRes x = .tooMany d ↔ x = .delay d := by
  cases x <;> simp [Resp.ofSRes]

/-- through the limiter: after a 429 / 500 the source's tracked bucket set is the set the request found
    (tracked one, or a new one) with every bucket merely refilled. -/
theorem C13_reject_no_debit_limiter (l : Limiter) (now : Nat) (src : String) (amount : Nat) (rr : List Rate) (victim : String)
    (h : (l.serve now src amount rr victim).2 ≠ .ok) :
    ∃ e, (l.serve now src amount rr victim).1.sets.find? src = some e ∧
      e.val.buckets = (l.current now src (l.resolve rr)).buckets.map (fun b => { b.refill now with lastConsumed := 0 }) := by
  refine ⟨_, serve_find_self l now src amount rr victim, ?_⟩
  rw [serve_resp] at h
  unfold serveEntry at h ⊢
  simp only at h ⊢
  rw [current_eq]
  unfold Limiter.resolve
  unfold BucketSet.consume at h ⊢
  simp only at h ⊢
  exact reject_no_debit _ now amount (fun hok => h ((ofSRes_ok _).mpr hok))

/-! ### floods -/

/-- **Floods of refused requests cannot drain any budget.**  A history of requests that were all refused
    leaves the set in exactly the state the same number of amount-0 requests at the same instants
    would, and no bucket holds fewer tokens than before. -/
theorem C13_flood_free (bs : List Bucket) (hav : ∀ b ∈ bs, b.avail ≤ b.burst) (flood : List (Nat × Nat))
    (hrej : ∀ r ∈ runSet bs flood, r ≠ .ok) :
    afterSet bs flood = afterSet bs (flood.map (fun p => (p.1, 0))) ∧
    List.Forall₂ (fun b b' => b.avail ≤ b'.avail ∧ b'.avail ≤ b'.burst ∧ b'.burst = b.burst ∧ b'.tpt = b.tpt ∧ b'.period = b.period)
      bs (afterSet bs flood) :=
  ⟨flood_as_touches bs flood hrej, flood_no_drain bs hav flood hrej⟩

/-- **At one instant a flood is invisible**: after any request at time `t` (admitted or not), any number
    of refused requests at `t` leave the outcome *and* the effect of the next request at `t` unchanged. -/
theorem C13_flood_free_same_instant (bs0 : List Bucket) (t n0 : Nat) (flood : List (Nat × Nat))
    (ht : ∀ p ∈ flood, p.1 = t) (hrej : ∀ r ∈ runSet (consumeSet bs0 t n0).1 flood, r ≠ .ok) (n' : Nat) :
    consumeSet (afterSet (consumeSet bs0 t n0).1 flood) t n' = consumeSet (consumeSet bs0 t n0).1 t n' :=
  flood_same_instant _ t (settled_after_consumeSet bs0 t n0) flood ht hrej n'

/-- The stronger reading "refused requests between two admitted ones never change the second one's
    outcome" is false of the code: 10 ns/token… here `tpt = 100`, empty bucket refreshed at 0.  Alone, a
    request of 2 at `t = 200` is admitted.  After a refused request of 5 at `t = 150` (which credits one
    token and moves `lastRefresh` to 150, dropping 50 ns) it is refused with delay 100. -/
theorem C13_flood_outcome_counterexample :
    (⟨1000, 100, 5, 0, 0, 0⟩ : Bucket).WF 0 ∧
    (consumeSet [⟨1000, 100, 5, 0, 0, 0⟩] 200 2).2 = .ok ∧
    (consumeSet [⟨1000, 100, 5, 0, 0, 0⟩] 150 5).2 = .delay 400 ∧
    (consumeSet (consumeSet [⟨1000, 100, 5, 0, 0, 0⟩] 150 5).1 200 2).2 = .delay 100 := by decide

/-- **What a refused request does cost: less than one token interval of accrued time per bucket.**
    A refusal leaves every bucket as its bare refill (`C13_reject_no_debit`); that refill (like the one of an
    admitted request) moves `lastRefresh` to `now` when at least one whole token has accrued and drops the
    remainder.  For every well-formed bucket: (i) if less than `tpt` has passed since `lastRefresh` the bucket is
    untouched — refusals less than `tpt` apart lose nothing; (ii) the time credited is never more than the time
    that passed (`tpt · credited ≤ lr' − lr`), and (iii) unless the bucket is full afterwards, less than `tpt` is
    discarded (`lr' − lr < tpt · credited + tpt`).  So `k` refusals cost a bucket fewer than `k` tokens, and
    refusals spaced just under `2·tpt` can halve its refill rate — but never more. -/
theorem C13_refusal_loss_bound (b : Bucket) (now : Nat) (hb : b.WF now) :
    (now - b.lr < b.tpt → b.refill now = b) ∧
    b.lr + b.tpt * ((b.refill now).avail - b.avail) ≤ (b.refill now).lr ∧
    ((b.refill now).avail < b.burst →
      (b.refill now).lr < b.lr + b.tpt * ((b.refill now).avail - b.avail) + b.tpt) := by
  obtain ⟨htpt, hav, hlr⟩ := hb
  have hdiv : b.tpt * ((now - b.lr) / b.tpt) ≤ now - b.lr := Nat.mul_div_le _ _
  have hlt : now - b.lr < b.tpt * ((now - b.lr) / b.tpt) + b.tpt := by
    have := Nat.lt_mul_div_succ (now - b.lr) htpt
    rw [Nat.mul_add] at this; simpa using this
  have hsmall : now - b.lr < b.tpt → (now - b.lr) / b.tpt = 0 := fun h => Nat.div_eq_of_lt h
  have hne : b.tpt ≠ 0 := by omega
  have ha := refill_avail b now hne
  have hl := refill_lr b now
  refine ⟨?_, ?_, ?_⟩
  · intro h
    have hz := hsmall h
    apply Bucket.ext'
    all_goals first | rfl | simp [refill_period, refill_tpt, refill_burst, refill_lastConsumed] | skip
    · rw [ha, hz]; omega
    · rw [hl, hz]; simp
  · rw [ha, hl]
    generalize (now - b.lr) / b.tpt = c at *
    by_cases hc0 : c = 0
    · subst hc0; simp
    · simp only [hne, hc0, or_self, if_false]
      have : b.tpt * (min (b.avail + c) b.burst - b.avail) ≤ b.tpt * c := Nat.mul_le_mul_left _ (by omega)
      omega
  · rw [ha, hl]
    generalize (now - b.lr) / b.tpt = c at *
    intro hfull
    by_cases hc0 : c = 0
    · subst hc0; simp; omega
    · simp only [hne, hc0, or_self, if_false]
      have : min (b.avail + c) b.burst - b.avail = c := by omega
      rw [this]; omega

/-! ### the advertised delay -/

/-- **The advertised delay suffices** (set level): refused with delay `d` at `now`, retried at any
    `t' ≥ now + d` with nothing in between ⇒ admitted. -/
theorem C13_delay_sufficient (bs : List Bucket) (now n d : Nat) (hwf : ∀ b ∈ bs, b.WF now)
    (h : (consumeSet bs now n).2 = .delay d) (t' : Nat) (ht : now + d ≤ t') :
    (consumeSet (consumeSet bs now n).1 t' n).2 = .ok :=
  delay_sufficient bs now n d hwf h t' ht

/-- the delay is positive and at most the time the slowest bucket needs for the whole amount -/
theorem C13_delay_bounds (bs : List Bucket) (now n d : Nat) (hwf : ∀ b ∈ bs, b.WF now)
    (h : (consumeSet bs now n).2 = .delay d) : 0 < d ∧ ∃ b ∈ bs, d ≤ n * b.tpt :=
  delay_bounds bs now n d hwf h

/-- the configuration conditions of the limiter-level theorems -/
abbrev ValidRates := RL.ValidRates
/-- invariant of every limiter state reachable with the default rates `rates` (see `C13_reachable`) -/
abbrev LimiterInv := RL.LimiterInv

/-- every state reachable from `ratelimit.New` by requests with non-decreasing time stamps satisfies
    the invariant the limiter-level theorems assume -/
theorem C13_reachable (rates : List Rate) (hv : ValidRates rates) (capacity : Nat) (reqs : List Req)
    (hs : SortedFrom 0 (reqs.map (·.t))) :
    LimiterInv rates ((Limiter.new rates capacity).after reqs) (lastTime 0 reqs) :=
  inv_after rates hv reqs _ 0 (inv_new rates capacity) hs

theorem serve_consume_eq (rates : List Rate) (l : Limiter) (hd : l.defaults = rates) (t : Nat) (src : String) (n : Nat) (v : String) :
    (l.serve t src n [] v).2 = Resp.ofSRes (consumeSet (currentOf (l.sets.find? src) t rates).buckets t n).2 := by
  rw [serve_resp, hd]
  unfold serveEntry BucketSet.consume
  simp only [List.isEmpty_nil, if_true]

/-- **The advertised delay suffices** (through the limiter, across expiry and eviction): a request of
    `src` answered `429` with `X-Retry-In = d` at `t`, then *any* requests of other sources (which may
    even evict `src`), then the same request at any `t' ≥ t + d` ⇒ `200`. -/
theorem C13_delay_sufficient_limiter (rates : List Rate) (hv : ValidRates rates) (l : Limiter) (now : Nat)
    (hinv : LimiterInv rates l now) (t : Nat) (hnt : now ≤ t) (src : String) (n d : Nat) (v : String)
    (h : (l.serve t src n [] v).2 = .tooMany d)
    (others : List Req) (hoth : ∀ r ∈ others, r.src ≠ src) (t' : Nat) (ht : t + d ≤ t') (v' : String) :
    (((l.serve t src n [] v).1.after others).serve t' src n [] v').2 = .ok := by
  obtain ⟨hd, hall⟩ := hinv
  have he0 : ∀ e', l.sets.find? src = some e' → ∃ tl, tl ≤ t ∧ EntryInv rates e' tl := by
    intro e' he'
    obtain ⟨tl, htl, hi⟩ := hall src e' he'
    exact ⟨tl, by omega, hi⟩
  rw [serve_consume_eq rates l hd, ofSRes_delay] at h
  obtain ⟨_, ⟨tl, htl, hm⟩, _⟩ := currentOf_matches rates hv (l.sets.find? src) t he0
  obtain ⟨_, hb, _, _⟩ := consumeSet_delay _ t n d h
  have hn : ∀ r ∈ rates, n ≤ r.burst := (matches_bursts tl _ rates hm n).mp hb
  have hset := delay_sufficient _ t n d (matches_wf tl t _ rates hm htl) h t' ht
  have he1 := after_others src others hoth (l.serve t src n [] v).1
  rw [serve_find_self, hd] at he1
  rw [serve_resp, after_defaults, serve_defaults, hd]
  exact second_request rates hv (l.sets.find? src) t src n he0 _ he1 t' (by omega) n hn hset

/-! ### idle sources -/

/-- **Idle for `burst × tpt` ⇒ full burst** (one bucket) -/
theorem C13_idle_full_burst (b : Bucket) (t0 now : Nat) (hb : b.WF t0) (h : t0 + b.burst * b.tpt ≤ now) :
    (b.refill now).avail = b.burst :=
  idle_full_burst b t0 now hb h

/-- a set idle that long admits every request no larger than its bursts -/
theorem C13_idle_admits (bs : List Bucket) (t0 now n : Nat) (hwf : ∀ b ∈ bs, b.WF t0)
    (hidle : ∀ b ∈ bs, t0 + b.burst * b.tpt ≤ now) (hn : ∀ b ∈ bs, n ≤ b.burst) :
    (consumeSet bs now n).2 = .ok :=
  idle_admits bs t0 now n hwf hidle hn

/-- through the limiter: whatever `src`'s last request at `t` was and got, after `burst × tpt` of every
    rate without a request of its own (other sources may do anything) any request up to the smallest
    burst is admitted — whether the entry is still tracked, has expired or was evicted. -/
theorem C13_idle_full_burst_limiter (rates : List Rate) (hv : ValidRates rates) (l : Limiter) (now : Nat)
    (hinv : LimiterInv rates l now) (t : Nat) (hnt : now ≤ t) (src : String) (n : Nat) (v : String)
    (others : List Req) (hoth : ∀ r ∈ others, r.src ≠ src) (t' : Nat) (htt : t ≤ t')
    (hidle : ∀ r ∈ rates, t + r.burst * tptOf r.period r.average ≤ t') (n' : Nat) (hn' : ∀ r ∈ rates, n' ≤ r.burst)
    (v' : String) :
    (((l.serve t src n [] v).1.after others).serve t' src n' [] v').2 = .ok := by
  obtain ⟨hd, hall⟩ := hinv
  have he0 : ∀ e', l.sets.find? src = some e' → ∃ tl, tl ≤ t ∧ EntryInv rates e' tl := by
    intro e' he'
    obtain ⟨tl, htl, hi⟩ := hall src e' he'
    exact ⟨tl, by omega, hi⟩
  obtain ⟨_, ⟨tl, htl, hm⟩, _⟩ := currentOf_matches rates hv (l.sets.find? src) t he0
  have hm1 := matches_consumeSet tl t n _ rates hm htl
  have hset : (consumeSet ((currentOf (l.sets.find? src) t rates).consume t n).1.buckets t' n').2 = .ok := by
    apply idle_admits _ t t' n' (matches_wf t t _ rates hm1 (Nat.le_refl _))
    · intro b hb
      obtain ⟨r, hr, m1, m2, m3, _, _⟩ := forall₂_mem_left _ _ _ hm1 b hb
      rw [m2, m3]; exact hidle r hr
    · exact (matches_bursts t _ rates hm1 n').mpr hn'
  have he1 := after_others src others hoth (l.serve t src n [] v).1
  rw [serve_find_self, hd] at he1
  rw [serve_resp, after_defaults, serve_defaults, hd]
  exact second_request rates hv (l.sets.find? src) t src n he0 _ he1 t' htt n' hn' hset

/-! ### larger than the burst -/

/-- **A request larger than some burst is refused outright with an error, never with a delay — and only
    then** (set level; no hypothesis at all). -/
theorem C13_over_burst_is_error (bs : List Bucket) (now n : Nat) :
    (consumeSet bs now n).2 = .err ↔ ∃ b ∈ bs, b.burst < n :=
  over_burst_is_error bs now n

/-- through the limiter: `500` exactly when the amount exceeds the burst of some configured rate -/
theorem C13_over_burst_is_error_limiter (rates : List Rate) (hv : ValidRates rates) (l : Limiter) (now : Nat)
    (hinv : LimiterInv rates l now) (t : Nat) (hnt : now ≤ t) (src : String) (n : Nat) (v : String) :
    (l.serve t src n [] v).2 = .err ↔ ∃ r ∈ rates, r.burst < n := by
  obtain ⟨hd, hall⟩ := hinv
  have he0 : ∀ e', l.sets.find? src = some e' → ∃ tl, tl ≤ t ∧ EntryInv rates e' tl := by
    intro e' he'
    obtain ⟨tl, htl, hi⟩ := hall src e' he'
    exact ⟨tl, by omega, hi⟩
  obtain ⟨_, ⟨tl, _, hm⟩, _⟩ := currentOf_matches rates hv (l.sets.find? src) t he0
  rw [serve_consume_eq rates l hd, ofSRes_err, over_burst_is_error]
  have := matches_bursts tl _ rates hm n
  constructor
  · intro h
    by_contra hc
    push_neg at hc
    obtain ⟨b, hb, hlt⟩ := h
    have := this.mpr hc b hb
    omega
  · intro h
    by_contra hc
    push_neg at hc
    obtain ⟨r, hr, hlt⟩ := h
    have := this.mp hc r hr
    omega

/-! ### non-vacuity -/
section NonVacuity

-- the loss bound on the counterexample's bucket: at 150 one token is credited and 50 ns (< tpt = 100) are dropped
example : (⟨1000, 100, 5, 0, 0, 0⟩ : Bucket).WF 150 ∧ ((⟨1000, 100, 5, 0, 0, 0⟩ : Bucket).refill 150).lr = 150 ∧
    ((⟨1000, 100, 5, 0, 0, 0⟩ : Bucket).refill 150).avail = 1 := by decide
-- two rates (1 s: burst 1; 1 h: 100 tokens, burst 100): the short one refuses, the long one is not debited
example : (consumeSet [mkBucket ⟨second, 1, 1⟩ 0, mkBucket ⟨3600 * second, 100, 100⟩ 0] 0 1).2 = .ok ∧
    (consumeSet (consumeSet [mkBucket ⟨second, 1, 1⟩ 0, mkBucket ⟨3600 * second, 100, 100⟩ 0] 0 1).1 5 1).2
      = .delay 1000000000 ∧
    ((consumeSet (consumeSet [mkBucket ⟨second, 1, 1⟩ 0, mkBucket ⟨3600 * second, 100, 100⟩ 0] 0 1).1 5 1).1.map (·.avail))
      = [0, 99] := by decide
example : ValidRates [⟨second, 1, 1⟩, ⟨3600 * second, 100, 100⟩] := ⟨by decide, by decide⟩
-- a limiter state satisfying the invariant in which a request is answered 429
example : LimiterInv [⟨second, 1, 1⟩] (Limiter.new [⟨second, 1, 1⟩] 2) 0 := inv_new _ _
example : (((Limiter.new [⟨second, 1, 1⟩] 2).serve 0 "a" 1 [] "").1.serve 5 "a" 1 [] "").2 = .tooMany 1000000000 := by decide
-- a request above the burst
example : ((Limiter.new [⟨second, 1, 1⟩] 2).serve 0 "a" 2 [] "").2 = .err := by decide

end NonVacuity

end C13
