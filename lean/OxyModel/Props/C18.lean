import OxyModel.Proofs.CBreaker.Machine
import OxyModel.Proofs.CBreaker.Eval
import OxyModel.Proofs.CBreaker.Window
import OxyModel.Proofs.Hist.Ops
import OxyModel.Proofs.Hist.Composite

/-!
# C18 — the breaker trips exactly when its condition holds; side effects fire once

Property theorems only (helpers: `OxyModel/Proofs/CBreaker/{Machine,Metrics,Eval}.lean`).  Models:
`OxyModel/Model/CBExpr.lean` (`CBExpr.eval` = the combinators of `predicates.go`),
`OxyModel/Model/CBreaker.lean` (`CB.record` = `metrics.Record`, `CB.checkAndSet` = `checkAndSet` — two steps,
other requests may act in between; `CB.complete` = the two back to back, `CB.Metrics` = `RTMetrics`
over the rolling counters of `Model/Counter.lean`).

`Denote env e` is the independently written reading of an expression: comparisons of rational numbers
(`ℚ`) / integers with `= ≠ < ≤ > ≥`, `∧`, `∨`.  `envOf (reader now orc) m` are the values the three
metric functions report on metrics `m` at instant `now`; `C18_env_values` spells them out.
-/
namespace C18
open CB CBExpr

/-- **what the metric functions denote**: the network-error ratio is `netErrors / total` of the window
    counts (0 when nothing is counted), the response-code ratio is the quotient of the summed window counts
    of the two code ranges (0 when the divisor is 0), the latency quantile is the oracle value -/
theorem C18_env_values (now : Nat) (orc : Oracle) (m : Metrics) :
    (envOf (reader now orc) m).ner =
      (if (RCnt.count ccfg m.total now).2 = 0 then 0
       else ((RCnt.count ccfg m.netErrors now).2 : ℚ) / ((RCnt.count ccfg m.total now).2 : ℚ)) ∧
    (∀ a0 a1 b0 b1, (envOf (reader now orc) m).rcr a0 a1 b0 b1 =
      (if codeSum now b0 b1 m.codes = 0 then 0
       else (codeSum now a0 a1 m.codes : ℚ) / (codeSum now b0 b1 m.codes : ℚ))) ∧
    (∀ q, (envOf (reader now orc) m).lat q = (orc.get q : ℤ)) := by
  refine ⟨?_, ?_, fun q => rfl⟩
  · have e3 : RCnt.count ccfg (RCnt.count ccfg m.total now).1 now = RCnt.count ccfg m.total now :=
      count_ceq (count_fst_ceq now m.total)
    show (Metrics.ner now m).2.toQ = _
    rw [ner_eq, e3]
    by_cases hz : (RCnt.count ccfg m.total now).2 = 0
    · rw [if_pos hz, if_pos hz]; simp [Val.toQ]
    · rw [if_neg hz, if_neg hz]; rfl
  · intro a0 a1 b0 b1
    show (Metrics.rcr now a0 a1 b0 b1 m).2.toQ = _
    unfold Metrics.rcr
    dsimp only
    rw [rcrLoop_sums]
    dsimp only
    by_cases hz : codeSum now b0 b1 m.codes = 0
    · rw [if_neg (by simpa using hz), if_pos hz]; simp [Val.toQ]
    · rw [if_pos hz, if_neg hz]; rfl

/-- the responses `(time, code)` the condition is evaluated over when a response with status `code`
    completes at `now` after the trace `es` on a fresh breaker: this one and those recorded since the last
    trip (`recsAfter` restarts from `[]` at every completion that tripped) -/
def recorded (c : Cfg) (es : List Ev) (now code : Nat) : List (Nat × Nat) :=
  (now, code) :: recsAfter c Brk.init [] es

/-- any status code -/
def anyCode : Nat → Bool := fun _ => true
/-- `code < hi && code >= lo`, the range test of `ResponseCodeRatio` -/
def inRange (lo hi : Nat) : Nat → Bool := fun k => decide (k < hi ∧ k ≥ lo)

/-- **the metrics are the current window since the last trip** (composition with the C17 counter
    invariant): after *every* trace — arrivals, records and checks of overlapping requests in any
    interleaving, `recsAfter` collecting every `record` and restarting from `[]` at every check that
    tripped — with non-decreasing time stamps, the values a check at `now` evaluates the condition on are
    quotients of plain counts over **everything recorded so far since the last trip** whose one-second
    slot is among the last ten (`winCount now recs P` = number of `r ∈ recs` with `P r.code` and
    `⌊now/1s⌋ < ⌊r.time/1s⌋ + 10`): network errors (502/504) over all responses; responses in `[a0,a1)`
    over responses in `[b0,b1)`; `0` when the divisor counts nothing.
    (`tmin` = 1970-01-01 + 10 s: earlier clock readings have no bucket.) -/
theorem C18_window (c : Cfg) (es : List Ev) (now : Nat) (orc : Oracle)
    (hsorted : (es.map Ev.time ++ [now]).Pairwise (· ≤ ·))
    (hmin : ∀ e ∈ es, tmin ≤ e.time) (hnow : tmin ≤ now) :
    (envOf (reader now orc) (run c Brk.init es).1.met).ner =
      (if winCount now (recsAfter c Brk.init [] es) anyCode = 0 then 0
       else (winCount now (recsAfter c Brk.init [] es) isNE : ℚ) / (winCount now (recsAfter c Brk.init [] es) anyCode : ℚ)) ∧
    ∀ a0 a1 b0 b1,
      (envOf (reader now orc) (run c Brk.init es).1.met).rcr a0 a1 b0 b1 =
        (if winCount now (recsAfter c Brk.init [] es) (inRange b0 b1) = 0 then 0
         else (winCount now (recsAfter c Brk.init [] es) (inRange a0 a1) : ℚ) /
              (winCount now (recsAfter c Brk.init [] es) (inRange b0 b1) : ℚ)) := by
  have hle : ∀ t ∈ es.map Ev.time, t ≤ now := fun t ht =>
    (List.pairwise_append.mp hsorted).2.2 t ht now (by simp)
  have hs0 : (0 :: es.map Ev.time).Pairwise (· ≤ ·) :=
    List.pairwise_cons.mpr ⟨fun _ _ => Nat.zero_le _, (List.pairwise_append.mp hsorted).1⟩
  obtain ⟨T', hT', hinv⟩ := run_minv c es Brk.init 0 [] (minv_init 0) hs0 hmin
  have hTn : T' ≤ now := by
    rcases List.mem_cons.mp hT' with rfl | h
    · exact Nat.zero_le _
    · exact hle T' h
  obtain ⟨v1, v2, _⟩ := C18_env_values now orc (run c Brk.init es).1.met
  refine ⟨?_, fun a0 a1 b0 b1 => ?_⟩
  · rw [v1, minv_total_count hinv hTn hnow, minv_ne_count hinv hTn hnow]
    rfl
  · rw [v2, minv_codeSum hinv hTn hnow, minv_codeSum hinv hTn hnow]
    rfl

/-- the same for a completion whose `record` and `check` run back to back (`complete`): after *every* trace with non-decreasing time stamps, the values the condition is evaluated
    on at a completion are quotients of plain counts over the responses recorded since the last trip whose
    one-second slot is among the last ten (`winCount now recs P` = number of `r ∈ recs` with `P r.code`
    and `⌊now/1s⌋ < ⌊r.time/1s⌋ + 10`): network errors (502/504) over all responses; responses in
    `[a0,a1)` over responses in `[b0,b1)`; `0` when the divisor counts nothing.
    (`tmin` = 1970-01-01 + 10 s: earlier clock readings have no bucket.) -/
theorem C18_window_fused (c : Cfg) (es : List Ev) (now code : Nat) (orc : Oracle)
    (hsorted : (es.map Ev.time ++ [now]).Pairwise (· ≤ ·))
    (hmin : ∀ e ∈ es, tmin ≤ e.time) (hnow : tmin ≤ now) :
    (envOf (reader now orc) ((run c Brk.init es).1.met.record now code)).ner =
      (if winCount now (recorded c es now code) anyCode = 0 then 0
       else (winCount now (recorded c es now code) isNE : ℚ) / (winCount now (recorded c es now code) anyCode : ℚ)) ∧
    ∀ a0 a1 b0 b1,
      (envOf (reader now orc) ((run c Brk.init es).1.met.record now code)).rcr a0 a1 b0 b1 =
        (if winCount now (recorded c es now code) (inRange b0 b1) = 0 then 0
         else (winCount now (recorded c es now code) (inRange a0 a1) : ℚ) /
              (winCount now (recorded c es now code) (inRange b0 b1) : ℚ)) := by
  have hle : ∀ t ∈ es.map Ev.time, t ≤ now := fun t ht =>
    (List.pairwise_append.mp hsorted).2.2 t ht now (by simp)
  have hs0 : (0 :: es.map Ev.time).Pairwise (· ≤ ·) :=
    List.pairwise_cons.mpr ⟨fun _ _ => Nat.zero_le _, (List.pairwise_append.mp hsorted).1⟩
  obtain ⟨T', hT', hinv⟩ := run_minv c es Brk.init 0 [] (minv_init 0) hs0 hmin
  have hTn : T' ≤ now := by
    rcases List.mem_cons.mp hT' with rfl | h
    · exact Nat.zero_le _
    · exact hle T' h
  have hrec := minv_record hinv hTn hnow code
  obtain ⟨v1, v2, _⟩ := C18_env_values now orc ((run c Brk.init es).1.met.record now code)
  refine ⟨?_, fun a0 a1 b0 b1 => ?_⟩
  · rw [v1, minv_total_count hrec (Nat.le_refl _) hnow, minv_ne_count hrec (Nat.le_refl _) hnow]
    rfl
  · rw [v2, minv_codeSum hrec (Nat.le_refl _) hnow, minv_codeSum hrec (Nat.le_refl _) hnow]
    rfl

/-- **the evaluator is the standard reading**: for every well-typed condition `e` (every nesting of
    `&&`/`||`, all six comparisons, the three functions), on every metrics state, at every instant, the
    Go-style evaluation (short-circuiting combinators, `le = lt || eq`, `neq = !eq`, a fresh read of the
    mutable counters at every mapper call, integer cross-multiplication) is true exactly when `e` holds
    under ordinary comparison and Boolean semantics over the metric values -/
theorem C18_eval_standard (now : Nat) (orc : Oracle) (m : Metrics) (e : Expr) (hwt : e.wellTyped = true) :
    (eval (reader now orc) e m).2 = true ↔ Denote (envOf (reader now orc) m) e :=
  (eval_denote (reader_stable now orc) (reader_wellFormed now orc) m e m hwt (Sim.refl _ _)).1

/-- the same for any metrics source whose reads are repeatable and well-formed (the general lemma) -/
theorem C18_eval_standard_general {σ : Type} (rd : Reader σ) (hst : Stable rd) (hwf : WellFormed rd)
    (s : σ) (e : Expr) (hwt : e.wellTyped = true) :
    (eval rd e s).2 = true ↔ Denote (envOf rd s) e :=
  (eval_denote hst hwf s e s hwt (Sim.refl _ _)).1

/-- **trips iff**: a check at `now` (the `checkAndSet` of a completing request, at whatever point of the
    interleaving) trips the breaker iff an evaluation is due (`now > lastCheck`: the first check after the
    check period), the breaker is not already tripped, and the condition is true — in its standard reading
    — on the metrics as they are, i.e. (by `C18_window`) on everything recorded so far since the last trip
    and inside the window.  The state is `tripped` afterwards iff it was before or the breaker tripped now;
    an evaluation (whatever its outcome, also while tripped) schedules the next one `checkPeriod` later, and
    a check that is not due changes nothing. -/
theorem C18_trips_iff (c : Cfg) (b : Brk) (now : Nat) (orc : Oracle) (hwt : c.cond.wellTyped = true) :
    ((checkAndSet c b now orc).2 = true ↔
      (now > b.lastCheck ∧ b.state ≠ .tripped ∧ Denote (envOf (reader now orc) b.met) c.cond)) ∧
    ((checkAndSet c b now orc).1.state = .tripped ↔
      (b.state = .tripped ∨ (checkAndSet c b now orc).2 = true)) ∧
    ((checkAndSet c b now orc).2 = true → (checkAndSet c b now orc).1.until_ = now + c.fallbackDur) ∧
    (now > b.lastCheck → (checkAndSet c b now orc).1.lastCheck = now + c.checkPeriod) ∧
    (¬ now > b.lastCheck → checkAndSet c b now orc = (b, false)) := by
  have hev := C18_eval_standard now orc b.met c.cond hwt
  refine ⟨?_, ?_, ?_, (check_lastCheck c b now orc).1, (check_lastCheck c b now orc).2⟩
  · rw [check_true_iff, hev]
  · cases hf : (checkAndSet c b now orc).2 with
    | true => simp [(check_true_fields c b now orc hf).1]
    | false => rw [(check_false c b now orc hf).1]; simp
  · intro hf; exact (check_true_fields c b now orc hf).2.1

/-- the same for `record` and `check` run back to back: a completed response at `now` with status `code` trips the breaker iff an evaluation is
    due (`now > lastCheck`: the first completion after the check period), the breaker is not already
    tripped, and the condition is true — in its standard reading — on the metrics that hold this response.
    The state is `tripped` afterwards iff it was before or the breaker tripped now; an evaluation
    (whatever its outcome, also while tripped) schedules the next one `checkPeriod` later, and a completion
    that is not due changes nothing but the recorded metrics. -/
theorem C18_trips_iff_fused (c : Cfg) (b : Brk) (now code : Nat) (orc : Oracle) (hwt : c.cond.wellTyped = true) :
    ((complete c b now code orc).2 = true ↔
      (now > b.lastCheck ∧ b.state ≠ .tripped ∧
        Denote (envOf (reader now orc) (b.met.record now code)) c.cond)) ∧
    ((complete c b now code orc).1.state = .tripped ↔
      (b.state = .tripped ∨ (complete c b now code orc).2 = true)) ∧
    ((complete c b now code orc).2 = true → (complete c b now code orc).1.until_ = now + c.fallbackDur) ∧
    (now > b.lastCheck → (complete c b now code orc).1.lastCheck = now + c.checkPeriod) ∧
    (¬ now > b.lastCheck → complete c b now code orc = ({ b with met := b.met.record now code }, false)) := by
  have hev := C18_eval_standard now orc (b.met.record now code) c.cond hwt
  refine ⟨?_, ?_, ?_, (complete_lastCheck c b now code orc).1, (complete_lastCheck c b now code orc).2⟩
  · rw [complete_true_iff, hev]
  · cases hf : (complete c b now code orc).2 with
    | true => simp [(complete_true_fields c b now code orc hf).1]
    | false => rw [(complete_false c b now code orc hf).1]; simp
  · intro hf; exact (complete_true_fields c b now code orc hf).2.1

/-- **tripping clears the metrics**: right after any event that trips the breaker (a `check`, alone or
    fused with its `record`) the metrics are reset, so that at every later instant, until new responses are
    recorded, the network-error ratio and every response-code ratio read 0 — failures recorded before the
    trip cannot trip the breaker again.  (Ratio functions only: the latency histogram is not modelled;
    that `LatencyAtQuantileMS` forgets the latencies recorded before the trip is checked by the monitor's
    independent bound on the oracle value, not proved here.) -/
theorem C18_trip_clears_metrics (c : Cfg) (b : Brk) (e : Ev) (h : (step c b e).2 = .done true) :
    (step c b e).1.met.codes = [] ∧
    ∀ now' orc', (envOf (reader now' orc') (step c b e).1.met).ner = 0 ∧
      ∀ a0 a1 b0 b1, (envOf (reader now' orc') (step c b e).1.met).rcr a0 a1 b0 b1 = 0 := by
  obtain ⟨m', hm⟩ := (step_done_true c b e h).2.2.2.2.2.2.2
  rw [hm]
  refine ⟨rfl, fun now' orc' => ⟨?_, fun a0 a1 b0 b1 => ?_⟩⟩
  · show (Metrics.ner now' m'.reset).2.toQ = 0
    rw [ner_reset]; simp [Val.toQ]
  · show (Metrics.rcr now' a0 a1 b0 b1 m'.reset).2.toQ = 0
    rw [rcr_reset]; simp [Val.toQ]

/-- **effects once per transition**: over any trace (any number of trip/recover cycles, overlapping
    requests interleaved at the granularity of arrive / record / check) from any breaker, the on-tripped side effect has been launched once per entry into `tripped`
    and the on-standby effect once per entry into `standby`; entries into `tripped` are exactly the
    completions that tripped.  The model counts *launches* of `SideEffect.Exec`: what `Exec` returns (an
    effect may act and then report an error, which the code only logs) does not enter the model, so the
    count is one per transition whatever the outcome; the correspondence check runs succeeding and failing
    effects against these counters. -/
theorem C18_effects_once (c : Cfg) (b : Brk) (es : List Ev) :
    (run c b es).1.tripped = b.tripped + entries .tripped (b.state :: (states c b es).map (·.state)) ∧
    (run c b es).1.standbys = b.standbys + entries .standby (b.state :: (states c b es).map (·.state)) ∧
    (run c b es).1.tripped = b.tripped + (run c b es).2.count (.done true) :=
  ⟨(effects_count c es b).1, (effects_count c es b).2, tripped_count c es b⟩

/-! ### non-vacuity: two full cycles, a compound condition with a tie -/
def T0 : Nat := RCnt.baseSinceZeroNs
/-- `NetworkErrorRatio() >= 0.5 && (ResponseCodeRatio(500, 600, 0, 600) > 0.3 || LatencyAtQuantileMS(50.0) > 100)` -/
def exCond : Expr :=
  .and (.cmp .ge .ner (.float 5 10))
    (.or (.cmp .gt (.rcr (.int 500) (.int 600) (.int 0) (.int 600)) (.float 3 10))
         (.cmp .gt (.lat (.float 500 10)) (.int 100)))
def exCfg : Cfg := ⟨1000, 1000, 100, exCond⟩
def exTrace : List Ev :=
  [.arrive T0, .arrive T0,
   .complete (T0 + 1) 200 [(.float 500 10, 0)],            -- evaluated: 0/1 ≥ 0.5 false
   .complete (T0 + 50) 502 [(.float 500 10, 0)],           -- not due (check period)
   .arrive (T0 + 200), .complete (T0 + 200) 504 [(.float 500 10, 0)],   -- due: 2/3 ≥ 0.5, 2/3 > 0.3: trips
   .arrive (T0 + 1200), .arrive (T0 + 2201),               -- recovery starts; after it: standby
   .complete (T0 + 2300) 502 [(.float 500 10, 0)],          -- due: 1/1 ≥ 0.5 (the metrics were cleared): trips again
   .arrive (T0 + 3300), .arrive (T0 + 4301)]

example : exCond.wellTyped = true := by decide
example : tmin ≤ T0 := by decide
example : (run exCfg Brk.init exTrace).2 =
    [.pass, .pass, .done false, .done false, .pass, .done true, .fallback, .pass, .done true, .fallback, .pass] := by
  decide
example : (run exCfg Brk.init exTrace).1.tripped = 2 ∧ (run exCfg Brk.init exTrace).1.standbys = 2 := by decide
/-- the window over the example trace at its second trip: only the 502 recorded after the first trip counts -/
example : recorded exCfg (exTrace.take 8) (T0 + 2300) 502 = [(T0 + 2300, 502)] := by decide
example : winCount (T0 + 200) (recorded exCfg (exTrace.take 5) (T0 + 200) 504) isNE = 2 ∧
    winCount (T0 + 200) (recorded exCfg (exTrace.take 5) (T0 + 200) 504) anyCode = 3 := by decide

/-- the reviewer's schedule `record_A record_B check_B check_A` with `NetworkErrorRatio() >= 0.5`, A = 502,
    B = 200: the one evaluation sees both responses (1/2) and trips; the other check is not due -/
example : (run ⟨1000, 1000, 100, .cmp .ge .ner (.float 5 10)⟩ Brk.init
    [.arrive T0, .arrive T0, .record (T0 + 5) 502, .record (T0 + 5) 200, .check (T0 + 5) [], .check (T0 + 5) []]).2 =
    [.pass, .pass, .recorded, .recorded, .done true, .done false] := by decide
example : recsAfter ⟨1000, 1000, 100, .cmp .ge .ner (.float 5 10)⟩ Brk.init []
    [.arrive T0, .arrive T0, .record (T0 + 5) 502, .record (T0 + 5) 200] = [(T0 + 5, 200), (T0 + 5, 502)] := by decide

/-- an exact tie: one network error in two responses, `0.5 ≥ 0.5` holds, `0.5 > 0.5` does not -/
example : (eval (reader (T0 + 5) []) (.cmp .ge .ner (.float 5 10)) ((Metrics.init.record T0 200).record (T0 + 5) 502)).2 = true ∧
    (eval (reader (T0 + 5) []) (.cmp .gt .ner (.float 5 10)) ((Metrics.init.record T0 200).record (T0 + 5) 502)).2 = false := by
  decide


/-! ## The latency histogram inside the model

`Model/Hist.lean` follows `hdrhistogram-go v1.1.2` (`hdr.go`), `memmetrics/histogram.go` and `roundtrip.go` branch by
branch; `Model/CBreakerHist.lean` puts it next to the breaker (`CB.Brk × Hist.Rolling`).  Helper lemmas:
`Proofs/Hist/{Index,Counts,Quantile,Rolling,Ops,Composite}.lean`.  The one float step of the code,
`countAtPercentile := int64(q/100·float64(total) + 0.5)`, is **not** modelled: the theorems speak about an arbitrary
count `k` (`1 ≤ k ≤ total`) or about its exact rational reading `Hist.countAtQ`; that the float value equals the rational
one is assumed (the driver computes it in `Float`, and the correspondence run compares the resulting quantiles with the
implementation's on every completion). -/
section Histogram
open Hist

/-- **(a) what a histogram holds**: after any history of `RecordValue` / `Reset` on a new histogram, `counts` has its
    `countsLen = 3328` entries, `counts[i]` is the number of values recorded since the last reset that `countsIndexFor`
    sends to `i`, `totalCount` is the number of those in range — which are exactly the values below 2^32 (µs: about 71.6
    min; larger ones are silently dropped) — and merging two such histograms adds the counts position by position and the
    totals. -/
theorem C18_hist_counts (ops : List HOp) :
    (runOps ops).counts.size = countsLen ∧
    (∀ i, i < countsLen → (runOps ops).counts.getD i 0 = (sinceOps ops).countP (fun v => countsIndexFor v = i)) ∧
    (runOps ops).total = (sinceOps ops).countP (fun v => countsIndexFor v < countsLen) ∧
    (∀ v, countsIndexFor v < countsLen ↔ v < 2 ^ 32) ∧
    ∀ ops2 : List HOp,
      (∀ i, ((runOps ops).merge (runOps ops2)).counts.getD i 0 = (runOps ops).counts.getD i 0 + (runOps ops2).counts.getD i 0) ∧
      ((runOps ops).merge (runOps ops2)).total = (runOps ops).total + (runOps ops2).total := by
  have hr := rep_runOps ops
  refine ⟨hr.1, fun i hi => ?_, ?_, inRange_iff, fun ops2 => ?_⟩
  · rw [hr.2.1 i, countP_held_index ops i hi]
  · rw [hr.2.2.1, length_held]
  · exact (merge_counts hr (rep_runOps ops2)).2

/-- non-vacuity: five records (one of 2^32 µs: dropped), a reset in between -/
def exOps : List HOp := [.record 7, .reset, .record 1000000, .record 300, .record 4294967296, .record 1003000, .record 5000000]
example : sinceOps exOps = [5000000, 1003000, 4294967296, 300, 1000000] := by decide
example : held exOps = [5000000, 1003000, 300, 1000000] := by decide
example : (runOps exOps).total = 4 ∧ (runOps exOps).counts.getD 1780 0 = 2 ∧ (runOps exOps).counts.getD 278 0 = 1 := by
  obtain ⟨_, h2, h3, _⟩ := C18_hist_counts exOps
  refine ⟨?_, ?_, ?_⟩
  · rw [h3]; decide +kernel
  · rw [h2 1780 (by decide)]; decide +kernel
  · rw [h2 278 (by decide)]; decide +kernel
example : ((runOps exOps).merge (runOps [.record 300])).counts.getD 278 0 = 2 := by
  rw [((C18_hist_counts exOps).2.2.2.2 [.record 300]).1 278, (C18_hist_counts exOps).2.1 278 (by decide),
    (C18_hist_counts [.record 300]).2.1 278 (by decide)]
  decide +kernel

/-- **(b) equivalence classes**: for all values `u`, `v` (in particular below 2^32): `lowestEquivalentValue(v) ≤ v ≤
    highestEquivalentValue(v)`; `countsIndexFor` is monotone; two values are counted at the same position iff they have
    the same lowest equivalent value; a class is `highestEq - lowestEq + 1 = 2^bucketIdx(v)` wide, with
    `(highestEq v - lowestEq v)·128 ≤ v < (highestEq v - lowestEq v + 1)·256` — the quantile the histogram reports is less
    than `v/128` (0.79 %) away from a recorded value; below 256 µs the histogram is exact. -/
theorem C18_hist_class (u v : Nat) :
    (lowestEq v ≤ v ∧ v ≤ highestEq v) ∧
    (u ≤ v → countsIndexFor u ≤ countsIndexFor v) ∧
    (countsIndexFor u = countsIndexFor v ↔ lowestEq u = lowestEq v) ∧
    (highestEq v - lowestEq v + 1 = 2 ^ bucketIdx v ∧
      (highestEq v - lowestEq v) * 128 ≤ v ∧ v < (highestEq v - lowestEq v + 1) * 256) ∧
    (v < 256 → lowestEq v = v ∧ highestEq v = v) := by
  refine ⟨⟨lowestEq_le v, le_highestEq v⟩, countsIndexFor_mono, countsIndexFor_eq_iff u v, class_width v, fun h => ?_⟩
  have h1 := (class_width v).1
  rw [bucketIdx_small h] at h1
  have := lowestEq_le v
  have := le_highestEq v
  simp at h1
  omega

/-- non-vacuity: one second (10^6 µs) lies in the class `[999424, 1003519]` (bucket 12, 4096 µs wide), counted at position 1780 -/
example : lowestEq 1000000 = 999424 ∧ highestEq 1000000 = 1003519 ∧ countsIndexFor 1000000 = 1780 ∧ bucketIdx 1000000 = 12 := by
  decide +kernel
example : countsIndexFor 1003519 = countsIndexFor 999424 ∧ countsIndexFor 1003520 = 1781 ∧ countsIndexFor 999423 = 1779 := by
  decide +kernel
example : countsIndexFor 4294967295 = 3327 ∧ countsIndexFor 4294967296 = 3328 ∧ highestEq 4294967295 = 4294967295 := by
  decide +kernel

/-- **(c) rank**: after any history of one histogram, for a count `1 ≤ k ≤ totalCount` the value
    `r = highestEquivalentValue(getValueFromIdxUpToCount(k))` — what `ValueAtPercentile` returns for a non-zero
    percentile whose `countAtPercentile` is `k` — is the highest value equivalent to some held value; at least `k`
    held values are `≤ r`; fewer than `k` held values lie below `lowestEquivalentValue(r)`: `r` is the class of the
    `k`-th smallest held value.  For `k = 0` (an empty histogram, the percentile 0, or `q/100·total < 1/2`) the
    result is 0 whatever has been recorded. -/
theorem C18_quantile_rank (ops : List HOp) :
    (∀ k, 1 ≤ k → k ≤ (runOps ops).total →
      (∃ v ∈ held ops, (runOps ops).valueAtCount k false = highestEq v) ∧
      k ≤ (held ops).countP (fun v => decide (v ≤ (runOps ops).valueAtCount k false)) ∧
      (held ops).countP (fun v => decide (v < lowestEq ((runOps ops).valueAtCount k false))) < k) ∧
    (∀ z, (runOps ops).valueAtCount 0 z = 0) :=
  ⟨fun _ h1 h2 => valueAtCount_rank (rep_runOps ops) h1 h2, valueAtCount_zero _⟩

/-- the exact-rational count of the float step stays inside the histogram: `countAtQ ≤ totalCount` for every percentile
    (the code clamps it to 100), it is 0 for the percentile 0 and `totalCount` from 100 on -/
theorem C18_quantile_count (num den total : Nat) (hd : 0 < den) :
    countAtQ num den total ≤ total ∧ countAtQ 0 den total = 0 ∧ (100 * den ≤ num → countAtQ num den total = total) :=
  ⟨countAtQ_le num den total hd, countAtQ_zero den total hd, countAtQ_full num den total hd⟩

/-- non-vacuity: the median count of four held values is 2, and the second smallest of `held exOps` is one second -/
example : countAtQ 500 10 4 = 2 ∧ countAtQ 999 10 4 = 4 ∧ countAtQ 10 10 4 = 0 ∧ countAtQ 2500 10 4 = 4 := by decide
example : ∃ v ∈ held exOps, (runOps exOps).valueAtCount 2 false = highestEq v := by
  have ht : (runOps exOps).total = 4 := by rw [(C18_hist_counts exOps).2.2.1]; decide +kernel
  exact ((C18_quantile_rank exOps).1 2 (by decide) (by rw [ht]; decide)).1

/-- … and the three clauses pin the value down: the count 2 over `held exOps = [5000000, 1003000, 300, 1000000]` gives the
    class of one second, `highestEq 1000000 = 1003519` -/
example : (runOps exOps).valueAtCount 2 false = 1003519 := by
  have ht : (runOps exOps).total = 4 := by rw [(C18_hist_counts exOps).2.2.1]; decide +kernel
  obtain ⟨⟨v, hv, e⟩, a2, a3⟩ := (C18_quantile_rank exOps).1 2 (by decide) (by rw [ht]; decide)
  rw [e] at a2 a3 ⊢
  have hh : held exOps = [5000000, 1003000, 300, 1000000] := by decide
  rw [hh] at hv a2 a3
  simp only [List.mem_cons, List.not_mem_nil, or_false] at hv
  rcases hv with rfl | rfl | rfl | rfl
  · exact absurd a3 (by decide +kernel)
  · decide +kernel
  · exact absurd a2 (by decide +kernel)
  · decide +kernel

/-- the same on what `LatencyAtQuantileMS` reads — the merge of the rolling histogram after any history of
    `recordLatency` / `reset`: with `win` the microsecond values (below 2^32) of the latencies the ghost slots hold
    (`C18_rolling_window`), `1 ≤ k ≤ totalCount`: the value is the class of the `k`-th smallest of `win`; and the
    predicate's result is that value in whole milliseconds -/
theorem C18_quantile_rank_rolling (es : List REv) :
    (∀ k, 1 ≤ k → k ≤ (runR es).merged.total →
      (∃ v ∈ vals (runG es).slots.flatten, (runR es).merged.valueAtCount k false = highestEq v) ∧
      k ≤ (vals (runG es).slots.flatten).countP (fun v => decide (v ≤ (runR es).merged.valueAtCount k false)) ∧
      (vals (runG es).slots.flatten).countP (fun v => decide (v < lowestEq ((runR es).merged.valueAtCount k false))) < k) ∧
    (∀ kf num den, latencyAtQuantileMS kf (runR es) num den =
      (runR es).merged.valueAtCount (kf num den (runR es).merged.total) (decide (num = 0)) / 1000) := by
  obtain ⟨_, _, _, L, hL, hp⟩ := merged_counts (sim_run es)
  refine ⟨fun k h1 h2 => ?_, fun kf num den => ?_⟩
  · obtain ⟨⟨v, hv, e⟩, a2, a3⟩ := valueAtCount_rank hL h1 h2
    exact ⟨⟨v, mem_of_countP_eq hp hv, e⟩, by rw [← hp]; exact a2, by rw [← hp]; exact a3⟩
  · unfold latencyAtQuantileMS latencyOfMerged
    exact us_to_ms _

/-- **(d) the rolling window**: after any history of `recordLatency` / `reset` (any clock readings), with
    `runG es` the explicit per-bucket lists (`Hist.stepG`: a record at `now` first rotates iff `now - lastRoll ≥ 10 s` —
    once, however long the gap — emptying the next of the six slots and evicting its pairs, then puts `(now, latency)`
    into the current slot; a reset empties all six):
    every sub-histogram holds exactly the microsecond values of its slot; the merged histogram
    holds exactly those of all six slots; and the pairs recorded since the last reset are (as multisets) the pairs in
    the slots plus the pairs evicted by rotations.  So `Merged()` contains exactly the latencies recorded since the
    last reset whose bucket has not been re-used by a later rotation. -/
theorem C18_rolling_window (es : List REv) :
    (runR es).idx = (runG es).idx ∧ (runR es).lastRoll = (runG es).lastRoll ∧
    (runR es).buckets.length = 6 ∧ (runG es).slots.length = 6 ∧
    (∀ j, j < 6 → ∀ i, ((runR es).buckets.getD j H.new).counts.getD i 0 =
        (vals ((runG es).slots.getD j [])).countP (fun v => countsIndexFor v = i)) ∧
    (∀ i, (runR es).merged.counts.getD i 0 = (vals (runG es).slots.flatten).countP (fun v => countsIndexFor v = i)) ∧
    (runR es).merged.total = (vals (runG es).slots.flatten).length ∧
    (sinceReset es).Perm ((runG es).slots.flatten ++ (runG es).dropped) := by
  have hs := sim_run es
  obtain ⟨m1, m2, m3, _⟩ := merged_counts hs
  obtain ⟨s1, s2, _, s4, s5⟩ := hs
  have hlen : (runG es).slots.length = 6 := (ginv_run es).2.1
  refine ⟨s1, s2, s4, hlen, ?_, m2, m3, partition_run es⟩
  intro j hj i
  have : ∀ (bs : List H) (ss : List (List (Nat × Nat))), All₂ (fun h s => Rep h (vals s)) bs ss → ∀ j, j < bs.length →
      Rep (bs.getD j H.new) (vals (ss.getD j [])) := by
    intro bs ss h
    induction h with
    | nil => intro j hj; simp at hj
    | cons hab _ ih =>
      intro j hj
      cases j with
      | zero => simpa using hab
      | succ j => simpa using ih j (by simpa using hj)
  exact (this _ _ s5 j (by rw [s4]; exact hj)).2.1 i

/-- **how recent is surely inside**: if no clock reading of the history exceeds `now`, every pair `(t, d)` recorded since
    the last reset with `now ≤ t + 50 s` (five periods) is still in a slot, with its full multiplicity: the merged
    histogram counts it.  An evicted pair satisfies `t + 50 s < lastRoll ≤ now`. -/
theorem C18_rolling_recent (es : List REv) (now : Nat) (hnow : ∀ e ∈ es, e.time ≤ now)
    (x : Nat × Nat) (hx : x ∈ sinceReset es) (hrecent : now ≤ x.1 + 5 * histPeriod) :
    x ∈ (runG es).slots.flatten ∧ (sinceReset es).count x = (runG es).slots.flatten.count x ∧
    ∀ y ∈ (runG es).dropped, y.1 + 5 * histPeriod < now := by
  have hl := lastRoll_le es now hnow
  have hd := (ginv_run es).2.2.2
  have hnd : x ∉ (runG es).dropped := fun c => by
    have := hd x c
    omega
  have hp := partition_run es
  have hc := hp.count_eq x
  rw [List.count_append, List.count_eq_zero_of_not_mem hnd] at hc
  refine ⟨?_, by omega, fun y hy => by have := hd y hy; omega⟩
  rcases List.mem_append.mp (hp.mem_iff.1 hx) with h | h
  · exact h
  · exact absurd h hnd

/-- the natural-sounding bound "whatever was recorded in the last 60 s (6 buckets × 10 s) is inside" is **false**, and
    the 50 s of `C18_rolling_recent` cannot be improved by a nanosecond: a latency recorded 1 ns before the second
    bucket's period ends is evicted by the record 50 s + 1 ns later (times in ns since the zero time; the first record of a
    fresh histogram always rotates, `lastRoll` being the zero time) -/
def exEvict : List REv :=
  [.record 100000000000 1000000,            -- t = 100 s: rotates into slot 1
   .record 109999999999 2000000,            -- 1 ns before the period ends: same slot
   .record 110000000000 3000000, .record 120000000000 3000000, .record 130000000000 3000000,
   .record 140000000000 3000000, .record 150000000000 3000000,   -- five rotations: slots 2, 3, 4, 5, 0
   .record 160000000000 3000000]            -- the sixth: slot 1 again, its two pairs are evicted

theorem C18_rolling_window_60s_counterexample :
    (∀ e ∈ exEvict, e.time ≤ 160000000000) ∧
    (109999999999, 2000000) ∈ sinceReset exEvict ∧
    160000000000 = 109999999999 + 5 * histPeriod + 1 ∧
    (109999999999, 2000000) ∉ (runG exEvict).slots.flatten ∧
    (runG exEvict).dropped = [(109999999999, 2000000), (100000000000, 1000000)] := by
  decide

/-- … and the merged histogram of the model indeed holds six of the eight latencies there -/
example : (runR exEvict).merged.total = 6 := by
  rw [(C18_rolling_window exEvict).2.2.2.2.2.2.1]; decide

/-- in the other direction nothing bounds the age of what `Merged()` contains: rotation happens only when something is
    recorded, once per record — after an idle hour the hour-old latency is still counted (and needs five more records at
    least 10 s apart to leave) -/
example : (runG [.record 100000000000 900000000, .record 3700000000000 1000000]).slots.flatten =
    [(100000000000, 900000000), (3700000000000, 1000000)] ∧
    (runG [.record 100000000000 900000000, .record 3700000000000 1000000]).dropped = [] := by decide
example : (runR [.record 100000000000 900000000, .record 3700000000000 1000000]).merged.total = 2 := by
  rw [(C18_rolling_window _).2.2.2.2.2.2.1]; decide

/-- non-vacuity of `C18_rolling_recent`: the last six records of `exEvict` are within 50 s of its end -/
example : (110000000000, 3000000) ∈ (runG exEvict).slots.flatten :=
  (C18_rolling_recent exEvict 160000000000 (by decide) (110000000000, 3000000) (by decide) (by decide)).1

/-- a reset in between: only what was recorded afterwards counts -/
example : sinceReset [.record 100000000000 5000000, .reset 101000000000, .record 102000000000 7000000] = [(102000000000, 7000000)] ∧
    (runG [.record 100000000000 5000000, .reset 101000000000, .record 102000000000 7000000]).slots =
      [[(102000000000, 7000000)], [], [], [], [], []] := by decide

end Histogram

/-- **(e) the composite refines the oracle model**: a completion on the breaker-with-histogram is `CB.complete` on the
    breaker with the oracle computed from the model histogram (after this latency was recorded), the histogram being reset
    (at the instant of the check) exactly when the completion tripped; and over every trace — arrivals, records, checks,
    completions in any interleaving — the breaker component and the observations of the composite are those of the oracle
    model `CB.run` on the trace with the oracles filled in (`CBH.toTrace`), at the same instants.  Hence every theorem of
    C05 / C12 / C18 about `CB.run`, `CB.step`, `CB.complete`, `CB.checkAndSet` applies to the composite. -/
theorem C18_latency_oracle_refines (kf : CBH.KF) (c : Cfg) (s : Brk × Hist.Rolling) :
    (∀ now code lat,
      (CBH.completeH kf c s now code lat).1.1 = (complete c s.1 now code (CBH.oracleOf kf c (s.2.recordLatency now lat))).1 ∧
      (CBH.completeH kf c s now code lat).2 = (complete c s.1 now code (CBH.oracleOf kf c (s.2.recordLatency now lat))).2 ∧
      (CBH.completeH kf c s now code lat).1.2 =
        (if (CBH.completeH kf c s now code lat).2 then (s.2.recordLatency now lat).reset now else s.2.recordLatency now lat)) ∧
    (∀ q, (CBH.oracleOf kf c s.2).get q = if q ∈ c.cond.quantiles then CBH.latOf kf s.2 q else 0) ∧
    (∀ es : List CBH.EvH,
      (CBH.runH kf c s es).1.1 = (run c s.1 (CBH.toTrace kf c s es)).1 ∧
      (CBH.runH kf c s es).2 = (run c s.1 (CBH.toTrace kf c s es)).2 ∧
      (CBH.toTrace kf c s es).length = es.length) := by
  refine ⟨fun now code lat => ⟨rfl, rfl, rfl⟩, fun q => ?_, fun es => ?_⟩
  · rw [CBH.oracleOf_eq]
    unfold Oracle.get
    generalize c.cond.quantiles = qs
    induction qs with
    | nil => simp
    | cons a qs ih =>
      rw [List.map_cons, List.find?_cons]
      by_cases h : a = q
      · subst h; simp
      · have h' : ¬ q = a := fun e => h e.symm
        simp only [h, decide_false, List.mem_cons, h', false_or]
        exact ih
  · obtain ⟨h1, h2⟩ := CBH.runH_brk kf c es s
    refine ⟨h1, h2, ?_⟩
    have := congrArg List.length (CBH.toTrace_time kf c es s)
    simpa using this

/-- non-vacuity: `LatencyAtQuantileMS(50.0) > 100` with the exact-rational count; a completion with a latency of one
    second evaluates (first check) and trips; the histogram is reset at that instant -/
example : (CBH.completeH Hist.countAtQ ⟨1000, 1000, 100, .cmp .gt (.lat (.float 500 10)) (.int 100)⟩
    (Brk.init, Hist.Rolling.new) (T0 + 5) 200 1000000000).2 =
    (complete ⟨1000, 1000, 100, .cmp .gt (.lat (.float 500 10)) (.int 100)⟩ Brk.init (T0 + 5) 200
      (CBH.oracleOf Hist.countAtQ ⟨1000, 1000, 100, .cmp .gt (.lat (.float 500 10)) (.int 100)⟩
        (Hist.Rolling.new.recordLatency (T0 + 5) 1000000000))).2 :=
  ((C18_latency_oracle_refines _ _ _).1 _ _ _).2.1

end C18
