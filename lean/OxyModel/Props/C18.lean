import OxyModel.Proofs.CBreaker.Machine
import OxyModel.Proofs.CBreaker.Eval
import OxyModel.Proofs.CBreaker.Window

/-!
# C18 — the breaker trips exactly when its condition holds; side effects fire once

Property theorems only (helpers: `OxyModel/Proofs/CBreaker/{Machine,Metrics,Eval}.lean`).  Models:
`OxyModel/Model/CBExpr.lean` (`CBExpr.eval` = the combinators of `predicates.go`),
`OxyModel/Model/CBreaker.lean` (`CB.record` = `metrics.Record`, `CB.checkAndSet` = `checkAndSet` — two steps,
other requests may act in between; `CB.complete` = the two back to back, `CB.Metrics` = `RTMetrics`
over the rolling counters of `Model/Counter.lean`).

`Denote env e` is the independently written reading of an expression: comparisons of rational numbers
(`ℚ`) / integers with `= ≠ < ≤ > ≥`, `∧`, `∨`.  `envOf (reader now orc) m` are the values the three
metric functions report on metrics `m` at instant `now`; `C18_env_values` spells them out.
-/
namespace C18
open CB CBExpr

/-- **what the metric functions denote**: the network-error ratio is `netErrors / total` of the window
    counts (0 when nothing is counted), the response-code ratio is the quotient of the summed window counts
    of the two code ranges (0 when the divisor is 0), the latency quantile is the oracle value -/
theorem C18_env_values (now : Nat) (orc : Oracle) (m : Metrics) :
    (envOf (reader now orc) m).ner =
      (if (RCnt.count ccfg m.total now).2 = 0 then 0
       else ((RCnt.count ccfg m.netErrors now).2 : ℚ) / ((RCnt.count ccfg m.total now).2 : ℚ)) ∧
    (∀ a0 a1 b0 b1, (envOf (reader now orc) m).rcr a0 a1 b0 b1 =
      (if codeSum now b0 b1 m.codes = 0 then 0
       else (codeSum now a0 a1 m.codes : ℚ) / (codeSum now b0 b1 m.codes : ℚ))) ∧
    (∀ q, (envOf (reader now orc) m).lat q = (orc.get q : ℤ)) := by
  refine ⟨?_, ?_, fun q => rfl⟩
  · have e3 : RCnt.count ccfg (RCnt.count ccfg m.total now).1 now = RCnt.count ccfg m.total now :=
      count_ceq (count_fst_ceq now m.total)
    show (Metrics.ner now m).2.toQ = _
    rw [ner_eq, e3]
    by_cases hz : (RCnt.count ccfg m.total now).2 = 0
    · rw [if_pos hz, if_pos hz]; simp [Val.toQ]
    · rw [if_neg hz, if_neg hz]; rfl
  · intro a0 a1 b0 b1
    show (Metrics.rcr now a0 a1 b0 b1 m).2.toQ = _
    unfold Metrics.rcr
    dsimp only
    rw [rcrLoop_sums]
    dsimp only
    by_cases hz : codeSum now b0 b1 m.codes = 0
    · rw [if_neg (by simpa using hz), if_pos hz]; simp [Val.toQ]
    · rw [if_pos hz, if_neg hz]; rfl

/-- the responses `(time, code)` the condition is evaluated over when a response with status `code`
    completes at `now` after the trace `es` on a fresh breaker: this one and those recorded since the last
    trip (`recsAfter` restarts from `[]` at every completion that tripped) -/
def recorded (c : Cfg) (es : List Ev) (now code : Nat) : List (Nat × Nat) :=
  (now, code) :: recsAfter c Brk.init [] es

/-- any status code -/
def anyCode : Nat → Bool := fun _ => true
/-- `code < hi && code >= lo`, the range test of `ResponseCodeRatio` -/
def inRange (lo hi : Nat) : Nat → Bool := fun k => decide (k < hi ∧ k ≥ lo)

/-- **the metrics are the current window since the last trip** (composition with the C17 counter
    invariant): after *every* trace — arrivals, records and checks of overlapping requests in any
    interleaving, `recsAfter` collecting every `record` and restarting from `[]` at every check that
    tripped — with non-decreasing time stamps, the values a check at `now` evaluates the condition on are
    quotients of plain counts over **everything recorded so far since the last trip** whose one-second
    slot is among the last ten (`winCount now recs P` = number of `r ∈ recs` with `P r.code` and
    `⌊now/1s⌋ < ⌊r.time/1s⌋ + 10`): network errors (502/504) over all responses; responses in `[a0,a1)`
    over responses in `[b0,b1)`; `0` when the divisor counts nothing.
    (`tmin` = 1970-01-01 + 10 s: earlier clock readings have no bucket.) -/
theorem C18_window (c : Cfg) (es : List Ev) (now : Nat) (orc : Oracle)
    (hsorted : (es.map Ev.time ++ [now]).Pairwise (· ≤ ·))
    (hmin : ∀ e ∈ es, tmin ≤ e.time) (hnow : tmin ≤ now) :
    (envOf (reader now orc) (run c Brk.init es).1.met).ner =
      (if winCount now (recsAfter c Brk.init [] es) anyCode = 0 then 0
       else (winCount now (recsAfter c Brk.init [] es) isNE : ℚ) / (winCount now (recsAfter c Brk.init [] es) anyCode : ℚ)) ∧
    ∀ a0 a1 b0 b1,
      (envOf (reader now orc) (run c Brk.init es).1.met).rcr a0 a1 b0 b1 =
        (if winCount now (recsAfter c Brk.init [] es) (inRange b0 b1) = 0 then 0
         else (winCount now (recsAfter c Brk.init [] es) (inRange a0 a1) : ℚ) /
              (winCount now (recsAfter c Brk.init [] es) (inRange b0 b1) : ℚ)) := by
  have hle : ∀ t ∈ es.map Ev.time, t ≤ now := fun t ht =>
    (List.pairwise_append.mp hsorted).2.2 t ht now (by simp)
  have hs0 : (0 :: es.map Ev.time).Pairwise (· ≤ ·) :=
    List.pairwise_cons.mpr ⟨fun _ _ => Nat.zero_le _, (List.pairwise_append.mp hsorted).1⟩
  obtain ⟨T', hT', hinv⟩ := run_minv c es Brk.init 0 [] (minv_init 0) hs0 hmin
  have hTn : T' ≤ now := by
    rcases List.mem_cons.mp hT' with rfl | h
    · exact Nat.zero_le _
    · exact hle T' h
  obtain ⟨v1, v2, _⟩ := C18_env_values now orc (run c Brk.init es).1.met
  refine ⟨?_, fun a0 a1 b0 b1 => ?_⟩
  · rw [v1, minv_total_count hinv hTn hnow, minv_ne_count hinv hTn hnow]
    rfl
  · rw [v2, minv_codeSum hinv hTn hnow, minv_codeSum hinv hTn hnow]
    rfl

/-- the same for a completion whose `record` and `check` run back to back (`complete`): after *every* trace with non-decreasing time stamps, the values the condition is evaluated
    on at a completion are quotients of plain counts over the responses recorded since the last trip whose
    one-second slot is among the last ten (`winCount now recs P` = number of `r ∈ recs` with `P r.code`
    and `⌊now/1s⌋ < ⌊r.time/1s⌋ + 10`): network errors (502/504) over all responses; responses in
    `[a0,a1)` over responses in `[b0,b1)`; `0` when the divisor counts nothing.
    (`tmin` = 1970-01-01 + 10 s: earlier clock readings have no bucket.) -/
theorem C18_window_fused (c : Cfg) (es : List Ev) (now code : Nat) (orc : Oracle)
    (hsorted : (es.map Ev.time ++ [now]).Pairwise (· ≤ ·))
    (hmin : ∀ e ∈ es, tmin ≤ e.time) (hnow : tmin ≤ now) :
    (envOf (reader now orc) ((run c Brk.init es).1.met.record now code)).ner =
      (if winCount now (recorded c es now code) anyCode = 0 then 0
       else (winCount now (recorded c es now code) isNE : ℚ) / (winCount now (recorded c es now code) anyCode : ℚ)) ∧
    ∀ a0 a1 b0 b1,
      (envOf (reader now orc) ((run c Brk.init es).1.met.record now code)).rcr a0 a1 b0 b1 =
        (if winCount now (recorded c es now code) (inRange b0 b1) = 0 then 0
         else (winCount now (recorded c es now code) (inRange a0 a1) : ℚ) /
              (winCount now (recorded c es now code) (inRange b0 b1) : ℚ)) := by
  have hle : ∀ t ∈ es.map Ev.time, t ≤ now := fun t ht =>
    (List.pairwise_append.mp hsorted).2.2 t ht now (by simp)
  have hs0 : (0 :: es.map Ev.time).Pairwise (· ≤ ·) :=
    List.pairwise_cons.mpr ⟨fun _ _ => Nat.zero_le _, (List.pairwise_append.mp hsorted).1⟩
  obtain ⟨T', hT', hinv⟩ := run_minv c es Brk.init 0 [] (minv_init 0) hs0 hmin
  have hTn : T' ≤ now := by
    rcases List.mem_cons.mp hT' with rfl | h
    · exact Nat.zero_le _
    · exact hle T' h
  have hrec := minv_record hinv hTn hnow code
  obtain ⟨v1, v2, _⟩ := C18_env_values now orc ((run c Brk.init es).1.met.record now code)
  refine ⟨?_, fun a0 a1 b0 b1 => ?_⟩
  · rw [v1, minv_total_count hrec (Nat.le_refl _) hnow, minv_ne_count hrec (Nat.le_refl _) hnow]
    rfl
  · rw [v2, minv_codeSum hrec (Nat.le_refl _) hnow, minv_codeSum hrec (Nat.le_refl _) hnow]
    rfl

/-- **the evaluator is the standard reading**: for every well-typed condition `e` (every nesting of
    `&&`/`||`, all six comparisons, the three functions), on every metrics state, at every instant, the
    Go-style evaluation (short-circuiting combinators, `le = lt || eq`, `neq = !eq`, a fresh read of the
    mutable counters at every mapper call, integer cross-multiplication) is true exactly when `e` holds
    under ordinary comparison and Boolean semantics over the metric values -/
theorem C18_eval_standard (now : Nat) (orc : Oracle) (m : Metrics) (e : Expr) (hwt : e.wellTyped = true) :
    (eval (reader now orc) e m).2 = true ↔ Denote (envOf (reader now orc) m) e :=
  (eval_denote (reader_stable now orc) (reader_wellFormed now orc) m e m hwt (Sim.refl _ _)).1

/-- the same for any metrics source whose reads are repeatable and well-formed (the general lemma) -/
theorem C18_eval_standard_general {σ : Type} (rd : Reader σ) (hst : Stable rd) (hwf : WellFormed rd)
    (s : σ) (e : Expr) (hwt : e.wellTyped = true) :
    (eval rd e s).2 = true ↔ Denote (envOf rd s) e :=
  (eval_denote hst hwf s e s hwt (Sim.refl _ _)).1

/-- **trips iff**: a check at `now` (the `checkAndSet` of a completing request, at whatever point of the
    interleaving) trips the breaker iff an evaluation is due (`now > lastCheck`: the first check after the
    check period), the breaker is not already tripped, and the condition is true — in its standard reading
    — on the metrics as they are, i.e. (by `C18_window`) on everything recorded so far since the last trip
    and inside the window.  The state is `tripped` afterwards iff it was before or the breaker tripped now;
    an evaluation (whatever its outcome, also while tripped) schedules the next one `checkPeriod` later, and
    a check that is not due changes nothing. -/
theorem C18_trips_iff (c : Cfg) (b : Brk) (now : Nat) (orc : Oracle) (hwt : c.cond.wellTyped = true) :
    ((checkAndSet c b now orc).2 = true ↔
      (now > b.lastCheck ∧ b.state ≠ .tripped ∧ Denote (envOf (reader now orc) b.met) c.cond)) ∧
    ((checkAndSet c b now orc).1.state = .tripped ↔
      (b.state = .tripped ∨ (checkAndSet c b now orc).2 = true)) ∧
    ((checkAndSet c b now orc).2 = true → (checkAndSet c b now orc).1.until_ = now + c.fallbackDur) ∧
    (now > b.lastCheck → (checkAndSet c b now orc).1.lastCheck = now + c.checkPeriod) ∧
    (¬ now > b.lastCheck → checkAndSet c b now orc = (b, false)) := by
  have hev := C18_eval_standard now orc b.met c.cond hwt
  refine ⟨?_, ?_, ?_, (check_lastCheck c b now orc).1, (check_lastCheck c b now orc).2⟩
  · rw [check_true_iff, hev]
  · cases hf : (checkAndSet c b now orc).2 with
    | true => simp [(check_true_fields c b now orc hf).1]
    | false => rw [(check_false c b now orc hf).1]; simp
  · intro hf; exact (check_true_fields c b now orc hf).2.1

/-- the same for `record` and `check` run back to back: a completed response at `now` with status `code` trips the breaker iff an evaluation is
    due (`now > lastCheck`: the first completion after the check period), the breaker is not already
    tripped, and the condition is true — in its standard reading — on the metrics that hold this response.
    The state is `tripped` afterwards iff it was before or the breaker tripped now; an evaluation
    (whatever its outcome, also while tripped) schedules the next one `checkPeriod` later, and a completion
    that is not due changes nothing but the recorded metrics. -/
theorem C18_trips_iff_fused (c : Cfg) (b : Brk) (now code : Nat) (orc : Oracle) (hwt : c.cond.wellTyped = true) :
    ((complete c b now code orc).2 = true ↔
      (now > b.lastCheck ∧ b.state ≠ .tripped ∧
        Denote (envOf (reader now orc) (b.met.record now code)) c.cond)) ∧
    ((complete c b now code orc).1.state = .tripped ↔
      (b.state = .tripped ∨ (complete c b now code orc).2 = true)) ∧
    ((complete c b now code orc).2 = true → (complete c b now code orc).1.until_ = now + c.fallbackDur) ∧
    (now > b.lastCheck → (complete c b now code orc).1.lastCheck = now + c.checkPeriod) ∧
    (¬ now > b.lastCheck → complete c b now code orc = ({ b with met := b.met.record now code }, false)) := by
  have hev := C18_eval_standard now orc (b.met.record now code) c.cond hwt
  refine ⟨?_, ?_, ?_, (complete_lastCheck c b now code orc).1, (complete_lastCheck c b now code orc).2⟩
  · rw [complete_true_iff, hev]
  · cases hf : (complete c b now code orc).2 with
    | true => simp [(complete_true_fields c b now code orc hf).1]
    | false => rw [(complete_false c b now code orc hf).1]; simp
  · intro hf; exact (complete_true_fields c b now code orc hf).2.1

/-- **tripping clears the metrics**: right after any event that trips the breaker (a `check`, alone or
    fused with its `record`) the metrics are reset, so that at every later instant, until new responses are
    recorded, the network-error ratio and every response-code ratio read 0 — failures recorded before the
    trip cannot trip the breaker again.  (Ratio functions only: the latency histogram is not modelled;
    that `LatencyAtQuantileMS` forgets the latencies recorded before the trip is checked by the monitor's
    independent bound on the oracle value, not proved here.) -/
theorem C18_trip_clears_metrics (c : Cfg) (b : Brk) (e : Ev) (h : (step c b e).2 = .done true) :
    (step c b e).1.met.codes = [] ∧
    ∀ now' orc', (envOf (reader now' orc') (step c b e).1.met).ner = 0 ∧
      ∀ a0 a1 b0 b1, (envOf (reader now' orc') (step c b e).1.met).rcr a0 a1 b0 b1 = 0 := by
  obtain ⟨m', hm⟩ := (step_done_true c b e h).2.2.2.2.2.2.2
  rw [hm]
  refine ⟨rfl, fun now' orc' => ⟨?_, fun a0 a1 b0 b1 => ?_⟩⟩
  · show (Metrics.ner now' m'.reset).2.toQ = 0
    rw [ner_reset]; simp [Val.toQ]
  · show (Metrics.rcr now' a0 a1 b0 b1 m'.reset).2.toQ = 0
    rw [rcr_reset]; simp [Val.toQ]

/-- **effects once per transition**: over any trace (any number of trip/recover cycles, overlapping
    requests interleaved at the granularity of arrive / record / check) from any breaker, the on-tripped side effect has been launched once per entry into `tripped`
    and the on-standby effect once per entry into `standby`; entries into `tripped` are exactly the
    completions that tripped.  The model counts *launches* of `SideEffect.Exec`: what `Exec` returns (an
    effect may act and then report an error, which the code only logs) does not enter the model, so the
    count is one per transition whatever the outcome; the correspondence check runs succeeding and failing
    effects against these counters. -/
theorem C18_effects_once (c : Cfg) (b : Brk) (es : List Ev) :
    (run c b es).1.tripped = b.tripped + entries .tripped (b.state :: (states c b es).map (·.state)) ∧
    (run c b es).1.standbys = b.standbys + entries .standby (b.state :: (states c b es).map (·.state)) ∧
    (run c b es).1.tripped = b.tripped + (run c b es).2.count (.done true) :=
  ⟨(effects_count c es b).1, (effects_count c es b).2, tripped_count c es b⟩

/-! ### non-vacuity: two full cycles, a compound condition with a tie -/
def T0 : Nat := RCnt.baseSinceZeroNs
/-- `NetworkErrorRatio() >= 0.5 && (ResponseCodeRatio(500, 600, 0, 600) > 0.3 || LatencyAtQuantileMS(50.0) > 100)` -/
def exCond : Expr :=
  .and (.cmp .ge .ner (.float 5 10))
    (.or (.cmp .gt (.rcr (.int 500) (.int 600) (.int 0) (.int 600)) (.float 3 10))
         (.cmp .gt (.lat (.float 500 10)) (.int 100)))
def exCfg : Cfg := ⟨1000, 1000, 100, exCond⟩
def exTrace : List Ev :=
  [.arrive T0, .arrive T0,
   .complete (T0 + 1) 200 [(.float 500 10, 0)],            -- evaluated: 0/1 ≥ 0.5 false
   .complete (T0 + 50) 502 [(.float 500 10, 0)],           -- not due (check period)
   .arrive (T0 + 200), .complete (T0 + 200) 504 [(.float 500 10, 0)],   -- due: 2/3 ≥ 0.5, 2/3 > 0.3: trips
   .arrive (T0 + 1200), .arrive (T0 + 2201),               -- recovery starts; after it: standby
   .complete (T0 + 2300) 502 [(.float 500 10, 0)],          -- due: 1/1 ≥ 0.5 (the metrics were cleared): trips again
   .arrive (T0 + 3300), .arrive (T0 + 4301)]

example : exCond.wellTyped = true := by decide
example : tmin ≤ T0 := by decide
example : (run exCfg Brk.init exTrace).2 =
    [.pass, .pass, .done false, .done false, .pass, .done true, .fallback, .pass, .done true, .fallback, .pass] := by
  decide
example : (run exCfg Brk.init exTrace).1.tripped = 2 ∧ (run exCfg Brk.init exTrace).1.standbys = 2 := by decide
/-- the window over the example trace at its second trip: only the 502 recorded after the first trip counts -/
example : recorded exCfg (exTrace.take 8) (T0 + 2300) 502 = [(T0 + 2300, 502)] := by decide
example : winCount (T0 + 200) (recorded exCfg (exTrace.take 5) (T0 + 200) 504) isNE = 2 ∧
    winCount (T0 + 200) (recorded exCfg (exTrace.take 5) (T0 + 200) 504) anyCode = 3 := by decide

/-- the reviewer's schedule `record_A record_B check_B check_A` with `NetworkErrorRatio() >= 0.5`, A = 502,
    B = 200: the one evaluation sees both responses (1/2) and trips; the other check is not due -/
example : (run ⟨1000, 1000, 100, .cmp .ge .ner (.float 5 10)⟩ Brk.init
    [.arrive T0, .arrive T0, .record (T0 + 5) 502, .record (T0 + 5) 200, .check (T0 + 5) [], .check (T0 + 5) []]).2 =
    [.pass, .pass, .recorded, .recorded, .done true, .done false] := by decide
example : recsAfter ⟨1000, 1000, 100, .cmp .ge .ner (.float 5 10)⟩ Brk.init []
    [.arrive T0, .arrive T0, .record (T0 + 5) 502, .record (T0 + 5) 200] = [(T0 + 5, 200), (T0 + 5, 502)] := by decide

/-- an exact tie: one network error in two responses, `0.5 ≥ 0.5` holds, `0.5 > 0.5` does not -/
example : (eval (reader (T0 + 5) []) (.cmp .ge .ner (.float 5 10)) ((Metrics.init.record T0 200).record (T0 + 5) 502)).2 = true ∧
    (eval (reader (T0 + 5) []) (.cmp .gt .ner (.float 5 10)) ((Metrics.init.record T0 200).record (T0 + 5) 502)).2 = false := by
  decide

end C18
