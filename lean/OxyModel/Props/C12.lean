import OxyModel.Proofs.CBreaker.Ramp
import OxyModel.Proofs.CBreaker.Eval

/-!
# C12 — circuit-breaker recovery re-admits traffic along a bounded linear ramp

Property theorems only (helpers: `OxyModel/Proofs/CBreaker/Ramp.lean`).  Model: `CB.RC.allow` =
`ratioController.allowRequest`, `CB.arrive` = `activateFallback`.

A **recovery period** is described without reference to internal counters: the breaker `b` is tripped and
its deadline has passed (`b.until_ ≤ t0`); the request arriving at `t0` starts the recovery; `rest` is any
further history (arrivals in bursts, trickles, after idle gaps; records and checks of completing
requests in any interleaving, with any outcome) during which
the breaker stays `recovering` (`AllRecovering`: no re-trip, not yet back to standby).  `passes` /
`refusals` count the *observed* answers since recovery began (the arrival at `t0` included).  Every
prefix of such a history is such a history, so each statement holds at every instant of the period.
`b` is arbitrary, so this covers every recovery of every cycle.
-/
namespace C12
open CB CBExpr

def Sorted (es : List Ev) : Prop := es.Pairwise (fun x y => x.time ≤ y.time)

/-- the breaker after the recovery-starting arrival -/
private theorem start_recovery (c : Cfg) (b : Brk) (t0 : Nat) (hs : b.state = .tripped) (hdue : b.until_ ≤ t0) :
    step c b (.arrive t0) =
      ({ b with state := .recovering, until_ := t0 + c.recoveryDur, rc := ⟨t0, c.recoveryDur, 0, 1⟩ }, .fallback) := by
  show ((arrive c b t0).2, match (arrive c b t0).1 with | .pass => Obs.pass | .fallback => Obs.fallback) = _
  rw [arrive_tripped_after c b t0 hs hdue]

/-- everything the segment invariant gives for a recovery period -/
private theorem period (c : Cfg) (b : Brk) (t0 : Nat) (rest : List Ev)
    (hs : b.state = .tripped) (hdue : b.until_ ≤ t0) (hsorted : Sorted (.arrive t0 :: rest))
    (hrec : AllRecovering c b (.arrive t0 :: rest)) :
    (run c b (.arrive t0 :: rest)).1.state = .recovering ∧
    (run c b (.arrive t0 :: rest)).1.until_ = t0 + c.recoveryDur ∧
    (run c b (.arrive t0 :: rest)).1.rc.start = t0 ∧
    (run c b (.arrive t0 :: rest)).1.rc.dur = c.recoveryDur ∧
    (run c b (.arrive t0 :: rest)).1.rc.allowed = passes (run c b (.arrive t0 :: rest)).2 ∧
    (run c b (.arrive t0 :: rest)).1.rc.allowed + (run c b (.arrive t0 :: rest)).1.rc.denied =
      passes (run c b (.arrive t0 :: rest)).2 + refusals (run c b (.arrive t0 :: rest)).2 ∧
    (run c b (.arrive t0 :: rest)).1.tripped = b.tripped ∧
    (run c b (.arrive t0 :: rest)).1.standbys = b.standbys ∧
    (∀ t, t0 ≤ t → (∀ e ∈ rest, e.time ≤ t) → (run c b (.arrive t0 :: rest)).1.rc.Ramp t) := by
  have hst := start_recovery c b t0 hs hdue
  have hst1 : (step c b (.arrive t0)).1 =
      { b with state := .recovering, until_ := t0 + c.recoveryDur, rc := ⟨t0, c.recoveryDur, 0, 1⟩ } := by rw [hst]
  have hst2 : (step c b (.arrive t0)).2 = .fallback := by rw [hst]
  have hp := List.pairwise_cons.mp hsorted
  have hrec' : AllRecovering c (step c b (.arrive t0)).1 rest := fun s hs' => hrec s (by simp [states, hs'])
  have hfin := allRecovering_final c rest (step c b (.arrive t0)).1 (by rw [hst1]) hrec'
  obtain ⟨i1, i2, i3, i4, i5, _, i7, i8, i9⟩ :=
    segment c rest (step c b (.arrive t0)).1 t0 (by rw [hst1]) hrec' hp.2
      (fun e he => hp.1 e he) (by rw [hst1]; simp [RC.Ramp])
  have hp0 : ∀ os, passes (Obs.fallback :: os) = passes os := fun os => by simp [passes_cons]
  have hr0 : ∀ os, refusals (Obs.fallback :: os) = refusals os + 1 := fun os => by
    simp [refusals_cons]; omega
  have j1 : (step c b (.arrive t0)).1.until_ = t0 + c.recoveryDur := by rw [hst1]
  have j2 : (step c b (.arrive t0)).1.rc.start = t0 := by rw [hst1]
  have j3 : (step c b (.arrive t0)).1.rc.dur = c.recoveryDur := by rw [hst1]
  have j4 : (step c b (.arrive t0)).1.tripped = b.tripped := by rw [hst1]
  have j5 : (step c b (.arrive t0)).1.standbys = b.standbys := by rw [hst1]
  have j7 : (step c b (.arrive t0)).1.rc.allowed = 0 := by rw [hst1]
  have j8 : (step c b (.arrive t0)).1.rc.denied = 1 := by rw [hst1]
  rw [run_cons, hst2]
  simp only [hp0, hr0]
  exact ⟨hfin, i1.trans j1, i2.trans j2, i3.trans j3, by rw [i7, j7]; omega, by rw [i7, i8, j7, j8]; omega,
    i4.trans j4, i5.trans j5, i9⟩

/-- **ramp bound**: at every instant `t` of the recovery period the fraction of requests passed to the
    protected handler since recovery began is at most `0.5 · (t − t0) / recoveryDuration`
    (cross-multiplied; `passes + refusals ≥ 1`), for every arrival pattern -/
theorem C12_ramp_bound (c : Cfg) (b : Brk) (t0 : Nat) (rest : List Ev) (t : Nat)
    (hs : b.state = .tripped) (hdue : b.until_ ≤ t0) (hsorted : Sorted (.arrive t0 :: rest))
    (hrec : AllRecovering c b (.arrive t0 :: rest)) (ht : ∀ e ∈ Ev.arrive t0 :: rest, e.time ≤ t) :
    2 * c.recoveryDur * passes (run c b (.arrive t0 :: rest)).2 ≤
      (t - t0) * (passes (run c b (.arrive t0 :: rest)).2 + refusals (run c b (.arrive t0 :: rest)).2) := by
  obtain ⟨_, _, p3, p4, p5, p6, _, _, p9⟩ := period c b t0 rest hs hdue hsorted hrec
  have hr := p9 t (ht (.arrive t0) List.mem_cons_self) (fun e he => ht e (List.mem_cons_of_mem _ he))
  unfold RC.Ramp at hr
  rw [p3, p4, p6, p5] at hr
  exact hr

/-- **refused only at the ramp**: if the next request (at `t'`) is refused, passing it would have brought
    the fraction to or above the ramp: `(passes+1)/(passes+refusals+1) ≥ 0.5 · (t' − t0)/recoveryDuration` -/
theorem C12_refuse_only_if (c : Cfg) (b : Brk) (t0 : Nat) (rest : List Ev) (t' : Nat)
    (hs : b.state = .tripped) (hdue : b.until_ ≤ t0) (hsorted : Sorted (.arrive t0 :: rest))
    (hrec : AllRecovering c b (.arrive t0 :: rest))
    (hobs : (step c (run c b (.arrive t0 :: rest)).1 (.arrive t')).2 = .fallback) :
    (t' - t0) * (passes (run c b (.arrive t0 :: rest)).2 + refusals (run c b (.arrive t0 :: rest)).2 + 1) ≤
      2 * c.recoveryDur * (passes (run c b (.arrive t0 :: rest)).2 + 1) := by
  obtain ⟨p1, p2, p3, p4, p5, p6, _, _, _⟩ := period c b t0 rest hs hdue hsorted hrec
  have hle : t' ≤ (run c b (.arrive t0 :: rest)).1.until_ := by
    by_cases hgt : t' > (run c b (.arrive t0 :: rest)).1.until_
    · have := arrive_recovering_after c _ t' p1 hgt
      have h2 : (step c (run c b (.arrive t0 :: rest)).1 (.arrive t')).2 = .pass := by
        show (match (arrive c _ t').1 with | .pass => Obs.pass | .fallback => Obs.fallback) = _
        rw [this]
      rw [h2] at hobs; cases hobs
    · omega
  have hw := arrive_recovering_within c _ t' p1 hle
  have hfalse : ((run c b (.arrive t0 :: rest)).1.rc.allow t').1 = false := by
    cases hb : ((run c b (.arrive t0 :: rest)).1.rc.allow t').1 with
    | false => rfl
    | true =>
      have h2 : (step c (run c b (.arrive t0 :: rest)).1 (.arrive t')).2 = .pass := by
        show (match (arrive c _ t').1 with | .pass => Obs.pass | .fallback => Obs.fallback) = _
        rw [hw, hb]; rfl
      rw [h2] at hobs; cases hobs
  have hn : ¬ 2 * (run c b (.arrive t0 :: rest)).1.rc.dur * ((run c b (.arrive t0 :: rest)).1.rc.allowed + 1) <
      (t' - (run c b (.arrive t0 :: rest)).1.rc.start) *
        ((run c b (.arrive t0 :: rest)).1.rc.allowed + (run c b (.arrive t0 :: rest)).1.rc.denied + 1) := by
    intro h
    have := (allow_true_iff _ t').mpr h
    rw [hfalse] at this; cases this
  rw [p3, p4, p6, p5] at hn
  omega

/-- … and a request is passed only strictly below the ramp -/
theorem C12_pass_only_below (c : Cfg) (b : Brk) (t0 : Nat) (rest : List Ev) (t' : Nat)
    (hs : b.state = .tripped) (hdue : b.until_ ≤ t0) (hsorted : Sorted (.arrive t0 :: rest))
    (hrec : AllRecovering c b (.arrive t0 :: rest)) (hin : t' ≤ t0 + c.recoveryDur)
    (hobs : (step c (run c b (.arrive t0 :: rest)).1 (.arrive t')).2 = .pass) :
    2 * c.recoveryDur * (passes (run c b (.arrive t0 :: rest)).2 + 1) <
      (t' - t0) * (passes (run c b (.arrive t0 :: rest)).2 + refusals (run c b (.arrive t0 :: rest)).2 + 1) := by
  obtain ⟨p1, p2, p3, p4, p5, p6, _, _, _⟩ := period c b t0 rest hs hdue hsorted hrec
  have hw := arrive_recovering_within c _ t' p1 (by rw [p2]; exact hin)
  have htrue : ((run c b (.arrive t0 :: rest)).1.rc.allow t').1 = true := by
    cases hb : ((run c b (.arrive t0 :: rest)).1.rc.allow t').1 with
    | true => rfl
    | false =>
      have h2 : (step c (run c b (.arrive t0 :: rest)).1 (.arrive t')).2 = .fallback := by
        show (match (arrive c _ t').1 with | .pass => Obs.pass | .fallback => Obs.fallback) = _
        rw [hw, hb]; rfl
      rw [h2] at hobs; cases hobs
  have := (allow_true_iff _ t').mp htrue
  rw [p3, p4, p6, p5] at this
  exact this

/-- **back to standby**: if the trip condition has not matched again (the breaker is still recovering),
    the first request after the recovery period (`t' > t0 + recoveryDuration`) is passed and finds the
    breaker in standby, with exactly one on-standby effect launched; a request up to the end of the period
    does not end it -/
theorem C12_first_after_is_standby (c : Cfg) (b : Brk) (t0 : Nat) (rest : List Ev) (t' : Nat)
    (hs : b.state = .tripped) (hdue : b.until_ ≤ t0) (hsorted : Sorted (.arrive t0 :: rest))
    (hrec : AllRecovering c b (.arrive t0 :: rest)) :
    (t' > t0 + c.recoveryDur →
      (step c (run c b (.arrive t0 :: rest)).1 (.arrive t')).2 = .pass ∧
      (step c (run c b (.arrive t0 :: rest)).1 (.arrive t')).1.state = .standby ∧
      (step c (run c b (.arrive t0 :: rest)).1 (.arrive t')).1.standbys = b.standbys + 1 ∧
      (step c (run c b (.arrive t0 :: rest)).1 (.arrive t')).1.tripped = b.tripped) ∧
    (t' ≤ t0 + c.recoveryDur →
      (step c (run c b (.arrive t0 :: rest)).1 (.arrive t')).1.state = .recovering) := by
  obtain ⟨p1, p2, _, _, _, _, p7, p8, _⟩ := period c b t0 rest hs hdue hsorted hrec
  constructor
  · intro hgt
    have ha := arrive_recovering_after c _ t' p1 (by rw [p2]; exact hgt)
    have e1 : (step c (run c b (.arrive t0 :: rest)).1 (.arrive t')).1 = (arrive c _ t').2 := rfl
    have e2 : (step c (run c b (.arrive t0 :: rest)).1 (.arrive t')).2 = .pass := by
      show (match (arrive c _ t').1 with | .pass => Obs.pass | .fallback => Obs.fallback) = _
      rw [ha]
    rw [e1, e2, ha]
    exact ⟨rfl, rfl, by rw [← p8], by rw [← p7]⟩
  · intro hle
    have ha := arrive_recovering_within c _ t' p1 (by rw [p2]; exact hle)
    have e1 : (step c (run c b (.arrive t0 :: rest)).1 (.arrive t')).1 = (arrive c _ t').2 := rfl
    rw [e1, ha]; exact p1

/-- **re-trip**: if during the recovery a `check` (the `checkAndSet` of some completing request, whatever
    other requests recorded or did since that request's own `record`) falls due for evaluation
    (`t' > lastCheck`) and the condition — in its standard reading over everything recorded so far, see
    `C18` — is true, the
    breaker trips again (`done true`, one more on-tripped effect, deadline `t' + fallbackDuration`) and
    shields the backend anew: every request before the new deadline gets the fallback.  If the condition
    is false the breaker keeps recovering. -/
theorem C12_retrip (c : Cfg) (b : Brk) (t0 : Nat) (rest : List Ev) (t' : Nat) (orc : Oracle)
    (hwt : c.cond.wellTyped = true)
    (hs : b.state = .tripped) (hdue : b.until_ ≤ t0) (hsorted : Sorted (.arrive t0 :: rest))
    (hrec : AllRecovering c b (.arrive t0 :: rest))
    (hcheck : t' > (run c b (.arrive t0 :: rest)).1.lastCheck) :
    (Denote (envOf (reader t' orc) (run c b (.arrive t0 :: rest)).1.met) c.cond →
      (step c (run c b (.arrive t0 :: rest)).1 (.check t' orc)).2 = .done true ∧
      (step c (run c b (.arrive t0 :: rest)).1 (.check t' orc)).1.state = .tripped ∧
      (step c (run c b (.arrive t0 :: rest)).1 (.check t' orc)).1.until_ = t' + c.fallbackDur ∧
      (step c (run c b (.arrive t0 :: rest)).1 (.check t' orc)).1.tripped = b.tripped + 1 ∧
      ∀ mid, (∀ e ∈ mid, e.time < t' + c.fallbackDur) →
        (run c (step c (run c b (.arrive t0 :: rest)).1 (.check t' orc)).1 mid).2 = mid.map shieldObs) ∧
    (¬ Denote (envOf (reader t' orc) (run c b (.arrive t0 :: rest)).1.met) c.cond →
      (step c (run c b (.arrive t0 :: rest)).1 (.check t' orc)).2 = .done false ∧
      (step c (run c b (.arrive t0 :: rest)).1 (.check t' orc)).1.state = .recovering) := by
  obtain ⟨p1, _, _, _, _, _, p7, _, _⟩ := period c b t0 rest hs hdue hsorted hrec
  have hev := (eval_denote (reader_stable t' orc) (reader_wellFormed t' orc)
    (run c b (.arrive t0 :: rest)).1.met c.cond _ hwt (Sim.refl _ _)).1
  have hiff := check_true_iff c (run c b (.arrive t0 :: rest)).1 t' orc
  have e1 : ∀ x, (step c x (.check t' orc)).1 = (checkAndSet c x t' orc).1 := fun _ => rfl
  have e2 : ∀ x, (step c x (.check t' orc)).2 = .done (checkAndSet c x t' orc).2 := fun _ => rfl
  constructor
  · intro hd
    have hflag : (checkAndSet c (run c b (.arrive t0 :: rest)).1 t' orc).2 = true :=
      hiff.mpr ⟨hcheck, by rw [p1]; simp, hev.mpr hd⟩
    obtain ⟨f1, f2, f3, _⟩ := check_true_fields c _ t' orc hflag
    rw [e1, e2, hflag]
    refine ⟨rfl, f1, f2, by rw [f3, p7], ?_⟩
    intro mid hmid
    exact (shield c mid _ f1 (fun e he => by rw [f2]; exact hmid e he)).2.2.2.2
  · intro hd
    have hflag : (checkAndSet c (run c b (.arrive t0 :: rest)).1 t' orc).2 = false := by
      cases hf : (checkAndSet c (run c b (.arrive t0 :: rest)).1 t' orc).2 with
      | false => rfl
      | true => exact absurd (hev.mp (hiff.mp hf).2.2) hd
    rw [e1, e2, hflag]
    exact ⟨rfl, ((check_false c _ t' orc hflag).1).trans p1⟩

/-- the same for a completion whose `record` and `check` run back to back (`complete`): if during the recovery a completion falls due for evaluation (`t' > lastCheck`) and the
    condition — in its standard reading over the metrics holding this response, see `C18` — is true, the
    breaker trips again (`done true`, one more on-tripped effect, deadline `t' + fallbackDuration`) and
    shields the backend anew: every request before the new deadline gets the fallback.  If the condition
    is false the breaker keeps recovering. -/
theorem C12_retrip_fused (c : Cfg) (b : Brk) (t0 : Nat) (rest : List Ev) (t' code : Nat) (orc : Oracle)
    (hwt : c.cond.wellTyped = true)
    (hs : b.state = .tripped) (hdue : b.until_ ≤ t0) (hsorted : Sorted (.arrive t0 :: rest))
    (hrec : AllRecovering c b (.arrive t0 :: rest))
    (hcheck : t' > (run c b (.arrive t0 :: rest)).1.lastCheck) :
    (Denote (envOf (reader t' orc) ((run c b (.arrive t0 :: rest)).1.met.record t' code)) c.cond →
      (step c (run c b (.arrive t0 :: rest)).1 (.complete t' code orc)).2 = .done true ∧
      (step c (run c b (.arrive t0 :: rest)).1 (.complete t' code orc)).1.state = .tripped ∧
      (step c (run c b (.arrive t0 :: rest)).1 (.complete t' code orc)).1.until_ = t' + c.fallbackDur ∧
      (step c (run c b (.arrive t0 :: rest)).1 (.complete t' code orc)).1.tripped = b.tripped + 1 ∧
      ∀ mid, (∀ e ∈ mid, e.time < t' + c.fallbackDur) →
        (run c (step c (run c b (.arrive t0 :: rest)).1 (.complete t' code orc)).1 mid).2 = mid.map shieldObs) ∧
    (¬ Denote (envOf (reader t' orc) ((run c b (.arrive t0 :: rest)).1.met.record t' code)) c.cond →
      (step c (run c b (.arrive t0 :: rest)).1 (.complete t' code orc)).2 = .done false ∧
      (step c (run c b (.arrive t0 :: rest)).1 (.complete t' code orc)).1.state = .recovering) := by
  obtain ⟨p1, _, _, _, _, _, p7, _, _⟩ := period c b t0 rest hs hdue hsorted hrec
  have hev := (eval_denote (reader_stable t' orc) (reader_wellFormed t' orc)
    ((run c b (.arrive t0 :: rest)).1.met.record t' code) c.cond _ hwt (Sim.refl _ _)).1
  have hiff := complete_true_iff c (run c b (.arrive t0 :: rest)).1 t' code orc
  have e1 : ∀ x, (step c x (.complete t' code orc)).1 = (complete c x t' code orc).1 := fun _ => rfl
  have e2 : ∀ x, (step c x (.complete t' code orc)).2 = .done (complete c x t' code orc).2 := fun _ => rfl
  constructor
  · intro hd
    have hflag : (complete c (run c b (.arrive t0 :: rest)).1 t' code orc).2 = true :=
      hiff.mpr ⟨hcheck, by rw [p1]; simp, hev.mpr hd⟩
    obtain ⟨f1, f2, f3, _⟩ := complete_true_fields c _ t' code orc hflag
    rw [e1, e2, hflag]
    refine ⟨rfl, f1, f2, by rw [f3, p7], ?_⟩
    intro mid hmid
    exact (shield c mid _ f1 (fun e he => by rw [f2]; exact hmid e he)).2.2.2.2
  · intro hd
    have hflag : (complete c (run c b (.arrive t0 :: rest)).1 t' code orc).2 = false := by
      cases hf : (complete c (run c b (.arrive t0 :: rest)).1 t' code orc).2 with
      | false => rfl
      | true => exact absurd (hev.mp (hiff.mp hf).2.2) hd
    rw [e1, e2, hflag]
    exact ⟨rfl, ((complete_false c _ t' code orc hflag).1).trans p1⟩

/-! ### non-vacuity: a full cycle — trip, fallback period, ramp with refusals and passes, standby again -/
def T0 : Nat := RCnt.baseSinceZeroNs
def exCfg : Cfg := ⟨1000, 1024, 100, .cmp .gt .ner (.float 1 2)⟩
/-- the breaker tripped at `T0` (a 502 on the first completion) -/
def exB : Brk := (run exCfg Brk.init [.arrive T0, .complete T0 502 []]).1
def exRest : List Ev :=
  [.arrive (T0 + 1000 + 256), .arrive (T0 + 1000 + 512), .arrive (T0 + 1000 + 512), .arrive (T0 + 1000 + 768),
   .complete (T0 + 1000 + 800) 200 [], .arrive (T0 + 1000 + 1024)]

example : exB.state = .tripped ∧ exB.until_ = T0 + 1000 := by decide
/-- refused at the start and at 1/4 of the period; at 1/2 the fraction 1/3 is above 0.25; at 3/4 one of
    four passes (`1/4 < 0.375`), and at the very end of the period `2/6 < 0.5` -/
example : (run exCfg exB (.arrive (T0 + 1000) :: exRest)).2 =
    [.fallback, .fallback, .fallback, .fallback, .pass, .done false, .pass] := by decide
example : ∀ s ∈ states exCfg exB (.arrive (T0 + 1000) :: exRest), s.state = .recovering := by decide
example : Sorted (.arrive (T0 + 1000) :: exRest) := by unfold Sorted; decide
/-- the first request after the period is passed and the breaker is back in standby -/
example : (step exCfg (run exCfg exB (.arrive (T0 + 1000) :: exRest)).1 (.arrive (T0 + 1000 + 1025))).2 = .pass ∧
    (step exCfg (run exCfg exB (.arrive (T0 + 1000) :: exRest)).1 (.arrive (T0 + 1000 + 1025))).1.state = .standby := by
  decide
/-- a 504 during the recovery, due for evaluation, trips it again -/
example : (step exCfg (run exCfg exB [.arrive (T0 + 1000), .arrive (T0 + 1000 + 256)]).1
    (.complete (T0 + 1000 + 300) 504 [])).2 = .done true := by decide

end C12
